/-
  Property C15 (refinement of the generated IR): the point layer of /repo/sm2/internal/sm2_point.go as modelled in
  SMGo/Model/Point.lean — `(*SM2Point).Add`, `Double`, `Negate`, `Set`, `Select`, `NewSM2Point`, `NewFromXY`,
  `multiSelectConditioned` / `MultiSelectXY` / `MultiSelectXYZ` / `selectPoints`, `TransformPrecomputed`, the Fermat
  inversion `sm2FermatInvert_FiatAC` / `(*SM2Element).Invert`, `GetAffineX` (constant-time) and `Bytes` — IS what the
  regenerated IR (SMGo/Gen/CTIRProg.lean, interpreter SMGo/Model/CTIR.lean) computes; and with it the two
  multiplication schedules of Props/C14IR close: `ir_scalarBaseMult_eq_model_closed`, `ir_scalarMult_eq_model_closed`
  (only the Fiat primitives as hypotheses) and, the Fiat primitives being theorems (Props/C16IRFiat),
  `ir_scalarMult_eq_model_fiat`, `ir_scalarBaseMult_6_3_14_fiat_std`, `ir_scalarBaseMult_eq_ctxFiat_std`, … with NO
  hypothesis about the code at all.  (Property theorems only; proofs in SMGo/Proofs/CTIRRefinePointA.lean,
  CTIRRefinePointB.lean, CTIRRefineClosed.lean.)

  Encodings: an SM2Element is `elemV l = .arr [limbsV l]`, a point `ptV enc p = .arr [elemV (enc p.x), elemV (enc p.y),
  elemV (enc p.z)]` (`ptRawV a b c` on raw limbs), a table `encT t`.  A receiver (`q` in `q.Add(p1, p2)`) is passed by
  value and returned as first result.  Results `.ret [...]` ↔ `Outcome.ok`; a Go run-time panic is a stuck run for every
  fuel, an explicit `panic(...)` is `Ctl.panic`; fuels are explicit.

  HYPOTHESES and their status (every hypothesis bundle is either discharged below or shown satisfiable for `prog`):
  * `FiatPrims prog G X F enc Fmul Fsq Fadd Fsub Fopp Fone` (PointA): the six straight-line Fiat primitives compute the
    operations of the abstract `FieldOps` on the encodings, for receivers of four 64-bit limbs (`Out4 o`), and every
    element encodes to four 64-bit limbs.  THEOREM for the generated let-chains: `fiatPrims4` (carrier
    `Limbs = {l // Out4 l}`, field `fiatP4` = `Model.SM2.fiatP` restricted to well-formed limbs: `fiatP4_*_val` by `rfl`).
  * `hsq`, `hmul`, `henc`, `hB : ∀ e, BytesPrims …` (PointB) — the same for Square / Mul / FromMontgomery / ToBytes:
    instances of the theorems of Props/C16IRFiat (`bytesPrims4`).
  * `EncOk F enc`, `CtxOk G C enc`, `AffineOk …`: facts about the encoding and the globals of the program
    (`encOk4`, `ctxOk4`, `affineOk4`; the globals are evaluated by the kernel: `globals_0`, `globals_1`, `globals_2`, `globals_6`).
  * `TableOk`, `hT`, `hW`, `hprod`, `hlen`, `hsec`: shape of the tables and of the scheme parameters (Go types); discharged
    for the generated 6-3-14 tables by a kernel-evaluated check (`ir_scalarBaseMult_6_3_14_fiat`).
  * `hX`: what an external returns (`fmt.Errorf` returns one value; `big.Int.SetBytes` is `Bytes.toNatBE`): true of
    `stdOracle extKinds tape` (`_std` variants).

  Findings (model vs IR), all outside the domain the callers use:
  * `Model.Point.multiSelect` checks only `len(row x) = width` and reads other entries with defaults: it returns `.ok`
    on tables where Go and the IR are stuck at an index out of range (row y/z missing or short; empty table):
    excluded by `TableOk`.  `bits ≥ 256` is outside Go's `byte` (the IR compares the raw integer, the model `bits % 256`).
  * `TransformPrecomputed` has no `width` in the model; agreement for `width = len(*precomputed)` (what ScalarMult passes).
  * Select for `cond ∉ {0,1}`: as for the element Select (Props/C16IR): `ir_PointSelect_general` states what the code does.
  * `(*SM2Point).SetBytes` is not in this program (tagless `switch`); it is translated in the extended program
    (SMGo/Gen/CTIRProgProto.lean) and proved in Props/C13IR.
  Axioms: propext, Classical.choice, Quot.sound.
-/
import SMGo.Proofs.CTIRRefineClosed

namespace SMGo.Props.C15IR
open SMGo SMGo.Proofs SMGo.Model.CTIR SMGo.Gen.CTIRProg SMGo.Proofs.CTIRRefineUtils SMGo.Proofs.CTIRRefineField SMGo.Proofs.CTIRRefinePointA
variable {α : Type} {G : Nat → Val} {X : Oracle} {enc : α → List Nat} {C : Model.Point.Ctx α}
  {Fmul Fsq Fadd Fsub Fopp Fone : Nat}

/-! ## Element wrappers and small point functions (SMGo/Proofs/CTIRRefinePointA.lean) -/

/-- (*SM2Element).Mul through sm2Mul -/
theorem ir_Mul {F : Model.Field.FieldOps α} (hp : FiatPrims prog G X F enc Fmul Fsq Fadd Fsub Fopp Fone) (o : List Nat) (ho : Out4 o) (a b : α) :
    ∀ f, fuelW Fmul ≤ f → runV prog G X f f_fiat_SM2Element_Mul [elemV o, elemV (enc a), elemV (enc b)]
      = .ret [elemV (enc (F.mul a b)), elemV (enc (F.mul a b))] :=
  SMGo.Proofs.CTIRRefinePointA.ir_Mul hp o ho a b

/-- Square -/
theorem ir_Square {F : Model.Field.FieldOps α} (hp : FiatPrims prog G X F enc Fmul Fsq Fadd Fsub Fopp Fone) (o : List Nat) (ho : Out4 o) (a : α) :
    ∀ f, fuelW Fsq ≤ f → runV prog G X f f_fiat_SM2Element_Square [elemV o, elemV (enc a)]
      = .ret [elemV (enc (F.square a)), elemV (enc (F.square a))] :=
  SMGo.Proofs.CTIRRefinePointA.ir_Square hp o ho a

/-- Add -/
theorem ir_Add {F : Model.Field.FieldOps α} (hp : FiatPrims prog G X F enc Fmul Fsq Fadd Fsub Fopp Fone) (o : List Nat) (ho : Out4 o) (a b : α) :
    ∀ f, fuelW Fadd ≤ f → runV prog G X f f_fiat_SM2Element_Add [elemV o, elemV (enc a), elemV (enc b)]
      = .ret [elemV (enc (F.add a b)), elemV (enc (F.add a b))] :=
  SMGo.Proofs.CTIRRefinePointA.ir_Add hp o ho a b

/-- Sub -/
theorem ir_Sub {F : Model.Field.FieldOps α} (hp : FiatPrims prog G X F enc Fmul Fsq Fadd Fsub Fopp Fone) (o : List Nat) (ho : Out4 o) (a b : α) :
    ∀ f, fuelW Fsub ≤ f → runV prog G X f f_fiat_SM2Element_Sub [elemV o, elemV (enc a), elemV (enc b)]
      = .ret [elemV (enc (F.sub a b)), elemV (enc (F.sub a b))] :=
  SMGo.Proofs.CTIRRefinePointA.ir_Sub hp o ho a b

/-- Opp -/
theorem ir_Opp {F : Model.Field.FieldOps α} (hp : FiatPrims prog G X F enc Fmul Fsq Fadd Fsub Fopp Fone) (o : List Nat) (ho : Out4 o) (a : α) :
    ∀ f, fuelW Fopp ≤ f → runV prog G X f f_fiat_SM2Element_Opp [elemV o, elemV (enc a)]
      = .ret [elemV (enc (F.opp a)), elemV (enc (F.opp a))] :=
  SMGo.Proofs.CTIRRefinePointA.ir_Opp hp o ho a

/-- One -/
theorem ir_One {F : Model.Field.FieldOps α} (hp : FiatPrims prog G X F enc Fmul Fsq Fadd Fsub Fopp Fone) (o : List Nat) (ho : Out4 o) :
    ∀ f, fuelW Fone ≤ f → runV prog G X f f_fiat_SM2Element_One [elemV o]
      = .ret [elemV (enc F.setOne), elemV (enc F.setOne)] :=
  SMGo.Proofs.CTIRRefinePointA.ir_One hp o ho

/-- (*SM2Element).Set: no hypothesis -/
theorem ir_Set (o t : List Nat) :
    ∀ f, 4 ≤ f → runV prog G X f f_fiat_SM2Element_Set [elemV o, elemV t] = .ret [elemV t, elemV t] :=
  SMGo.Proofs.CTIRRefinePointA.ir_Set o t

/-- SetRaw -/
theorem ir_SetRaw {F : Model.Field.FieldOps α} (o l : List Nat) (ho : o.length = 4) (hl : l.length = 4) (hraw : enc (F.ofRaw l) = l) :
    ∀ f, 6 ≤ f → runV prog G X f f_fiat_SM2Element_SetRaw [elemV o, limbsV l]
      = .ret [elemV (enc (F.ofRaw l)), elemV (enc (F.ofRaw l))] :=
  SMGo.Proofs.CTIRRefinePointA.ir_SetRaw o l ho hl hraw

/-- GetRaw -/
theorem ir_GetRaw {F : Model.Field.FieldOps α} (e : α) (hraw : F.raw e = enc e) :
    ∀ f, 2 ≤ f → runV prog G X f f_fiat_SM2Element_GetRaw [elemV (enc e)] = .ret [limbsV (F.raw e)] :=
  SMGo.Proofs.CTIRRefinePointA.ir_GetRaw e hraw

/-- NewSM2Point = the point at infinity (0 : 1 : 0) -/
theorem ir_NewSM2Point (hp : FiatPrims prog G X C.F enc Fmul Fsq Fadd Fsub Fopp Fone) (hz : enc C.F.zero = [0, 0, 0, 0]) :
    ∀ f, fuelW Fone + 4 ≤ f → runV prog G X f f_internal_NewSM2Point [] = .ret [ptV enc (Model.Point.infinity C)] :=
  SMGo.Proofs.CTIRRefinePointA.ir_NewSM2Point hp hz

/-- NewFromXY -/
theorem ir_NewFromXY (hp : FiatPrims prog G X C.F enc Fmul Fsq Fadd Fsub Fopp Fone)
    (x y : List Nat) (hx : x.length = 4) (hy : y.length = 4) (hrx : enc (C.F.ofRaw x) = x) (hry : enc (C.F.ofRaw y) = y) :
    ∀ f, fuelW Fone + 20 ≤ f → runV prog G X f f_internal_NewFromXY [limbsV x, limbsV y]
      = .ret [ptV enc (Model.Point.fromXY C x y)] :=
  SMGo.Proofs.CTIRRefinePointA.ir_NewFromXY hp x y hx hy hrx hry

/-- (*SM2Point).Set: no hypothesis -/
theorem ir_PointSet (qa qb qc : List Nat) (q : Model.Point.Pt α) :
    ∀ f, 26 ≤ f → runV prog G X f f_internal_SM2Point_Set [ptRawV qa qb qc, ptV enc q] = .ret [ptV enc q, ptV enc q] :=
  SMGo.Proofs.CTIRRefinePointA.ir_PointSet qa qb qc q

/-- (*SM2Point).Negate -/
theorem ir_Negate (hp : FiatPrims prog G X C.F enc Fmul Fsq Fadd Fsub Fopp Fone)
    (qa qb qc : List Nat) (hqb : Out4 qb) (p : Model.Point.Pt α) :
    ∀ f, fuelW Fopp + 22 ≤ f → runV prog G X f f_internal_SM2Point_Negate [ptRawV qa qb qc, ptV enc p]
      = .ret [ptV enc (Model.Point.negate C p), ptV enc (Model.Point.negate C p)] :=
  SMGo.Proofs.CTIRRefinePointA.ir_Negate hp qa qb qc hqb p

/-- (*SM2Point).Select for cond ∈ {0,1} -/
theorem ir_PointSelect (qa qb qc : List Nat) (p1 p2 : Model.Point.Pt α) (cond : Nat)
    (hqa : qa.length = 4) (hqb : qb.length = 4) (hqc : qc.length = 4) (ho : ∀ e, Out4 (enc e)) (hc : cond ≤ 1) :
    ∀ f, fuelPtSelect ≤ f → runV prog G X f f_internal_SM2Point_Select
        [ptRawV qa qb qc, ptV enc p1, ptV enc p2, .int (cond : Int)]
      = .ret [ptV enc (selectPt p1 p2 cond), ptV enc (selectPt p1 p2 cond)] :=
  SMGo.Proofs.CTIRRefinePointA.ir_PointSelect qa qb qc p1 p2 cond hqa hqb hqc ho hc

/-- Select for any cond: the limb mix the code computes -/
theorem ir_PointSelect_general (qa qb qc a1 b1 c1 a2 b2 c2 : List Nat) (cond : Nat)
    (hqa : qa.length = 4) (hqb : qb.length = 4) (hqc : qc.length = 4)
    (ha1 : 4 ≤ a1.length) (hb1 : 4 ≤ b1.length) (hc1 : 4 ≤ c1.length)
    (ha2 : 4 ≤ a2.length) (hb2 : 4 ≤ b2.length) (hc2 : 4 ≤ c2.length) :
    ∀ f, fuelPtSelect ≤ f → runV prog G X f f_internal_SM2Point_Select
        [ptRawV qa qb qc, ptRawV a1 b1 c1, ptRawV a2 b2 c2, .int (cond : Int)]
      = .ret [ptRawV (selectN a1 a2 cond) (selectN b1 b2 cond) (selectN c1 c2 cond),
              ptRawV (selectN a1 a2 cond) (selectN b1 b2 cond) (selectN c1 c2 cond)] :=
  SMGo.Proofs.CTIRRefinePointA.ir_PointSelect_general qa qb qc a1 b1 c1 a2 b2 c2 cond hqa hqb hqc ha1 hb1 hc1 ha2 hb2 hc2

/-- (*SM2Point).Add = Model.Point.add (the complete addition formulas, `Model.SLP.eval` of `Gen.PointSLP.add`) -/
theorem ir_PointAdd (hp : FiatPrims prog G X C.F enc Fmul Fsq Fadd Fsub Fopp Fone)
    (hB : G 6 = elemV (enc C.b)) (hprog : C.addProg = Gen.PointSLP.add) (hout : C.addOut = Gen.PointSLP.add_out)
    (qa qb qc : List Nat) (p1 p2 : Model.Point.Pt α) :
    ∀ f, fuelPtAdd Fmul Fadd Fsub Fsq ≤ f →
      runV prog G X f f_internal_SM2Point_Add [ptRawV qa qb qc, ptV enc p1, ptV enc p2]
        = .ret [ptV enc (Model.Point.add C p1 p2), ptV enc (Model.Point.add C p1 p2)] :=
  SMGo.Proofs.CTIRRefinePointA.ir_PointAdd hp hB hprog hout qa qb qc p1 p2

/-- (*SM2Point).Double = Model.Point.double (`Gen.PointSLP.double`) -/
theorem ir_PointDouble (hp : FiatPrims prog G X C.F enc Fmul Fsq Fadd Fsub Fopp Fone)
    (hB : G 6 = elemV (enc C.b)) (hprog : C.dblProg = Gen.PointSLP.double) (hout : C.dblOut = Gen.PointSLP.double_out)
    (qa qb qc : List Nat) (p : Model.Point.Pt α) :
    ∀ f, fuelPtDouble Fmul Fadd Fsub Fsq ≤ f →
      runV prog G X f f_internal_SM2Point_Double [ptRawV qa qb qc, ptV enc p]
        = .ret [ptV enc (Model.Point.double C p), ptV enc (Model.Point.double C p)] :=
  SMGo.Proofs.CTIRRefinePointA.ir_PointDouble hp hB hprog hout qa qb qc p

/-- closed forms of the fuels of Add and Double -/
theorem fuelPtAdd_eq (Fmul Fadd Fsub Fsq : Nat) : fuelPtAdd Fmul Fadd Fsub Fsq = 14 * Fmul + 20 * Fadd + 9 * Fsub + 456 :=
  SMGo.Proofs.CTIRRefinePointA.fuelPtAdd_eq Fmul Fadd Fsub Fsq
theorem fuelPtDouble_eq (Fmul Fadd Fsub Fsq : Nat) : fuelPtDouble Fmul Fadd Fsub Fsq = 10 * Fmul + 15 * Fadd + 6 * Fsub + 3 * Fsq + 366 :=
  SMGo.Proofs.CTIRRefinePointA.fuelPtDouble_eq Fmul Fadd Fsub Fsq

end SMGo.Props.C15IR

namespace SMGo.Props.C15IR
open SMGo SMGo.Proofs SMGo.Model.CTIR SMGo.Gen.CTIRProg SMGo.Proofs.CTIRRefineUtils SMGo.Proofs.CTIRRefineField SMGo.Proofs.CTIRRefinePointB
open SMGo.Model.Curve (pointOps)
variable {α : Type} {G : Nat → Val} {X : Oracle} {enc : α → List Nat} {F : Model.Field.FieldOps α} {Fsq Fmul Fm Ft : Nat}

/-! ## Table selection, inversion, affine conversion (SMGo/Proofs/CTIRRefinePointB.lean) -/

/-- multiSelectConditioned (and through it MultiSelectXY / MultiSelectXYZ / selectPoints) -/
theorem ir_multiSelectConditioned {C : Model.Point.Ctx α} (he : EncOk C.F enc) (hG : G 0 = elemV (enc C.F.setOne))
    (q : Model.Point.Pt α) (pre : Table) (hasZ : Bool) (width bits : Nat)
    (hb : bits < 256) (hw : width < 9223372036854775808) (ht : TableOk pre hasZ width) :
    match Model.Point.multiSelect C q pre hasZ width bits with
    | .ok r => ∀ f, fuelMSC width ≤ f →
        runV prog G X f f_internal_SM2Point_multiSelectConditioned
          [ptV enc q, CTIRRefineComb.encT pre, .int (if hasZ then 1 else 0), .int (width : Int), .int (bits : Int)]
          = .ret [ptV enc r, ptV enc r]
    | .panic =>
        (∃ F, ∀ f, F ≤ f → runV prog G X f f_internal_SM2Point_multiSelectConditioned
          [ptV enc q, CTIRRefineComb.encT pre, .int (if hasZ then 1 else 0), .int (width : Int), .int (bits : Int)] = .panic) ∨
        (∀ f, runV prog G X f f_internal_SM2Point_multiSelectConditioned
          [ptV enc q, CTIRRefineComb.encT pre, .int (if hasZ then 1 else 0), .int (width : Int), .int (bits : Int)] = .stuck)
    | .err => False :=
  SMGo.Proofs.CTIRRefinePointB.ir_multiSelectConditioned he hG q pre hasZ width bits hb hw ht

/-- TransformPrecomputed -/
theorem ir_TransformPrecomputed {C : Model.Point.Ctx α} (hraw : ∀ e, C.F.raw e = enc e) (pts : List (Model.Point.Pt α))
    (hn : pts.length < 9223372036854775808) :
    ∀ f, fuelTP pts.length ≤ f →
      runV prog G X f f_internal_TransformPrecomputed [.arr (pts.map (ptV enc)), .int (pts.length : Int)]
        = .ret [CTIRRefineComb.encT (Model.Point.transformPrecomputed C pts)] :=
  SMGo.Proofs.CTIRRefinePointB.ir_TransformPrecomputed hraw pts hn

/-- sm2FermatInvert_FiatAC = the generated addition chain `Gen.AddChain.fieldInverse` = Model.Field.invert -/
theorem ir_fermatInvert
    (henc : ∀ e, Out4 (enc e))
    (hsq : ∀ o a, Out4 o → Computes prog G X f_fiat_sm2Square Fsq [limbsV o, limbsV (enc a)] [limbsV (enc (F.square a))])
    (hmul : ∀ o a b, Out4 o → Computes prog G X f_fiat_sm2Mul Fmul [limbsV o, limbsV (enc a), limbsV (enc b)] [limbsV (enc (F.mul a b))])
    (hchain : F.chain = SMGo.Gen.AddChain.fieldInverse) (hregs : F.chainRegs = SMGo.Gen.AddChain.fieldInverse_regs)
    (z0 : List Nat) (hz0 : Out4 z0) (x : α) :
    ∀ f, fuelChain Fsq Fmul ≤ f →
      runV prog G X f f_fiat_sm2FermatInvert_FiatAC [limbsV z0, limbsV (enc x)] = .ret [limbsV (enc (Model.Field.invert F x))] :=
  SMGo.Proofs.CTIRRefinePointB.ir_fermatInvert henc hsq hmul hchain hregs z0 hz0 x

/-- (*SM2Element).Invert -/
theorem ir_Invert
    (henc : ∀ e, Out4 (enc e))
    (hsq : ∀ o a, Out4 o → Computes prog G X f_fiat_sm2Square Fsq [limbsV o, limbsV (enc a)] [limbsV (enc (F.square a))])
    (hmul : ∀ o a b, Out4 o → Computes prog G X f_fiat_sm2Mul Fmul [limbsV o, limbsV (enc a), limbsV (enc b)] [limbsV (enc (F.mul a b))])
    (hchain : F.chain = SMGo.Gen.AddChain.fieldInverse) (hregs : F.chainRegs = SMGo.Gen.AddChain.fieldInverse_regs)
    (z0 : List Nat) (hz0 : Out4 z0) (x : α) :
    ∀ f, fuelInvert Fsq Fmul ≤ f →
      runV prog G X f f_fiat_SM2Element_Invert [elemV z0, elemV (enc x)]
        = .ret [elemV (enc (Model.Field.invert F x)), elemV (enc (Model.Field.invert F x))] :=
  SMGo.Proofs.CTIRRefinePointB.ir_Invert henc hsq hmul hchain hregs z0 hz0 x

/-- (*SM2Point).GetAffineX (the constant-time one) -/
theorem ir_GetAffineX {C : Model.Point.Ctx α}
    (henc : ∀ e, Out4 (enc e))
    (hsq : ∀ o a, Out4 o → Computes prog G X f_fiat_sm2Square Fsq [limbsV o, limbsV (enc a)] [limbsV (enc (C.F.square a))])
    (hmul : ∀ o a b, Out4 o → Computes prog G X f_fiat_sm2Mul Fmul [limbsV o, limbsV (enc a), limbsV (enc b)] [limbsV (enc (C.F.mul a b))])
    (hchain : C.F.chain = SMGo.Gen.AddChain.fieldInverse) (hregs : C.F.chainRegs = SMGo.Gen.AddChain.fieldInverse_regs)
    (hB : ∀ e, BytesPrims prog G X C.F enc Fm Ft e) (hG2 : G 2 = bytesV (Model.Field.bytes C.F C.F.zero))
    (hX : ∀ b : Bytes, X 7 [bytesV b] = [.int ((Bytes.toNatBE b : Nat) : Int)]) (p : Model.Point.Pt α) :
    ∀ f, fuelGetAffineX Fsq Fmul Fm Ft ≤ f →
      runV prog G X f f_internal_SM2Point_GetAffineX [ptV enc p] = .ret [.int ((Model.Point.getAffineX C p : Nat) : Int)] :=
  SMGo.Proofs.CTIRRefinePointB.ir_GetAffineX henc hsq hmul hchain hregs hB hG2 hX p

/-- GetAffineX with the standard oracle -/
theorem ir_GetAffineX_std {C : Model.Point.Ctx α} (tape : Nat → Nat → Nat)
    (henc : ∀ e, Out4 (enc e))
    (hsq : ∀ o a, Out4 o → Computes prog G (stdOracle extKinds tape) f_fiat_sm2Square Fsq [limbsV o, limbsV (enc a)] [limbsV (enc (C.F.square a))])
    (hmul : ∀ o a b, Out4 o → Computes prog G (stdOracle extKinds tape) f_fiat_sm2Mul Fmul [limbsV o, limbsV (enc a), limbsV (enc b)]
      [limbsV (enc (C.F.mul a b))])
    (hchain : C.F.chain = SMGo.Gen.AddChain.fieldInverse) (hregs : C.F.chainRegs = SMGo.Gen.AddChain.fieldInverse_regs)
    (hB : ∀ e, BytesPrims prog G (stdOracle extKinds tape) C.F enc Fm Ft e) (hG2 : G 2 = bytesV (Model.Field.bytes C.F C.F.zero))
    (p : Model.Point.Pt α) :
    ∀ f, fuelGetAffineX Fsq Fmul Fm Ft ≤ f →
      runV prog G (stdOracle extKinds tape) f f_internal_SM2Point_GetAffineX [ptV enc p]
        = .ret [.int ((Model.Point.getAffineX C p : Nat) : Int)] :=
  SMGo.Proofs.CTIRRefinePointB.ir_GetAffineX_std tape henc hsq hmul hchain hregs hB hG2 p

/-- (*SM2Point).Bytes (safe) -/
theorem ir_PointBytes {C : Model.Point.Ctx α}
    (henc : ∀ e, Out4 (enc e))
    (hsq : ∀ o a, Out4 o → Computes prog G X f_fiat_sm2Square Fsq [limbsV o, limbsV (enc a)] [limbsV (enc (C.F.square a))])
    (hmul : ∀ o a b, Out4 o → Computes prog G X f_fiat_sm2Mul Fmul [limbsV o, limbsV (enc a), limbsV (enc b)] [limbsV (enc (C.F.mul a b))])
    (hchain : C.F.chain = SMGo.Gen.AddChain.fieldInverse) (hregs : C.F.chainRegs = SMGo.Gen.AddChain.fieldInverse_regs)
    (hB : ∀ e, BytesPrims prog G X C.F enc Fm Ft e) (hG2 : G 2 = bytesV (Model.Field.bytes C.F C.F.zero))
    (p : Model.Point.Pt α) :
    ∀ f, fuelPointBytes Fsq Fmul Fm Ft ≤ f →
      runV prog G X f f_internal_SM2Point_Bytes [ptV enc p] = .ret [bytesV (Model.Point.bytes C p true)] :=
  SMGo.Proofs.CTIRRefinePointB.ir_PointBytes henc hsq hmul hchain hregs hB hG2 p

end SMGo.Props.C15IR

namespace SMGo.Props.C15IR
open SMGo SMGo.Proofs SMGo.Model.CTIR SMGo.Gen.CTIRProg SMGo.Proofs.CTIRRefineUtils SMGo.Proofs.CTIRRefineField
open SMGo.Proofs.CTIRRefinePointA hiding ptV evalV_coord
open SMGo.Proofs.CTIRRefinePointB (EncOk TableOk ptV computes_comb fuelTP fuelXY fuelSelectPoints Table)
open SMGo.Proofs.CTIRRefineFiat (fuelFiat)
open SMGo.Model.Curve (pointOps)
open SMGo.Proofs.CTIRRefineClosed
open SMGo.Model.SM2 (fiatP pointCtxFiat)
variable {α : Type} {G : Nat → Val} {X : Oracle} {C : Model.Point.Ctx α} {enc : α → List Nat}
  {Fmul Fsq Fadd Fsub Fopp Fone Fm Ft : Nat}

/-! ## The composed schedules: only the Fiat primitives as hypotheses (SMGo/Proofs/CTIRRefineClosed.lean, part 1) -/

/-- ScalarMult = Model.Curve.scalarMult: the callee hypotheses of Props/C14IR discharged by the point layer -/
theorem ir_scalarMult_eq_model_closed (hp : FiatPrims prog G X C.F enc Fmul Fsq Fadd Fsub Fopp Fone) (hc : CtxOk G C enc)
    (Pt : Model.Point.Pt α) (scalar : Bytes) (hlen : scalar.length < 2 ^ 63) :
    match Model.Curve.scalarMult (pointOps C) Pt scalar with
    | .ok r => ∀ f, fuelScalarMult scalar.length Fmul Fsq Fadd Fsub Fone ≤ f →
        runV prog G X f f_internal_ScalarMult [ptV enc Pt, bytesV scalar] = .ret [ptV enc r, .int 0]
    | .panic =>
        (∃ F, ∀ f, F ≤ f → runV prog G X f f_internal_ScalarMult [ptV enc Pt, bytesV scalar] = .panic) ∨
        (∀ f, runV prog G X f f_internal_ScalarMult [ptV enc Pt, bytesV scalar] = .stuck)
    | .err => False :=
  SMGo.Proofs.CTIRRefineClosed.ir_scalarMult_eq_model_closed hp hc Pt scalar hlen

/-- scalarBaseMult_SkipBitExtration = Model.Curve.scalarBaseMult -/
theorem ir_scalarBaseMult_eq_model_closed {W : Nat} (hp : FiatPrims prog G X C.F enc Fmul Fsq Fadd Fsub Fopp Fone)
    (hc : CtxOk G C enc) (k : Bytes) (first : List Table) (second : Table)
    (window subTableCount iterations remainder : Nat)
    (hW : W < 9223372036854775808)
    (hT : ∀ tbl w, CTIRRefineComb.SelUsed ⟨k, first, second, window, subTableCount, iterations, remainder⟩ tbl w →
      (tbl.getD 0 []).length = w → w ≤ W ∧ TableOk tbl false w)
    (hX : ∃ v, X 10 [.int (k.length : Int), .int 32] = [v])
    (hprod : window * subTableCount * iterations + remainder < 2 ^ 63)
    (hlen : subTableCount ≤ first.length) (hsec : 1 ≤ remainder → second ≠ []) :
    match Model.Curve.scalarBaseMult (pointOps C) k first second window subTableCount iterations remainder with
    | .ok r => ∀ f, fuelScalarBaseMult window subTableCount iterations W Fmul Fsq Fadd Fsub Fone ≤ f →
        runV prog G X f f_internal_scalarBaseMult_SkipBitExtration
          [bytesV k, .arr (first.map CTIRRefineComb.encT), CTIRRefineComb.encT second, .int (window : Int), .int (subTableCount : Int),
            .int (iterations : Int), .int (remainder : Int)] = .ret [ptV enc r, .int 0]
    | .err => ∀ f, 20 ≤ f →
        runV prog G X f f_internal_scalarBaseMult_SkipBitExtration
          [bytesV k, .arr (first.map CTIRRefineComb.encT), CTIRRefineComb.encT second, .int (window : Int), .int (subTableCount : Int),
            .int (iterations : Int), .int (remainder : Int)] = .ret [CTIRRefineComb.nilPointV, .int 1]
    | .panic =>
        (∃ F, ∀ f, F ≤ f → runV prog G X f f_internal_scalarBaseMult_SkipBitExtration
          [bytesV k, .arr (first.map CTIRRefineComb.encT), CTIRRefineComb.encT second, .int (window : Int), .int (subTableCount : Int),
            .int (iterations : Int), .int (remainder : Int)] = .panic) ∨
        (∀ f, runV prog G X f f_internal_scalarBaseMult_SkipBitExtration
          [bytesV k, .arr (first.map CTIRRefineComb.encT), CTIRRefineComb.encT second, .int (window : Int), .int (subTableCount : Int),
            .int (iterations : Int), .int (remainder : Int)] = .stuck) :=
  SMGo.Proofs.CTIRRefineClosed.ir_scalarBaseMult_eq_model_closed hp hc k first second window subTableCount iterations remainder hW hT hX hprod hlen hsec

theorem ir_Invert_closed (hp : FiatPrims prog G X C.F enc Fmul Fsq Fadd Fsub Fopp Fone)
    (hchain : C.F.chain = SMGo.Gen.AddChain.fieldInverse) (hregs : C.F.chainRegs = SMGo.Gen.AddChain.fieldInverse_regs)
    (z0 : List Nat) (hz0 : Out4 z0) (x : α) :
    ∀ f, CTIRRefinePointB.fuelInvert Fsq Fmul ≤ f →
      runV prog G X f f_fiat_SM2Element_Invert [elemV z0, elemV (enc x)]
        = .ret [elemV (enc (Model.Field.invert C.F x)), elemV (enc (Model.Field.invert C.F x))] :=
  SMGo.Proofs.CTIRRefineClosed.ir_Invert_closed hp hchain hregs z0 hz0 x

theorem ir_GetAffineX_closed (hp : FiatPrims prog G X C.F enc Fmul Fsq Fadd Fsub Fopp Fone)
    (ha : AffineOk G X C enc Fm Ft)
    (hX : ∀ b : Bytes, X 7 [bytesV b] = [.int ((Bytes.toNatBE b : Nat) : Int)]) (p : Model.Point.Pt α) :
    ∀ f, CTIRRefinePointB.fuelGetAffineX Fsq Fmul Fm Ft ≤ f →
      runV prog G X f f_internal_SM2Point_GetAffineX [ptV enc p] = .ret [.int ((Model.Point.getAffineX C p : Nat) : Int)] :=
  SMGo.Proofs.CTIRRefineClosed.ir_GetAffineX_closed hp ha hX p

theorem ir_PointBytes_closed (hp : FiatPrims prog G X C.F enc Fmul Fsq Fadd Fsub Fopp Fone)
    (ha : AffineOk G X C enc Fm Ft) (p : Model.Point.Pt α) :
    ∀ f, CTIRRefinePointB.fuelPointBytes Fsq Fmul Fm Ft ≤ f →
      runV prog G X f f_internal_SM2Point_Bytes [ptV enc p] = .ret [bytesV (Model.Point.bytes C p true)] :=
  SMGo.Proofs.CTIRRefineClosed.ir_PointBytes_closed hp ha p

/-! ## The hypothesis bundles are theorems for the generated Fiat code (carrier `Limbs`, field `fiatP4`) -/

/-- the Fiat primitives of `prog` compute `fiatP4` (from Props/C16IRFiat) -/
theorem fiatPrims4 : FiatPrims prog G X fiatP4 encL fuelFiat fuelFiat fuelFiat fuelFiat fuelFiat fuelFiat :=
  SMGo.Proofs.CTIRRefineClosed.fiatPrims4 

theorem encOk4 : EncOk fiatP4 encL :=
  SMGo.Proofs.CTIRRefineClosed.encOk4 

theorem bytesPrims4 (e : Limbs) : BytesPrims prog G X fiatP4 encL fuelFiat fuelFiat e :=
  SMGo.Proofs.CTIRRefineClosed.bytesPrims4 e

theorem setBytesPrims4 (old : List Nat) (hold : Out4 old) (v : Bytes) (hv : v.length = 32) :
    SetBytesPrims prog G X fiatP4 encL fuelFiat fuelFiat old v :=
  SMGo.Proofs.CTIRRefineClosed.setBytesPrims4 old hold v hv

theorem ctxOk4 : CtxOk globals pointCtx4 encL :=
  SMGo.Proofs.CTIRRefineClosed.ctxOk4 

theorem affineOk4 : AffineOk globals X pointCtx4 encL fuelFiat fuelFiat :=
  SMGo.Proofs.CTIRRefineClosed.affineOk4 

/-! ## Fully closed statements: `G = globals`, no hypothesis about the code -/

/-- ScalarMult on the generated program, against the model over the generated Fiat functions -/
theorem ir_scalarMult_eq_model_fiat (Pt : Model.Point.Pt Limbs) (scalar : Bytes) (hlen : scalar.length < 2 ^ 63) :
    match Model.Curve.scalarMult (pointOps pointCtx4) Pt scalar with
    | .ok r => ∀ f, fuelScalarMult scalar.length fuelFiat fuelFiat fuelFiat fuelFiat fuelFiat ≤ f →
        runV prog globals X f f_internal_ScalarMult [ptV encL Pt, bytesV scalar] = .ret [ptV encL r, .int 0]
    | .panic =>
        (∃ F, ∀ f, F ≤ f → runV prog globals X f f_internal_ScalarMult [ptV encL Pt, bytesV scalar] = .panic) ∨
        (∀ f, runV prog globals X f f_internal_ScalarMult [ptV encL Pt, bytesV scalar] = .stuck)
    | .err => False :=
  SMGo.Proofs.CTIRRefineClosed.ir_scalarMult_eq_model_fiat Pt scalar hlen

theorem ir_scalarBaseMult_eq_model_fiat {W : Nat} (k : Bytes) (first : List Table) (second : Table)
    (window subTableCount iterations remainder : Nat)
    (hW : W < 9223372036854775808)
    (hT : ∀ tbl w, CTIRRefineComb.SelUsed ⟨k, first, second, window, subTableCount, iterations, remainder⟩ tbl w →
      (tbl.getD 0 []).length = w → w ≤ W ∧ TableOk tbl false w)
    (hX : ∃ v, X 10 [.int (k.length : Int), .int 32] = [v])
    (hprod : window * subTableCount * iterations + remainder < 2 ^ 63)
    (hlen : subTableCount ≤ first.length) (hsec : 1 ≤ remainder → second ≠ []) :
    match Model.Curve.scalarBaseMult (pointOps pointCtx4) k first second window subTableCount iterations remainder with
    | .ok r => ∀ f, fuelScalarBaseMult window subTableCount iterations W fuelFiat fuelFiat fuelFiat fuelFiat fuelFiat ≤ f →
        runV prog globals X f f_internal_scalarBaseMult_SkipBitExtration
          [bytesV k, .arr (first.map CTIRRefineComb.encT), CTIRRefineComb.encT second, .int (window : Int), .int (subTableCount : Int),
            .int (iterations : Int), .int (remainder : Int)] = .ret [ptV encL r, .int 0]
    | .err => ∀ f, 20 ≤ f →
        runV prog globals X f f_internal_scalarBaseMult_SkipBitExtration
          [bytesV k, .arr (first.map CTIRRefineComb.encT), CTIRRefineComb.encT second, .int (window : Int), .int (subTableCount : Int),
            .int (iterations : Int), .int (remainder : Int)] = .ret [CTIRRefineComb.nilPointV, .int 1]
    | .panic =>
        (∃ F, ∀ f, F ≤ f → runV prog globals X f f_internal_scalarBaseMult_SkipBitExtration
          [bytesV k, .arr (first.map CTIRRefineComb.encT), CTIRRefineComb.encT second, .int (window : Int), .int (subTableCount : Int),
            .int (iterations : Int), .int (remainder : Int)] = .panic) ∨
        (∀ f, runV prog globals X f f_internal_scalarBaseMult_SkipBitExtration
          [bytesV k, .arr (first.map CTIRRefineComb.encT), CTIRRefineComb.encT second, .int (window : Int), .int (subTableCount : Int),
            .int (iterations : Int), .int (remainder : Int)] = .stuck) :=
  SMGo.Proofs.CTIRRefineClosed.ir_scalarBaseMult_eq_model_fiat k first second window subTableCount iterations remainder hW hT hX hprod hlen hsec

/-- the comb schedule on the generated 6-3-14 tables: table side conditions discharged -/
theorem ir_scalarBaseMult_6_3_14_fiat {X : Oracle} (k : Bytes) (hX : ∃ v, X 10 [.int (k.length : Int), .int 32] = [v]) :
    match Model.Curve.scalarBaseMult (pointOps pointCtx4) k Gen.SM2Tables.sm2Precomputed_6_3_14
        Gen.SM2Tables.sm2Precomputed_6_3_14_Remainder 6 3 14 4 with
    | .ok r => ∀ f, fuelScalarBaseMult 6 3 14 63 fuelFiat fuelFiat fuelFiat fuelFiat fuelFiat ≤ f →
        runV prog globals X f f_internal_scalarBaseMult_SkipBitExtration
          [bytesV k, .arr (Gen.SM2Tables.sm2Precomputed_6_3_14.map CTIRRefineComb.encT),
            CTIRRefineComb.encT Gen.SM2Tables.sm2Precomputed_6_3_14_Remainder, .int ((6 : Nat) : Int), .int ((3 : Nat) : Int),
            .int ((14 : Nat) : Int), .int ((4 : Nat) : Int)] = .ret [ptV encL r, .int 0]
    | .err => ∀ f, 20 ≤ f →
        runV prog globals X f f_internal_scalarBaseMult_SkipBitExtration
          [bytesV k, .arr (Gen.SM2Tables.sm2Precomputed_6_3_14.map CTIRRefineComb.encT),
            CTIRRefineComb.encT Gen.SM2Tables.sm2Precomputed_6_3_14_Remainder, .int ((6 : Nat) : Int), .int ((3 : Nat) : Int),
            .int ((14 : Nat) : Int), .int ((4 : Nat) : Int)] = .ret [CTIRRefineComb.nilPointV, .int 1]
    | .panic =>
        (∃ F, ∀ f, F ≤ f → runV prog globals X f f_internal_scalarBaseMult_SkipBitExtration
          [bytesV k, .arr (Gen.SM2Tables.sm2Precomputed_6_3_14.map CTIRRefineComb.encT),
            CTIRRefineComb.encT Gen.SM2Tables.sm2Precomputed_6_3_14_Remainder, .int ((6 : Nat) : Int), .int ((3 : Nat) : Int),
            .int ((14 : Nat) : Int), .int ((4 : Nat) : Int)] = .panic) ∨
        (∀ f, runV prog globals X f f_internal_scalarBaseMult_SkipBitExtration
          [bytesV k, .arr (Gen.SM2Tables.sm2Precomputed_6_3_14.map CTIRRefineComb.encT),
            CTIRRefineComb.encT Gen.SM2Tables.sm2Precomputed_6_3_14_Remainder, .int ((6 : Nat) : Int), .int ((3 : Nat) : Int),
            .int ((14 : Nat) : Int), .int ((4 : Nat) : Int)] = .stuck) :=
  SMGo.Proofs.CTIRRefineClosed.ir_scalarBaseMult_6_3_14_fiat k hX

/-- the same with the standard oracle: no hypothesis -/
theorem ir_scalarBaseMult_6_3_14_fiat_std (tape : Nat → Nat → Nat) (k : Bytes) :
    match Model.Curve.scalarBaseMult (pointOps pointCtx4) k Gen.SM2Tables.sm2Precomputed_6_3_14
        Gen.SM2Tables.sm2Precomputed_6_3_14_Remainder 6 3 14 4 with
    | .ok r => ∀ f, fuelScalarBaseMult 6 3 14 63 fuelFiat fuelFiat fuelFiat fuelFiat fuelFiat ≤ f →
        runV prog globals (stdOracle extKinds tape) f f_internal_scalarBaseMult_SkipBitExtration
          [bytesV k, globals 7, globals 8, .int 6, .int 3, .int 14, .int 4] = .ret [ptV encL r, .int 0]
    | .err => ∀ f, 20 ≤ f →
        runV prog globals (stdOracle extKinds tape) f f_internal_scalarBaseMult_SkipBitExtration
          [bytesV k, globals 7, globals 8, .int 6, .int 3, .int 14, .int 4] = .ret [CTIRRefineComb.nilPointV, .int 1]
    | .panic =>
        (∃ F, ∀ f, F ≤ f → runV prog globals (stdOracle extKinds tape) f f_internal_scalarBaseMult_SkipBitExtration
          [bytesV k, globals 7, globals 8, .int 6, .int 3, .int 14, .int 4] = .panic) ∨
        (∀ f, runV prog globals (stdOracle extKinds tape) f f_internal_scalarBaseMult_SkipBitExtration
          [bytesV k, globals 7, globals 8, .int 6, .int 3, .int 14, .int 4] = .stuck) :=
  SMGo.Proofs.CTIRRefineClosed.ir_scalarBaseMult_6_3_14_fiat_std tape k

theorem ir_Invert_fiat (z0 : List Nat) (hz0 : Out4 z0) (x : Limbs) :
    ∀ f, CTIRRefinePointB.fuelInvert fuelFiat fuelFiat ≤ f →
      runV prog globals X f f_fiat_SM2Element_Invert [elemV z0, elemV (encL x)]
        = .ret [elemV (encL (Model.Field.invert fiatP4 x)), elemV (encL (Model.Field.invert fiatP4 x))] :=
  SMGo.Proofs.CTIRRefineClosed.ir_Invert_fiat z0 hz0 x

theorem ir_GetAffineX_fiat (hX : ∀ b : Bytes, X 7 [bytesV b] = [.int ((Bytes.toNatBE b : Nat) : Int)])
    (p : Model.Point.Pt Limbs) :
    ∀ f, CTIRRefinePointB.fuelGetAffineX fuelFiat fuelFiat fuelFiat fuelFiat ≤ f →
      runV prog globals X f f_internal_SM2Point_GetAffineX [ptV encL p]
        = .ret [.int ((Model.Point.getAffineX pointCtx4 p : Nat) : Int)] :=
  SMGo.Proofs.CTIRRefineClosed.ir_GetAffineX_fiat hX p

theorem ir_GetAffineX_fiat_std (tape : Nat → Nat → Nat) (p : Model.Point.Pt Limbs) :
    ∀ f, CTIRRefinePointB.fuelGetAffineX fuelFiat fuelFiat fuelFiat fuelFiat ≤ f →
      runV prog globals (stdOracle extKinds tape) f f_internal_SM2Point_GetAffineX [ptV encL p]
        = .ret [.int ((Model.Point.getAffineX pointCtx4 p : Nat) : Int)] :=
  SMGo.Proofs.CTIRRefineClosed.ir_GetAffineX_fiat_std tape p

theorem ir_PointBytes_fiat (p : Model.Point.Pt Limbs) :
    ∀ f, CTIRRefinePointB.fuelPointBytes fuelFiat fuelFiat fuelFiat fuelFiat ≤ f →
      runV prog globals X f f_internal_SM2Point_Bytes [ptV encL p] = .ret [bytesV (Model.Point.bytes pointCtx4 p true)] :=
  SMGo.Proofs.CTIRRefineClosed.ir_PointBytes_fiat p

theorem ir_PointAdd_fiat (qa qb qc : List Nat) (p1 p2 : Model.Point.Pt Limbs) :
    ∀ f, fuelPtAdd fuelFiat fuelFiat fuelFiat fuelFiat ≤ f →
      runV prog globals X f f_internal_SM2Point_Add [ptRawV qa qb qc, ptV encL p1, ptV encL p2]
        = .ret [ptV encL (Model.Point.add pointCtx4 p1 p2), ptV encL (Model.Point.add pointCtx4 p1 p2)] :=
  SMGo.Proofs.CTIRRefineClosed.ir_PointAdd_fiat qa qb qc p1 p2

theorem ir_PointDouble_fiat (qa qb qc : List Nat) (p : Model.Point.Pt Limbs) :
    ∀ f, fuelPtDouble fuelFiat fuelFiat fuelFiat fuelFiat ≤ f →
      runV prog globals X f f_internal_SM2Point_Double [ptRawV qa qb qc, ptV encL p]
        = .ret [ptV encL (Model.Point.double pointCtx4 p), ptV encL (Model.Point.double pointCtx4 p)] :=
  SMGo.Proofs.CTIRRefineClosed.ir_PointDouble_fiat qa qb qc p

theorem ir_Negate_fiat (qa qb qc : List Nat) (hqb : Out4 qb) (p : Model.Point.Pt Limbs) :
    ∀ f, fuelW fuelFiat + 22 ≤ f → runV prog globals X f f_internal_SM2Point_Negate [ptRawV qa qb qc, ptV encL p]
      = .ret [ptV encL (Model.Point.negate pointCtx4 p), ptV encL (Model.Point.negate pointCtx4 p)] :=
  SMGo.Proofs.CTIRRefineClosed.ir_Negate_fiat qa qb qc hqb p

theorem ir_NewSM2Point_fiat :
    ∀ f, fuelNew fuelFiat ≤ f → runV prog globals X f f_internal_NewSM2Point [] = .ret [ptV encL (Model.Point.infinity pointCtx4)] :=
  SMGo.Proofs.CTIRRefineClosed.ir_NewSM2Point_fiat 

theorem ir_NewFromXY_fiat (x y : List Nat) (hx : Out4 x) (hy : Out4 y) :
    ∀ f, fuelW fuelFiat + 20 ≤ f → runV prog globals X f f_internal_NewFromXY [limbsV x, limbsV y]
      = .ret [ptV encL (Model.Point.fromXY pointCtx4 x y)] :=
  SMGo.Proofs.CTIRRefineClosed.ir_NewFromXY_fiat x y hx hy

/-- (*SM2Element).SetBytes closed (Props/C16IR modulo the primitives) -/
theorem ir_SetBytes_fiat (old : List Nat) (hold : Out4 old) (v : Bytes) :
    (∀ e', Model.Field.setBytes fiatP4 v = .ok e' → ∀ f, fuelSetBytes fuelFiat fuelFiat ≤ f →
      runV prog globals X f f_fiat_SM2Element_SetBytes [elemV old, bytesV v] = .ret [elemV (encL e'), elemV (encL e'), .int 0]) ∧
    (Model.Field.setBytes fiatP4 v = .err → ∀ f, 404 ≤ f →
      runV prog globals X f f_fiat_SM2Element_SetBytes [elemV old, bytesV v] = .ret [elemV old, elemV [0, 0, 0, 0], .int 1]) ∧
    Model.Field.setBytes fiatP4 v ≠ .panic :=
  SMGo.Proofs.CTIRRefineClosed.ir_SetBytes_fiat old hold v

theorem ir_Bytes_fiat (x : Limbs) :
    ∀ f, fuelBytes32 fuelFiat fuelFiat ≤ f →
      runV prog globals X f f_fiat_SM2Element_Bytes [elemV (encL x)] = .ret [bytesV (Model.Field.bytes fiatP4 x)] :=
  SMGo.Proofs.CTIRRefineClosed.ir_Bytes_fiat x

theorem ir_IsZero_fiat (x : Limbs) :
    ∀ f, fuelIsZero fuelFiat fuelFiat ≤ f →
      runV prog globals X f f_fiat_SM2Element_IsZero [elemV (encL x)] = .ret [.int ((Model.Field.isZero fiatP4 x : Nat) : Int)] :=
  SMGo.Proofs.CTIRRefineClosed.ir_IsZero_fiat x

theorem ir_Equal_fiat (x t : Limbs) :
    ∀ f, fuelEqual fuelFiat fuelFiat ≤ f →
      runV prog globals X f f_fiat_SM2Element_Equal [elemV (encL x), elemV (encL t)]
        = .ret [.int ((Model.Field.equal fiatP4 x t : Nat) : Int)] :=
  SMGo.Proofs.CTIRRefineClosed.ir_Equal_fiat x t

/-- against the audited model instance `Model.SM2.pointCtxFiat` (carrier `List Nat`, Props/SM2Fiat) -/
theorem ir_scalarMult_eq_pointCtxFiat (Pt : Model.Point.Pt (List Nat)) (hPt : Out4Pt Pt) (scalar : Bytes)
    (hlen : scalar.length < 2 ^ 63) :
    match Model.Curve.scalarMult (pointOps pointCtxFiat) Pt scalar with
    | .ok r => Out4Pt r ∧ ∀ f, fuelScalarMult scalar.length fuelFiat fuelFiat fuelFiat fuelFiat fuelFiat ≤ f →
        runV prog globals X f f_internal_ScalarMult [ptV id Pt, bytesV scalar] = .ret [ptV id r, .int 0]
    | .panic =>
        (∃ F, ∀ f, F ≤ f → runV prog globals X f f_internal_ScalarMult [ptV id Pt, bytesV scalar] = .panic) ∨
        (∀ f, runV prog globals X f f_internal_ScalarMult [ptV id Pt, bytesV scalar] = .stuck)
    | .err => False :=
  SMGo.Proofs.CTIRRefineClosed.ir_scalarMult_eq_pointCtxFiat Pt hPt scalar hlen

/-- the base-point multiplication of `Model.SM2.ctxFiat`: no hypothesis -/
theorem ir_scalarBaseMult_eq_ctxFiat_std (tape : Nat → Nat → Nat) (k : Bytes) :
    match Model.SM2.scalarBaseMult Model.SM2.ctxFiat k with
    | .ok r => Out4Pt r ∧ ∀ f, 2278031 ≤ f →
        runV prog globals (stdOracle extKinds tape) f f_internal_scalarBaseMult_SkipBitExtration
          [bytesV k, globals 7, globals 8, .int 6, .int 3, .int 14, .int 4] = .ret [ptV id r, .int 0]
    | .err => ∀ f, 20 ≤ f →
        runV prog globals (stdOracle extKinds tape) f f_internal_scalarBaseMult_SkipBitExtration
          [bytesV k, globals 7, globals 8, .int 6, .int 3, .int 14, .int 4] = .ret [CTIRRefineComb.nilPointV, .int 1]
    | .panic =>
        (∃ F, ∀ f, F ≤ f → runV prog globals (stdOracle extKinds tape) f f_internal_scalarBaseMult_SkipBitExtration
          [bytesV k, globals 7, globals 8, .int 6, .int 3, .int 14, .int 4] = .panic) ∨
        (∀ f, runV prog globals (stdOracle extKinds tape) f f_internal_scalarBaseMult_SkipBitExtration
          [bytesV k, globals 7, globals 8, .int 6, .int 3, .int 14, .int 4] = .stuck) :=
  SMGo.Proofs.CTIRRefineClosed.ir_scalarBaseMult_eq_ctxFiat_std tape k

theorem ir_GetAffineX_eq_pointCtxFiat_std (tape : Nat → Nat → Nat) (p : Model.Point.Pt (List Nat)) (hp : Out4Pt p) :
    ∀ f, 247858 ≤ f →
      runV prog globals (stdOracle extKinds tape) f f_internal_SM2Point_GetAffineX [ptV id p]
        = .ret [.int ((Model.Point.getAffineX pointCtxFiat p : Nat) : Int)] :=
  SMGo.Proofs.CTIRRefineClosed.ir_GetAffineX_eq_pointCtxFiat_std tape p hp

theorem ir_PointBytes_eq_pointCtxFiat (p : Model.Point.Pt (List Nat)) (hp : Out4Pt p) :
    ∀ f, 250766 ≤ f →
      runV prog globals X f f_internal_SM2Point_Bytes [ptV id p] = .ret [bytesV (Model.Point.bytes pointCtxFiat p true)] :=
  SMGo.Proofs.CTIRRefineClosed.ir_PointBytes_eq_pointCtxFiat p hp

#print axioms ir_Mul
#print axioms ir_Square
#print axioms ir_Add
#print axioms ir_Sub
#print axioms ir_Opp
#print axioms ir_One
#print axioms ir_Set
#print axioms ir_SetRaw
#print axioms ir_GetRaw
#print axioms ir_NewSM2Point
#print axioms ir_NewFromXY
#print axioms ir_PointSet
#print axioms ir_Negate
#print axioms ir_PointSelect
#print axioms ir_PointSelect_general
#print axioms ir_PointAdd
#print axioms ir_PointDouble
#print axioms fuelPtAdd_eq
#print axioms fuelPtDouble_eq
#print axioms ir_multiSelectConditioned
#print axioms ir_TransformPrecomputed
#print axioms ir_fermatInvert
#print axioms ir_Invert
#print axioms ir_GetAffineX
#print axioms ir_GetAffineX_std
#print axioms ir_PointBytes
#print axioms ir_scalarMult_eq_model_closed
#print axioms ir_scalarBaseMult_eq_model_closed
#print axioms ir_Invert_closed
#print axioms ir_GetAffineX_closed
#print axioms ir_PointBytes_closed
#print axioms fiatPrims4
#print axioms encOk4
#print axioms bytesPrims4
#print axioms setBytesPrims4
#print axioms ctxOk4
#print axioms affineOk4
#print axioms ir_scalarMult_eq_model_fiat
#print axioms ir_scalarBaseMult_eq_model_fiat
#print axioms ir_scalarBaseMult_6_3_14_fiat
#print axioms ir_scalarBaseMult_6_3_14_fiat_std
#print axioms ir_Invert_fiat
#print axioms ir_GetAffineX_fiat
#print axioms ir_GetAffineX_fiat_std
#print axioms ir_PointBytes_fiat
#print axioms ir_PointAdd_fiat
#print axioms ir_PointDouble_fiat
#print axioms ir_Negate_fiat
#print axioms ir_NewSM2Point_fiat
#print axioms ir_NewFromXY_fiat
#print axioms ir_SetBytes_fiat
#print axioms ir_Bytes_fiat
#print axioms ir_IsZero_fiat
#print axioms ir_Equal_fiat
#print axioms ir_scalarMult_eq_pointCtxFiat
#print axioms ir_scalarBaseMult_eq_ctxFiat_std
#print axioms ir_GetAffineX_eq_pointCtxFiat_std
#print axioms ir_PointBytes_eq_pointCtxFiat

end SMGo.Props.C15IR
