/-
  Property C20, numeric form of the comparison.
  (Corollaries of SMGo/Props/C20.lean; no new lemma.)

  "The constant-time comparison returns -1, 0 or 1 exactly as the lexicographic (EQUIVALENTLY BIG-ENDIAN
  NUMERIC) order of the first l bytes of its arguments dictates, for all contents."

  `Props/C20.lean` states the result of `utils.ConstantTimeCmp(a, b, l)` through the lexicographic
  comparison `Spec.Utils.lexCmp` of the two prefixes (`cmp_spec`) and relates `lexCmp` to the big-endian
  values in separate theorems (`lexCmp_lt_iff_toNat`, `lexCmp_gt_iff_toNat`, `lexCmp_eq_iff`).  Here the two
  are composed: under the guards of `cmp_spec` (`l` does not exceed either length, so the Go code does
  not panic) the model returns the three-way comparison of the NUMBERS

      A = Bytes.toNatBE (a.take l),   B = Bytes.toNatBE (b.take l)

  encoded as the Go function encodes it: -1 if A < B, 0 if A = B, 1 if A > B.
-/
import SMGo.Props.C20
namespace SMGo.Props.C20Numeric
open SMGo

/-- the three-way comparison of two natural numbers, with the encoding of `ConstantTimeCmp` -/
def natCmp (A B : Nat) : Int := if A < B then -1 else if A = B then 0 else 1

theorem natCmp_iff (A B : Nat) :
    (natCmp A B = -1 ↔ A < B) ∧ (natCmp A B = 0 ↔ A = B) ∧ (natCmp A B = 1 ↔ B < A) := by
  unfold natCmp
  refine ⟨?_, ?_, ?_⟩ <;> split <;> (try split) <;> simp <;> omega

/-- on strings of equal length the lexicographic comparison is the comparison of the big-endian values -/
theorem lexCmp_eq_natCmp (x y : Bytes) (h : x.length = y.length) :
    Spec.Utils.lexCmp x y = natCmp (Bytes.toNatBE x) (Bytes.toNatBE y) := by
  unfold natCmp
  by_cases hlt : Bytes.toNatBE x < Bytes.toNatBE y
  · rw [if_pos hlt]; exact (C20.lexCmp_lt_iff_toNat x y h).mpr hlt
  · rw [if_neg hlt]
    by_cases heq : Bytes.toNatBE x = Bytes.toNatBE y
    · rw [if_pos heq]
      rcases C20.lexCmp_range x y with h1 | h0 | h1
      · exact absurd ((C20.lexCmp_lt_iff_toNat x y h).mp h1) hlt
      · exact h0
      · have := (C20.lexCmp_gt_iff_toNat x y h).mp h1; omega
    · rw [if_neg heq]
      exact (C20.lexCmp_gt_iff_toNat x y h).mpr (by omega)

/-- **`cmp_numeric`**: `ConstantTimeCmp(a, b, l)` with `l ≤ len(a)`, `l ≤ len(b)` returns the three-way
    comparison of the big-endian numbers formed by the first `l` bytes of `a` and of `b` -/
theorem cmp_numeric (a b : Bytes) (l : Nat) (ha : l ≤ a.length) (hb : l ≤ b.length) :
    Model.Utils.constantTimeCmp (some a) (some b) l
      = .ok (if Bytes.toNatBE (a.take l) < Bytes.toNatBE (b.take l) then -1
             else if Bytes.toNatBE (a.take l) = Bytes.toNatBE (b.take l) then 0 else 1) := by
  rw [C20.cmp_spec a b l ha hb,
    lexCmp_eq_natCmp (a.take l) (b.take l) (by rw [List.length_take, List.length_take]; omega)]
  rfl

/-- the three cases separately -/
theorem cmp_numeric_iff (a b : Bytes) (l : Nat) (ha : l ≤ a.length) (hb : l ≤ b.length) :
    (Model.Utils.constantTimeCmp (some a) (some b) l = .ok (-1)
        ↔ Bytes.toNatBE (a.take l) < Bytes.toNatBE (b.take l)) ∧
    (Model.Utils.constantTimeCmp (some a) (some b) l = .ok 0
        ↔ Bytes.toNatBE (a.take l) = Bytes.toNatBE (b.take l)) ∧
    (Model.Utils.constantTimeCmp (some a) (some b) l = .ok 1
        ↔ Bytes.toNatBE (b.take l) < Bytes.toNatBE (a.take l)) := by
  have h : Model.Utils.constantTimeCmp (some a) (some b) l
      = .ok (natCmp (Bytes.toNatBE (a.take l)) (Bytes.toNatBE (b.take l))) := cmp_numeric a b l ha hb
  rw [h]
  obtain ⟨h1, h2, h3⟩ := natCmp_iff (Bytes.toNatBE (a.take l)) (Bytes.toNatBE (b.take l))
  exact ⟨⟨fun e => h1.mp (Outcome.ok.inj e), fun e => by rw [h1.mpr e]⟩,
    ⟨fun e => h2.mp (Outcome.ok.inj e), fun e => by rw [h2.mpr e]⟩,
    ⟨fun e => h3.mp (Outcome.ok.inj e), fun e => by rw [h3.mpr e]⟩⟩

/-- full-length operands of equal length (the use in sm2.go: 32-byte scalars against n): the comparison
    of the two numbers themselves -/
theorem cmp_numeric_full (a b : Bytes) (h : a.length = b.length) :
    Model.Utils.constantTimeCmp (some a) (some b) a.length
      = .ok (if Bytes.toNatBE a < Bytes.toNatBE b then -1
             else if Bytes.toNatBE a = Bytes.toNatBE b then 0 else 1) := by
  have e := cmp_numeric a b a.length (Nat.le_refl _) (by omega)
  rw [List.take_length] at e
  have hb : b.take a.length = b := by rw [h]; exact List.take_length
  rw [hb] at e
  exact e

/-! ### non-vacuity -/

/-- the numeric order, not the length of the tails, decides: only the first 2 bytes are compared -/
example : Model.Utils.constantTimeCmp (some [1, 255, 7]) (some [2, 0]) (2 : Nat) = .ok (-1) :=
  ((cmp_numeric_iff [1, 255, 7] [2, 0] 2 (by decide) (by decide)).1).mpr (by decide)

example : Model.Utils.constantTimeCmp (some [0, 0, 9]) (some [0, 0, 9]) (3 : Nat) = .ok 0 :=
  ((cmp_numeric_iff [0, 0, 9] [0, 0, 9] 3 (by decide) (by decide)).2.1).mpr (by decide)

example : Model.Utils.constantTimeCmp (some [1, 0, 0]) (some [0, 255, 255]) (3 : Nat) = .ok 1 := by
  rw [cmp_numeric _ _ 3 (by decide) (by decide)]; decide

/-- test (labelled as a test): the model evaluated directly agrees -/
example : Model.Utils.constantTimeCmp (some [1, 0, 0]) (some [0, 255, 255]) (3 : Nat) = .ok 1 := by decide

end SMGo.Props.C20Numeric

#print axioms SMGo.Props.C20Numeric.natCmp_iff
#print axioms SMGo.Props.C20Numeric.lexCmp_eq_natCmp
#print axioms SMGo.Props.C20Numeric.cmp_numeric
#print axioms SMGo.Props.C20Numeric.cmp_numeric_iff
#print axioms SMGo.Props.C20Numeric.cmp_numeric_full
