/-
  Property C07 — SM4-GCM: Open releases plaintext only for an authentic message.
  (Property theorems only; lemmas live in SMGo/Proofs/GCM*.lean.)

  The object is `SMGo.Model.GCM.open`, the hand-written executable model (SMGo/Model/GCMAlgo.lean) of the
  algorithm of `openAsm` in /repo/sm4/gcm_amd64.s together with the length guard of its Go wrapper (and of
  the arm64 Go glue): error when the input is shorter than the tag; otherwise the tag is recomputed over
  (aad, ciphertext part) with the same GHASH machinery as Seal, compared with the supplied one on exactly
  `tagSize` bytes by an OR of byte-wise XORs, and the ciphertext is decrypted only on a match.  `none` stands
  for "errOpen and no plaintext"; the model is a total function, so "without panicking" is a statement of the
  differential harness about the real code (every mutation class runs under recover), not of this file.

  WHAT IS CLAIMED, EXACTLY.  The second sentence of the property ("for every other (nonce, ciphertext,
  additional data) it returns an error") is not a theorem of any GCM: a t-byte tag admits forgeries (a
  modified input whose recomputed tag happens to equal the supplied one is accepted; probability about
  2^(-8t) per attempt, and nonce/aad/ciphertext modifications change the recomputed tag in a way only the
  key holder can predict).  What is proved is the exact decision rule:
      Open returns `some p`  ⇔  the input is at least one tag long, the tag recomputed over (aad, ciphertext
      part) under (key, nonce) equals the supplied tag, and p is GCTR of the ciphertext part
  (`C07_decision_rule`), that the model of the code implements precisely Algorithm 5 of SP 800-38D for ALL
  inputs (`C07_open`), the round trip (`open_seal`), rejection of everything shorter than the tag
  (`open_short`) and of every change confined to the tag bytes (`open_tag_mismatch`).  Nothing more is
  claimed; in particular no bound on the forgery probability is proved.
  The Go wrappers' guard `len(ciphertext) > (2^32-2)·16 + tagSize → errOpen` (64 GiB; SP 800-38D's bound,
  which `Spec.GCM.openGCM` does not state) is not modelled.
-/
import SMGo.Proofs.GCMFinal
import SMGo.Proofs.GCMVector
namespace SMGo.Props.C07
open SMGo
open SMGo.Spec.GCM
open SMGo.Model.GCM
open SMGo.Proofs.GCM (rfcKey rfcIV rfcAAD rfcPT rfcCT rfcTag)

/-- **C07** (algorithm level): for ALL inputs the algorithm of `Open` is Algorithm 5 of SP 800-38D
    (`none` = FAIL = errOpen, no plaintext) -/
theorem C07_open {E : Bytes → Bytes} (hE : ∀ b, (E b).length = 16) (t : Nat) (nonce ct aad : Bytes) :
    Model.GCM.open E t nonce ct aad = openGCM E t nonce ct aad :=
  Proofs.GCM.open_eq_spec hE t nonce ct aad

/-- **C07** for SM4: the model run with the table-driven SM4 of the driver is Algorithm 5 over GB/T 32907 SM4 -/
theorem C07_open_sm4 (key : Bytes) (t : Nat) (nonce ct aad : Bytes) :
    Model.GCM.open (Spec.SM4.cryptFast (Spec.SM4.keySchedule key)) t nonce ct aad
      = openGCM (Spec.SM4.encrypt key) t nonce ct aad := by
  rw [Proofs.SM4Fast.cryptFast_fun]
  exact C07_open (Proofs.GCM.sm4_block_length _) t nonce ct aad

/-- the constant-time comparison of the code (OR of the byte-wise XORs) decides equality of the two tags -/
theorem ct_compare_decides_equality (x y : Bytes) : ctEqual x y = true ↔ x = y :=
  Proofs.GCM.ctEqual_iff x y

/-- round trip (specification): Algorithm 5 returns the plaintext of every output of Algorithm 4 under the
    same key, nonce and additional data, for every tag length up to 16 bytes -/
theorem open_seal {E : Bytes → Bytes} (hE : ∀ b, (E b).length = 16) {t : Nat} (ht : t ≤ 16) (iv pt aad : Bytes) :
    openGCM E t iv (sealGCM E t iv pt aad) aad = some pt :=
  Proofs.GCM.openGCM_sealGCM hE ht iv pt aad

/-- round trip (model of the code): Open returns the original plaintext for every output of Seal -/
theorem model_open_seal {E : Bytes → Bytes} (hE : ∀ b, (E b).length = 16) {t : Nat} (ht : t ≤ 16)
    (iv pt aad : Bytes) : Model.GCM.open E t iv (Model.GCM.seal E t iv pt aad) aad = some pt := by
  rw [C07_open hE, Proofs.GCM.seal_eq_spec hE]; exact open_seal hE ht iv pt aad

/-- everything shorter than the tag is rejected -/
theorem open_short (E : Bytes → Bytes) (t : Nat) (iv ct aad : Bytes) (h : ct.length < t) :
    openGCM E t iv ct aad = none ∧ Model.GCM.open E t iv ct aad = none :=
  ⟨Proofs.GCM.openGCM_short E t iv ct aad h, by unfold Model.GCM.open; rw [if_pos h]⟩

/-- the exact decision rule of Open -/
theorem C07_decision_rule {E : Bytes → Bytes} (hE : ∀ b, (E b).length = 16) (t : Nat) (iv ct aad p : Bytes) :
    Model.GCM.open E t iv ct aad = some p ↔
      t ≤ ct.length ∧
      tagOf E (blockToNat (E (List.replicate 16 0))) (j0 (blockToNat (E (List.replicate 16 0))) iv) aad
          (ct.take (ct.length - t)) t = ct.drop (ct.length - t) ∧
      p = gctr E (inc32 (j0 (blockToNat (E (List.replicate 16 0))) iv)) (ct.take (ct.length - t)) := by
  rw [C07_open hE]; exact Proofs.GCM.openGCM_eq_some_iff E t iv ct aad p

/-- … and of rejection: error iff too short or the recomputed tag differs from the supplied one -/
theorem C07_rejection_rule {E : Bytes → Bytes} (hE : ∀ b, (E b).length = 16) (t : Nat) (iv ct aad : Bytes) :
    Model.GCM.open E t iv ct aad = none ↔
      ct.length < t ∨
      tagOf E (blockToNat (E (List.replicate 16 0))) (j0 (blockToNat (E (List.replicate 16 0))) iv) aad
          (ct.take (ct.length - t)) t ≠ ct.drop (ct.length - t) := by
  rw [C07_open hE]; exact Proofs.GCM.openGCM_eq_none_iff E t iv ct aad

/-- any change confined to the tag bytes is rejected: the ciphertext part of a sealed message followed by any
    `t`-byte string other than its tag does not open (bit flips in the tag are the special case) -/
theorem open_tag_mismatch {E : Bytes → Bytes} (hE : ∀ b, (E b).length = 16) {t : Nat}
    (iv pt aad tag' : Bytes) (hl : tag'.length = t)
    (hne : tag' ≠ (sealGCM E t iv pt aad).drop pt.length) :
    Model.GCM.open E t iv ((sealGCM E t iv pt aad).take pt.length ++ tag') aad = none := by
  rw [C07_open hE]
  have hcl : (gctr E (inc32 (j0 (blockToNat (E (List.replicate 16 0))) iv)) pt).length = pt.length :=
    Proofs.GCM.gctr_length hE _ _
  have h1 : (sealGCM E t iv pt aad).take pt.length
      = gctr E (inc32 (j0 (blockToNat (E (List.replicate 16 0))) iv)) pt := by
    simp only [sealGCM]; rw [← hcl, List.take_left]
  have h2 : (sealGCM E t iv pt aad).drop pt.length
      = tagOf E (blockToNat (E (List.replicate 16 0))) (j0 (blockToNat (E (List.replicate 16 0))) iv) aad
          (gctr E (inc32 (j0 (blockToNat (E (List.replicate 16 0))) iv)) pt) t := by
    simp only [sealGCM]; rw [← hcl, List.drop_left]
  rw [h1]
  apply Proofs.GCM.openGCM_wrong_tag E t iv _ tag' aad hl
  rw [← h2]; exact hne

/-- a truncated tag is rejected for want of length when fewer than `t` bytes remain in total, and otherwise
    falls under the decision rule with a shifted split; the first case: -/
theorem open_truncated_below_tag (E : Bytes → Bytes) (t : Nat) (iv ct aad : Bytes) (k : Nat)
    (h : ct.length - k < t) : Model.GCM.open E t iv (ct.take (ct.length - k)) aad = none := by
  apply (open_short E t iv _ aad _).2
  rw [List.length_take]; omega

/-! ### non-vacuity and tests -/

/-- the hypothesis on the block function is satisfiable (SM4), and acceptance does occur: -/
example (key pt aad iv : Bytes) :
    Model.GCM.open (Spec.SM4.encrypt key) 16 iv (Model.GCM.seal (Spec.SM4.encrypt key) 16 iv pt aad) aad = some pt :=
  model_open_seal (Proofs.GCM.sm4_encrypt_length key) (Nat.le_refl 16) iv pt aad

/-- rejection does occur: the empty input under a 12-byte tag -/
example (key iv aad : Bytes) : Model.GCM.open (Spec.SM4.encrypt key) 12 iv [] aad = none :=
  (open_short _ 12 iv [] aad (by decide)).2

/-- test (labelled as such): the RFC 8998 A.1 message opens to its plaintext in the model of the code
    (derived from the kernel-evaluated vector of the specification by `C07_open` and `open_seal`) -/
theorem model_vector_rfc8998_A1_opens :
    Model.GCM.open (Spec.SM4.encrypt rfcKey) 16 rfcIV (rfcCT ++ rfcTag) rfcAAD = some rfcPT := by
  rw [C07_open (Proofs.GCM.sm4_encrypt_length rfcKey), ← Proofs.GCM.spec_vector_rfc8998_A1]
  exact open_seal (Proofs.GCM.sm4_encrypt_length rfcKey) (Nat.le_refl 16) rfcIV rfcPT rfcAAD

/-- test: the same message with the last tag bit flipped (0xec ↦ 0xed) is rejected -/
theorem model_vector_rfc8998_A1_tag_flip :
    Model.GCM.open (Spec.SM4.encrypt rfcKey) 16 rfcIV
      (rfcCT ++ [0x83,0xde,0x35,0x41,0xe4,0xc2,0xb5,0x81,0x77,0xe0,0x65,0xa9,0xbf,0x7b,0x62,0xed]) rfcAAD = none := by
  have hv := Proofs.GCM.spec_vector_rfc8998_A1
  have hlen : rfcPT.length = rfcCT.length := by decide
  have h := open_tag_mismatch (Proofs.GCM.sm4_encrypt_length rfcKey) (t := 16) rfcIV rfcPT rfcAAD
    [0x83,0xde,0x35,0x41,0xe4,0xc2,0xb5,0x81,0x77,0xe0,0x65,0xa9,0xbf,0x7b,0x62,0xed] rfl
    (by rw [hv, hlen, List.drop_left]; decide)
  rwa [hv, hlen, List.take_left] at h

end SMGo.Props.C07

#print axioms SMGo.Props.C07.C07_open
#print axioms SMGo.Props.C07.C07_open_sm4
#print axioms SMGo.Props.C07.ct_compare_decides_equality
#print axioms SMGo.Props.C07.open_seal
#print axioms SMGo.Props.C07.model_open_seal
#print axioms SMGo.Props.C07.open_short
#print axioms SMGo.Props.C07.C07_decision_rule
#print axioms SMGo.Props.C07.C07_rejection_rule
#print axioms SMGo.Props.C07.open_tag_mismatch
#print axioms SMGo.Props.C07.open_truncated_below_tag
#print axioms SMGo.Props.C07.model_vector_rfc8998_A1_opens
#print axioms SMGo.Props.C07.model_vector_rfc8998_A1_tag_flip
