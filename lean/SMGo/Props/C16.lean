/-
  Property C16 — field and scalar arithmetic is exact and canonical.
  (Property theorems only; lemmas live in SMGo/Proofs/Fiat*.lean and SMGo/Proofs/AddChain*.lean.)

  "For all canonical inputs, addition, subtraction, negation, multiplication, squaring, conditional
  selection and byte conversion of coordinate-field (mod p) and scalar-field (mod n) elements agree
  with integer arithmetic modulo the respective prime and return canonical values. Inversion returns
  the multiplicative inverse (and 0 for 0) because the fixed exponent it raises to is exactly p-2
  respectively n-2, and decoding rejects any 32-byte string whose value is not below the modulus."

  Objects:
  * `Gen.FiatP.*`, `Gen.FiatN.*` — the Fiat-Crypto Go functions, regenerated from
    /repo/sm2/internal/fiat/fiat_sm2_64{,_scalar}.go on every check run (limbs as `List Nat`);
  * `Gen.AddChain.fieldInverse`, `scalarInverse` — the two generated addition chains;
  * `Model.Field` — the element wrappers (`bytes`, `setBytes`, `invert`, `multiSelectLimbs`, …) over
    `montOps` = Montgomery residues as natural numbers, instantiated as `Model.SM2.Fp`, `Model.SM2.Fn`.
  `eval l` is the value of four little-endian 64-bit limbs, `Canon m l` says: four limbs below 2^64
  with value below `m`.  `Model.Field.R` = 2^256 (the statements use this core definition and the
  literal 18446744073709551616 = 2^64 so that no Mathlib power instance enters the statements).
-/
import SMGo.Proofs.FiatSmallP
import SMGo.Proofs.FiatSmallN
import SMGo.Proofs.FiatMulP
import SMGo.Proofs.FiatMulN
import SMGo.Proofs.FiatMontP
import SMGo.Proofs.FiatMontN
import SMGo.Proofs.FiatRefine
import SMGo.Proofs.FiatInst
import SMGo.Proofs.FiatWrappers
import SMGo.Proofs.AddChainExp
import SMGo.Proofs.AddChainInv
import SMGo.Proofs.Prime
namespace SMGo.Props.C16
open SMGo SMGo.Proofs SMGo.Proofs.Fiat

/-! ## 5. The moduli of the implementation are the standard's -/

theorem param_P_eq : Gen.SM2Params.param_P = Spec.SM2.p := AddChainExp.param_P_eq
theorem param_N_eq : Gen.SM2Params.param_N = Spec.SM2.n := AddChainExp.param_N_eq

/-! ## 1./2. The generated functions modulo p -/
namespace P
open SMGo.Gen.FiatP

theorem add_spec (a b : List Nat) (ha : Canon Spec.SM2.p a) (hb : Canon Spec.SM2.p b) :
    Canon Spec.SM2.p (sm2Add a b) ∧ eval (sm2Add a b) = (eval a + eval b) % Spec.SM2.p :=
  FiatSmallP.add_spec a b ha hb

theorem sub_spec (a b : List Nat) (ha : Canon Spec.SM2.p a) (hb : Canon Spec.SM2.p b) :
    Canon Spec.SM2.p (sm2Sub a b) ∧
      eval (sm2Sub a b) = (eval a + Spec.SM2.p - eval b) % Spec.SM2.p :=
  FiatSmallP.sub_spec a b ha hb

theorem opp_spec (a : List Nat) (ha : Canon Spec.SM2.p a) :
    Canon Spec.SM2.p (sm2Opp a) ∧ eval (sm2Opp a) = (Spec.SM2.p - eval a) % Spec.SM2.p :=
  FiatSmallP.opp_spec a ha

/-- `Selectznz(c, a, b)`: a for c = 0, b for c = 1 -/
theorem selectznz_spec (a b : List Nat) (ha : Limbs4 a) (hb : Limbs4 b) :
    sm2Selectznz 0 a b = a ∧ sm2Selectznz 1 a b = b :=
  ⟨FiatSmallP.selectznz_zero a b ha, FiatSmallP.selectznz_one a b hb⟩

theorem setOne_spec : Canon Spec.SM2.p sm2SetOne ∧ eval sm2SetOne = Model.Field.R % Spec.SM2.p :=
  FiatSmallP.setOne_spec

theorem nonzero_spec (a : List Nat) (ha : Limbs4 a) :
    (sm2Nonzero a = 0 ↔ eval a = 0) ∧ sm2Nonzero a < 18446744073709551616 :=
  FiatSmallP.nonzero_spec a ha

/-- `ToBytes`: 32 bytes, little endian, value of the limbs -/
theorem toBytes_spec (a : List Nat) (ha : Limbs4 a) :
    (sm2ToBytes a).length = 32 ∧ (∀ x ∈ sm2ToBytes a, x < 256) ∧ leValue (sm2ToBytes a) = eval a :=
  FiatSmallP.toBytes_spec a ha

theorem fromBytes_spec (bs : List Nat) (hl : bs.length = 32) (hb : ∀ x ∈ bs, x < 256) :
    Limbs4 (sm2FromBytes bs) ∧ eval (sm2FromBytes bs) = leValue bs :=
  FiatSmallP.fromBytes_spec bs hl hb

theorem fromBytes_toBytes (a : List Nat) (ha : Limbs4 a) : sm2FromBytes (sm2ToBytes a) = a :=
  FiatSmallP.fromBytes_toBytes a ha

theorem toBytes_fromBytes (bs : List Nat) (hl : bs.length = 32) (hb : ∀ x ∈ bs, x < 256) :
    sm2ToBytes (sm2FromBytes bs) = bs :=
  FiatSmallP.toBytes_fromBytes bs hl hb

/-- word-by-word Montgomery multiplication: canonical, and out·R ≡ a·b (mod p) -/
theorem mul_spec (a b : List Nat) (ha : Canon Spec.SM2.p a) (hb : Canon Spec.SM2.p b) :
    Canon Spec.SM2.p (sm2Mul a b) ∧
      (eval (sm2Mul a b) * Model.Field.R) % Spec.SM2.p = (eval a * eval b) % Spec.SM2.p :=
  FiatMulP.mul_spec a b ha hb

/-- the hand-edited squaring (it reuses six 64×64 products) -/
theorem square_spec (a : List Nat) (ha : Canon Spec.SM2.p a) :
    Canon Spec.SM2.p (sm2Square a) ∧
      (eval (sm2Square a) * Model.Field.R) % Spec.SM2.p = (eval a * eval a) % Spec.SM2.p :=
  FiatMulP.square_spec a ha

theorem fromMontgomery_spec (a : List Nat) (ha : Canon Spec.SM2.p a) :
    Canon Spec.SM2.p (sm2FromMontgomery a) ∧
      (eval (sm2FromMontgomery a) * Model.Field.R) % Spec.SM2.p = eval a % Spec.SM2.p :=
  FiatMontP.fromMontgomery_spec a ha

theorem toMontgomery_spec (a : List Nat) (ha : Canon Spec.SM2.p a) :
    Canon Spec.SM2.p (sm2ToMontgomery a) ∧
      eval (sm2ToMontgomery a) = (eval a * Model.Field.R) % Spec.SM2.p :=
  FiatMontP.toMontgomery_spec a ha

/-- both conversions reduce any four limbs (the wrappers feed non-canonical limbs from `FromBytes`) -/
theorem montgomery_conversions_total (a : List Nat) (ha : Limbs4 a) :
    (Canon Spec.SM2.p (sm2ToMontgomery a) ∧
      eval (sm2ToMontgomery a) = (eval a * Model.Field.R) % Spec.SM2.p) ∧
    (Canon Spec.SM2.p (sm2FromMontgomery a) ∧
      (eval (sm2FromMontgomery a) * Model.Field.R) % Spec.SM2.p = eval a % Spec.SM2.p) :=
  ⟨FiatMontP.toMontgomery_spec' a ha, FiatMontP.fromMontgomery_spec' a ha⟩

/-- the generated functions compute the operations of the model instance `Fp` (Montgomery residues
    as naturals: `mul a b = a·b·R⁻¹ mod p`, …) -/
theorem refines_Fp (a b : List Nat) (ha : Canon Spec.SM2.p a) (hb : Canon Spec.SM2.p b) :
    eval (sm2Add a b) = Model.SM2.Fp.add (eval a) (eval b) ∧
    eval (sm2Sub a b) = Model.SM2.Fp.sub (eval a) (eval b) ∧
    eval (sm2Opp a) = Model.SM2.Fp.opp (eval a) ∧
    eval (sm2Mul a b) = Model.SM2.Fp.mul (eval a) (eval b) ∧
    eval (sm2Square a) = Model.SM2.Fp.square (eval a) ∧
    eval (sm2FromMontgomery a) = Model.SM2.Fp.fromMontgomery (eval a) ∧
    eval (sm2ToMontgomery a) = Model.SM2.Fp.toMontgomery (eval a) ∧
    eval sm2SetOne = Model.SM2.Fp.setOne ∧
    (sm2ToBytes a).map UInt8.ofNat = Model.SM2.Fp.toBytesLE (eval a) ∧
    Model.Field.natToLimbs (eval a) = a :=
  ⟨FiatRefine.add_refines a b ha hb, FiatRefine.sub_refines a b ha hb, FiatRefine.opp_refines a ha,
   FiatRefine.mul_refines a b ha hb, FiatRefine.square_refines a ha,
   FiatRefine.fromMontgomery_refines a ha.limbs4, FiatRefine.toMontgomery_refines a ha.limbs4,
   FiatRefine.setOne_refines, FiatRefine.toBytes_refines a ha.limbs4, FiatRefine.raw_eval a ha.limbs4⟩

theorem fromBytes_refines_Fp (bs : Bytes) (hl : bs.length = 32) :
    Limbs4 (sm2FromBytes (bs.map UInt8.toNat)) ∧
      eval (sm2FromBytes (bs.map UInt8.toNat)) = Model.SM2.Fp.fromBytesLE bs :=
  FiatRefine.fromBytes_refines bs hl

end P

/-! ## 1./2. The generated functions modulo n -/
namespace N
open SMGo.Gen.FiatN

theorem add_spec (a b : List Nat) (ha : Canon Spec.SM2.n a) (hb : Canon Spec.SM2.n b) :
    Canon Spec.SM2.n (sm2ScalarAdd a b) ∧ eval (sm2ScalarAdd a b) = (eval a + eval b) % Spec.SM2.n :=
  FiatSmallN.add_spec a b ha hb

theorem sub_spec (a b : List Nat) (ha : Canon Spec.SM2.n a) (hb : Canon Spec.SM2.n b) :
    Canon Spec.SM2.n (sm2ScalarSub a b) ∧
      eval (sm2ScalarSub a b) = (eval a + Spec.SM2.n - eval b) % Spec.SM2.n :=
  FiatSmallN.sub_spec a b ha hb

theorem opp_spec (a : List Nat) (ha : Canon Spec.SM2.n a) :
    Canon Spec.SM2.n (sm2ScalarOpp a) ∧ eval (sm2ScalarOpp a) = (Spec.SM2.n - eval a) % Spec.SM2.n :=
  FiatSmallN.opp_spec a ha

theorem selectznz_spec (a b : List Nat) (ha : Limbs4 a) (hb : Limbs4 b) :
    sm2ScalarSelectznz 0 a b = a ∧ sm2ScalarSelectznz 1 a b = b :=
  ⟨FiatSmallN.selectznz_zero a b ha, FiatSmallN.selectznz_one a b hb⟩

theorem setOne_spec :
    Canon Spec.SM2.n sm2ScalarSetOne ∧ eval sm2ScalarSetOne = Model.Field.R % Spec.SM2.n :=
  FiatSmallN.setOne_spec

theorem nonzero_spec (a : List Nat) (ha : Limbs4 a) :
    (sm2ScalarNonzero a = 0 ↔ eval a = 0) ∧ sm2ScalarNonzero a < 18446744073709551616 :=
  FiatSmallN.nonzero_spec a ha

theorem toBytes_spec (a : List Nat) (ha : Limbs4 a) :
    (sm2ScalarToBytes a).length = 32 ∧ (∀ x ∈ sm2ScalarToBytes a, x < 256) ∧
      leValue (sm2ScalarToBytes a) = eval a :=
  FiatSmallN.toBytes_spec a ha

theorem fromBytes_spec (bs : List Nat) (hl : bs.length = 32) (hb : ∀ x ∈ bs, x < 256) :
    Limbs4 (sm2ScalarFromBytes bs) ∧ eval (sm2ScalarFromBytes bs) = leValue bs :=
  FiatSmallN.fromBytes_spec bs hl hb

theorem fromBytes_toBytes (a : List Nat) (ha : Limbs4 a) :
    sm2ScalarFromBytes (sm2ScalarToBytes a) = a :=
  FiatSmallN.fromBytes_toBytes a ha

theorem toBytes_fromBytes (bs : List Nat) (hl : bs.length = 32) (hb : ∀ x ∈ bs, x < 256) :
    sm2ScalarToBytes (sm2ScalarFromBytes bs) = bs :=
  FiatSmallN.toBytes_fromBytes bs hl hb

/-- Montgomery multiplication mod n (quotient digit T[0]·m' with m' = −n⁻¹ mod 2^64) -/
theorem mul_spec (a b : List Nat) (ha : Canon Spec.SM2.n a) (hb : Canon Spec.SM2.n b) :
    Canon Spec.SM2.n (sm2ScalarMul a b) ∧
      (eval (sm2ScalarMul a b) * Model.Field.R) % Spec.SM2.n = (eval a * eval b) % Spec.SM2.n :=
  FiatMulN.mul_spec a b ha hb

theorem square_spec (a : List Nat) (ha : Canon Spec.SM2.n a) :
    Canon Spec.SM2.n (sm2ScalarSquare a) ∧
      (eval (sm2ScalarSquare a) * Model.Field.R) % Spec.SM2.n = (eval a * eval a) % Spec.SM2.n :=
  FiatMulN.square_spec a ha

theorem fromMontgomery_spec (a : List Nat) (ha : Canon Spec.SM2.n a) :
    Canon Spec.SM2.n (sm2ScalarFromMontgomery a) ∧
      (eval (sm2ScalarFromMontgomery a) * Model.Field.R) % Spec.SM2.n = eval a % Spec.SM2.n :=
  FiatMontN.fromMontgomery_spec a ha

theorem toMontgomery_spec (a : List Nat) (ha : Canon Spec.SM2.n a) :
    Canon Spec.SM2.n (sm2ScalarToMontgomery a) ∧
      eval (sm2ScalarToMontgomery a) = (eval a * Model.Field.R) % Spec.SM2.n :=
  FiatMontN.toMontgomery_spec a ha

theorem montgomery_conversions_total (a : List Nat) (ha : Limbs4 a) :
    (Canon Spec.SM2.n (sm2ScalarToMontgomery a) ∧
      eval (sm2ScalarToMontgomery a) = (eval a * Model.Field.R) % Spec.SM2.n) ∧
    (Canon Spec.SM2.n (sm2ScalarFromMontgomery a) ∧
      (eval (sm2ScalarFromMontgomery a) * Model.Field.R) % Spec.SM2.n = eval a % Spec.SM2.n) :=
  ⟨FiatMontN.toMontgomery_spec' a ha, FiatMontN.fromMontgomery_spec' a ha⟩

theorem refines_Fn (a b : List Nat) (ha : Canon Spec.SM2.n a) (hb : Canon Spec.SM2.n b) :
    eval (sm2ScalarAdd a b) = Model.SM2.Fn.add (eval a) (eval b) ∧
    eval (sm2ScalarSub a b) = Model.SM2.Fn.sub (eval a) (eval b) ∧
    eval (sm2ScalarOpp a) = Model.SM2.Fn.opp (eval a) ∧
    eval (sm2ScalarMul a b) = Model.SM2.Fn.mul (eval a) (eval b) ∧
    eval (sm2ScalarSquare a) = Model.SM2.Fn.square (eval a) ∧
    eval (sm2ScalarFromMontgomery a) = Model.SM2.Fn.fromMontgomery (eval a) ∧
    eval (sm2ScalarToMontgomery a) = Model.SM2.Fn.toMontgomery (eval a) ∧
    eval sm2ScalarSetOne = Model.SM2.Fn.setOne ∧
    (sm2ScalarToBytes a).map UInt8.ofNat = Model.SM2.Fn.toBytesLE (eval a) ∧
    Model.Field.natToLimbs (eval a) = a :=
  ⟨FiatRefine.scalarAdd_refines a b ha hb, FiatRefine.scalarSub_refines a b ha hb,
   FiatRefine.scalarOpp_refines a ha, FiatRefine.scalarMul_refines a b ha hb,
   FiatRefine.scalarSquare_refines a ha, FiatRefine.scalarFromMontgomery_refines a ha.limbs4,
   FiatRefine.scalarToMontgomery_refines a ha.limbs4, FiatRefine.scalarSetOne_refines,
   FiatRefine.scalarToBytes_refines a ha.limbs4, FiatRefine.raw_eval a ha.limbs4⟩

theorem fromBytes_refines_Fn (bs : Bytes) (hl : bs.length = 32) :
    Limbs4 (sm2ScalarFromBytes (bs.map UInt8.toNat)) ∧
      eval (sm2ScalarFromBytes (bs.map UInt8.toNat)) = Model.SM2.Fn.fromBytesLE bs :=
  FiatRefine.scalarFromBytes_refines bs hl

end N

/-! ## 3. Inversion: the addition chains raise to p − 2 and n − 2 -/

/-- the symbolic exponent of a chain: the program run over (ℕ, +) with squaring = doubling, x = 1 -/
abbrev exponent (nregs : Nat) (prog : List Model.AddChain.Op) : Nat := AddChainExp.exponent nregs prog

theorem exponent_def (nregs : Nat) (prog : List Model.AddChain.Op) :
    exponent nregs prog = Model.AddChain.run (fun e => 2 * e) (· + ·) 0 nregs prog 1 := rfl

theorem fieldInverse_exponent :
    exponent Gen.AddChain.fieldInverse_regs Gen.AddChain.fieldInverse = Spec.SM2.p - 2 :=
  AddChainExp.fieldInverse_exponent

theorem scalarInverse_exponent :
    exponent Gen.AddChain.scalarInverse_regs Gen.AddChain.scalarInverse = Spec.SM2.n - 2 :=
  AddChainExp.scalarInverse_exponent

/-- both programs only read registers that were written before (or the input) and write the output -/
theorem chains_wellformed :
    AddChainExp.wf Gen.AddChain.fieldInverse_regs Gen.AddChain.fieldInverse = true ∧
    AddChainExp.wf Gen.AddChain.scalarInverse_regs Gen.AddChain.scalarInverse = true :=
  ⟨AddChainExp.fieldInverse_wf, AddChainExp.scalarInverse_wf⟩

/-- soundness of the symbolic exponent for Montgomery arithmetic on naturals, any modulus:
    the chain computes x^e · R⁻¹^(e−1), i.e. the Montgomery form of (x·R⁻¹)^e -/
theorem run_exponent (m rinv nregs : Nat) (prog : List Model.AddChain.Op)
    (hwf : AddChainExp.wf nregs prog = true) (x : Nat) :
    Model.AddChain.run (fun a => a * a * rinv % m) (fun a b => a * b * rinv % m) 0 nregs prog x
      = (x ^ exponent nregs prog * rinv ^ (exponent nregs prog - 1)) % m :=
  AddChainExp.run_mont m rinv nregs prog hwf x

/-- leaving the Montgomery domain, `Invert` is exponentiation by p − 2 (no primality needed) -/
theorem invert_Fp_pow (x : Nat) :
    Model.SM2.Fp.fromMontgomery (Model.Field.invert Model.SM2.Fp x) =
      (Model.SM2.Fp.fromMontgomery x) ^ (Spec.SM2.p - 2) % Spec.SM2.p :=
  AddChainExp.fromMontgomery_invert_Fp x

theorem invert_Fn_pow (x : Nat) :
    Model.SM2.Fn.fromMontgomery (Model.Field.invert Model.SM2.Fn x) =
      (Model.SM2.Fn.fromMontgomery x) ^ (Spec.SM2.n - 2) % Spec.SM2.n :=
  AddChainExp.fromMontgomery_invert_Fn x

/-- `Invert` mod p: reduced result, inverse in the Montgomery domain (`inv ⊗ x = 1̃ = R mod p`), 0 ↦ 0 -/
theorem invert_Fp_spec (hp : Nat.Prime Spec.SM2.p) (x : Nat) (hx : x < Spec.SM2.p) :
    Model.Field.invert Model.SM2.Fp x < Spec.SM2.p ∧
    (x ≠ 0 → Model.SM2.Fp.mul (Model.Field.invert Model.SM2.Fp x) x = Model.SM2.Fp.setOne) ∧
    (x = 0 → Model.Field.invert Model.SM2.Fp x = 0) :=
  AddChainExp.invert_Fp_spec hp x hx

/-- the same in plain terms: the values represented multiply to 1 modulo p -/
theorem invert_Fp_plain (hp : Nat.Prime Spec.SM2.p) (x : Nat)
    (hv : Model.SM2.Fp.fromMontgomery x ≠ 0) :
    Model.SM2.Fp.fromMontgomery (Model.Field.invert Model.SM2.Fp x) *
      Model.SM2.Fp.fromMontgomery x % Spec.SM2.p = 1 :=
  AddChainExp.invert_Fp_plain hp x hv

theorem invert_Fn_spec (hn : Nat.Prime Spec.SM2.n) (x : Nat) (hx : x < Spec.SM2.n) :
    Model.Field.invert Model.SM2.Fn x < Spec.SM2.n ∧
    (x ≠ 0 → Model.SM2.Fn.mul (Model.Field.invert Model.SM2.Fn x) x = Model.SM2.Fn.setOne) ∧
    (x = 0 → Model.Field.invert Model.SM2.Fn x = 0) :=
  AddChainExp.invert_Fn_spec hn x hx

theorem invert_Fn_plain (hn : Nat.Prime Spec.SM2.n) (x : Nat)
    (hv : Model.SM2.Fn.fromMontgomery x ≠ 0) :
    Model.SM2.Fn.fromMontgomery (Model.Field.invert Model.SM2.Fn x) *
      Model.SM2.Fn.fromMontgomery x % Spec.SM2.n = 1 :=
  AddChainExp.invert_Fn_plain hn x hv

/-- the four statements above with the primality hypotheses discharged (`Prime.p_prime`, `Prime.n_prime`: Pratt
    certificates checked by a reflective checker proved sound from `lucas_primality`) -/
theorem invert_Fp_spec_closed (x : Nat) (hx : x < Spec.SM2.p) :
    Model.Field.invert Model.SM2.Fp x < Spec.SM2.p ∧
    (x ≠ 0 → Model.SM2.Fp.mul (Model.Field.invert Model.SM2.Fp x) x = Model.SM2.Fp.setOne) ∧
    (x = 0 → Model.Field.invert Model.SM2.Fp x = 0) := invert_Fp_spec Prime.p_prime x hx

theorem invert_Fp_plain_closed (x : Nat) (hv : Model.SM2.Fp.fromMontgomery x ≠ 0) :
    Model.SM2.Fp.fromMontgomery (Model.Field.invert Model.SM2.Fp x) *
      Model.SM2.Fp.fromMontgomery x % Spec.SM2.p = 1 := invert_Fp_plain Prime.p_prime x hv

theorem invert_Fn_spec_closed (x : Nat) (hx : x < Spec.SM2.n) :
    Model.Field.invert Model.SM2.Fn x < Spec.SM2.n ∧
    (x ≠ 0 → Model.SM2.Fn.mul (Model.Field.invert Model.SM2.Fn x) x = Model.SM2.Fn.setOne) ∧
    (x = 0 → Model.Field.invert Model.SM2.Fn x = 0) := invert_Fn_spec Prime.n_prime x hx

theorem invert_Fn_plain_closed (x : Nat) (hv : Model.SM2.Fn.fromMontgomery x ≠ 0) :
    Model.SM2.Fn.fromMontgomery (Model.Field.invert Model.SM2.Fn x) *
      Model.SM2.Fn.fromMontgomery x % Spec.SM2.n = 1 := invert_Fn_plain Prime.n_prime x hv

/-- the chain executed on limbs by the generated `Square`/`Mul` (what the Go `Invert` does) keeps
    elements canonical and computes the model's `invert` -/
theorem invert_limbs_Fp (x : List Nat) (hx : Canon Spec.SM2.p x) :
    Canon Spec.SM2.p (Model.AddChain.run Gen.FiatP.sm2Square Gen.FiatP.sm2Mul [0, 0, 0, 0]
        Gen.AddChain.fieldInverse_regs Gen.AddChain.fieldInverse x) ∧
    eval (Model.AddChain.run Gen.FiatP.sm2Square Gen.FiatP.sm2Mul [0, 0, 0, 0]
        Gen.AddChain.fieldInverse_regs Gen.AddChain.fieldInverse x)
      = Model.Field.invert Model.SM2.Fp (eval x) :=
  FiatRefine.invert_refines x hx

theorem invert_limbs_Fn (x : List Nat) (hx : Canon Spec.SM2.n x) :
    Canon Spec.SM2.n (Model.AddChain.run Gen.FiatN.sm2ScalarSquare Gen.FiatN.sm2ScalarMul [0, 0, 0, 0]
        Gen.AddChain.scalarInverse_regs Gen.AddChain.scalarInverse x) ∧
    eval (Model.AddChain.run Gen.FiatN.sm2ScalarSquare Gen.FiatN.sm2ScalarMul [0, 0, 0, 0]
        Gen.AddChain.scalarInverse_regs Gen.AddChain.scalarInverse x)
      = Model.Field.invert Model.SM2.Fn (eval x) :=
  FiatRefine.scalarInvert_refines x hx

/-! ## 4. The element wrappers over `Fp`, `Fn` -/

theorem Fp_params : 1 < Model.SM2.pParams.m ∧ Model.SM2.pParams.m ≤ Model.Field.R ∧
    (Model.Field.R * Model.SM2.pParams.rinv) % Model.SM2.pParams.m = 1 := by
  rw [AddChainExp.pParams_m]
  exact ⟨by decide, by decide, AddChainExp.rinv_p⟩

theorem Fn_params : 1 < Model.SM2.nParams.m ∧ Model.SM2.nParams.m ≤ Model.Field.R ∧
    (Model.Field.R * Model.SM2.nParams.rinv) % Model.SM2.nParams.m = 1 := by
  rw [AddChainExp.nParams_m]
  exact ⟨by decide, by decide, AddChainExp.rinv_n⟩

/-- `SetBytes` accepts exactly the 32-byte strings with big-endian value below p and returns the
    Montgomery form of the value; it never panics -/
theorem setBytes_Fp_spec (v : Bytes) :
    Model.Field.setBytes Model.SM2.Fp v =
      if v.length = 32 ∧ Bytes.toNatBE v < Spec.SM2.p
      then .ok (Bytes.toNatBE v * Model.Field.R % Spec.SM2.p) else .err := by
  have h := FiatWrappers.setBytes_spec Model.SM2.pParams Fp_params.1 Fp_params.2.1 Fp_params.2.2 v
  rw [AddChainExp.pParams_m] at h
  exact h

theorem setBytes_Fn_spec (v : Bytes) :
    Model.Field.setBytes Model.SM2.Fn v =
      if v.length = 32 ∧ Bytes.toNatBE v < Spec.SM2.n
      then .ok (Bytes.toNatBE v * Model.Field.R % Spec.SM2.n) else .err := by
  have h := FiatWrappers.setBytes_spec Model.SM2.nParams Fn_params.1 Fn_params.2.1 Fn_params.2.2 v
  rw [AddChainExp.nParams_m] at h
  exact h

/-- decoding rejects any 32-byte string whose value is not below the modulus (and any other length) -/
theorem setBytes_rejects (v : Bytes) :
    ((v.length ≠ 32 ∨ Spec.SM2.p ≤ Bytes.toNatBE v) → Model.Field.setBytes Model.SM2.Fp v = .err) ∧
    ((v.length ≠ 32 ∨ Spec.SM2.n ≤ Bytes.toNatBE v) → Model.Field.setBytes Model.SM2.Fn v = .err) := by
  constructor
  · intro h
    rw [setBytes_Fp_spec, if_neg]
    intro hc; omega
  · intro h
    rw [setBytes_Fn_spec, if_neg]
    intro hc; omega

/-- the scalar wrapper gives the same verdict and value (since the repair of its early-exit
    comparison it is the same code, compared with `ConstantTimeCmp`) -/
theorem scalarSetBytes_eq_setBytes (v : Bytes) :
    Model.Field.scalarSetBytes Model.SM2.Fn v = Model.Field.setBytes Model.SM2.Fn v :=
  FiatWrappers.scalarSetBytes_eq_setBytes Model.SM2.Fn v

/-- `Bytes` is the 32-byte big-endian encoding of the represented value, which is below the modulus -/
theorem bytes_spec (x : Nat) :
    (Model.Field.bytes Model.SM2.Fp x).length = 32 ∧
    Bytes.toNatBE (Model.Field.bytes Model.SM2.Fp x) = Model.SM2.Fp.fromMontgomery x ∧
    Bytes.toNatBE (Model.Field.bytes Model.SM2.Fp x) < Spec.SM2.p ∧
    (Model.Field.bytes Model.SM2.Fn x).length = 32 ∧
    Bytes.toNatBE (Model.Field.bytes Model.SM2.Fn x) = Model.SM2.Fn.fromMontgomery x ∧
    Bytes.toNatBE (Model.Field.bytes Model.SM2.Fn x) < Spec.SM2.n := by
  have hp := FiatWrappers.bytes_value Model.SM2.pParams Fp_params.1 Fp_params.2.1 x
  have hn := FiatWrappers.bytes_value Model.SM2.nParams Fn_params.1 Fn_params.2.1 x
  rw [AddChainExp.pParams_m] at hp
  rw [AddChainExp.nParams_m] at hn
  exact ⟨FiatWrappers.bytes_length Model.SM2.pParams x, hp.1, hp.2,
         FiatWrappers.bytes_length Model.SM2.nParams x, hn.1, hn.2⟩

/-- round trips: `Bytes ∘ SetBytes = id` on accepted strings, `SetBytes ∘ Bytes = id` on reduced elements -/
theorem bytes_setBytes_Fp (v : Bytes) (x : Nat) (h : Model.Field.setBytes Model.SM2.Fp v = .ok x) :
    Model.Field.bytes Model.SM2.Fp x = v :=
  FiatWrappers.bytes_setBytes Model.SM2.pParams Fp_params.1 Fp_params.2.1 Fp_params.2.2 v x h

theorem bytes_setBytes_Fn (v : Bytes) (x : Nat) (h : Model.Field.setBytes Model.SM2.Fn v = .ok x) :
    Model.Field.bytes Model.SM2.Fn x = v :=
  FiatWrappers.bytes_setBytes Model.SM2.nParams Fn_params.1 Fn_params.2.1 Fn_params.2.2 v x h

theorem setBytes_bytes_Fp (x : Nat) (hx : x < Spec.SM2.p) :
    Model.Field.setBytes Model.SM2.Fp (Model.Field.bytes Model.SM2.Fp x) = .ok x :=
  FiatWrappers.setBytes_bytes Model.SM2.pParams Fp_params.1 Fp_params.2.1 Fp_params.2.2 x
    (by rw [AddChainExp.pParams_m]; exact hx)

theorem setBytes_bytes_Fn (x : Nat) (hx : x < Spec.SM2.n) :
    Model.Field.setBytes Model.SM2.Fn (Model.Field.bytes Model.SM2.Fn x) = .ok x :=
  FiatWrappers.setBytes_bytes Model.SM2.nParams Fn_params.1 Fn_params.2.1 Fn_params.2.2 x
    (by rw [AddChainExp.nParams_m]; exact hx)

/-- `MultiSelect` (mask-and-or over the table): entry bits−1 for 1 ≤ bits ≤ width ≤ 255 when the
    fallback is masked out (`fallbackCond = 1`, as `multiSelectConditioned` passes for bits ≠ 0);
    the fallback for bits = 0, `fallbackCond = 0`; all-zero for bits = 0, `fallbackCond = 1` -/
theorem multiSelectLimbs_spec (pre : List (List Nat)) (width bits : Nat) (fallback : List Nat)
    (fallbackCond : Nat) (hw : width ≤ 255) :
    (fallbackCond = 1 → 1 ≤ bits → bits ≤ width →
      (∀ j, j < 4 → (pre.getD (bits - 1) []).getD j 0 < 18446744073709551616) →
      Model.Field.multiSelectLimbs pre width bits fallback fallbackCond
        = [(pre.getD (bits - 1) []).getD 0 0, (pre.getD (bits - 1) []).getD 1 0,
           (pre.getD (bits - 1) []).getD 2 0, (pre.getD (bits - 1) []).getD 3 0]) ∧
    (fallbackCond = 0 → bits = 0 → (∀ j, j < 4 → fallback.getD j 0 < 18446744073709551616) →
      Model.Field.multiSelectLimbs pre width bits fallback fallbackCond
        = [fallback.getD 0 0, fallback.getD 1 0, fallback.getD 2 0, fallback.getD 3 0]) ∧
    (fallbackCond = 1 → bits = 0 →
      Model.Field.multiSelectLimbs pre width bits fallback fallbackCond = [0, 0, 0, 0]) :=
  FiatWrappers.multiSelectLimbs_spec pre width bits fallback fallbackCond hw

theorem select_spec {α : Type} (a b : α) (cond : Nat) :
    (cond = 1 → Model.Field.select a b cond = a) ∧ (cond = 0 → Model.Field.select a b cond = b) :=
  FiatWrappers.select_spec a b cond

/-- the limb view of the `Nat` instance (`raw`/`ofRaw`) is a bijection on 256-bit values -/
theorem limbs_roundtrip (v : Nat) (h : v < Model.Field.R) :
    Model.Field.limbsToNat (Model.Field.natToLimbs v) = v ∧
    (Model.Field.natToLimbs v).length = 4 ∧ (∀ x ∈ Model.Field.natToLimbs v, x < 18446744073709551616) :=
  ⟨FiatWrappers.limbs_roundtrip v h, FiatWrappers.natToLimbs_length v, FiatWrappers.natToLimbs_lt v⟩

/-! ## 4b. The same wrappers over the generated functions (limb lists) -/

/-- `Bytes`, `Equal`, `IsZero` computed with the generated functions give the model's answers -/
theorem wrappers_on_limbs_Fp (e t : List Nat) (he : Limbs4 e) (ht : Limbs4 t) :
    Model.Field.bytes FiatInst.fiatP e = Model.Field.bytes Model.SM2.Fp (eval e) ∧
    Model.Field.equal FiatInst.fiatP e t = Model.Field.equal Model.SM2.Fp (eval e) (eval t) ∧
    Model.Field.isZero FiatInst.fiatP e = Model.Field.isZero Model.SM2.Fp (eval e) :=
  ⟨FiatInst.bytes_fiatP e he, FiatInst.equal_fiatP e t he ht, FiatInst.isZero_fiatP e he⟩

theorem wrappers_on_limbs_Fn (e t : List Nat) (he : Limbs4 e) (ht : Limbs4 t) :
    Model.Field.bytes FiatInst.fiatN e = Model.Field.bytes Model.SM2.Fn (eval e) ∧
    Model.Field.equal FiatInst.fiatN e t = Model.Field.equal Model.SM2.Fn (eval e) (eval t) ∧
    Model.Field.isZero FiatInst.fiatN e = Model.Field.isZero Model.SM2.Fn (eval e) :=
  ⟨FiatInst.bytes_fiatN e he, FiatInst.equal_fiatN e t he ht, FiatInst.isZero_fiatN e he⟩

/-- `SetBytes` with the generated functions: accepts exactly length 32 and value < p, the result is
    canonical limbs holding value·R mod p; otherwise an error -/
theorem setBytes_limbs_Fp (v : Bytes) :
    if v.length = 32 ∧ Bytes.toNatBE v < Spec.SM2.p then
      ∃ l, Model.Field.setBytes FiatInst.fiatP v = .ok l ∧ Canon Spec.SM2.p l ∧
        eval l = Bytes.toNatBE v * Model.Field.R % Spec.SM2.p
    else Model.Field.setBytes FiatInst.fiatP v = .err := by
  have h := setBytes_Fp_spec v
  split
  · rename_i hc; rw [if_pos hc] at h; exact (FiatInst.setBytes_fiatP v).1 _ h
  · rename_i hc; rw [if_neg hc] at h; exact (FiatInst.setBytes_fiatP v).2.1 h

theorem setBytes_limbs_Fn (v : Bytes) :
    if v.length = 32 ∧ Bytes.toNatBE v < Spec.SM2.n then
      ∃ l, Model.Field.scalarSetBytes FiatInst.fiatN v = .ok l ∧ Canon Spec.SM2.n l ∧
        eval l = Bytes.toNatBE v * Model.Field.R % Spec.SM2.n
    else Model.Field.scalarSetBytes FiatInst.fiatN v = .err := by
  have h := setBytes_Fn_spec v
  rw [← scalarSetBytes_eq_setBytes] at h
  split
  · rename_i hc; rw [if_pos hc] at h; exact (FiatInst.scalarSetBytes_fiatN v).1 _ h
  · rename_i hc; rw [if_neg hc] at h; exact (FiatInst.scalarSetBytes_fiatN v).2 h

/-- `Invert` with the generated functions (= `invert_limbs_*`, through the record) -/
theorem invert_on_limbs (x : List Nat) :
    (Canon Spec.SM2.p x → Canon Spec.SM2.p (Model.Field.invert FiatInst.fiatP x) ∧
      eval (Model.Field.invert FiatInst.fiatP x) = Model.Field.invert Model.SM2.Fp (eval x)) ∧
    (Canon Spec.SM2.n x → Canon Spec.SM2.n (Model.Field.invert FiatInst.fiatN x) ∧
      eval (Model.Field.invert FiatInst.fiatN x) = Model.Field.invert Model.SM2.Fn (eval x)) :=
  ⟨FiatInst.invert_fiatP x, FiatInst.invert_fiatN x⟩

/-! ## the hypotheses are satisfiable -/

theorem exP : Canon Spec.SM2.p [5, 6, 7, 8] :=
  canon_mk (by decide) (by decide) (by decide) (by decide) (by decide)
theorem exN : Canon Spec.SM2.n [0xffffffffffffffff, 6, 7, 8] :=
  canon_mk (by decide) (by decide) (by decide) (by decide) (by decide)
theorem exL : Limbs4 [0xffffffffffffffff, 0xffffffffffffffff, 0xffffffffffffffff, 0xffffffffffffffff] :=
  limbs4_mk (by decide) (by decide) (by decide) (by decide)
theorem exB : (List.replicate 32 255).length = 32 ∧ ∀ x ∈ List.replicate 32 255, x < 256 :=
  ⟨rfl, fun x hx => by rw [(List.mem_replicate.mp hx).2]; decide⟩

example : Gen.SM2Params.param_P = Spec.SM2.p ∧ Gen.SM2Params.param_N = Spec.SM2.n := ⟨param_P_eq, param_N_eq⟩
-- P
example := P.add_spec _ _ exP exP
example := P.sub_spec _ _ exP exP
example := P.opp_spec _ exP
example := P.selectznz_spec _ _ exL exP.limbs4
example := P.nonzero_spec _ exL
example := P.toBytes_spec _ exL
example := P.fromBytes_spec _ exB.1 exB.2
example := P.fromBytes_toBytes _ exL
example := P.toBytes_fromBytes _ exB.1 exB.2
example := P.mul_spec _ _ exP exP
example := P.square_spec _ exP
example := P.fromMontgomery_spec _ exP
example := P.toMontgomery_spec _ exP
example := P.montgomery_conversions_total _ exL
example := P.refines_Fp _ _ exP exP
example := P.fromBytes_refines_Fp (List.replicate 32 255) rfl
example : Gen.FiatP.sm2Add [5, 6, 7, 8] [5, 6, 7, 8] = [10, 12, 14, 16] := by decide
-- N
example := N.add_spec _ _ exN exN
example := N.sub_spec _ _ exN exN
example := N.opp_spec _ exN
example := N.selectznz_spec _ _ exL exN.limbs4
example := N.nonzero_spec _ exL
example := N.toBytes_spec _ exL
example := N.fromBytes_spec _ exB.1 exB.2
example := N.fromBytes_toBytes _ exL
example := N.toBytes_fromBytes _ exB.1 exB.2
example := N.mul_spec _ _ exN exN
example := N.square_spec _ exN
example := N.fromMontgomery_spec _ exN
example := N.toMontgomery_spec _ exN
example := N.montgomery_conversions_total _ exL
example := N.refines_Fn _ _ exN exN
example := N.fromBytes_refines_Fn (List.replicate 32 255) rfl
-- inversion: the primality hypotheses hold (Pratt certificates, SMGo/Proofs/Prime.lean)
example := run_exponent Spec.SM2.p 1 _ _ chains_wellformed.1 3
example := invert_Fp_spec Prime.p_prime 5 (by decide)
example := invert_Fp_plain Prime.p_prime (Model.Field.R % Spec.SM2.p) (by decide +kernel)
example := invert_Fn_spec Prime.n_prime 5 (by decide)
example := invert_Fn_plain Prime.n_prime (Model.Field.R % Spec.SM2.n) (by decide +kernel)
example := invert_limbs_Fp _ exP
example := invert_limbs_Fn _ exN
-- wrappers
example : Model.Field.setBytes Model.SM2.Fp (List.replicate 32 255) = .err :=
  (setBytes_rejects _).1 (Or.inr (by decide))
example : Model.Field.setBytes Model.SM2.Fn (List.replicate 31 0 ++ [1]) = .ok (Model.Field.R % Spec.SM2.n) := by
  rw [setBytes_Fn_spec]; decide
example (v : Bytes) (x : Nat) (h : Model.Field.setBytes Model.SM2.Fp v = .ok x) :=
  bytes_setBytes_Fp v x h
example : ∃ v x, Model.Field.setBytes Model.SM2.Fp v = .ok x :=
  ⟨_, _, setBytes_bytes_Fp 1 (by decide)⟩
example : ∃ v x, Model.Field.setBytes Model.SM2.Fn v = .ok x :=
  ⟨_, _, setBytes_bytes_Fn 1 (by decide)⟩
example := (multiSelectLimbs_spec [[1, 2, 3, 4], [5, 6, 7, 8], [9, 10, 11, 12]] 3 2 [0, 0, 0, 0] 1
  (by decide)).1 rfl (by decide) (by decide) (by decide)
example := (multiSelectLimbs_spec [[1, 2, 3, 4]] 1 0 [7, 7, 7, 7] 0 (by decide)).2.1 rfl rfl (by decide)
example := limbs_roundtrip 12345 (by decide)
example := wrappers_on_limbs_Fp _ _ exL exP.limbs4
example := wrappers_on_limbs_Fn _ _ exL exN.limbs4
example := setBytes_limbs_Fp (List.replicate 32 1)
example := setBytes_limbs_Fn (List.replicate 32 1)
example := (invert_on_limbs _).1 exP
example := (invert_on_limbs _).2 exN

/-! ## axioms -/
#print axioms param_P_eq
#print axioms param_N_eq
#print axioms P.add_spec
#print axioms P.sub_spec
#print axioms P.opp_spec
#print axioms P.selectznz_spec
#print axioms P.setOne_spec
#print axioms P.nonzero_spec
#print axioms P.toBytes_spec
#print axioms P.fromBytes_spec
#print axioms P.fromBytes_toBytes
#print axioms P.toBytes_fromBytes
#print axioms P.mul_spec
#print axioms P.square_spec
#print axioms P.fromMontgomery_spec
#print axioms P.toMontgomery_spec
#print axioms P.montgomery_conversions_total
#print axioms P.refines_Fp
#print axioms P.fromBytes_refines_Fp
#print axioms N.add_spec
#print axioms N.sub_spec
#print axioms N.opp_spec
#print axioms N.selectznz_spec
#print axioms N.setOne_spec
#print axioms N.nonzero_spec
#print axioms N.toBytes_spec
#print axioms N.fromBytes_spec
#print axioms N.fromBytes_toBytes
#print axioms N.toBytes_fromBytes
#print axioms N.mul_spec
#print axioms N.square_spec
#print axioms N.fromMontgomery_spec
#print axioms N.toMontgomery_spec
#print axioms N.montgomery_conversions_total
#print axioms N.refines_Fn
#print axioms N.fromBytes_refines_Fn
#print axioms exponent_def
#print axioms fieldInverse_exponent
#print axioms scalarInverse_exponent
#print axioms chains_wellformed
#print axioms run_exponent
#print axioms invert_Fp_pow
#print axioms invert_Fn_pow
#print axioms invert_Fp_spec
#print axioms invert_Fp_plain
#print axioms invert_Fn_spec
#print axioms invert_Fn_plain
#print axioms invert_Fp_spec_closed
#print axioms invert_Fp_plain_closed
#print axioms invert_Fn_spec_closed
#print axioms invert_Fn_plain_closed
#print axioms invert_limbs_Fp
#print axioms invert_limbs_Fn
#print axioms Fp_params
#print axioms Fn_params
#print axioms setBytes_Fp_spec
#print axioms setBytes_Fn_spec
#print axioms setBytes_rejects
#print axioms scalarSetBytes_eq_setBytes
#print axioms bytes_spec
#print axioms bytes_setBytes_Fp
#print axioms bytes_setBytes_Fn
#print axioms setBytes_bytes_Fp
#print axioms setBytes_bytes_Fn
#print axioms multiSelectLimbs_spec
#print axioms select_spec
#print axioms limbs_roundtrip
#print axioms wrappers_on_limbs_Fp
#print axioms wrappers_on_limbs_Fn
#print axioms setBytes_limbs_Fp
#print axioms setBytes_limbs_Fn
#print axioms invert_on_limbs

end SMGo.Props.C16
