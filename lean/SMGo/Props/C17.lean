/-
  Property C17 — concurrent use.  PARTIAL.
  (Property theorems only; definitions in SMGo/Model/Interleave.lean, lemmas in
  SMGo/Proofs/Interleave*.lean.)

  "One Block or AEAD value, and the same key, nonce, message and ciphertext buffers used read-only,
   may be used from any number of goroutines at once: every call returns what it would return when
   run alone, and there are no data races on package-level state.  The same holds for concurrent
   SM2 signing, verification and key derivation and for independent hash values."

  WHAT IS NOT MODELLED (and why the label is PARTIAL).  The Go memory model, the scheduler, the
  allocator's internal synchronisation and the hardware (store buffers, non-atomic wide stores)
  are not modelled.  What is proved is a schedule-independence theorem for an abstract
  shared-memory machine with atomic, sequentially consistent steps, and its premises — the write
  sets — for this code.  The bridge to the real program is the classical one: a program whose
  threads never write a location another thread reads or writes has no data race, and the Go
  memory model gives race-free programs sequentially consistent behaviour; that argument is not
  formalised here.  The runtime harness (/verif/go/cmd/harness/c17.go: G goroutines × M calls on
  one Block/AEAD with shared input buffers, compared with the serial answers, also under the race
  detector) samples real schedules.

  WHAT IS PROVED.

  1. `schedule_independence` (abstract machine; Model/Interleave.lean §1).  Threads `i` with
     deterministic steps that read only `R i ∪ W i` and write only `W i` (`Footprint`), no thread
     writing what another reads or writes (`Separated`): after EVERY schedule each thread's local
     state is the one of its solo run with as many steps, the memory on `W i` is what thread `i`
     alone produces, the rest of the memory is untouched.  `call_returns_alone`,
     `call_returns_under_every_schedule`, `concurrent_calls`: the same for calls (threads with a
     result): each call returns what it returns alone.

  2. The premises for this code — who writes where.
     a. Go glue (`seal_seal_commute`, `open_open_commute`, `seal_open_commute`,
        `block_block_commute`, `cipher_calls_any_order`): on the slice heap of Model/Slice.lean,
        with the statement-by-statement model of Seal/Open of Model/GCMGlue.lean (the model of
        property C10) and the model `blockCrypt` of Block.Encrypt/Decrypt, calls on ONE cipher
        object whose destinations' spare capacities meet neither each other nor any call's input
        slices, executed as atomic steps in ANY order: no call panics, each shows its caller the
        bytes it shows when run alone, all other slices are unchanged.  These come from C10's
        contracts (`UnchangedOutside … (InRegion ret …)`: a call changes no byte outside the
        region it appends; it reads key, nonce, additional data and text only).  The cipher
        object itself (`GcmAsm`: round keys, nonce size, tag size; `enc`/`dec` for the Block) is a
        VALUE in these models: the Go methods have pointer receivers but never assign through them
        (Seal/Open/Encrypt/Decrypt take `&g.roundKeys[0]`, `&sm4.enc[0]` and hand them to routines
        that only load from them — `rkLoads` in C11's access models has no write).
     b. Assembly (`asm_write_sets`, from C11's access models `SMGo.Model.AsmAccessModel`): for
        all lengths, every WRITE of sealAsm/openAsm goes through `dst` or through `temp` (the 32-byte
        scratch, a stack array of the calling goroutine); of cryptoBlockAsm* through `dst`;
        expandKeyAsm writes only the round-key arrays of the object under construction.  That the
        access models are the accesses of the listings is C11 (Proofs/AsmAccessTie*, bounded,
        computational).  With C11's bounds for all lengths (Proofs/AsmAccessBounds)
        `sealAsm_writes_are_local`, `openAsm_writes_are_local`, `blockAsm_writes_are_local` give
        the statement at the level of locations: every byte stored lies in the `dst` bytes of
        the call or in its 32-byte `temp`.
     c. Package-level state (`no_package_level_writes`,
        `package_level_method_calls_readonly`): by `decide` over lists GENERATED from the Go
        sources on every check run (so they are re-checked whenever the sources change).

     FROM WHOLE CALLS TO THEIR INTERNAL STEPS.  The heap theorems of 2a treat a call as one atomic
     step, i.e. they cover the interleavings at call granularity.  Real goroutines interleave at
     the granularity of single loads and stores.  Theorem 1 closes that gap given the write sets:
     take as threads the calls, as steps their individual memory accesses, `W i` = the appended
     region of call `i`'s destination ∪ its `temp` ∪ whatever it allocates, `R i` = the round
     keys, nonce, additional data, text.  By 2a (Go statements: the only stores are copyAsm into
     the fresh array and the routine's output) and 2b (assembly) EVERY internal write of call `i`
     is in `W i`; the `W i` are pairwise disjoint and disjoint from all inputs by the hypothesis
     on the destinations (`temp` and fresh allocations are private by construction); every step
     is a deterministic function of registers and of the locations it loads.  So `Footprint` and
     `Separated` hold, and `schedule_independence` says that under every interleaving of the
     internal steps each call ends in the local state — in particular with the return value —
     and leaves in its destination the bytes of its solo run.  `prog_calls_schedule_independent`
     makes this formal for straight-line load/store programs built from access lists
     (`accessProg`); what stays informal is that the assembly IS such a program for the access
     lists of C11 (control flow depends only on lengths and, in openAsm, on the tag verdict,
     which is a function of read-only inputs).

     THE DISJOINTNESS PREMISE IS NECESSARY: before repair 25081bb openAsm XORed the expected
     tag into the tag bytes of the caller's ciphertext.  `old_open_depends_on_order`: two such
     Opens of ONE valid ciphertext buffer — whichever runs second fails; the repaired Open passes
     in both orders (`new_open_independent_of_order`).  `old_tag_compare_writes_ciphertext`:
     the old operand order has a write access to the ciphertext region in the access model.
     Abstract counterpart: `racy_programs_depend_on_schedule`.

  3. `C17_summary`: the conjunction that reads as the property.

  NOT PROVED (partial coverage): see the last section.
-/
import SMGo.Gen.GoFacts
import SMGo.Model.Interleave
import SMGo.Proofs.Interleave
import SMGo.Proofs.InterleaveHeap
import SMGo.Proofs.InterleaveAsm
import SMGo.Proofs.AsmAccessBounds
namespace SMGo.Props.C17
open SMGo SMGo.Model SMGo.Model.Mem SMGo.Model.GCMGlue SMGo.Model.Interleave
open SMGo.Proofs.GCMGlue (AsmLens Disjoint)
open SMGo.Proofs.InterleaveHeap (Apart Apart2 Contract CipherCall)
open SMGo.Proofs.InterleaveAsm (WritesOnlyTo AsmWriteSets placeAccess)

/-! ### vocabulary, restated as checked facts -/

/-- "reads only `R`, writes only `W`" -/
example {Loc Val : Type} (t : Thread Loc Val) (R W : Loc → Prop) :
    Footprint t R W ↔
      ((∀ (s : t.St) (m m' : Mem Loc Val), (∀ l, R l ∨ W l → m l = m' l) →
          (t.step s m).1 = (t.step s m').1 ∧ ∀ l, W l → (t.step s m).2 l = (t.step s m').2 l) ∧
       (∀ (s : t.St) (m : Mem Loc Val) (l : Loc), ¬ W l → (t.step s m).2 l = m l)) :=
  ⟨fun h => ⟨h.reads, h.writes⟩, fun h => ⟨h.1, h.2⟩⟩

/-- no thread writes what another reads or writes -/
example {Loc ι : Type} (R W : ι → Loc → Prop) :
    Separated R W ↔ ∀ i j, i ≠ j → ∀ l, W i l → ¬ (R j l ∨ W j l) := Iff.rfl

/-- a schedule is executed from left to right, one step of the named thread at a time -/
example {Loc Val ι : Type} [DecidableEq ι] (T : ι → Thread Loc Val) (c : Config T) (j : ι)
    (sched : List ι) : run T c (j :: sched) = run T (stepThread T c j) sched := rfl

/-- the window of `c` meets neither what `c'` reads nor `c'`'s window in its whole extent -/
example (c c' : HeapCall) :
    Apart c c' ↔ ((∀ s ∈ c'.ins, Disjoint c.win s) ∧ Disjoint c.win (full c'.win)) := Iff.rfl

/-! ### 1. the abstract machine -/

/-- **Schedule independence.**  If for all `i ≠ j` the write set `W i` is disjoint from
    `R j ∪ W j`, then for EVERY schedule: the local state of each thread `i` equals its local state
    after running alone, from the same initial memory, the number of steps of `i` the schedule
    contains; the final memory on `W i` is what `i` alone would have produced; memory outside all
    `W i` is unchanged. -/
theorem schedule_independence {Loc Val ι : Type} [DecidableEq ι] (T : ι → Thread Loc Val)
    (R W : ι → Loc → Prop) (hfp : ∀ i, Footprint (T i) (R i) (W i)) (hsep : Separated R W)
    (c0 : Config T) (sched : List ι) :
    (∀ i, (run T c0 sched).loc i = (runAlone (T i) (sched.count i) (c0.loc i, c0.mem)).1) ∧
    (∀ i l, W i l →
      (run T c0 sched).mem l = (runAlone (T i) (sched.count i) (c0.loc i, c0.mem)).2 l) ∧
    (∀ l, (∀ i, ¬ W i l) → (run T c0 sched).mem l = c0.mem l) :=
  Proofs.Interleave.schedule_independence T R W hfp hsep c0 sched

/-- whatever a call has returned after a schedule, it returns when run alone -/
theorem call_returns_alone {Loc Val ι : Type} [DecidableEq ι] (C : ι → Call Loc Val)
    (R W : ι → Loc → Prop) (hfp : ∀ i, Footprint (C i).toThread (R i) (W i)) (hsep : Separated R W)
    (m0 : Mem Loc Val) (sched : List ι) (i : ι) (r : (C i).Res)
    (hr : (C i).result ((run (fun i => (C i).toThread) (initConfig C m0) sched).loc i) = some r) :
    (C i).ReturnsAlone m0 r :=
  Proofs.Interleave.call_result_alone C R W hfp hsep m0 sched i r hr

/-- a call that returns `r` after `k` steps alone has returned `r` after every schedule that
    gives it at least `k` steps -/
theorem call_returns_under_every_schedule {Loc Val ι : Type} [DecidableEq ι] (C : ι → Call Loc Val)
    (R W : ι → Loc → Prop) (hfp : ∀ i, Footprint (C i).toThread (R i) (W i)) (hsep : Separated R W)
    (m0 : Mem Loc Val) (sched : List ι) (i : ι) (hh : (C i).Halts) (k : Nat) (r : (C i).Res)
    (hk : (C i).result (runAlone (C i).toThread k ((C i).init, m0)).1 = some r)
    (hle : k ≤ sched.count i) :
    (C i).result ((run (fun i => (C i).toThread) (initConfig C m0) sched).loc i) = some r :=
  Proofs.Interleave.call_returns C R W hfp hsep m0 sched i hh k r hk hle

/-- the result of a halting call run alone is unique: "what it returns alone" is well defined -/
theorem alone_result_unique {Loc Val : Type} (c : Call Loc Val) (hh : c.Halts) (m0 : Mem Loc Val)
    (r r' : c.Res) (h1 : c.ReturnsAlone m0 r) (h2 : c.ReturnsAlone m0 r') : r = r' :=
  Proofs.Interleave.returnsAlone_unique c hh m0 r r' h1 h2

/-- **Concurrent calls with shared read-only inputs and private destinations.**  Any number of
    calls (`ι` arbitrary); call `i` reads only `shared` and its own locations `own i` (destination
    region, scratch), writes only `own i`; the `own i` are pairwise disjoint and disjoint from
    `shared`.  Then under EVERY interleaving of their steps: a call that has returned has returned
    what it returns alone; a call that returns alone after `k` steps has returned exactly that as
    soon as it got `k` steps; its own locations hold what its solo run leaves there; the shared
    inputs are unchanged. -/
theorem concurrent_calls {Loc Val ι : Type} [DecidableEq ι] (C : ι → Call Loc Val)
    (shared : Loc → Prop) (R own : ι → Loc → Prop)
    (hfp : ∀ i, Footprint (C i).toThread (R i) (own i))
    (hR : ∀ i l, R i l → shared l ∨ own i l)
    (hown : ∀ i j, i ≠ j → ∀ l, own i l → ¬ own j l)
    (hsh : ∀ i l, own i l → ¬ shared l)
    (hh : ∀ i, (C i).Halts)
    (m0 : Mem Loc Val) (sched : List ι) :
    (∀ i r, (C i).result ((run (fun i => (C i).toThread) (initConfig C m0) sched).loc i) = some r →
      (C i).ReturnsAlone m0 r) ∧
    (∀ i k r, (C i).result (runAlone (C i).toThread k ((C i).init, m0)).1 = some r →
      k ≤ sched.count i →
      (C i).result ((run (fun i => (C i).toThread) (initConfig C m0) sched).loc i) = some r) ∧
    (∀ i l, own i l → (run (fun i => (C i).toThread) (initConfig C m0) sched).mem l =
      (runAlone (C i).toThread (sched.count i) ((C i).init, m0)).2 l) ∧
    (∀ l, shared l → (run (fun i => (C i).toThread) (initConfig C m0) sched).mem l = m0 l) := by
  have hsep : Separated R own := by
    intro i j hij l hl hc
    rcases hc with hc | hc
    · rcases hR j l hc with hs | ho
      · exact hsh i l hl hs
      · exact hown i j hij l hl ho
    · exact hown i j hij l hl hc
  have hind := Proofs.Interleave.schedule_independence (fun i => (C i).toThread) R own hfp hsep
    (initConfig C m0) sched
  refine ⟨fun i r hr => call_returns_alone C R own hfp hsep m0 sched i r hr,
    fun i k r hk hle => call_returns_under_every_schedule C R own hfp hsep m0 sched i (hh i) k r hk hle,
    fun i l hl => hind.2.1 i l hl, fun l hl => hind.2.2 l (fun i ho => hsh i l ho hl)⟩

/-- straight-line load/store programs have the footprint one reads off them: every program reads
    only where it loads and writes only where it stores -/
theorem prog_footprint {Loc Val : Type} [DecidableEq Loc] (p : List (Instr Loc Val)) :
    Footprint (progThread p) (progReads p) (progWrites p) :=
  Proofs.Interleave.prog_footprint p

/-- **Programs.**  Any number of straight-line programs `P i` such that no program stores where
    another loads or stores: under every schedule that lets program `i` finish, it returns what
    it returns alone (`out` of the values it loaded) -/
theorem prog_calls_schedule_independent {Loc Val ι : Type} [DecidableEq Loc] [DecidableEq ι]
    (P : ι → List (Instr Loc Val)) (Res : Type) (out : List Val → Res)
    (hsep : ∀ i j, i ≠ j → ∀ l, progWrites (P i) l → ¬ (progReads (P j) l ∨ progWrites (P j) l))
    (m0 : Mem Loc Val) (sched : List ι) (i : ι) (hle : (P i).length ≤ sched.count i) :
    ∃ r, (progCall (P i) Res out).ReturnsAlone m0 r ∧
      (progCall (P i) Res out).result
        ((run (fun i => (progCall (P i) Res out).toThread)
          (initConfig (fun i => progCall (P i) Res out) m0) sched).loc i) = some r := by
  obtain ⟨r, hr⟩ := Proofs.Interleave.progCall_returns (P i) Res out m0
  refine ⟨r, ⟨(P i).length, hr⟩, ?_⟩
  exact Proofs.Interleave.call_returns (fun i => progCall (P i) Res out)
    (fun i => progReads (P i)) (fun i => progWrites (P i))
    (fun i => Proofs.Interleave.prog_footprint (P i)) hsep m0 sched i
    (Proofs.Interleave.progCall_halts (P i) Res out) (P i).length r hr hle

/-- the stores of a program made from an access list lie inside its write accesses -/
theorem accessProg_writes {Val : Type} (f : Nat → List Val → Val) (accs : List PlacedAccess)
    (l : Nat) (hw : progWrites (accessProg f accs) l) :
    ∃ a ∈ accs, a.write = true ∧ a.base + a.off ≤ l ∧ l < a.base + a.off + a.width :=
  Proofs.Interleave.accessProg_writes f accs l hw

/-! ### 2a. the Go glue: whole calls on the slice heap, in either / any order -/

/-- **Any number of calls on one cipher object, in any order.**  `cs`: Seal / Open calls on the
    AEAD value `g` and Encrypt / Decrypt calls on the Block value (`enc`, `dec`), arguments
    well-formed in the heap `h0`, pairwise `Apart2` (no call's write window meets another call's
    inputs or window).  For every order `cs'` of these calls: no panic; every call shows its caller
    what it shows when run alone from `h0`; every slice that meets no window (the shared key,
    nonce, additional data, message and ciphertext buffers) shows what it showed. -/
theorem cipher_calls_any_order (g : GcmAsm) (hl : AsmLens g) (ht : gcmMinimumTagSize ≤ g.tagSize)
    (enc dec : Bytes → Bytes) (he : ∀ bs, bs.length = blockSize → (enc bs).length = blockSize)
    (hd : ∀ bs, bs.length = blockSize → (dec bs).length = blockSize)
    (h0 : Heap) (cs : List HeapCall) (hc : ∀ c ∈ cs, CipherCall g enc dec h0 c)
    (hp : cs.Pairwise Apart2) (cs' : List HeapCall) (hperm : cs'.Perm cs) :
    ∃ hf rs, runAll h0 cs' = .ok (hf, rs) ∧
      (∃ vs, viewAll (runAll h0 cs') = .ok vs ∧
        vs.map Outcome.ok = cs'.map (fun c => view (c.run h0))) ∧
      (∀ s, WF h0 s → (∀ c ∈ cs, Disjoint c.win s) → Mem.read hf s = Mem.read h0 s) :=
  Proofs.InterleaveHeap.calls_any_order h0 cs
    (fun c hm => Proofs.InterleaveHeap.cipherCall_contract g hl ht enc dec he hd h0 c (hc c hm))
    hp cs' hperm

/-- a window apart from `s[:cap]` is apart from `s` -/
theorem disjoint_of_full (h : Heap) (d s : Slice) (hws : WF h s) (hd : Disjoint d (full s)) :
    Disjoint d s := by
  have := hws.1
  rcases hd with hd | hd | hd
  · exact Or.inl hd
  · right; left
    have : s.off + s.cap ≤ d.off + d.len := hd
    omega
  · exact Or.inr (Or.inr hd)

/-- **Two Seals.**  One AEAD value, the same nonce / plaintext / additional-data slices, two
    destinations whose spare capacities meet neither each other's extent nor the inputs: in either
    order both calls return `dst_i ‖ sealOut(nonce, plaintext, aad)` — what each returns alone. -/
theorem seal_seal_commute (g : GcmAsm) (hl : AsmLens g) (ht : 0 < g.tagSize)
    (h : Heap) (dst1 dst2 nonce pt aad : Slice)
    (hw1 : WF h dst1) (hw2 : WF h dst2) (hwn : WF h nonce) (hwp : WF h pt) (hwa : WF h aad)
    (hn : nonce.len = g.nonceSize) (hp : pt.len ≤ maxPlain)
    (hd1 : Disjoint dst1 nonce ∧ Disjoint dst1 pt ∧ Disjoint dst1 aad)
    (hd2 : Disjoint dst2 nonce ∧ Disjoint dst2 pt ∧ Disjoint dst2 aad)
    (h12 : Disjoint dst1 (full dst2)) (h21 : Disjoint dst2 (full dst1)) :
    viewAll (runAll h [sealCall g dst1 nonce pt aad, sealCall g dst2 nonce pt aad]) =
      .ok [some (Mem.read h dst1 ++ g.asm.sealOut (Mem.read h nonce) (Mem.read h pt) (Mem.read h aad)),
           some (Mem.read h dst2 ++ g.asm.sealOut (Mem.read h nonce) (Mem.read h pt) (Mem.read h aad))] ∧
    viewAll (runAll h [sealCall g dst2 nonce pt aad, sealCall g dst1 nonce pt aad]) =
      .ok [some (Mem.read h dst2 ++ g.asm.sealOut (Mem.read h nonce) (Mem.read h pt) (Mem.read h aad)),
           some (Mem.read h dst1 ++ g.asm.sealOut (Mem.read h nonce) (Mem.read h pt) (Mem.read h aad))] := by
  have hab : Apart2 (sealCall g dst1 nonce pt aad) (sealCall g dst2 nonce pt aad) := by
    refine ⟨⟨?_, h12⟩, ⟨?_, h21⟩⟩
    · intro s hs
      simp only [sealCall, List.mem_cons, List.mem_nil_iff, or_false] at hs
      rcases hs with rfl | rfl | rfl | rfl
      · exact disjoint_of_full h _ _ hw2 h12
      · exact hd1.1
      · exact hd1.2.1
      · exact hd1.2.2
    · intro s hs
      simp only [sealCall, List.mem_cons, List.mem_nil_iff, or_false] at hs
      rcases hs with rfl | rfl | rfl | rfl
      · exact disjoint_of_full h _ _ hw1 h21
      · exact hd2.1
      · exact hd2.2.1
      · exact hd2.2.2
  obtain ⟨va, vb, hva, hvb, e1, e2⟩ := Proofs.InterleaveHeap.two_calls_commute h _ _
    (Proofs.InterleaveHeap.sealCall_contract g hl ht h dst1 nonce pt aad hw1 hwn hwp hwa hn hp)
    (Proofs.InterleaveHeap.sealCall_contract g hl ht h dst2 nonce pt aad hw2 hwn hwp hwa hn hp) hab
  rw [Proofs.InterleaveHeap.sealCall_view g hl ht h dst1 nonce pt aad hw1 hwn hwp hwa hn hp] at hva
  rw [Proofs.InterleaveHeap.sealCall_view g hl ht h dst2 nonce pt aad hw2 hwn hwp hwa hn hp] at hvb
  injection hva with hva
  injection hvb with hvb
  subst hva; subst hvb
  exact ⟨e1, e2⟩

/-- what an Open call returns alone: `(nil, errOpen)` or `dst ‖ plaintext` -/
def openAnswer (g : GcmAsm) (h : Heap) (dst nonce ct aad : Slice) : Option Bytes :=
  if ct.len < g.tagSize ∨ ct.len > maxPlain + g.tagSize then none else
    (g.asm.openOut (Mem.read h nonce) (Mem.read h ct) (Mem.read h aad)).map
      (fun p => Mem.read h dst ++ p)

/-- **Two Opens.**  One AEAD value, the same nonce / ciphertext / additional-data slices, two
    destinations: in either order both calls return what each returns alone (the plaintext behind
    `dst_i`, or the error). -/
theorem open_open_commute (g : GcmAsm) (hl : AsmLens g) (ht : gcmMinimumTagSize ≤ g.tagSize)
    (h : Heap) (dst1 dst2 nonce ct aad : Slice)
    (hw1 : WF h dst1) (hw2 : WF h dst2) (hwn : WF h nonce) (hwc : WF h ct) (hwa : WF h aad)
    (hn : nonce.len = g.nonceSize)
    (hd1 : Disjoint dst1 nonce ∧ Disjoint dst1 ct ∧ Disjoint dst1 aad)
    (hd2 : Disjoint dst2 nonce ∧ Disjoint dst2 ct ∧ Disjoint dst2 aad)
    (h12 : Disjoint dst1 (full dst2)) (h21 : Disjoint dst2 (full dst1)) :
    viewAll (runAll h [openCall g dst1 nonce ct aad, openCall g dst2 nonce ct aad]) =
      .ok [openAnswer g h dst1 nonce ct aad, openAnswer g h dst2 nonce ct aad] ∧
    viewAll (runAll h [openCall g dst2 nonce ct aad, openCall g dst1 nonce ct aad]) =
      .ok [openAnswer g h dst2 nonce ct aad, openAnswer g h dst1 nonce ct aad] := by
  have hab : Apart2 (openCall g dst1 nonce ct aad) (openCall g dst2 nonce ct aad) := by
    refine ⟨⟨?_, h12⟩, ⟨?_, h21⟩⟩
    · intro s hs
      simp only [openCall, List.mem_cons, List.mem_nil_iff, or_false] at hs
      rcases hs with rfl | rfl | rfl | rfl
      · exact disjoint_of_full h _ _ hw2 h12
      · exact hd1.1
      · exact hd1.2.1
      · exact hd1.2.2
    · intro s hs
      simp only [openCall, List.mem_cons, List.mem_nil_iff, or_false] at hs
      rcases hs with rfl | rfl | rfl | rfl
      · exact disjoint_of_full h _ _ hw1 h21
      · exact hd2.1
      · exact hd2.2.1
      · exact hd2.2.2
  obtain ⟨va, vb, hva, hvb, e1, e2⟩ := Proofs.InterleaveHeap.two_calls_commute h _ _
    (Proofs.InterleaveHeap.openCall_contract g hl ht h dst1 nonce ct aad hw1 hwn hwc hwa hn)
    (Proofs.InterleaveHeap.openCall_contract g hl ht h dst2 nonce ct aad hw2 hwn hwc hwa hn) hab
  rw [Proofs.InterleaveHeap.openCall_view g hl ht h dst1 nonce ct aad hw1 hwn hwc hwa hn] at hva
  rw [Proofs.InterleaveHeap.openCall_view g hl ht h dst2 nonce ct aad hw2 hwn hwc hwa hn] at hvb
  injection hva with hva
  injection hvb with hvb
  subst hva; subst hvb
  exact ⟨e1, e2⟩

/-- **A Seal and an Open.**  One AEAD value; the Seal on `(nonce1, pt, aad1)` into `dst1`, the Open
    on `(nonce2, ct, aad2)` into `dst2`; neither destination's spare capacity meets the other's
    extent or any of the six input slices: either order, same answers. -/
theorem seal_open_commute (g : GcmAsm) (hl : AsmLens g) (ht : gcmMinimumTagSize ≤ g.tagSize)
    (h : Heap) (dst1 nonce1 pt aad1 dst2 nonce2 ct aad2 : Slice)
    (hw1 : WF h dst1) (hwn1 : WF h nonce1) (hwp : WF h pt) (hwa1 : WF h aad1)
    (hw2 : WF h dst2) (hwn2 : WF h nonce2) (hwc : WF h ct) (hwa2 : WF h aad2)
    (hn1 : nonce1.len = g.nonceSize) (hn2 : nonce2.len = g.nonceSize) (hp : pt.len ≤ maxPlain)
    (hd1 : ∀ s ∈ [nonce1, pt, aad1, nonce2, ct, aad2], Disjoint dst1 s)
    (hd2 : ∀ s ∈ [nonce1, pt, aad1, nonce2, ct, aad2], Disjoint dst2 s)
    (h12 : Disjoint dst1 (full dst2)) (h21 : Disjoint dst2 (full dst1)) :
    viewAll (runAll h [sealCall g dst1 nonce1 pt aad1, openCall g dst2 nonce2 ct aad2]) =
      .ok [some (Mem.read h dst1 ++
              g.asm.sealOut (Mem.read h nonce1) (Mem.read h pt) (Mem.read h aad1)),
           openAnswer g h dst2 nonce2 ct aad2] ∧
    viewAll (runAll h [openCall g dst2 nonce2 ct aad2, sealCall g dst1 nonce1 pt aad1]) =
      .ok [openAnswer g h dst2 nonce2 ct aad2,
           some (Mem.read h dst1 ++
              g.asm.sealOut (Mem.read h nonce1) (Mem.read h pt) (Mem.read h aad1))] := by
  have ht0 : 0 < g.tagSize := Nat.lt_of_lt_of_le (by decide) ht
  have hab : Apart2 (sealCall g dst1 nonce1 pt aad1) (openCall g dst2 nonce2 ct aad2) := by
    refine ⟨⟨?_, h12⟩, ⟨?_, h21⟩⟩
    · intro s hs
      simp only [openCall, List.mem_cons, List.mem_nil_iff, or_false] at hs
      rcases hs with rfl | rfl | rfl | rfl
      · exact disjoint_of_full h _ _ hw2 h12
      · exact hd1 _ (by simp)
      · exact hd1 _ (by simp)
      · exact hd1 _ (by simp)
    · intro s hs
      simp only [sealCall, List.mem_cons, List.mem_nil_iff, or_false] at hs
      rcases hs with rfl | rfl | rfl | rfl
      · exact disjoint_of_full h _ _ hw1 h21
      · exact hd2 _ (by simp)
      · exact hd2 _ (by simp)
      · exact hd2 _ (by simp)
  obtain ⟨va, vb, hva, hvb, e1, e2⟩ := Proofs.InterleaveHeap.two_calls_commute h _ _
    (Proofs.InterleaveHeap.sealCall_contract g hl ht0 h dst1 nonce1 pt aad1 hw1 hwn1 hwp hwa1 hn1 hp)
    (Proofs.InterleaveHeap.openCall_contract g hl ht h dst2 nonce2 ct aad2 hw2 hwn2 hwc hwa2 hn2) hab
  rw [Proofs.InterleaveHeap.sealCall_view g hl ht0 h dst1 nonce1 pt aad1 hw1 hwn1 hwp hwa1 hn1 hp] at hva
  rw [Proofs.InterleaveHeap.openCall_view g hl ht h dst2 nonce2 ct aad2 hw2 hwn2 hwc hwa2 hn2] at hvb
  injection hva with hva
  injection hvb with hvb
  subst hva; subst hvb
  exact ⟨e1, e2⟩

/-- **Two Block calls** (Encrypt or Decrypt: `f1`, `f2` are what cryptoBlockAsm computes with the
    round keys used) on the same source block, destination blocks `dst_i[0:16]` that meet neither
    each other nor the source: either order, `dst_i[:16] = f_i(src[:16])`. -/
theorem block_block_commute (f1 f2 : Bytes → Bytes)
    (hf1 : ∀ bs, bs.length = blockSize → (f1 bs).length = blockSize)
    (hf2 : ∀ bs, bs.length = blockSize → (f2 bs).length = blockSize)
    (h : Heap) (dst1 dst2 src : Slice) (hw1 : WF h dst1) (hw2 : WF h dst2) (hws : WF h src)
    (hl1 : blockSize ≤ dst1.len) (hl2 : blockSize ≤ dst2.len) (hls : blockSize ≤ src.len)
    (hd1 : Disjoint (blockWin dst1) { src with len := blockSize })
    (hd2 : Disjoint (blockWin dst2) { src with len := blockSize })
    (h12 : Disjoint (blockWin dst1) (full (blockWin dst2)))
    (h21 : Disjoint (blockWin dst2) (full (blockWin dst1))) :
    viewAll (runAll h [blockCall f1 dst1 src, blockCall f2 dst2 src]) =
      .ok [some (f1 (Mem.read h { src with len := blockSize })),
           some (f2 (Mem.read h { src with len := blockSize }))] ∧
    viewAll (runAll h [blockCall f2 dst2 src, blockCall f1 dst1 src]) =
      .ok [some (f2 (Mem.read h { src with len := blockSize })),
           some (f1 (Mem.read h { src with len := blockSize }))] := by
  have hab : Apart2 (blockCall f1 dst1 src) (blockCall f2 dst2 src) := by
    refine ⟨⟨?_, h12⟩, ⟨?_, h21⟩⟩
    · intro s hs
      simp only [blockCall, List.mem_cons, List.mem_nil_iff, or_false] at hs
      subst hs; exact hd1
    · intro s hs
      simp only [blockCall, List.mem_cons, List.mem_nil_iff, or_false] at hs
      subst hs; exact hd2
  obtain ⟨va, vb, hva, hvb, e1, e2⟩ := Proofs.InterleaveHeap.two_calls_commute h _ _
    (Proofs.InterleaveHeap.blockCall_contract f1 hf1 h dst1 src hw1 hws hl1 hls)
    (Proofs.InterleaveHeap.blockCall_contract f2 hf2 h dst2 src hw2 hws hl2 hls) hab
  rw [Proofs.InterleaveHeap.blockCall_view f1 hf1 h dst1 src hw1 hws hl1 hls] at hva
  rw [Proofs.InterleaveHeap.blockCall_view f2 hf2 h dst2 src hw2 hws hl2 hls] at hvb
  injection hva with hva
  injection hvb with hvb
  subst hva; subst hvb
  exact ⟨e1, e2⟩

/-! ### 2b. the assembly's write sets -/

/-- **The assembly writes only through `dst` and `temp`** (sealAsm, openAsm), through `dst`
    (cryptoBlockAsm, X2, X4, X8, X16), into the round-key arrays it is handed (expandKeyAsm) — for
    all tag sizes and lengths, over C11's access models -/
theorem asm_write_sets : AsmWriteSets := Proofs.InterleaveAsm.asmWriteSets

/-- with C11's bounds (every access of the list inside its region of size `size r`) and the
    regions placed at addresses `place r`: every byte the routine writes lies inside an allowed
    region — for sealAsm/openAsm, inside the call's own destination region or its own scratch -/
theorem asm_writes_are_local (accs : List AsmAccess.Access) (A : List AsmAccess.Region)
    (size place : AsmAccess.Region → Nat) (hw : WritesOnlyTo accs A)
    (hb : ∀ a ∈ accs, a.inBounds size) {Val : Type} (f : Nat → List Val → Val) (l : Nat)
    (hl : progWrites (accessProg f (accs.map (placeAccess place))) l) :
    ∃ r ∈ A, place r ≤ l ∧ l < place r + size r := by
  obtain ⟨pa, hpa, hwr, h1, h2⟩ := Proofs.Interleave.accessProg_writes f _ l hl
  exact Proofs.InterleaveAsm.writes_within accs A size place hw hb pa hpa hwr l h1 h2

/-- **sealAsm, at the level of locations** (C11's bounds `sealModel_in` discharge the hypothesis of
    `asm_writes_are_local`): with the argument regions placed anywhere, every byte a run of sealAsm
    stores lies in the `len(plaintext)+tagSize` bytes at `dst` or in the 32 bytes of `temp` -/
theorem sealAsm_writes_are_local (tagSize nl pl al : Nat) (h12 : 12 ≤ tagSize) (h16 : tagSize ≤ 16)
    (place : AsmAccess.Region → Nat) {Val : Type} (f : Nat → List Val → Val) (l : Nat)
    (hl : progWrites (accessProg f
      ((AsmAccessModel.sealModel tagSize nl pl al).map (placeAccess place))) l) :
    (place AsmAccessModel.aDst ≤ l ∧ l < place AsmAccessModel.aDst + (pl + tagSize)) ∨
    (place AsmAccessModel.aTmp ≤ l ∧ l < place AsmAccessModel.aTmp + 32) := by
  obtain ⟨r, hr, h1, h2⟩ := asm_writes_are_local _ _ (AsmAccessModel.sealSize tagSize nl pl al) place
    (asm_write_sets.sealAsm tagSize nl pl al)
    (Proofs.AsmAccessBounds.sealModel_in tagSize nl pl al h12 h16).all f l hl
  simp only [List.mem_cons, List.mem_nil_iff, or_false] at hr
  rcases hr with rfl | rfl
  · exact Or.inl ⟨h1, h2⟩
  · exact Or.inr ⟨h1, h2⟩

/-- **openAsm, at the level of locations**: every byte stored lies in the `len(ciphertext)-tagSize`
    bytes at `dst` or in the 32 bytes of `temp` — whether the tags match or not -/
theorem openAsm_writes_are_local (tagSize nl cl al : Nat) (tagOk : Bool) (h12 : 12 ≤ tagSize)
    (h16 : tagSize ≤ 16) (hcl : tagSize ≤ cl)
    (place : AsmAccess.Region → Nat) {Val : Type} (f : Nat → List Val → Val) (l : Nat)
    (hl : progWrites (accessProg f
      ((AsmAccessModel.openModel tagSize nl cl al tagOk).map (placeAccess place))) l) :
    (place AsmAccessModel.aDst ≤ l ∧ l < place AsmAccessModel.aDst + (cl - tagSize)) ∨
    (place AsmAccessModel.aTmp ≤ l ∧ l < place AsmAccessModel.aTmp + 32) := by
  obtain ⟨r, hr, h1, h2⟩ := asm_writes_are_local _ _ (AsmAccessModel.openSize tagSize nl cl al) place
    (asm_write_sets.openAsm tagSize nl cl al tagOk)
    (Proofs.AsmAccessBounds.openModel_in tagSize nl cl al tagOk h12 h16 hcl).all f l hl
  simp only [List.mem_cons, List.mem_nil_iff, or_false] at hr
  rcases hr with rfl | rfl
  · exact Or.inl ⟨h1, h2⟩
  · exact Or.inr ⟨h1, h2⟩

/-- **cryptoBlockAsm, at the level of locations**: every byte stored lies in the 16 bytes at `dst` -/
theorem blockAsm_writes_are_local (place : AsmAccess.Region → Nat) {Val : Type}
    (f : Nat → List Val → Val) (l : Nat)
    (hl : progWrites (accessProg f (AsmAccessModel.blockModel.map (placeAccess place))) l) :
    place (.arg 16) ≤ l ∧ l < place (.arg 16) + 16 := by
  obtain ⟨r, hr, h1, h2⟩ := asm_writes_are_local _ _ (AsmAccessModel.blockSize 1) place
    asm_write_sets.block.1 Proofs.AsmAccessBounds.blockModel_in.all f l hl
  simp only [List.mem_cons, List.mem_nil_iff, or_false] at hr
  subst hr
  exact ⟨h1, h2⟩

/-- the operand order of before repair 25081bb has a write access to the ciphertext region -/
theorem old_tag_compare_writes_ciphertext (cl tagSize : Nat) (ht : 0 < tagSize) :
    ¬ WritesOnlyTo (AsmAccessModel.ctCompare AsmAccessModel.aTmp 16 AsmAccessModel.aText
        (cl - tagSize) tagSize) [AsmAccessModel.aDst, AsmAccessModel.aTmp] :=
  Proofs.InterleaveAsm.ctCompare_old_writes_ciphertext cl tagSize ht

/-! ### 2c. package-level state

  The lists are generated by /verif/go/cmd/translate/gofacts.go from the non-test Go files of
  utils, sm3, sm4, sm2, sm2/internal, sm2/internal/fiat (files named verif_export* and files
  under a never-set `verif`/`tablegen`/`ignore` build tag excluded).  The generator works on TYPE-CHECKED
  syntax (go/types), once per build configuration (amd64, arm64, neither), facts united, fail-closed (ill-typed
  code or a file in no configuration stops it).  It covers: assignments (`=`, `op=`), `++`/`--`, range-assign
  targets, destinations of copy/clear/delete/append, method calls and method values, address-taking and array
  slicing, whose ROOT (through selectors, indexing, slicing, `*`, `&`, parentheses, conversions, accessor calls,
  local aliases, and PARAMETERS/receivers bound interprocedurally to every package-level variable some call site
  passes) is a package-level variable of any package — in every function other than initialisation code; function
  literals always count as non-initialisation code.  Arguments rooted at package-level variables that leave the
  module are listed with callee and position.  Positive controls, the allow-lists and what is NOT covered (pointers
  stored by a callee and read back later, pointers returned by foreign code from a non-receiver argument, function
  values, unsafe, reflection, assembly = 2b) are in Props/C17Facts.lean.  What is not covered would show up in the
  race-detector run of the harness, which is evidence, not proof. -/

/-- no statement outside initialisation writes a package-level variable -/
theorem no_package_level_writes : Gen.GoFacts.packageLevelWrites = [] := by decide

/-- every method called on a package-level variable outside initialisation is in the explicit list
    of methods that do not modify their receiver -/
theorem package_level_method_calls_readonly :
    ∀ c ∈ Gen.GoFacts.packageLevelMethodCalls, c.2.2 ∈ readOnlyMethods := by decide

/-- the generator did see the package-level variables (the lists are not empty for want of input) -/
theorem package_vars_seen : 10 ≤ Gen.GoFacts.packageVarCount := by decide

/-! ### 3. the summary -/

/-- **C17, as far as it is proved.**
    (1) Abstract machine: any number of concurrent calls that read shared inputs and their own
        locations and write only their own, pairwise disjoint, locations — under EVERY
        interleaving each call returns what it returns alone, leaves in its own locations what its
        solo run leaves there, and the shared inputs are unchanged.
    (2) Seal / Open / Encrypt / Decrypt calls on one cipher object, on the slice heap, with
        pairwise apart destinations and shared read-only inputs, as atomic steps in EVERY order:
        no panic, each returns what it returns alone.
    (3) Every internal write of the assembly behind these calls is through the call's own `dst` or
        `temp` (so the steps of (2) refine to threads that satisfy the hypotheses of (1)).
    (4) No package-level variable is written, or has a modifying method called on it, outside
        initialisation. -/
theorem C17_summary :
    (∀ (Loc Val ι : Type) [DecidableEq ι] (C : ι → Call Loc Val)
        (shared : Loc → Prop) (R own : ι → Loc → Prop),
        (∀ i, Footprint (C i).toThread (R i) (own i)) →
        (∀ i l, R i l → shared l ∨ own i l) →
        (∀ i j, i ≠ j → ∀ l, own i l → ¬ own j l) →
        (∀ i l, own i l → ¬ shared l) →
        (∀ i, (C i).Halts) →
        ∀ (m0 : Mem Loc Val) (sched : List ι),
          (∀ i r, (C i).result
              ((run (fun i => (C i).toThread) (initConfig C m0) sched).loc i) = some r →
            (C i).ReturnsAlone m0 r) ∧
          (∀ i k r, (C i).result (runAlone (C i).toThread k ((C i).init, m0)).1 = some r →
            k ≤ sched.count i →
            (C i).result ((run (fun i => (C i).toThread) (initConfig C m0) sched).loc i) = some r) ∧
          (∀ i l, own i l → (run (fun i => (C i).toThread) (initConfig C m0) sched).mem l =
            (runAlone (C i).toThread (sched.count i) ((C i).init, m0)).2 l) ∧
          (∀ l, shared l →
            (run (fun i => (C i).toThread) (initConfig C m0) sched).mem l = m0 l)) ∧
    (∀ (g : GcmAsm), AsmLens g → gcmMinimumTagSize ≤ g.tagSize →
      ∀ (enc dec : Bytes → Bytes), (∀ bs, bs.length = blockSize → (enc bs).length = blockSize) →
        (∀ bs, bs.length = blockSize → (dec bs).length = blockSize) →
      ∀ (h0 : Heap) (cs : List HeapCall), (∀ c ∈ cs, CipherCall g enc dec h0 c) →
        cs.Pairwise Apart2 →
      ∀ cs' : List HeapCall, cs'.Perm cs →
        ∃ hf rs, runAll h0 cs' = .ok (hf, rs) ∧
          (∃ vs, viewAll (runAll h0 cs') = .ok vs ∧
            vs.map Outcome.ok = cs'.map (fun c => view (c.run h0))) ∧
          (∀ s, WF h0 s → (∀ c ∈ cs, Disjoint c.win s) → Mem.read hf s = Mem.read h0 s)) ∧
    AsmWriteSets ∧
    (Gen.GoFacts.packageLevelWrites = [] ∧
      ∀ c ∈ Gen.GoFacts.packageLevelMethodCalls, c.2.2 ∈ readOnlyMethods) := by
  refine ⟨?_, ?_, asm_write_sets, no_package_level_writes, package_level_method_calls_readonly⟩
  · intro Loc Val ι _ C shared R own hfp hR hown hsh hh m0 sched
    exact concurrent_calls C shared R own hfp hR hown hsh hh m0 sched
  · intro g hl ht enc dec he hd h0 cs hc hp cs' hperm
    exact cipher_calls_any_order g hl ht enc dec he hd h0 cs hc hp cs' hperm

/-! ### non-vacuity and the regression -/

section examples

/-! #### the abstract machine: two programs, disjoint stores -/

/-- program 0 loads locations 0 and 1 and stores their sum at 10 and the number of loads at 11;
    program 1 loads location 0 and stores its double at 20 -/
def exProg : Fin 2 → List (Instr Nat Nat)
  | 0 => [.load 0, .load 1, .store 10 (fun vs => vs.sum), .store 11 (fun vs => vs.length)]
  | 1 => [.load 0, .store 20 (fun vs => 2 * vs.sum)]

def exMem : Mem Nat Nat := fun l => if l = 0 then 2 else if l = 1 then 3 else 0

/-- the hypothesis of `prog_calls_schedule_independent` holds for them -/
theorem exProg_separated : ∀ i j : Fin 2, i ≠ j → ∀ l, progWrites (exProg i) l →
    ¬ (progReads (exProg j) l ∨ progWrites (exProg j) l)
  | 0, 0, h, _ => absurd rfl h
  | 1, 1, h, _ => absurd rfl h
  | 0, 1, _, l => by
    simp [progWrites, progReads, exProg]
    intro x h
    rcases h with ⟨h, _⟩ | ⟨h, _⟩ <;> omega
  | 1, 0, _, l => by
    simp [progWrites, progReads, exProg]
    intro h
    subst h
    simp

/-- so under the schedule 1,0,0,1,0,0 (and any other that lets it finish) program 0 returns what it
    returns alone -/
example : ∃ r, (progCall (exProg 0) (List Nat) id).ReturnsAlone exMem r ∧
    (progCall (exProg 0) (List Nat) id).result
      ((run (fun i => (progCall (exProg i) (List Nat) id).toThread)
        (initConfig (fun i => progCall (exProg i) (List Nat) id) exMem) [1, 0, 0, 1, 0, 0]).loc 0)
      = some r :=
  prog_calls_schedule_independent exProg (List Nat) id exProg_separated exMem [1, 0, 0, 1, 0, 0] 0
    (by decide)

/-- evaluated: two different schedules, the same memory at the stored locations and the same
    results -/
example :
    let T := fun i => (progCall (exProg i) (List Nat) id).toThread
    let c0 := initConfig (fun i => progCall (exProg i) (List Nat) id) exMem
    ((run T c0 [1, 0, 0, 1, 0, 0]).mem 10, (run T c0 [1, 0, 0, 1, 0, 0]).mem 11,
      (run T c0 [1, 0, 0, 1, 0, 0]).mem 20, (run T c0 [1, 0, 0, 1, 0, 0]).mem 0) = (5, 2, 4, 2) ∧
    ((run T c0 [0, 0, 0, 0, 1, 1]).mem 10, (run T c0 [0, 0, 0, 0, 1, 1]).mem 11,
      (run T c0 [0, 0, 0, 0, 1, 1]).mem 20, (run T c0 [0, 0, 0, 0, 1, 1]).mem 0) = (5, 2, 4, 2) := by
  decide

/-- program 1' stores into location 0, which program 0' loads: the premise fails … -/
def racyProg : Fin 2 → List (Instr Nat Nat)
  | 0 => [.load 0, .store 10 (fun vs => vs.sum)]
  | 1 => [.store 0 (fun _ => 7)]

/-- … and the outcome depends on the schedule: the disjointness premise of
    `schedule_independence` cannot be dropped -/
theorem racy_programs_depend_on_schedule :
    let T := fun i => (progCall (racyProg i) (List Nat) id).toThread
    let c0 := initConfig (fun i => progCall (racyProg i) (List Nat) id) exMem
    (run T c0 [0, 0, 1]).mem 10 = 2 ∧ (run T c0 [1, 0, 0]).mem 10 = 7 := by
  decide

/-! #### the heap: a toy AEAD ("ciphertext" = plaintext, tag = twelve sevens) -/

def toyAsm (t : Nat) : Asm :=
  { sealOut := fun _ pt _ => pt ++ List.replicate t 7
    openOut := fun _ ct _ =>
      if ct.length < t then none
      else if ct.drop (ct.length - t) = List.replicate t 7 then some (ct.take (ct.length - t))
      else none }

def toy : GcmAsm := { nonceSize := 2, tagSize := 12, asm := toyAsm 12 }

theorem toy_lens : AsmLens toy where
  seal_len := by intro _ pt _; simp [toy, toyAsm]
  open_len := by
    intro _ ct _ pt hv
    simp only [toy, toyAsm] at hv
    split at hv
    · cases hv
    · split at hv
      · injection hv with hv; subst hv; simp [List.length_take, toy]
      · cases hv

/-- heap: 0 nonce, 1 additional data, 2 plaintext, 3 a destination with one byte used of 20,
    4 an empty destination with capacity 20, 5 a valid ciphertext (3 bytes ‖ tag),
    6 a destination without room (2 of 2 used), 7 a source block -/
def exHeap : Heap :=
  [[1, 2], [9], [10, 11, 12], [0xaa] ++ List.replicate 19 0, List.replicate 20 0,
   [10, 11, 12] ++ List.replicate 12 7, [0xbb, 0xcc], List.replicate 16 0x10]
def exNonce : Slice := { arr := some 0, off := 0, len := 2, cap := 2 }
def exAad : Slice := { arr := some 1, off := 0, len := 1, cap := 1 }
def exPt : Slice := { arr := some 2, off := 0, len := 3, cap := 3 }
def exDstA : Slice := { arr := some 3, off := 0, len := 1, cap := 20 }
def exDstB : Slice := { arr := some 4, off := 0, len := 0, cap := 20 }
def exCt : Slice := { arr := some 5, off := 0, len := 15, cap := 15 }
def exDstC : Slice := { arr := some 6, off := 0, len := 2, cap := 2 }
def exSrc : Slice := { arr := some 7, off := 0, len := 16, cap := 16 }
/-- a 16-byte destination block inside array 4, behind the part `exDstB` can grow into -/
def exDstBlk : Slice := { arr := some 4, off := 4, len := 16, cap := 16 }

/-- `seal_seal_commute` applies: two Seals of the same plaintext into the two destinations -/
example :
    viewAll (runAll exHeap [sealCall toy exDstA exNonce exPt exAad, sealCall toy exDstB exNonce exPt exAad])
      = .ok [some ([0xaa] ++ ([10, 11, 12] ++ List.replicate 12 7)),
             some ([] ++ ([10, 11, 12] ++ List.replicate 12 7))] ∧
    viewAll (runAll exHeap [sealCall toy exDstB exNonce exPt exAad, sealCall toy exDstA exNonce exPt exAad])
      = .ok [some ([] ++ ([10, 11, 12] ++ List.replicate 12 7)),
             some ([0xaa] ++ ([10, 11, 12] ++ List.replicate 12 7))] :=
  seal_seal_commute toy toy_lens (by decide) exHeap exDstA exDstB exNonce exPt exAad
    (by decide) (by decide) (by decide) (by decide) (by decide) rfl (by decide)
    ⟨Or.inl (by decide), Or.inl (by decide), Or.inl (by decide)⟩
    ⟨Or.inl (by decide), Or.inl (by decide), Or.inl (by decide)⟩
    (Or.inl (by decide)) (Or.inl (by decide))

/-- a destination without room: the call allocates, and WHICH array it gets depends on the order
    (see the next example for two allocating calls); the bytes shown do not -/
example :
    viewAll (runAll exHeap [sealCall toy exDstC exNonce exPt exAad, sealCall toy exDstA exNonce exPt exAad])
      = .ok [some ([0xbb, 0xcc, 10, 11, 12] ++ List.replicate 12 7),
             some ([0xaa, 10, 11, 12] ++ List.replicate 12 7)] ∧
    viewAll (runAll exHeap [sealCall toy exDstA exNonce exPt exAad, sealCall toy exDstC exNonce exPt exAad])
      = .ok [some ([0xaa, 10, 11, 12] ++ List.replicate 12 7),
             some ([0xbb, 0xcc, 10, 11, 12] ++ List.replicate 12 7)] := by
  decide

/-- two allocating calls (nil destination and the full one): the returned slices name different
    arrays in the two orders, the bytes they show are the same -/
example :
    (match runAll exHeap [sealCall toy Slice.nil exNonce exPt exAad, sealCall toy exDstC exNonce exPt exAad] with
      | .ok (_, rs) => rs.map (fun r => r.map (·.arr)) | _ => [])
      = [some (some 8), some (some 9)] ∧
    (match runAll exHeap [sealCall toy exDstC exNonce exPt exAad, sealCall toy Slice.nil exNonce exPt exAad] with
      | .ok (_, rs) => rs.map (fun r => r.map (·.arr)) | _ => [])
      = [some (some 8), some (some 9)] ∧
    viewAll (runAll exHeap [sealCall toy Slice.nil exNonce exPt exAad, sealCall toy exDstC exNonce exPt exAad])
      = .ok [some ([10, 11, 12] ++ List.replicate 12 7),
             some ([0xbb, 0xcc, 10, 11, 12] ++ List.replicate 12 7)] ∧
    viewAll (runAll exHeap [sealCall toy exDstC exNonce exPt exAad, sealCall toy Slice.nil exNonce exPt exAad])
      = .ok [some ([0xbb, 0xcc, 10, 11, 12] ++ List.replicate 12 7),
             some ([10, 11, 12] ++ List.replicate 12 7)] := by
  decide

instance (d s : Slice) : Decidable (Disjoint d s) := by unfold Disjoint; exact inferInstance
instance (c c' : HeapCall) : Decidable (Apart c c') := by unfold Apart; exact inferInstance
instance (c c' : HeapCall) : Decidable (Apart2 c c') := by unfold Apart2; exact inferInstance

/-- the Block's toy "encryption": add one to every byte -/
def toyEnc : Bytes → Bytes := fun bs => bs.map (· + 1)

/-- three calls of three kinds on one cipher object — a Seal into `exDstA`, an Open into `exDstB`
    (3 bytes), an Encrypt into bytes 4..19 of the same array as `exDstB`: the hypotheses of
    `cipher_calls_any_order` are satisfiable, and in a rotated order each call gets the answer it
    gets alone -/
example :
    ∃ vs, viewAll (runAll exHeap [blockCall toyEnc exDstBlk exSrc,
        sealCall toy exDstA exNonce exPt exAad, openCall toy { exDstB with cap := 3 } exNonce exCt exAad])
        = .ok vs ∧
      vs.map Outcome.ok =
        [view ((blockCall toyEnc exDstBlk exSrc).run exHeap),
         view ((sealCall toy exDstA exNonce exPt exAad).run exHeap),
         view ((openCall toy { exDstB with cap := 3 } exNonce exCt exAad).run exHeap)] := by
  obtain ⟨_, _, _, hv, _⟩ := cipher_calls_any_order toy toy_lens (by decide) toyEnc toyEnc
    (by intro bs hb; simp [toyEnc, hb]) (by intro bs hb; simp [toyEnc, hb]) exHeap
    [sealCall toy exDstA exNonce exPt exAad, openCall toy { exDstB with cap := 3 } exNonce exCt exAad,
      blockCall toyEnc exDstBlk exSrc]
    (by
      intro c hc
      simp only [List.mem_cons, List.mem_nil_iff, or_false] at hc
      rcases hc with rfl | rfl | rfl
      · exact .ofSeal _ _ _ _ (by decide) (by decide) (by decide) (by decide) rfl (by decide)
          ⟨Or.inl (by decide), Or.inl (by decide), Or.inl (Or.inl (by decide))⟩
      · exact .ofOpen _ _ _ _ (by decide) (by decide) (by decide) (by decide) rfl
          ⟨Or.inl (by decide), Or.inl (by decide), Or.inl (Or.inl (by decide))⟩
      · exact .ofEncrypt _ _ (by decide) (by decide) (by decide) (by decide))
    (by decide)
    [blockCall toyEnc exDstBlk exSrc, sealCall toy exDstA exNonce exPt exAad,
      openCall toy { exDstB with cap := 3 } exNonce exCt exAad]
    (List.perm_append_comm (l₁ := [blockCall toyEnc exDstBlk exSrc]))
  exact hv

/-- the same, evaluated -/
example :
    viewAll (runAll exHeap [blockCall toyEnc exDstBlk exSrc,
      sealCall toy exDstA exNonce exPt exAad, openCall toy { exDstB with cap := 3 } exNonce exCt exAad])
      = .ok [some (List.replicate 16 0x11), some ([0xaa, 10, 11, 12] ++ List.replicate 12 7),
             some [10, 11, 12]] := by
  decide

/-! #### the regression (finding G, repaired in 25081bb) -/

/-- the toy's expected tag and decryption, for the pre-repair Open -/
def oldOpen (dst : Slice) : HeapCall :=
  openXorCall 2 12 (fun _ _ _ => List.replicate 12 7) (fun _ body => body) dst exNonce exCt exAad

/-- alone, the old Open of the valid ciphertext succeeds, into either destination -/
example : view ((oldOpen exDstA).run exHeap) = .ok (some [0xaa, 10, 11, 12]) ∧
    view ((oldOpen exDstB).run exHeap) = .ok (some [10, 11, 12]) := by decide

/-- **The disjointness premise is necessary.**  Two old Opens of ONE valid ciphertext buffer, into
    two disjoint destinations: whichever runs second finds the tag bytes XORed to zero by the first
    and fails.  Call A (into `exDstA`) returns the plaintext when it is first and `(nil, errOpen)`
    when it is second — its result depends on the order.  The old Open writes into the shared
    ciphertext: it is not `Apart` from the other call's inputs. -/
theorem old_open_depends_on_order :
    viewAll (runAll exHeap [oldOpen exDstA, oldOpen exDstB]) = .ok [some [0xaa, 10, 11, 12], none] ∧
    viewAll (runAll exHeap [oldOpen exDstB, oldOpen exDstA]) = .ok [some [10, 11, 12], none] := by
  decide

/-- the ciphertext buffer after one old Open: the tag is gone -/
example : (match (oldOpen exDstA).run exHeap with
    | .ok (h', _) => Mem.read h' exCt | _ => [])
    = [10, 11, 12] ++ List.replicate 12 0 := by decide

/-- the repaired Open, same buffers: both calls succeed in both orders (by the theorem) -/
theorem new_open_independent_of_order :
    viewAll (runAll exHeap [openCall toy exDstA exNonce exCt exAad, openCall toy exDstB exNonce exCt exAad])
      = .ok [some [0xaa, 10, 11, 12], some [10, 11, 12]] ∧
    viewAll (runAll exHeap [openCall toy exDstB exNonce exCt exAad, openCall toy exDstA exNonce exCt exAad])
      = .ok [some [10, 11, 12], some [0xaa, 10, 11, 12]] := by
  have h := open_open_commute toy toy_lens (by decide) exHeap exDstA exDstB exNonce exCt exAad
    (by decide) (by decide) (by decide) (by decide) (by decide) rfl
    ⟨Or.inl (by decide), Or.inl (by decide), Or.inl (by decide)⟩
    ⟨Or.inl (by decide), Or.inl (by decide), Or.inl (by decide)⟩
    (Or.inl (by decide)) (Or.inl (by decide))
  have e1 : openAnswer toy exHeap exDstA exNonce exCt exAad = some [0xaa, 10, 11, 12] := by decide
  have e2 : openAnswer toy exHeap exDstB exNonce exCt exAad = some [10, 11, 12] := by decide
  rw [e1, e2] at h
  exact h

/-- … and the ciphertext buffer is intact afterwards -/
example : (match runAll exHeap [openCall toy exDstA exNonce exCt exAad, openCall toy exDstB exNonce exCt exAad] with
    | .ok (h', _) => Mem.read h' exCt | _ => [])
    = [10, 11, 12] ++ List.replicate 12 7 := by decide

/-- the write-set statement is not vacuous: sealAsm's model does contain writes (to `dst`) -/
example : (AsmAccessModel.sealModel 16 12 16 0).any
    (fun a => a.write && decide (a.region = AsmAccessModel.aDst)) = true := by decide

end examples

/-! ### what is not proved here

  NOT PROVED (partial coverage of C17):
  * The Go memory model, the scheduler, the allocator and the hardware are not modelled (see the
    header): the theorems are about an abstract machine with atomic sequentially consistent steps.
  * That the assembly routines ARE load/store threads with the footprints of 2b: the write sets are
    proved over C11's access models; that the listings make exactly these accesses, in bounds, is
    C11 (bounded tie + unbounded bounds), and that each instruction's effect is a function of
    registers and the bytes it loads is the ISA model of C06/C07.  The composition "therefore the
    real Seal is a thread satisfying `Footprint`" is the argument of the header, not a theorem.
  * Allocation: in the heap model a call without room appends a new array; the theorems compare
    results by the bytes they show because array identities depend on the order.  That Go's
    allocator hands concurrent callers distinct memory is assumed.
  * "concurrent SM2 signing, verification and key derivation and independent hash values":
    the SM2 and SM3 models of this project are functions of byte VALUES (no heap), so for them
    schedule independence is trivial and says nothing about the Go code; what the property needs
    is that these entry points touch no shared mutable state, i.e. 2c (no package-level writes, no
    modifying method on a package-level `*big.Int`/curve value — within the syntactic coverage
    stated there) plus the fact that an `SM3` value is used by one goroutine.  Writes through
    pointers derived from package-level variables are outside 2c.  Evidence: the harness
    (stream c17, with and without -race).
  * arm64: 2b is about the amd64 access models only.
-/
#print axioms schedule_independence
#print axioms call_returns_alone
#print axioms call_returns_under_every_schedule
#print axioms alone_result_unique
#print axioms concurrent_calls
#print axioms prog_footprint
#print axioms prog_calls_schedule_independent
#print axioms accessProg_writes
#print axioms cipher_calls_any_order
#print axioms disjoint_of_full
#print axioms seal_seal_commute
#print axioms open_open_commute
#print axioms seal_open_commute
#print axioms block_block_commute
#print axioms asm_write_sets
#print axioms asm_writes_are_local
#print axioms sealAsm_writes_are_local
#print axioms openAsm_writes_are_local
#print axioms blockAsm_writes_are_local
#print axioms old_tag_compare_writes_ciphertext
#print axioms no_package_level_writes
#print axioms package_level_method_calls_readonly
#print axioms package_vars_seen
#print axioms C17_summary
#print axioms racy_programs_depend_on_schedule
#print axioms old_open_depends_on_order
#print axioms new_open_independent_of_order

end SMGo.Props.C17
