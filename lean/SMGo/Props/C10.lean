/-
  Property C10 — buffer contracts.
  (Property theorems only; lemmas live in SMGo/Proofs/Slice*.lean and SMGo/Proofs/GCMGlue*.lean.)

  "Seal and Open follow the crypto/cipher AEAD contract for every destination slice: the result is
   dst followed by the output, whether or not dst has spare capacity, including the in-place idiom
   where dst is the zero-length prefix of the input; Sum follows the same append rule.  No operation
   of the library changes a byte of the slices passed as key, nonce, additional data, message,
   ciphertext, signature or public key (other than an exactly overlapping destination), so repeating
   a call on the same buffers gives the same answer."

  What is proved here, and about what:
  * The subject is the Go glue of /repo/sm4/sm4_gcm_amd64.go (`Seal`, `Open`, `ensureCapacity`,
    with `needExpand`/`copyAsm` of helper_amd64.s) and `(*SM3).Sum`'s `append`, modelled statement
    by statement in `SMGo.Model.GCMGlue` over the executable model of Go's slices
    `SMGo.Model.Slice` (heap of backing arrays; slices = array id, offset, len, cap; bounds-checked
    reslice/index/address-of; `make`, `append`, stores through raw pointers that panic when they
    leave their array).
  * The assembly routines sealAsm/openAsm enter as a record `Asm` of two functions of the VALUES of
    nonce, text and additional data (read from the heap at call time), of which only the output
    lengths are assumed (`AsmLens`).  The theorems hold for every such record; `…_sm4` instantiate
    it with the specification `Spec.GCM.sealGCM/openGCM (Spec.SM4.cryptFast (keySchedule key))`
    (`GCMGlue.newGCM`), for which `AsmLens` is proved.  That the assembly computes these values is
    C06/C07; that it touches no memory but `dst[0:n)` and its local scratch is C11.
  * The model is tied to the code by the differential harness (`bin/check C10`, runC10): for every
    dst shape × length class × path the implementation's view
    `ok <bytes> shares=<bool> inputs=unchanged` is compared three-way with `gcm.sealglue` /
    `gcm.openglue` (this model, run by the driver) and `gcm.sealglue.spec` / `gcm.openglue.spec`
    (the contract written over the specification).
  * Aliasing: the model reads all inputs, then writes all output.  This is faithful for inputs that
    do not meet the output region and for a text that starts exactly where the output starts
    (justification in Model/GCMGlue.lean).  Partial overlaps are outside the AEAD contract and
    outside the model; the hypothesis `Admissible` below excludes them.
  * SM2 (signature, public key, message, id are not modified; repeated calls agree) is covered by
    the harness only (stream sm2.inputs): the SM2 models are functions of byte VALUES and have no
    heap, so "does not modify its argument" is not expressible about them.  See the last
    section, "what is not proved here".
-/
import SMGo.Spec.GCM
import SMGo.Spec.SM4Fast
import SMGo.Model.Slice
import SMGo.Model.GCMGlue
import SMGo.Model.SM3State
import SMGo.Proofs.Slice
import SMGo.Proofs.GCMGlue
import SMGo.Proofs.GCMGlueSpec
import SMGo.Proofs.GCMGlueContract
import SMGo.Proofs.GCMGlueRepeat
import SMGo.Proofs.SliceSM3
namespace SMGo.Props.C10
open SMGo SMGo.Model SMGo.Model.Mem SMGo.Model.GCMGlue
open SMGo.Proofs.GCMGlue (AsmLens InRegion UnchangedOutside Nowhere Disjoint ExactOverlap IsPrefix0
  Admissible fresh)

/-! ### vocabulary (definitions are in Proofs/GCMGlueContract.lean; restated here as checked facts) -/

/-- `InRegion ret k n a i`: byte `i` of array `a` is one of the `n` bytes behind `ret[:k]` -/
example (ret : Slice) (k n a i : Nat) :
    InRegion ret k n a i ↔ (ret.arr = some a ∧ ret.off + k ≤ i ∧ i < ret.off + k + n) := Iff.rfl

/-- `UnchangedOutside h h' R`: every array of `h` still exists in `h'` with the same length, and
    every byte outside `R` is the same -/
example (h h' : Heap) (R : Nat → Nat → Prop) :
    UnchangedOutside h h' R ↔
      (h.length ≤ h'.length ∧
       (∀ a, a < h.length → (arrayOf h' a).length = (arrayOf h a).length) ∧
       (∀ a i, a < h.length → ¬ R a i → byteAt h' a i = byteAt h a i)) := Iff.rfl

/-- `Disjoint dst s`: `s` shows no byte of `dst[len(dst):cap(dst)]` -/
example (dst s : Slice) :
    Disjoint dst s ↔
      (s.arr ≠ dst.arr ∨ s.off + s.len ≤ dst.off + dst.len ∨ dst.off + dst.cap ≤ s.off) := Iff.rfl

/-- a slice in another array than dst's is disjoint -/
theorem disjoint_of_other_array (dst s : Slice) (hne : s.arr ≠ dst.arr) : Disjoint dst s := Or.inl hne

/-- `Admissible`: nonce and additional data disjoint; the text disjoint or exactly overlapping -/
example (dst nonce text aad : Slice) :
    Admissible dst nonce text aad ↔
      (Disjoint dst nonce ∧ Disjoint dst aad ∧
        (Disjoint dst text ∨ (text.arr = dst.arr ∧ text.off = dst.off + dst.len))) := Iff.rfl

/-- the in-place idiom `dst = text[:0]` is an exact overlap -/
theorem inplace_admissible (dst nonce text aad : Slice) (hp : dst = { text with len := 0 })
    (hdn : Disjoint dst nonce) (hda : Disjoint dst aad) : Admissible dst nonce text aad :=
  ⟨hdn, hda, Or.inr (Proofs.GCMGlue.exactOverlap_of_prefix0 dst text hp)⟩

/-! ### ensureCapacity -/

/-- `ensureCapacity(array, asked)`: with room (`asked ≤ cap − len`) it is `array[:len+asked]` and
    the heap is untouched; without, it is a new array holding `array ‖ asked zero bytes`.  Never a
    panic (in particular none for nil, for empty non-nil, for `asked = 0`). -/
theorem ensureCapacity_spec (h : Heap) (s : Slice) (asked : Nat) (hwf : WF h s) :
    ensureCapacity h s asked =
      if asked ≤ s.cap - s.len then .ok (h, { s with len := s.len + asked })
      else .ok (h ++ [Mem.read h s ++ List.replicate asked 0], fresh h (s.len + asked)) := by
  by_cases hroom : asked ≤ s.cap - s.len
  · rw [if_pos hroom]; exact Proofs.GCMGlue.ensureCapacity_room h s asked hroom hwf
  · rw [if_neg hroom]; exact Proofs.GCMGlue.ensureCapacity_expand h s asked hroom hwf

/-- the same, as a contract: `head` shows `array` followed by `asked` bytes, shares `array`'s
    pointer iff there was room, and no byte of the old heap changed -/
theorem ensureCapacity_contract (h : Heap) (s : Slice) (asked : Nat) (hwf : WF h s) :
    ∃ h' head, ensureCapacity h s asked = .ok (h', head) ∧
      head.len = s.len + asked ∧
      (Mem.read h' head).take s.len = Mem.read h s ∧
      (Mem.read h' head).length = s.len + asked ∧
      (Shares head s ↔ s.arr ≠ none ∧ asked ≤ s.cap - s.len) ∧
      UnchangedOutside h h' Nowhere := by
  have hrl := Proofs.Slice.length_read h s hwf
  rw [ensureCapacity_spec h s asked hwf]
  by_cases hroom : asked ≤ s.cap - s.len
  · rw [if_pos hroom]
    have hwf2 : WF h { s with len := s.len + asked } := by
      obtain ⟨arr, o, len, cap⟩ := s
      obtain ⟨h1, h2⟩ := hwf
      exact ⟨by simp at h1 hroom ⊢; omega, h2⟩
    refine ⟨_, _, rfl, rfl, ?_, Proofs.Slice.length_read h _ hwf2, ?_,
      Proofs.GCMGlue.unchanged_refl h _⟩
    · obtain ⟨arr, o, len, cap⟩ := s
      cases arr with
      | none => simp [Mem.read]
      | some a => simp [Mem.read, List.take_take]
    · simp [Shares, hroom]
  · rw [if_neg hroom]
    have hrd : Mem.read (h ++ [Mem.read h s ++ List.replicate asked 0]) (fresh h (s.len + asked))
        = Mem.read h s ++ List.replicate asked 0 := by
      show ((arrayOf (h ++ [_]) h.length).drop 0).take (s.len + asked) = _
      rw [Proofs.Slice.arrayOf_append_new]
      simp only [List.drop_zero]
      apply List.take_of_length_le
      simp [hrl]
    refine ⟨_, _, rfl, rfl, ?_, ?_, ?_, Proofs.GCMGlue.unchanged_append h _ _⟩
    · rw [hrd, ← hrl]; simp
    · rw [hrd]; simp [hrl]
    · constructor
      · intro ⟨h1, _, _⟩
        exfalso
        obtain ⟨arr, o, len, cap⟩ := s
        simp [fresh] at h1; subst h1
        exact Nat.lt_irrefl _ hwf.2.1
      · intro ⟨_, h2⟩; exact absurd h2 hroom

/-! ### Seal -/

/-- **Seal appends.**  For every heap, every well-formed dst (any `len ≤ cap`, nil included), and
    inputs that do not meet dst's spare capacity or a plaintext that overlaps it exactly:
    no panic; the result shows `dst ‖ sealOut(nonce, plaintext, aad)`; it has dst's pointer iff dst
    is not nil and `cap − len ≥ |pt| + tagSize`; every byte of the old heap outside the appended
    region `ret[len(dst) : len(dst)+|pt|+tagSize)` is unchanged (so are therefore nonce, additional
    data, the plaintext when disjoint, dst's own bytes, and any other slice — a key, say — that
    does not meet dst's spare capacity). -/
theorem seal_appends (g : GcmAsm) (hl : AsmLens g) (ht : 0 < g.tagSize)
    (h : Heap) (dst nonce pt aad : Slice)
    (hwf : WF h dst) (hwn : WF h nonce) (hwp : WF h pt) (hwa : WF h aad)
    (hn : nonce.len = g.nonceSize) (hp : pt.len ≤ maxPlain)
    (hadm : Admissible dst nonce pt aad) :
    ∃ h' ret, GCMGlue.seal g h dst nonce pt aad = .ok (h', ret) ∧
      Mem.read h' ret =
        Mem.read h dst ++ g.asm.sealOut (Mem.read h nonce) (Mem.read h pt) (Mem.read h aad) ∧
      (Shares ret dst ↔ dst.arr ≠ none ∧ pt.len + g.tagSize ≤ dst.cap - dst.len) ∧
      UnchangedOutside h h' (InRegion ret dst.len (pt.len + g.tagSize)) ∧
      WF h' ret ∧
      Mem.read h' nonce = Mem.read h nonce ∧
      Mem.read h' aad = Mem.read h aad ∧
      (Disjoint dst pt → Mem.read h' pt = Mem.read h pt) ∧
      (∀ s, WF h s → Disjoint dst s → Mem.read h' s = Mem.read h s) := by
  obtain ⟨h', ret, e, hwr, hread, hshare, _, hun, hdis⟩ :=
    Proofs.GCMGlue.seal_contract g hl ht h dst nonce pt aad hwf hwn hwp hwa hn hp
  exact ⟨h', ret, e, hread, hshare, hun, hwr, hdis nonce hwn hadm.1, hdis aad hwa hadm.2.1,
    fun hd => hdis pt hwp hd, hdis⟩

/-- the in-place idiom `Seal(pt[:0], nonce, pt, aad)`: the result is the sealed message; it lies
    over the plaintext iff the plaintext's capacity has room for the tag; otherwise a new array is
    returned and the plaintext is still intact -/
theorem seal_inplace (g : GcmAsm) (hl : AsmLens g) (ht : 0 < g.tagSize)
    (h : Heap) (nonce pt aad : Slice)
    (hwn : WF h nonce) (hwp : WF h pt) (hwa : WF h aad)
    (hn : nonce.len = g.nonceSize) (hp : pt.len ≤ maxPlain)
    (hdn : Disjoint { pt with len := 0 } nonce) (hda : Disjoint { pt with len := 0 } aad) :
    ∃ h' ret, GCMGlue.seal g h { pt with len := 0 } nonce pt aad = .ok (h', ret) ∧
      Mem.read h' ret = g.asm.sealOut (Mem.read h nonce) (Mem.read h pt) (Mem.read h aad) ∧
      (Shares ret pt ↔ pt.arr ≠ none ∧ pt.len + g.tagSize ≤ pt.cap) ∧
      UnchangedOutside h h' (InRegion ret 0 (pt.len + g.tagSize)) ∧
      (¬ pt.len + g.tagSize ≤ pt.cap → Mem.read h' pt = Mem.read h pt) := by
  have hwf : WF h { pt with len := 0 } := by
    obtain ⟨arr, o, len, cap⟩ := pt
    exact ⟨Nat.zero_le _, hwp.2⟩
  obtain ⟨h', ret, e, _, hread, hshare, _, hun, _⟩ :=
    Proofs.GCMGlue.seal_contract g hl ht h { pt with len := 0 } nonce pt aad hwf hwn hwp hwa hn hp
  have hr0 : Mem.read h ({ pt with len := 0 } : Slice) = [] := by
    cases hpa : pt.arr <;> simp [Mem.read]
  refine ⟨h', ret, e, ?_, ?_, hun, ?_⟩
  · rw [hread, hr0]; rfl
  · simpa [Shares] using hshare
  · intro hroom
    have he := Proofs.GCMGlue.seal_expand g h { pt with len := 0 } nonce pt aad hl ht hwf hwn hwp hwa
      hn hp (by simpa using hroom)
    rw [he] at e
    injection e with e
    injection e with e1 _
    rw [← e1]
    exact Proofs.Slice.read_append_heap h _ pt hwp

/-- `Seal` panics on a nonce of the wrong length and on a plaintext above 2^36 − 32 bytes -/
theorem seal_panics (g : GcmAsm) (h : Heap) (dst nonce pt aad : Slice)
    (hbad : nonce.len ≠ g.nonceSize ∨ pt.len > maxPlain) :
    GCMGlue.seal g h dst nonce pt aad = .panic := by
  unfold GCMGlue.seal
  by_cases hn : nonce.len ≠ g.nonceSize
  · simp [hn]
  · rcases hbad with hb | hb
    · exact absurd hb hn
    · simp [hn, hb]

/-! ### Open -/

/-- **Open appends.**  When the tags agree (`openOut = some p`): no panic, the result shows
    `dst ‖ p`, shares dst's pointer iff dst is not nil and `cap − len ≥ |ct| − tagSize`, and every
    byte of the old heap outside the appended region is unchanged. -/
theorem open_appends (g : GcmAsm) (hl : AsmLens g) (ht : gcmMinimumTagSize ≤ g.tagSize)
    (h : Heap) (dst nonce ct aad : Slice)
    (hwf : WF h dst) (hwn : WF h nonce) (hwc : WF h ct) (hwa : WF h aad)
    (hn : nonce.len = g.nonceSize) (h1 : g.tagSize ≤ ct.len) (h2 : ct.len ≤ maxPlain + g.tagSize)
    (hadm : Admissible dst nonce ct aad)
    (p : Bytes) (hv : g.asm.openOut (Mem.read h nonce) (Mem.read h ct) (Mem.read h aad) = some p) :
    ∃ h' ret, GCMGlue.open g h dst nonce ct aad = .ok (h', some ret) ∧
      Mem.read h' ret = Mem.read h dst ++ p ∧
      (Shares ret dst ↔ dst.arr ≠ none ∧ ct.len - g.tagSize ≤ dst.cap - dst.len) ∧
      UnchangedOutside h h' (InRegion ret dst.len (ct.len - g.tagSize)) ∧
      WF h' ret ∧
      Mem.read h' nonce = Mem.read h nonce ∧
      Mem.read h' aad = Mem.read h aad ∧
      (Disjoint dst ct → Mem.read h' ct = Mem.read h ct) ∧
      (∀ s, WF h s → Disjoint dst s → Mem.read h' s = Mem.read h s) := by
  obtain ⟨h', ret, e, hwr, hread, hshare, _, hun, hdis⟩ :=
    Proofs.GCMGlue.open_contract_ok g hl ht h dst nonce ct aad hwf hwn hwc hwa hn h1 h2 p hv
  exact ⟨h', ret, e, hread, hshare, hun, hwr, hdis nonce hwn hadm.1, hdis aad hwa hadm.2.1,
    fun hd => hdis ct hwc hd, hdis⟩

/-- **Open fails cleanly.**  A ciphertext shorter than the tag or too long, or a tag mismatch:
    `(nil, errOpen)`, no panic; no byte of the old heap changed, every slice shows what it showed
    (whatever the aliasing); the only possible effect is the allocation `ensureCapacity` made,
    holding dst followed by zeros — no plaintext byte is released anywhere. -/
theorem open_fails (g : GcmAsm) (ht : gcmMinimumTagSize ≤ g.tagSize)
    (h : Heap) (dst nonce ct aad : Slice)
    (hwf : WF h dst) (hwn : WF h nonce) (hwc : WF h ct) (hwa : WF h aad)
    (hn : nonce.len = g.nonceSize)
    (hv : ct.len < g.tagSize ∨ ct.len > maxPlain + g.tagSize ∨
      g.asm.openOut (Mem.read h nonce) (Mem.read h ct) (Mem.read h aad) = none) :
    ∃ h', GCMGlue.open g h dst nonce ct aad = .ok (h', none) ∧
      (h' = h ∨ h' = h ++ [Mem.read h dst ++ List.replicate (ct.len - g.tagSize) 0]) ∧
      UnchangedOutside h h' Nowhere ∧
      (∀ s, WF h s → Mem.read h' s = Mem.read h s) :=
  Proofs.GCMGlue.open_contract_err g ht h dst nonce ct aad hwf hwn hwc hwa hn hv

/-- the empty plaintext (`len(ciphertext) = tagSize`, tags agree): for EVERY well-formed dst — nil,
    empty non-nil, non-empty, with or without spare capacity — Open returns dst itself (nil stays
    nil) with a nil error, and the heap is untouched.  No panic: `&ret[len(dst)]` is not formed. -/
theorem open_empty (g : GcmAsm) (hl : AsmLens g) (ht : gcmMinimumTagSize ≤ g.tagSize)
    (h : Heap) (dst nonce ct aad : Slice)
    (hwf : WF h dst) (hwc : WF h ct)
    (hn : nonce.len = g.nonceSize) (hlen : ct.len = g.tagSize)
    (p : Bytes) (hv : g.asm.openOut (Mem.read h nonce) (Mem.read h ct) (Mem.read h aad) = some p) :
    GCMGlue.open g h dst nonce ct aad = .ok (h, some dst) := by
  have hroom : ct.len - g.tagSize ≤ dst.cap - dst.len := by omega
  have he := Proofs.GCMGlue.open_room_ok g h dst nonce ct aad hl hwf hwc hn ht (by omega)
    (by omega) hroom p hv
  have hpl : p.length = 0 := by
    rw [hl.open_len _ _ _ p hv, Proofs.Slice.length_read h ct hwc]; omega
  have hp : p = [] := List.eq_nil_of_length_eq_zero hpl
  subst hp
  have hh : Proofs.GCMGlue.storeBehind h dst [] = h := by
    unfold Proofs.GCMGlue.storeBehind; cases dst.arr <;> simp
  have hret : ({ dst with len := dst.len + (ct.len - g.tagSize) } : Slice) = dst := by
    rw [show ct.len - g.tagSize = 0 by omega]; cases dst; rfl
  rw [hh, hret] at he
  exact he

/-- `Open` panics on a nonce of the wrong length and on a tag size below 12 -/
theorem open_panics (g : GcmAsm) (h : Heap) (dst nonce ct aad : Slice)
    (hbad : nonce.len ≠ g.nonceSize ∨ g.tagSize < gcmMinimumTagSize) :
    GCMGlue.open g h dst nonce ct aad = .panic := by
  unfold GCMGlue.open
  by_cases hn : nonce.len ≠ g.nonceSize
  · simp [hn]
  · rcases hbad with hb | hb
    · exact absurd hb hn
    · simp [hn, hb]

/-! ### repeated calls -/

/-- **Seal twice.**  Inputs that do not meet dst's spare capacity: the second call on the same
    buffers (in the heap the first call left) returns the same bytes, shares dst's pointer exactly
    when the first did, and is the very same slice when there was room. -/
theorem seal_idempotent (g : GcmAsm) (hl : AsmLens g) (ht : 0 < g.tagSize)
    (h : Heap) (dst nonce pt aad : Slice)
    (hwf : WF h dst) (hwn : WF h nonce) (hwp : WF h pt) (hwa : WF h aad)
    (hn : nonce.len = g.nonceSize) (hp : pt.len ≤ maxPlain)
    (hdn : Disjoint dst nonce) (hdp : Disjoint dst pt) (hda : Disjoint dst aad)
    (h' : Heap) (ret : Slice) (h1 : GCMGlue.seal g h dst nonce pt aad = .ok (h', ret)) :
    ∃ h'' ret', GCMGlue.seal g h' dst nonce pt aad = .ok (h'', ret') ∧
      Mem.read h'' ret' = Mem.read h' ret ∧
      (Shares ret' dst ↔ Shares ret dst) ∧
      (pt.len + g.tagSize ≤ dst.cap - dst.len → ret' = ret) :=
  Proofs.GCMGlue.seal_repeat g hl ht h dst nonce pt aad hwf hwn hwp hwa hn hp hdn hdp hda h' ret h1

/-- **Open twice.**  Same answer: the same plaintext bytes behind dst, or `(nil, errOpen)` again
    (a failed Open does not damage the ciphertext: finding G) -/
theorem open_idempotent (g : GcmAsm) (hl : AsmLens g) (ht : gcmMinimumTagSize ≤ g.tagSize)
    (h : Heap) (dst nonce ct aad : Slice)
    (hwf : WF h dst) (hwn : WF h nonce) (hwc : WF h ct) (hwa : WF h aad)
    (hn : nonce.len = g.nonceSize)
    (hdn : Disjoint dst nonce) (hdc : Disjoint dst ct) (hda : Disjoint dst aad)
    (h' : Heap) (r : Option Slice) (h1 : GCMGlue.open g h dst nonce ct aad = .ok (h', r)) :
    ∃ h'' r', GCMGlue.open g h' dst nonce ct aad = .ok (h'', r') ∧
      r'.map (Mem.read h'') = r.map (Mem.read h') :=
  Proofs.GCMGlue.open_repeat g hl ht h dst nonce ct aad hwf hwn hwc hwa hn hdn hdc hda h' r h1

/-! ### the library's instance: SM4 with the specification's GCM as the assembly's effect -/

/-- `newGCM key nonceSize tagSize` (tag sizes crypto/cipher lets through: 12..16) satisfies the one
    assumption on the assembly, the output lengths -/
theorem sm4_asmLens (key : Bytes) (nonceSize tagSize : Nat) (ht : tagSize ≤ 16) :
    AsmLens (newGCM key nonceSize tagSize) :=
  Proofs.GCMGlue.asmLens_newGCM key nonceSize tagSize ht

/-- `seal_appends` for SM4-GCM: the appended bytes are the specification's `C ‖ T` -/
theorem seal_appends_sm4 (key : Bytes) (nonceSize tagSize : Nat)
    (ht : 12 ≤ tagSize) (ht' : tagSize ≤ 16)
    (h : Heap) (dst nonce pt aad : Slice)
    (hwf : WF h dst) (hwn : WF h nonce) (hwp : WF h pt) (hwa : WF h aad)
    (hn : nonce.len = nonceSize) (hp : pt.len ≤ maxPlain)
    (hadm : Admissible dst nonce pt aad) :
    ∃ h' ret, GCMGlue.seal (newGCM key nonceSize tagSize) h dst nonce pt aad = .ok (h', ret) ∧
      Mem.read h' ret = Mem.read h dst ++
        Spec.GCM.sealGCM (Spec.SM4.cryptFast (Spec.SM4.keySchedule key)) tagSize
          (Mem.read h nonce) (Mem.read h pt) (Mem.read h aad) ∧
      (Shares ret dst ↔ dst.arr ≠ none ∧ pt.len + tagSize ≤ dst.cap - dst.len) ∧
      UnchangedOutside h h' (InRegion ret dst.len (pt.len + tagSize)) := by
  obtain ⟨h', ret, e, hread, hshare, hun, _⟩ :=
    seal_appends (newGCM key nonceSize tagSize) (sm4_asmLens key nonceSize tagSize ht')
      (show 0 < tagSize by omega) h dst nonce pt aad hwf hwn hwp hwa hn hp hadm
  exact ⟨h', ret, e, hread, hshare, hun⟩

/-- `open_appends` / `open_fails` for SM4-GCM, in one statement over the specification's verdict -/
theorem open_appends_sm4 (key : Bytes) (nonceSize tagSize : Nat)
    (ht : 12 ≤ tagSize) (ht' : tagSize ≤ 16)
    (h : Heap) (dst nonce ct aad : Slice)
    (hwf : WF h dst) (hwn : WF h nonce) (hwc : WF h ct) (hwa : WF h aad)
    (hn : nonce.len = nonceSize) (h2 : ct.len ≤ maxPlain + tagSize)
    (hadm : Admissible dst nonce ct aad) :
    match Spec.GCM.openGCM (Spec.SM4.cryptFast (Spec.SM4.keySchedule key)) tagSize
        (Mem.read h nonce) (Mem.read h ct) (Mem.read h aad) with
    | some p =>
      ∃ h' ret, GCMGlue.open (newGCM key nonceSize tagSize) h dst nonce ct aad = .ok (h', some ret) ∧
        Mem.read h' ret = Mem.read h dst ++ p ∧
        (Shares ret dst ↔ dst.arr ≠ none ∧ ct.len - tagSize ≤ dst.cap - dst.len) ∧
        UnchangedOutside h h' (InRegion ret dst.len (ct.len - tagSize))
    | none =>
      ∃ h', GCMGlue.open (newGCM key nonceSize tagSize) h dst nonce ct aad = .ok (h', none) ∧
        UnchangedOutside h h' Nowhere ∧ (∀ s, WF h s → Mem.read h' s = Mem.read h s) := by
  have hl := sm4_asmLens key nonceSize tagSize ht'
  have htm : gcmMinimumTagSize ≤ (newGCM key nonceSize tagSize).tagSize := ht
  cases hv : Spec.GCM.openGCM (Spec.SM4.cryptFast (Spec.SM4.keySchedule key)) tagSize
      (Mem.read h nonce) (Mem.read h ct) (Mem.read h aad) with
  | some p =>
    have h1 : tagSize ≤ ct.len := by
      have hlr := Proofs.Slice.length_read h ct hwc
      unfold Spec.GCM.openGCM at hv
      by_cases hs : (Mem.read h ct).length < tagSize
      · simp [hs] at hv
      · omega
    obtain ⟨h', ret, e, hread, hshare, hun, _⟩ :=
      open_appends (newGCM key nonceSize tagSize) hl htm h dst nonce ct aad hwf hwn hwc hwa hn h1 h2
        hadm p hv
    exact ⟨h', ret, e, hread, hshare, hun⟩
  | none =>
    obtain ⟨h', e, _, hun, hrd⟩ :=
      open_fails (newGCM key nonceSize tagSize) htm h dst nonce ct aad hwf hwn hwc hwa hn
        (Or.inr (Or.inr hv))
    exact ⟨h', e, hun, hrd⟩

/-! ### SM3 Sum -/

/-- **Sum appends.**  `Sum(in)` shows `in ‖ digest` (which is the value model's `SM3.sum`), shares
    `in`'s pointer iff `in` is not nil and has room for the digest, changes no byte of the old heap
    outside the appended region, and leaves the hash state as it was. -/
theorem sum_appends (tt : List W32) (s : SM3.St) (h : Heap) (inp : Slice) (hwf : WF h inp) :
    let r := sm3Sum tt s h inp
    let d := (SM3.checkSum tt s).1
    r.1 = s ∧
    Mem.read r.2.1 r.2.2 = Mem.read h inp ++ d ∧
    Mem.read r.2.1 r.2.2 = SM3.sum tt s (Mem.read h inp) ∧
    WF r.2.1 r.2.2 ∧
    (Shares r.2.2 inp ↔ inp.arr ≠ none ∧ d.length ≤ inp.cap - inp.len) ∧
    UnchangedOutside h r.2.1 (InRegion r.2.2 inp.len d.length) :=
  Proofs.SliceSM3.sum_contract tt s h inp hwf

/-- the digest is 32 bytes for every state with eight chaining words (every state reachable from
    `New()`/`Reset()`), so "room" means `cap − len ≥ 32` -/
theorem digest_length (tt : List W32) (s : SM3.St) (hh : s.h.length = 8) :
    (SM3.checkSum tt s).1.length = 32 :=
  Proofs.SliceSM3.length_checkSum tt s hh

/-- Sum twice on the same buffer gives the same bytes -/
theorem sum_idempotent (tt : List W32) (s : SM3.St) (h : Heap) (inp : Slice) (hwf : WF h inp) :
    Mem.read (sm3Sum tt (sm3Sum tt s h inp).1 (sm3Sum tt s h inp).2.1 inp).2.1
        (sm3Sum tt (sm3Sum tt s h inp).1 (sm3Sum tt s h inp).2.1 inp).2.2
      = Mem.read (sm3Sum tt s h inp).2.1 (sm3Sum tt s h inp).2.2 :=
  Proofs.SliceSM3.sum_twice tt s h inp hwf

/-! ### non-vacuity: the hypotheses are satisfiable and the conclusions are not trivial -/

section examples

/-- a toy assembly effect with the right lengths: "ciphertext" = plaintext, tag = sevens -/
def toyAsm (t : Nat) : Asm :=
  { sealOut := fun _ pt _ => pt ++ List.replicate t 7
    openOut := fun _ ct _ =>
      if ct.length < t then none
      else if ct.drop (ct.length - t) = List.replicate t 7 then some (ct.take (ct.length - t))
      else none }

def toy : GcmAsm := { nonceSize := 2, tagSize := 12, asm := toyAsm 12 }

theorem toy_lens : AsmLens toy where
  seal_len := by intro _ pt _; simp [toy, toyAsm]
  open_len := by
    intro _ ct _ pt hv
    simp only [toy, toyAsm] at hv
    split at hv
    · cases hv
    · split at hv
      · injection hv with hv; subst hv; simp [List.length_take, toy]
      · cases hv

/-- heap: array 0 = nonce, 1 = aad, 2 = plaintext (3 bytes), 3 = dst's array (2 bytes used of 20) -/
def exHeap : Heap := [[1, 2], [9], [10, 11, 12], [0xaa, 0xbb] ++ List.replicate 18 0]
def exNonce : Slice := { arr := some 0, off := 0, len := 2, cap := 2 }
def exAad : Slice := { arr := some 1, off := 0, len := 1, cap := 1 }
def exPt : Slice := { arr := some 2, off := 0, len := 3, cap := 3 }
def exDstRoom : Slice := { arr := some 3, off := 0, len := 2, cap := 20 }
def exDstTight : Slice := { arr := some 3, off := 0, len := 2, cap := 16 }

example : WF exHeap exNonce ∧ WF exHeap exAad ∧ WF exHeap exPt ∧ WF exHeap exDstRoom ∧
    WF exHeap exDstTight ∧ WF exHeap Slice.nil := by decide
example : Admissible exDstRoom exNonce exPt exAad := by
  refine ⟨Or.inl ?_, Or.inl ?_, Or.inl (Or.inl ?_)⟩ <;> decide
example : Admissible { exPt with len := 0 } exNonce exPt exAad :=
  inplace_admissible _ _ _ _ rfl (Or.inl (by decide)) (Or.inl (by decide))

/-- room (cap − len = 18 ≥ 3 + 12): the result is dst's array re-sliced -/
example : (match GCMGlue.seal toy exHeap exDstRoom exNonce exPt exAad with
    | .ok (h', ret) => (Mem.read h' ret, decide (Shares ret exDstRoom))
    | _ => ([], false))
    = ([0xaa, 0xbb, 10, 11, 12, 7, 7, 7, 7, 7, 7, 7, 7, 7, 7, 7, 7], true) := by decide
/-- one byte short (cap − len = 14 < 15): a new array, same bytes -/
example : (match GCMGlue.seal toy exHeap exDstTight exNonce exPt exAad with
    | .ok (h', ret) => (Mem.read h' ret, decide (Shares ret exDstTight), h'.length)
    | _ => ([], true, 0))
    = ([0xaa, 0xbb, 10, 11, 12, 7, 7, 7, 7, 7, 7, 7, 7, 7, 7, 7, 7], false, 5) := by decide
/-- nil dst -/
example : (match GCMGlue.seal toy exHeap Slice.nil exNonce exPt exAad with
    | .ok (h', ret) => (Mem.read h' ret, decide (Shares ret Slice.nil))
    | _ => ([], true))
    = ([10, 11, 12, 7, 7, 7, 7, 7, 7, 7, 7, 7, 7, 7, 7], false) := by decide
/-- wrong nonce length -/
example : GCMGlue.seal toy exHeap exDstRoom exAad exPt exAad = .panic := by decide

/-- the conclusions of `seal_appends` instantiated (a use of the theorem, not an evaluation) -/
example : ∃ h' ret, GCMGlue.seal toy exHeap exDstRoom exNonce exPt exAad = .ok (h', ret) ∧
    Mem.read h' ret = [0xaa, 0xbb] ++ ([10, 11, 12] ++ List.replicate 12 7) ∧
    Shares ret exDstRoom := by
  obtain ⟨h', ret, e, hread, hshare, _⟩ :=
    seal_appends toy toy_lens (by decide) exHeap exDstRoom exNonce exPt exAad
      (by decide) (by decide) (by decide) (by decide) rfl (by decide)
      ⟨Or.inl (by decide), Or.inl (by decide), Or.inl (Or.inl (by decide))⟩
  exact ⟨h', ret, e, hread, hshare.mpr ⟨by decide, by decide⟩⟩

/-- Open: a sealed empty message, for nil / empty non-nil / non-empty dst — `open_empty` applies -/
def exHeapE : Heap := [[1, 2], [9], List.replicate 12 7, [0xaa, 0xbb], []]
def exCtE : Slice := { arr := some 2, off := 0, len := 12, cap := 12 }
example : GCMGlue.open toy exHeapE Slice.nil exNonce exCtE exAad = .ok (exHeapE, some Slice.nil) :=
  open_empty toy toy_lens (by decide) exHeapE Slice.nil exNonce exCtE exAad (by decide) (by decide)
    rfl rfl [] (by decide)
example : GCMGlue.open toy exHeapE { arr := some 4, off := 0, len := 0, cap := 0 } exNonce exCtE exAad
    = .ok (exHeapE, some { arr := some 4, off := 0, len := 0, cap := 0 }) :=
  open_empty toy toy_lens (by decide) exHeapE _ exNonce exCtE exAad (by decide) (by decide)
    rfl rfl [] (by decide)
example : GCMGlue.open toy exHeapE { arr := some 3, off := 0, len := 2, cap := 2 } exNonce exCtE exAad
    = .ok (exHeapE, some { arr := some 3, off := 0, len := 2, cap := 2 }) :=
  open_empty toy toy_lens (by decide) exHeapE _ exNonce exCtE exAad (by decide) (by decide)
    rfl rfl [] (by decide)
/-- Open: a tampered tag fails and leaves the heap alone; too short fails -/
example : GCMGlue.open toy [[1, 2], [9], [5] ++ List.replicate 11 7 ++ [8]]
    Slice.nil exNonce { arr := some 2, off := 0, len := 13, cap := 13 } exAad
    = .ok ([[1, 2], [9], [5] ++ List.replicate 11 7 ++ [8], [0]], none) := by decide
example : GCMGlue.open toy exHeapE Slice.nil exNonce { exCtE with len := 11 } exAad
    = .ok (exHeapE, none) := by decide

/-- the real thing: SM4-GCM of the specification through the glue, one byte, in place with spare
    capacity (the result lies over the plaintext) -/
example :
    (match GCMGlue.seal (newGCM (List.replicate 16 0) 12 12)
        [List.replicate 12 0, [], [0x41] ++ List.replicate 15 0]
        { arr := some 2, off := 0, len := 0, cap := 16 }
        { arr := some 0, off := 0, len := 12, cap := 12 }
        { arr := some 2, off := 0, len := 1, cap := 16 }
        { arr := some 1, off := 0, len := 0, cap := 0 } with
      | .ok (h', ret) => (decide (Shares ret { arr := some 2, off := 0, len := 0, cap := 16 }),
          ret.len, h'.length, (arrayOf h' 2).drop 13)
      | _ => (false, 0, 0, []))
    = (true, 13, 3, [0, 0, 0]) := by decide +kernel

/-- SM3 Sum: 2 bytes used of 40 → shared; of 33 → not shared -/
example : WF [[1, 2] ++ List.replicate 38 0] { arr := some 0, off := 0, len := 2, cap := 40 } := by
  decide

end examples

/-! ### what is not proved here

  NOT PROVED (partial coverage of C10) — the part of C10 about SM2 ("signature or public key"): `sm2.Sign`, `sm2.Verify`,
  `DerivePublic`, `CheckOnCurve` do not modify id, message, signature, public or private key and
  repeated calls agree.  Full statement: for every heap and well-formed argument slices, each of
  these entry points returns with `UnchangedOutside h h' Nowhere` and the same result on a second
  call.  Missing: a heap-level model of the SM2 entry points (the SM2 models of this project are
  functions of byte values; as pure functions they are trivially repeatable, which says nothing
  about the Go code's aliasing).  Evidence instead: harness stream `sm2.inputs` (snapshots before /
  after, two calls).  Likewise `sm4.NewCipher(key)` (the key slice is only read: the round keys in
  `GcmAsm` are a value) is covered by the harness's key snapshot, not by a theorem.
-/
#print axioms ensureCapacity_spec
#print axioms ensureCapacity_contract
#print axioms seal_appends
#print axioms seal_inplace
#print axioms seal_panics
#print axioms open_appends
#print axioms open_fails
#print axioms open_empty
#print axioms open_panics
#print axioms seal_idempotent
#print axioms open_idempotent
#print axioms sm4_asmLens
#print axioms seal_appends_sm4
#print axioms open_appends_sm4
#print axioms sum_appends
#print axioms digest_length
#print axioms sum_idempotent

end SMGo.Props.C10
