/-
  Properties C05 / C10 / C11, the `cipher.Block` wrappers of SM4 on Go slices
  (audit findings C05-4, C10-4, C11-1).
  (Property theorems only; lemmas live in SMGo/Proofs/SM4Wrap.lean.)

  Subject: `(*sm4Cipher).Encrypt/Decrypt`, `cryptoBlock`, `encryptX2/decryptX2`, `cryptoBlockX2` of
  /repo/sm4/sm4.go (portable path) and `(*sm4CipherAsm).Encrypt/Decrypt` of /repo/sm4/sm4_asm.go
  (assembly path), modelled statement by statement in `SMGo.Model.SM4Wrap` over the executable
  model of Go's slices `SMGo.Model.Slice` (heap of backing arrays; a slice = array id, offset, len,
  cap; `reslice` bounded by the capacity, `addrOf` by the length, loads and stores that answer
  `panic` when they leave their slice or their array).

  What is proved, for ALL heaps, ALL well-formed `dst`, `src` (any len ≤ cap, nil, the same slice,
  disjoint, overlapping exactly or PARTIALLY — there is no disjointness hypothesis anywhere) and
  all round keys:
    * the call panics iff `len(src) < 16 ∨ len(dst) < 16` (capacity does not help: `[:16]` would
      succeed within the capacity, the length tests come first), and never returns an error;
    * otherwise it returns; afterwards `dst[:16]` shows `Spec.SM4.crypt rk (src[:16] before the
      call)`; every byte of every array outside `dst[0:16)` is what it was (`UnchangedOutside`, the
      predicate of property C10), no array appeared, disappeared or changed its length; every slice
      that does not meet `dst[0:16)` shows what it showed (in particular `src` when disjoint, the
      bytes `dst[16:]`, `src[16:]`);
    * the reason overlap does not matter: `cryptoBlock` performs its four loads before its four
      stores (closed form `Proofs.SM4Wrap.cryptoBlockK_ok`: one read of `x[0:16]`, one store of 16
      bytes at `y[0:16]`);
    * Encrypt then Decrypt in place restores the heap; through any three buffers the round trip
      returns the plaintext;
    * the assembly wrappers, under the modelling assumption that the one-block kernel reads 16
      bytes at `src` and then writes 16 bytes at `dst` (Model/SM4Wrap.lean; proved about the
      interpreted amd64 listing by `Props.C05.asm_cryptoBlockAsm_eq_spec` and
      `asm_cryptoBlockAsm_inplace_eq_spec`), reach the SAME heap as the portable ones on every input
      (`paths_agree`);
    * `encryptX2`/`decryptX2` (no length test): panic iff a CAPACITY is below 32, else two blocks.

  Bounds: a result `.ok h'` says that every access of the call stayed inside `[off, off+len)` of
  the slice it went through and inside its backing array — the accessors of the model (`reslice`,
  `addrOf`, `load`, `store`, `readPtr`, `writePtr`) answer `.panic` otherwise, and `.panic` is
  shown to arise from the two explicit tests only.

  Value part: `Proofs.SM4.cryptoBlock_eq` (= `Props.C05.cryptoBlock_eq_spec`, the portable
  arithmetic is `Spec.SM4.crypt`), `Proofs.SM4.expandKey_eq` (= `Props.C05.expandKey_eq_spec`),
  `Proofs.SM4.crypt_reverse_crypt` (= `Props.C05.decrypt_encrypt`); the lemma files are imported
  directly so that this file does not depend on the assembly proofs of Props/C05.lean.

  The model is tied to the code by the differential harness (stream `sm4.wrap` of `bin/check C10`,
  go/cmd/harness/sm4wrap.go): every pair of offsets 0..20 of `dst` and `src` in one backing buffer
  × lengths {0,1,15,16,17,32} × capacities × Encrypt/Decrypt × both paths, nil slices; outcome and
  the whole buffer afterwards are compared three-way (code / this model / the contract written
  over the specification).
-/
import SMGo.Spec.SM4
import SMGo.Model.SM4Inst
import SMGo.Model.Slice
import SMGo.Model.SM4Wrap
import SMGo.Proofs.Slice
import SMGo.Proofs.GCMGlueContract
import SMGo.Proofs.SM4Block
import SMGo.Proofs.SM4X2
import SMGo.Proofs.SM4Key
import SMGo.Proofs.SM4Inverse
import SMGo.Proofs.SM4Wrap
import SMGo.Proofs.SM4KeyFast
namespace SMGo.Props.C05Wrap
open SMGo SMGo.Model SMGo.Model.Mem SMGo.Model.SM4Wrap
open SMGo.Proofs.GCMGlue (InRegion UnchangedOutside)
open SMGo.Proofs.SM4Wrap (Effect Fits)

/-- the model instantiated with the tables generated from sm4_const.go -/
abbrev tb : Model.SM4.Tables := Model.SM4.genTables

/-! ### vocabulary -/

/-- `s[:n]` (`reslice s 0 n` answers exactly this when `n ≤ cap(s)`, and panics otherwise) -/
abbrev pre (s : Slice) (n : Nat) : Slice := { s with len := n }

example (s : Slice) (n : Nat) (hn : n ≤ s.cap) : reslice s 0 n = .ok (pre s n) :=
  Proofs.Slice.reslice_prefix s n hn
example (s : Slice) (n : Nat) (hn : ¬ n ≤ s.cap) : reslice s 0 n = .panic := by simp [reslice, hn]

/-- `s` shows no byte of `dst[0:n)` -/
def Misses (s dst : Slice) (n : Nat) : Prop :=
  s.arr ≠ dst.arr ∨ s.off + s.len ≤ dst.off ∨ dst.off + n ≤ s.off

/-- **the effect of a call that returns**: `dst[:n]` shows `out`; every byte of the heap outside
    `dst[0:n)` is unchanged; the heap has the same arrays with the same lengths; every slice that
    misses `dst[0:n)` shows the same bytes -/
def Writes (h : Heap) (dst : Slice) (n : Nat) (out : Bytes) (h' : Heap) : Prop :=
  Mem.read h' (pre dst n) = out ∧
  UnchangedOutside h h' (InRegion dst 0 n) ∧
  h'.length = h.length ∧
  (∀ a, (arrayOf h' a).length = (arrayOf h a).length) ∧
  (∀ s : Slice, Misses s dst n → Mem.read h' s = Mem.read h s)

/-- `InRegion dst 0 n a i`: byte `i` of array `a` is one of `dst[0:n)` -/
example (dst : Slice) (n a i : Nat) :
    InRegion dst 0 n a i ↔ (dst.arr = some a ∧ dst.off + 0 ≤ i ∧ i < dst.off + 0 + n) := Iff.rfl

/-- `UnchangedOutside` is the predicate of Props/C10.lean -/
example (h h' : Heap) (R : Nat → Nat → Prop) :
    UnchangedOutside h h' R ↔
      (h.length ≤ h'.length ∧
       (∀ a, a < h.length → (arrayOf h' a).length = (arrayOf h a).length) ∧
       (∀ a i, a < h.length → ¬ R a i → byteAt h' a i = byteAt h a i)) := Iff.rfl

/-- a returned call kept every slice well-formed -/
theorem Writes.wf {h : Heap} {dst : Slice} {n : Nat} {out : Bytes} {h' : Heap}
    (w : Writes h dst n out h') (s : Slice) (hwf : WF h s) : WF h' s :=
  Proofs.GCMGlue.WF_of_unchanged h h' _ w.2.1 s hwf

/-! ### generic statements (any arithmetic `k` between the loads and the stores) -/

/-- one store at the start of `dst` has the effect `Writes` -/
theorem writes_of_effect {h : Heap} {dst : Slice} {n : Nat} {out : Bytes} {r : Outcome Heap}
    (e : Effect h dst n out r) (ho : out.length = n) : ∃ h', r = .ok h' ∧ Writes h dst n out h' := by
  obtain ⟨b, hd, hf, hn, e⟩ := e
  obtain ⟨h1, h2, h3, h4, h5⟩ := Proofs.SM4Wrap.block_store h dst b n out hd hf hn ho
  refine ⟨_, e, h1, h2, h3, h4, ?_⟩
  intro s hs
  apply h5
  rcases hs with hs | hs | hs
  · exact Or.inl (by rw [← hd]; exact hs)
  · exact Or.inr (Or.inl hs)
  · exact Or.inr (Or.inr hs)

/-- the portable wrapper body with any 16-byte arithmetic: panic iff a length is short, never an
    error, otherwise `dst[:16] ← k(src[:16])` and nothing else -/
theorem cryptK_contract (k : Bytes → Bytes) (hk : ∀ x : Bytes, x.length = 16 → (k x).length = 16)
    (h : Heap) (dst src : Slice) (hwd : WF h dst) (hws : WF h src) :
    (cryptK k h dst src = .panic ↔ src.len < 16 ∨ dst.len < 16) ∧
    cryptK k h dst src ≠ .err ∧
    (16 ≤ src.len → 16 ≤ dst.len →
      ∃ h', cryptK k h dst src = .ok h' ∧ Writes h dst 16 (k (Mem.read h (pre src 16))) h') := by
  have hkl := fun hc => hk _ (Proofs.SM4Wrap.length_read_prefix h src 16 hws hc)
  rcases Proofs.SM4Wrap.cryptK_cases k hk h dst src hwd hws with ⟨hbad, e⟩ | ⟨hs, hd, eff⟩
  · refine ⟨⟨fun _ => hbad, fun _ => e⟩, (by rw [e]; intro hc; cases hc), ?_⟩
    intro h1 h2; omega
  · obtain ⟨h', e, w⟩ := writes_of_effect eff (hkl (by have := hws.1; omega))
    refine ⟨⟨fun hp => ?_, fun hb => by omega⟩, (by rw [e]; intro hc; cases hc), fun _ _ => ⟨h', e, w⟩⟩
    rw [e] at hp; cases hp

/-- the assembly wrapper body, kernel = read 16 bytes at `src`, then write `k` of them at `dst` -/
theorem cryptAsmK_contract (k : Bytes → Bytes) (hk : ∀ x : Bytes, x.length = 16 → (k x).length = 16)
    (h : Heap) (dst src : Slice) (hwd : WF h dst) (hws : WF h src) :
    (cryptAsmK k h dst src = .panic ↔ src.len < 16 ∨ dst.len < 16) ∧
    cryptAsmK k h dst src ≠ .err ∧
    (16 ≤ src.len → 16 ≤ dst.len →
      ∃ h', cryptAsmK k h dst src = .ok h' ∧ Writes h dst 16 (k (Mem.read h (pre src 16))) h') := by
  have hkl := fun hc => hk _ (Proofs.SM4Wrap.length_read_prefix h src 16 hws hc)
  rcases Proofs.SM4Wrap.cryptAsmK_cases k hk h dst src hwd hws with ⟨hbad, e⟩ | ⟨hs, hd, eff⟩
  · refine ⟨⟨fun _ => hbad, fun _ => e⟩, (by rw [e]; intro hc; cases hc), ?_⟩
    intro h1 h2; omega
  · obtain ⟨h', e, w⟩ := writes_of_effect eff (hkl (by have := hws.1; omega))
    refine ⟨⟨fun hp => ?_, fun hb => by omega⟩, (by rw [e]; intro hc; cases hc), fun _ _ => ⟨h', e, w⟩⟩
    rw [e] at hp; cases hp

/-- **every path reaches the same heap**: the assembly wrapper (read-then-write kernel) and the
    portable wrapper (four loads, arithmetic, four stores) with the same arithmetic agree on every
    heap and every pair of well-formed slices — same panic, same bytes everywhere — whatever the
    overlap of `dst` and `src` -/
theorem cryptK_paths_agree (k k' : Bytes → Bytes)
    (hk : ∀ x : Bytes, x.length = 16 → (k x).length = 16)
    (hkk : ∀ x : Bytes, x.length = 16 → k' x = k x)
    (h : Heap) (dst src : Slice) (hwd : WF h dst) (hws : WF h src) :
    cryptAsmK k' h dst src = cryptK k h dst src := by
  have hk' : ∀ x : Bytes, x.length = 16 → (k' x).length = 16 := fun x hx => by rw [hkk x hx]; exact hk x hx
  rcases Proofs.SM4Wrap.cryptK_cases k hk h dst src hwd hws with ⟨hbad, e⟩ | ⟨hs, hd, ⟨b, hb, _, _, e⟩⟩
  · rw [e, Proofs.SM4Wrap.cryptAsmK_panic k' h dst src hbad]
  · rcases Proofs.SM4Wrap.cryptAsmK_cases k' hk' h dst src hwd hws with ⟨hbad, _⟩ | ⟨_, _, ⟨b', hb', _, _, e'⟩⟩
    · omega
    · have : b' = b := by rw [hb] at hb'; injection hb' with hb'; exact hb'.symm
      subst this
      rw [e, e', hkk _ (Proofs.SM4Wrap.length_read_prefix h src 16 hws (by have := hws.1; omega))]

/-! ### the portable path: `(*sm4Cipher).Encrypt`, `(*sm4Cipher).Decrypt` -/

theorem encrypt_eq (c : Cipher) : encrypt tb c = cryptK (SM4.cryptoBlock tb c.enc) := rfl
theorem decrypt_eq (c : Cipher) : decrypt tb c = cryptK (SM4.cryptoBlock tb c.dec) := rfl

/-- **Encrypt panics iff a length is below 16** (source order: `src` is tested first; both tests
    precede every memory access) and never returns an error.  Spare capacity does not help. -/
theorem encrypt_panics_iff (c : Cipher) (h : Heap) (dst src : Slice) (hwd : WF h dst) (hws : WF h src) :
    (encrypt tb c h dst src = .panic ↔ src.len < 16 ∨ dst.len < 16) ∧
    encrypt tb c h dst src ≠ .err := by
  have := cryptK_contract (SM4.cryptoBlock tb c.enc)
    (fun x _ => Proofs.SM4Wrap.length_cryptoBlock tb c.enc x) h dst src hwd hws
  exact ⟨this.1, this.2.1⟩

/-- **Encrypt writes `dst[:16]` and nothing else**, whatever the overlap of `dst` and `src`:
    it returns, `dst[:16]` shows `Spec.SM4.crypt enc (src[:16] before the call)`, every byte outside
    `dst[0:16)` and the shape of the heap are unchanged -/
theorem encrypt_writes (c : Cipher) (hrk : c.enc.length = 32) (h : Heap) (dst src : Slice)
    (hwd : WF h dst) (hws : WF h src) (hs : 16 ≤ src.len) (hd : 16 ≤ dst.len) :
    ∃ h', encrypt tb c h dst src = .ok h' ∧
      Writes h dst 16 (Spec.SM4.crypt c.enc (Mem.read h (pre src 16))) h' := by
  have := (cryptK_contract (SM4.cryptoBlock tb c.enc)
    (fun x _ => Proofs.SM4Wrap.length_cryptoBlock tb c.enc x) h dst src hwd hws).2.2 hs hd
  rwa [Proofs.SM4.cryptoBlock_eq c.enc _ hrk] at this

theorem decrypt_panics_iff (c : Cipher) (h : Heap) (dst src : Slice) (hwd : WF h dst) (hws : WF h src) :
    (decrypt tb c h dst src = .panic ↔ src.len < 16 ∨ dst.len < 16) ∧
    decrypt tb c h dst src ≠ .err := by
  have := cryptK_contract (SM4.cryptoBlock tb c.dec)
    (fun x _ => Proofs.SM4Wrap.length_cryptoBlock tb c.dec x) h dst src hwd hws
  exact ⟨this.1, this.2.1⟩

theorem decrypt_writes (c : Cipher) (hrk : c.dec.length = 32) (h : Heap) (dst src : Slice)
    (hwd : WF h dst) (hws : WF h src) (hs : 16 ≤ src.len) (hd : 16 ≤ dst.len) :
    ∃ h', decrypt tb c h dst src = .ok h' ∧
      Writes h dst 16 (Spec.SM4.crypt c.dec (Mem.read h (pre src 16))) h' := by
  have := (cryptK_contract (SM4.cryptoBlock tb c.dec)
    (fun x _ => Proofs.SM4Wrap.length_cryptoBlock tb c.dec x) h dst src hwd hws).2.2 hs hd
  rwa [Proofs.SM4.cryptoBlock_eq c.dec _ hrk] at this

/-- the in-place call `Encrypt(s, s)`: `s[:16]` becomes its own encryption, nothing else changes -/
theorem encrypt_inplace (c : Cipher) (hrk : c.enc.length = 32) (h : Heap) (s : Slice)
    (hw : WF h s) (hl : 16 ≤ s.len) :
    ∃ h', encrypt tb c h s s = .ok h' ∧
      Writes h s 16 (Spec.SM4.crypt c.enc (Mem.read h (pre s 16))) h' :=
  encrypt_writes c hrk h s s hw hw hl hl

theorem decrypt_inplace (c : Cipher) (hrk : c.dec.length = 32) (h : Heap) (s : Slice)
    (hw : WF h s) (hl : 16 ≤ s.len) :
    ∃ h', decrypt tb c h s s = .ok h' ∧
      Writes h s 16 (Spec.SM4.crypt c.dec (Mem.read h (pre s 16))) h' :=
  decrypt_writes c hrk h s s hw hw hl hl

/-- what `newCipherGeneric(key)` holds: the two key schedules `expandKey` computes -/
def newCipher (key : Bytes) : Cipher :=
  { enc := (SM4.expandKey tb key).1, dec := (SM4.expandKey tb key).2 }

theorem newCipher_keys (key : Bytes) :
    (newCipher key).enc = Spec.SM4.keySchedule key ∧
    (newCipher key).dec = (Spec.SM4.keySchedule key).reverse := by
  simp [newCipher, Proofs.SM4.expandKey_eq]

/-- with the cipher `NewCipher(key)` builds on the portable path: Encrypt/Decrypt write the SM4
    encryption / decryption of `src[:16]` under `key` to `dst[:16]`, for every aliasing -/
theorem block_writes (key : Bytes) (h : Heap) (dst src : Slice)
    (hwd : WF h dst) (hws : WF h src) (hs : 16 ≤ src.len) (hd : 16 ≤ dst.len) :
    (∃ h', encrypt tb (newCipher key) h dst src = .ok h' ∧
      Writes h dst 16 (Spec.SM4.encrypt key (Mem.read h (pre src 16))) h') ∧
    (∃ h', decrypt tb (newCipher key) h dst src = .ok h' ∧
      Writes h dst 16 (Spec.SM4.decrypt key (Mem.read h (pre src 16))) h') := by
  obtain ⟨he, hd'⟩ := newCipher_keys key
  have hl := Proofs.SM4.keySchedule_length key
  constructor
  · have := encrypt_writes (newCipher key) (by rw [he]; exact hl) h dst src hwd hws hs hd
    rwa [he] at this
  · have := decrypt_writes (newCipher key) (by rw [hd', List.length_reverse]; exact hl) h dst src hwd hws hs hd
    rwa [hd'] at this

/-- **Encrypt then Decrypt, through any buffers**: `Encrypt(mid, src)` followed by
    `Decrypt(out, mid)` — `mid`, `src`, `out` overlapping in any way — leaves the plaintext
    `src[:16]` (as it was before the first call) in `out[:16]` -/
theorem decrypt_encrypt_roundtrip (c : Cipher) (hrk : c.enc.length = 32) (hdec : c.dec = c.enc.reverse)
    (h : Heap) (out mid src : Slice) (hwo : WF h out) (hwm : WF h mid) (hws : WF h src)
    (ho : 16 ≤ out.len) (hm : 16 ≤ mid.len) (hs : 16 ≤ src.len) :
    ∃ h1 h2, encrypt tb c h mid src = .ok h1 ∧ decrypt tb c h1 out mid = .ok h2 ∧
      Mem.read h2 (pre out 16) = Mem.read h (pre src 16) := by
  obtain ⟨h1, e1, w1⟩ := encrypt_writes c hrk h mid src hwm hws hs hm
  have hrk' : c.dec.length = 32 := by rw [hdec, List.length_reverse]; exact hrk
  obtain ⟨h2, e2, w2⟩ := decrypt_writes c hrk' h1 out mid (w1.wf out hwo) (w1.wf mid hwm) hm ho
  refine ⟨h1, h2, e1, e2, ?_⟩
  rw [w2.1, w1.1, hdec]
  exact Proofs.SM4.crypt_reverse_crypt c.enc _
    (Proofs.SM4Wrap.length_read_prefix h src 16 hws (by have := hws.1; omega))

/-- **Encrypt then Decrypt in place restores the buffer** — and the whole heap -/
theorem decrypt_encrypt_inplace (c : Cipher) (hrk : c.enc.length = 32) (hdec : c.dec = c.enc.reverse)
    (h : Heap) (s : Slice) (hw : WF h s) (hl : 16 ≤ s.len) :
    ∃ h1, encrypt tb c h s s = .ok h1 ∧ decrypt tb c h1 s s = .ok h := by
  have hkE := fun (x : Bytes) (_ : x.length = 16) => Proofs.SM4Wrap.length_cryptoBlock tb c.enc x
  have hkD := fun (x : Bytes) (_ : x.length = 16) => Proofs.SM4Wrap.length_cryptoBlock tb c.dec x
  have hcap : 16 ≤ s.cap := by have := hw.1; omega
  have hlo := Proofs.SM4Wrap.length_read_prefix h s 16 hw hcap
  rcases Proofs.SM4Wrap.cryptK_cases _ hkE h s s hw hw with ⟨hbad, _⟩ | ⟨_, _, ⟨b, hb, hf, _, e1⟩⟩
  · omega
  have hfit : s.off + 16 ≤ (arrayOf h b).length := by have := hf.2; omega
  have hlE := hkE _ hlo
  obtain ⟨r1, _, _, _, _⟩ := Proofs.SM4Wrap.block_store h s b 16 _ hb hf hcap hlE
  have hw1 : WF (poke h b s.off (SM4.cryptoBlock tb c.enc (Mem.read h (pre s 16)))) s :=
    Proofs.Slice.WF_poke h b s.off _ s (by rw [hlE]; exact hfit) hw
  refine ⟨_, e1, ?_⟩
  rcases Proofs.SM4Wrap.cryptK_cases _ hkD _ s s hw1 hw1 with ⟨hbad, _⟩ | ⟨_, _, ⟨b', hb', _, _, e2⟩⟩
  · omega
  have : b' = b := by rw [hb] at hb'; injection hb' with hb'; exact hb'.symm
  subst this
  rw [decrypt_eq, e2]
  congr 1
  have hr : Mem.read (poke h b' s.off (SM4.cryptoBlock tb c.enc (Mem.read h (pre s 16)))) (pre s 16)
      = SM4.cryptoBlock tb c.enc (Mem.read h (pre s 16)) := r1
  rw [hr, Proofs.SM4.cryptoBlock_eq c.enc _ hrk,
    Proofs.SM4.cryptoBlock_eq c.dec _ (by rw [hdec, List.length_reverse]; exact hrk), hdec,
    Proofs.SM4.crypt_reverse_crypt c.enc _ hlo,
    Proofs.SM4Wrap.poke_poke_same h b' s.off _ _ hf.1
      (by rw [Proofs.SM4.crypt_length]; exact hfit) (by rw [Proofs.SM4.crypt_length, hlo]),
    Proofs.SM4Wrap.read_prefix h s b' 16 hb]
  exact Proofs.SM4Wrap.poke_self h b' s.off 16 hf.1 hfit

/-! ### the assembly path: `(*sm4CipherAsm).Encrypt`, `(*sm4CipherAsm).Decrypt` -/

theorem encryptAsm_eq (c : CipherAsm) : encryptAsm c = cryptAsmK c.encK := rfl
theorem decryptAsm_eq (c : CipherAsm) : decryptAsm c = cryptAsmK c.decK := rfl

/-- the kernels as the specification defines them: what `Props.C05.asm_cryptoBlockAsm_eq_spec`
    proves the amd64 listing computes (`rk` = the 32 round keys at `&sm4.enc[0]`) -/
def specCipherAsm (rk : List W32) : CipherAsm :=
  { encK := Spec.SM4.crypt rk, decK := Spec.SM4.crypt rk.reverse }

theorem encryptAsm_panics_iff (rk : List W32) (h : Heap) (dst src : Slice) (hwd : WF h dst) (hws : WF h src) :
    (encryptAsm (specCipherAsm rk) h dst src = .panic ↔ src.len < 16 ∨ dst.len < 16) ∧
    encryptAsm (specCipherAsm rk) h dst src ≠ .err := by
  have := cryptAsmK_contract (Spec.SM4.crypt rk) (fun x _ => Proofs.SM4.crypt_length rk x) h dst src hwd hws
  exact ⟨this.1, this.2.1⟩

theorem encryptAsm_writes (rk : List W32) (h : Heap) (dst src : Slice)
    (hwd : WF h dst) (hws : WF h src) (hs : 16 ≤ src.len) (hd : 16 ≤ dst.len) :
    ∃ h', encryptAsm (specCipherAsm rk) h dst src = .ok h' ∧
      Writes h dst 16 (Spec.SM4.crypt rk (Mem.read h (pre src 16))) h' :=
  (cryptAsmK_contract (Spec.SM4.crypt rk) (fun x _ => Proofs.SM4.crypt_length rk x) h dst src hwd hws).2.2 hs hd

theorem decryptAsm_panics_iff (rk : List W32) (h : Heap) (dst src : Slice) (hwd : WF h dst) (hws : WF h src) :
    (decryptAsm (specCipherAsm rk) h dst src = .panic ↔ src.len < 16 ∨ dst.len < 16) ∧
    decryptAsm (specCipherAsm rk) h dst src ≠ .err := by
  have := cryptAsmK_contract (Spec.SM4.crypt rk.reverse) (fun x _ => Proofs.SM4.crypt_length rk.reverse x)
    h dst src hwd hws
  exact ⟨this.1, this.2.1⟩

theorem decryptAsm_writes (rk : List W32) (h : Heap) (dst src : Slice)
    (hwd : WF h dst) (hws : WF h src) (hs : 16 ≤ src.len) (hd : 16 ≤ dst.len) :
    ∃ h', decryptAsm (specCipherAsm rk) h dst src = .ok h' ∧
      Writes h dst 16 (Spec.SM4.crypt rk.reverse (Mem.read h (pre src 16))) h' :=
  (cryptAsmK_contract (Spec.SM4.crypt rk.reverse) (fun x _ => Proofs.SM4.crypt_length rk.reverse x)
    h dst src hwd hws).2.2 hs hd

/-- **results identical on every path** (the C10 clause, for the block API): the assembly wrappers
    with the specification's kernels and the portable wrappers holding the same round keys return
    the same outcome and the same heap, for every aliasing of `dst` and `src` -/
theorem paths_agree (c : Cipher) (hrk : c.enc.length = 32) (hdec : c.dec = c.enc.reverse)
    (h : Heap) (dst src : Slice) (hwd : WF h dst) (hws : WF h src) :
    encryptAsm (specCipherAsm c.enc) h dst src = encrypt tb c h dst src ∧
    decryptAsm (specCipherAsm c.enc) h dst src = decrypt tb c h dst src := by
  constructor
  · exact cryptK_paths_agree (SM4.cryptoBlock tb c.enc) (Spec.SM4.crypt c.enc)
      (fun x _ => Proofs.SM4Wrap.length_cryptoBlock tb c.enc x)
      (fun x _ => (Proofs.SM4.cryptoBlock_eq c.enc x hrk).symm) h dst src hwd hws
  · have hrk' : c.dec.length = 32 := by rw [hdec, List.length_reverse]; exact hrk
    have : (specCipherAsm c.enc).decK = Spec.SM4.crypt c.dec := by rw [hdec]; rfl
    rw [decryptAsm_eq, this]
    exact cryptK_paths_agree (SM4.cryptoBlock tb c.dec) (Spec.SM4.crypt c.dec)
      (fun x _ => Proofs.SM4Wrap.length_cryptoBlock tb c.dec x)
      (fun x _ => (Proofs.SM4.cryptoBlock_eq c.dec x hrk').symm) h dst src hwd hws

/-! ### what the driver runs for `sm4.wrap` (path asm) and `sm4.wrap.spec` -/

/-- the kernels of the driver's assembly-path model and the block function of `sm4.wrap.spec`
    (`cryptFast` over `keyScheduleFast`: the S-box tabulated once) are the specification's -/
theorem driver_oracle (key : Bytes) :
    Spec.SM4.cryptFast (Spec.SM4.keyScheduleFast key) = Spec.SM4.encrypt key ∧
    Spec.SM4.cryptFast (Spec.SM4.keyScheduleFast key).reverse = Spec.SM4.decrypt key := by
  rw [Proofs.SM4Fast.keyScheduleFast_eq, Proofs.SM4Fast.cryptFast_fun, Proofs.SM4Fast.cryptFast_fun]
  exact ⟨rfl, rfl⟩

/-- hence the driver's assembly-path cipher is `specCipherAsm (keySchedule key)` -/
theorem driver_asm_cipher (key : Bytes) :
    ({ encK := fun b => Spec.SM4.cryptFast (Spec.SM4.keyScheduleFast key) b
       decK := fun b => Spec.SM4.cryptFast (Spec.SM4.keyScheduleFast key).reverse b } : CipherAsm)
      = specCipherAsm (Spec.SM4.keySchedule key) := by
  rw [Proofs.SM4Fast.keyScheduleFast_eq]
  simp only [specCipherAsm, Proofs.SM4Fast.cryptFast_eq]

/-! ### `encryptX2`, `decryptX2` -/

theorem encryptX2_eq (c : Cipher) : encryptX2 tb c = cryptX2K (SM4.cryptoBlockX2 tb c.enc) := rfl
theorem decryptX2_eq (c : Cipher) : decryptX2 tb c = cryptX2K (SM4.cryptoBlockX2 tb c.dec) := rfl

/-- the helpers have no length test: `src[:32]`, `dst[:32]` are bounded by the CAPACITIES, so the
    call panics iff a capacity is below 32 — a slice of length 0 with capacity 32 is accepted, and
    bytes beyond `len` are then read resp. written -/
theorem cryptX2_panics_iff (rk : List W32) (h : Heap) (dst src : Slice) (hwd : WF h dst) (hws : WF h src) :
    (cryptX2K (SM4.cryptoBlockX2 tb rk) h dst src = .panic ↔ src.cap < 32 ∨ dst.cap < 32) ∧
    cryptX2K (SM4.cryptoBlockX2 tb rk) h dst src ≠ .err := by
  rcases Proofs.SM4Wrap.cryptX2K_cases _ (fun x _ => Proofs.SM4Wrap.length_cryptoBlockX2 tb rk x)
    h dst src hwd hws with ⟨hbad, e⟩ | ⟨hs, hd, ⟨b, _, _, _, e⟩⟩
  · exact ⟨⟨fun _ => hbad, fun _ => e⟩, (by rw [e]; intro hc; cases hc)⟩
  · refine ⟨⟨fun hp => ?_, fun hb => by omega⟩, (by rw [e]; intro hc; cases hc)⟩
    rw [e] at hp; cases hp

/-- otherwise: `dst[:32]` shows the two blocks of `src[:32]`, each through `Spec.SM4.crypt`;
    nothing else changes; any overlap -/
theorem cryptX2_writes (rk : List W32) (hrk : rk.length = 32) (h : Heap) (dst src : Slice)
    (hwd : WF h dst) (hws : WF h src) (hs : 32 ≤ src.cap) (hd : 32 ≤ dst.cap) :
    ∃ h', cryptX2K (SM4.cryptoBlockX2 tb rk) h dst src = .ok h' ∧
      Writes h dst 32 (Spec.SM4.crypt rk ((Mem.read h (pre src 32)).take 16) ++
        Spec.SM4.crypt rk ((Mem.read h (pre src 32)).drop 16)) h' := by
  have hlen := Proofs.SM4Wrap.length_read_prefix h src 32 hws hs
  rcases Proofs.SM4Wrap.cryptX2K_cases _ (fun x _ => Proofs.SM4Wrap.length_cryptoBlockX2 tb rk x)
    h dst src hwd hws with ⟨hbad, _⟩ | ⟨_, _, eff⟩
  · omega
  · have := writes_of_effect eff (Proofs.SM4Wrap.length_cryptoBlockX2 tb rk _)
    rwa [Proofs.SM4.cryptoBlockX2_split tb rk _ hlen, Proofs.SM4.cryptoBlock_eq rk _ hrk,
      Proofs.SM4.cryptoBlock_eq rk _ hrk] at this

/-! ### non-vacuity: the hypotheses are satisfiable and the conclusions are not trivial -/

section examples

/-- a toy arithmetic that makes the order of loads and stores visible: reverse the block, add 1 -/
def toyK : Bytes → Bytes := fun x => x.reverse.map (· + 1)

theorem toyK_len : ∀ x : Bytes, x.length = 16 → (toyK x).length = 16 := by
  intro x hx; simp [toyK, hx]

/-- one backing array of 40 bytes 0, 1, …, 39 -/
def exHeap : Heap := [(List.range 40).map UInt8.ofNat]
/-- `buf[0:16]` with the capacity reaching to the end of the array -/
def exA : Slice := { arr := some 0, off := 0, len := 16, cap := 40 }
/-- `buf[12:28]`: overlaps `exA` in the 4 bytes 12..15 -/
def exB : Slice := { arr := some 0, off := 12, len := 16, cap := 28 }
/-- `buf[20:35]`: 15 bytes, capacity 20 — `[:16]` would succeed, the length test does not -/
def exShort : Slice := { arr := some 0, off := 20, len := 15, cap := 20 }

example : WF exHeap exA ∧ WF exHeap exB ∧ WF exHeap exShort ∧ WF exHeap Slice.nil := by decide

/-- in place: `buf[0:16]` is replaced by k of itself, the other 24 bytes stay -/
example : cryptK toyK exHeap exA exA =
    .ok [[16, 15, 14, 13, 12, 11, 10, 9, 8, 7, 6, 5, 4, 3, 2, 1] ++ (List.range' 16 24).map UInt8.ofNat] := by
  decide
/-- partial overlap by 4 bytes, dst behind src: dst = `buf[12:28]` gets k(old `buf[0:16]`) — the
    four shared bytes were read before they were overwritten -/
example : cryptK toyK exHeap exB exA =
    .ok [(List.range 12).map UInt8.ofNat ++ [16, 15, 14, 13, 12, 11, 10, 9, 8, 7, 6, 5, 4, 3, 2, 1]
      ++ (List.range' 28 12).map UInt8.ofNat] := by
  decide
/-- partial overlap by 4 bytes, dst before src -/
example : cryptK toyK exHeap exA exB =
    .ok [[28, 27, 26, 25, 24, 23, 22, 21, 20, 19, 18, 17, 16, 15, 14, 13]
      ++ (List.range' 16 24).map UInt8.ofNat] := by
  decide
/-- the assembly wrapper on the same three calls: the same heaps -/
example : cryptAsmK toyK exHeap exA exA = cryptK toyK exHeap exA exA ∧
    cryptAsmK toyK exHeap exB exA = cryptK toyK exHeap exB exA ∧
    cryptAsmK toyK exHeap exA exB = cryptK toyK exHeap exA exB := by decide
/-- short dst (len 15, cap 20), short src, nil: panic -/
example : cryptK toyK exHeap exShort exA = .panic ∧ cryptK toyK exHeap exA exShort = .panic ∧
    cryptK toyK exHeap Slice.nil exA = .panic ∧ cryptK toyK exHeap exA Slice.nil = .panic ∧
    cryptAsmK toyK exHeap exShort exA = .panic ∧ cryptAsmK toyK exHeap Slice.nil Slice.nil = .panic := by
  decide
/-- encryptX2's shape: a slice of LENGTH 0 is accepted when its capacity reaches 32 -/
example : cryptX2K (fun x => x.map (· + 1)) exHeap { exA with len := 0 } { exA with len := 0 } =
    .ok [(List.range' 1 32).map UInt8.ofNat ++ (List.range' 32 8).map UInt8.ofNat] ∧
    cryptX2K (fun x => x.map (· + 1)) exHeap exB exA = .panic := by
  decide

/-- the conclusions of `cryptK_contract` instantiated at the partial overlap (a use of the theorem,
    not an evaluation): the call returns, dst shows k(src), byte 11 in front of dst and byte 28
    behind it are unchanged although they belong to the same array -/
example : ∃ h', cryptK toyK exHeap exB exA = .ok h' ∧
    Mem.read h' exB = toyK (Mem.read exHeap exA) ∧
    byteAt h' 0 11 = byteAt exHeap 0 11 ∧ byteAt h' 0 28 = byteAt exHeap 0 28 ∧
    (arrayOf h' 0).length = 40 := by
  obtain ⟨h', e, hr, hu, _, hl, _⟩ :=
    (cryptK_contract toyK toyK_len exHeap exB exA (by decide) (by decide)).2.2 (by decide) (by decide)
  refine ⟨h', e, hr, hu.2.2 0 11 (by decide) ?_, hu.2.2 0 28 (by decide) ?_, by rw [hl 0]; decide⟩
  · intro ⟨_, h1, _⟩; exact absurd h1 (by decide)
  · intro ⟨_, _, h2⟩; exact absurd h2 (by decide)

/-- the real thing, portable model: the example of GB/T 32907 A.1 encrypted in place in a 24-byte
    array, and from `buf[0:16]` into the partially overlapping `buf[4:20]` -/
def stdBlock : Bytes := [0x01,0x23,0x45,0x67,0x89,0xab,0xcd,0xef,0xfe,0xdc,0xba,0x98,0x76,0x54,0x32,0x10]
def stdCipher : Bytes := [0x68,0x1e,0xdf,0x34,0xd2,0x06,0x96,0x5e,0x86,0xb3,0xe9,0x4f,0x53,0x6e,0x42,0x46]
def stdHeap : Heap := [stdBlock ++ List.replicate 8 0xee]

set_option maxRecDepth 100000 in
example : encrypt tb (newCipher stdBlock) stdHeap { arr := some 0, off := 0, len := 16, cap := 24 }
      { arr := some 0, off := 0, len := 16, cap := 24 }
    = .ok [stdCipher ++ List.replicate 8 0xee] := by decide +kernel

set_option maxRecDepth 100000 in
example : encrypt tb (newCipher stdBlock) stdHeap { arr := some 0, off := 4, len := 16, cap := 20 }
      { arr := some 0, off := 0, len := 16, cap := 24 }
    = .ok [stdBlock.take 4 ++ stdCipher ++ List.replicate 4 0xee] := by decide +kernel

/-- Encrypt then Decrypt in place gives the heap back (`decrypt_encrypt_inplace` applies: the
    hypotheses on the cipher hold for `newCipher`) -/
example (key : Bytes) (h : Heap) (s : Slice) (hw : WF h s) (hl : 16 ≤ s.len) :
    ∃ h1, encrypt tb (newCipher key) h s s = .ok h1 ∧ decrypt tb (newCipher key) h1 s s = .ok h := by
  obtain ⟨he, hd⟩ := newCipher_keys key
  exact decrypt_encrypt_inplace (newCipher key) (by rw [he]; exact Proofs.SM4.keySchedule_length key)
    (by rw [hd, he]) h s hw hl

end examples

/-! ### what is not proved here

  * That the Go compiler's slice checks are the ones modelled (`reslice` against the capacity,
    `&s[0]` and `s[i]` against the length) and that `binary.BigEndian.Uint32/PutUint32` are four
    byte accesses behind a `_ = b[3]` check: the reading of the Go specification and of
    encoding/binary on which Model/Slice.lean and Model/SM4Wrap.lean rest; tied to the compiled
    code by the differential stream `sm4.wrap`.
  * That the assembly kernel touches only `src[0:16)` (read) and `dst[0:16)` (write, after the
    read): the modelling assumption of the assembly path, see Model/SM4Wrap.lean; for amd64 it is
    what the interpreted listing does (Props/C05.lean, Props/C11.lean), for arm64 it is read off the
    listing only.
-/
#print axioms Writes.wf
#print axioms writes_of_effect
#print axioms cryptK_contract
#print axioms cryptAsmK_contract
#print axioms cryptK_paths_agree
#print axioms encrypt_eq
#print axioms decrypt_eq
#print axioms encrypt_panics_iff
#print axioms encrypt_writes
#print axioms decrypt_panics_iff
#print axioms decrypt_writes
#print axioms encrypt_inplace
#print axioms decrypt_inplace
#print axioms newCipher_keys
#print axioms block_writes
#print axioms decrypt_encrypt_roundtrip
#print axioms decrypt_encrypt_inplace
#print axioms encryptAsm_eq
#print axioms decryptAsm_eq
#print axioms encryptAsm_panics_iff
#print axioms encryptAsm_writes
#print axioms decryptAsm_panics_iff
#print axioms decryptAsm_writes
#print axioms paths_agree
#print axioms driver_oracle
#print axioms driver_asm_cipher
#print axioms encryptX2_eq
#print axioms decryptX2_eq
#print axioms cryptX2_panics_iff
#print axioms cryptX2_writes
#print axioms toyK_len

end SMGo.Props.C05Wrap
