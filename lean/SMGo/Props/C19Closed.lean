/-
  Property C19, signing side, CLOSED — the error cases of `SignHashed` are exactly those of the standard,
  for the instance regenerated from the source (`Model.SM2.ctx`), without hypotheses.
  (Corollaries of the unconditional refinement theorem C02, `Props.SM2.ctx_sign_is_standard_any_digest_length`;
   the only new lemma is the obvious characterisation of `Spec.SM2.signStream … = none`.)

  `Props/C19.lean` gives, for key generation, an exact characterisation of the error cases
  (`genKey_error_iff`) but for signing only sufficient conditions (`sign_error`, `sign_error_no_candidate`,
  stated through the model's own loop body `signStep`).  Here the signing side is closed in the same way:

    * `ctx_sign_error_iff`      `SignHashed` returns an error  ⇔  the specification-level signer
                                `Spec.SM2.signBytes` over the same script returns `none`;
    * `signBytes_none_iff`      what that means: the key is longer than 32 bytes, or outside [1, n-2], or
                                every complete 32-byte candidate the script delivers before its first
                                failure / its end is rejected by the standard (`Spec.SM2.signWith … = none`;
                                C02 `skip_iff` spells the rejection rules out);
    * `ctx_sign_error_iff_candidates`   the two composed;
    * `ctx_sign_error_iff_valid_key`    for a valid key: error ⇔ no candidate of the script is accepted;
    * `ctx_sign_ok_iff`         conversely a signature is returned ⇔ the key is valid and some candidate is
                                accepted; and the call never panics, so these are the only two cases.
-/
import SMGo.Props.SM2Unconditional
namespace SMGo.Props.C19Closed
open SMGo SMGo.Model SMGo.Model.SM2
open SMGo.Spec.SM2 (candidates validKey signWith signStream signBytes)

/-! ### the specification side -/

/-- the stream of candidates yields no signature exactly when every candidate is rejected -/
theorem signStream_none_iff (d e : Nat) (ks : List Nat) (j : Nat) :
    signStream d e ks j = none ↔ ∀ k ∈ ks, signWith d e k = none := by
  induction ks generalizing j with
  | nil => simp [signStream]
  | cons k ks ih =>
    unfold signStream
    cases h : signWith d e k with
    | none =>
      simp only [ih (j + 1), List.mem_cons, forall_eq_or_imp, h, true_and]
    | some rs =>
      obtain ⟨r, s⟩ := rs
      simp only [List.mem_cons, forall_eq_or_imp, h]
      constructor
      · intro hc; cases hc
      · intro hc; cases hc.1

/-- the error cases of the specification: key too long, key outside [1, n-2], or no accepted candidate
    among the complete 32-byte units of the stream before its first failure or its end -/
theorem signBytes_none_iff (priv e : Bytes) (sc : Script) :
    signBytes priv e sc = none ↔
      priv.length > 32 ∨ validKey (Bytes.toNatBE priv) = false ∨
      ∀ K ∈ candidates sc [], signWith (Bytes.toNatBE priv) (Bytes.toNatBE e) (Bytes.toNatBE K) = none := by
  have hs := signStream_none_iff (Bytes.toNatBE priv) (Bytes.toNatBE e)
    ((candidates sc []).map Bytes.toNatBE) 0
  simp only [List.mem_map, forall_exists_index, and_imp, forall_apply_eq_imp_iff₂] at hs
  unfold signBytes
  simp only []
  by_cases hk : priv.length > 32 ∨ (!validKey (Bytes.toNatBE priv)) = true
  · rw [if_pos hk]
    refine ⟨fun _ => ?_, fun _ => rfl⟩
    rcases hk with h | h
    · exact Or.inl h
    · exact Or.inr (Or.inl (by simpa using h))
  · rw [if_neg hk]
    have h1 : ¬ priv.length > 32 := fun h => hk (Or.inl h)
    have h2 : ¬ validKey (Bytes.toNatBE priv) = false := fun h => hk (Or.inr (by simp [h]))
    cases hst : signStream (Bytes.toNatBE priv) (Bytes.toNatBE e)
        ((candidates sc []).map Bytes.toNatBE) 0 with
    | none =>
      exact ⟨fun _ => Or.inr (Or.inr (hs.mp hst)), fun _ => rfl⟩
    | some t =>
      obtain ⟨j, r, s⟩ := t
      refine ⟨fun h => (by cases h), fun h => ?_⟩
      rcases h with h | h | h
      · exact absurd h h1
      · exact absurd h h2
      · rw [hs.mpr h] at hst; cases hst

/-! ### the model of the instance -/

/-- **`ctx_sign_error_iff`**: `SignHashed` (digest of any length, any key bytes, any randomness script)
    returns an error exactly when the specification-level signer over the same script returns nothing -/
theorem ctx_sign_error_iff (sc : Script) (priv e : Bytes) :
    signHashed ctx sc priv e = .err ↔ signBytes priv e sc = none := by
  rw [Props.SM2.ctx_sign_is_standard_any_digest_length]
  cases signBytes priv e sc with
  | none => exact ⟨fun _ => rfl, fun _ => rfl⟩
  | some t =>
    obtain ⟨r, s, c⟩ := t
    exact ⟨fun h => (by cases h), fun h => (by cases h)⟩

/-- … spelled out: the key is refused (longer than 32 bytes, or value outside [1, n-2]), or the stream
    fails or ends — before the first draw, inside a draw, or after any number of rejected nonces —
    before a complete candidate that the standard accepts -/
theorem ctx_sign_error_iff_candidates (sc : Script) (priv e : Bytes) :
    signHashed ctx sc priv e = .err ↔
      priv.length > 32 ∨ validKey (Bytes.toNatBE priv) = false ∨
      ∀ K ∈ candidates sc [], signWith (Bytes.toNatBE priv) (Bytes.toNatBE e) (Bytes.toNatBE K) = none :=
  (ctx_sign_error_iff sc priv e).trans (signBytes_none_iff priv e sc)

/-- for a valid key: an error exactly when no candidate of the script is accepted -/
theorem ctx_sign_error_iff_valid_key (sc : Script) (priv e : Bytes) (hl : priv.length ≤ 32)
    (hv : validKey (Bytes.toNatBE priv) = true) :
    signHashed ctx sc priv e = .err ↔
      ∀ K ∈ candidates sc [], signWith (Bytes.toNatBE priv) (Bytes.toNatBE e) (Bytes.toNatBE K) = none := by
  rw [ctx_sign_error_iff_candidates]
  constructor
  · rintro (h | h | h)
    · omega
    · rw [hv] at h; cases h
    · exact h
  · exact fun h => Or.inr (Or.inr h)

/-- the other case: a signature (and a byte count) is returned exactly when the key is valid and some
    complete candidate of the script is accepted by the standard; there is no third case (no panic) -/
theorem ctx_sign_ok_iff (sc : Script) (priv e : Bytes) :
    ((∃ res, signHashed ctx sc priv e = .ok res) ↔
      priv.length ≤ 32 ∧ validKey (Bytes.toNatBE priv) = true ∧
      ∃ K ∈ candidates sc [], signWith (Bytes.toNatBE priv) (Bytes.toNatBE e) (Bytes.toNatBE K) ≠ none) ∧
    signHashed ctx sc priv e ≠ .panic := by
  refine ⟨?_, Props.SM2.ctx_signHashed_no_panic sc priv e⟩
  have herr := ctx_sign_error_iff_candidates sc priv e
  have hnp := Props.SM2.ctx_signHashed_no_panic sc priv e
  constructor
  · rintro ⟨res, hres⟩
    have hne : ¬ signHashed ctx sc priv e = .err := by rw [hres]; intro h; cases h
    rw [herr] at hne
    refine ⟨?_, ?_, ?_⟩
    · exact Nat.le_of_not_gt (fun h => hne (Or.inl h))
    · cases hv : validKey (Bytes.toNatBE priv) with
      | true => rfl
      | false => exact absurd (Or.inr (Or.inl hv)) hne
    · apply Classical.byContradiction
      intro hno
      apply hne
      refine Or.inr (Or.inr (fun K hK => ?_))
      apply Classical.byContradiction
      intro hK2
      exact hno ⟨K, hK, hK2⟩
  · rintro ⟨hl, hv, K, hK, hacc⟩
    cases hr : signHashed ctx sc priv e with
    | ok res => exact ⟨res, rfl⟩
    | panic => exact absurd hr hnp
    | err =>
      rcases herr.mp hr with h | h | h
      · omega
      · rw [hv] at h; cases h
      · exact absurd (h K hK) hacc

/-! ### non-vacuity (specification side evaluated in the kernel; the model side follows from the theorems) -/

/-- both sides of `ctx_sign_error_iff` hold: two rejected candidates (zero), then the stream ends inside the third -/
example : signHashed ctx [.data (List.replicate 64 0), .zero, .data (List.replicate 31 0x11)]
    (List.replicate 32 0x22) (List.replicate 32 0x33) = .err :=
  (ctx_sign_error_iff _ _ _).mpr (by decide +kernel)

/-- both sides fail: the same key and digest with a complete third candidate give a signature -/
example : signHashed ctx [.data (List.replicate 64 0 ++ List.replicate 32 0x11)]
    (List.replicate 32 0x22) (List.replicate 32 0x33) ≠ .err := by
  rw [ne_eq, ctx_sign_error_iff]
  decide +kernel

/-- the valid-key form applied: the key 0x22…22 is valid, and an all-zero stream has only rejected candidates -/
example : signHashed ctx [.data (List.replicate 96 0), .fail, .data (List.replicate 32 0x11)]
    (List.replicate 32 0x22) (List.replicate 32 0x33) = .err := by
  refine (ctx_sign_error_iff_valid_key _ _ _ (by decide) (by decide +kernel)).mpr ?_
  decide +kernel

/-- a key outside [1, n-2] (here n-1): error whatever the stream delivers -/
example (sc : Script) (e : Bytes) : signHashed ctx sc (Bytes.ofNatBE 32 (Spec.SM2.n - 1)) e = .err :=
  (ctx_sign_error_iff_candidates _ _ _).mpr (Or.inr (Or.inl (by decide +kernel)))

end SMGo.Props.C19Closed

#print axioms SMGo.Props.C19Closed.signStream_none_iff
#print axioms SMGo.Props.C19Closed.signBytes_none_iff
#print axioms SMGo.Props.C19Closed.ctx_sign_error_iff
#print axioms SMGo.Props.C19Closed.ctx_sign_error_iff_candidates
#print axioms SMGo.Props.C19Closed.ctx_sign_error_iff_valid_key
#print axioms SMGo.Props.C19Closed.ctx_sign_ok_iff
