/-
  Property C13 (refinement of the generated IR): the entry points of /repo/sm2/sm2.go as modelled in
  SMGo/Model/SM2Proto.lean — `DerivePublic`, `GenerateKey`, `SignHashed` (with `ensure32Bytes`), `VerifyHashed` (with
  `(*SM2Point).SetBytes`, `Sm2CheckOnCurve`, `Bytes_Unsafe`, `GetAffineX_Unsafe`) and `ZA` — ARE what the regenerated IR
  computes.  (Property theorems only; proofs in SMGo/Proofs/CTIRRefineKeys.lean, CTIRRefineSign.lean, CTIRRefineVerify.lean,
  CTIRRefineZA.lean, CTIRRefineUnsafe.lean, CTIRRefineScalar.lean, CTIRRefineScalarInv.lean, CTIRRefineEntry*.lean.)

  Programs: DerivePublic / GenerateKey / SignHashed are functions 96–98 of SMGo/Gen/CTIRProg.lean; VerifyHashed (107), ZA (106),
  (*SM2Point).SetBytes (104), Sm2CheckOnCurve (105) are in the extension SMGo/Gen/CTIRProgProto.lean (sub-command `ctirproto`;
  `prog := CTIRProg.prog ++ extra`, theorems about CTIRProg.prog transfer by `computes_proto_of_prog`, Props/C14IRMixed).
  Functional validation of that program: harness runner C13IR (`ctirproto.run` vs the Go functions).

  The external world.  math/big, io.ReadFull, fmt.Errorf, SM3 are external calls of the IR; the theorems take what the
  oracle `O` answers as HYPOTHESES relating it to the model's arithmetic, each satisfied by an executable oracle:
  * `BigOk O` (SetBytes = `Bytes.toNatBE`, Add/Sub/Mul/Mod/Sign on integers, FillBytes = `Bytes.ofNatBE len v`, ByteLen,
    Errorf returns one value): `stdOracle_bigOk`; `ExtOk O` (the same plus `big.Int.Cmp`): `protoOracle_ok`;
    `InvOk` (ModInverse = `Spec.SM2.invMod` = a^(m-2) mod m; equal to Go's ModInverse for the prime modulus and the
    invertible arguments of every call): `stdOracle_invOk`.
  * the reader: `ReaderOk O rd sc` — the k-th `io.ReadFull(rand, buf[:32])` answers as `Model.SM2.readFull` on the
    script `sc k` (success: the 32 bytes; failure: a non-nil error): `readerOracle_ok` / `readerOracle_spec` for the scripted
    oracles `readerOracle base s`.
  * SM3: `hSum : ∀ m, O sm3.Sum [m] = [Spec.SM3.hash m]` — the IR represents the streaming hash object by the bytes written
    so far (`Write` appends, `Sum(nil)` is the external); that `sm3.New/Write…/Sum` computes the SM3 digest of the concatenation
    is Props/C04 (model) — `protoOracle_sum`.
  Domains of the oracle hypotheses.  The executable oracles are total: they also answer where Go would panic or return
  nil — `FillBytes` into a buffer that is too short (the oracle truncates, Go panics), `Mod` by 0 (Go panics), `ModInverse`
  of a non-invertible argument (Go returns nil and the next `Mul` would dereference it), negative operands of `SetBytes`-style
  encodings.  The hypotheses (`BigOk`, `ExtOk`, `InvOk`) are stated on naturals / on the moduli that occur, and these
  cases are UNREACHABLE in the entry points, by theorems of this tree: `FillBytes(rkBuf[33])` gets r + k < 2n < 2^257 (`hn`,
  discharged by `decide` for the SM2 order) and `FillBytes(buf[32])` gets d + 1 < 2^256 (`priv_bound`, from TestPrivateKey = 0);
  every `Mod` is by the constants n or p (globals 16 and 14, both positive); `ModInverse(z, p)` is reached only after
  `IsZero(z) ≠ 1`, i.e. for a canonical z with 0 < z < p (canonicity of every field value: Props/SM2Fiat `Canon`, `RelF`), p prime
  (Proofs/Prime.lean, Props/C16), so Go's ModInverse is the a^(p-2) mod p of the oracle (`stdOracle_modInverse`: the oracle and `Spec.SM2.invMod`
  are literally the same function); the only integer that can be negative is `rk·t − r` in SignHashed, immediately reduced
  by `Mod n`, Euclidean in Go and in the oracle (`%` on `Int`).
  The reader handle `rd` of `ir_signHashed_*` is any value: SignHashed never tests `rand == nil`; with a nil reader Go would
  dereference nil inside `io.ReadFull` (outside the property: the statements are for a reader that answers as `ReaderOk` says).
  GenerateKey does test `rand == nil` (`ir_generateKey_nil`).
  Duplicated definitions: CTIRRefineKeys and CTIRRefineSign each define a scripted `readerOracle` (they differ only in the
  buffer returned with a failed read); `Computes` exists in CTIRRefineComb and CTIRRefineField (definitionally equal:
  `computes_comb`), `Limbs`/`encL` in CTIRRefineClosed and CTIRRefineScalar (`limbs_eq`, `encL_eq` by `rfl`).
  Callees are `Computes` hypotheses in the modular theorems (`Callees`, `VerifyCallees`, `PsbCallees`, `ElemOps`; receivers are
  four 64-bit limbs `Out4`: every bundle is satisfiable for the generated program) and are DISCHARGED in the `_fiat` theorems
  (carrier `Limbs = {l // Out4 l}`, context `ctx4` = `Model.SM2.ctxFiat` restricted to well-formed limbs) from Props/C15IR,
  C14IRMixed, C16IRFiat.

  Findings (model vs IR):
  * a TRANSLATOR defect found by the proof of (*SM2Point).SetBytes: `len(b) == 1 && b[0] == 0` was emitted with the strict
    operator `.land` (b[0] evaluated for the empty b: stuck, Go short-circuits): the translator now short-circuits whenever
    the right operand can fail; only this function was affected (`pointSetBytes_nil`).  A second defect found while
    translating VerifyHashed: `buf := append(pubBytes[:0], 4); …; SetBytes(pubBytes[:])` — append writing into the backing
    array of another variable was translated as a pure value (the array stayed zero); the translator now refuses such
    appends (`appendGuard`) and translates this idiom with an attachment flag (validated by runner C13IR).
  * ensure32Bytes for v ≥ 2^256: Go panics (slice bounds), the IR is stuck, the model returns the long encoding: never
    reached (`ir_ensure32Bytes_long_stuck`).
  * SignHashed ignores the error of `d1.SetBytes` (the model says `.panic` there): unreachable when the scalar field agrees with
    n (hypothesis `hne`, proved for `ctx4`); FillBytes that does not fit: unreachable for n ≤ 2^256 (`hn`); n = 0 (`hn0`).
  * ZA: `len(id) << 3` wraps for len(id) ≥ 2^60 (no such slice exists): hypothesis `id.length < 2^60`.
  * GenerateKey / SignHashed on the error paths return the named results as they are (first result: the buffer), stated
    with `∃ v`.  No disagreement in DerivePublic, GenerateKey, VerifyHashed, CheckOnCurve, GetAffineX_Unsafe, Bytes_Unsafe.
  Axioms: propext, Classical.choice, Quot.sound.
-/
import SMGo.Proofs.CTIRRefineKeys
import SMGo.Proofs.CTIRRefineSign
import SMGo.Proofs.CTIRRefineZA
import SMGo.Proofs.CTIRRefineVerify
import SMGo.Proofs.CTIRRefineUnsafe
import SMGo.Proofs.CTIRRefineScalar
import SMGo.Proofs.CTIRRefineScalarInv
import SMGo.Proofs.CTIRRefineEntry
import SMGo.Proofs.CTIRRefineEntryProto
import SMGo.Proofs.CTIRRefineEntryProto2

namespace SMGo.Props.C13IR
open SMGo SMGo.Proofs SMGo.Model.CTIR SMGo.Gen.CTIRProg SMGo.Proofs.CTIRRefineUtils SMGo.Proofs.CTIRRefineCurve
open SMGo.Proofs.CTIRRefineField (Computes)
open SMGo.Proofs.CTIRRefineComb (CalleeFails Fails nilPointV runV_of_Fails)
open SMGo.Proofs.CTIRRefinePointA (ptV)
open SMGo.Model.SM2 (Script readFull avail genKeyLoop)
open SMGo.Proofs.CTIRRefineKeys
variable {α β : Type} {G : Nat → Val} {O : Oracle}

/-! ## DerivePublic, GenerateKey (SMGo/Proofs/CTIRRefineKeys.lean) -/

/-- sm2.DerivePublic = Model.SM2.derivePublic, modulo ScalarBaseMult (87) and (*SM2Point).Bytes (91) -/
theorem ir_derivePublic_eq_model (X : Model.SM2.Ctx α β) (enc : α → List Nat) (Fsbm Fbytes : Nat) (priv : Bytes)
    (H1 : ∀ k : Bytes,
      match Model.SM2.scalarBaseMult X k with
      | .ok r => Computes prog G O 87 Fsbm [bytesV k] [ptV enc r, .int 0]
      | .err => Computes prog G O 87 Fsbm [bytesV k] [nilPointV, .int 1]
      | .panic => CalleeFails prog G O 87 [bytesV k])
    (H2 : ∀ p, Computes prog G O 91 Fbytes [ptV enc p] [bytesV (Model.Point.bytes X.C p true)]) :
    match Model.SM2.derivePublic X priv with
    | .ok (x, y) => ∀ f, fuelDerive Fsbm Fbytes ≤ f →
        runV prog G O f f_sm2_DerivePublic [bytesV priv] = .ret [bytesV x, bytesV y, .int 0]
    | .err => ∀ f, fuelDerive Fsbm Fbytes ≤ f →
        runV prog G O f f_sm2_DerivePublic [bytesV priv] = .ret [.arr [], .arr [], .int 1]
    | .panic =>
        (∃ F, ∀ f, F ≤ f → runV prog G O f f_sm2_DerivePublic [bytesV priv] = .panic) ∨
        (∀ f, runV prog G O f f_sm2_DerivePublic [bytesV priv] = .stuck) :=
  SMGo.Proofs.CTIRRefineKeys.ir_derivePublic_eq_model X enc Fsbm Fbytes priv H1 H2

/-- sm2.GenerateKey = Model.SM2.generateKey for a reader that follows the scripts `sc p` (hypothesis H4 on external 11, io.ReadFull) -/
theorem ir_generateKey_eq_model (X : Model.SM2.Ctx α β) (enc : α → List Nat) (Fsbm Fbytes : Nat)
    (hG : G 5 = bytesV (Model.SM2.nMinus1Bytes X)) (r : Int) (hr : r ≠ 0) (sc : Nat → Script)
    (H1 : ∀ k : Bytes,
      match Model.SM2.scalarBaseMult X k with
      | .ok r => Computes prog G O 87 Fsbm [bytesV k] [ptV enc r, .int 0]
      | .err => Computes prog G O 87 Fsbm [bytesV k] [nilPointV, .int 1]
      | .panic => CalleeFails prog G O 87 [bytesV k])
    (H2 : ∀ p, Computes prog G O 91 Fbytes [ptV enc p] [bytesV (Model.Point.bytes X.C p true)])
    (H4 : ∀ p : Nat,
      match readFull (sc p) 32 [] with
      | (some b, rest) =>
          O 11 [.int r, .int 32, .int (p : Int)] = [bytesV b, .int 32, .int 0, .int ((p + 1 : Nat) : Int)] ∧
            sc (p + 1) = rest
      | (none, rest) =>
          ∃ buf n e, O 11 [.int r, .int 32, .int (p : Int)] = [buf, .int n, .int e, .int ((p + 1 : Nat) : Int)] ∧
            e ≠ 0 ∧ sc (p + 1) = rest) :
    match Model.SM2.generateKey X (some (sc 0)) with
    | .ok ((priv, x, y), _) => ∀ f, fuelGen (avail (sc 0) / 32 + 1) Fsbm Fbytes ≤ f →
        runV prog G O f f_sm2_GenerateKey [.int r] = .ret [bytesV priv, bytesV x, bytesV y, .int 0]
    | .err => ∃ v, ∀ f, fuelGen (avail (sc 0) / 32 + 1) Fsbm Fbytes ≤ f →
        runV prog G O f f_sm2_GenerateKey [.int r] = .ret [v, .arr [], .arr [], .int 1]
    | .panic =>
        (∃ F, ∀ f, F ≤ f → runV prog G O f f_sm2_GenerateKey [.int r] = .panic) ∨
        (∀ f, runV prog G O f f_sm2_GenerateKey [.int r] = .stuck) :=
  SMGo.Proofs.CTIRRefineKeys.ir_generateKey_eq_model X enc Fsbm Fbytes hG r hr sc H1 H2 H4

/-- the same against the concrete scripted oracle `readerOracle base s`: the reader hypothesis discharged -/
theorem ir_generateKey_eq_model_script (X : Model.SM2.Ctx α β) (enc : α → List Nat) (Fsbm Fbytes : Nat)
    (base : Oracle) (s : Script)
    (hG : G 5 = bytesV (Model.SM2.nMinus1Bytes X)) (r : Int) (hr : r ≠ 0)
    (H1 : ∀ k : Bytes,
      match Model.SM2.scalarBaseMult X k with
      | .ok r => Computes prog G (readerOracle base s) 87 Fsbm [bytesV k] [ptV enc r, .int 0]
      | .err => Computes prog G (readerOracle base s) 87 Fsbm [bytesV k] [nilPointV, .int 1]
      | .panic => CalleeFails prog G (readerOracle base s) 87 [bytesV k])
    (H2 : ∀ p, Computes prog G (readerOracle base s) 91 Fbytes [ptV enc p] [bytesV (Model.Point.bytes X.C p true)]) :
    match Model.SM2.generateKey X (some s) with
    | .ok ((priv, x, y), _) => ∀ f, fuelGen (avail s / 32 + 1) Fsbm Fbytes ≤ f →
        runV prog G (readerOracle base s) f f_sm2_GenerateKey [.int r] = .ret [bytesV priv, bytesV x, bytesV y, .int 0]
    | .err => ∃ v, ∀ f, fuelGen (avail s / 32 + 1) Fsbm Fbytes ≤ f →
        runV prog G (readerOracle base s) f f_sm2_GenerateKey [.int r] = .ret [v, .arr [], .arr [], .int 1]
    | .panic =>
        (∃ F, ∀ f, F ≤ f → runV prog G (readerOracle base s) f f_sm2_GenerateKey [.int r] = .panic) ∨
        (∀ f, runV prog G (readerOracle base s) f f_sm2_GenerateKey [.int r] = .stuck) :=
  SMGo.Proofs.CTIRRefineKeys.ir_generateKey_eq_model_script X enc Fsbm Fbytes base s hG r hr H1 H2

/-- GenerateKey(nil) -/
theorem ir_generateKey_nil (X : Model.SM2.Ctx α β) :
    Model.SM2.generateKey X none = .err ∧
    ∀ f, 20 ≤ f → runV prog G O f f_sm2_GenerateKey [.int 0] = .ret [.arr [], .arr [], .arr [], .int 1] :=
  SMGo.Proofs.CTIRRefineKeys.ir_generateKey_nil X

/-- the scripted oracle satisfies the reader hypothesis -/
theorem readerOracle_spec (base : Oracle) (s : Script) (rd : Val) :
    ReaderSpec (readerOracle base s) rd (scriptAt s) :=
  SMGo.Proofs.CTIRRefineKeys.readerOracle_spec base s rd

theorem globals_nMinus1_ctx (X : Model.SM2.Ctx α β) (hn : X.n = SMGo.Gen.SM2Params.param_N) :
    globals 5 = bytesV (Model.SM2.nMinus1Bytes X) :=
  SMGo.Proofs.CTIRRefineKeys.globals_nMinus1_ctx X hn

end SMGo.Props.C13IR

namespace SMGo.Props.C13IR
open SMGo SMGo.Proofs SMGo.Model.CTIR SMGo.Gen.CTIRProg SMGo.Proofs.CTIRRefineUtils SMGo.Proofs.CTIRRefineField
open SMGo.Proofs.CTIRRefineComb (CalleeFails Fails nilPointV)
open SMGo.Proofs.CTIRRefinePointA (ptV)
open SMGo.Model.SM2 (Script readFull avail signLoop signHashed fillBytes ensure32 nBytes nBytes33 nMinus1Bytes)
open SMGo.Proofs.CTIRRefineSign
variable {α β : Type} {G : Nat → Val} {O : Oracle} {X : Model.SM2.Ctx α β} {enc : α → List Nat}
  {encS : β → List Nat} {Fsbm Fgax Fsb Finv Ftb : Nat} {rd : Val} {sc : Nat → Script} {priv e : Bytes}

/-! ## SignHashed, ensure32Bytes (SMGo/Proofs/CTIRRefineSign.lean) -/

/-- ensure32Bytes(v) for v < 2^256 -/
theorem ir_ensure32Bytes_eq_model (hB : BigOk O) (v : Nat) (hv : v < 256 ^ 32) :
    ∀ f, fuelEns ≤ f → runV prog G O f f_sm2_ensure32Bytes [.int (v : Int)] = .ret [bytesV (ensure32 v)] :=
  SMGo.Proofs.CTIRRefineSign.ir_ensure32Bytes_eq_model hB v hv

/-- for 2^256 ≤ v the Go slice expression panics (the IR is stuck); the model returns the long encoding: never reached -/
theorem ir_ensure32Bytes_long_stuck (hB : BigOk O) (v : Nat) (hv : 256 ^ 32 ≤ v) (hv2 : v < 256 ^ 64) :
    (∀ f, runV prog G O f f_sm2_ensure32Bytes [.int (v : Int)] = .stuck) ∧ ensure32 v = Bytes.ofNatMin v ∧
      32 < (ensure32 v).length :=
  SMGo.Proofs.CTIRRefineSign.ir_ensure32Bytes_long_stuck hB v hv hv2

/-- sm2.SignHashed = Model.SM2.signHashed -/
theorem ir_signHashed_eq_model (C : Callees prog G O X enc encS Fsbm Fgax Fsb Finv Ftb) (hB : BigOk O)
    (hG : Globals G X) (hn0 : 0 < X.n) (hn : X.n ≤ 256 ^ 32) {rd : Val} {sc : Nat → Script} (hR : ReaderOk O rd sc)
    {priv e : Bytes} (hlen : priv.length < 2 ^ 63)
    (hne : Model.SM2.testPrivateKey X priv = .ok 0 →
      Model.Field.scalarSetBytes X.S (Bytes.ofNatBE 32 (Bytes.toNatBE priv + 1)) ≠ .err) :
    match signHashed X (sc 0) priv e with
    | .ok ((r, s), _) => ∀ f, fuelSign Fsbm Fgax Fsb Finv Ftb (avail (sc 0)) ≤ f →
        runV prog G O f f_sm2_SignHashed [rd, bytesV priv, bytesV e] = .ret [bytesV r, bytesV s, .int 0]
    | .err => ∃ code : Int, code ≠ 0 ∧ ∀ f, fuelSign Fsbm Fgax Fsb Finv Ftb (avail (sc 0)) ≤ f →
        runV prog G O f f_sm2_SignHashed [rd, bytesV priv, bytesV e] = .ret [bytesV [], bytesV [], .int code]
    | .panic => (∃ F, ∀ f, F ≤ f → runV prog G O f f_sm2_SignHashed [rd, bytesV priv, bytesV e] = .panic) ∨
        (∀ f, runV prog G O f f_sm2_SignHashed [rd, bytesV priv, bytesV e] = .stuck) :=
  SMGo.Proofs.CTIRRefineSign.ir_signHashed_eq_model C hB hG hn0 hn hR hlen hne

theorem fuelSign_eq (Fsbm Fgax Fsb Finv Ftb a : Nat) :
    fuelSign Fsbm Fgax Fsb Finv Ftb a = (Fsbm + Fgax + Fsb + Finv + Ftb + 1218) * (a / 32 + 1) + 623 :=
  SMGo.Proofs.CTIRRefineSign.fuelSign_eq Fsbm Fgax Fsb Finv Ftb a

/-- the math/big externals of the standard oracle are the integer operations -/
theorem stdOracle_bigOk (tape : Nat → Nat → Nat) : BigOk (stdOracle extKinds tape) :=
  SMGo.Proofs.CTIRRefineSign.stdOracle_bigOk tape

theorem readerOracle_ok (base : Oracle) (rd : Val) (sc0 : Script) :
    ReaderOk (readerOracle base sc0) rd (scAt sc0) :=
  SMGo.Proofs.CTIRRefineSign.readerOracle_ok base rd sc0

theorem readerOracle_bigOk {base : Oracle} (hB : BigOk base) (sc0 : Script) : BigOk (readerOracle base sc0) :=
  SMGo.Proofs.CTIRRefineSign.readerOracle_bigOk hB sc0

end SMGo.Props.C13IR

namespace SMGo.Props.C13IR
open SMGo SMGo.Proofs SMGo.Model.CTIR SMGo.Gen.CTIRProg SMGo.Proofs.CTIRRefineUtils SMGo.Proofs.CTIRRefineField
open SMGo.Proofs.CTIRRefineScalar SMGo.Proofs.CTIRRefineScalarInv
open SMGo.Proofs.CTIRRefinePointB (fuelToBigInt)
open SMGo.Proofs.CTIRRefineFiat (fuelFiat)
variable {β : Type} {G : Nat → Val} {X : Oracle} {S : Model.Field.FieldOps β} {encS : β → List Nat} {Fsq Fmul : Nat}

/-! ## The scalar-field element methods SignHashed calls (SMGo/Proofs/CTIRRefineScalar.lean, CTIRRefineScalarInv.lean):
   transferred from the coordinate-field theorems of Props/C16IR by the renaming theorem (Props/C14IRMixed) -/

/-- (*SM2ScalarElement).SetBytes -/
theorem ir_ScalarSetBytes_eq_model {Fb Fo : Nat} (hG : G 3 = bytesV (Model.Field.minusOneEncoding S))
    (old : List Nat) (v : Bytes) (hp : ScalarSetBytesPrims prog G X S encS Fb Fo old v) :
    match Model.Field.scalarSetBytes S v with
    | .ok e' => ∀ f, fuelSetBytes Fb Fo ≤ f →
        runV prog G X f f_fiat_SM2ScalarElement_SetBytes [elemV old, bytesV v]
          = .ret [elemV (encS e'), elemV (encS e'), .int 0]
    | .err => ∀ f, 404 ≤ f →
        runV prog G X f f_fiat_SM2ScalarElement_SetBytes [elemV old, bytesV v]
          = .ret [elemV old, elemV [0, 0, 0, 0], .int 1]
    | .panic => ∀ f, runV prog G X f f_fiat_SM2ScalarElement_SetBytes [elemV old, bytesV v] = .stuck :=
  SMGo.Proofs.CTIRRefineScalar.ir_ScalarSetBytes_eq_model hG old v hp

theorem ir_ScalarToBigInt {Fm Ft : Nat} {x : β} (h : ScalarBytesPrims prog G X S encS Fm Ft x)
    (hX : ∀ b : Bytes, X 7 [bytesV b] = [.int ((Bytes.toNatBE b : Nat) : Int)]) :
    ∀ f, fuelToBigInt Fm Ft ≤ f →
      runV prog G X f f_fiat_SM2ScalarElement_ToBigInt [elemV (encS x)]
        = .ret [.int ((Model.Field.toNat S x : Nat) : Int)] :=
  SMGo.Proofs.CTIRRefineScalar.ir_ScalarToBigInt h hX

theorem ir_ScalarBytes {Fm Ft : Nat} {x : β} (h : ScalarBytesPrims prog G X S encS Fm Ft x) :
    ∀ f, fuelBytes32 Fm Ft ≤ f →
      runV prog G X f f_fiat_SM2ScalarElement_Bytes [elemV (encS x)] = .ret [bytesV (Model.Field.bytes S x)] :=
  SMGo.Proofs.CTIRRefineScalar.ir_ScalarBytes h

theorem ir_ScalarIsZero {Fm Ft : Nat} {x : β} (h : ScalarBytesPrims prog G X S encS Fm Ft x)
    (hG : G 4 = bytesV (Model.Field.bytes S S.zero)) :
    ∀ f, fuelIsZero Fm Ft ≤ f →
      runV prog G X f f_fiat_SM2ScalarElement_IsZero [elemV (encS x)]
        = .ret [.int ((Model.Field.isZero S x : Nat) : Int)] :=
  SMGo.Proofs.CTIRRefineScalar.ir_ScalarIsZero h hG

theorem ir_ScalarEqual {Fm Ft : Nat} {x t : β} (hx : ScalarBytesPrims prog G X S encS Fm Ft x)
    (ht : ScalarBytesPrims prog G X S encS Fm Ft t) :
    ∀ f, fuelEqual Fm Ft ≤ f →
      runV prog G X f f_fiat_SM2ScalarElement_Equal [elemV (encS x), elemV (encS t)]
        = .ret [.int ((Model.Field.equal S x t : Nat) : Int)] :=
  SMGo.Proofs.CTIRRefineScalar.ir_ScalarEqual hx ht

/-- the two model functions are the same computation since the repair -/
theorem scalarSetBytes_eq_setBytes (S : Model.Field.FieldOps β) (v : Bytes) :
    Model.Field.scalarSetBytes S v = Model.Field.setBytes S v :=
  SMGo.Proofs.CTIRRefineScalar.scalarSetBytes_eq_setBytes S v

/-- the primitive hypotheses are theorems for the generated scalar Fiat code -/
theorem scalarBytesPrims4 (e : Limbs) : ScalarBytesPrims prog G X fiatN4 encL fuelFiat fuelFiat e :=
  SMGo.Proofs.CTIRRefineScalar.scalarBytesPrims4 e

theorem scalarSetBytesPrims4 (old : List Nat) (hold : Out4 old) (v : Bytes) (hv : v.length = 32) :
    ScalarSetBytesPrims prog G X fiatN4 encL fuelFiat fuelFiat old v :=
  SMGo.Proofs.CTIRRefineScalar.scalarSetBytesPrims4 old hold v hv

theorem ir_ScalarSetBytes_fiat (old : List Nat) (hold : Out4 old) (v : Bytes) :
    (∀ e', Model.Field.scalarSetBytes fiatN4 v = .ok e' → ∀ f, fuelSetBytes fuelFiat fuelFiat ≤ f →
      runV prog globals X f f_fiat_SM2ScalarElement_SetBytes [elemV old, bytesV v]
        = .ret [elemV (encL e'), elemV (encL e'), .int 0]) ∧
    (Model.Field.scalarSetBytes fiatN4 v = .err → ∀ f, 404 ≤ f →
      runV prog globals X f f_fiat_SM2ScalarElement_SetBytes [elemV old, bytesV v]
        = .ret [elemV old, elemV [0, 0, 0, 0], .int 1]) ∧
    Model.Field.scalarSetBytes fiatN4 v ≠ .panic :=
  SMGo.Proofs.CTIRRefineScalar.ir_ScalarSetBytes_fiat old hold v

theorem ir_ScalarToBigInt_fiat_std (tape : Nat → Nat → Nat) (x : Limbs) :
    ∀ f, fuelToBigInt fuelFiat fuelFiat ≤ f →
      runV prog globals (stdOracle extKinds tape) f f_fiat_SM2ScalarElement_ToBigInt [elemV (encL x)]
        = .ret [.int ((Model.Field.toNat fiatN4 x : Nat) : Int)] :=
  SMGo.Proofs.CTIRRefineScalar.ir_ScalarToBigInt_fiat_std tape x

theorem ir_ScalarBytes_fiat (x : Limbs) :
    ∀ f, fuelBytes32 fuelFiat fuelFiat ≤ f →
      runV prog globals X f f_fiat_SM2ScalarElement_Bytes [elemV (encL x)]
        = .ret [bytesV (Model.Field.bytes fiatN4 x)] :=
  SMGo.Proofs.CTIRRefineScalar.ir_ScalarBytes_fiat x

/-- sm2ScalarFermatInvert_FiatAC = the generated addition chain `Gen.AddChain.scalarInverse` -/
theorem ir_scalarFermatInvert (henc : ∀ e, Out4 (encS e))
    (hsq : ∀ o a, Out4 o → Computes prog G X f_fiat_sm2ScalarSquare Fsq [limbsV o, limbsV (encS a)] [limbsV (encS (S.square a))])
    (hmul : ∀ o a b, Out4 o →
      Computes prog G X f_fiat_sm2ScalarMul Fmul [limbsV o, limbsV (encS a), limbsV (encS b)] [limbsV (encS (S.mul a b))])
    (hchain : S.chain = SMGo.Gen.AddChain.scalarInverse) (hregs : S.chainRegs = SMGo.Gen.AddChain.scalarInverse_regs)
    (z0 : List Nat) (hz0 : Out4 z0) (x : β) :
    ∀ f, fuelChainN Fsq Fmul ≤ f →
      runV prog G X f f_fiat_sm2ScalarFermatInvert_FiatAC [limbsV z0, limbsV (encS x)]
        = .ret [limbsV (encS (Model.Field.invert S x))] :=
  SMGo.Proofs.CTIRRefineScalarInv.ir_scalarFermatInvert henc hsq hmul hchain hregs z0 hz0 x

/-- (*SM2ScalarElement).Invert -/
theorem ir_scalarInvert (henc : ∀ e, Out4 (encS e))
    (hsq : ∀ o a, Out4 o → Computes prog G X f_fiat_sm2ScalarSquare Fsq [limbsV o, limbsV (encS a)] [limbsV (encS (S.square a))])
    (hmul : ∀ o a b, Out4 o →
      Computes prog G X f_fiat_sm2ScalarMul Fmul [limbsV o, limbsV (encS a), limbsV (encS b)] [limbsV (encS (S.mul a b))])
    (hchain : S.chain = SMGo.Gen.AddChain.scalarInverse) (hregs : S.chainRegs = SMGo.Gen.AddChain.scalarInverse_regs)
    (z0 : List Nat) (hz0 : Out4 z0) (x : β) :
    ∀ f, fuelScalarInvert Fsq Fmul ≤ f →
      runV prog G X f f_fiat_SM2ScalarElement_Invert [elemV z0, elemV (encS x)]
        = .ret [elemV (encS (Model.Field.invert S x)), elemV (encS (Model.Field.invert S x))] :=
  SMGo.Proofs.CTIRRefineScalarInv.ir_scalarInvert henc hsq hmul hchain hregs z0 hz0 x

theorem fuelChainN_eq (Fsq Fmul : Nat) : fuelChainN Fsq Fmul = 253 * Fsq + 41 * Fmul + 986 :=
  SMGo.Proofs.CTIRRefineScalarInv.fuelChainN_eq Fsq Fmul

end SMGo.Props.C13IR

namespace SMGo.Props.C13IR
open SMGo SMGo.Proofs SMGo.Model.CTIR SMGo.Gen.CTIRProg SMGo.Proofs.CTIRRefineUtils SMGo.Proofs.CTIRRefineField
open SMGo.Proofs.CTIRRefinePointB (ptV HasAffine prog_hasAffine toBigInt_computes fuelToBigInt)
open SMGo.Proofs.CTIRRefineSign (BigOk)
open SMGo.Proofs.CTIRRefineUnsafe
variable {α : Type} {G : Nat → Val} {X : Oracle} {enc : α → List Nat} {Fm Ft : Nat}

/-! ## GetAffineX_Unsafe, Bytes_Unsafe (SMGo/Proofs/CTIRRefineUnsafe.lean) -/

theorem ir_GetAffineX_Unsafe {C : Model.Point.Ctx α}
    (hB : ∀ e, BytesPrims prog G X C.F enc Fm Ft e) (hG2 : G 2 = bytesV (Model.Field.bytes C.F C.F.zero))
    (hG14 : G 14 = .int (C.F.modulus : Int)) (hO : InvOk X C.F.modulus) (p : Model.Point.Pt α) :
    ∀ f, fuelGetAffineXUnsafe Fm Ft ≤ f →
      runV prog G X f f_internal_SM2Point_GetAffineX_Unsafe [ptV enc p]
        = .ret [.int ((Model.Point.getAffineXUnsafe C p : Nat) : Int)] :=
  SMGo.Proofs.CTIRRefineUnsafe.ir_GetAffineX_Unsafe hB hG2 hG14 hO p

theorem ir_PointBytes_Unsafe {C : Model.Point.Ctx α}
    (hB : ∀ e, BytesPrims prog G X C.F enc Fm Ft e) (hG2 : G 2 = bytesV (Model.Field.bytes C.F C.F.zero))
    (hG14 : G 14 = .int (C.F.modulus : Int)) (hO : InvOk X C.F.modulus) (hY : BytesOk X)
    (hm0 : 0 < C.F.modulus) (hm256 : C.F.modulus ≤ 2 ^ 256) (p : Model.Point.Pt α) :
    ∀ f, fuelPointBytesUnsafe Fm Ft ≤ f →
      runV prog G X f f_internal_SM2Point_Bytes_Unsafe [ptV enc p] = .ret [bytesV (Model.Point.bytes C p false)] :=
  SMGo.Proofs.CTIRRefineUnsafe.ir_PointBytes_Unsafe hB hG2 hG14 hO hY hm0 hm256 p

theorem ir_GetAffineX_Unsafe_std {C : Model.Point.Ctx α} (tape : Nat → Nat → Nat)
    (hB : ∀ e, BytesPrims prog G (stdOracle extKinds tape) C.F enc Fm Ft e)
    (hG2 : G 2 = bytesV (Model.Field.bytes C.F C.F.zero)) (hG14 : G 14 = .int (C.F.modulus : Int))
    (p : Model.Point.Pt α) :
    ∀ f, fuelGetAffineXUnsafe Fm Ft ≤ f →
      runV prog G (stdOracle extKinds tape) f f_internal_SM2Point_GetAffineX_Unsafe [ptV enc p]
        = .ret [.int ((Model.Point.getAffineXUnsafe C p : Nat) : Int)] :=
  SMGo.Proofs.CTIRRefineUnsafe.ir_GetAffineX_Unsafe_std tape hB hG2 hG14 p

theorem ir_PointBytes_Unsafe_std {C : Model.Point.Ctx α} (tape : Nat → Nat → Nat)
    (hB : ∀ e, BytesPrims prog G (stdOracle extKinds tape) C.F enc Fm Ft e)
    (hG2 : G 2 = bytesV (Model.Field.bytes C.F C.F.zero)) (hG14 : G 14 = .int (C.F.modulus : Int))
    (hm0 : 0 < C.F.modulus) (hm256 : C.F.modulus ≤ 2 ^ 256) (p : Model.Point.Pt α) :
    ∀ f, fuelPointBytesUnsafe Fm Ft ≤ f →
      runV prog G (stdOracle extKinds tape) f f_internal_SM2Point_Bytes_Unsafe [ptV enc p]
        = .ret [bytesV (Model.Point.bytes C p false)] :=
  SMGo.Proofs.CTIRRefineUnsafe.ir_PointBytes_Unsafe_std tape hB hG2 hG14 hm0 hm256 p

/-- ModInverse of the oracle and `Spec.SM2.invMod` are the same function a^(m-2) mod m -/
theorem stdOracle_modInverse (tape : Nat → Nat → Nat) (a m : Nat) :
    stdOracle extKinds tape 5 [.int (a : Int), .int (m : Int)] = [.int ((Spec.SM2.invMod a m : Nat) : Int)] :=
  SMGo.Proofs.CTIRRefineUnsafe.stdOracle_modInverse tape a m

/-- the standard oracle satisfies `InvOk` for every modulus -/
theorem stdOracle_invOk (tape : Nat → Nat → Nat) (m : Nat) : InvOk (stdOracle extKinds tape) m :=
  SMGo.Proofs.CTIRRefineUnsafe.stdOracle_invOk tape m

theorem stdOracle_bytesOk (tape : Nat → Nat → Nat) : BytesOk (stdOracle extKinds tape) :=
  SMGo.Proofs.CTIRRefineUnsafe.stdOracle_bytesOk tape

end SMGo.Props.C13IR

namespace SMGo.Props.C13IR
open SMGo SMGo.Proofs SMGo.Model.CTIR SMGo.Gen.CTIRProgProto
open SMGo.Proofs.CTIRRefineUtils (bytesV)
open SMGo.Proofs.CTIRRefineZA
variable {α β : Type} {G : Nat → Val} {O : Oracle}

/-! ## ZA (extended program SMGo/Gen/CTIRProgProto.lean; SMGo/Proofs/CTIRRefineZA.lean) -/

/-- sm2.ZA = Model.SM2.za -/
theorem ir_ZA_eq_model (X : Model.SM2.Ctx α β)
    (hsm3 : ∀ ops, Model.SM3.run X.tt ops = Spec.SM3.runHistory ops)
    (hG : G 19 = bytesV X.zBytes) (hSum : ∀ m : Bytes, O 12 [bytesV m] = [bytesV (Spec.SM3.hash m)])
    (id pubx puby : Bytes) (hlen : id.length < 2 ^ 60) :
    match Model.SM2.za X id pubx puby with
    | .ok z => ∀ f, fuelZA ≤ f →
        runV prog G O f f_sm2_ZA [bytesV id, bytesV pubx, bytesV puby] = .ret [bytesV z, .int 0]
    | .err => ∀ f, fuelZA ≤ f →
        runV prog G O f f_sm2_ZA [bytesV id, bytesV pubx, bytesV puby] = .ret [.arr [], .int 1]
    | .panic => False :=
  SMGo.Proofs.CTIRRefineZA.ir_ZA_eq_model X hsm3 hG hSum id pubx puby hlen

/-- against the specification `Spec.SM2.za`, no model context -/
theorem ir_ZA_eq_spec
    (hG : G 19 = bytesV (Bytes.ofNatBE 32 Spec.SM2.a ++ Bytes.ofNatBE 32 Spec.SM2.b
      ++ Bytes.ofNatBE 32 Spec.SM2.Gx ++ Bytes.ofNatBE 32 Spec.SM2.Gy))
    (hSum : ∀ m : Bytes, O 12 [bytesV m] = [bytesV (Spec.SM3.hash m)])
    (id pubx puby : Bytes) (hlen : id.length < 2 ^ 60) :
    match Spec.SM2.za id pubx puby with
    | some z => ∀ f, fuelZA ≤ f →
        runV prog G O f f_sm2_ZA [bytesV id, bytesV pubx, bytesV puby] = .ret [bytesV z, .int 0]
    | none => ∀ f, fuelZA ≤ f →
        runV prog G O f f_sm2_ZA [bytesV id, bytesV pubx, bytesV puby] = .ret [.arr [], .int 1] :=
  SMGo.Proofs.CTIRRefineZA.ir_ZA_eq_spec hG hSum id pubx puby hlen

/-- at the generated globals with the oracle of the driver: no hypothesis but the Go bound on len(id) -/
theorem ir_ZA_closed (tape : Nat → Nat → Nat) (id pubx puby : Bytes) (hlen : id.length < 2 ^ 60) :
    match Spec.SM2.za id pubx puby with
    | some z => ∀ f, fuelZA ≤ f →
        runV prog globals (Model.CTIRProto.protoOracle tape) f f_sm2_ZA [bytesV id, bytesV pubx, bytesV puby]
          = .ret [bytesV z, .int 0]
    | none => ∀ f, fuelZA ≤ f →
        runV prog globals (Model.CTIRProto.protoOracle tape) f f_sm2_ZA [bytesV id, bytesV pubx, bytesV puby]
          = .ret [.arr [], .int 1] :=
  SMGo.Proofs.CTIRRefineZA.ir_ZA_closed tape id pubx puby hlen

theorem protoOracle_sum (tape : Nat → Nat → Nat) (m : Bytes) :
    Model.CTIRProto.protoOracle tape 12 [bytesV m] = [bytesV (Spec.SM3.hash m)] :=
  SMGo.Proofs.CTIRRefineZA.protoOracle_sum tape m

theorem globals_19 : globals 19 = bytesV (Bytes.ofNatBE Gen.SM2Params.zBytesLen Gen.SM2Params.zBytesVal) :=
  SMGo.Proofs.CTIRRefineZA.globals_19 

end SMGo.Props.C13IR

namespace SMGo.Props.C13IR
open SMGo SMGo.Proofs SMGo.Model.CTIR SMGo.Proofs.CTIRRefineUtils SMGo.Proofs.CTIRRefineField
open SMGo.Gen.CTIRProg (seqs)
open SMGo.Proofs.CTIRRefineComb (CalleeFails Fails nilPointV)
open SMGo.Proofs.CTIRRefinePointA (ptV ptRawV)
open SMGo.Gen.CTIRProgProto (fn_104 fn_105 fn_107)
open SMGo.Proofs.CTIRRefineVerify
variable {α β : Type} {P : Prog} {G : Nat → Val} {O : Oracle} {C : Model.Point.Ctx α} {X : Model.SM2.Ctx α β} {enc : α → List Nat}

/-! ## Sm2CheckOnCurve, (*SM2Point).SetBytes, VerifyHashed (SMGo/Proofs/CTIRRefineVerify.lean) -/

/-- Sm2CheckOnCurve = Model.Point.checkOnCurve -/
theorem ir_checkOnCurve {C : Model.Point.Ctx α} {Fmul Fsq Fadd Fsub Feq : Nat}
    (hel : ElemOps PX G O C.F enc Fmul Fsq Fadd Fsub Feq) (hB : G 6 = elemV (enc C.b)) (x y : α) :
    ∀ f, fuelCoc Fmul Fsq Fadd Fsub Feq ≤ f →
      runV PX G O f 105 [elemV (enc x), elemV (enc y)] = .ret [.int (if Model.Point.checkOnCurve C x y then 0 else 1)] :=
  SMGo.Proofs.CTIRRefineVerify.ir_checkOnCurve hel hB x y

/-- (*SM2Point).SetBytes = Model.Point.setBytes, every b -/
theorem ir_pointSetBytes {C : Model.Point.Ctx α} {Fnew Fpset Fsb Fcoc Fes Fone : Nat}
    (hc : PsbCallees PX G O C enc Fnew Fpset Fsb Fcoc Fes Fone) (qa qb qc : List Nat) (hqc : Out4 qc) (b : Bytes) :
    match Model.Point.setBytes C b with
    | .ok p => Computes PX G O 104 (fuelPsb Fnew Fpset Fsb Fcoc Fes Fone) [ptRawV qa qb qc, bytesV b] [ptV enc p, ptV enc p, .int 0]
    | .err => Computes PX G O 104 (fuelPsb Fnew Fpset Fsb Fcoc Fes Fone) [ptRawV qa qb qc, bytesV b]
        [ptRawV qa qb qc, .arr (List.replicate 3 (.arr (List.replicate 1 (.arr (List.replicate 4 (.int 0)))))), .int 1]
    | .panic => CalleeFails PX G O 104 [ptRawV qa qb qc, bytesV b] :=
  SMGo.Proofs.CTIRRefineVerify.ir_pointSetBytes hc qa qb qc hqc b

/-- the empty encoding: the error triple (before the translator fix of `&&` the strict IR was stuck here) -/
theorem pointSetBytes_nil (h104 : P[104]? = some fn_104) (hc : PsbCallees P G O C enc Fnew Fpset Fsb Fcoc Fes Fone)
    (qa qb qc : List Nat) (hqc : Out4 qc) :
    Model.Point.setBytes C [] = .err ∧
    Computes P G O 104 (fuelPsb Fnew Fpset Fsb Fcoc Fes Fone) [ptRawV qa qb qc, bytesV []]
      [ptRawV qa qb qc, .arr (List.replicate 3 (.arr (List.replicate 1 (.arr (List.replicate 4 (.int 0)))))), .int 1] :=
  SMGo.Proofs.CTIRRefineVerify.pointSetBytes_nil h104 hc qa qb qc hqc

/-- sm2.VerifyHashed = Model.SM2.verifyHashed -/
theorem ir_verifyHashed {X : Model.SM2.Ctx α β} {Fnew Fpsb Fens Fmm Fbu Fgu : Nat} (hO : ExtOk O)
    (hc : VerifyCallees PX G O X enc Fnew Fpsb Fens Fmm Fbu Fgu) (hone : G 18 = .int 1) (hn : G 16 = .int (X.n : Int))
    (pubx puby e r s : Bytes) :
    match Model.SM2.verifyHashed X pubx puby e r s with
    | .ok b => ∃ e' : Int, (e' = 0 ∨ e' = 1) ∧ (b = true → e' = 0) ∧
        ∀ f, fuelVerify Fnew Fpsb Fens Fmm Fbu Fgu ≤ f →
          runV PX G O f 107 [bytesV pubx, bytesV puby, bytesV e, bytesV r, bytesV s] = .ret [.int (if b then 1 else 0), .int e']
    | .err => False
    | .panic => (∃ F, ∀ f, F ≤ f → runV PX G O f 107 [bytesV pubx, bytesV puby, bytesV e, bytesV r, bytesV s] = .panic) ∨
        (∀ f, runV PX G O f 107 [bytesV pubx, bytesV puby, bytesV e, bytesV r, bytesV s] = .stuck) :=
  SMGo.Proofs.CTIRRefineVerify.ir_verifyHashed hO hc hone hn pubx puby e r s

theorem verifyHashed_ne_err (X : Model.SM2.Ctx α β) (pubx puby e r s : Bytes) :
    Model.SM2.verifyHashed X pubx puby e r s ≠ .err :=
  SMGo.Proofs.CTIRRefineVerify.verifyHashed_ne_err X pubx puby e r s

/-- the oracle of the driver satisfies the hypotheses on the externals -/
theorem protoOracle_ok (tape : Nat → Nat → Nat) : ExtOk (SMGo.Model.CTIRProto.protoOracle tape) :=
  SMGo.Proofs.CTIRRefineVerify.protoOracle_ok tape

end SMGo.Props.C13IR

namespace SMGo.Props.C13IR
open SMGo SMGo.Proofs SMGo.Model.CTIR SMGo.Gen.CTIRProg SMGo.Proofs.CTIRRefineUtils SMGo.Proofs.CTIRRefineField
open SMGo.Proofs.CTIRRefineClosed
open SMGo.Proofs.CTIRRefineFiat (fuelFiat)
open SMGo.Proofs.CTIRRefineComb (CalleeFails nilPointV)
open SMGo.Proofs.CTIRRefinePointB (ptV)
open SMGo.Proofs.CTIRRefineScalar (fiatN4)
open SMGo.Proofs.CTIRRefineEntry
open SMGo.Model.SM2 (ctxFiat Script avail)
open SMGo.Proofs.CTIRRefineSign (Callees BigOk ReaderOk Globals fuelSign)
open SMGo.Proofs.CTIRRefineKeys (fuelDerive fuelGen readerOracle)
variable {O : Oracle}

/-! ## CLOSED: DerivePublic, GenerateKey, SignHashed on the generated program and globals, against the model over the generated
   Fiat functions — `ctx4` (carrier `Limbs`) and, the entry points returning byte strings, `Model.SM2.ctxFiat` itself
   (SMGo/Proofs/CTIRRefineEntry.lean).  No hypothesis about the code; the `_std` variants: no hypothesis about the oracle either -/

/-- the callee bundle of SignHashed is a theorem (ScalarBaseMult, GetAffineX, scalar SetBytes / Invert / ToBigInt) -/
theorem callees4 {O : Oracle} (h7 : ∀ b : Bytes, O 7 [bytesV b] = [.int ((Bytes.toNatBE b : Nat) : Int)])
    (hE : ∀ args : List Val, ∃ v, O 10 args = [v]) :
    Callees prog globals O ctx4 encL encL fuelSbm fuelGax fuelSsb fuelSinv fuelStb :=
  SMGo.Proofs.CTIRRefineEntry.callees4 h7 hE

theorem globals4 : Globals globals ctx4 :=
  SMGo.Proofs.CTIRRefineEntry.globals4 

/-- an accepted private key d has d+1 ≤ n−1: the ignored SetBytes error of SignHashed cannot occur -/
theorem hne4 (priv : Bytes) (h : Model.SM2.testPrivateKey ctx4 priv = .ok 0) :
    Model.Field.scalarSetBytes ctx4.S (Bytes.ofNatBE 32 (Bytes.toNatBE priv + 1)) ≠ .err :=
  SMGo.Proofs.CTIRRefineEntry.hne4 priv h

theorem ir_derivePublic_fiat {O : Oracle} (hE : ∀ args : List Val, ∃ v, O 10 args = [v]) (priv : Bytes) :
    match Model.SM2.derivePublic ctx4 priv with
    | .ok (x, y) => ∀ f, 2528847 ≤ f →
        runV prog globals O f f_sm2_DerivePublic [bytesV priv] = .ret [bytesV x, bytesV y, .int 0]
    | .err => ∀ f, 2528847 ≤ f →
        runV prog globals O f f_sm2_DerivePublic [bytesV priv] = .ret [.arr [], .arr [], .int 1]
    | .panic =>
        (∃ F, ∀ f, F ≤ f → runV prog globals O f f_sm2_DerivePublic [bytesV priv] = .panic) ∨
        (∀ f, runV prog globals O f f_sm2_DerivePublic [bytesV priv] = .stuck) :=
  SMGo.Proofs.CTIRRefineEntry.ir_derivePublic_fiat hE priv

theorem ir_generateKey_fiat (base : Oracle) (hE : ∀ args : List Val, ∃ v, base 10 args = [v]) (s : Script)
    (r : Int) (hr : r ≠ 0) :
    match Model.SM2.generateKey ctx4 (some s) with
    | .ok ((priv, x, y), _) => ∀ f, fuelGen (avail s / 32 + 1) fuelSbm fuelPBytes ≤ f →
        runV prog globals (readerOracle base s) f f_sm2_GenerateKey [.int r] = .ret [bytesV priv, bytesV x, bytesV y, .int 0]
    | .err => ∃ v, ∀ f, fuelGen (avail s / 32 + 1) fuelSbm fuelPBytes ≤ f →
        runV prog globals (readerOracle base s) f f_sm2_GenerateKey [.int r] = .ret [v, .arr [], .arr [], .int 1]
    | .panic =>
        (∃ F, ∀ f, F ≤ f → runV prog globals (readerOracle base s) f f_sm2_GenerateKey [.int r] = .panic) ∨
        (∀ f, runV prog globals (readerOracle base s) f f_sm2_GenerateKey [.int r] = .stuck) :=
  SMGo.Proofs.CTIRRefineEntry.ir_generateKey_fiat base hE s r hr

theorem ir_generateKey_nil_fiat {G : Nat → Val} {O : Oracle} :
    Model.SM2.generateKey ctx4 none = .err ∧
    ∀ f, 20 ≤ f → runV prog G O f f_sm2_GenerateKey [.int 0] = .ret [.arr [], .arr [], .arr [], .int 1] :=
  SMGo.Proofs.CTIRRefineEntry.ir_generateKey_nil_fiat 

theorem ir_signHashed_fiat {O : Oracle} (hB : BigOk O) {rd : Val} {sc : Nat → Script} (hR : ReaderOk O rd sc)
    {priv e : Bytes} (hlen : priv.length < 2 ^ 63) :
    match Model.SM2.signHashed ctx4 (sc 0) priv e with
    | .ok ((r, s), _) => ∀ f, fuelSign4 (avail (sc 0)) ≤ f →
        runV prog globals O f f_sm2_SignHashed [rd, bytesV priv, bytesV e] = .ret [bytesV r, bytesV s, .int 0]
    | .err => ∃ code : Int, code ≠ 0 ∧ ∀ f, fuelSign4 (avail (sc 0)) ≤ f →
        runV prog globals O f f_sm2_SignHashed [rd, bytesV priv, bytesV e] = .ret [bytesV [], bytesV [], .int code]
    | .panic => (∃ F, ∀ f, F ≤ f → runV prog globals O f f_sm2_SignHashed [rd, bytesV priv, bytesV e] = .panic) ∨
        (∀ f, runV prog globals O f f_sm2_SignHashed [rd, bytesV priv, bytesV e] = .stuck) :=
  SMGo.Proofs.CTIRRefineEntry.ir_signHashed_fiat hB hR hlen

theorem ir_signHashed_fiat_std (tape : Nat → Nat → Nat) (s : Script) (rd : Val) {priv e : Bytes} (hlen : priv.length < 2 ^ 63) :
    match Model.SM2.signHashed ctx4 s priv e with
    | .ok ((r, sg), _) => ∀ f, fuelSign4 (avail s) ≤ f →
        runV prog globals (CTIRRefineSign.readerOracle (stdOracle extKinds tape) s) f f_sm2_SignHashed [rd, bytesV priv, bytesV e]
          = .ret [bytesV r, bytesV sg, .int 0]
    | .err => ∃ code : Int, code ≠ 0 ∧ ∀ f, fuelSign4 (avail s) ≤ f →
        runV prog globals (CTIRRefineSign.readerOracle (stdOracle extKinds tape) s) f f_sm2_SignHashed [rd, bytesV priv, bytesV e]
          = .ret [bytesV [], bytesV [], .int code]
    | .panic => (∃ F, ∀ f, F ≤ f →
          runV prog globals (CTIRRefineSign.readerOracle (stdOracle extKinds tape) s) f f_sm2_SignHashed [rd, bytesV priv, bytesV e] = .panic) ∨
        (∀ f, runV prog globals (CTIRRefineSign.readerOracle (stdOracle extKinds tape) s) f f_sm2_SignHashed [rd, bytesV priv, bytesV e] = .stuck) :=
  SMGo.Proofs.CTIRRefineEntry.ir_signHashed_fiat_std tape s rd hlen

/-- the model over well-formed limbs and the audited model instance agree -/
theorem derivePublic_ctx4 (priv : Bytes) : Model.SM2.derivePublic ctx4 priv = Model.SM2.derivePublic ctxFiat priv :=
  SMGo.Proofs.CTIRRefineEntry.derivePublic_ctx4 priv

theorem generateKey_ctx4 (rand : Option Script) : Model.SM2.generateKey ctx4 rand = Model.SM2.generateKey ctxFiat rand :=
  SMGo.Proofs.CTIRRefineEntry.generateKey_ctx4 rand

theorem signHashed_ctx4 (sc : Script) (priv e : Bytes) :
    Model.SM2.signHashed ctx4 sc priv e = Model.SM2.signHashed ctxFiat sc priv e :=
  SMGo.Proofs.CTIRRefineEntry.signHashed_ctx4 sc priv e

/-- DerivePublic of the generated program = Model.SM2.derivePublic Model.SM2.ctxFiat -/
theorem ir_derivePublic_ctxFiat {O : Oracle} (hE : ∀ args : List Val, ∃ v, O 10 args = [v]) (priv : Bytes) :
    match Model.SM2.derivePublic ctxFiat priv with
    | .ok (x, y) => ∀ f, 2528847 ≤ f →
        runV prog globals O f f_sm2_DerivePublic [bytesV priv] = .ret [bytesV x, bytesV y, .int 0]
    | .err => ∀ f, 2528847 ≤ f →
        runV prog globals O f f_sm2_DerivePublic [bytesV priv] = .ret [.arr [], .arr [], .int 1]
    | .panic =>
        (∃ F, ∀ f, F ≤ f → runV prog globals O f f_sm2_DerivePublic [bytesV priv] = .panic) ∨
        (∀ f, runV prog globals O f f_sm2_DerivePublic [bytesV priv] = .stuck) :=
  SMGo.Proofs.CTIRRefineEntry.ir_derivePublic_ctxFiat hE priv

theorem ir_derivePublic_ctxFiat_std (tape : Nat → Nat → Nat) (priv : Bytes) :
    match Model.SM2.derivePublic ctxFiat priv with
    | .ok (x, y) => ∀ f, 2528847 ≤ f →
        runV prog globals (stdOracle extKinds tape) f f_sm2_DerivePublic [bytesV priv] = .ret [bytesV x, bytesV y, .int 0]
    | .err => ∀ f, 2528847 ≤ f →
        runV prog globals (stdOracle extKinds tape) f f_sm2_DerivePublic [bytesV priv] = .ret [.arr [], .arr [], .int 1]
    | .panic =>
        (∃ F, ∀ f, F ≤ f → runV prog globals (stdOracle extKinds tape) f f_sm2_DerivePublic [bytesV priv] = .panic) ∨
        (∀ f, runV prog globals (stdOracle extKinds tape) f f_sm2_DerivePublic [bytesV priv] = .stuck) :=
  SMGo.Proofs.CTIRRefineEntry.ir_derivePublic_ctxFiat_std tape priv

theorem ir_generateKey_ctxFiat (base : Oracle) (hE : ∀ args : List Val, ∃ v, base 10 args = [v]) (s : Script)
    (r : Int) (hr : r ≠ 0) :
    match Model.SM2.generateKey ctxFiat (some s) with
    | .ok ((priv, x, y), _) => ∀ f, (avail s / 32 + 1) * 640 + 2528869 ≤ f →
        runV prog globals (CTIRRefineKeys.readerOracle base s) f f_sm2_GenerateKey [.int r]
          = .ret [bytesV priv, bytesV x, bytesV y, .int 0]
    | .err => ∃ v, ∀ f, (avail s / 32 + 1) * 640 + 2528869 ≤ f →
        runV prog globals (CTIRRefineKeys.readerOracle base s) f f_sm2_GenerateKey [.int r] = .ret [v, .arr [], .arr [], .int 1]
    | .panic =>
        (∃ F, ∀ f, F ≤ f → runV prog globals (CTIRRefineKeys.readerOracle base s) f f_sm2_GenerateKey [.int r] = .panic) ∨
        (∀ f, runV prog globals (CTIRRefineKeys.readerOracle base s) f f_sm2_GenerateKey [.int r] = .stuck) :=
  SMGo.Proofs.CTIRRefineEntry.ir_generateKey_ctxFiat base hE s r hr

theorem ir_generateKey_ctxFiat_std (tape : Nat → Nat → Nat) (s : Script) (r : Int) (hr : r ≠ 0) :
    match Model.SM2.generateKey ctxFiat (some s) with
    | .ok ((priv, x, y), _) => ∀ f, (avail s / 32 + 1) * 640 + 2528869 ≤ f →
        runV prog globals (CTIRRefineKeys.readerOracle (stdOracle extKinds tape) s) f f_sm2_GenerateKey [.int r]
          = .ret [bytesV priv, bytesV x, bytesV y, .int 0]
    | .err => ∃ v, ∀ f, (avail s / 32 + 1) * 640 + 2528869 ≤ f →
        runV prog globals (CTIRRefineKeys.readerOracle (stdOracle extKinds tape) s) f f_sm2_GenerateKey [.int r]
          = .ret [v, .arr [], .arr [], .int 1]
    | .panic =>
        (∃ F, ∀ f, F ≤ f →
          runV prog globals (CTIRRefineKeys.readerOracle (stdOracle extKinds tape) s) f f_sm2_GenerateKey [.int r] = .panic) ∨
        (∀ f, runV prog globals (CTIRRefineKeys.readerOracle (stdOracle extKinds tape) s) f f_sm2_GenerateKey [.int r] = .stuck) :=
  SMGo.Proofs.CTIRRefineEntry.ir_generateKey_ctxFiat_std tape s r hr

theorem ir_generateKey_nil_ctxFiat {G : Nat → Val} {O : Oracle} :
    Model.SM2.generateKey ctxFiat none = .err ∧
    ∀ f, 20 ≤ f → runV prog G O f f_sm2_GenerateKey [.int 0] = .ret [.arr [], .arr [], .arr [], .int 1] :=
  SMGo.Proofs.CTIRRefineEntry.ir_generateKey_nil_ctxFiat 

/-- SignHashed of the generated program = Model.SM2.signHashed Model.SM2.ctxFiat -/
theorem ir_signHashed_ctxFiat {O : Oracle} (hB : BigOk O) {rd : Val} {sc : Nat → Script} (hR : ReaderOk O rd sc)
    {priv e : Bytes} (hlen : priv.length < 2 ^ 63) :
    match Model.SM2.signHashed ctxFiat (sc 0) priv e with
    | .ok ((r, s), _) => ∀ f, fuelSign4 (avail (sc 0)) ≤ f →
        runV prog globals O f f_sm2_SignHashed [rd, bytesV priv, bytesV e] = .ret [bytesV r, bytesV s, .int 0]
    | .err => ∃ code : Int, code ≠ 0 ∧ ∀ f, fuelSign4 (avail (sc 0)) ≤ f →
        runV prog globals O f f_sm2_SignHashed [rd, bytesV priv, bytesV e] = .ret [bytesV [], bytesV [], .int code]
    | .panic => (∃ F, ∀ f, F ≤ f → runV prog globals O f f_sm2_SignHashed [rd, bytesV priv, bytesV e] = .panic) ∨
        (∀ f, runV prog globals O f f_sm2_SignHashed [rd, bytesV priv, bytesV e] = .stuck) :=
  SMGo.Proofs.CTIRRefineEntry.ir_signHashed_ctxFiat hB hR hlen

/-- with the standard oracle and a scripted reader: no hypothesis but the Go bound on len(priv) -/
theorem ir_signHashed_ctxFiat_std (tape : Nat → Nat → Nat) (s : Script) (rd : Val) {priv e : Bytes}
    (hlen : priv.length < 2 ^ 63) :
    match Model.SM2.signHashed ctxFiat s priv e with
    | .ok ((r, sg), _) => ∀ f, fuelSign4 (avail s) ≤ f →
        runV prog globals (CTIRRefineSign.readerOracle (stdOracle extKinds tape) s) f f_sm2_SignHashed [rd, bytesV priv, bytesV e]
          = .ret [bytesV r, bytesV sg, .int 0]
    | .err => ∃ code : Int, code ≠ 0 ∧ ∀ f, fuelSign4 (avail s) ≤ f →
        runV prog globals (CTIRRefineSign.readerOracle (stdOracle extKinds tape) s) f f_sm2_SignHashed [rd, bytesV priv, bytesV e]
          = .ret [bytesV [], bytesV [], .int code]
    | .panic => (∃ F, ∀ f, F ≤ f →
          runV prog globals (CTIRRefineSign.readerOracle (stdOracle extKinds tape) s) f f_sm2_SignHashed [rd, bytesV priv, bytesV e] = .panic) ∨
        (∀ f, runV prog globals (CTIRRefineSign.readerOracle (stdOracle extKinds tape) s) f f_sm2_SignHashed [rd, bytesV priv, bytesV e] = .stuck) :=
  SMGo.Proofs.CTIRRefineEntry.ir_signHashed_ctxFiat_std tape s rd hlen

theorem fuelSign4_eq (a : Nat) : fuelSign4 a = 2797095 * (a / 32 + 1) + 623 :=
  SMGo.Proofs.CTIRRefineEntry.fuelSign4_eq a

theorem fuelGen_fiat (n : Nat) : fuelGen n fuelSbm fuelPBytes = n * 640 + 2528869 :=
  SMGo.Proofs.CTIRRefineEntry.fuelGen_fiat n

theorem fuelDerive_fiat : fuelDerive fuelSbm fuelPBytes = 2528847 :=
  SMGo.Proofs.CTIRRefineEntry.fuelDerive_fiat 

end SMGo.Props.C13IR

namespace SMGo.Props.C13IR
open SMGo SMGo.Proofs SMGo.Model.CTIR SMGo.Gen.CTIRProg SMGo.Proofs.CTIRRefineUtils SMGo.Proofs.CTIRRefineField
open SMGo.Proofs.CTIRRefineClosed SMGo.Proofs.CTIRRefineEntry
open SMGo.Proofs.CTIRRefineFiat (fuelFiat)
open SMGo.Proofs.CTIRRefineComb (CalleeFails nilPointV)
open SMGo.Proofs.CTIRRefinePointA (ptRawV fuelW fuelPtAdd fuelPtDouble)
open SMGo.Proofs.CTIRRefineVerify (ExtOk ElemOps PsbCallees VerifyCallees fuelCoc fuelPsb fuelVerify)
open SMGo.Proofs.CTIRRefineSign (BigOk)
open SMGo.Proofs.CTIRRefineUnsafe (InvOk BytesOk)
open SMGo.Proofs.CTIRRefineRename (computes_proto_of_prog)
open SMGo.Proofs.FiatCompose (ORel scalarMixedMult_rel)
open SMGo.Model.SM2 (ctxFiat fiatP pointCtxFiat)
open SMGo.Proofs.CTIRRefineVerify (mFin mMM mSet)
open SMGo.Model.SM2 (ctxFiat)
open SMGo.Proofs.CTIRRefineEntryProto
variable {O : Oracle} {G : Nat → Val}

/-! ## CLOSED: VerifyHashed and ZA on the extended generated program `CTIRProgProto.prog` and its globals, against
   `Model.SM2.verifyHashed` / `za` over the generated Fiat functions (`ctx4`, and `Model.SM2.ctxFiat` itself).
   (SMGo/Proofs/CTIRRefineEntryProto.lean.)  `_proto` variants: the oracle of the driver, no hypothesis -/

/-- the oracle of the driver satisfies every hypothesis on the externals -/
theorem protoOracle_oracleOk (tape : Nat → Nat → Nat) : OracleOk (Model.CTIRProto.protoOracle tape) :=
  SMGo.Proofs.CTIRRefineEntryProto.protoOracle_oracleOk tape

/-- the callee bundle of VerifyHashed is a theorem -/
theorem verifyCallees4 (hO : OracleOk O) :
    VerifyCallees PX GP O ctx4 encL (fuelNew fuelFiat)
      (fuelPsb (fuelNew fuelFiat) 26 fuelEsb (fuelCoc (fuelW fuelFiat) (fuelW fuelFiat) (fuelW fuelFiat) (fuelW fuelFiat) fuelEq)
        4 (fuelW fuelFiat))
      CTIRRefineSign.fuelEns fuelMm fuelBu fuelGu :=
  SMGo.Proofs.CTIRRefineEntryProto.verifyCallees4 hO

theorem ir_verifyHashed_fiat {O : Oracle} (hO : OracleOk O) (pubx puby e r s : Bytes) :
    match Model.SM2.verifyHashed ctx4 pubx puby e r s with
    | .ok b => ∃ e' : Int, (e' = 0 ∨ e' = 1) ∧ (b = true → e' = 0) ∧
        ∀ f, fuelVerify4 ≤ f →
          runV PX GP O f 107 [bytesV pubx, bytesV puby, bytesV e, bytesV r, bytesV s] = .ret [.int (if b then 1 else 0), .int e']
    | .err => False
    | .panic => (∃ F, ∀ f, F ≤ f → runV PX GP O f 107 [bytesV pubx, bytesV puby, bytesV e, bytesV r, bytesV s] = .panic) ∨
        (∀ f, runV PX GP O f 107 [bytesV pubx, bytesV puby, bytesV e, bytesV r, bytesV s] = .stuck) :=
  SMGo.Proofs.CTIRRefineEntryProto.ir_verifyHashed_fiat hO pubx puby e r s

theorem ir_verifyHashed_fiat_proto (tape : Nat → Nat → Nat) (pubx puby e r s : Bytes) :
    match Model.SM2.verifyHashed ctx4 pubx puby e r s with
    | .ok b => ∃ e' : Int, (e' = 0 ∨ e' = 1) ∧ (b = true → e' = 0) ∧
        ∀ f, fuelVerify4 ≤ f →
          runV PX GP (Model.CTIRProto.protoOracle tape) f 107 [bytesV pubx, bytesV puby, bytesV e, bytesV r, bytesV s]
            = .ret [.int (if b then 1 else 0), .int e']
    | .err => False
    | .panic => (∃ F, ∀ f, F ≤ f →
          runV PX GP (Model.CTIRProto.protoOracle tape) f 107 [bytesV pubx, bytesV puby, bytesV e, bytesV r, bytesV s] = .panic) ∨
        (∀ f, runV PX GP (Model.CTIRProto.protoOracle tape) f 107 [bytesV pubx, bytesV puby, bytesV e, bytesV r, bytesV s] = .stuck) :=
  SMGo.Proofs.CTIRRefineEntryProto.ir_verifyHashed_fiat_proto tape pubx puby e r s

theorem fuelVerify4_eq : fuelVerify4 = 49926307 :=
  SMGo.Proofs.CTIRRefineEntryProto.fuelVerify4_eq 

/-- the model over well-formed limbs and the audited model instance agree -/
theorem verifyHashed_ctx4 (pubx puby e r s : Bytes) :
    Model.SM2.verifyHashed ctx4 pubx puby e r s = Model.SM2.verifyHashed ctxFiat pubx puby e r s :=
  SMGo.Proofs.CTIRRefineEntryProto.verifyHashed_ctx4 pubx puby e r s

/-- VerifyHashed of the generated program = Model.SM2.verifyHashed Model.SM2.ctxFiat -/
theorem ir_verifyHashed_ctxFiat {O : Oracle} (hO : OracleOk O) (pubx puby e r s : Bytes) :
    match Model.SM2.verifyHashed ctxFiat pubx puby e r s with
    | .ok b => ∃ e' : Int, (e' = 0 ∨ e' = 1) ∧ (b = true → e' = 0) ∧
        ∀ f, fuelVerify4 ≤ f →
          runV PX GP O f 107 [bytesV pubx, bytesV puby, bytesV e, bytesV r, bytesV s] = .ret [.int (if b then 1 else 0), .int e']
    | .err => False
    | .panic => (∃ F, ∀ f, F ≤ f → runV PX GP O f 107 [bytesV pubx, bytesV puby, bytesV e, bytesV r, bytesV s] = .panic) ∨
        (∀ f, runV PX GP O f 107 [bytesV pubx, bytesV puby, bytesV e, bytesV r, bytesV s] = .stuck) :=
  SMGo.Proofs.CTIRRefineEntryProto.ir_verifyHashed_ctxFiat hO pubx puby e r s

/-- no hypothesis -/
theorem ir_verifyHashed_ctxFiat_proto (tape : Nat → Nat → Nat) (pubx puby e r s : Bytes) :
    match Model.SM2.verifyHashed ctxFiat pubx puby e r s with
    | .ok b => ∃ e' : Int, (e' = 0 ∨ e' = 1) ∧ (b = true → e' = 0) ∧
        ∀ f, fuelVerify4 ≤ f →
          runV PX GP (Model.CTIRProto.protoOracle tape) f 107 [bytesV pubx, bytesV puby, bytesV e, bytesV r, bytesV s]
            = .ret [.int (if b then 1 else 0), .int e']
    | .err => False
    | .panic => (∃ F, ∀ f, F ≤ f →
          runV PX GP (Model.CTIRProto.protoOracle tape) f 107 [bytesV pubx, bytesV puby, bytesV e, bytesV r, bytesV s] = .panic) ∨
        (∀ f, runV PX GP (Model.CTIRProto.protoOracle tape) f 107 [bytesV pubx, bytesV puby, bytesV e, bytesV r, bytesV s] = .stuck) :=
  SMGo.Proofs.CTIRRefineEntryProto.ir_verifyHashed_ctxFiat_proto tape pubx puby e r s

theorem ir_ZA_fiat {O : Oracle} (hSum : ∀ m : Bytes, O 12 [bytesV m] = [bytesV (Spec.SM3.hash m)])
    (id pubx puby : Bytes) (hlen : id.length < 2 ^ 60) :
    match Model.SM2.za ctx4 id pubx puby with
    | .ok z => ∀ f, CTIRRefineZA.fuelZA ≤ f →
        runV PX GP O f 106 [bytesV id, bytesV pubx, bytesV puby] = .ret [bytesV z, .int 0]
    | .err => ∀ f, CTIRRefineZA.fuelZA ≤ f →
        runV PX GP O f 106 [bytesV id, bytesV pubx, bytesV puby] = .ret [.arr [], .int 1]
    | .panic => False :=
  SMGo.Proofs.CTIRRefineEntryProto.ir_ZA_fiat hSum id pubx puby hlen

theorem ir_ZA_ctxFiat {O : Oracle} (hSum : ∀ m : Bytes, O 12 [bytesV m] = [bytesV (Spec.SM3.hash m)])
    (id pubx puby : Bytes) (hlen : id.length < 2 ^ 60) :
    match Model.SM2.za ctxFiat id pubx puby with
    | .ok z => ∀ f, CTIRRefineZA.fuelZA ≤ f →
        runV PX GP O f 106 [bytesV id, bytesV pubx, bytesV puby] = .ret [bytesV z, .int 0]
    | .err => ∀ f, CTIRRefineZA.fuelZA ≤ f →
        runV PX GP O f 106 [bytesV id, bytesV pubx, bytesV puby] = .ret [.arr [], .int 1]
    | .panic => False :=
  SMGo.Proofs.CTIRRefineEntryProto.ir_ZA_ctxFiat hSum id pubx puby hlen

theorem ir_ZA_ctxFiat_proto (tape : Nat → Nat → Nat) (id pubx puby : Bytes) (hlen : id.length < 2 ^ 60) :
    match Model.SM2.za ctxFiat id pubx puby with
    | .ok z => ∀ f, CTIRRefineZA.fuelZA ≤ f →
        runV PX GP (Model.CTIRProto.protoOracle tape) f 106 [bytesV id, bytesV pubx, bytesV puby] = .ret [bytesV z, .int 0]
    | .err => ∀ f, CTIRRefineZA.fuelZA ≤ f →
        runV PX GP (Model.CTIRProto.protoOracle tape) f 106 [bytesV id, bytesV pubx, bytesV puby] = .ret [.arr [], .int 1]
    | .panic => False :=
  SMGo.Proofs.CTIRRefineEntryProto.ir_ZA_ctxFiat_proto tape id pubx puby hlen

end SMGo.Props.C13IR

namespace SMGo.Props.C13IR
open SMGo SMGo.Proofs SMGo.Model.CTIR SMGo.Gen.CTIRProg SMGo.Proofs.CTIRRefineUtils SMGo.Proofs.CTIRRefineField
open SMGo.Proofs.CTIRRefineClosed SMGo.Proofs.CTIRRefineEntry SMGo.Proofs.CTIRRefineEntryProto
open SMGo.Proofs.CTIRRefineComb (CalleeFails Fails nilPointV)
open SMGo.Proofs.CTIRRefineVerify (Ends)
open SMGo.Proofs.CTIRRefineRename (Renames renF)
open SMGo.Gen.CTIRProgProto (fn_108 fn_109 fn_110 fn_111 fn_112)
open SMGo.Gen.CTIRProgProto (fn_108 fn_110 fn_112)
open SMGo.Gen.CTIRProgProto (fn_108)
open SMGo.Proofs.CTIRRefinePointA (mkE evalV_mkE)
open SMGo.Model.SM2 (ctxFiat Script avail)
open SMGo.Proofs.CTIRRefineSign (BigOk ReaderOk)
open SMGo.Model.SM2 (ctxFiat Script avail)
open SMGo.Proofs.CTIRRefineSign (BigOk ReaderOk)
open SMGo.Model.SM2 (pointCtxFiat ctxFiat)
open SMGo.Proofs.CTIRRefineEntryProto2
variable {O : Oracle} {G : Nat → Val}

/-! ## CLOSED: Sign, SignZa, Verify, VerifyZa, CheckOnCurve (functions 108–112 of the extended program) against the model
   functions on `Model.SM2.ctxFiat` (SMGo/Proofs/CTIRRefineEntryProto2.lean); with them every exported function of sm2.go
   is covered.  `_proto`: the oracle of the driver (with a scripted reader for the signing functions) -/

/-- sm2.CheckOnCurve = Model.SM2.checkOnCurve ctxFiat: any oracle, no hypothesis -/
theorem ir_checkOnCurve_ctxFiat_proto {O : Oracle} (x y : Bytes) :
    ∀ f, fuelCheck ≤ f →
      runV PX GP O f 108 [bytesV x, bytesV y] = .ret [.int (if Model.SM2.checkOnCurve ctxFiat x y then 1 else 0)] :=
  SMGo.Proofs.CTIRRefineEntryProto2.ir_checkOnCurve_ctxFiat_proto x y

theorem fuelCheck_eq : fuelCheck = 15177 :=
  SMGo.Proofs.CTIRRefineEntryProto2.fuelCheck_eq 

theorem ir_verifyZa_ctxFiat {O : Oracle} (hO : OracleOk O) (hSum : ∀ m : Bytes, O 12 [bytesV m] = [bytesV (Spec.SM3.hash m)])
    (pubx puby za msg r s : Bytes) :
    match Model.SM2.verifyZa ctxFiat pubx puby za msg r s with
    | .ok b => ∃ e' : Int, (e' = 0 ∨ e' = 1) ∧ (b = true → e' = 0) ∧
        ∀ f, fuelVerify4 + 30 ≤ f →
          runV PX GP O f 111 [bytesV pubx, bytesV puby, bytesV za, bytesV msg, bytesV r, bytesV s]
            = .ret [.int (if b then 1 else 0), .int e']
    | .err => False
    | .panic => (∃ F, ∀ f, F ≤ f →
          runV PX GP O f 111 [bytesV pubx, bytesV puby, bytesV za, bytesV msg, bytesV r, bytesV s] = .panic) ∨
        (∀ f, runV PX GP O f 111 [bytesV pubx, bytesV puby, bytesV za, bytesV msg, bytesV r, bytesV s] = .stuck) :=
  SMGo.Proofs.CTIRRefineEntryProto2.ir_verifyZa_ctxFiat hO hSum pubx puby za msg r s

/-- sm2.VerifyZa -/
theorem ir_verifyZa_ctxFiat_proto (tape : Nat → Nat → Nat) (pubx puby za msg r s : Bytes) :
    match Model.SM2.verifyZa ctxFiat pubx puby za msg r s with
    | .ok b => ∃ e' : Int, (e' = 0 ∨ e' = 1) ∧ (b = true → e' = 0) ∧
        ∀ f, fuelVerify4 + 30 ≤ f →
          runV PX GP (Model.CTIRProto.protoOracle tape) f 111 [bytesV pubx, bytesV puby, bytesV za, bytesV msg, bytesV r, bytesV s]
            = .ret [.int (if b then 1 else 0), .int e']
    | .err => False
    | .panic => (∃ F, ∀ f, F ≤ f →
          runV PX GP (Model.CTIRProto.protoOracle tape) f 111 [bytesV pubx, bytesV puby, bytesV za, bytesV msg, bytesV r, bytesV s] = .panic) ∨
        (∀ f, runV PX GP (Model.CTIRProto.protoOracle tape) f 111 [bytesV pubx, bytesV puby, bytesV za, bytesV msg, bytesV r, bytesV s] = .stuck) :=
  SMGo.Proofs.CTIRRefineEntryProto2.ir_verifyZa_ctxFiat_proto tape pubx puby za msg r s

theorem ir_verify_ctxFiat {O : Oracle} (hO : OracleOk O) (hSum : ∀ m : Bytes, O 12 [bytesV m] = [bytesV (Spec.SM3.hash m)])
    (idb pubx puby msg r s : Bytes) (hid : idb.length < 2 ^ 60) :
    match Model.SM2.verify ctxFiat idb pubx puby msg r s with
    | .ok b => ∃ e' : Int, (e' = 0 ∨ e' = 1) ∧ (b = true → e' = 0) ∧
        ∀ f, fuelVerify4 + 100 ≤ f →
          runV PX GP O f 112 [bytesV idb, bytesV pubx, bytesV puby, bytesV msg, bytesV r, bytesV s]
            = .ret [.int (if b then 1 else 0), .int e']
    | .err => False
    | .panic => (∃ F, ∀ f, F ≤ f →
          runV PX GP O f 112 [bytesV idb, bytesV pubx, bytesV puby, bytesV msg, bytesV r, bytesV s] = .panic) ∨
        (∀ f, runV PX GP O f 112 [bytesV idb, bytesV pubx, bytesV puby, bytesV msg, bytesV r, bytesV s] = .stuck) :=
  SMGo.Proofs.CTIRRefineEntryProto2.ir_verify_ctxFiat hO hSum idb pubx puby msg r s hid

/-- sm2.Verify -/
theorem ir_verify_ctxFiat_proto (tape : Nat → Nat → Nat) (idb pubx puby msg r s : Bytes) (hid : idb.length < 2 ^ 60) :
    match Model.SM2.verify ctxFiat idb pubx puby msg r s with
    | .ok b => ∃ e' : Int, (e' = 0 ∨ e' = 1) ∧ (b = true → e' = 0) ∧
        ∀ f, fuelVerify4 + 100 ≤ f →
          runV PX GP (Model.CTIRProto.protoOracle tape) f 112 [bytesV idb, bytesV pubx, bytesV puby, bytesV msg, bytesV r, bytesV s]
            = .ret [.int (if b then 1 else 0), .int e']
    | .err => False
    | .panic => (∃ F, ∀ f, F ≤ f →
          runV PX GP (Model.CTIRProto.protoOracle tape) f 112 [bytesV idb, bytesV pubx, bytesV puby, bytesV msg, bytesV r, bytesV s] = .panic) ∨
        (∀ f, runV PX GP (Model.CTIRProto.protoOracle tape) f 112 [bytesV idb, bytesV pubx, bytesV puby, bytesV msg, bytesV r, bytesV s] = .stuck) :=
  SMGo.Proofs.CTIRRefineEntryProto2.ir_verify_ctxFiat_proto tape idb pubx puby msg r s hid

theorem ir_signZa_ctxFiat {O : Oracle} (hB : BigOk O) (hSum : ∀ m : Bytes, O 12 [bytesV m] = [bytesV (Spec.SM3.hash m)])
    {rd : Val} {sc : Nat → Script} (hR : ReaderOk O rd sc) {priv : Bytes} (hlen : priv.length < 2 ^ 63) (za msg : Bytes) :
    match Model.SM2.signZa ctxFiat (sc 0) priv za msg with
    | .ok ((r, s), _) => ∀ f, fuelSign4 (avail (sc 0)) + 30 ≤ f →
        runV PX GP O f 109 [rd, bytesV priv, bytesV za, bytesV msg] = .ret [bytesV r, bytesV s, .int 0]
    | .err => ∃ code : Int, code ≠ 0 ∧ ∀ f, fuelSign4 (avail (sc 0)) + 30 ≤ f →
        runV PX GP O f 109 [rd, bytesV priv, bytesV za, bytesV msg] = .ret [bytesV [], bytesV [], .int code]
    | .panic => (∃ F, ∀ f, F ≤ f → runV PX GP O f 109 [rd, bytesV priv, bytesV za, bytesV msg] = .panic) ∨
        (∀ f, runV PX GP O f 109 [rd, bytesV priv, bytesV za, bytesV msg] = .stuck) :=
  SMGo.Proofs.CTIRRefineEntryProto2.ir_signZa_ctxFiat hB hSum hR hlen za msg

/-- sm2.SignZa -/
theorem ir_signZa_ctxFiat_proto (tape : Nat → Nat → Nat) (s : Script) (rd : Val) {priv : Bytes} (hlen : priv.length < 2 ^ 63)
    (za msg : Bytes) :
    match Model.SM2.signZa ctxFiat s priv za msg with
    | .ok ((r, sg), _) => ∀ f, fuelSign4 (avail s) + 30 ≤ f →
        runV PX GP (CTIRRefineSign.readerOracle (Model.CTIRProto.protoOracle tape) s) f 109 [rd, bytesV priv, bytesV za, bytesV msg]
          = .ret [bytesV r, bytesV sg, .int 0]
    | .err => ∃ code : Int, code ≠ 0 ∧ ∀ f, fuelSign4 (avail s) + 30 ≤ f →
        runV PX GP (CTIRRefineSign.readerOracle (Model.CTIRProto.protoOracle tape) s) f 109 [rd, bytesV priv, bytesV za, bytesV msg]
          = .ret [bytesV [], bytesV [], .int code]
    | .panic => (∃ F, ∀ f, F ≤ f →
          runV PX GP (CTIRRefineSign.readerOracle (Model.CTIRProto.protoOracle tape) s) f 109 [rd, bytesV priv, bytesV za, bytesV msg] = .panic) ∨
        (∀ f, runV PX GP (CTIRRefineSign.readerOracle (Model.CTIRProto.protoOracle tape) s) f 109 [rd, bytesV priv, bytesV za, bytesV msg] = .stuck) :=
  SMGo.Proofs.CTIRRefineEntryProto2.ir_signZa_ctxFiat_proto tape s rd hlen za msg

theorem ir_sign_ctxFiat {O : Oracle} (hB : BigOk O) (hSum : ∀ m : Bytes, O 12 [bytesV m] = [bytesV (Spec.SM3.hash m)])
    {rd : Val} {sc : Nat → Script} (hR : ReaderOk O rd sc) (idb pubx puby : Bytes) (hid : idb.length < 2 ^ 60)
    {priv : Bytes} (hlen : priv.length < 2 ^ 63) (msg : Bytes) :
    match Model.SM2.sign ctxFiat idb pubx puby (sc 0) priv msg with
    | .ok ((r, s), _) => ∀ f, fuelSign4 (avail (sc 0)) + 110 ≤ f →
        runV PX GP O f 110 [bytesV idb, bytesV pubx, bytesV puby, rd, bytesV priv, bytesV msg] = .ret [bytesV r, bytesV s, .int 0]
    | .err => ∃ code : Int, code ≠ 0 ∧ ∀ f, fuelSign4 (avail (sc 0)) + 110 ≤ f →
        runV PX GP O f 110 [bytesV idb, bytesV pubx, bytesV puby, rd, bytesV priv, bytesV msg] = .ret [bytesV [], bytesV [], .int code]
    | .panic => (∃ F, ∀ f, F ≤ f →
          runV PX GP O f 110 [bytesV idb, bytesV pubx, bytesV puby, rd, bytesV priv, bytesV msg] = .panic) ∨
        (∀ f, runV PX GP O f 110 [bytesV idb, bytesV pubx, bytesV puby, rd, bytesV priv, bytesV msg] = .stuck) :=
  SMGo.Proofs.CTIRRefineEntryProto2.ir_sign_ctxFiat hB hSum hR idb pubx puby hid hlen msg

/-- sm2.Sign -/
theorem ir_sign_ctxFiat_proto (tape : Nat → Nat → Nat) (s : Script) (rd : Val) (idb pubx puby : Bytes)
    (hid : idb.length < 2 ^ 60) {priv : Bytes} (hlen : priv.length < 2 ^ 63) (msg : Bytes) :
    match Model.SM2.sign ctxFiat idb pubx puby s priv msg with
    | .ok ((r, sg), _) => ∀ f, fuelSign4 (avail s) + 110 ≤ f →
        runV PX GP (CTIRRefineSign.readerOracle (Model.CTIRProto.protoOracle tape) s) f 110
          [bytesV idb, bytesV pubx, bytesV puby, rd, bytesV priv, bytesV msg] = .ret [bytesV r, bytesV sg, .int 0]
    | .err => ∃ code : Int, code ≠ 0 ∧ ∀ f, fuelSign4 (avail s) + 110 ≤ f →
        runV PX GP (CTIRRefineSign.readerOracle (Model.CTIRProto.protoOracle tape) s) f 110
          [bytesV idb, bytesV pubx, bytesV puby, rd, bytesV priv, bytesV msg] = .ret [bytesV [], bytesV [], .int code]
    | .panic => (∃ F, ∀ f, F ≤ f →
          runV PX GP (CTIRRefineSign.readerOracle (Model.CTIRProto.protoOracle tape) s) f 110
            [bytesV idb, bytesV pubx, bytesV puby, rd, bytesV priv, bytesV msg] = .panic) ∨
        (∀ f, runV PX GP (CTIRRefineSign.readerOracle (Model.CTIRProto.protoOracle tape) s) f 110
            [bytesV idb, bytesV pubx, bytesV puby, rd, bytesV priv, bytesV msg] = .stuck) :=
  SMGo.Proofs.CTIRRefineEntryProto2.ir_sign_ctxFiat_proto tape s rd idb pubx puby hid hlen msg

theorem readerOracle_sum (tape : Nat → Nat → Nat) (s : Script) (m : Bytes) :
    CTIRRefineSign.readerOracle (Model.CTIRProto.protoOracle tape) s 12 [bytesV m] = [bytesV (Spec.SM3.hash m)] :=
  SMGo.Proofs.CTIRRefineEntryProto2.readerOracle_sum tape s m

/-- a function of the base program runs on the extended globals as on its own -/
theorem runV_GP {X : Oracle} {g : Nat} (hg : g < 100) (f : Nat) (args : List Val) :
    runV PX GP X f g args = runV prog globals X f g args :=
  SMGo.Proofs.CTIRRefineEntryProto2.runV_GP hg f args

/-- ScalarMixedMult_Unsafe (function 100), hypothesis-free: the closed form of Props/C14IRMixed -/
theorem ir_scalarMixedMult_fiat_proto {O : Oracle} (g : Bytes) (Pt : Model.Point.Pt Limbs) (k : Bytes) :
    match Model.Curve.scalarMixedMult (Model.Curve.pointOps pointCtx4) g Pt k Gen.SM2Tables.sm2Precomputed_6_3_14
        Gen.SM2Tables.sm2Precomputed_6_3_14_Remainder with
    | .ok r => ∀ f, fuelMm ≤ f →
        runV PX GP O f 100 [bytesV g, CTIRRefinePointB.ptV encL Pt, bytesV k] = .ret [CTIRRefinePointB.ptV encL r, .int 0]
    | .panic => (∃ F, ∀ f, F ≤ f → runV PX GP O f 100 [bytesV g, CTIRRefinePointB.ptV encL Pt, bytesV k] = .panic) ∨
        (∀ f, runV PX GP O f 100 [bytesV g, CTIRRefinePointB.ptV encL Pt, bytesV k] = .stuck)
    | .err => False :=
  SMGo.Proofs.CTIRRefineEntryProto2.ir_scalarMixedMult_fiat_proto g Pt k

theorem fuelMm_eq : fuelMm = 49893848 :=
  SMGo.Proofs.CTIRRefineEntryProto2.fuelMm_eq 

theorem ir_scalarMixedMult_pointCtxFiat_proto {O : Oracle} (g : Bytes) (Pt : Model.Point.Pt (List Nat)) (hPt : Out4Pt Pt)
    (k : Bytes) :
    match Model.Curve.scalarMixedMult (Model.Curve.pointOps pointCtxFiat) g Pt k Gen.SM2Tables.sm2Precomputed_6_3_14
        Gen.SM2Tables.sm2Precomputed_6_3_14_Remainder with
    | .ok r => Out4Pt r ∧ ∀ f, fuelMm ≤ f →
        runV PX GP O f 100 [bytesV g, CTIRRefinePointB.ptV id Pt, bytesV k] = .ret [CTIRRefinePointB.ptV id r, .int 0]
    | .panic => (∃ F, ∀ f, F ≤ f → runV PX GP O f 100 [bytesV g, CTIRRefinePointB.ptV id Pt, bytesV k] = .panic) ∨
        (∀ f, runV PX GP O f 100 [bytesV g, CTIRRefinePointB.ptV id Pt, bytesV k] = .stuck)
    | .err => False :=
  SMGo.Proofs.CTIRRefineEntryProto2.ir_scalarMixedMult_pointCtxFiat_proto g Pt hPt k

end SMGo.Props.C13IR

namespace SMGo.Props.C13IR
#print axioms ir_derivePublic_eq_model
#print axioms ir_generateKey_eq_model
#print axioms ir_generateKey_eq_model_script
#print axioms ir_generateKey_nil
#print axioms readerOracle_spec
#print axioms globals_nMinus1_ctx
#print axioms ir_ensure32Bytes_eq_model
#print axioms ir_ensure32Bytes_long_stuck
#print axioms ir_signHashed_eq_model
#print axioms fuelSign_eq
#print axioms stdOracle_bigOk
#print axioms readerOracle_ok
#print axioms readerOracle_bigOk
#print axioms ir_ScalarSetBytes_eq_model
#print axioms ir_ScalarToBigInt
#print axioms ir_ScalarBytes
#print axioms ir_ScalarIsZero
#print axioms ir_ScalarEqual
#print axioms scalarSetBytes_eq_setBytes
#print axioms scalarBytesPrims4
#print axioms scalarSetBytesPrims4
#print axioms ir_ScalarSetBytes_fiat
#print axioms ir_ScalarToBigInt_fiat_std
#print axioms ir_ScalarBytes_fiat
#print axioms ir_scalarFermatInvert
#print axioms ir_scalarInvert
#print axioms fuelChainN_eq
#print axioms ir_GetAffineX_Unsafe
#print axioms ir_PointBytes_Unsafe
#print axioms ir_GetAffineX_Unsafe_std
#print axioms ir_PointBytes_Unsafe_std
#print axioms stdOracle_modInverse
#print axioms stdOracle_invOk
#print axioms stdOracle_bytesOk
#print axioms ir_ZA_eq_model
#print axioms ir_ZA_eq_spec
#print axioms ir_ZA_closed
#print axioms protoOracle_sum
#print axioms globals_19
#print axioms ir_checkOnCurve
#print axioms ir_pointSetBytes
#print axioms pointSetBytes_nil
#print axioms ir_verifyHashed
#print axioms verifyHashed_ne_err
#print axioms protoOracle_ok
#print axioms callees4
#print axioms globals4
#print axioms hne4
#print axioms ir_derivePublic_fiat
#print axioms ir_generateKey_fiat
#print axioms ir_generateKey_nil_fiat
#print axioms ir_signHashed_fiat
#print axioms ir_signHashed_fiat_std
#print axioms derivePublic_ctx4
#print axioms generateKey_ctx4
#print axioms signHashed_ctx4
#print axioms ir_derivePublic_ctxFiat
#print axioms ir_derivePublic_ctxFiat_std
#print axioms ir_generateKey_ctxFiat
#print axioms ir_generateKey_ctxFiat_std
#print axioms ir_generateKey_nil_ctxFiat
#print axioms ir_signHashed_ctxFiat
#print axioms ir_signHashed_ctxFiat_std
#print axioms fuelSign4_eq
#print axioms fuelGen_fiat
#print axioms fuelDerive_fiat
#print axioms protoOracle_oracleOk
#print axioms verifyCallees4
#print axioms ir_verifyHashed_fiat
#print axioms ir_verifyHashed_fiat_proto
#print axioms fuelVerify4_eq
#print axioms verifyHashed_ctx4
#print axioms ir_verifyHashed_ctxFiat
#print axioms ir_verifyHashed_ctxFiat_proto
#print axioms ir_ZA_fiat
#print axioms ir_ZA_ctxFiat
#print axioms ir_ZA_ctxFiat_proto
#print axioms ir_checkOnCurve_ctxFiat_proto
#print axioms fuelCheck_eq
#print axioms ir_verifyZa_ctxFiat
#print axioms ir_verifyZa_ctxFiat_proto
#print axioms ir_verify_ctxFiat
#print axioms ir_verify_ctxFiat_proto
#print axioms ir_signZa_ctxFiat
#print axioms ir_signZa_ctxFiat_proto
#print axioms ir_sign_ctxFiat
#print axioms ir_sign_ctxFiat_proto
#print axioms readerOracle_sum
#print axioms runV_GP
#print axioms ir_scalarMixedMult_fiat_proto
#print axioms fuelMm_eq
#print axioms ir_scalarMixedMult_pointCtxFiat_proto
end SMGo.Props.C13IR
