/-
  Property C06 — SM4-GCM: Seal output equals NIST SP 800-38D GCM over SM4.
  (Property theorems only; lemmas live in SMGo/Proofs/GCM*.lean and SMGo/Proofs/SM4Fast.lean.)

  What is proved here, and about what.  The object is `SMGo.Model.GCM.seal`, the hand-written executable
  model (SMGo/Model/GCMAlgo.lean) of the ALGORITHM of the fused assembly /repo/sm4/gcm_amd64.s (`sealAsm`)
  and (`Model.GCM.sealGlue`) of the arm64 Go glue /repo/sm4/sm4_gcm_arm64.go: J0 (12-byte fast path / GHASH of the nonce), counter
  blocks as 32-bit lane additions, the 256/128/64/32/16-byte kernels and the 1..15-byte tail, GHASH on
  bit-reflected operands by Karatsuba carry-less multiplication and two-step reduction with 0x87, the
  4-way aggregation with H⁴:H³:H²:H and its thresholds, the length block, the tag mask and truncation.
  The model is generic in the block function `E`; the SM4 kernels are property C05.
  `C06_seal` states that this algorithm IS Algorithm 4 of SP 800-38D (`Spec.GCM.sealGCM`) for every block
  function returning 16-byte blocks, every nonce, aad, plaintext and tag length (no bound on the lengths is
  needed: the lane counters wrap exactly like `inc32`).
  The correspondence model ↔ machine code is not proved: it is tested three-way (implementation on every
  path / this model / the specification) by the differential harness on every check (`bin/check C06`),
  which is also the only evidence for the third path of the property (crypto/cipher's generic mode over the
  portable cipher) and for the arm64 assembly kernels.  The Go wrappers' panics (wrong nonce length,
  plaintext longer than (2^32-2)·16 bytes) are outside the model.
-/
import SMGo.Proofs.GCMFinal
import SMGo.Proofs.GCMVector
namespace SMGo.Props.C06
open SMGo
open SMGo.Spec.GCM
open SMGo.Model.GCM
open SMGo.Proofs.GCM (rev128 ctrAdd rfcKey rfcIV rfcAAD rfcPT rfcCT rfcTag)

/-! ### (i) the multiplier -/

/-- (i) `mul` + `reduce` of the assembly (Karatsuba from three 64×64 carry-less products, two folding steps
    with GCM_POLY = 0x87, operands with bit k = coefficient of x^k) is Algorithm 1 of SP 800-38D on the
    bit-reflected operands -/
theorem clmul_reduce_eq_mulGF {h x : Nat} (hh : h < 2 ^ 128) (hx : x < 2 ^ 128) :
    gmulR h x = rev128 (mulGF (rev128 x) (rev128 h)) :=
  Proofs.GCM.gmulR_eq_mulGF hh hx

/-- the bit reflection of the code (`reverseBits` per byte + little-endian register load) is the reversal of
    the 128-bit number the standard reads big-endian -/
theorem loadR_is_reflection {b : Bytes} (h : b.length = 16) : loadR b = rev128 (blockToNat b) :=
  Proofs.GCM.loadR_eq h

theorem storeR_is_reflection (v : Nat) : storeR v = natToBlock (rev128 v) :=
  Proofs.GCM.storeR_eq_natToBlock v

/-! ### (ii) Algorithm 1 is a commutative, associative, bilinear product -/

theorem mulGF_comm {x y : Nat} (hx : x < 2 ^ 128) (hy : y < 2 ^ 128) : mulGF x y = mulGF y x :=
  Proofs.GCM.mulGF_comm hx hy

theorem mulGF_assoc {x y z : Nat} (hx : x < 2 ^ 128) (hy : y < 2 ^ 128) (hz : z < 2 ^ 128) :
    mulGF (mulGF x y) z = mulGF x (mulGF y z) :=
  Proofs.GCM.mulGF_assoc hx hy hz

theorem mulGF_distrib (x x' y y' : Nat) :
    mulGF (x ^^^ x') y = mulGF x y ^^^ mulGF x' y ∧ mulGF x (y ^^^ y') = mulGF x y ^^^ mulGF x y' :=
  ⟨Proofs.GCM.mulGF_xor_left x x' y, Proofs.GCM.mulGF_xor_right x y y'⟩

/-- 2^127 (the block 80 00 … 00) is the unit -/
theorem mulGF_one {x : Nat} (hx : x < 2 ^ 128) : mulGF x (2 ^ 127) = x ∧ mulGF (2 ^ 127) x = x :=
  ⟨Proofs.GCM.mulGF_one_right hx, Proofs.GCM.mulGF_one_left x⟩

/-! ### (iii) the 4-way aggregation -/

/-- (iii) `gHashBlocksLoopBy4` with the powers computed by `gHashBlocksLoopBy4Pre`:
    (Y⊕X₁)·H⁴ ⊕ X₂·H³ ⊕ X₃·H² ⊕ X₄·H equals four sequential one-block GHASH steps -/
theorem aggregated_step_eq_four_steps {hBlock : Bytes} (hb : hBlock.length = 16) {y : Nat} (hy : y < 2 ^ 128)
    {d : Bytes} (hd : 64 ≤ d.length) :
    ghStep4 (hPowers hBlock) y d = ghBy1 (hPowers hBlock).h 4 y d :=
  Proofs.GCM.ghStep4_eq_four_steps hb hy hd

/-! ### (iv) lane counters -/

/-- (iv) lane `k` of `fillCounterXn` (a 32-bit addition on the last word) is `inc32` applied `k` times,
    for every `k`: the low word wraps modulo 2^32, the upper 96 bits never change -/
theorem lane_counter_eq_inc32_iterate (j k : Nat) : laneAdd j k = Nat.repeat inc32 k j :=
  Proofs.GCM.laneAdd_eq_inc32_iterate j k

/-- the wrap made explicit: from a counter word 0xffffffff the next block has the word 0 and the same prefix -/
theorem lane_counter_wrap (p : Nat) : laneAdd (p * 2 ^ 32 + (2 ^ 32 - 1)) 1 = p * 2 ^ 32 := by
  unfold laneAdd; omega

/-! ### (v) the length-class schedule -/

/-- (v) for every input length the 256/128/64/32/16/tail schedule of `cryptoBlocksAsm` writes
    GCTR_K(inc32(J0), input) -/
theorem schedule_eq_gctr {E : Bytes → Bytes} (hE : ∀ b, (E b).length = 16) (hp : HPow) (hashFlag : Bool)
    (j y : Nat) (src : Bytes) : (cryptoBlocks E hp hashFlag j y src).1 = gctr E (inc32 j) src :=
  Proofs.GCM.cryptoBlocks_fst hE hp hashFlag j y src

/-- J0 of the code is J0 of the standard for every nonce length (12 bytes or not) -/
theorem j0_eq {E : Bytes → Bytes} (hE : ∀ b, (E b).length = 16) (nonce : Bytes) :
    calculateJ0 (hPowers (E (List.replicate 16 0))) nonce = j0 (blockToNat (E (List.replicate 16 0))) nonce :=
  Proofs.GCM.calculateJ0_eq Proofs.GCM.gmulOK hE nonce

/-! ### (vi) Seal -/

/-- **C06** (algorithm level): for every block function with 16-byte output, every nonce, additional data,
    plaintext and tag length, the algorithm of the fused assembly returns ciphertext ‖ truncated tag of
    SP 800-38D.  (The property's domain nonce ≠ [], 12 ≤ t ≤ 16 is not needed as a hypothesis.) -/
theorem C06_seal {E : Bytes → Bytes} (hE : ∀ b, (E b).length = 16) (t : Nat) (nonce pt aad : Bytes) :
    Model.GCM.seal E t nonce pt aad = sealGCM E t nonce pt aad :=
  Proofs.GCM.seal_eq_spec hE t nonce pt aad

/-- the kernel-plus-Go-glue order (encrypt everything, then GHASH aad and ciphertext with `gHashUpdate`) is
    Algorithm 4 as well -/
theorem C06_seal_glue {E : Bytes → Bytes} (hE : ∀ b, (E b).length = 16) (t : Nat) (nonce pt aad : Bytes) :
    Model.GCM.sealGlue E t nonce pt aad = sealGCM E t nonce pt aad :=
  Proofs.GCM.sealGlue_eq_spec hE t nonce pt aad

/-- path independence at the level of the algorithms: fused order = glue order, for all inputs -/
theorem C06_paths_agree {E : Bytes → Bytes} (hE : ∀ b, (E b).length = 16) (t : Nat) (nonce pt aad : Bytes) :
    Model.GCM.seal E t nonce pt aad = Model.GCM.sealGlue E t nonce pt aad := by
  rw [C06_seal hE, C06_seal_glue hE]

/-- **C06** for SM4: the model run with the table-driven SM4 the driver executes (what the harness compares
    the implementation with) is SP 800-38D over the SM4 of GB/T 32907 (`Spec.SM4.encrypt`) -/
theorem C06_seal_sm4 (key : Bytes) (t : Nat) (nonce pt aad : Bytes) :
    Model.GCM.seal (Spec.SM4.cryptFast (Spec.SM4.keySchedule key)) t nonce pt aad
      = sealGCM (Spec.SM4.encrypt key) t nonce pt aad := by
  rw [Proofs.SM4Fast.cryptFast_fun]
  exact C06_seal (Proofs.GCM.sm4_block_length _) t nonce pt aad

/-- the oracle of the harness (`gcm.seal.spec`: SP 800-38D over the table-driven SM4) is SP 800-38D over SM4 -/
theorem oracle_is_spec (key : Bytes) (t : Nat) (nonce pt aad : Bytes) :
    sealGCM (Spec.SM4.cryptFast (Spec.SM4.keySchedule key)) t nonce pt aad
      = sealGCM (Spec.SM4.encrypt key) t nonce pt aad := by
  rw [Proofs.SM4Fast.cryptFast_fun]; rfl

/-! ### non-vacuity and a test vector -/

/-- the hypothesis of `C06_seal` is satisfiable: SM4 under any round keys -/
example : ∃ E : Bytes → Bytes, ∀ b, (E b).length = 16 :=
  ⟨Spec.SM4.crypt [], Proofs.GCM.sm4_block_length []⟩

/-- the statement is not about empty outputs: the output has plaintext length + tag length bytes -/
example (key : Bytes) (pt aad nonce : Bytes) :
    (Model.GCM.seal (Spec.SM4.encrypt key) 16 nonce pt aad).length = pt.length + 16 := by
  rw [C06_seal (Proofs.GCM.sm4_encrypt_length key)]
  exact Proofs.GCM.sealGCM_length (Proofs.GCM.sm4_encrypt_length key) (Nat.le_refl 16) nonce pt aad

/-- specification self-test (a test, labelled as such): RFC 8998, Appendix A.1 (SM4-GCM), evaluated by
    the kernel on `Spec.GCM.sealGCM` over `Spec.SM4.encrypt` (in Proofs/GCMVector.lean) -/
theorem spec_vector_rfc8998_A1 :
    sealGCM (Spec.SM4.encrypt rfcKey) 16 rfcIV rfcPT rfcAAD = rfcCT ++ rfcTag :=
  Proofs.GCM.spec_vector_rfc8998_A1

/-- the model on the same vector (by `C06_seal`, not by a second evaluation) -/
theorem model_vector_rfc8998_A1 :
    Model.GCM.seal (Spec.SM4.encrypt rfcKey) 16 rfcIV rfcPT rfcAAD = rfcCT ++ rfcTag := by
  rw [C06_seal (Proofs.GCM.sm4_encrypt_length rfcKey)]; exact spec_vector_rfc8998_A1

end SMGo.Props.C06

#print axioms SMGo.Props.C06.clmul_reduce_eq_mulGF
#print axioms SMGo.Props.C06.mulGF_comm
#print axioms SMGo.Props.C06.mulGF_assoc
#print axioms SMGo.Props.C06.aggregated_step_eq_four_steps
#print axioms SMGo.Props.C06.lane_counter_eq_inc32_iterate
#print axioms SMGo.Props.C06.schedule_eq_gctr
#print axioms SMGo.Props.C06.j0_eq
#print axioms SMGo.Props.C06.C06_seal
#print axioms SMGo.Props.C06.C06_seal_glue
#print axioms SMGo.Props.C06.C06_paths_agree
#print axioms SMGo.Props.C06.C06_seal_sm4
#print axioms SMGo.Props.C06.oracle_is_spec
#print axioms SMGo.Props.C06.spec_vector_rfc8998_A1
#print axioms SMGo.Props.C06.model_vector_rfc8998_A1
