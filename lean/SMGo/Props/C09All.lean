/-
  C09, coverage statement in one theorem (audit LOW): instead of one named theorem per routine plus a list of
  names, EVERY routine of the five regenerated listings — whatever its name, however many there are — passes the
  taint certificate with the declassification set computed by `declassOf`, and that set is empty for every routine
  except `openAsm` of the amd64 GCM listing, where it is a single pc (the tag-verdict branch).  A routine added to an
  assembly file is therefore covered (or makes this theorem fail) without anyone listing it.
-/
import SMGo.Props.C09
namespace SMGo.Props.C09
open SMGo.Model.ISA SMGo.Proofs.ISASound SMGo.Proofs.ISACheck SMGo.Gen

/-- every routine of every listing is certified with its computed declassification set -/
theorem all_certified : allRoutines.all (fun p => certify p.2 (declassOf p.2)) = true := by decide +kernel

/-- the declassification sets: empty everywhere except one pc in (amd64) openAsm -/
theorem all_declass :
    allRoutines.all (fun p => (declassOf p.2).length == (if p.1 == "openAsm" then 1 else 0)) = true := by
  decide +kernel

/-- so every routine other than openAsm is unconditionally constant-time, and every routine is constant-time except
    at its (computed) declassified branches -/
theorem all_constantTimeExcept : ∀ p ∈ allRoutines, ConstantTimeExcept p.2 (declassOf p.2) := by
  intro p hp
  have h := List.all_eq_true.mp all_certified p hp
  exact constantTimeExcept_of_cert h

end SMGo.Props.C09

#print axioms SMGo.Props.C09.all_certified
#print axioms SMGo.Props.C09.all_declass
#print axioms SMGo.Props.C09.all_constantTimeExcept
