/-
  Property C17 — concurrent use.  THE COMPOSITION (audit finding C17-1).

  Props/C17.lean proves (1) schedule independence for an abstract shared-memory machine
  (`schedule_independence`, `concurrent_calls`, `prog_calls_schedule_independent`: premises
  `Footprint` / `Separated`) and (2b) the write sets of the assembly routines over C11's access
  models (`asm_write_sets`); C11 proves that every access of these models lies inside its region
  for all lengths (`inBounds_sealAsm`, …).  That (2b) + C11 discharge the premises of (1) for real
  calls was prose in the header of Props/C17.lean.  This file makes it a theorem.

  WHAT IS PROVED HERE.

  * `AsmCall`: one call of sealAsm / openAsm (either outcome of the tag comparison) /
    cryptoBlockAsm, X2, X4, X8, X16 / expandKeyAsm with the lengths it is given.  `c.model` is
    C11's access list, `c.size` C11's region sizes (the contract of the routine), `c.writeRegions`
    the regions of C17's `asm_write_sets` (`dst`, `temp`), `c.usedRegions` the finitely many regions
    of non-zero size (arguments and the 16 read-only symbols).
  * The program of a call whose regions are placed at `place : Region → Nat` in a flat byte
    memory `Nat → V` is `c.prog place f = accessProg f (c.model.map (placeAccess place))`: every
    access of C11's list, byte by byte, in the order of the list; what a store stores is `f addr`
    of ALL values loaded so far, for an ARBITRARY `f` — so the theorems hold whatever the routine
    computes, as long as what it stores is a function of the address and of what it has loaded
    (lengths, tag size, register constants are fixed per call and live in `f`).
  * `CallsApart c place c' place'` (decidable): every write region of `c` (placed) is disjoint, as
    an interval of addresses, from every used region of `c'` (placed).  NOTHING is asked about the
    regions of ONE call among themselves (dst may be the plaintext buffer: in-place Seal), and
    nothing about regions that are only read: round keys, nonce, additional data, text and the
    read-only symbols MAY be shared by all calls.
  * `asm_progs_separated`: from `CallsApart` for all `i ≠ j`, by C11's `inBounds_*` and C17's
    `asm_write_sets` — for ALL lengths — the `hsep` premise of `prog_calls_schedule_independent`
    / `Separated` of `schedule_independence` for the ACTUAL access programs.
  * `asm_calls_concurrent`: any number of such calls (`ι` arbitrary, the routines may be mixed:
    Seal ∥ Open ∥ Encrypt on one key), pairwise `CallsApart`: `Independent` — under EVERY schedule
      `loc`            the local state of each call (program counter, all values loaded) is that of
                       its solo run with as many steps;
      `returned_alone` a call that has returned has returned what it returns alone;
      `returns`        a call that got at least `length` steps has returned, and THE result of its
                       solo run (which is unique);
      `own_mem`        each byte of its dst / temp holds what its solo run with as many steps
                       leaves there;
      `own_final`      … and once it got `length` steps, what its COMPLETE solo run leaves there;
      `rest`           every byte outside all dst / temp regions (the shared inputs) is unchanged.
    Obtained by instantiating `C17.schedule_independence`, `C17.concurrent_calls` and
    `C17.prog_calls_schedule_independent`.
  * `sealAsm_concurrent`, `openAsm_concurrent`, `cryptoBlockAsm_concurrent`: the same with the
    routine, its access list (`accessProg (f i) ((sealModel …).map (placeAccess (place i)))`), the
    premise and the owned bytes spelled out.  `sealAsm_concurrent_two`: two calls.
  * `openAsm_branching_concurrent`: openAsm as ONE thread whose continuation after the tag
    comparison is decided by an arbitrary function `verdict` of the values it has loaded (so the
    data-dependent branch of openAsm is inside the thread and not chosen from outside), any number
    of them: local states and dst / temp bytes as in the solo run, the rest unchanged.
  * Non-vacuity: two Seals that share round keys, nonce, plaintext, additional data and symbols and
    have their own dst and temp satisfy the premise (`decide`); sharing `dst` violates it; and a
    Seal, an Open and an Encrypt on one key.

  WHAT REMAINS INFORMAL.
  * That the real routine IS `c.prog place f` for some `f`: that its accesses are C11's list is
    C11's tie (computational, finitely many lengths; the bounds are for all lengths); that what
    it stores is a function of what it loaded is determinism of the instruction semantics
    (C06/C07's ISA model), not connected here.  The theorems quantify over all `f`.
  * Granularity: `accessProg` splits every access into single bytes, so the schedules quantified
    over here include all interleavings at the granularity of the real (wider) accesses.
  * Everything listed under "WHAT IS NOT MODELLED" in Props/C17.lean (Go memory model, scheduler,
    allocator, hardware), the Go glue around the routines (C17 §2a treats whole calls as atomic
    steps on the slice heap; its stores — `copyAsm` into a fresh array — are not access programs
    here), and arm64.
  Core Lean only.
-/
import SMGo.Props.C11
import SMGo.Props.C17
namespace SMGo.Props.C17Compose
open SMGo SMGo.Model SMGo.Model.Interleave
open SMGo.Model.AsmAccess (Region Access)
open SMGo.Model.AsmAccessModel
open SMGo.Proofs.InterleaveAsm (WritesOnlyTo AsmWriteSets placeAccess)

/-! ### the calls -/

/-- one call of an assembly routine, with the lengths it is given (`nl`, `pl`/`cl`, `al`: lengths
    of nonce, plaintext / ciphertext incl. tag, additional data; `tagOk`: the outcome of openAsm's
    tag comparison) -/
inductive AsmCall where
  | sealAsm (tagSize nl pl al : Nat)
  | openAsm (tagSize nl cl al : Nat) (tagOk : Bool)
  | cryptoBlockAsm
  | cryptoBlockAsmX2
  | cryptoBlockAsmX4
  | cryptoBlockAsmX8
  | cryptoBlockAsmX16
  | expandKeyAsm
deriving DecidableEq, Repr

/-- C11's access list of the call -/
def AsmCall.model : AsmCall → List Access
  | .sealAsm t nl pl al => sealModel t nl pl al
  | .openAsm t nl cl al ok => openModel t nl cl al ok
  | .cryptoBlockAsm => blockModel
  | .cryptoBlockAsmX2 => blockX2Model
  | .cryptoBlockAsmX4 => blockX4Model
  | .cryptoBlockAsmX8 => blockX8Model
  | .cryptoBlockAsmX16 => blockX16Model
  | .expandKeyAsm => expandKeyModel

/-- C11's region sizes (the contract of the routine) -/
def AsmCall.size : AsmCall → Region → Nat
  | .sealAsm t nl pl al => sealSize t nl pl al
  | .openAsm t nl cl al _ => openSize t nl cl al
  | .cryptoBlockAsm => blockSize 1
  | .cryptoBlockAsmX2 => blockSize 2
  | .cryptoBlockAsmX4 => blockSize 4
  | .cryptoBlockAsmX8 => blockSize 8
  | .cryptoBlockAsmX16 => blockSize 16
  | .expandKeyAsm => expandKeySize

/-- the regions of C17's `asm_write_sets` -/
def AsmCall.writeRegions : AsmCall → List Region
  | .sealAsm .. => [aDst, aTmp]
  | .openAsm .. => [aDst, aTmp]
  | .expandKeyAsm => [.arg 16, .arg 24]
  | _ => [.arg 16]

/-- the hypotheses of C11's bounds: what the Go callers guarantee (`NewGCM…` allows tag sizes
    12..16; `Open` checks `len(ciphertext) ≥ tagSize` before the call) -/
def AsmCall.Valid : AsmCall → Prop
  | .sealAsm t _ _ _ => 12 ≤ t ∧ t ≤ 16
  | .openAsm t _ cl _ _ => 12 ≤ t ∧ t ≤ 16 ∧ t ≤ cl
  | _ => True

instance (c : AsmCall) : Decidable c.Valid := by
  cases c <;> unfold AsmCall.Valid <;> exact inferInstance

/-- the 16 read-only symbols of the assembly files -/
def symRegions : List Region := (List.range 16).map Region.sym

/-- the regions sealAsm / openAsm touch: round keys, dst, nonce, text, additional data, temp,
    symbols -/
def gcmRegions : List Region := [aRk, aDst, aNonce, aText, aAad, aTmp] ++ symRegions

/-- the regions the three-pointer routines touch (cryptoBlockAsm*: rk, dst, src; expandKeyAsm:
    key, enc, dec), symbols -/
def kernelRegions : List Region := [.arg 8, .arg 16, .arg 24] ++ symRegions

/-- the regions of non-zero size (`size_ne_zero_mem`) -/
def AsmCall.usedRegions : AsmCall → List Region
  | .sealAsm .. => gcmRegions
  | .openAsm .. => gcmRegions
  | _ => kernelRegions

/-- **the access program of a call**: C11's access list, regions placed by `place`, byte by byte -/
abbrev AsmCall.prog {V : Type} (c : AsmCall) (place : Region → Nat) (f : Nat → List V → V) :
    List (Instr Nat V) :=
  accessProg f (c.model.map (placeAccess place))

/-- the bytes of region `r` -/
def InRegion (place size : Region → Nat) (r : Region) (l : Nat) : Prop :=
  place r ≤ l ∧ l < place r + size r

/-- the bytes the call may write: its write regions (dst, temp) in their whole extent -/
def AsmCall.own (c : AsmCall) (place : Region → Nat) (l : Nat) : Prop :=
  ∃ r ∈ c.writeRegions, InRegion place c.size r l

/-- the bytes the call may touch at all -/
def AsmCall.foot (c : AsmCall) (place : Region → Nat) (l : Nat) : Prop :=
  ∃ r, InRegion place c.size r l

/-- two intervals of addresses `[a, a+sa)`, `[b, b+sb)` have no byte in common -/
def IvApart (a sa b sb : Nat) : Prop := sa = 0 ∨ sb = 0 ∨ a + sa ≤ b ∨ b + sb ≤ a

instance (a sa b sb : Nat) : Decidable (IvApart a sa b sb) := by
  unfold IvApart; exact inferInstance

/-- **the premise**: no write region of `c` meets any region `c'` uses -/
def CallsApart (c : AsmCall) (place : Region → Nat) (c' : AsmCall) (place' : Region → Nat) : Prop :=
  ∀ r ∈ c.writeRegions, ∀ r' ∈ c'.usedRegions,
    IvApart (place r) (c.size r) (place' r') (c'.size r')

instance (c : AsmCall) (place : Region → Nat) (c' : AsmCall) (place' : Region → Nat) :
    Decidable (CallsApart c place c' place') := by
  unfold CallsApart; exact inferInstance

/-! ### vocabulary, restated as checked facts -/

example {V : Type} (t nl pl al : Nat) (place : Region → Nat) (f : Nat → List V → V) :
    (AsmCall.sealAsm t nl pl al).prog place f =
      accessProg f ((sealModel t nl pl al).map (placeAccess place)) := rfl

example {V : Type} (t nl cl al : Nat) (ok : Bool) (place : Region → Nat) (f : Nat → List V → V) :
    (AsmCall.openAsm t nl cl al ok).prog place f =
      accessProg f ((openModel t nl cl al ok).map (placeAccess place)) := rfl

example (t nl pl al : Nat) :
    (AsmCall.sealAsm t nl pl al).writeRegions = [aDst, aTmp] ∧
    (AsmCall.sealAsm t nl pl al).usedRegions =
      [aRk, aDst, aNonce, aText, aAad, aTmp] ++ (List.range 16).map Region.sym ∧
    (AsmCall.sealAsm t nl pl al).size aDst = pl + t ∧ (AsmCall.sealAsm t nl pl al).size aTmp = 32 ∧
    (AsmCall.sealAsm t nl pl al).size aRk = 128 ∧ (AsmCall.sealAsm t nl pl al).size aNonce = nl ∧
    (AsmCall.sealAsm t nl pl al).size aText = pl ∧ (AsmCall.sealAsm t nl pl al).size aAad = al :=
  ⟨rfl, rfl, rfl, rfl, rfl, rfl, rfl, rfl⟩

/-! ### C11 and C17 §2b, per call -/

/-- C11 (`inBounds_*`): every access of the call's list lies inside its region — all lengths -/
theorem AsmCall.model_inBounds : ∀ c : AsmCall, c.Valid → ∀ a ∈ c.model, a.inBounds c.size
  | .sealAsm t nl pl al, hv => C11.inBounds_sealAsm t nl pl al hv.1 hv.2
  | .openAsm t nl cl al ok, hv => C11.inBounds_openAsm t nl cl al ok hv.1 hv.2.1 hv.2.2
  | .cryptoBlockAsm, _ => C11.inBounds_cryptoBlockAsm
  | .cryptoBlockAsmX2, _ => C11.inBounds_cryptoBlockAsmX2
  | .cryptoBlockAsmX4, _ => C11.inBounds_cryptoBlockAsmX4
  | .cryptoBlockAsmX8, _ => C11.inBounds_cryptoBlockAsmX8
  | .cryptoBlockAsmX16, _ => C11.inBounds_cryptoBlockAsmX16
  | .expandKeyAsm, _ => C11.inBounds_expandKeyAsm

/-- C17 (`asm_write_sets`): every write access goes to a write region — all lengths -/
theorem AsmCall.model_writes : ∀ c : AsmCall, WritesOnlyTo c.model c.writeRegions
  | .sealAsm t nl pl al => C17.asm_write_sets.sealAsm t nl pl al
  | .openAsm t nl cl al ok => C17.asm_write_sets.openAsm t nl cl al ok
  | .cryptoBlockAsm => C17.asm_write_sets.block.1
  | .cryptoBlockAsmX2 => C17.asm_write_sets.block.2.1
  | .cryptoBlockAsmX4 => C17.asm_write_sets.block.2.2.1
  | .cryptoBlockAsmX8 => C17.asm_write_sets.block.2.2.2.1
  | .cryptoBlockAsmX16 => C17.asm_write_sets.block.2.2.2.2
  | .expandKeyAsm => C17.asm_write_sets.expandKey

theorem symSize_ne_zero (i : Nat) (h : symSize i ≠ 0) : i < 16 := by
  match i, h with
  | 0, _ | 1, _ | 2, _ | 3, _ | 4, _ | 5, _ | 6, _ | 7, _ | 8, _ | 9, _ | 10, _ | 11, _ | 12, _
  | 13, _ | 14, _ | 15, _ => decide
  | k + 16, h => exact absurd rfl h

theorem sym_mem (i : Nat) (h : symSize i ≠ 0) (l : List Region) : Region.sym i ∈ l ++ symRegions :=
  List.mem_append_right _
    (List.mem_map.mpr ⟨i, List.mem_range.mpr (symSize_ne_zero i h), rfl⟩)

theorem gcm_mem (n : Nat) (h : n = 8 ∨ n = 24 ∨ n = 32 ∨ n = 56 ∨ n = 80 ∨ n = 104) :
    Region.arg n ∈ gcmRegions := by
  rcases h with rfl | rfl | rfl | rfl | rfl | rfl <;> simp [gcmRegions]

theorem kernel_mem (n : Nat) (h : n = 8 ∨ n = 16 ∨ n = 24) : Region.arg n ∈ kernelRegions := by
  rcases h with rfl | rfl | rfl <;> simp [kernelRegions]

theorem sealSize_used (t nl pl al : Nat) (r : Region) (h : sealSize t nl pl al r ≠ 0) :
    r ∈ gcmRegions := by
  unfold sealSize at h
  split at h
  all_goals first
    | exact absurd rfl h
    | exact sym_mem _ h _
    | exact gcm_mem _ (by simp)

theorem openSize_used (t nl cl al : Nat) (r : Region) (h : openSize t nl cl al r ≠ 0) :
    r ∈ gcmRegions := by
  unfold openSize at h
  split at h
  all_goals first
    | exact absurd rfl h
    | exact sym_mem _ h _
    | exact gcm_mem _ (by simp)

theorem blockSize_used (n : Nat) (r : Region) (h : blockSize n r ≠ 0) : r ∈ kernelRegions := by
  unfold blockSize at h
  split at h
  all_goals first
    | exact absurd rfl h
    | exact sym_mem _ h _
    | exact kernel_mem _ (by simp)

theorem expandKeySize_used (r : Region) (h : expandKeySize r ≠ 0) : r ∈ kernelRegions := by
  unfold expandKeySize at h
  split at h
  all_goals first
    | exact absurd rfl h
    | exact sym_mem _ h _
    | exact kernel_mem _ (by simp)

/-- a region of non-zero size is one of the finitely many used regions -/
theorem AsmCall.size_ne_zero_mem : ∀ (c : AsmCall) (r : Region), c.size r ≠ 0 → r ∈ c.usedRegions
  | .sealAsm t nl pl al, r, h => sealSize_used t nl pl al r h
  | .openAsm t nl cl al _, r, h => openSize_used t nl cl al r h
  | .cryptoBlockAsm, r, h => blockSize_used 1 r h
  | .cryptoBlockAsmX2, r, h => blockSize_used 2 r h
  | .cryptoBlockAsmX4, r, h => blockSize_used 4 r h
  | .cryptoBlockAsmX8, r, h => blockSize_used 8 r h
  | .cryptoBlockAsmX16, r, h => blockSize_used 16 r h
  | .expandKeyAsm, r, h => expandKeySize_used r h

/-! ### from the access program to bytes -/

/-- every byte the access program of a call STORES lies in a write region of the call
    (C17's `asm_writes_are_local` with C11's bounds) -/
theorem AsmCall.progWrites_own {V : Type} (c : AsmCall) (hv : c.Valid) (place : Region → Nat)
    (f : Nat → List V → V) (l : Nat) (h : progWrites (c.prog place f) l) : c.own place l :=
  C17.asm_writes_are_local c.model c.writeRegions c.size place c.model_writes (c.model_inBounds hv) f l h

/-- every byte the access program of a call LOADS lies in a region of the call (C11's bounds) -/
theorem AsmCall.progReads_foot {V : Type} (c : AsmCall) (hv : c.Valid) (place : Region → Nat)
    (f : Nat → List V → V) (l : Nat) (h : progReads (c.prog place f) l) : c.foot place l := by
  obtain ⟨pa, hpa, _, h1, h2⟩ := Proofs.Interleave.accessProg_reads f _ l h
  obtain ⟨a, ha, rfl⟩ := List.mem_map.mp hpa
  have hb : a.off + a.width ≤ c.size a.region := c.model_inBounds hv a ha
  simp only [placeAccess] at h1 h2
  exact ⟨a.region, by unfold InRegion; omega⟩

theorem AsmCall.own_foot (c : AsmCall) (place : Region → Nat) (l : Nat) (h : c.own place l) :
    c.foot place l := by
  obtain ⟨r, _, hr⟩ := h
  exact ⟨r, hr⟩

/-- the premise, at the level of bytes -/
theorem CallsApart.disjoint {c c' : AsmCall} {place place' : Region → Nat}
    (h : CallsApart c place c' place') (l : Nat) (ho : c.own place l) : ¬ c'.foot place' l := by
  intro hf
  obtain ⟨r, hr, h1, h2⟩ := ho
  obtain ⟨r', h1', h2'⟩ := hf
  have hne : c'.size r' ≠ 0 := by omega
  have := h r hr r' (c'.size_ne_zero_mem r' hne)
  unfold IvApart at this
  omega

/-- **`hsep`, derived.**  Any family of calls of the assembly routines, placed in memory, pairwise
    `CallsApart`: no access program stores where another loads or stores — the premise of
    `C17.prog_calls_schedule_independent` (`Separated` of `C17.schedule_independence`), from C11's
    `inBounds_*` and C17's `asm_write_sets`, for all lengths -/
theorem asm_progs_separated {ι V : Type} (c : ι → AsmCall) (hv : ∀ i, (c i).Valid)
    (place : ι → Region → Nat)
    (hap : ∀ i j, i ≠ j → CallsApart (c i) (place i) (c j) (place j))
    (f : ι → Nat → List V → V) :
    ∀ i j, i ≠ j → ∀ l, progWrites ((c i).prog (place i) (f i)) l →
      ¬ (progReads ((c j).prog (place j) (f j)) l ∨ progWrites ((c j).prog (place j) (f j)) l) := by
  intro i j hij l hw hc
  have ho := (c i).progWrites_own (hv i) (place i) (f i) l hw
  apply (hap i j hij).disjoint l ho
  rcases hc with hc | hc
  · exact (c j).progReads_foot (hv j) (place j) (f j) l hc
  · exact (c j).own_foot _ l ((c j).progWrites_own (hv j) (place j) (f j) l hc)

/-! ### the conclusion -/

/-- a thread that reads only `R` and writes only `W` reads only `R' ∪ W'` and writes only `W'` for
    `R ⊆ R' ∪ W'`, `W ⊆ W'` -/
theorem footprint_mono {Loc V : Type} (t : Thread Loc V) (R W R' W' : Loc → Prop)
    (h : Footprint t R W) (hR : ∀ l, R l → R' l ∨ W' l) (hW : ∀ l, W l → W' l) :
    Footprint t R' W' where
  reads := by
    intro s m m' hag
    have hag' : ∀ l, R l ∨ W l → m l = m' l := by
      intro l hl
      rcases hl with hl | hl
      · exact hag l (hR l hl)
      · exact hag l (Or.inr (hW l hl))
    obtain ⟨h1, h2⟩ := h.reads s m m' hag'
    refine ⟨h1, fun l hl => ?_⟩
    by_cases hw : W l
    · exact h2 l hw
    · rw [h.writes s m l hw, h.writes s m' l hw]
      exact hag l (Or.inr hl)
  writes := fun s m l hl => h.writes s m l (fun hw => hl (hW l hw))

/-- **"every interleaving gives each call the result and the owned memory of its solo run".**
    `P i`: the program of call `i`; `own i`: the bytes it owns; `out`: what it returns, as a function
    of the values it loaded (`Res := List V`, `out := id` is the finest choice); `m0`: the initial
    memory; `sched`: the schedule (a list of call ids: whose byte access comes next). -/
structure Independent {ι V : Type} [DecidableEq ι] (P : ι → List (Instr Nat V))
    (own : ι → Nat → Prop) (Res : Type) (out : List V → Res) (m0 : Mem Nat V) (sched : List ι) :
    Prop where
  /-- program counter and values loaded: as in the solo run with as many steps -/
  loc : ∀ i, (run (fun i => (progCall (P i) Res out).toThread)
      (initConfig (fun i => progCall (P i) Res out) m0) sched).loc i =
    (runAlone (progCall (P i) Res out).toThread (sched.count i) ((progCall (P i) Res out).init, m0)).1
  /-- a call that has returned `r` returns `r` alone -/
  returned_alone : ∀ i r, (progCall (P i) Res out).result
      ((run (fun i => (progCall (P i) Res out).toThread)
        (initConfig (fun i => progCall (P i) Res out) m0) sched).loc i) = some r →
    (progCall (P i) Res out).ReturnsAlone m0 r
  /-- a call that got all its steps has returned THE result of its solo run -/
  returns : ∀ i, (P i).length ≤ sched.count i →
    ∃ r, (progCall (P i) Res out).ReturnsAlone m0 r ∧
      (∀ r', (progCall (P i) Res out).ReturnsAlone m0 r' → r' = r) ∧
      (progCall (P i) Res out).result
        ((run (fun i => (progCall (P i) Res out).toThread)
          (initConfig (fun i => progCall (P i) Res out) m0) sched).loc i) = some r
  /-- its own bytes: as its solo run with as many steps leaves them -/
  own_mem : ∀ i l, own i l →
    (run (fun i => (progCall (P i) Res out).toThread)
      (initConfig (fun i => progCall (P i) Res out) m0) sched).mem l =
    (runAlone (progCall (P i) Res out).toThread (sched.count i)
      ((progCall (P i) Res out).init, m0)).2 l
  /-- … and, once it got all its steps, as its complete solo run leaves them -/
  own_final : ∀ i, (P i).length ≤ sched.count i → ∀ l, own i l →
    (run (fun i => (progCall (P i) Res out).toThread)
      (initConfig (fun i => progCall (P i) Res out) m0) sched).mem l =
    (runAlone (progCall (P i) Res out).toThread (P i).length
      ((progCall (P i) Res out).init, m0)).2 l
  /-- bytes nobody owns (the shared inputs) are unchanged -/
  rest : ∀ l, (∀ i, ¬ own i l) →
    (run (fun i => (progCall (P i) Res out).toThread)
      (initConfig (fun i => progCall (P i) Res out) m0) sched).mem l = m0 l

theorem Independent.of_own_iff {ι V : Type} [DecidableEq ι] {P : ι → List (Instr Nat V)}
    {own own' : ι → Nat → Prop} {Res : Type} {out : List V → Res} {m0 : Mem Nat V} {sched : List ι}
    (h : Independent P own Res out m0 sched) (hiff : ∀ i l, own' i l ↔ own i l) :
    Independent P own' Res out m0 sched where
  loc := h.loc
  returned_alone := h.returned_alone
  returns := h.returns
  own_mem := fun i l hl => h.own_mem i l ((hiff i l).mp hl)
  own_final := fun i hle l hl => h.own_final i hle l ((hiff i l).mp hl)
  rest := fun l hl => h.rest l (fun i ho => hl i ((hiff i l).mpr ho))

/-- **The composition.**  Any number of calls of the assembly routines (sealAsm, openAsm,
    cryptoBlockAsm*, expandKeyAsm; mixed), each with its regions placed in one flat memory, such
    that no call's dst / temp meets any region another call uses (inputs may be shared): under EVERY
    interleaving of their byte accesses each call is `Independent` of the others. -/
theorem asm_calls_concurrent {ι V : Type} [DecidableEq ι] (c : ι → AsmCall) (hv : ∀ i, (c i).Valid)
    (place : ι → Region → Nat)
    (hap : ∀ i j, i ≠ j → CallsApart (c i) (place i) (c j) (place j))
    (f : ι → Nat → List V → V) (Res : Type) (out : List V → Res) (m0 : Mem Nat V) (sched : List ι) :
    Independent (fun i => (c i).prog (place i) (f i)) (fun i => (c i).own (place i)) Res out m0
      sched := by
  have hsep := asm_progs_separated c hv place hap f
  -- `concurrent_calls` with the region-level owned sets
  have hfp : ∀ i, Footprint (progCall ((c i).prog (place i) (f i)) Res out).toThread
      (progReads ((c i).prog (place i) (f i))) ((c i).own (place i)) := fun i =>
    footprint_mono _ _ _ _ _ (C17.prog_footprint ((c i).prog (place i) (f i)))
      (fun l hl => Or.inl hl) (fun l hl => (c i).progWrites_own (hv i) (place i) (f i) l hl)
  have hown : ∀ i j, i ≠ j → ∀ l, (c i).own (place i) l → ¬ (c j).own (place j) l :=
    fun i j hij l hi hj => (hap i j hij).disjoint l hi ((c j).own_foot _ l hj)
  have hcc := C17.concurrent_calls (fun i => progCall ((c i).prog (place i) (f i)) Res out)
    (fun l => ∀ j, ¬ (c j).own (place j) l)
    (fun i => progReads ((c i).prog (place i) (f i))) (fun i => (c i).own (place i)) hfp
    (by
      intro i l hl
      by_cases ho : (c i).own (place i) l
      · exact Or.inr ho
      · refine Or.inl (fun j hj => ?_)
        by_cases hij : j = i
        · subst hij; exact ho hj
        · exact (hap j i hij).disjoint l hj ((c i).progReads_foot (hv i) (place i) (f i) l hl))
    hown (fun i l ho hs => hs i ho)
    (fun i => Proofs.Interleave.progCall_halts _ Res out) m0 sched
  -- `schedule_independence` for the local states
  have hsi := C17.schedule_independence
    (fun i => (progCall ((c i).prog (place i) (f i)) Res out).toThread)
    (fun i => progReads ((c i).prog (place i) (f i))) (fun i => progWrites ((c i).prog (place i) (f i)))
    (fun i => C17.prog_footprint _) hsep
    (initConfig (fun i => progCall ((c i).prog (place i) (f i)) Res out) m0) sched
  refine ⟨hsi.1, hcc.1, ?_, hcc.2.2.1, ?_, fun l hl => hcc.2.2.2 l hl⟩
  · -- `prog_calls_schedule_independent`
    intro i hle
    obtain ⟨r, hr, hres⟩ := C17.prog_calls_schedule_independent
      (fun i => (c i).prog (place i) (f i)) Res out hsep m0 sched i hle
    exact ⟨r, hr, fun r' hr' => C17.alone_result_unique _
      (Proofs.Interleave.progCall_halts _ Res out) m0 r' r hr' hr, hres⟩
  · intro i hle l hl
    rw [hcc.2.2.1 i l hl]
    obtain ⟨r, hr⟩ := Proofs.Interleave.progCall_returns ((c i).prog (place i) (f i)) Res out m0
    have := Proofs.Interleave.runAlone_halted (progCall ((c i).prog (place i) (f i)) Res out)
      (Proofs.Interleave.progCall_halts _ Res out) m0 _ r hr
      (sched.count i - ((c i).prog (place i) (f i)).length)
    rw [show ((c i).prog (place i) (f i)).length +
      (sched.count i - ((c i).prog (place i) (f i)).length) = sched.count i by omega] at this
    rw [this]

/-! ### the routines, spelled out -/

/-- the access program of a sealAsm call: C11's `sealModel`, placed, byte by byte -/
abbrev sealProg {V : Type} (tagSize nl pl al : Nat) (place : Region → Nat) (f : Nat → List V → V) :
    List (Instr Nat V) :=
  accessProg f ((sealModel tagSize nl pl al).map (placeAccess place))

/-- the access program of an openAsm call with the given outcome of the tag comparison -/
abbrev openProg {V : Type} (tagSize nl cl al : Nat) (tagOk : Bool) (place : Region → Nat)
    (f : Nat → List V → V) : List (Instr Nat V) :=
  accessProg f ((openModel tagSize nl cl al tagOk).map (placeAccess place))

/-- the access program of a cryptoBlockAsm call (`Block.Encrypt` / `Block.Decrypt`) -/
abbrev blockProg {V : Type} (place : Region → Nat) (f : Nat → List V → V) : List (Instr Nat V) :=
  accessProg f (blockModel.map (placeAccess place))

theorem seal_own_iff (t nl pl al : Nat) (place : Region → Nat) (l : Nat) :
    ((place aDst ≤ l ∧ l < place aDst + (pl + t)) ∨ (place aTmp ≤ l ∧ l < place aTmp + 32)) ↔
    (AsmCall.sealAsm t nl pl al).own place l := by
  constructor
  · rintro (h | h)
    · exact ⟨aDst, by simp [AsmCall.writeRegions], h⟩
    · exact ⟨aTmp, by simp [AsmCall.writeRegions], h⟩
  · rintro ⟨r, hr, h⟩
    simp only [AsmCall.writeRegions, List.mem_cons, List.mem_nil_iff, or_false] at hr
    rcases hr with rfl | rfl
    · exact Or.inl h
    · exact Or.inr h

theorem open_own_iff (t nl cl al : Nat) (ok : Bool) (place : Region → Nat) (l : Nat) :
    ((place aDst ≤ l ∧ l < place aDst + (cl - t)) ∨ (place aTmp ≤ l ∧ l < place aTmp + 32)) ↔
    (AsmCall.openAsm t nl cl al ok).own place l := by
  constructor
  · rintro (h | h)
    · exact ⟨aDst, by simp [AsmCall.writeRegions], h⟩
    · exact ⟨aTmp, by simp [AsmCall.writeRegions], h⟩
  · rintro ⟨r, hr, h⟩
    simp only [AsmCall.writeRegions, List.mem_cons, List.mem_nil_iff, or_false] at hr
    rcases hr with rfl | rfl
    · exact Or.inl h
    · exact Or.inr h

theorem block_own_iff (place : Region → Nat) (l : Nat) :
    (place (.arg 16) ≤ l ∧ l < place (.arg 16) + 16) ↔ AsmCall.cryptoBlockAsm.own place l := by
  constructor
  · intro h
    exact ⟨.arg 16, by simp [AsmCall.writeRegions], h⟩
  · rintro ⟨r, hr, h⟩
    simp only [AsmCall.writeRegions, List.mem_cons, List.mem_nil_iff, or_false] at hr
    subst hr
    exact h

/-- **sealAsm, any number of concurrent calls** (audit finding C17-1).  Call `i` has tag size
    `tagSize i` (12..16), nonce / plaintext / additional-data lengths `nl i`, `pl i`, `al i` (ANY
    lengths) and its argument regions at `place i`.  Premise: for `i ≠ j` the `pl i + tagSize i`
    bytes at `dst_i` and the 32 bytes at `temp_i` meet no region call `j` uses (its round keys,
    dst, nonce, plaintext, additional data, temp, the symbols).  Round keys, nonce, plaintext,
    additional data, symbols may be the same memory for all calls.  Then under every interleaving
    of the byte accesses of the programs `accessProg (f i) ((sealModel …).map (placeAccess (place i)))`
    each call is `Independent`: it loads the values, returns the result and leaves in its dst and
    temp the bytes of its solo run; all other memory is unchanged. -/
theorem sealAsm_concurrent {ι V : Type} [DecidableEq ι] (tagSize nl pl al : ι → Nat)
    (h12 : ∀ i, 12 ≤ tagSize i) (h16 : ∀ i, tagSize i ≤ 16) (place : ι → Region → Nat)
    (hap : ∀ i j, i ≠ j → ∀ r ∈ [aDst, aTmp], ∀ r' ∈ gcmRegions,
      IvApart (place i r) (sealSize (tagSize i) (nl i) (pl i) (al i) r)
        (place j r') (sealSize (tagSize j) (nl j) (pl j) (al j) r'))
    (f : ι → Nat → List V → V) (Res : Type) (out : List V → Res) (m0 : Mem Nat V) (sched : List ι) :
    Independent (fun i => sealProg (tagSize i) (nl i) (pl i) (al i) (place i) (f i))
      (fun i l => (place i aDst ≤ l ∧ l < place i aDst + (pl i + tagSize i)) ∨
        (place i aTmp ≤ l ∧ l < place i aTmp + 32)) Res out m0 sched :=
  (asm_calls_concurrent (fun i => .sealAsm (tagSize i) (nl i) (pl i) (al i))
    (fun i => ⟨h12 i, h16 i⟩) place (fun i j hij => hap i j hij) f Res out m0 sched).of_own_iff
    (fun i l => seal_own_iff (tagSize i) (nl i) (pl i) (al i) (place i) l)

/-- **openAsm, any number of concurrent calls**, each with either outcome `tagOk i` of its tag
    comparison; `cl i` = length of the ciphertext including the tag.  The ciphertext, like all
    inputs, may be shared (`old_open_depends_on_order` in Props/C17.lean: before repair 25081bb
    it could not). -/
theorem openAsm_concurrent {ι V : Type} [DecidableEq ι] (tagSize nl cl al : ι → Nat)
    (tagOk : ι → Bool) (h12 : ∀ i, 12 ≤ tagSize i) (h16 : ∀ i, tagSize i ≤ 16)
    (hcl : ∀ i, tagSize i ≤ cl i) (place : ι → Region → Nat)
    (hap : ∀ i j, i ≠ j → ∀ r ∈ [aDst, aTmp], ∀ r' ∈ gcmRegions,
      IvApart (place i r) (openSize (tagSize i) (nl i) (cl i) (al i) r)
        (place j r') (openSize (tagSize j) (nl j) (cl j) (al j) r'))
    (f : ι → Nat → List V → V) (Res : Type) (out : List V → Res) (m0 : Mem Nat V) (sched : List ι) :
    Independent (fun i => openProg (tagSize i) (nl i) (cl i) (al i) (tagOk i) (place i) (f i))
      (fun i l => (place i aDst ≤ l ∧ l < place i aDst + (cl i - tagSize i)) ∨
        (place i aTmp ≤ l ∧ l < place i aTmp + 32)) Res out m0 sched :=
  (asm_calls_concurrent (fun i => .openAsm (tagSize i) (nl i) (cl i) (al i) (tagOk i))
    (fun i => ⟨h12 i, h16 i, hcl i⟩) place (fun i j hij => hap i j hij) f Res out m0 sched).of_own_iff
    (fun i l => open_own_iff (tagSize i) (nl i) (cl i) (al i) (tagOk i) (place i) l)

/-- **cryptoBlockAsm (`Block.Encrypt` / `Block.Decrypt`), any number of concurrent calls**: the 16
    bytes at `dst_i` meet no other call's round keys, dst, src or symbols; round keys and source
    blocks may be shared. -/
theorem cryptoBlockAsm_concurrent {ι V : Type} [DecidableEq ι] (place : ι → Region → Nat)
    (hap : ∀ i j, i ≠ j → ∀ r' ∈ kernelRegions,
      IvApart (place i (.arg 16)) 16 (place j r') (blockSize 1 r'))
    (f : ι → Nat → List V → V) (Res : Type) (out : List V → Res) (m0 : Mem Nat V) (sched : List ι) :
    Independent (fun i => blockProg (place i) (f i))
      (fun i l => place i (.arg 16) ≤ l ∧ l < place i (.arg 16) + 16) Res out m0 sched :=
  (asm_calls_concurrent (fun _ => .cryptoBlockAsm) (fun _ => trivial) place
    (by
      intro i j hij r hr r' hr'
      simp only [AsmCall.writeRegions, List.mem_cons, List.mem_nil_iff, or_false] at hr
      subst hr
      exact hap i j hij r' hr')
    f Res out m0 sched).of_own_iff (fun i l => block_own_iff (place i) l)

/-- **Two sealAsm calls** (thread `false`: the first, thread `true`: the second) -/
theorem sealAsm_concurrent_two {V : Type} (t1 nl1 pl1 al1 t2 nl2 pl2 al2 : Nat)
    (ht1 : 12 ≤ t1 ∧ t1 ≤ 16) (ht2 : 12 ≤ t2 ∧ t2 ≤ 16) (place1 place2 : Region → Nat)
    (h12 : ∀ r ∈ [aDst, aTmp], ∀ r' ∈ gcmRegions,
      IvApart (place1 r) (sealSize t1 nl1 pl1 al1 r) (place2 r') (sealSize t2 nl2 pl2 al2 r'))
    (h21 : ∀ r ∈ [aDst, aTmp], ∀ r' ∈ gcmRegions,
      IvApart (place2 r) (sealSize t2 nl2 pl2 al2 r) (place1 r') (sealSize t1 nl1 pl1 al1 r'))
    (f1 f2 : Nat → List V → V) (Res : Type) (out : List V → Res) (m0 : Mem Nat V)
    (sched : List Bool) :
    Independent
      (fun b : Bool => sealProg (cond b t2 t1) (cond b nl2 nl1) (cond b pl2 pl1) (cond b al2 al1)
        (cond b place2 place1) (cond b f2 f1))
      (fun b l =>
        (cond b place2 place1 aDst ≤ l ∧
          l < cond b place2 place1 aDst + (cond b pl2 pl1 + cond b t2 t1)) ∨
        (cond b place2 place1 aTmp ≤ l ∧ l < cond b place2 place1 aTmp + 32)) Res out m0 sched :=
  sealAsm_concurrent (fun b => cond b t2 t1) (fun b => cond b nl2 nl1) (fun b => cond b pl2 pl1)
    (fun b => cond b al2 al1) (fun b => by cases b; exact ht1.1; exact ht2.1)
    (fun b => by cases b; exact ht1.2; exact ht2.2) (fun b => cond b place2 place1)
    (by
      intro i j hij
      cases i <;> cases j
      · exact absurd rfl hij
      · exact h12
      · exact h21
      · exact absurd rfl hij)
    (fun b => cond b f2 f1) Res out m0 sched

/-! ### openAsm with its data-dependent branch inside the thread -/

/-- a thread that makes the steps of `t` as long as `go` holds of its local state, and stands
    still otherwise -/
def guardThread {Loc V : Type} (t : Thread Loc V) (go : t.St → Bool) : Thread Loc V :=
  { St := t.St
    step := fun s m => if go s = true then t.step s m else (s, m) }

/-- stopping early does not enlarge the footprint -/
theorem guard_footprint {Loc V : Type} (t : Thread Loc V) (go : t.St → Bool) (R W : Loc → Prop)
    (h : Footprint t R W) : Footprint (guardThread t go) R W where
  reads := by
    intro s m m' hag
    show (if go s = true then t.step s m else (s, m)).1 = (if go s = true then t.step s m' else (s, m')).1 ∧
      ∀ l, W l → (if go s = true then t.step s m else (s, m)).2 l =
        (if go s = true then t.step s m' else (s, m')).2 l
    by_cases hg : go s = true
    · simp only [hg, if_true]; exact h.reads s m m' hag
    · simp only [hg]; exact ⟨rfl, fun l hl => hag l (Or.inr hl)⟩
  writes := by
    intro s m l hl
    show (if go s = true then t.step s m else (s, m)).2 l = m l
    by_cases hg : go s = true
    · simp only [hg, if_true]; exact h.writes s m l hl
    · simp only [hg]; rfl

/-- the thread of a call that executes its access program in order and MAY STOP at a point that
    depends, through an arbitrary `go`, on its program counter and on everything it has loaded -/
abbrev AsmCall.guardedThread {V : Type} (c : AsmCall) (place : Region → Nat) (f : Nat → List V → V)
    (go : Nat × List V → Bool) : Thread Nat V :=
  guardThread (progThread (c.prog place f)) go

/-- every call at the start of its program -/
abbrev guardedStart {ι V : Type} (c : ι → AsmCall) (place : ι → Region → Nat)
    (f : ι → Nat → List V → V) (go : ι → Nat × List V → Bool) (m0 : Mem Nat V) :
    Config (fun i => (c i).guardedThread (place i) (f i) (go i)) :=
  { loc := fun _ => ((0, []) : Nat × List V), mem := m0 }

/-- **The composition for threads that may stop early**: as `asm_calls_concurrent`, for the
    guarded threads — under every schedule local states and dst / temp bytes are those of the solo
    runs, the rest of the memory is unchanged. -/
theorem asm_guarded_calls_concurrent {ι V : Type} [DecidableEq ι] (c : ι → AsmCall)
    (hv : ∀ i, (c i).Valid) (place : ι → Region → Nat)
    (hap : ∀ i j, i ≠ j → CallsApart (c i) (place i) (c j) (place j))
    (f : ι → Nat → List V → V) (go : ι → Nat × List V → Bool) (m0 : Mem Nat V) (sched : List ι) :
    (∀ i, (run _ (guardedStart c place f go m0) sched).loc i =
      (runAlone ((c i).guardedThread (place i) (f i) (go i)) (sched.count i) ((0, []), m0)).1) ∧
    (∀ i l, (c i).own (place i) l → (run _ (guardedStart c place f go m0) sched).mem l =
      (runAlone ((c i).guardedThread (place i) (f i) (go i)) (sched.count i) ((0, []), m0)).2 l) ∧
    (∀ l, (∀ i, ¬ (c i).own (place i) l) →
      (run _ (guardedStart c place f go m0) sched).mem l = m0 l) := by
  have hfp : ∀ i, Footprint ((c i).guardedThread (place i) (f i) (go i))
      (progReads ((c i).prog (place i) (f i))) ((c i).own (place i)) := fun i =>
    guard_footprint _ _ _ _ (footprint_mono _ _ _ _ _ (C17.prog_footprint ((c i).prog (place i) (f i)))
      (fun l hl => Or.inl hl) (fun l hl => (c i).progWrites_own (hv i) (place i) (f i) l hl))
  have hsep : Separated (fun i => progReads ((c i).prog (place i) (f i)))
      (fun i => (c i).own (place i)) := by
    intro i j hij l ho hc
    apply (hap i j hij).disjoint l ho
    rcases hc with hc | hc
    · exact (c j).progReads_foot (hv j) (place j) (f j) l hc
    · exact (c j).own_foot _ l hc
  exact C17.schedule_independence _ _ _ hfp hsep (guardedStart c place f go m0) sched

/-- the two access lists of openAsm: the accesses on a tag mismatch are a PREFIX of those on a
    match — everything up to and including the tag comparison; a match continues with the
    decryption kernels -/
theorem openProg_true_eq {V : Type} (tagSize nl cl al : Nat) (place : Region → Nat)
    (f : Nat → List V → V) :
    openProg tagSize nl cl al true place f =
      openProg tagSize nl cl al false place f ++
        accessProg f ((kernels aRk aDst aText aTmp (cl - tagSize) 0 false).map (placeAccess place)) := by
  simp [openProg, openModel, accessProg, List.flatMap_append]

/-- **openAsm as one thread**: the accesses up to the tag comparison; then — iff `verdict` of the
    values loaded so far says so — the decryption kernels.  (The real verdict is a function of
    the values loaded up to the comparison; `verdict` is arbitrary.) -/
abbrev openAsmThread {V : Type} (tagSize nl cl al : Nat) (place : Region → Nat)
    (f : Nat → List V → V) (verdict : List V → Bool) : Thread Nat V :=
  (AsmCall.openAsm tagSize nl cl al true).guardedThread place f
    (fun s => decide (s.1 < (openProg tagSize nl cl al false place f).length) || verdict s.2)

/-- what a step of `openAsmThread` is: before the end of the tag comparison, and after it iff the
    verdict says so, the next byte access of the access list; otherwise nothing -/
theorem openAsmThread_step {V : Type} (tagSize nl cl al : Nat) (place : Region → Nat)
    (f : Nat → List V → V) (verdict : List V → Bool) (s : Nat × List V) (m : Mem Nat V) :
    (openAsmThread tagSize nl cl al place f verdict).step s m =
      if s.1 < (openProg tagSize nl cl al false place f).length ∨ verdict s.2 = true then
        (progThread (openProg tagSize nl cl al true place f)).step s m
      else (s, m) := by
  show (if (decide (s.1 < (openProg tagSize nl cl al false place f).length) || verdict s.2) = true
    then (progThread (openProg tagSize nl cl al true place f)).step s m else (s, m)) = _
  simp only [Bool.or_eq_true, decide_eq_true_eq]

/-- **openAsm with the branch inside, any number of concurrent calls** (premise as in
    `openAsm_concurrent`): under every schedule each call has loaded what it loads alone — hence
    takes the branch it takes alone —, its dst and temp hold what its solo run leaves there, all
    other memory is unchanged. -/
theorem openAsm_branching_concurrent {ι V : Type} [DecidableEq ι] (tagSize nl cl al : ι → Nat)
    (h12 : ∀ i, 12 ≤ tagSize i) (h16 : ∀ i, tagSize i ≤ 16) (hcl : ∀ i, tagSize i ≤ cl i)
    (place : ι → Region → Nat)
    (hap : ∀ i j, i ≠ j → ∀ r ∈ [aDst, aTmp], ∀ r' ∈ gcmRegions,
      IvApart (place i r) (openSize (tagSize i) (nl i) (cl i) (al i) r)
        (place j r') (openSize (tagSize j) (nl j) (cl j) (al j) r'))
    (f : ι → Nat → List V → V) (verdict : ι → List V → Bool) (m0 : Mem Nat V) (sched : List ι) :
    (∀ i, (run (fun i => openAsmThread (tagSize i) (nl i) (cl i) (al i) (place i) (f i) (verdict i))
        { loc := fun _ => ((0, []) : Nat × List V), mem := m0 } sched).loc i =
      (runAlone (openAsmThread (tagSize i) (nl i) (cl i) (al i) (place i) (f i) (verdict i))
        (sched.count i) ((0, []), m0)).1) ∧
    (∀ i l, (place i aDst ≤ l ∧ l < place i aDst + (cl i - tagSize i)) ∨
        (place i aTmp ≤ l ∧ l < place i aTmp + 32) →
      (run (fun i => openAsmThread (tagSize i) (nl i) (cl i) (al i) (place i) (f i) (verdict i))
        { loc := fun _ => ((0, []) : Nat × List V), mem := m0 } sched).mem l =
      (runAlone (openAsmThread (tagSize i) (nl i) (cl i) (al i) (place i) (f i) (verdict i))
        (sched.count i) ((0, []), m0)).2 l) ∧
    (∀ l, (∀ i, ¬ ((place i aDst ≤ l ∧ l < place i aDst + (cl i - tagSize i)) ∨
        (place i aTmp ≤ l ∧ l < place i aTmp + 32))) →
      (run (fun i => openAsmThread (tagSize i) (nl i) (cl i) (al i) (place i) (f i) (verdict i))
        { loc := fun _ => ((0, []) : Nat × List V), mem := m0 } sched).mem l = m0 l) := by
  have h := asm_guarded_calls_concurrent (fun i => .openAsm (tagSize i) (nl i) (cl i) (al i) true)
    (fun i => ⟨h12 i, h16 i, hcl i⟩) place (fun i j hij => hap i j hij) f
    (fun i s => decide (s.1 < (openProg (tagSize i) (nl i) (cl i) (al i) false (place i) (f i)).length)
      || verdict i s.2) m0 sched
  refine ⟨h.1, fun i l hl => h.2.1 i l ((open_own_iff _ _ _ _ _ _ l).mp hl), fun l hl => h.2.2 l ?_⟩
  intro i ho
  exact hl i ((open_own_iff _ _ _ _ _ _ l).mpr ho)

/-! ### non-vacuity -/

section examples

/-- a memory layout: round keys at 0 (128 bytes), nonce at 200, text at 300, additional data at
    400, the 16 symbols at 1000 + 128·i — the SAME for every call — and the call's own `dst` and
    `temp` -/
def exPlace (dst tmp : Nat) : Region → Nat
  | .arg 8 => 0
  | .arg 24 => dst
  | .arg 32 => 200
  | .arg 56 => 300
  | .arg 80 => 400
  | .arg 104 => tmp
  | .arg _ => 0
  | .sym i => 1000 + 128 * i

set_option maxRecDepth 100000 in
/-- **two Seals of ONE plaintext (20 bytes, nonce 12, additional data 5, tag 16) under ONE key**:
    shared round keys, nonce, plaintext, additional data, symbols; destinations at 4000 and 5000,
    scratch blocks at 4100 and 5100.  The premise holds in both directions … -/
example :
    CallsApart (.sealAsm 16 12 20 5) (exPlace 4000 4100) (.sealAsm 16 12 20 5) (exPlace 5000 5100) ∧
    CallsApart (.sealAsm 16 12 20 5) (exPlace 5000 5100) (.sealAsm 16 12 20 5) (exPlace 4000 4100) := by
  decide

set_option maxRecDepth 100000 in
/-- … so `sealAsm_concurrent_two` applies: whatever sealAsm computes (`f1`, `f2`), whatever is in
    memory, whatever the schedule -/
example {V : Type} (f1 f2 : Nat → List V → V) (m0 : Mem Nat V) (sched : List Bool) :
    Independent
      (fun b : Bool => sealProg (cond b 16 16) (cond b 12 12) (cond b 20 20) (cond b 5 5)
        (cond b (exPlace 5000 5100) (exPlace 4000 4100)) (cond b f2 f1))
      (fun b l =>
        (cond b (exPlace 5000 5100) (exPlace 4000 4100) aDst ≤ l ∧
          l < cond b (exPlace 5000 5100) (exPlace 4000 4100) aDst + (cond b 20 20 + cond b 16 16)) ∨
        (cond b (exPlace 5000 5100) (exPlace 4000 4100) aTmp ≤ l ∧
          l < cond b (exPlace 5000 5100) (exPlace 4000 4100) aTmp + 32))
      (List V) id m0 sched :=
  sealAsm_concurrent_two 16 12 20 5 16 12 20 5 (by decide) (by decide) _ _ (by decide) (by decide)
    f1 f2 (List V) id m0 sched

set_option maxRecDepth 100000 in
/-- the programs are not empty: this Seal makes 1,186 byte accesses, 121 of them stores -/
example : (sealProg (V := Nat) 16 12 20 5 (exPlace 4000 4100) (fun _ _ => 0)).length = 1186 ∧
    ((sealModel 16 12 20 5).filter (·.write)).foldl (· + ·.width) 0 = 121 := by
  decide

set_option maxRecDepth 100000 in
/-- THE PREMISE CAN FAIL: the same `dst` for both calls; a `dst` inside the other call's plaintext;
    a `temp` shared by both calls -/
example :
    ¬ CallsApart (.sealAsm 16 12 20 5) (exPlace 4000 4100) (.sealAsm 16 12 20 5) (exPlace 4000 5100) ∧
    ¬ CallsApart (.sealAsm 16 12 20 5) (exPlace 310 4100) (.sealAsm 16 12 20 5) (exPlace 5000 5100) ∧
    ¬ CallsApart (.sealAsm 16 12 20 5) (exPlace 4000 4100) (.sealAsm 16 12 20 5) (exPlace 5000 4100) := by
  decide

/-- in-place use is not excluded WITHIN a call: call 0 seals its own buffer at 6000 in place
    (`dst` = plaintext), call 1 seals the shared plaintext at 300 into 5000 -/
def exInPlace : Region → Nat
  | .arg 24 => 6000
  | .arg 56 => 6000
  | r => exPlace 0 4100 r

set_option maxRecDepth 100000 in
example :
    CallsApart (.sealAsm 16 12 20 5) exInPlace (.sealAsm 16 12 20 5) (exPlace 5000 5100) ∧
    CallsApart (.sealAsm 16 12 20 5) (exPlace 5000 5100) (.sealAsm 16 12 20 5) exInPlace := by
  decide

/-- **a Seal, an Open and an Encrypt on ONE key at once**: the round keys at 0 are `roundKeys` of
    the AEAD value and `enc` of the Block value (in `sm4GcmAsm` they are the same array); the Open
    reads a 36-byte ciphertext at 300 (the Seal's plaintext buffer, for the sake of sharing), the
    Encrypt reads its block there too -/
def exCalls : Fin 3 → AsmCall
  | 0 => .sealAsm 16 12 20 5
  | 1 => .openAsm 16 12 36 5 true
  | 2 => .cryptoBlockAsm

def exPlaces : Fin 3 → Region → Nat
  | 0 => exPlace 4000 4100
  | 1 => exPlace 5000 5100
  | 2 => fun r => match r with
    | .arg 16 => 7000
    | .arg 24 => 300
    | r => exPlace 0 0 r

set_option maxRecDepth 100000 in
theorem exCalls_apart : ∀ i j, i ≠ j → CallsApart (exCalls i) (exPlaces i) (exCalls j) (exPlaces j) := by
  decide

set_option maxRecDepth 100000 in
example {V : Type} (f : Fin 3 → Nat → List V → V) (m0 : Mem Nat V) (sched : List (Fin 3)) :
    Independent (fun i => (exCalls i).prog (exPlaces i) (f i)) (fun i => (exCalls i).own (exPlaces i))
      (List V) id m0 sched :=
  asm_calls_concurrent exCalls (by decide) exPlaces exCalls_apart f (List V) id m0 sched

end examples

#print axioms asm_progs_separated
#print axioms asm_calls_concurrent
#print axioms sealAsm_concurrent
#print axioms openAsm_concurrent
#print axioms cryptoBlockAsm_concurrent
#print axioms sealAsm_concurrent_two
#print axioms asm_guarded_calls_concurrent
#print axioms openProg_true_eq
#print axioms openAsmThread_step
#print axioms openAsm_branching_concurrent
#print axioms exCalls_apart

end SMGo.Props.C17Compose
