/-
  Property C05, portable path — the model REGENERATED from the Go source.

  `SMGo/Gen/SM4Code.lean` is written by the translator `gosm4` (go/cmd/translate/gosm4.go) from /repo/sm4/sm4.go on every
  check: one `let` per Go statement for `tau`, `transTPrime`, `ss`, `ssX2`, `cryptoBlock` (32 unrolled round
  statements), `cryptoBlockX2` (two blocks in 64-bit words), `byte16ToUint32`, `expandKey` (its loop unrolled by the
  translator), `newCipherGeneric`, `newCipher` (sm4_generic.go), `NewCipher` (the key-length test), and the `cipher.Block`
  call sites `(*sm4Cipher).Encrypt`, `Decrypt`, `encryptX2`, `decryptX2` (guards with their panic messages, reslices,
  argument order, choice of `enc` / `dec`; section "the `cipher.Block` call sites" below).
  Bounds, in two parts.  (1) Look-ups in the PACKAGE-LEVEL tables regenerated from sm4_const.go (`Gen.SM4Const`: sbox,
  s0..s3, ck) go through `arrGet`, which takes a PROOF that the index is in range (a byte index `0xff & e` into 256
  entries, or a constant): for these there is no default value and no out-of-range case.  (2) Everything reached through
  PARAMETERS and LOCALS is total list code with defaults: `rk.getD i 0`, `mks.getD i 0`, `List.set`, `slice` (take/drop),
  `beUint32` (`getD`) and `putUint32` (`set`) never fail in Lean; Go's run-time bounds checks on them are not in the
  definitions but in the generated predicates `<fn>_pre` (all these indices and slice bounds are constants; the translator
  checks them against declared array lengths and collects the minimal slice lengths).  The theorems below pin `_pre` from
  both sides: every `gen_…_eq_model` / `…_eq_spec` theorem has it as its hypothesis (under `_pre` the total Lean code is
  the Go code, no default is ever produced), and the call-shape theorems (`gen_cryptoBlock_eq_spec_block`,
  `gen_cryptoBlockX2_eq_spec`, `C05_portable_gen`, `gen_NewCipher_rejects/accepts`) discharge it from what the callers in
  sm4.go establish (exact lengths 16 / 32; `NewCipher` reaches `expandKey` only after its own length test).  Outside
  `_pre` the Lean value is a default-filled list while Go panics: no statement is made there.

  This file states that the generated definitions EQUAL the hand-written model `SMGo/Model/SM4Block.lean` (the object
  of Props/C05.lean) for ALL inputs, and composes with the lemmas behind Props/C05.lean: the generated code computes
  the GB/T 32907 permutation and its inverse.  With it, "hand-written model ↔ Go code" is no longer an
  assumption backed by testing for the portable path: the trusted step is the translator (Go syntax → `let`s) and the
  prelude `SMGo/Model/GoPreludeSM4.lean` (BitVec for uint32/uint64, `binary.BigEndian.Uint32/PutUint32`, slicing).

  Encodings (explicit in every statement):
    uint32 / uint64   `W32 = BitVec 32` / `W64 = BitVec 64`
    []byte            `Bytes = List UInt8`; a function that writes a slice / array parameter returns its new contents
                      (`cryptoBlock x y rk` is `y` after the call; `expandKey mk enc dec` is `(enc, dec)` after the call)
    *[32]uint32       `List W32` of length 32 (hypothesis `… .length = 32`, part of the generated `…_pre`)
    (cipher.Block, error)   `Outcome sm4Cipher`: `.err` = `return nil, KeySizeError(k)`, `.ok c` = `return &c, nil`
  `…_pre` (generated) lists the lengths under which no run-time bounds check of the Go function fails; the
  theorems assume it (the callers in sm4.go pass `src[:BlockSize]`, `dst[:BlockSize]`, a key of checked length and
  `&sm4.enc`, `&sm4.dec`).  The value-level reading of `cryptoBlock(x, y, rk)` is faithful also when `x` and `y` share
  memory because every read of `x` precedes the first write to `y` — the translator checks this and stops otherwise.
-/
import SMGo.Spec.SM4
import SMGo.Gen.SM4Code
import SMGo.Model.SM4Inst
import SMGo.Proofs.SM4Gen
import SMGo.Proofs.SM4GenBlock
import SMGo.Proofs.SM4GenKey
import SMGo.Proofs.SM4Block
import SMGo.Proofs.SM4X2
import SMGo.Proofs.SM4Key
import SMGo.Proofs.SM4Inverse
namespace SMGo.Props.C05Gen
open SMGo

/-- the hand-written model instantiated with the tables generated from sm4_const.go (as in Props/C05.lean) -/
abbrev tb : Model.SM4.Tables := Model.SM4.genTables

/-! ### helper functions: generated = hand-written model (= specification) -/

/-- the regenerated tables have the lengths of the Go array types (`[256]byte`, `[256]uint32`, `[32]uint32`): what
    `arrGet` relies on -/
theorem gen_table_lengths :
    Gen.SM4Const.sbox.length = 256 ∧ Gen.SM4Const.s0.length = 256 ∧ Gen.SM4Const.s1.length = 256
    ∧ Gen.SM4Const.s2.length = 256 ∧ Gen.SM4Const.s3.length = 256 ∧ Gen.SM4Const.ck.length = 32 :=
  ⟨Gen.SM4Code.sbox_length, Gen.SM4Code.s0_length, Gen.SM4Code.s1_length, Gen.SM4Code.s2_length,
    Gen.SM4Code.s3_length, Gen.SM4Code.ck_length⟩

/-- `ss(t)`: generated code = model -/
theorem gen_ss_eq_model (t : W32) : Gen.SM4Code.ss t = Model.SM4.ss tb t :=
  Proofs.SM4Gen.gen_ss_eq_model t

/-- `ssX2(t)`: generated code = model -/
theorem gen_ssX2_eq_model (t : W64) : Gen.SM4Code.ssX2 t = Model.SM4.ssX2 tb t :=
  Proofs.SM4Gen.gen_ssX2_eq_model t

/-- `tau(a)`: generated code = model -/
theorem gen_tau_eq_model (a : W32) : Gen.SM4Code.tau a = Model.SM4.tau tb a :=
  Proofs.SM4Gen.gen_tau_eq_model a

/-- `transTPrime(a)`: generated code = model -/
theorem gen_transTPrime_eq_model (a : W32) : Gen.SM4Code.transTPrime a = Model.SM4.transTPrime tb a :=
  Proofs.SM4Gen.gen_transTPrime_eq_model a

/-- the generated `ss` is T = L ∘ τ of the standard -/
theorem gen_ss_eq_spec (t : W32) : Gen.SM4Code.ss t = Spec.SM4.T t := by
  rw [gen_ss_eq_model]; exact Proofs.SM4.ss_eq_T t

/-- the generated `tau` is τ of the standard (four S-box look-ups) -/
theorem gen_tau_eq_spec (a : W32) : Gen.SM4Code.tau a = Spec.SM4.tau a := by
  rw [gen_tau_eq_model]; exact Proofs.SM4.tau_eq a

/-- the generated `transTPrime` is T' of the standard -/
theorem gen_transTPrime_eq_spec (a : W32) : Gen.SM4Code.transTPrime a = Spec.SM4.T' a := by
  rw [gen_transTPrime_eq_model]; exact Proofs.SM4.transTPrime_eq a

/-- `byte16ToUint32(bytes, uints)`: the first four entries of `uints` become the four big-endian words of `bytes` -/
theorem gen_byte16ToUint32_eq (bytes : Bytes) (uints : List W32) (h : Gen.SM4Code.byte16ToUint32_pre bytes uints) :
    Gen.SM4Code.byte16ToUint32 bytes uints = (wordsBE bytes).take 4 ++ uints.drop 4 := by
  obtain ⟨x0, x1, x2, x3, x4, x5, x6, x7, x8, x9, x10, x11, x12, x13, x14, x15, xr, rfl⟩ :=
    Proofs.SM4Gen.explicit16 bytes h.1
  obtain ⟨u0, r0, rfl, h0⟩ := Proofs.SM4Gen.cons_of_le uints 3 h.2
  obtain ⟨u1, r1, rfl, h1⟩ := Proofs.SM4Gen.cons_of_le r0 2 h0
  obtain ⟨u2, r2, rfl, h2⟩ := Proofs.SM4Gen.cons_of_le r1 1 h1
  obtain ⟨u3, r3, rfl, _⟩ := Proofs.SM4Gen.cons_of_le r2 0 h2
  simp only [Proofs.SM4.wordsBE_cons4, ← Proofs.SM4Gen.beUint32_4]
  rfl

/-! ### one block, two blocks -/

/-- **`cryptoBlock`: generated code = hand-written model**, for all `x`, `y`, `rk` of the lengths the Go code needs:
    the first 16 bytes of `y` become the model's output block, the rest of `y` is unchanged -/
theorem gen_cryptoBlock_eq_model (x y : Bytes) (rk : List W32) (h : Gen.SM4Code.cryptoBlock_pre x y rk) :
    Gen.SM4Code.cryptoBlock x y rk = Model.SM4.cryptoBlock tb rk x ++ y.drop 16 :=
  Proofs.SM4Gen.gen_cryptoBlock_eq_model x y rk h.1 h.2.1

/-- the generated `cryptoBlock` is the 32 rounds and the reversal R of the standard -/
theorem gen_cryptoBlock_eq_spec (x y : Bytes) (rk : List W32) (h : Gen.SM4Code.cryptoBlock_pre x y rk) :
    Gen.SM4Code.cryptoBlock x y rk = Spec.SM4.crypt rk x ++ y.drop 16 := by
  rw [gen_cryptoBlock_eq_model x y rk h, Proofs.SM4.cryptoBlock_eq rk x h.2.2]

/-- the call shape of `Encrypt`/`Decrypt` (`src[:16]`, `dst[:16]`): the result is exactly the block of the standard -/
theorem gen_cryptoBlock_eq_spec_block (x y : Bytes) (rk : List W32) (hx : x.length = 16) (hy : y.length = 16)
    (hrk : rk.length = 32) : Gen.SM4Code.cryptoBlock x y rk = Spec.SM4.crypt rk x := by
  rw [gen_cryptoBlock_eq_spec x y rk ⟨by omega, by omega, hrk⟩, List.drop_eq_nil_of_le (by omega), List.append_nil]

/-- **`cryptoBlockX2`: generated code = hand-written model** -/
theorem gen_cryptoBlockX2_eq_model (x y : Bytes) (rk : List W32) (h : Gen.SM4Code.cryptoBlockX2_pre x y rk) :
    Gen.SM4Code.cryptoBlockX2 x y rk = Model.SM4.cryptoBlockX2 tb rk x ++ y.drop 32 :=
  Proofs.SM4Gen.gen_cryptoBlockX2_eq_model x y rk h.1 h.2.1

/-- the generated two-block code is the standard's block function on each half (call shape of encryptX2/decryptX2:
    `src[:32]`, `dst[:32]`) -/
theorem gen_cryptoBlockX2_eq_spec (x y : Bytes) (rk : List W32) (hx : x.length = 32) (hy : y.length = 32)
    (hrk : rk.length = 32) :
    Gen.SM4Code.cryptoBlockX2 x y rk = Spec.SM4.crypt rk (x.take 16) ++ Spec.SM4.crypt rk (x.drop 16) := by
  rw [gen_cryptoBlockX2_eq_model x y rk ⟨by omega, by omega, hrk⟩, List.drop_eq_nil_of_le (by omega), List.append_nil,
    Proofs.SM4.cryptoBlockX2_split tb rk x hx, Proofs.SM4.cryptoBlock_eq _ _ hrk, Proofs.SM4.cryptoBlock_eq _ _ hrk]

/-! ### key schedule and constructor -/

/-- **`expandKey`: generated code = hand-written model**: whatever `enc` and `dec` held, afterwards they hold the
    model's round keys -/
theorem gen_expandKey_eq_model (mk : Bytes) (enc dec : List W32) (h : Gen.SM4Code.expandKey_pre mk enc dec) :
    Gen.SM4Code.expandKey mk enc dec = Model.SM4.expandKey tb mk :=
  Proofs.SM4Gen.gen_expandKey_eq_model mk enc dec h.1 h.2.1 h.2.2

/-- the generated `expandKey` yields rk_0..rk_31 of the standard in `enc` and the same reversed in `dec` -/
theorem gen_expandKey_eq_spec (mk : Bytes) (enc dec : List W32) (h : Gen.SM4Code.expandKey_pre mk enc dec) :
    Gen.SM4Code.expandKey mk enc dec = (Spec.SM4.keySchedule mk, (Spec.SM4.keySchedule mk).reverse) := by
  rw [gen_expandKey_eq_model mk enc dec h, Proofs.SM4.expandKey_eq]

/-- the pair of round-key arrays of a constructor result -/
def cipherPair : Outcome Gen.SM4Code.sm4Cipher → Outcome (List W32 × List W32)
  | .ok c => .ok (c.enc, c.dec)
  | .err => .err
  | .panic => .panic

/-- **`NewCipher` (length test, `newCipher` of sm4_generic.go, `newCipherGeneric`, `expandKey`): generated code =
    hand-written model**, for every key of every length -/
theorem gen_NewCipher_eq_model (key : Bytes) :
    cipherPair (Gen.SM4Code.NewCipher key) = Model.SM4.newCipher tb key := by
  by_cases hk : key.length = 16
  · rw [Proofs.SM4Gen.gen_NewCipher_ok key hk]
    simp [cipherPair, Model.SM4.newCipher, hk]
  · rw [Proofs.SM4Gen.gen_NewCipher_err key hk]
    simp [cipherPair, Model.SM4.newCipher, hk]

/-- the generated `NewCipher` rejects every key that is not 16 bytes long (and `expandKey`, whose bounds checks need
    16 bytes, is not reached) -/
theorem gen_NewCipher_rejects (key : Bytes) (hk : key.length ≠ 16) : Gen.SM4Code.NewCipher key = .err :=
  Proofs.SM4Gen.gen_NewCipher_err key hk

/-- the generated `NewCipher` accepts a 16-byte key and holds the round keys of the standard -/
theorem gen_NewCipher_accepts (key : Bytes) (hk : key.length = 16) :
    Gen.SM4Code.NewCipher key
      = .ok { enc := Spec.SM4.keySchedule key, dec := (Spec.SM4.keySchedule key).reverse } := by
  rw [Proofs.SM4Gen.gen_NewCipher_ok key hk, Proofs.SM4.expandKey_eq]

/-! ### composition -/

/-- **C05 for the regenerated portable code**: for every 16-byte key `NewCipher` succeeds, and with the round keys it
    stores, `cryptoBlock` (called as `Encrypt`/`Decrypt` call it: 16-byte source and destination, any old contents `y`,
    `y'` of the destination) computes SM4 encryption and decryption of the standard on every block, and decrypting
    the ciphertext restores the block -/
theorem C05_portable_gen (key blk y y' : Bytes) (hk : key.length = 16) (hb : blk.length = 16) (hy : y.length = 16)
    (hy' : y'.length = 16) :
    ∃ c, Gen.SM4Code.NewCipher key = .ok c
      ∧ Gen.SM4Code.cryptoBlock blk y c.enc = Spec.SM4.encrypt key blk
      ∧ Gen.SM4Code.cryptoBlock blk y c.dec = Spec.SM4.decrypt key blk
      ∧ Gen.SM4Code.cryptoBlock (Gen.SM4Code.cryptoBlock blk y c.enc) y' c.dec = blk := by
  have hlen : (Spec.SM4.keySchedule key).length = 32 := Proofs.SM4.keySchedule_length key
  have hlen' : (Spec.SM4.keySchedule key).reverse.length = 32 := by rw [List.length_reverse, hlen]
  refine ⟨{ enc := Spec.SM4.keySchedule key, dec := (Spec.SM4.keySchedule key).reverse },
    gen_NewCipher_accepts key hk, ?_, ?_, ?_⟩
  · simp only [Spec.SM4.encrypt]
    exact gen_cryptoBlock_eq_spec_block blk y _ hb hy hlen
  · simp only [Spec.SM4.decrypt]
    exact gen_cryptoBlock_eq_spec_block blk y _ hb hy hlen'
  · simp only []
    rw [gen_cryptoBlock_eq_spec_block blk y _ hb hy hlen,
      gen_cryptoBlock_eq_spec_block _ y' _ (Proofs.SM4.crypt_length _ _) hy' hlen']
    exact Proofs.SM4.crypt_reverse_crypt _ blk hb

/-- C05 for the regenerated two-block code -/
theorem C05_portable_X2_gen (key x y : Bytes) (hk : key.length = 16) (hx : x.length = 32) (hy : y.length = 32) :
    ∃ c, Gen.SM4Code.NewCipher key = .ok c
      ∧ Gen.SM4Code.cryptoBlockX2 x y c.enc = Spec.SM4.encrypt key (x.take 16) ++ Spec.SM4.encrypt key (x.drop 16)
      ∧ Gen.SM4Code.cryptoBlockX2 x y c.dec = Spec.SM4.decrypt key (x.take 16) ++ Spec.SM4.decrypt key (x.drop 16) := by
  have hlen : (Spec.SM4.keySchedule key).length = 32 := Proofs.SM4.keySchedule_length key
  have hlen' : (Spec.SM4.keySchedule key).reverse.length = 32 := by rw [List.length_reverse, hlen]
  refine ⟨{ enc := Spec.SM4.keySchedule key, dec := (Spec.SM4.keySchedule key).reverse },
    gen_NewCipher_accepts key hk, ?_, ?_⟩
  · simp only [Spec.SM4.encrypt]
    exact gen_cryptoBlockX2_eq_spec x y _ hx hy hlen
  · simp only [Spec.SM4.decrypt]
    exact gen_cryptoBlockX2_eq_spec x y _ hx hy hlen'

/-! ### the `cipher.Block` call sites: `Encrypt`, `Decrypt`, `encryptX2`, `decryptX2`

  Regenerated from the methods `(*sm4Cipher).Encrypt/Decrypt` (receiver = first parameter `c`) and the functions
  `encryptX2/decryptX2`: the two guards `if len(src) < BlockSize { panic("…input…") }`, `if len(dst) < BlockSize
  { panic("…output…") }` in source order (`Res.panic msg` keeps the message), the reslices `src[:BlockSize]`,
  `dst[:BlockSize]` (`slice _ 0 16`; the callee's writes to `dst[:16]` replace the first 16 bytes of `dst`: `spliceLo`),
  the argument order (source first, destination second) and which key array is passed (`&sm4.enc` / `&sm4.dec`).
  `Encrypt_pre c` is `c.enc.length = 32 ∧ c.dec.length = 32` (the `[32]uint32` fields); `encryptX2_pre c dst src` adds
  `32 ≤ dst.length ∧ 32 ≤ src.length`: the X2 functions have no length test, Go needs `32 ≤ cap` for `x[:32]`, the list
  model asks for `32 ≤ len`.  Value-level: `dst` and `src` are separate lists; that sharing memory makes no difference
  rests on `cryptoBlock` reading all of `x` before writing `y` (enforced by the translator); the slice-heap statement for
  every aliasing is Props/C05Wrap.lean (hand-written wrapper model). -/

open SMGo.Model.GoSM4

theorem blockSize_eq : Gen.SM4Const.BlockSize = 16 := rfl

/-- `Encrypt`/`Decrypt` after their guards: `cryptoBlock(src[:16], dst[:16], rk)` seen from `dst` -/
theorem crypt_window (rk : List W32) (dst src : Bytes) (hrk : rk.length = 32) (hs : 16 ≤ src.length)
    (hd : 16 ≤ dst.length) :
    spliceLo dst 16 (Gen.SM4Code.cryptoBlock (slice src 0 16) (slice dst 0 16) rk)
      = Spec.SM4.crypt rk (src.take 16) ++ dst.drop 16 := by
  have e1 : slice src 0 16 = src.take 16 := rfl
  have e2 : slice dst 0 16 = dst.take 16 := rfl
  rw [e1, e2, spliceLo, gen_cryptoBlock_eq_spec_block _ _ rk (by simp; omega) (by simp; omega) hrk]

theorem cryptX2_window (rk : List W32) (dst src : Bytes) (hrk : rk.length = 32) (hs : 32 ≤ src.length)
    (hd : 32 ≤ dst.length) :
    spliceLo dst 32 (Gen.SM4Code.cryptoBlockX2 (slice src 0 32) (slice dst 0 32) rk)
      = Spec.SM4.crypt rk (src.take 16) ++ Spec.SM4.crypt rk ((src.take 32).drop 16) ++ dst.drop 32 := by
  have e1 : slice src 0 32 = src.take 32 := rfl
  have e2 : slice dst 0 32 = dst.take 32 := rfl
  rw [e1, e2, spliceLo, gen_cryptoBlockX2_eq_spec _ _ rk (by simp; omega) (by simp; omega) hrk,
    List.take_take]
  simp

/-- a successful `NewCipher` was given a 16-byte key and returned the standard's round keys -/
theorem newCipher_ok_inv (key : Bytes) (c : Gen.SM4Code.sm4Cipher) (hc : Gen.SM4Code.NewCipher key = .ok c) :
    key.length = 16 ∧ c = { enc := Spec.SM4.keySchedule key, dec := (Spec.SM4.keySchedule key).reverse } := by
  by_cases hk : key.length = 16
  · rw [gen_NewCipher_accepts key hk] at hc
    exact ⟨hk, (Outcome.ok.inj hc).symm⟩
  · rw [gen_NewCipher_rejects key hk] at hc
    cases hc

/-- the cipher `NewCipher` builds satisfies the array-length invariant -/
theorem cipher_pre (key : Bytes) :
    Gen.SM4Code.Encrypt_pre { enc := Spec.SM4.keySchedule key, dec := (Spec.SM4.keySchedule key).reverse } := by
  have hlen : (Spec.SM4.keySchedule key).length = 32 := Proofs.SM4.keySchedule_length key
  exact ⟨hlen, by rw [List.length_reverse, hlen]⟩


/-- `Encrypt` panics exactly when the first guard fires, with its message -/
theorem gen_Encrypt_panics_src (c : Gen.SM4Code.sm4Cipher) (dst src : Bytes) (h : src.length < 16) :
    Gen.SM4Code.Encrypt c dst src = .panic "crypto/sm4: input not full block" := by
  unfold Gen.SM4Code.Encrypt
  rw [blockSize_eq, if_pos h]

theorem gen_Encrypt_panics_dst (c : Gen.SM4Code.sm4Cipher) (dst src : Bytes) (hs : 16 ≤ src.length)
    (h : dst.length < 16) :
    Gen.SM4Code.Encrypt c dst src = .panic "crypto/sm4: output not full block" := by
  unfold Gen.SM4Code.Encrypt
  rw [blockSize_eq, if_neg (by omega), if_pos h]

theorem gen_Encrypt_eq_spec (c : Gen.SM4Code.sm4Cipher) (dst src : Bytes) (hc : Gen.SM4Code.Encrypt_pre c)
    (hs : 16 ≤ src.length) (hd : 16 ≤ dst.length) :
    Gen.SM4Code.Encrypt c dst src = .ok (Spec.SM4.crypt c.enc (src.take 16) ++ dst.drop 16) := by
  unfold Gen.SM4Code.Encrypt
  rw [blockSize_eq, if_neg (by omega), if_neg (by omega)]
  simp only [crypt_window c.enc dst src hc.1 hs hd]

theorem gen_Encrypt_panics_iff (c : Gen.SM4Code.sm4Cipher) (dst src : Bytes) (hc : Gen.SM4Code.Encrypt_pre c) :
    (∃ m, Gen.SM4Code.Encrypt c dst src = .panic m) ↔ src.length < 16 ∨ dst.length < 16 := by
  constructor
  · rintro ⟨m, hm⟩
    by_cases hs : src.length < 16
    · exact Or.inl hs
    · by_cases hd : dst.length < 16
      · exact Or.inr hd
      · rw [gen_Encrypt_eq_spec c dst src hc (by omega) (by omega)] at hm
        cases hm
  · rintro (hs | hd)
    · exact ⟨_, gen_Encrypt_panics_src c dst src hs⟩
    · by_cases hs : src.length < 16
      · exact ⟨_, gen_Encrypt_panics_src c dst src hs⟩
      · exact ⟨_, gen_Encrypt_panics_dst c dst src (by omega) hd⟩

/-- with the cipher `NewCipher key` returns: the first 16 bytes of `dst` become the SM4 encryption of `src[:16]` -/
theorem gen_Encrypt_eq_spec_key (key : Bytes) (c : Gen.SM4Code.sm4Cipher) (dst src : Bytes)
    (hc : Gen.SM4Code.NewCipher key = .ok c) (hs : 16 ≤ src.length) (hd : 16 ≤ dst.length) :
    Gen.SM4Code.Encrypt c dst src = .ok (Spec.SM4.encrypt key (src.take 16) ++ dst.drop 16) := by
  obtain ⟨hk, rfl⟩ := newCipher_ok_inv key c hc
  rw [gen_Encrypt_eq_spec _ dst src (cipher_pre key) hs hd]
  simp only [Spec.SM4.encrypt]

theorem gen_Decrypt_panics_src (c : Gen.SM4Code.sm4Cipher) (dst src : Bytes) (h : src.length < 16) :
    Gen.SM4Code.Decrypt c dst src = .panic "crypto/sm4: input not full block" := by
  unfold Gen.SM4Code.Decrypt
  rw [blockSize_eq, if_pos h]

theorem gen_Decrypt_panics_dst (c : Gen.SM4Code.sm4Cipher) (dst src : Bytes) (hs : 16 ≤ src.length)
    (h : dst.length < 16) :
    Gen.SM4Code.Decrypt c dst src = .panic "crypto/sm4: output not full block" := by
  unfold Gen.SM4Code.Decrypt
  rw [blockSize_eq, if_neg (by omega), if_pos h]

/-- `Decrypt`: as `Encrypt`, with the array `dec` -/
theorem gen_Decrypt_eq_spec (c : Gen.SM4Code.sm4Cipher) (dst src : Bytes) (hc : Gen.SM4Code.Decrypt_pre c)
    (hs : 16 ≤ src.length) (hd : 16 ≤ dst.length) :
    Gen.SM4Code.Decrypt c dst src = .ok (Spec.SM4.crypt c.dec (src.take 16) ++ dst.drop 16) := by
  unfold Gen.SM4Code.Decrypt
  rw [blockSize_eq, if_neg (by omega), if_neg (by omega)]
  simp only [crypt_window c.dec dst src hc.2 hs hd]

theorem gen_Decrypt_panics_iff (c : Gen.SM4Code.sm4Cipher) (dst src : Bytes) (hc : Gen.SM4Code.Decrypt_pre c) :
    (∃ m, Gen.SM4Code.Decrypt c dst src = .panic m) ↔ src.length < 16 ∨ dst.length < 16 := by
  constructor
  · rintro ⟨m, hm⟩
    by_cases hs : src.length < 16
    · exact Or.inl hs
    · by_cases hd : dst.length < 16
      · exact Or.inr hd
      · rw [gen_Decrypt_eq_spec c dst src hc (by omega) (by omega)] at hm
        cases hm
  · rintro (hs | hd)
    · exact ⟨_, gen_Decrypt_panics_src c dst src hs⟩
    · by_cases hs : src.length < 16
      · exact ⟨_, gen_Decrypt_panics_src c dst src hs⟩
      · exact ⟨_, gen_Decrypt_panics_dst c dst src (by omega) hd⟩

theorem gen_Decrypt_eq_spec_key (key : Bytes) (c : Gen.SM4Code.sm4Cipher) (dst src : Bytes)
    (hc : Gen.SM4Code.NewCipher key = .ok c) (hs : 16 ≤ src.length) (hd : 16 ≤ dst.length) :
    Gen.SM4Code.Decrypt c dst src = .ok (Spec.SM4.decrypt key (src.take 16) ++ dst.drop 16) := by
  obtain ⟨hk, rfl⟩ := newCipher_ok_inv key c hc
  obtain ⟨h1, h2⟩ := cipher_pre key
  have hp : Gen.SM4Code.Decrypt_pre { enc := Spec.SM4.keySchedule key, dec := (Spec.SM4.keySchedule key).reverse } :=
    And.intro h1 h2
  rw [gen_Decrypt_eq_spec _ dst src hp hs hd]
  simp only [Spec.SM4.decrypt]

/-- `encryptX2` (no length test; `src[:32]`, `dst[:32]`): two blocks of the standard with `enc`, rest of `dst` kept -/
theorem gen_encryptX2_eq_spec (c : Gen.SM4Code.sm4Cipher) (dst src : Bytes) (h : Gen.SM4Code.encryptX2_pre c dst src) :
    Gen.SM4Code.encryptX2 c dst src
      = Spec.SM4.crypt c.enc (src.take 16) ++ Spec.SM4.crypt c.enc ((src.take 32).drop 16) ++ dst.drop 32 := by
  obtain ⟨h1, h2, h3, h4⟩ := h
  rw [show Gen.SM4Code.encryptX2 c dst src
    = spliceLo dst 32 (Gen.SM4Code.cryptoBlockX2 (slice src 0 32) (slice dst 0 32) c.enc) from rfl]
  exact cryptX2_window c.enc dst src h1 h4 h3

/-- `decryptX2`: the same with `dec` -/
theorem gen_decryptX2_eq_spec (c : Gen.SM4Code.sm4Cipher) (dst src : Bytes) (h : Gen.SM4Code.decryptX2_pre c dst src) :
    Gen.SM4Code.decryptX2 c dst src
      = Spec.SM4.crypt c.dec (src.take 16) ++ Spec.SM4.crypt c.dec ((src.take 32).drop 16) ++ dst.drop 32 := by
  obtain ⟨h1, h2, h3, h4⟩ := h
  rw [show Gen.SM4Code.decryptX2 c dst src
    = spliceLo dst 32 (Gen.SM4Code.cryptoBlockX2 (slice src 0 32) (slice dst 0 32) c.dec) from rfl]
  exact cryptX2_window c.dec dst src h2 h4 h3

/-- the X2 call sites with the cipher of `NewCipher key` -/
theorem gen_encryptX2_decryptX2_eq_spec_key (key : Bytes) (c : Gen.SM4Code.sm4Cipher) (dst src : Bytes)
    (hc : Gen.SM4Code.NewCipher key = .ok c) (hs : 32 ≤ src.length) (hd : 32 ≤ dst.length) :
    Gen.SM4Code.encryptX2 c dst src
        = Spec.SM4.encrypt key (src.take 16) ++ Spec.SM4.encrypt key ((src.take 32).drop 16) ++ dst.drop 32
    ∧ Gen.SM4Code.decryptX2 c dst src
        = Spec.SM4.decrypt key (src.take 16) ++ Spec.SM4.decrypt key ((src.take 32).drop 16) ++ dst.drop 32 := by
  obtain ⟨hk, rfl⟩ := newCipher_ok_inv key c hc
  obtain ⟨h1, h2⟩ := cipher_pre key
  have he : Gen.SM4Code.encryptX2_pre
      { enc := Spec.SM4.keySchedule key, dec := (Spec.SM4.keySchedule key).reverse } dst src :=
    And.intro h1 (And.intro h2 (And.intro hd hs))
  have hd' : Gen.SM4Code.decryptX2_pre
      { enc := Spec.SM4.keySchedule key, dec := (Spec.SM4.keySchedule key).reverse } dst src :=
    And.intro h1 (And.intro h2 (And.intro hd hs))
  rw [gen_encryptX2_eq_spec _ dst src he, gen_decryptX2_eq_spec _ dst src hd']
  simp only [Spec.SM4.encrypt, Spec.SM4.decrypt, and_self]

/-- **round trip through the regenerated call sites**: with the cipher of `NewCipher key`, `Encrypt` into any `dst`
    followed by `Decrypt` of that result into any `dst'` (also `dst'` = the ciphertext buffer itself: in place) gives back
    the first 16 bytes of `src`; nothing beyond the first 16 bytes of either destination changes -/
theorem gen_Decrypt_Encrypt (key : Bytes) (c : Gen.SM4Code.sm4Cipher) (dst dst' src : Bytes)
    (hc : Gen.SM4Code.NewCipher key = .ok c) (hs : 16 ≤ src.length) (hd : 16 ≤ dst.length) (hd' : 16 ≤ dst'.length) :
    ∃ ct, Gen.SM4Code.Encrypt c dst src = .ok ct ∧ ct.drop 16 = dst.drop 16
      ∧ Gen.SM4Code.Decrypt c dst' ct = .ok (src.take 16 ++ dst'.drop 16)
      ∧ Gen.SM4Code.Decrypt c ct ct = .ok (src.take 16 ++ dst.drop 16) := by
  have hlen : (Spec.SM4.encrypt key (src.take 16)).length = 16 := Proofs.SM4.crypt_length _ _
  have htake : (Spec.SM4.encrypt key (src.take 16) ++ dst.drop 16).take 16 = Spec.SM4.encrypt key (src.take 16) := by
    rw [List.take_append_of_le_length (by omega), List.take_of_length_le (by omega)]
  have hdrop : (Spec.SM4.encrypt key (src.take 16) ++ dst.drop 16).drop 16 = dst.drop 16 := by
    rw [List.drop_append_of_le_length (by omega), List.drop_of_length_le (by omega), List.nil_append]
  have hct : 16 ≤ (Spec.SM4.encrypt key (src.take 16) ++ dst.drop 16).length := by
    rw [List.length_append]; omega
  have hinv : Spec.SM4.decrypt key (Spec.SM4.encrypt key (src.take 16)) = src.take 16 :=
    Proofs.SM4.crypt_reverse_crypt _ _ (by simp; omega)
  refine ⟨_, gen_Encrypt_eq_spec_key key c dst src hc hs hd, hdrop, ?_, ?_⟩
  · rw [gen_Decrypt_eq_spec_key key c dst' _ hc hct hd', htake, hinv]
  · rw [gen_Decrypt_eq_spec_key key c _ _ hc hct hct, htake, hinv, hdrop]

/-! ### the generated code evaluated in the kernel (tests, labelled as such) -/

local notation "exKey" =>
  ([0x01,0x23,0x45,0x67,0x89,0xab,0xcd,0xef,0xfe,0xdc,0xba,0x98,0x76,0x54,0x32,0x10] : Bytes)

/-- the 32 round keys of the worked example GB/T 32907 A.1, typed in from the standard -/
def stdRoundKeysA1 : List W32 :=
  [0xf12186f9#32, 0x41662b61#32, 0x5a6ab19a#32, 0x7ba92077#32, 0x367360f4#32, 0x776a0c61#32, 0xb6bb89b3#32,
   0x24763151#32, 0xa520307c#32, 0xb7584dbd#32, 0xc30753ed#32, 0x7ee55b57#32, 0x6988608c#32, 0x30d895b7#32,
   0x44ba14af#32, 0x104495a1#32, 0xd120b428#32, 0x73b55fa3#32, 0xcc874966#32, 0x92244439#32, 0xe89e641f#32,
   0x98ca015a#32, 0xc7159060#32, 0x99e1fd2e#32, 0xb79bd80c#32, 0x1d2115b0#32, 0x0e228aeb#32, 0xf1780c81#32,
   0x428d3654#32, 0x62293496#32, 0x01cf72e5#32, 0x9124a012#32]

/-- test: the generated `expandKey`, run by the kernel on the key of A.1 (zeroed arrays), gives the standard's round
    keys and their reversal -/
theorem gen_test_A1_round_keys :
    Gen.SM4Code.expandKey exKey (List.replicate 32 0#32) (List.replicate 32 0#32)
      = (stdRoundKeysA1, stdRoundKeysA1.reverse) := by
  decide +kernel

/-- test: the generated `NewCipher` + `cryptoBlock`, run by the kernel on A.1 (key = block = 0123…3210), give the
    standard's ciphertext 681edf34 d206965e 86b3e94f 536e4246, and `cryptoBlock` with `dec` gives the block back -/
theorem gen_test_A1_vector :
    (match Gen.SM4Code.NewCipher exKey with
      | .ok c => some (Gen.SM4Code.cryptoBlock exKey (List.replicate 16 0) c.enc,
                       Gen.SM4Code.cryptoBlock
                         [0x68,0x1e,0xdf,0x34,0xd2,0x06,0x96,0x5e,0x86,0xb3,0xe9,0x4f,0x53,0x6e,0x42,0x46]
                         (List.replicate 16 0) c.dec)
      | _ => none)
      = some ([0x68,0x1e,0xdf,0x34,0xd2,0x06,0x96,0x5e,0x86,0xb3,0xe9,0x4f,0x53,0x6e,0x42,0x46], exKey) := by
  decide +kernel

/-- test: the generated two-block code on (A.1 block ‖ A.1 ciphertext) with the standard's round keys -/
theorem gen_test_A1_X2 :
    Gen.SM4Code.cryptoBlockX2
        (exKey ++ [0x68,0x1e,0xdf,0x34,0xd2,0x06,0x96,0x5e,0x86,0xb3,0xe9,0x4f,0x53,0x6e,0x42,0x46])
        (List.replicate 32 0) stdRoundKeysA1
      = [0x68,0x1e,0xdf,0x34,0xd2,0x06,0x96,0x5e,0x86,0xb3,0xe9,0x4f,0x53,0x6e,0x42,0x46]
        ++ Spec.SM4.crypt stdRoundKeysA1
            [0x68,0x1e,0xdf,0x34,0xd2,0x06,0x96,0x5e,0x86,0xb3,0xe9,0x4f,0x53,0x6e,0x42,0x46] := by
  decide +kernel

/-! ### the hypotheses are satisfiable -/

example : Gen.SM4Code.cryptoBlock_pre exKey (List.replicate 16 0) stdRoundKeysA1 := by
  refine ⟨by decide, by decide, by decide⟩
example : Gen.SM4Code.expandKey_pre exKey (List.replicate 32 0#32) (List.replicate 32 0#32) := by
  refine ⟨by decide, by decide, by decide⟩
example : Gen.SM4Code.NewCipher (exKey ++ [0x00]) = .err := gen_NewCipher_rejects _ (by decide)
example : Gen.SM4Code.NewCipher [] = .err := gen_NewCipher_rejects _ (by decide)

end SMGo.Props.C05Gen

#print axioms SMGo.Props.C05Gen.gen_table_lengths
#print axioms SMGo.Props.C05Gen.gen_ss_eq_model
#print axioms SMGo.Props.C05Gen.gen_ssX2_eq_model
#print axioms SMGo.Props.C05Gen.gen_tau_eq_model
#print axioms SMGo.Props.C05Gen.gen_transTPrime_eq_model
#print axioms SMGo.Props.C05Gen.gen_ss_eq_spec
#print axioms SMGo.Props.C05Gen.gen_tau_eq_spec
#print axioms SMGo.Props.C05Gen.gen_transTPrime_eq_spec
#print axioms SMGo.Props.C05Gen.gen_byte16ToUint32_eq
#print axioms SMGo.Props.C05Gen.gen_cryptoBlock_eq_model
#print axioms SMGo.Props.C05Gen.gen_cryptoBlock_eq_spec
#print axioms SMGo.Props.C05Gen.gen_cryptoBlock_eq_spec_block
#print axioms SMGo.Props.C05Gen.gen_cryptoBlockX2_eq_model
#print axioms SMGo.Props.C05Gen.gen_cryptoBlockX2_eq_spec
#print axioms SMGo.Props.C05Gen.gen_expandKey_eq_model
#print axioms SMGo.Props.C05Gen.gen_expandKey_eq_spec
#print axioms SMGo.Props.C05Gen.gen_NewCipher_eq_model
#print axioms SMGo.Props.C05Gen.gen_NewCipher_rejects
#print axioms SMGo.Props.C05Gen.gen_NewCipher_accepts
#print axioms SMGo.Props.C05Gen.C05_portable_gen
#print axioms SMGo.Props.C05Gen.C05_portable_X2_gen
#print axioms SMGo.Props.C05Gen.blockSize_eq
#print axioms SMGo.Props.C05Gen.crypt_window
#print axioms SMGo.Props.C05Gen.cryptX2_window
#print axioms SMGo.Props.C05Gen.newCipher_ok_inv
#print axioms SMGo.Props.C05Gen.cipher_pre
#print axioms SMGo.Props.C05Gen.gen_Encrypt_panics_src
#print axioms SMGo.Props.C05Gen.gen_Encrypt_panics_dst
#print axioms SMGo.Props.C05Gen.gen_Encrypt_eq_spec
#print axioms SMGo.Props.C05Gen.gen_Encrypt_panics_iff
#print axioms SMGo.Props.C05Gen.gen_Encrypt_eq_spec_key
#print axioms SMGo.Props.C05Gen.gen_Decrypt_panics_src
#print axioms SMGo.Props.C05Gen.gen_Decrypt_panics_dst
#print axioms SMGo.Props.C05Gen.gen_Decrypt_eq_spec
#print axioms SMGo.Props.C05Gen.gen_Decrypt_panics_iff
#print axioms SMGo.Props.C05Gen.gen_Decrypt_eq_spec_key
#print axioms SMGo.Props.C05Gen.gen_encryptX2_eq_spec
#print axioms SMGo.Props.C05Gen.gen_decryptX2_eq_spec
#print axioms SMGo.Props.C05Gen.gen_encryptX2_decryptX2_eq_spec_key
#print axioms SMGo.Props.C05Gen.gen_Decrypt_Encrypt
#print axioms SMGo.Props.C05Gen.gen_test_A1_round_keys
#print axioms SMGo.Props.C05Gen.gen_test_A1_vector
#print axioms SMGo.Props.C05Gen.gen_test_A1_X2
