/-
  Property C02 — SignHashed outputs exactly the standard's signature for the first acceptable nonce.
  (Property theorems only; lemmas live in SMGo/Proofs/SM2Sign*.lean.)

  "Given a private key d, a digest e and a randomness stream, the signer outputs exactly the pair
   (r, s) that GM/T 0003.2-2012 defines for the first acceptable nonce k in the stream, each as 32
   big-endian bytes. It draws the stream in 32-byte units, skips a candidate exactly when k is outside
   [1,n-1], r=0, r+k=n or s=0, and refuses keys outside [1,n-2] with an error instead of a signature."

  Objects.  `Model.SM2.signHashed X sc priv e` is the statement-by-statement model of `SignHashed` in
  /repo/sm2/sm2.go over a context `X` (point layer, scalar field, tables, n), executed against the Go
  code by the harness; `sc` is a script of `Read` events (data of any size, zero-byte reads, failures;
  end of script = EOF) consumed through a model of `io.ReadFull`.  `Spec.SM2.signBytes` is the
  byte-level statement of the standard (the function the differential driver executes as the oracle):
  candidates are the complete 32-byte units of the stream before its first failure,
  `Spec.SM2.signWith` is §6.1 for one nonce, `Spec.SM2.signStream` picks the first accepted one.
  `F : CurveFacts X` collects the facts about the layers below sm2.go (scalar multiplication, affine
  x coordinate, scalar-field inversion; properties C14–C16, C18), discharged for the regenerated
  instance elsewhere.

  The result value `.ok ((r, s), c)` carries the number `c` of bytes consumed from the stream.
-/
import SMGo.Proofs.SM2SignLoop
namespace SMGo.Props.C02
open SMGo SMGo.Model SMGo.Model.SM2 SMGo.Proofs.SM2Facts

variable {α β : Type} {X : Ctx α β}

/-! ### (i) the key test -/

/-- `TestPrivateKey` on every byte string: keys longer than 32 bytes give the (positive) length
    excess; otherwise 0 exactly when the big-endian value lies in [1, n-2], and -1 if not.  (A key
    shorter than 32 bytes is therefore accepted iff it is non-zero.)  It never panics. -/
theorem testPrivateKey_exact (F : CurveFacts X) (priv : Bytes) :
    testPrivateKey X priv = .ok (if priv.length > 32 then (priv.length : Int) - 32
      else if Spec.SM2.validKey (Bytes.toNatBE priv) then 0 else -1) :=
  Proofs.SM2SignLoop.testPrivateKey_spec F priv

theorem testPrivateKey_zero_iff (F : CurveFacts X) (priv : Bytes) :
    testPrivateKey X priv = .ok 0 ↔ priv.length ≤ 32 ∧ Spec.SM2.validKey (Bytes.toNatBE priv) = true :=
  Proofs.SM2SignLoop.testPrivateKey_zero_iff F priv

/-- `validKey` is membership in [1, n-2] -/
theorem validKey_iff (d : Nat) : Spec.SM2.validKey d = true ↔ 1 ≤ d ∧ d ≤ Spec.SM2.n - 2 :=
  Proofs.SM2SignAlgebra.validKey_iff d

/-! ### (ii) the stream is drawn in 32-byte units -/

/-- one `io.ReadFull(rand, K[:])`: it fails exactly when the script delivers no further complete
    32-byte candidate before failing/ending, and otherwise returns the next candidate and leaves a
    script delivering the remaining candidates, having taken exactly 32 bytes -/
theorem readFull_is_next_candidate (sc : Script) :
    match readFull sc 32 [] with
    | (none, _) => Spec.SM2.candidates sc [] = []
    | (some K, sc') => K.length = 32 ∧ Spec.SM2.candidates sc [] = K :: Spec.SM2.candidates sc' [] ∧
        avail sc = 32 + avail sc' :=
  Proofs.SM2SignBytes.readFull32 sc

/-! ### (iii) one candidate: the rejection rules -/

/-- the standard's rules, spelled out: with (x1, y1) = [k]G, r = (e + x1) mod n and
    s = (1+d)⁻¹·(k − r·d) mod n, a candidate is skipped exactly when
    k ∉ [1, n-1], or r = 0, or r + k = n, or s = 0 -/
theorem skip_iff (d e k : Nat) :
    Spec.SM2.signWith d e k = none ↔
      (k = 0 ∨ k ≥ Spec.SM2.n) ∨
      ∃ x1 y1, Spec.SM2.smul k Spec.SM2.G = some (x1, y1) ∧
        ((e + x1) % Spec.SM2.n = 0 ∨ (e + x1) % Spec.SM2.n + k = Spec.SM2.n ∨
          Spec.SM2.invMod (1 + d) Spec.SM2.n *
            ((k + (Spec.SM2.n - (e + x1) % Spec.SM2.n * d % Spec.SM2.n)) % Spec.SM2.n) % Spec.SM2.n = 0) :=
  Proofs.SM2SignLoop.signWith_none_iff d e k

/-- one iteration of the loop of `SignHashed` on a valid key: having read the candidate `K`, the code
    returns the standard's (r, s) for k = K, 32 big-endian bytes each, exactly when the standard
    accepts k, and otherwise continues with the next iteration.  (The code's tests — `ConstantTimeCmp`
    against n, the zero accumulator, `rInt.Sign() == 0`, the comparison of the minimal encoding of
    r + k with n's, `sInt.Sign() == 0` — and its formula ((r+k)·(1+d)⁻¹ − r) mod n are matched one by
    one with `Spec.SM2.signWith`.) -/
theorem one_candidate (F : CurveFacts X) (priv e : Bytes)
    (hv : Spec.SM2.validKey (Bytes.toNatBE priv) = true)
    (fuel : Nat) (sc sc' : Script) (K : Bytes) (hread : readFull sc 32 [] = (some K, sc'))
    (hK : K.length = 32) :
    signLoop X priv e (fuel + 1) sc =
      match Spec.SM2.signWith (Bytes.toNatBE priv) (Bytes.toNatBE e) (Bytes.toNatBE K) with
      | some (r, s) => .ok ((Bytes.ofNatBE 32 r, Bytes.ofNatBE 32 s), sc')
      | none => signLoop X priv e fuel sc' :=
  Proofs.SM2SignLoop.signLoop_step F priv e hv fuel sc sc' K hread hK

/-! ### (iv) the property -/

/-- C02, for digests of any length (`big.Int.SetBytes` reads any length): for every key, digest and
    randomness script, `SignHashed` returns what the standard defines — (r, s) of the first acceptable
    32-byte candidate, each as 32 big-endian bytes, having consumed `32·(j+1)` bytes where j is the
    index of that candidate — and an error when the key is longer than 32 bytes or outside [1, n-2],
    or when the stream fails or ends before an acceptable candidate.  It never panics. -/
theorem sign_is_standard_any_digest_length (F : CurveFacts X) (sc : Script) (priv e : Bytes) :
    signHashed X sc priv e =
      (match Spec.SM2.signBytes priv e sc with
       | some (r, s, c) => .ok ((r, s), c)
       | none => .err) :=
  Proofs.SM2SignLoop.signHashed_eq F sc priv e

/-- C02 on the domain the property fixes (32-byte digests) -/
theorem sign_is_standard (F : CurveFacts X) (sc : Script) (priv e : Bytes) (_he : e.length = 32) :
    signHashed X sc priv e =
      (match Spec.SM2.signBytes priv e sc with
       | some (r, s, c) => .ok ((r, s), c)
       | none => .err) :=
  sign_is_standard_any_digest_length F sc priv e

/-- keys outside [1, n-2] (or longer than 32 bytes) are refused with an error -/
theorem invalid_key_refused (F : CurveFacts X) (sc : Script) (priv e : Bytes)
    (h : ¬ (priv.length ≤ 32 ∧ Spec.SM2.validKey (Bytes.toNatBE priv) = true)) :
    signHashed X sc priv e = .err := by
  rw [sign_is_standard_any_digest_length F]
  unfold Spec.SM2.signBytes
  have : priv.length > 32 ∨ (!Spec.SM2.validKey (Bytes.toNatBE priv)) = true := by
    by_cases h1 : priv.length > 32
    · exact Or.inl h1
    · right
      cases hv : Spec.SM2.validKey (Bytes.toNatBE priv) with
      | false => rfl
      | true => exact absurd ⟨by omega, hv⟩ h
  simp only []
  rw [if_pos this]

/-- `SignHashed` never panics -/
theorem sign_no_panic (F : CurveFacts X) (sc : Script) (priv e : Bytes) :
    signHashed X sc priv e ≠ .panic := by
  rw [sign_is_standard_any_digest_length F]
  cases Spec.SM2.signBytes priv e sc with
  | none => intro h; cases h
  | some t => obtain ⟨r, s, c⟩ := t; intro h; cases h

/-! ### non-vacuity -/

/-- the right-hand side is a signature in a case that exercises the rules: one data item carrying
    three candidates, the first two (zero) rejected, the third accepted; 96 bytes consumed
    (evaluated in the kernel; the same request answered `ok … 96` by the Go code) -/
example :
    Spec.SM2.signBytes (List.replicate 32 0x22) (List.replicate 32 0x33)
        [.data (List.replicate 64 0 ++ List.replicate 32 0x11)] =
      some (Bytes.ofNatBE 32 0xb859452a77e23789bd102f27f376aa64060611665deb242f35a9cf92debdbc76,
            Bytes.ofNatBE 32 0x8a1563030e9ff27e3772547fa7c0382998384b35a42ed52049e98961907bd9cf, 96) := by
  decide +kernel

/-- … and an error when the stream ends inside the third candidate, or the key is n-1 -/
example :
    Spec.SM2.signBytes (List.replicate 32 0x22) (List.replicate 32 0x33)
        [.data (List.replicate 64 0), .zero, .data (List.replicate 31 0x11)] = none ∧
    Spec.SM2.signBytes (Bytes.ofNatBE 32 (Spec.SM2.n - 1)) (List.replicate 32 0x33)
        [.data (List.replicate 32 0x11)] = none := by
  decide +kernel

/-- the hypotheses of `one_candidate` are satisfiable: a valid key and a script whose first
    `ReadFull` succeeds -/
example : Spec.SM2.validKey (Bytes.toNatBE (List.replicate 32 0x22)) = true ∧
    readFull [.data (List.replicate 40 7)] 32 [] = (some (List.replicate 32 7), [.data (List.replicate 8 7)]) := by
  decide +kernel

end SMGo.Props.C02

#print axioms SMGo.Props.C02.testPrivateKey_exact
#print axioms SMGo.Props.C02.testPrivateKey_zero_iff
#print axioms SMGo.Props.C02.validKey_iff
#print axioms SMGo.Props.C02.readFull_is_next_candidate
#print axioms SMGo.Props.C02.skip_iff
#print axioms SMGo.Props.C02.one_candidate
#print axioms SMGo.Props.C02.sign_is_standard_any_digest_length
#print axioms SMGo.Props.C02.sign_is_standard
#print axioms SMGo.Props.C02.invalid_key_refused
#print axioms SMGo.Props.C02.sign_no_panic
