/-
  C10 / C11, assembly level — the routines of /repo/sm4/helper_amd64.s over the regenerated listing `SMGo.Gen.ListAmd64Helper`, run by the
  value semantics of SMGo/Model/ISAVal.lean (TRUSTED: the reading of the Intel SDM; the entry states are SMGo/Model/ISAValHelper.lean).

  The only non-test Go code that calls helper_amd64.s is `ensureCapacity` (sm4_gcm_amd64.go): `needExpand(array, asked)` decides
  whether `Seal`/`Open` may write behind `dst` in place, `copyAsm(&head[0], &array[0], len(array))` copies the old contents into a
  freshly made array.  These two are PROVED for all inputs:
    * `asm_needExpand_eq`  — the listing returns `Model.GCMGlue.needExpand` (1 iff cap − len < asked), for every slice header with
      len ≤ cap < 2^63 and every asked < 2^63 (Go ints are non-negative here; the comparison is signed), whatever the registers hold;
    * `asm_copyAsm_eq`     — for every n and two SEPARATE arrays (`head` is fresh from `make`, so the glue never passes overlapping
      buffers; overlapping arguments are outside this theorem): dst[doff : doff+n) := src[soff : soff+n), every other byte of the
      destination array and the whole source array keep their values; loop induction over the 8/4/2/1-byte stages (`copyAsm_scheme`).
  `.ok` means, as in Props/C11Asm.lean: every access stayed inside the two arrays, nothing but the destination was written.

  The other six routines are called by NO non-test Go code (`transpose4x4`, `transpose1x4`, `concatenateX`, `concatenateY`: only from
  sm4_asm_amd64_test.go; `transpose2x4`, `constantTimeCompareAsm`: not even declared in Go):
    * `asm_constantTimeCompareAsm_eq` — PROVED for every length: the low 32 bits of the result are the OR of the byte-wise XORs
      (`asm_constantTimeCompareAsm_zero_iff`: 0 iff the two strings are equal — NOT "1 iff equal"; it also overwrites `y` with
      x XOR y, see the test); same loop structure as the inlined `constantTimeCompare` of `openAsm` (C07Asm);
    * `test_transpose4x4`, `test_transpose2x4`, `test_transpose1x4`, `test_concatenateX`, `test_concatenateY`,
      `test_constantTimeCompareAsm` — kernel-evaluated TESTS (labelled as such) on inputs with pairwise distinct bytes: which
      dwords / bytes of the operands end up where.  No for-all theorem is claimed for these five straight-line routines.

  ALL 17 amd64 assembly routines of the library and what covers each (functional statement over the regenerated listing under
  Model/ISAVal.lean, all inputs unless marked TEST):
    asm_amd64.s     cryptoBlockAsm           C05.asm_cryptoBlockAsm_eq_spec (+ _inplace_, _overlap_)
                    cryptoBlockAsmX2/4/8/16  C05.asm_cryptoBlockAsmX2_eq_spec, …X4…, …X8…, …X16… (disjoint dst/src)
                    expandKeyAsm             C05.asm_expandKeyAsm_eq_spec
    gcm_amd64.s     gHashBlocks              C06Asm.gHashBlocks_eq_spec (count ≥ 1)
                    sealAsm                  C06AsmSeal.sealAsm_eq_spec, sealAsm_inplace_eq_spec
                    openAsm                  C07Asm.openAsm_eq_spec, openAsm_inplace_eq_spec
    helper_amd64.s  needExpand               C10Asm.asm_needExpand_eq
                    copyAsm                  C10Asm.asm_copyAsm_eq
                    constantTimeCompareAsm   C10Asm.asm_constantTimeCompareAsm_eq            (unreachable from Go)
                    transpose4x4, transpose2x4, transpose1x4, concatenateX, concatenateY     TEST only (test-only / undeclared)
  So every amd64 routine that non-test Go code can reach is proved equal to its functional specification; the five remaining
  ones are unreachable from the library's API and are covered by evaluation tests.
-/
import SMGo.Proofs.ISAValHelperCmp5
import SMGo.Proofs.ISAValHelperTests
import SMGo.Model.GCMGlue
namespace SMGo.Props.C10Asm
open SMGo
open SMGo.Model.ISAVal
open SMGo.Proofs.ISAVal
open SMGo.Gen.ListAmd64Helper

/-! ### `needExpand` -/

theorem needExpand_decodes : Routine.ofListing needExpand = .ok neR := neR_ok

/-- the decoded listing of `needExpand`, byte offsets erased -/
theorem needExpand_scheme : neR.map erasePc = neCode := ne_scheme

/-- **`needExpand(array []byte, asked int) int` returns what the Go-glue model says**: the frame holds the slice header of `array`
    (pointer `ptr`, `array.len`, `array.cap`), `asked` and the old result slot `r0`; the run returns and the result slot holds
    `Model.GCMGlue.needExpand array asked` = 1 if the spare capacity cap − len is smaller than `asked`, else 0.  No memory access. -/
theorem asm_needExpand_eq (g v k : List Nat) (array : Model.Mem.Slice) (ptr asked r0 : Nat) (hG : g.length = 16)
    (hlc : array.len ≤ array.cap) (hcap : array.cap < 2 ^ 63) (hask : asked < 2 ^ 63) (fuel : Nat) (hfuel : 20 < fuel) :
    runRet needExpand fuel (needExpandState g v k ptr array.len array.cap asked r0)
      = .ok (Model.GCMGlue.needExpand array asked) :=
  needExpand_run g v k ptr array.len array.cap asked r0 hG hlc hcap hask fuel hfuel

/-! ### `copyAsm` -/

theorem copyAsm_decodes : Routine.ofListing copyAsm = .ok cpR := cpR_ok

/-- the decoded listing of `copyAsm`: three argument loads, four stages `CMPQ len,$w; JLT next; MOV (src),t; MOV t,(dst);
    ADDQ $w,src; ADDQ $w,dst; SUBQ $w,len; JMP self` for w = 8, 4, 2, 1, RET -/
theorem copyAsm_scheme : cpR.map erasePc = cpCode := cp_scheme

/-- **`copyAsm(&dbuf[doff], &sbuf[soff], n)` on two separate arrays, every n**: the run returns, the destination array is
    `dbuf` with `sbuf[soff : soff+n)` at offset `doff` (every other byte unchanged), the source array is unchanged. -/
theorem asm_copyAsm_eq (g v k dbuf sbuf : List Nat) (doff soff n : Nat) (hG : g.length = 16)
    (hdl : dbuf.length < 2 ^ 32) (hsl : sbuf.length < 2 ^ 32) (hd : doff + n ≤ dbuf.length) (hs : soff + n ≤ sbuf.length)
    (hsb : ∀ x ∈ sbuf, x < 2 ^ 8) (fuel : Nat) (hfuel : n + 50 < fuel) :
    runRegion copyAsm "dst" fuel (copyState g v k dbuf sbuf doff soff n)
        = .ok (dbuf.take doff ++ (sbuf.drop soff).take n ++ dbuf.drop (doff + n))
      ∧ runRegion copyAsm "src" fuel (copyState g v k dbuf sbuf doff soff n) = .ok sbuf := by
  obtain ⟨s', hrun, hd', hs'⟩ := copyAsm_run g v k dbuf sbuf doff soff n hG hdl hsl hd hs hsb fuel hfuel
  have hl : ((sbuf.drop soff).take n).length = n := by rw [List.length_take, List.length_drop]; omega
  unfold runRegion
  rw [hrun]
  simp only [bind, Except.bind, hd', hs']
  unfold spliceAt
  rw [hl]
  exact ⟨rfl, rfl⟩

/-! ### `constantTimeCompareAsm` (no Go declaration) -/

theorem constantTimeCompareAsm_scheme : hcR.map erasePc = hcCode := hc_scheme

/-- **`constantTimeCompareAsm(x, y, l)`, every length**: the run returns; the low 32 bits of the result slot (`MOVL BX, ret`) are
    the OR of the byte-wise XORs of `y[0:l)` and `x[0:l)`; the upper half of the model's 8-byte slot keeps its value -/
theorem asm_constantTimeCompareAsm_eq (g v k x y : List Nat) (l r0 : Nat) (hG : g.length = 16) (hxl : l ≤ x.length) (hyl : l ≤ y.length)
    (hx32 : x.length < 2 ^ 32) (hy32 : y.length < 2 ^ 32) (hxb : ∀ b ∈ x, b < 2 ^ 8) (hyb : ∀ b ∈ y, b < 2 ^ 8)
    (fuel : Nat) (hfuel : 9 * l + 60 < fuel) :
    runRet constantTimeCompareAsm fuel (cmpState g v k x y l r0)
      = .ok (r0 - r0 % 2 ^ 32 + orBytes (xorN (y.take l) (x.take l))) :=
  cmpAsm_run g v k x y l r0 hG hxl hyl hx32 hy32 hxb hyb fuel hfuel

/-- the value it returns is zero exactly when the two `l`-byte strings are equal -/
theorem asm_constantTimeCompareAsm_zero_iff (x y : List Nat) (l : Nat) (hxl : l ≤ x.length) (hyl : l ≤ y.length) :
    orBytes (xorN (y.take l) (x.take l)) = 0 ↔ y.take l = x.take l :=
  orBytes_xorN_zero_iff _ _ (by rw [List.length_take, List.length_take]; omega)

/-! ### TESTS (kernel evaluation on concrete inputs) of the routines no non-test Go code calls -/

/-- TEST: `transpose4x4(dst, src)` writes the 4×4 transposition of the 16 dwords at `src` -/
theorem test_transpose4x4 :
    (transposeTest transpose4x4 tdA [0, 4, 8, 12, 1, 5, 9, 13, 2, 6, 10, 14, 3, 7, 11, 15]
      && transposeTest transpose4x4 tdB [0, 4, 8, 12, 1, 5, 9, 13, 2, 6, 10, 14, 3, 7, 11, 15]) = true :=
  Proofs.ISAVal.test_transpose4x4

/-- TEST: the dwords `transpose2x4` writes, by index into `src` -/
theorem test_transpose2x4 :
    (transposeTest transpose2x4 tdA [0, 4, 1, 5, 1, 5, 1, 5, 2, 6, 3, 7, 3, 7, 1, 5]
      && transposeTest transpose2x4 tdB [0, 4, 1, 5, 1, 5, 1, 5, 2, 6, 3, 7, 3, 7, 1, 5]) = true :=
  Proofs.ISAVal.test_transpose2x4

/-- TEST: the dwords `transpose1x4` writes, by index into `src` -/
theorem test_transpose1x4 :
    (transposeTest transpose1x4 tdA [0, 1, 2, 3, 1, 1, 1, 1, 2, 2, 3, 3, 3, 3, 3, 3]
      && transposeTest transpose1x4 tdB [0, 1, 2, 3, 1, 1, 1, 1, 2, 2, 3, 3, 3, 3, 3, 3]) = true :=
  Proofs.ISAVal.test_transpose1x4

/-- TEST: `concatenateX(X1, X2, X3, X4)` writes X1[0:16] ‖ X2[0:16] ‖ X3[0:16] ‖ X4[0:16] to the 64 bytes at `X1` -/
theorem test_concatenateX :
    (isOk (runRegion concatenateX "x1" 100 (concatXState junkG junkV junkK tdA (tdB.take 16) (tdC.take 16) (tdB.drop 48)))
        (tdA.take 16 ++ tdB.take 16 ++ tdC.take 16 ++ tdB.drop 48)
      && isOk (runRegion concatenateX "x1" 100 (concatXState junkG junkV junkK tdC (tdA.drop 20) tdB tdA))
        (tdC.take 16 ++ (tdA.drop 20).take 16 ++ tdB.take 16 ++ tdA.take 16)) = true :=
  Proofs.ISAVal.test_concatenateX

/-- TEST: `concatenateY(Y1, Y2)` writes Y1[0:32] ‖ Y2[0:32] to the 64 bytes at `Y1` -/
theorem test_concatenateY :
    (isOk (runRegion concatenateY "y1" 100 (concatYState junkG junkV junkK tdA tdB)) (tdA.take 32 ++ tdB.take 32)
      && isOk (runRegion concatenateY "y1" 100 (concatYState junkG junkV junkK tdC tdA)) (tdC.take 32 ++ tdA.take 32)) = true :=
  Proofs.ISAVal.test_concatenateY

/-- TEST: `constantTimeCompareAsm` on equal and unequal inputs of lengths 0, 1, 7, 8, 9, 16, 17, 31, 64: result as in
    `asm_constantTimeCompareAsm_eq`, and `y` is overwritten with x XOR y -/
theorem test_constantTimeCompareAsm :
    ([0, 1, 7, 8, 9, 16, 17, 31, 64].all (fun n =>
      cmpTest (tdB.take n) (tdB.take n) 0xEEEE
        && cmpTest (tdB.take n) (tdC.take n) 7
        && (n == 0 || (cmpTest (tdB.take n) ((tdB.take n).set (n - 1) 0) 0 && cmpTest (tdB.take n) ((tdB.take n).set 0 ((tdB.getD 0 0) ^^^ 0x80)) 0
          && cmpTest (tdB.take n) ((tdB.take n).set (n / 2) ((tdB.getD (n / 2) 0) ^^^ 1)) (2 ^ 40 + 5))))) = true :=
  Proofs.ISAVal.test_constantTimeCompareAsm

end SMGo.Props.C10Asm

#print axioms SMGo.Props.C10Asm.needExpand_decodes
#print axioms SMGo.Props.C10Asm.needExpand_scheme
#print axioms SMGo.Props.C10Asm.asm_needExpand_eq
#print axioms SMGo.Props.C10Asm.copyAsm_decodes
#print axioms SMGo.Props.C10Asm.copyAsm_scheme
#print axioms SMGo.Props.C10Asm.asm_copyAsm_eq
#print axioms SMGo.Props.C10Asm.constantTimeCompareAsm_scheme
#print axioms SMGo.Props.C10Asm.asm_constantTimeCompareAsm_eq
#print axioms SMGo.Props.C10Asm.asm_constantTimeCompareAsm_zero_iff
#print axioms SMGo.Props.C10Asm.test_transpose4x4
#print axioms SMGo.Props.C10Asm.test_transpose2x4
#print axioms SMGo.Props.C10Asm.test_transpose1x4
#print axioms SMGo.Props.C10Asm.test_concatenateX
#print axioms SMGo.Props.C10Asm.test_concatenateY
#print axioms SMGo.Props.C10Asm.test_constantTimeCompareAsm
