/-
  Property C05 — SM4: all block paths compute the GB/T 32907 permutation and its inverse.
  (Property theorems only; lemmas live in SMGo/Proofs/SM4*.lean.)

  This file covers the portable code of /repo/sm4/sm4.go (`cryptoBlock`, `cryptoBlockX2`, `ss`, `ssX2`,
  `tau`, `transTPrime`, `expandKey`, `NewCipher`'s length test) through its executable model
  `SMGo.Model.SM4` instantiated with the tables regenerated from sm4_const.go (`genTables`).
  The correspondence model ↔ Go code is tested by the differential harness (bin/check C05).
  The accelerated amd64 path is covered at the level of the regenerated assembler listings, run by the value
  semantics of SMGo/Model/ISAVal.lean (section "Assembly listings" at the end of this file): `cryptoBlockAsm` and
  `expandKeyAsm` — the only two routines Encrypt/Decrypt/NewCipher use on amd64 — are proved equal to the
  specification for all inputs (`asm_cryptoBlockAsm_eq_spec`, `asm_expandKeyAsm_eq_spec`, `C05_asm_amd64`), and so
  are the four wide kernels X2/X4/X8/X16 — prologue, 32 rounds on every lane, epilogue — on 2/4/8/16 blocks
  (`asm_cryptoBlockAsmX2_eq_spec` … `asm_cryptoBlockAsmX16_eq_spec`); the harness compares all of them three-way
  (CPU / interpreted listing / specification).  The arm64 kernels are compared by the harness only.
  The table facts of property C18
  (S-box = algebraic S-box, T-tables = L ∘ S-box, CK/FK formulas) are restated below; they are
  kernel-checked against the generated file in SMGo/Proofs/SM4Tables.lean.
-/
import SMGo.Spec.SM4
import SMGo.Model.SM4Inst
import SMGo.Proofs.SM4Tables
import SMGo.Proofs.SM4Block
import SMGo.Proofs.SM4X2
import SMGo.Proofs.SM4Key
import SMGo.Proofs.SM4Inverse
import SMGo.Proofs.ISAValSpec
import SMGo.Proofs.ISAValSpecOverlap
import SMGo.Proofs.ISAValExpandSpec
import SMGo.Proofs.ISAValRoundL
import SMGo.Proofs.ISAValWideX2Spec
import SMGo.Proofs.ISAValTests
namespace SMGo.Props.C05
open SMGo

/-- the model instantiated with the tables generated from sm4_const.go -/
abbrev tb : Model.SM4.Tables := Model.SM4.genTables

/-! ### the specification itself -/

/-- specification self-test (a test, labelled as such): the worked example of GB/T 32907, A.1 -/
theorem spec_vector_A1 :
    Spec.SM4.encrypt [0x01,0x23,0x45,0x67,0x89,0xab,0xcd,0xef,0xfe,0xdc,0xba,0x98,0x76,0x54,0x32,0x10]
        [0x01,0x23,0x45,0x67,0x89,0xab,0xcd,0xef,0xfe,0xdc,0xba,0x98,0x76,0x54,0x32,0x10]
      = [0x68,0x1e,0xdf,0x34,0xd2,0x06,0x96,0x5e,0x86,0xb3,0xe9,0x4f,0x53,0x6e,0x42,0x46] := by
  decide +kernel

/-- the output of the block function is one block -/
theorem crypt_length (rk : List W32) (b : Bytes) : (Spec.SM4.crypt rk b).length = 16 :=
  Proofs.SM4.crypt_length rk b

/-- decryption (the same rounds with the round keys reversed) inverts encryption on every block -/
theorem decrypt_encrypt (key blk : Bytes) (_hk : key.length = 16) (hb : blk.length = 16) :
    Spec.SM4.decrypt key (Spec.SM4.encrypt key blk) = blk :=
  Proofs.SM4.crypt_reverse_crypt (Spec.SM4.keySchedule key) blk hb

/-- encryption inverts decryption on every block -/
theorem encrypt_decrypt (key blk : Bytes) (_hk : key.length = 16) (hb : blk.length = 16) :
    Spec.SM4.encrypt key (Spec.SM4.decrypt key blk) = blk := by
  have h := Proofs.SM4.crypt_reverse_crypt (Spec.SM4.keySchedule key).reverse blk hb
  rwa [List.reverse_reverse] at h

/-! ### C18 (SM4 part): the generated tables -/

/-- the S-box table of sm4_const.go is the algebraic S-box (affine ∘ inversion in GF(2^8) ∘ affine) -/
theorem sbox_alg : Gen.SM4Const.sbox = (List.range 256).map Spec.SM4.sboxAlg :=
  Proofs.SM4.sbox_alg

/-- (audit C05-5) the inversion used by the algebraic S-box of the specification really is the inverse in
    GF(2)[x]/(x^8+x^7+x^6+x^5+x^4+x^2+1): `gfInv x = x^254` satisfies `x · gfInv x = 1` for every non-zero byte,
    and `gfInv 0 = 0` -/
theorem gfInv_spec : (∀ x, x < 256 → x ≠ 0 → Spec.SM4.gfMul x (Spec.SM4.gfInv x) = 1) ∧ Spec.SM4.gfInv 0 = 0 := by
  decide +kernel

/-- (audit C05-5) the S-box as the table of GB/T 32907-2016 (6.2, row = high nibble, column = low nibble), typed in
    here from the standard and NOT taken from /repo/sm4/sm4_const.go -/
def stdSbox : List Nat :=
  [0xd6, 0x90, 0xe9, 0xfe, 0xcc, 0xe1, 0x3d, 0xb7, 0x16, 0xb6, 0x14, 0xc2, 0x28, 0xfb, 0x2c, 0x05,
   0x2b, 0x67, 0x9a, 0x76, 0x2a, 0xbe, 0x04, 0xc3, 0xaa, 0x44, 0x13, 0x26, 0x49, 0x86, 0x06, 0x99,
   0x9c, 0x42, 0x50, 0xf4, 0x91, 0xef, 0x98, 0x7a, 0x33, 0x54, 0x0b, 0x43, 0xed, 0xcf, 0xac, 0x62,
   0xe4, 0xb3, 0x1c, 0xa9, 0xc9, 0x08, 0xe8, 0x95, 0x80, 0xdf, 0x94, 0xfa, 0x75, 0x8f, 0x3f, 0xa6,
   0x47, 0x07, 0xa7, 0xfc, 0xf3, 0x73, 0x17, 0xba, 0x83, 0x59, 0x3c, 0x19, 0xe6, 0x85, 0x4f, 0xa8,
   0x68, 0x6b, 0x81, 0xb2, 0x71, 0x64, 0xda, 0x8b, 0xf8, 0xeb, 0x0f, 0x4b, 0x70, 0x56, 0x9d, 0x35,
   0x1e, 0x24, 0x0e, 0x5e, 0x63, 0x58, 0xd1, 0xa2, 0x25, 0x22, 0x7c, 0x3b, 0x01, 0x21, 0x78, 0x87,
   0xd4, 0x00, 0x46, 0x57, 0x9f, 0xd3, 0x27, 0x52, 0x4c, 0x36, 0x02, 0xe7, 0xa0, 0xc4, 0xc8, 0x9e,
   0xea, 0xbf, 0x8a, 0xd2, 0x40, 0xc7, 0x38, 0xb5, 0xa3, 0xf7, 0xf2, 0xce, 0xf9, 0x61, 0x15, 0xa1,
   0xe0, 0xae, 0x5d, 0xa4, 0x9b, 0x34, 0x1a, 0x55, 0xad, 0x93, 0x32, 0x30, 0xf5, 0x8c, 0xb1, 0xe3,
   0x1d, 0xf6, 0xe2, 0x2e, 0x82, 0x66, 0xca, 0x60, 0xc0, 0x29, 0x23, 0xab, 0x0d, 0x53, 0x4e, 0x6f,
   0xd5, 0xdb, 0x37, 0x45, 0xde, 0xfd, 0x8e, 0x2f, 0x03, 0xff, 0x6a, 0x72, 0x6d, 0x6c, 0x5b, 0x51,
   0x8d, 0x1b, 0xaf, 0x92, 0xbb, 0xdd, 0xbc, 0x7f, 0x11, 0xd9, 0x5c, 0x41, 0x1f, 0x10, 0x5a, 0xd8,
   0x0a, 0xc1, 0x31, 0x88, 0xa5, 0xcd, 0x7b, 0xbd, 0x2d, 0x74, 0xd0, 0x12, 0xb8, 0xe5, 0xb4, 0xb0,
   0x89, 0x69, 0x97, 0x4a, 0x0c, 0x96, 0x77, 0x7e, 0x65, 0xb9, 0xf1, 0x09, 0xc5, 0x6e, 0xc6, 0x84,
   0x18, 0xf0, 0x7d, 0xec, 0x3a, 0xdc, 0x4d, 0x20, 0x79, 0xee, 0x5f, 0x3e, 0xd7, 0xcb, 0x39, 0x48]

/-- the standard's table is the algebraic S-box of the specification (affine ∘ inversion ∘ affine), entry by entry;
    with `sbox_alg` this also makes the generated Go table equal to the standard's table -/
theorem sbox_standard_table :
    stdSbox = (List.range 256).map Spec.SM4.sboxAlg ∧ Gen.SM4Const.sbox = stdSbox := by
  have h : stdSbox = (List.range 256).map Spec.SM4.sboxAlg := by decide +kernel
  exact ⟨h, by rw [h]; exact Proofs.SM4.sbox_alg⟩

/-- the S-box is a permutation of the byte values -/
theorem sbox_bijective :
    (∀ x, x < 256 → Spec.SM4.sboxAlg x < 256)
    ∧ (∀ x y, x < 256 → y < 256 → Spec.SM4.sboxAlg x = Spec.SM4.sboxAlg y → x = y)
    ∧ (∀ y, y < 256 → ∃ x, x < 256 ∧ Spec.SM4.sboxAlg x = y) :=
  ⟨Proofs.SM4.sboxAlg_lt, Proofs.SM4.sboxAlg_injective, Proofs.SM4.sboxAlg_surjective⟩

/-- the four T-tables are the images of the S-box under L, the S-box output placed in byte 0, 1, 2, 3 -/
theorem ttables :
    Gen.SM4Const.s0 = (List.range 256).map (fun x => (Spec.SM4.L (BitVec.ofNat 32 (Spec.SM4.sboxAlg x) <<< 24)).toNat)
    ∧ Gen.SM4Const.s1 = (List.range 256).map (fun x => (Spec.SM4.L (BitVec.ofNat 32 (Spec.SM4.sboxAlg x) <<< 16)).toNat)
    ∧ Gen.SM4Const.s2 = (List.range 256).map (fun x => (Spec.SM4.L (BitVec.ofNat 32 (Spec.SM4.sboxAlg x) <<< 8)).toNat)
    ∧ Gen.SM4Const.s3 = (List.range 256).map (fun x => (Spec.SM4.L (BitVec.ofNat 32 (Spec.SM4.sboxAlg x) <<< 0)).toNat) :=
  ⟨Proofs.SM4.ttable_0, Proofs.SM4.ttable_1, Proofs.SM4.ttable_2, Proofs.SM4.ttable_3⟩

/-- the key-schedule constants follow their formulas: ck_{i,j} = (4i+j)·7 mod 256, FK of the standard -/
theorem ck_fk :
    Gen.SM4Const.ck = (List.range 32).map (fun i => (Spec.SM4.CK i).toNat)
    ∧ [Gen.SM4Const.fk0, Gen.SM4Const.fk1, Gen.SM4Const.fk2, Gen.SM4Const.fk3] = Spec.SM4.FK.map BitVec.toNat :=
  ⟨Proofs.SM4.ck_formula, Proofs.SM4.fk_eq⟩

/-! ### the round function of the code -/

/-- L is linear (used to split T over the four T-tables) -/
theorem L_xor (a b : W32) : Spec.SM4.L (a ^^^ b) = Spec.SM4.L a ^^^ Spec.SM4.L b :=
  Proofs.SM4.L_xor a b

/-- `ss`: the four T-table look-ups compute T = L ∘ τ -/
theorem ss_eq_T (t : W32) : Model.SM4.ss tb t = Spec.SM4.T t :=
  Proofs.SM4.ss_eq_T t

/-- `transTPrime`: S-box look-ups and two rotations (written `x<<k | x>>(32-k)`) compute T' -/
theorem transTPrime_eq (a : W32) : Model.SM4.transTPrime tb a = Spec.SM4.T' a :=
  Proofs.SM4.transTPrime_eq a

/-! ### key schedule and constructor -/

/-- `expandKey` yields the round keys rk_0..rk_31 of the standard, and the same in reverse for decryption -/
theorem expandKey_eq_spec (key : Bytes) (_hk : key.length = 16) :
    Model.SM4.expandKey tb key = (Spec.SM4.keySchedule key, (Spec.SM4.keySchedule key).reverse) :=
  Proofs.SM4.expandKey_eq key

/-- `NewCipher` rejects every key that is not 16 bytes long -/
theorem newCipher_rejects (key : Bytes) (hk : key.length ≠ 16) : Model.SM4.newCipher tb key = .err := by
  simp [Model.SM4.newCipher, hk]

/-- `NewCipher` accepts a 16-byte key and holds the round keys of the standard -/
theorem newCipher_accepts (key : Bytes) (hk : key.length = 16) :
    Model.SM4.newCipher tb key = .ok (Spec.SM4.keySchedule key, (Spec.SM4.keySchedule key).reverse) := by
  simp [Model.SM4.newCipher, hk, Proofs.SM4.expandKey_eq]

/-! ### one block, two blocks -/

/-- `cryptoBlock` (8 groups of 4 in-place updates) is the 32 rounds and the reversal R of the standard -/
theorem cryptoBlock_eq_spec (rk : List W32) (x : Bytes) (hrk : rk.length = 32) (_hx : x.length = 16) :
    Model.SM4.cryptoBlock tb rk x = Spec.SM4.crypt rk x :=
  Proofs.SM4.cryptoBlock_eq rk x hrk

/-- `cryptoBlockX2` (two blocks in the 32-bit halves of 64-bit variables) is `cryptoBlock` on each block -/
theorem cryptoBlockX2_eq (rk : List W32) (x : Bytes) (_hrk : rk.length = 32) (hx : x.length = 32) :
    Model.SM4.cryptoBlockX2 tb rk x
      = Model.SM4.cryptoBlock tb rk (x.take 16) ++ Model.SM4.cryptoBlock tb rk (x.drop 16) :=
  Proofs.SM4.cryptoBlockX2_split tb rk x hx

/-- the two-block path against the specification -/
theorem cryptoBlockX2_eq_spec (rk : List W32) (x : Bytes) (hrk : rk.length = 32) (hx : x.length = 32) :
    Model.SM4.cryptoBlockX2 tb rk x = Spec.SM4.crypt rk (x.take 16) ++ Spec.SM4.crypt rk (x.drop 16) := by
  rw [cryptoBlockX2_eq rk x hrk hx, Proofs.SM4.cryptoBlock_eq _ _ hrk, Proofs.SM4.cryptoBlock_eq _ _ hrk]

/-! ### composition -/

/-- C05 for the portable path: with the round keys `expandKey` produces from a 16-byte key, `cryptoBlock`
    computes SM4 encryption and decryption of every block, and decryption inverts encryption.
    (The model returns the output block as a value: source and destination being the same buffer
    cannot make a difference to a code path that reads `x` completely before writing `y`, which is what
    `cryptoBlock` does; the in-place case is exercised on the Go code by the harness.) -/
theorem C05_portable (key blk : Bytes) (hk : key.length = 16) (hb : blk.length = 16) :
    Model.SM4.cryptoBlock tb (Model.SM4.expandKey tb key).1 blk = Spec.SM4.encrypt key blk
    ∧ Model.SM4.cryptoBlock tb (Model.SM4.expandKey tb key).2 blk = Spec.SM4.decrypt key blk
    ∧ Model.SM4.cryptoBlock tb (Model.SM4.expandKey tb key).2
        (Model.SM4.cryptoBlock tb (Model.SM4.expandKey tb key).1 blk) = blk := by
  have hlen : (Spec.SM4.keySchedule key).length = 32 := Proofs.SM4.keySchedule_length key
  have hlen' : (Spec.SM4.keySchedule key).reverse.length = 32 := by rw [List.length_reverse, hlen]
  rw [expandKey_eq_spec key hk]
  simp only [Proofs.SM4.cryptoBlock_eq _ _ hlen, Proofs.SM4.cryptoBlock_eq _ _ hlen']
  exact ⟨rfl, rfl, decrypt_encrypt key blk hk hb⟩

/-- C05 for the portable two-block path -/
theorem C05_portable_X2 (key x : Bytes) (hk : key.length = 16) (hx : x.length = 32) :
    Model.SM4.cryptoBlockX2 tb (Model.SM4.expandKey tb key).1 x
      = Spec.SM4.encrypt key (x.take 16) ++ Spec.SM4.encrypt key (x.drop 16)
    ∧ Model.SM4.cryptoBlockX2 tb (Model.SM4.expandKey tb key).2 x
      = Spec.SM4.decrypt key (x.take 16) ++ Spec.SM4.decrypt key (x.drop 16) := by
  have hlen : (Spec.SM4.keySchedule key).length = 32 := Proofs.SM4.keySchedule_length key
  have hlen' : (Spec.SM4.keySchedule key).reverse.length = 32 := by rw [List.length_reverse, hlen]
  rw [expandKey_eq_spec key hk]
  simp only [Spec.SM4.encrypt, Spec.SM4.decrypt]
  exact ⟨cryptoBlockX2_eq_spec (Spec.SM4.keySchedule key) x hlen hx,
    cryptoBlockX2_eq_spec (Spec.SM4.keySchedule key).reverse x hlen' hx⟩

/-! ### the hypotheses are satisfiable (concrete, non-trivial instances) -/

local notation "exKey" =>
  ([0x01,0x23,0x45,0x67,0x89,0xab,0xcd,0xef,0xfe,0xdc,0xba,0x98,0x76,0x54,0x32,0x10] : Bytes)
local notation "exBlk" =>
  ([0x00,0x11,0x22,0x33,0x44,0x55,0x66,0x77,0x88,0x99,0xaa,0xbb,0xcc,0xdd,0xee,0xff] : Bytes)

example : (exKey).length = 16 ∧ (exBlk).length = 16 ∧ (exBlk ++ exKey).length = 32 := by decide
example : (Spec.SM4.crypt (Spec.SM4.keySchedule exKey) exBlk).length = 16 := crypt_length _ _
example : Spec.SM4.decrypt exKey (Spec.SM4.encrypt exKey exBlk) = exBlk := decrypt_encrypt exKey exBlk (by decide) (by decide)
example : Spec.SM4.encrypt exKey (Spec.SM4.decrypt exKey exBlk) = exBlk := encrypt_decrypt exKey exBlk (by decide) (by decide)
example : Spec.SM4.encrypt exKey exBlk ≠ exBlk := by decide +kernel
example : Model.SM4.ss tb 0x12345678#32 = Spec.SM4.T 0x12345678#32 := ss_eq_T _
example : Spec.SM4.T 0x12345678#32 ≠ 0x12345678#32 := by decide +kernel
example : Model.SM4.transTPrime tb 0x12345678#32 = Spec.SM4.T' 0x12345678#32 := transTPrime_eq _
example : Model.SM4.expandKey tb exKey = (Spec.SM4.keySchedule exKey, (Spec.SM4.keySchedule exKey).reverse) :=
  expandKey_eq_spec exKey (by decide)
example : (Spec.SM4.keySchedule exKey).length = 32 ∧ (Spec.SM4.keySchedule exKey).getD 0 0 = 0xf12186f9#32 := by
  decide +kernel
example : Model.SM4.newCipher tb (exKey ++ [0x00]) = .err := newCipher_rejects _ (by decide)
example : Model.SM4.newCipher tb [] = .err := newCipher_rejects _ (by decide)
example : ∃ r, Model.SM4.newCipher tb exKey = .ok r := ⟨_, newCipher_accepts exKey (by decide)⟩
example : Model.SM4.cryptoBlock tb (Spec.SM4.keySchedule exKey) exBlk = Spec.SM4.crypt (Spec.SM4.keySchedule exKey) exBlk :=
  cryptoBlock_eq_spec _ _ (Proofs.SM4.keySchedule_length exKey) (by decide)
example : Model.SM4.cryptoBlockX2 tb (Spec.SM4.keySchedule exKey) (exBlk ++ exKey)
    = Model.SM4.cryptoBlock tb (Spec.SM4.keySchedule exKey) exBlk ++ Model.SM4.cryptoBlock tb (Spec.SM4.keySchedule exKey) exKey :=
  cryptoBlockX2_eq _ (exBlk ++ exKey) (Proofs.SM4.keySchedule_length exKey) (by decide)
example : Model.SM4.cryptoBlock tb (Model.SM4.expandKey tb exKey).1 exKey
    = [0x68,0x1e,0xdf,0x34,0xd2,0x06,0x96,0x5e,0x86,0xb3,0xe9,0x4f,0x53,0x6e,0x42,0x46] := by
  rw [(C05_portable exKey exKey (by decide) (by decide)).1]; exact spec_vector_A1
example : Model.SM4.cryptoBlockX2 tb (Model.SM4.expandKey tb exKey).1 (exBlk ++ exKey)
    = Spec.SM4.encrypt exKey exBlk ++ Spec.SM4.encrypt exKey exKey :=
  (C05_portable_X2 exKey (exBlk ++ exKey) (by decide) (by decide)).1
example : Model.SM4.cryptoBlockX2 tb (Spec.SM4.keySchedule exKey).reverse (exBlk ++ exKey)
    = Spec.SM4.crypt (Spec.SM4.keySchedule exKey).reverse exBlk ++ Spec.SM4.crypt (Spec.SM4.keySchedule exKey).reverse exKey :=
  cryptoBlockX2_eq_spec _ (exBlk ++ exKey) (by rw [List.length_reverse]; exact Proofs.SM4.keySchedule_length _) (by decide)

/-! ## ===== Assembly listings (amd64): the regenerated listing run by the value semantics =====

  The statements below are about `Gen.ListAmd64Asm.*`, the listings that `go tool asm -S` prints for
  /repo/sm4/asm_amd64.s (regenerated on every check), run by the instruction semantics of
  `SMGo/Model/ISAVal.lean` (TRUSTED: the reading of the Intel SDM; compared with the real CPU on every check
  by the harness streams `sm4.kernel`, `asm.expandkey`, `asm.ghash`, `asm.seal`, `asm.open`).
  `kernelState g v k rk dst0 src` is the entry state of `cryptoBlockAsm*(rk, dst, src)`: general registers
  `g`, vector registers `v`, opmask registers `k` hold anything; memory = the read-only symbols, the
  round keys `rk` (numbers, stored as little-endian dwords), the destination buffer `dst0`, the input `src`. -/

open Model.ISAVal in
/-- **the listing of `cryptoBlockAsm` computes the SM4 block function of the specification**: for all 32
    round keys, every 16-byte input, whatever the registers and the destination hold at entry, the run from the
    first instruction to RET succeeds and leaves `Spec.SM4.crypt rk src` in the destination buffer.
    Proved by symbolic execution of the listing: the listing decodes to prologue ++ 32 × `subRound` ++ epilogue
    (`x1_decode`, by evaluation), each `subRound` block is the round function on dword 0 of the state registers
    (`round_spec`, with the two GFNI instructions being the S-box by C18's `gfni_sbox`), the prologue and the
    epilogue are the big-endian load / reversed store (`prologue_spec`, `epilogue_spec`). -/
theorem asm_cryptoBlockAsm_eq_spec (g v k rk dst0 src : List Nat)
    (hg : g.length = 16) (hv : v.length = 32) (hrk : rk.length = 32) (hrkb : ∀ x ∈ rk, x < 2 ^ 32)
    (hsrc : src.length = 16) (hsb : ∀ x ∈ src, x < 256) (hdst : dst0.length = 16) :
    runDst Gen.ListAmd64Asm.cryptoBlockAsm 2000 (kernelState g v k rk dst0 src)
      = .ok ((Spec.SM4.crypt (rk.map (BitVec.ofNat 32)) (src.map UInt8.ofNat)).map (·.toNat)) :=
  Proofs.ISAVal.kernelX1_eq_spec g v k rk dst0 src hg hv hrk hrkb hsrc hsb hdst

open Model.ISAVal Proofs.ISAVal in
/-- the `affine` macro (VGF2P8AFFINEQB with the pre-matrix, VGF2P8AFFINEINVQB with the post-matrix) is τ on
    dword 0 of an X register: the S-box of the specification on each of its four bytes -/
theorem asm_affine_is_tau (x : Nat) :
    lane 32 0 (gfAffine true 16 211 POSTv (gfAffine false 16 62 PREv x))
      = unlanes 8 ((lanes 8 4 (lane 32 0 x)).map Spec.SM4.sboxAlg) := by
  rw [lane0_sbox, tauN]
  congr 1
  apply List.map_congr_left
  intro b hb
  exact sboxByte_eq b (mem_lanes_lt 8 4 _ b hb)

open Model.ISAVal Proofs.ISAValTests in
/-- TEST (one input, by evaluation in the kernel): the listing of `cryptoBlockAsm` on the worked example of
    GB/T 32907 A.1 gives the standard's ciphertext -/
theorem asm_test_X1_standard :
    runDst Gen.ListAmd64Asm.cryptoBlockAsm 2000 (kernelState junkG junkV junkK rkStd (List.replicate 16 0) keyStd)
      = .ok [0x68,0x1e,0xdf,0x34,0xd2,0x06,0x96,0x5e,0x86,0xb3,0xe9,0x4f,0x53,0x6e,0x42,0x46] :=
  test_X1_standard

open Model.ISAVal Proofs.ISAValTests in
/-- TEST: the same with `dst == src` -/
theorem asm_test_X1_inplace :
    runDst Gen.ListAmd64Asm.cryptoBlockAsm 2000 (kernelStateInPlace junkG junkV junkK rkStd keyStd)
      = .ok [0x68,0x1e,0xdf,0x34,0xd2,0x06,0x96,0x5e,0x86,0xb3,0xe9,0x4f,0x53,0x6e,0x42,0x46] :=
  test_X1_inplace

open Model.ISAVal Proofs.ISAValTests in
/-- TEST: the listings of `cryptoBlockAsmX2 / X4 / X8 / X16` on 2 / 4 / 8 / 16 pairwise different blocks give
    that many encryptions of the specification (every lane carries its own block) -/
theorem asm_test_X2_X4_X8_X16 :
    runDst Gen.ListAmd64Asm.cryptoBlockAsmX2 2000 (kernelState junkG junkV junkK rkStd (List.replicate 32 0) (blocks16.take 32))
      = .ok (specBlocks rkStd (blocks16.take 32))
    ∧ runDst Gen.ListAmd64Asm.cryptoBlockAsmX4 2000 (kernelState junkG junkV junkK rkStd (List.replicate 64 0) (blocks16.take 64))
      = .ok (specBlocks rkStd (blocks16.take 64))
    ∧ runDst Gen.ListAmd64Asm.cryptoBlockAsmX8 2000 (kernelState junkG junkV junkK rkStd (List.replicate 128 0) (blocks16.take 128))
      = .ok (specBlocks rkStd (blocks16.take 128))
    ∧ runDst Gen.ListAmd64Asm.cryptoBlockAsmX16 2000 (kernelState junkG junkV junkK rkStd (List.replicate 256 0) blocks16)
      = .ok (specBlocks rkStd blocks16) :=
  ⟨test_X2, test_X4, test_X8, test_X16⟩

open Model.ISAVal Proofs.ISAValTests in
/-- TEST: the listing of `expandKeyAsm` on the example key writes the round keys of the specification, forwards
    into `enc` and backwards into `dec`; they are the round keys printed in the standard -/
theorem asm_test_expandKey :
    runExpandKey 2000 (expandKeyState junkG junkV junkK keyStd (List.replicate 128 0) (List.replicate 128 0))
      = .ok (((Spec.SM4.keySchedule (keyStd.map UInt8.ofNat)).map (·.toNat)),
             ((Spec.SM4.keySchedule (keyStd.map UInt8.ofNat)).reverse.map (·.toNat)))
    ∧ (Spec.SM4.keySchedule (keyStd.map UInt8.ofNat)).map (·.toNat) = rkStd :=
  ⟨test_expandKey, test_expandKey_standard⟩

open Model.ISAVal in
/-- **`cryptoBlockAsm` called in place** (`dst == src`, as `Encrypt(b, b)` does): the buffer ends up holding the
    block function of the specification applied to what it held -/
theorem asm_cryptoBlockAsm_inplace_eq_spec (g v k rk buf : List Nat)
    (hg : g.length = 16) (hv : v.length = 32) (hrk : rk.length = 32) (hrkb : ∀ x ∈ rk, x < 2 ^ 32)
    (hbuf : buf.length = 16) (hsb : ∀ x ∈ buf, x < 256) :
    runDst Gen.ListAmd64Asm.cryptoBlockAsm 2000 (kernelStateInPlace g v k rk buf)
      = .ok ((Spec.SM4.crypt (rk.map (BitVec.ofNat 32)) (buf.map UInt8.ofNat)).map (·.toNat)) :=
  Proofs.ISAVal.kernelX1_inplace_eq_spec g v k rk buf hg hv hrk hrkb hbuf hsb

open Model.ISAVal in
/-- **`cryptoBlockAsm` with `dst` and `src` inside ONE array, ANY overlap** (`kernelStateOverlap g v k rk buf doff soff` of
    SMGo/Model/ISAValOverlap.lean: `dst = &buf[doff]`, `src = &buf[soff]`; 0 < |doff − soff| < 16 is a partial overlap, in either
    direction; doff = soff is the in-place call): the 16 bytes at `doff` end up holding the block function of the specification
    applied to the 16 bytes that were at `soff` AT ENTRY, every other byte of the array keeps its value.  So on the assembly
    path the result for overlapping arguments is that of a call with a private copy of the input (one 16-byte load precedes
    the single 16-byte store). -/
theorem asm_cryptoBlockAsm_overlap_eq_spec (g v k rk buf : List Nat) (doff soff : Nat)
    (hg : g.length = 16) (hv : v.length = 32) (hrk : rk.length = 32) (hrkb : ∀ x ∈ rk, x < 2 ^ 32)
    (hd : doff + 16 ≤ buf.length) (hs : soff + 16 ≤ buf.length) (hl : buf.length ≤ 2 ^ 32) (hsb : ∀ x ∈ buf, x < 256) :
    runDst Gen.ListAmd64Asm.cryptoBlockAsm 2000 (kernelStateOverlap g v k rk buf doff soff)
      = .ok (buf.take doff
          ++ (Spec.SM4.crypt (rk.map (BitVec.ofNat 32)) (((buf.drop soff).take 16).map UInt8.ofNat)).map (·.toNat)
          ++ buf.drop (doff + 16)) :=
  Proofs.ISAVal.kernelX1_overlap_eq_spec g v k rk buf doff soff hg hv hrk hrkb hd hs hl hsb

open Model.ISAVal in
/-- **the listing of `expandKeyAsm` computes the key schedule of the specification**: for every 16-byte key,
    whatever the registers (at least two opmask registers exist) and the two 32-word arrays hold at entry, the run
    succeeds, `enc` receives rk_0 … rk_31 and `dec` receives them in reverse order.  (Symbolic execution as for
    `cryptoBlockAsm`; the constants CK_i, FK_j are read from the DATA symbols and are those of the specification.) -/
theorem asm_expandKeyAsm_eq_spec (g v k key enc0 dec0 : List Nat)
    (hg : g.length = 16) (hv : v.length = 32) (hk : 1 < k.length)
    (hkey : key.length = 16) (hkb : ∀ x ∈ key, x < 256) (henc : enc0.length = 128) (hdec : dec0.length = 128) :
    runExpandKey 2000 (expandKeyState g v k key enc0 dec0)
      = .ok ((Spec.SM4.keySchedule (key.map UInt8.ofNat)).map (·.toNat),
             (Spec.SM4.keySchedule (key.map UInt8.ofNat)).reverse.map (·.toNat)) :=
  Proofs.ISAVal.expandKey_eq_spec g v k key enc0 dec0 hg hv hk hkey hkb henc hdec

open Model.ISAVal in
/-- **C05 for the accelerated amd64 path of the public API, at the level of the listings**: `NewCipher` runs
    `expandKeyAsm`, `Encrypt` / `Decrypt` run `cryptoBlockAsm` with the `enc` / `dec` array it produced; the results
    are SM4 encryption and decryption of the specification.  (What is not covered by this theorem: the Go glue
    around the two routines — length checks, pointer passing — and the instruction semantics themselves, which
    are compared with the CPU by the harness.) -/
theorem C05_asm_amd64 (g v k g' v' k' key enc0 dec0 dst0 src : List Nat)
    (hg : g.length = 16) (hv : v.length = 32) (hk : 1 < k.length) (hg' : g'.length = 16) (hv' : v'.length = 32)
    (hkey : key.length = 16) (hkb : ∀ x ∈ key, x < 256) (henc : enc0.length = 128) (hdec : dec0.length = 128)
    (hsrc : src.length = 16) (hsb : ∀ x ∈ src, x < 256) (hdst : dst0.length = 16) :
    ∃ enc dec, runExpandKey 2000 (expandKeyState g v k key enc0 dec0) = .ok (enc, dec)
      ∧ runDst Gen.ListAmd64Asm.cryptoBlockAsm 2000 (kernelState g' v' k' enc dst0 src)
          = .ok ((Spec.SM4.encrypt (key.map UInt8.ofNat) (src.map UInt8.ofNat)).map (·.toNat))
      ∧ runDst Gen.ListAmd64Asm.cryptoBlockAsm 2000 (kernelState g' v' k' dec dst0 src)
          = .ok ((Spec.SM4.decrypt (key.map UInt8.ofNat) (src.map UInt8.ofNat)).map (·.toNat)) := by
  refine ⟨_, _, asm_expandKeyAsm_eq_spec g v k key enc0 dec0 hg hv hk hkey hkb henc hdec, ?_, ?_⟩
  · have hlen : (Spec.SM4.keySchedule (key.map UInt8.ofNat)).length = 32 := Proofs.SM4.keySchedule_length _
    rw [asm_cryptoBlockAsm_eq_spec g' v' k' _ dst0 src hg' hv' (by simp [hlen])
      (by intro x hx; simp only [List.mem_map] at hx; obtain ⟨w, _, rfl⟩ := hx; exact w.isLt) hsrc hsb hdst]
    simp [Spec.SM4.encrypt, List.map_map, Function.comp_def]
  · have hlen : (Spec.SM4.keySchedule (key.map UInt8.ofNat)).length = 32 := Proofs.SM4.keySchedule_length _
    rw [asm_cryptoBlockAsm_eq_spec g' v' k' _ dst0 src hg' hv' (by simp [hlen])
      (by intro x hx; simp only [List.mem_map] at hx; obtain ⟨w, _, rfl⟩ := hx; exact w.isLt) hsrc hsb hdst]
    simp [Spec.SM4.decrypt, List.map_map, Function.comp_def]

open Model.ISAVal Proofs.ISAVal in
/-- **the 32 `subRound` blocks at any vector length (X, Y or Z registers) compute 32 SM4 rounds on every dword
    lane**: from a state whose state registers carry, in dword lane `j`, the window `X j`, running the 544
    instructions `roundsCodeL vl 32` leaves in lane `j` the window after 32 rounds with the round keys read from
    memory (`iterN`; `stepN` is `Spec.SM4.roundStep` on numbers, `toW_stepN`).  This is the middle part of the wide kernels
    cryptoBlockAsmX2/X4/X8/X16 (their full statements follow) … -/
theorem asm_rounds_all_lanes (vl : Nat) (hvl : validVl vl = true) (mem : List Region) (syms frame : List (String × Nat))
    (rkBase dstp shuf : Nat) (kb : Nat → List Nat) (hbase : rkBase + 4 * 32 < 2 ^ 64)
    (hrk : ∀ i, i < 32 → readMem mem (rkBase + 4 * i) 4 = .ok (kb i))
    (hkb : ∀ i, i < 32 → unlanes 8 (kb i) < 2 ^ 32)
    (X : Nat → Nat × Nat × Nat × Nat) (s : State) (h : ReadyL vl mem syms frame rkBase dstp shuf 0 X s) :
    ∃ s', execList (roundsCodeL vl 32) s = .ok s' ∧
      ReadyL vl mem syms frame rkBase dstp shuf 32 (fun j => iterN (fun i => unlanes 8 (kb i)) (X j) 32) s' :=
  readyL_rounds vl hvl mem syms frame rkBase dstp shuf kb hbase hrk hkb X s h 32 (Nat.le_refl _)

open Proofs.ISAVal in
/-- … and these 544 instructions are, instruction for instruction, what the regenerated listings of the four wide
    kernels contain between their prologue and their epilogue (checked by evaluation) -/
theorem asm_wide_kernels_rounds :
    decodedSlice Gen.ListAmd64Asm.cryptoBlockAsmX2 17 544 = some (roundsCodeL 16 32)
    ∧ decodedSlice Gen.ListAmd64Asm.cryptoBlockAsmX4 25 544 = some (roundsCodeL 16 32)
    ∧ decodedSlice Gen.ListAmd64Asm.cryptoBlockAsmX8 25 544 = some (roundsCodeL 32 32)
    ∧ decodedSlice Gen.ListAmd64Asm.cryptoBlockAsmX16 25 544 = some (roundsCodeL 64 32) :=
  wide_kernels_rounds

open Model.ISAVal Proofs.ISAVal in
/-- `cryptBlocks rk src n` = the first `n` 16-byte blocks of `src`, each through the block function of the
    specification, one after the other -/
theorem asm_cryptBlocks_def (rk src : List Nat) (n : Nat) :
    cryptBlocks rk src n = (List.range n).flatMap (fun β =>
      (Spec.SM4.crypt (rk.map (BitVec.ofNat 32)) ((((src.drop (16 * β)).take 16)).map UInt8.ofNat)).map (·.toNat)) := rfl

open Model.ISAVal Proofs.ISAVal in
/-- **the listing of `cryptoBlockAsmX2` computes the block function of the specification on each of its two blocks**:
    for all 32 round keys, every 32-byte input, whatever the registers and the destination hold at entry.
    (Prologue: two loads, `rev32`, the partial transposition that puts the words of block b into dword lane b
    of V6..V9 — lanes 2, 3 carry by-products that the epilogue drops; 32 rounds by `asm_rounds_all_lanes`;
    epilogue: gather, `rev32`, two stores.) -/
theorem asm_cryptoBlockAsmX2_eq_spec (g v k rk dst0 src : List Nat)
    (hg : g.length = 16) (hv : v.length = 32) (hrk : rk.length = 32) (hrkb : ∀ x ∈ rk, x < 2 ^ 32)
    (hsrc : src.length = 32) (hsb : ∀ x ∈ src, x < 2 ^ 8) (hdst : dst0.length = 32) :
    runDst Gen.ListAmd64Asm.cryptoBlockAsmX2 2000 (kernelState g v k rk dst0 src) = .ok (cryptBlocks rk src 2) :=
  kernelX2_eq_spec g v k rk dst0 src hg hv hrk hrkb hsrc hsb hdst

open Model.ISAVal Proofs.ISAVal in
/-- **the same for `cryptoBlockAsmX4`** (four blocks, X registers).  The three kernels X4/X8/X16 are one scheme
    `wideCode vl` at vector length 16/32/64 (`wide_decode`, by evaluation): prologue = constants, four vector
    loads, `rev32` of every dword, the 4×4 dword transposition on every 128-bit lane (after which dword lane `j` of
    the state register k holds word k of block `(vl/16)·(j mod 4) + j/4`, `wpro_spec`); 32 rounds on every lane
    (`asm_rounds_all_lanes`); epilogue = transposition back with the registers in reverse order, `rev32`, four
    stores (`wepi_spec`). -/
theorem asm_cryptoBlockAsmX4_eq_spec (g v k rk dst0 src : List Nat)
    (hg : g.length = 16) (hv : v.length = 32) (hrk : rk.length = 32) (hrkb : ∀ x ∈ rk, x < 2 ^ 32)
    (hsrc : src.length = 64) (hsb : ∀ x ∈ src, x < 2 ^ 8) (hdst : dst0.length = 64) :
    runDst Gen.ListAmd64Asm.cryptoBlockAsmX4 2000 (kernelState g v k rk dst0 src) = .ok (cryptBlocks rk src 4) :=
  kernelX4_eq_spec g v k rk dst0 src hg hv hrk hrkb hsrc hsb hdst

open Model.ISAVal Proofs.ISAVal in
/-- **the same for `cryptoBlockAsmX8`** (eight blocks, Y registers) -/
theorem asm_cryptoBlockAsmX8_eq_spec (g v k rk dst0 src : List Nat)
    (hg : g.length = 16) (hv : v.length = 32) (hrk : rk.length = 32) (hrkb : ∀ x ∈ rk, x < 2 ^ 32)
    (hsrc : src.length = 128) (hsb : ∀ x ∈ src, x < 2 ^ 8) (hdst : dst0.length = 128) :
    runDst Gen.ListAmd64Asm.cryptoBlockAsmX8 2000 (kernelState g v k rk dst0 src) = .ok (cryptBlocks rk src 8) :=
  kernelX8_eq_spec g v k rk dst0 src hg hv hrk hrkb hsrc hsb hdst

open Model.ISAVal Proofs.ISAVal in
/-- **the same for `cryptoBlockAsmX16`** (sixteen blocks, Z registers) -/
theorem asm_cryptoBlockAsmX16_eq_spec (g v k rk dst0 src : List Nat)
    (hg : g.length = 16) (hv : v.length = 32) (hrk : rk.length = 32) (hrkb : ∀ x ∈ rk, x < 2 ^ 32)
    (hsrc : src.length = 256) (hsb : ∀ x ∈ src, x < 2 ^ 8) (hdst : dst0.length = 256) :
    runDst Gen.ListAmd64Asm.cryptoBlockAsmX16 2000 (kernelState g v k rk dst0 src) = .ok (cryptBlocks rk src 16) :=
  kernelX16_eq_spec g v k rk dst0 src hg hv hrk hrkb hsrc hsb hdst

/- Scope of the four theorems above: `dst` and `src` disjoint buffers of exactly n·16 bytes (the in-place call
   `dst == src` is proved for `cryptoBlockAsm` only); on amd64 the wide kernels are reached only from tests
   (Encrypt/Decrypt use cryptoBlockAsm, GCM uses its own fused routine, see Props/C06Asm.lean and the harness).
   The instruction semantics are the trusted reading of the SDM, compared with the CPU on every check. -/

end SMGo.Props.C05

#print axioms SMGo.Props.C05.spec_vector_A1
#print axioms SMGo.Props.C05.crypt_length
#print axioms SMGo.Props.C05.decrypt_encrypt
#print axioms SMGo.Props.C05.encrypt_decrypt
#print axioms SMGo.Props.C05.sbox_alg
#print axioms SMGo.Props.C05.sbox_bijective
#print axioms SMGo.Props.C05.gfInv_spec
#print axioms SMGo.Props.C05.sbox_standard_table
#print axioms SMGo.Props.C05.ttables
#print axioms SMGo.Props.C05.ck_fk
#print axioms SMGo.Props.C05.L_xor
#print axioms SMGo.Props.C05.ss_eq_T
#print axioms SMGo.Props.C05.transTPrime_eq
#print axioms SMGo.Props.C05.expandKey_eq_spec
#print axioms SMGo.Props.C05.newCipher_rejects
#print axioms SMGo.Props.C05.newCipher_accepts
#print axioms SMGo.Props.C05.cryptoBlock_eq_spec
#print axioms SMGo.Props.C05.cryptoBlockX2_eq
#print axioms SMGo.Props.C05.cryptoBlockX2_eq_spec
#print axioms SMGo.Props.C05.C05_portable
#print axioms SMGo.Props.C05.C05_portable_X2
#print axioms SMGo.Props.C05.asm_cryptoBlockAsm_eq_spec
#print axioms SMGo.Props.C05.asm_affine_is_tau
#print axioms SMGo.Props.C05.asm_test_X1_standard
#print axioms SMGo.Props.C05.asm_test_X1_inplace
#print axioms SMGo.Props.C05.asm_test_X2_X4_X8_X16
#print axioms SMGo.Props.C05.asm_cryptBlocks_def
#print axioms SMGo.Props.C05.asm_cryptoBlockAsmX2_eq_spec
#print axioms SMGo.Props.C05.asm_cryptoBlockAsmX4_eq_spec
#print axioms SMGo.Props.C05.asm_cryptoBlockAsmX8_eq_spec
#print axioms SMGo.Props.C05.asm_cryptoBlockAsmX16_eq_spec
#print axioms SMGo.Props.C05.asm_test_expandKey
#print axioms SMGo.Props.C05.asm_cryptoBlockAsm_inplace_eq_spec
#print axioms SMGo.Props.C05.asm_cryptoBlockAsm_overlap_eq_spec
#print axioms SMGo.Props.C05.asm_expandKeyAsm_eq_spec
#print axioms SMGo.Props.C05.C05_asm_amd64
#print axioms SMGo.Props.C05.asm_rounds_all_lanes
#print axioms SMGo.Props.C05.asm_wide_kernels_rounds
