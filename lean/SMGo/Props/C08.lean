/-
  Property C08 — secret-independent control flow and memory access in the sensitive primitives.
  (Property theorems only; the checker and interpreter are SMGo/Model/CTIR.lean, the program is
  GENERATED from the Go sources: SMGo/Gen/CTIRProg.lean (`prog`, 100 functions: `prog_length`), the
  soundness proof is SMGo/Proofs/CTIRSound.lean, the external world SMGo/Proofs/CTIROracle.lean, the kernel
  evaluations SMGo/Proofs/CTIRCheck*.lean.)

  "While multiplying the base point or an arbitrary point by a secret scalar, inverting a secret
  modulo n or p, selecting from precomputed tables, range-testing a private key and comparing secret
  byte strings, the sequence of executed basic blocks and the set of memory locations accessed are the
  same for every value of the secret (of a given length); only the final accept/reject verdicts depend
  on it."

  Reading.  `ct_f : check (slice prog f) sigs f = true` — f and everything it calls respect their label
  signatures (`sigs`: secrets = byte strings, words, field/scalar elements, points, math/big values;
  public = lengths, counters, window parameters, the reader and its position).  Then:
    * `sound`: two COMPLETED runs of f with equal public arguments, secret arguments of the same shape
      (lengths), related external worlds and equal declassified verdicts have the same leakage trace
      (branch decisions, loop-condition outcomes, indices, slice bounds, allocation sizes, shift counts,
      callees, arguments of leaking external calls);
    * `progress`: if one run completes with fuel f, every such second run completes with the SAME fuel
      and the same trace — or its trace so far departs from the first at a declassified verdict.  So
      "the run completes" is itself a public property; no theorem below is vacuous for one secret and
      meaningful for another.
    * `stdOracle_rel`: the hypothesis on the external worlds is inhabited by the executable model
      `stdOracle extKinds tape` of the math/big operations, `io.ReadFull` (a tape: successive reads
      deliver successive candidates; the position is a public variable of the calling function) and
      `fmt.Errorf`, for ANY two tapes.  `SignHashed_trace`, `GenerateKey_trace`, … are stated with it:
      no side condition on the external world remains.
    * Non-stuckness itself: `runs_*` are kernel evaluations of the interpreter on concrete inputs for
      the functions that fit the kernel (comparison, key range test, bit extraction, table selection,
      Fiat primitives, SetBytes of both fields, ensure32Bytes, point addition and doubling), `redraw_*`
      shows a run with a rejected candidate completing.  For the big ones (the inversions, the scalar
      multiplications, SignHashed, GenerateKey, DerivePublic) completion is evidenced by the driver runs of
      the harness (results compared with the real functions, streams with rejected candidates
      included), NOT proved.

  What is assumed, stated plainly.
    * math/big on secret-derived values.  In SignHashed these calls occur (non-leaking `ext` nodes,
      `Event.obs`): SetBytes(e), Add(x, e), Mod(r, n), Sign(r), SetBytes(K), Add(r, k), FillBytes(r + k),
      SetBytes(priv), Add(d, 1), FillBytes(1 + d), Mul(r + k, (1 + d)⁻¹), Sub(s, r), Mod(s, n), Sign(s); in
      its callees: SetBytes in ToBigInt (x of [k]G, (1 + d)⁻¹), and Bytes() of r and s in ensure32Bytes.
      Their OWN execution is assumed trace-free: math/big is variable time (limb counts of r + k,
      (1 + d)⁻¹ vary) and is outside the operations the property enumerates.  What the theorems cover is
      everything the program does WITH their results.  The byte length of `Bytes()` depends on the value:
      it is a separate result (`ByteLen`) that the checker forces to be declassified before it becomes
      an allocation size / slice bound (site 14: r and s are the public outputs of the call).
    * The `_Unsafe` conversions (rejected: `reject_*`, `witness_*`) are reached only from VerifyHashed,
      on a point computed from the signature and the public key.  VerifyHashed and
      ScalarMixedMult_Unsafe are not translated: that nothing else calls them is `callers_of_modinverse_conversions`
      for the translated functions and inspection of the sources for the others.
    * Idealisations of the translator: nil-ness of pointers and slices is not represented (`p == nil`
      is false, the Go code panics there); an error value is the integer 1, an interface a handle;
      `int(math.Pow(2, float64(w)) - 1)` is `(1 << w) - 1`; `len(x) / 2^k` is a shift; an index, slice or
      `copy` out of range is a stuck run, not a panic; a pointer is its pointee (value semantics, under
      the aliasing discipline enforced by the translator); FillBytes into a too short buffer (a panic
      in Go, unreachable in SignHashed) keeps the low bytes.
    * Verdict sites (`siteInfo`): 0, 1 TestPrivateKey `acc == 0`, `cmp == -1`; 2, 3 SetBytes (mod p, mod n)
      `ConstantTimeCmp(…) > 0`; 4, 5, 6 `p.z.IsZero() == 1`; 7 GenerateKey `TestPrivateKey(priv) == 0`;
      8 SignHashed `test := TestPrivateKey(priv)` — this one declassifies the integer code (0 accepted,
      −1 out of range or zero, len − 32 too long: a function of the verdict and the public length);
      9–13 the retry decisions; 14 the byte lengths of the outputs r and s.

  Still rejected (`reject_*`, `witness_*`): GetAffineX_Unsafe / Bytes_Unsafe (big.Int.ModInverse of Z).

  Former violations, repaired in the sources (documentation; see SMGo/Proofs/CTIRCheckE.lean):
  SM2ScalarElement.SetBytes early-exit comparison (9cead3d); SignHashed / GenerateKey / DerivePublic through
  GetAffineX_Unsafe / Bytes_Unsafe (233fd1f); ConstantTimeCmp's branching three-way result (9a85a34);
  SignHashed's use of the byte lengths of (r+k).Bytes() and (1+d).Bytes() (3579533: fixed-width FillBytes).
-/
import SMGo.Model.CTIR
import SMGo.Gen.CTIRProg
import SMGo.Proofs.CTIRSound
import SMGo.Proofs.CTIROracle
import SMGo.Proofs.CTIRCheckA
import SMGo.Proofs.CTIRCheckB
import SMGo.Proofs.CTIRCheckC
import SMGo.Proofs.CTIRCheckD
import SMGo.Proofs.CTIRCheckE
import SMGo.Proofs.CTIRCheckF
import SMGo.Proofs.CTIRCheckG
import SMGo.Proofs.CTIRCheckH
namespace SMGo.Props.C08
open SMGo.Model.CTIR SMGo.Gen.CTIRProg SMGo.Proofs.CTIRCheck

/-! ## Soundness of the check (restated) -/

/-- two runs of a checked function on low-equivalent arguments: the traces are equal, or they agree
    up to a declassified verdict on which the runs differ -/
theorem check_sound (P : Prog) (S : Sigs) (G : Nat → Val) (X1 X2 : Oracle) (hX : OracleRel S X1 X2)
    (g : Nat) (hc : check P S g = true) (fs : FnSig) (hfs : S.fn[g]? = some fs)
    (a1 a2 : List Val) (ha : lowEqList fs.params a1 a2)
    (f1 f2 : Nat) (c1 c2 : Ctl) (t1 t2 : Trace)
    (h1 : run P G X1 f1 g a1 = some (c1, t1)) (h2 : run P G X2 f2 g a2 = some (c2, t2)) :
    Div t1 t2 ∨ (t1 = t2 ∧ CtlRel fs.results c1 c2) :=
  SMGo.Model.CTIR.check_sound P S G X1 X2 hX g hc fs hfs a1 a2 ha f1 f2 c1 c2 t1 t2 h1 h2

/-- the form of the property: equal public inputs, secrets of equal shape, equal declassified verdicts
    ⇒ the same leakage trace (and results that agree on their public parts) -/
theorem sound (g : Nat) (hc : check (slice prog g) sigs g = true) (fs : FnSig) (hfs : sigs.fn[g]? = some fs)
    (X1 X2 : Oracle) (hX : OracleRel sigs X1 X2)
    (a1 a2 : List Val) (ha : lowEqList fs.params a1 a2)
    (f1 f2 : Nat) (c1 c2 : Ctl) (t1 t2 : Trace)
    (h1 : run (slice prog g) globals X1 f1 g a1 = some (c1, t1))
    (h2 : run (slice prog g) globals X2 f2 g a2 = some (c2, t2))
    (hd : declassOf t1 = declassOf t2) : t1 = t2 ∧ CtlRel fs.results c1 c2 :=
  check_sound_trace (slice prog g) sigs globals X1 X2 hX g hc fs hfs a1 a2 ha f1 f2 c1 c2 t1 t2 h1 h2 hd

/-- progress (lockstep): if one run of a checked function completes with fuel `f`, a second run with equal
    public arguments, secrets of the same shape and a related external world, given the SAME fuel,
    completes with the same trace — or its trace so far departs from the first at a declassified
    verdict.  The second run is not assumed to terminate. -/
theorem progress (g : Nat) (hc : check (slice prog g) sigs g = true) (fs : FnSig) (hfs : sigs.fn[g]? = some fs)
    (X1 X2 : Oracle) (hX : OracleRel sigs X1 X2)
    (a1 a2 : List Val) (ha : lowEqList fs.params a1 a2) (f : Nat) (c1 : Ctl) (t1 : Trace)
    (h1 : run (slice prog g) globals X1 f g a1 = some (c1, t1)) :
    (∃ c2, run (slice prog g) globals X2 f g a2 = some (c2, t1) ∧ CtlRel fs.results c1 c2) ∨
      Div t1 (runT (slice prog g) globals X2 f g a2).2 :=
  check_progress (slice prog g) sigs globals X1 X2 hX g hc fs hfs a1 a2 ha f c1 t1 h1

/-- … in particular with equal verdicts (on the trace so far of the second run) it completes -/
theorem progress_verdicts (g : Nat) (hc : check (slice prog g) sigs g = true) (fs : FnSig) (hfs : sigs.fn[g]? = some fs)
    (X1 X2 : Oracle) (hX : OracleRel sigs X1 X2)
    (a1 a2 : List Val) (ha : lowEqList fs.params a1 a2) (f : Nat) (c1 : Ctl) (t1 : Trace)
    (h1 : run (slice prog g) globals X1 f g a1 = some (c1, t1))
    (hd : declassOf t1 = declassOf (runT (slice prog g) globals X2 f g a2).2) :
    ∃ c2, run (slice prog g) globals X2 f g a2 = some (c2, t1) ∧ CtlRel fs.results c1 c2 :=
  check_progress_verdicts (slice prog g) sigs globals X1 X2 hX g hc fs hfs a1 a2 ha f c1 t1 h1 hd

/-- `check_progress` of SMGo/Proofs/CTIRSound.lean, for ANY program, signatures and globals (`progress` above is its instance
    for `slice prog g`, `sigs`, `globals`) -/
theorem progress_general (P : Prog) (S : Sigs) (G : Nat → Val) (X1 X2 : Oracle) (hX : OracleRel S X1 X2)
    (g : Nat) (hc : check P S g = true) (fs : FnSig) (hfs : S.fn[g]? = some fs)
    (a1 a2 : List Val) (ha : lowEqList fs.params a1 a2) (f : Nat) (c1 : Ctl) (t1 : Trace)
    (h1 : run P G X1 f g a1 = some (c1, t1)) :
    (∃ c2, run P G X2 f g a2 = some (c2, t1) ∧ CtlRel fs.results c1 c2) ∨
      Div t1 (runT P G X2 f g a2).2 :=
  check_progress P S G X1 X2 hX g hc fs hfs a1 a2 ha f c1 t1 h1

/-- `check_progress_verdicts`, for any program -/
theorem progress_verdicts_general (P : Prog) (S : Sigs) (G : Nat → Val) (X1 X2 : Oracle) (hX : OracleRel S X1 X2)
    (g : Nat) (hc : check P S g = true) (fs : FnSig) (hfs : S.fn[g]? = some fs)
    (a1 a2 : List Val) (ha : lowEqList fs.params a1 a2) (f : Nat) (c1 : Ctl) (t1 : Trace)
    (h1 : run P G X1 f g a1 = some (c1, t1))
    (hd : declassOf t1 = declassOf (runT P G X2 f g a2).2) :
    ∃ c2, run P G X2 f g a2 = some (c2, t1) ∧ CtlRel fs.results c1 c2 :=
  check_progress_verdicts P S G X1 X2 hX g hc fs hfs a1 a2 ha f c1 t1 h1 hd

/-- the external world: the executable model of math/big, io.ReadFull (tape) and fmt.Errorf satisfies the
    hypothesis `OracleRel` of the theorems above, for any two tapes (contents secret; number, positions
    and lengths of the reads are those of the calls) -/
theorem stdOracle_rel (tape1 tape2 : Nat → Nat → Nat) :
    OracleRel sigs (stdOracle extKinds tape1) (stdOracle extKinds tape2) :=
  SMGo.Model.CTIR.stdOracle_rel tape1 tape2

theorem prog_length : prog.length = 100 := by decide +kernel

/-! ## Per-function instances (kernel evaluation of the checker on the generated program) -/

theorem ct_ConstantTimeCmp : check (slice prog f_utils_ConstantTimeCmp) sigs f_utils_ConstantTimeCmp = true := SMGo.Proofs.CTIRCheck.ct_ConstantTimeCmp
theorem ct_TestPrivateKey : check (slice prog f_sm2_TestPrivateKey) sigs f_sm2_TestPrivateKey = true := SMGo.Proofs.CTIRCheck.ct_TestPrivateKey
theorem ct_extractBit : check (slice prog f_internal_extractBit) sigs f_internal_extractBit = true := SMGo.Proofs.CTIRCheck.ct_extractBit
theorem ct_extractHigherBits : check (slice prog f_internal_extractHigherBits) sigs f_internal_extractHigherBits = true := SMGo.Proofs.CTIRCheck.ct_extractHigherBits
theorem ct_extractLowerBits : check (slice prog f_internal_extractLowerBits) sigs f_internal_extractLowerBits = true := SMGo.Proofs.CTIRCheck.ct_extractLowerBits
theorem ct_selectPoints : check (slice prog f_internal_selectPoints) sigs f_internal_selectPoints = true := SMGo.Proofs.CTIRCheck.ct_selectPoints
theorem ct_MultiSelectXY : check (slice prog f_internal_SM2Point_MultiSelectXY) sigs f_internal_SM2Point_MultiSelectXY = true := SMGo.Proofs.CTIRCheck.ct_MultiSelectXY
theorem ct_MultiSelectXYZ : check (slice prog f_internal_SM2Point_MultiSelectXYZ) sigs f_internal_SM2Point_MultiSelectXYZ = true := SMGo.Proofs.CTIRCheck.ct_MultiSelectXYZ
theorem ct_multiSelectConditioned : check (slice prog f_internal_SM2Point_multiSelectConditioned) sigs f_internal_SM2Point_multiSelectConditioned = true := SMGo.Proofs.CTIRCheck.ct_multiSelectConditioned
theorem ct_MultiSelect : check (slice prog f_fiat_SM2Element_MultiSelect) sigs f_fiat_SM2Element_MultiSelect = true := SMGo.Proofs.CTIRCheck.ct_MultiSelect
theorem ct_Select_p : check (slice prog f_fiat_SM2Element_Select) sigs f_fiat_SM2Element_Select = true := SMGo.Proofs.CTIRCheck.ct_Select_p
theorem ct_Set_p : check (slice prog f_fiat_SM2Element_Set) sigs f_fiat_SM2Element_Set = true := SMGo.Proofs.CTIRCheck.ct_Set_p
theorem ct_One_p : check (slice prog f_fiat_SM2Element_One) sigs f_fiat_SM2Element_One = true := SMGo.Proofs.CTIRCheck.ct_One_p
theorem ct_Add_p : check (slice prog f_fiat_SM2Element_Add) sigs f_fiat_SM2Element_Add = true := SMGo.Proofs.CTIRCheck.ct_Add_p
theorem ct_Sub_p : check (slice prog f_fiat_SM2Element_Sub) sigs f_fiat_SM2Element_Sub = true := SMGo.Proofs.CTIRCheck.ct_Sub_p
theorem ct_Opp_p : check (slice prog f_fiat_SM2Element_Opp) sigs f_fiat_SM2Element_Opp = true := SMGo.Proofs.CTIRCheck.ct_Opp_p
theorem ct_Mul_p : check (slice prog f_fiat_SM2Element_Mul) sigs f_fiat_SM2Element_Mul = true := SMGo.Proofs.CTIRCheck.ct_Mul_p
theorem ct_Square_p : check (slice prog f_fiat_SM2Element_Square) sigs f_fiat_SM2Element_Square = true := SMGo.Proofs.CTIRCheck.ct_Square_p
theorem ct_SetRaw : check (slice prog f_fiat_SM2Element_SetRaw) sigs f_fiat_SM2Element_SetRaw = true := SMGo.Proofs.CTIRCheck.ct_SetRaw
theorem ct_GetRaw : check (slice prog f_fiat_SM2Element_GetRaw) sigs f_fiat_SM2Element_GetRaw = true := SMGo.Proofs.CTIRCheck.ct_GetRaw
theorem ct_sm2Mul : check (slice prog f_fiat_sm2Mul) sigs f_fiat_sm2Mul = true := SMGo.Proofs.CTIRCheck.ct_sm2Mul
theorem ct_sm2Square : check (slice prog f_fiat_sm2Square) sigs f_fiat_sm2Square = true := SMGo.Proofs.CTIRCheck.ct_sm2Square
theorem ct_sm2Add : check (slice prog f_fiat_sm2Add) sigs f_fiat_sm2Add = true := SMGo.Proofs.CTIRCheck.ct_sm2Add
theorem ct_sm2Sub : check (slice prog f_fiat_sm2Sub) sigs f_fiat_sm2Sub = true := SMGo.Proofs.CTIRCheck.ct_sm2Sub
theorem ct_sm2Opp : check (slice prog f_fiat_sm2Opp) sigs f_fiat_sm2Opp = true := SMGo.Proofs.CTIRCheck.ct_sm2Opp
theorem ct_sm2FromMontgomery : check (slice prog f_fiat_sm2FromMontgomery) sigs f_fiat_sm2FromMontgomery = true := SMGo.Proofs.CTIRCheck.ct_sm2FromMontgomery
theorem ct_sm2ToMontgomery : check (slice prog f_fiat_sm2ToMontgomery) sigs f_fiat_sm2ToMontgomery = true := SMGo.Proofs.CTIRCheck.ct_sm2ToMontgomery
theorem ct_sm2ToBytes : check (slice prog f_fiat_sm2ToBytes) sigs f_fiat_sm2ToBytes = true := SMGo.Proofs.CTIRCheck.ct_sm2ToBytes
theorem ct_sm2FromBytes : check (slice prog f_fiat_sm2FromBytes) sigs f_fiat_sm2FromBytes = true := SMGo.Proofs.CTIRCheck.ct_sm2FromBytes
theorem ct_sm2SetOne : check (slice prog f_fiat_sm2SetOne) sigs f_fiat_sm2SetOne = true := SMGo.Proofs.CTIRCheck.ct_sm2SetOne
theorem ct_sm2Selectznz : check (slice prog f_fiat_sm2Selectznz) sigs f_fiat_sm2Selectznz = true := SMGo.Proofs.CTIRCheck.ct_sm2Selectznz
theorem ct_sm2CmovznzU64 : check (slice prog f_fiat_sm2CmovznzU64) sigs f_fiat_sm2CmovznzU64 = true := SMGo.Proofs.CTIRCheck.ct_sm2CmovznzU64
theorem ct_sm2ScalarMul : check (slice prog f_fiat_sm2ScalarMul) sigs f_fiat_sm2ScalarMul = true := SMGo.Proofs.CTIRCheck.ct_sm2ScalarMul
theorem ct_sm2ScalarSquare : check (slice prog f_fiat_sm2ScalarSquare) sigs f_fiat_sm2ScalarSquare = true := SMGo.Proofs.CTIRCheck.ct_sm2ScalarSquare
theorem ct_sm2ScalarAdd : check (slice prog f_fiat_sm2ScalarAdd) sigs f_fiat_sm2ScalarAdd = true := SMGo.Proofs.CTIRCheck.ct_sm2ScalarAdd
theorem ct_sm2ScalarSub : check (slice prog f_fiat_sm2ScalarSub) sigs f_fiat_sm2ScalarSub = true := SMGo.Proofs.CTIRCheck.ct_sm2ScalarSub
theorem ct_sm2ScalarOpp : check (slice prog f_fiat_sm2ScalarOpp) sigs f_fiat_sm2ScalarOpp = true := SMGo.Proofs.CTIRCheck.ct_sm2ScalarOpp
theorem ct_sm2ScalarFromMontgomery : check (slice prog f_fiat_sm2ScalarFromMontgomery) sigs f_fiat_sm2ScalarFromMontgomery = true := SMGo.Proofs.CTIRCheck.ct_sm2ScalarFromMontgomery
theorem ct_sm2ScalarToMontgomery : check (slice prog f_fiat_sm2ScalarToMontgomery) sigs f_fiat_sm2ScalarToMontgomery = true := SMGo.Proofs.CTIRCheck.ct_sm2ScalarToMontgomery
theorem ct_sm2ScalarToBytes : check (slice prog f_fiat_sm2ScalarToBytes) sigs f_fiat_sm2ScalarToBytes = true := SMGo.Proofs.CTIRCheck.ct_sm2ScalarToBytes
theorem ct_sm2ScalarFromBytes : check (slice prog f_fiat_sm2ScalarFromBytes) sigs f_fiat_sm2ScalarFromBytes = true := SMGo.Proofs.CTIRCheck.ct_sm2ScalarFromBytes
theorem ct_sm2ScalarSetOne : check (slice prog f_fiat_sm2ScalarSetOne) sigs f_fiat_sm2ScalarSetOne = true := SMGo.Proofs.CTIRCheck.ct_sm2ScalarSetOne
theorem ct_sm2ScalarSelectznz : check (slice prog f_fiat_sm2ScalarSelectznz) sigs f_fiat_sm2ScalarSelectznz = true := SMGo.Proofs.CTIRCheck.ct_sm2ScalarSelectznz
theorem ct_sm2ScalarCmovznzU64 : check (slice prog f_fiat_sm2ScalarCmovznzU64) sigs f_fiat_sm2ScalarCmovznzU64 = true := SMGo.Proofs.CTIRCheck.ct_sm2ScalarCmovznzU64
theorem ct_Invert_p : check (slice prog f_fiat_SM2Element_Invert) sigs f_fiat_SM2Element_Invert = true := SMGo.Proofs.CTIRCheck.ct_Invert_p
theorem ct_Invert_n : check (slice prog f_fiat_SM2ScalarElement_Invert) sigs f_fiat_SM2ScalarElement_Invert = true := SMGo.Proofs.CTIRCheck.ct_Invert_n
theorem ct_sm2FermatInvert_FiatAC : check (slice prog f_fiat_sm2FermatInvert_FiatAC) sigs f_fiat_sm2FermatInvert_FiatAC = true := SMGo.Proofs.CTIRCheck.ct_sm2FermatInvert_FiatAC
theorem ct_sm2ScalarFermatInvert_FiatAC : check (slice prog f_fiat_sm2ScalarFermatInvert_FiatAC) sigs f_fiat_sm2ScalarFermatInvert_FiatAC = true := SMGo.Proofs.CTIRCheck.ct_sm2ScalarFermatInvert_FiatAC
theorem ct_Bytes_p : check (slice prog f_fiat_SM2Element_Bytes) sigs f_fiat_SM2Element_Bytes = true := SMGo.Proofs.CTIRCheck.ct_Bytes_p
theorem ct_bytes_p : check (slice prog f_fiat_SM2Element_bytes) sigs f_fiat_SM2Element_bytes = true := SMGo.Proofs.CTIRCheck.ct_bytes_p
theorem ct_SetBytes_p : check (slice prog f_fiat_SM2Element_SetBytes) sigs f_fiat_SM2Element_SetBytes = true := SMGo.Proofs.CTIRCheck.ct_SetBytes_p
theorem ct_SetBytes_n : check (slice prog f_fiat_SM2ScalarElement_SetBytes) sigs f_fiat_SM2ScalarElement_SetBytes = true := SMGo.Proofs.CTIRCheck.ct_SetBytes_n
theorem ct_Equal_p : check (slice prog f_fiat_SM2Element_Equal) sigs f_fiat_SM2Element_Equal = true := SMGo.Proofs.CTIRCheck.ct_Equal_p
theorem ct_IsZero_p : check (slice prog f_fiat_SM2Element_IsZero) sigs f_fiat_SM2Element_IsZero = true := SMGo.Proofs.CTIRCheck.ct_IsZero_p
theorem ct_ToBigInt_p : check (slice prog f_fiat_SM2Element_ToBigInt) sigs f_fiat_SM2Element_ToBigInt = true := SMGo.Proofs.CTIRCheck.ct_ToBigInt_p
theorem ct_sm2InvertEndianness : check (slice prog f_fiat_sm2InvertEndianness) sigs f_fiat_sm2InvertEndianness = true := SMGo.Proofs.CTIRCheck.ct_sm2InvertEndianness
theorem ct_sm2ScalarInvertEndianness : check (slice prog f_fiat_sm2ScalarInvertEndianness) sigs f_fiat_sm2ScalarInvertEndianness = true := SMGo.Proofs.CTIRCheck.ct_sm2ScalarInvertEndianness
theorem ct_Set_n : check (slice prog f_fiat_SM2ScalarElement_Set) sigs f_fiat_SM2ScalarElement_Set = true := SMGo.Proofs.CTIRCheck.ct_Set_n
theorem ct_One_n : check (slice prog f_fiat_SM2ScalarElement_One) sigs f_fiat_SM2ScalarElement_One = true := SMGo.Proofs.CTIRCheck.ct_One_n
theorem ct_Add_n : check (slice prog f_fiat_SM2ScalarElement_Add) sigs f_fiat_SM2ScalarElement_Add = true := SMGo.Proofs.CTIRCheck.ct_Add_n
theorem ct_Sub_n : check (slice prog f_fiat_SM2ScalarElement_Sub) sigs f_fiat_SM2ScalarElement_Sub = true := SMGo.Proofs.CTIRCheck.ct_Sub_n
theorem ct_Mul_n : check (slice prog f_fiat_SM2ScalarElement_Mul) sigs f_fiat_SM2ScalarElement_Mul = true := SMGo.Proofs.CTIRCheck.ct_Mul_n
theorem ct_Square_n : check (slice prog f_fiat_SM2ScalarElement_Square) sigs f_fiat_SM2ScalarElement_Square = true := SMGo.Proofs.CTIRCheck.ct_Square_n
theorem ct_Select_n : check (slice prog f_fiat_SM2ScalarElement_Select) sigs f_fiat_SM2ScalarElement_Select = true := SMGo.Proofs.CTIRCheck.ct_Select_n
theorem ct_Bytes_n : check (slice prog f_fiat_SM2ScalarElement_Bytes) sigs f_fiat_SM2ScalarElement_Bytes = true := SMGo.Proofs.CTIRCheck.ct_Bytes_n
theorem ct_bytes_n : check (slice prog f_fiat_SM2ScalarElement_bytes) sigs f_fiat_SM2ScalarElement_bytes = true := SMGo.Proofs.CTIRCheck.ct_bytes_n
theorem ct_Equal_n : check (slice prog f_fiat_SM2ScalarElement_Equal) sigs f_fiat_SM2ScalarElement_Equal = true := SMGo.Proofs.CTIRCheck.ct_Equal_n
theorem ct_IsZero_n : check (slice prog f_fiat_SM2ScalarElement_IsZero) sigs f_fiat_SM2ScalarElement_IsZero = true := SMGo.Proofs.CTIRCheck.ct_IsZero_n
theorem ct_ToBigInt_n : check (slice prog f_fiat_SM2ScalarElement_ToBigInt) sigs f_fiat_SM2ScalarElement_ToBigInt = true := SMGo.Proofs.CTIRCheck.ct_ToBigInt_n
theorem ct_NewSM2Point : check (slice prog f_internal_NewSM2Point) sigs f_internal_NewSM2Point = true := SMGo.Proofs.CTIRCheck.ct_NewSM2Point
theorem ct_NewFromXY : check (slice prog f_internal_NewFromXY) sigs f_internal_NewFromXY = true := SMGo.Proofs.CTIRCheck.ct_NewFromXY
theorem ct_PointSet : check (slice prog f_internal_SM2Point_Set) sigs f_internal_SM2Point_Set = true := SMGo.Proofs.CTIRCheck.ct_PointSet
theorem ct_Negate : check (slice prog f_internal_SM2Point_Negate) sigs f_internal_SM2Point_Negate = true := SMGo.Proofs.CTIRCheck.ct_Negate
theorem ct_PointSelect : check (slice prog f_internal_SM2Point_Select) sigs f_internal_SM2Point_Select = true := SMGo.Proofs.CTIRCheck.ct_PointSelect
theorem ct_Add : check (slice prog f_internal_SM2Point_Add) sigs f_internal_SM2Point_Add = true := SMGo.Proofs.CTIRCheck.ct_Add
theorem ct_Double : check (slice prog f_internal_SM2Point_Double) sigs f_internal_SM2Point_Double = true := SMGo.Proofs.CTIRCheck.ct_Double
theorem ct_TransformPrecomputed : check (slice prog f_internal_TransformPrecomputed) sigs f_internal_TransformPrecomputed = true := SMGo.Proofs.CTIRCheck.ct_TransformPrecomputed
theorem ct_scalarBaseMult_SkipBitExtration : check (slice prog f_internal_scalarBaseMult_SkipBitExtration) sigs f_internal_scalarBaseMult_SkipBitExtration = true := SMGo.Proofs.CTIRCheck.ct_scalarBaseMult_SkipBitExtration
theorem ct_scalarBaseMult_6_3_14 : check (slice prog f_internal_scalarBaseMult_SkipBitExtraction_6_3_14) sigs f_internal_scalarBaseMult_SkipBitExtraction_6_3_14 = true := SMGo.Proofs.CTIRCheck.ct_scalarBaseMult_6_3_14
theorem ct_scalarBaseMult_5_3_17 : check (slice prog f_internal_scalarBaseMult_SkipBitExtraction_5_3_17) sigs f_internal_scalarBaseMult_SkipBitExtraction_5_3_17 = true := SMGo.Proofs.CTIRCheck.ct_scalarBaseMult_5_3_17
theorem ct_scalarBaseMult_4_2_32 : check (slice prog f_internal_scalarBaseMult_SkipBitExtraction_4_2_32) sigs f_internal_scalarBaseMult_SkipBitExtraction_4_2_32 = true := SMGo.Proofs.CTIRCheck.ct_scalarBaseMult_4_2_32
theorem ct_scalarBaseMult_7_3_12 : check (slice prog f_internal_scalarBaseMult_SkipBitExtraction_7_3_12) sigs f_internal_scalarBaseMult_SkipBitExtraction_7_3_12 = true := SMGo.Proofs.CTIRCheck.ct_scalarBaseMult_7_3_12
theorem ct_ScalarBaseMult : check (slice prog f_internal_ScalarBaseMult) sigs f_internal_ScalarBaseMult = true := SMGo.Proofs.CTIRCheck.ct_ScalarBaseMult
theorem ct_ScalarMult : check (slice prog f_internal_ScalarMult) sigs f_internal_ScalarMult = true := SMGo.Proofs.CTIRCheck.ct_ScalarMult
theorem ct_GetAffineX : check (slice prog f_internal_SM2Point_GetAffineX) sigs f_internal_SM2Point_GetAffineX = true := SMGo.Proofs.CTIRCheck.ct_GetAffineX
theorem ct_PointBytes : check (slice prog f_internal_SM2Point_Bytes) sigs f_internal_SM2Point_Bytes = true := SMGo.Proofs.CTIRCheck.ct_PointBytes
theorem ct_bytes_safe : check (slice prog f_internal_SM2Point_bytes_safe_true) sigs f_internal_SM2Point_bytes_safe_true = true := SMGo.Proofs.CTIRCheck.ct_bytes_safe
theorem ct_DerivePublic : check (slice prog f_sm2_DerivePublic) sigs f_sm2_DerivePublic = true := SMGo.Proofs.CTIRCheck.ct_DerivePublic
theorem ct_GenerateKey : check (slice prog f_sm2_GenerateKey) sigs f_sm2_GenerateKey = true := SMGo.Proofs.CTIRCheck.ct_GenerateKey
theorem ct_SignHashed : check (slice prog f_sm2_SignHashed) sigs f_sm2_SignHashed = true := SMGo.Proofs.CTIRCheck.ct_SignHashed
theorem ct_ensure32Bytes : check (slice prog f_sm2_ensure32Bytes) sigs f_sm2_ensure32Bytes = true := SMGo.Proofs.CTIRCheck.ct_ensure32Bytes

/-! the Fiat-Crypto primitives are straight-line code with constant indices: no event except `call` -/

theorem sl_sm2Mul : straight prog f_fiat_sm2Mul = true := SMGo.Proofs.CTIRCheck.sl_sm2Mul
theorem sl_sm2Square : straight prog f_fiat_sm2Square = true := SMGo.Proofs.CTIRCheck.sl_sm2Square
theorem sl_sm2Add : straight prog f_fiat_sm2Add = true := SMGo.Proofs.CTIRCheck.sl_sm2Add
theorem sl_sm2Sub : straight prog f_fiat_sm2Sub = true := SMGo.Proofs.CTIRCheck.sl_sm2Sub
theorem sl_sm2Opp : straight prog f_fiat_sm2Opp = true := SMGo.Proofs.CTIRCheck.sl_sm2Opp
theorem sl_sm2FromMontgomery : straight prog f_fiat_sm2FromMontgomery = true := SMGo.Proofs.CTIRCheck.sl_sm2FromMontgomery
theorem sl_sm2ToMontgomery : straight prog f_fiat_sm2ToMontgomery = true := SMGo.Proofs.CTIRCheck.sl_sm2ToMontgomery
theorem sl_sm2ToBytes : straight prog f_fiat_sm2ToBytes = true := SMGo.Proofs.CTIRCheck.sl_sm2ToBytes
theorem sl_sm2FromBytes : straight prog f_fiat_sm2FromBytes = true := SMGo.Proofs.CTIRCheck.sl_sm2FromBytes
theorem sl_sm2SetOne : straight prog f_fiat_sm2SetOne = true := SMGo.Proofs.CTIRCheck.sl_sm2SetOne
theorem sl_sm2Selectznz : straight prog f_fiat_sm2Selectznz = true := SMGo.Proofs.CTIRCheck.sl_sm2Selectznz
theorem sl_sm2CmovznzU64 : straight prog f_fiat_sm2CmovznzU64 = true := SMGo.Proofs.CTIRCheck.sl_sm2CmovznzU64
theorem sl_sm2ScalarMul : straight prog f_fiat_sm2ScalarMul = true := SMGo.Proofs.CTIRCheck.sl_sm2ScalarMul
theorem sl_sm2ScalarSquare : straight prog f_fiat_sm2ScalarSquare = true := SMGo.Proofs.CTIRCheck.sl_sm2ScalarSquare
theorem sl_sm2ScalarAdd : straight prog f_fiat_sm2ScalarAdd = true := SMGo.Proofs.CTIRCheck.sl_sm2ScalarAdd
theorem sl_sm2ScalarSub : straight prog f_fiat_sm2ScalarSub = true := SMGo.Proofs.CTIRCheck.sl_sm2ScalarSub
theorem sl_sm2ScalarOpp : straight prog f_fiat_sm2ScalarOpp = true := SMGo.Proofs.CTIRCheck.sl_sm2ScalarOpp
theorem sl_sm2ScalarFromMontgomery : straight prog f_fiat_sm2ScalarFromMontgomery = true := SMGo.Proofs.CTIRCheck.sl_sm2ScalarFromMontgomery
theorem sl_sm2ScalarToMontgomery : straight prog f_fiat_sm2ScalarToMontgomery = true := SMGo.Proofs.CTIRCheck.sl_sm2ScalarToMontgomery
theorem sl_sm2ScalarToBytes : straight prog f_fiat_sm2ScalarToBytes = true := SMGo.Proofs.CTIRCheck.sl_sm2ScalarToBytes
theorem sl_sm2ScalarFromBytes : straight prog f_fiat_sm2ScalarFromBytes = true := SMGo.Proofs.CTIRCheck.sl_sm2ScalarFromBytes
theorem sl_sm2ScalarSetOne : straight prog f_fiat_sm2ScalarSetOne = true := SMGo.Proofs.CTIRCheck.sl_sm2ScalarSetOne
theorem sl_sm2ScalarSelectznz : straight prog f_fiat_sm2ScalarSelectznz = true := SMGo.Proofs.CTIRCheck.sl_sm2ScalarSelectznz
theorem sl_sm2ScalarCmovznzU64 : straight prog f_fiat_sm2ScalarCmovznzU64 = true := SMGo.Proofs.CTIRCheck.sl_sm2ScalarCmovznzU64

/-! ## Instances spelled out -/

/-- base-point multiplication: any two scalars of the same length leak the same trace -/
theorem ScalarBaseMult_trace (X1 X2 : Oracle) (hX : OracleRel sigs X1 X2) (k1 k2 : Val) (hk : k1.erase = k2.erase)
    (f1 f2 : Nat) (c1 c2 : Ctl) (t1 t2 : Trace)
    (h1 : run (slice prog f_internal_ScalarBaseMult) globals X1 f1 f_internal_ScalarBaseMult [k1] = some (c1, t1))
    (h2 : run (slice prog f_internal_ScalarBaseMult) globals X2 f2 f_internal_ScalarBaseMult [k2] = some (c2, t2))
    (hd : declassOf t1 = declassOf t2) : t1 = t2 :=
  (sound f_internal_ScalarBaseMult ct_ScalarBaseMult _ rfl X1 X2 hX [k1] [k2] ⟨hk, trivial⟩ f1 f2 c1 c2 t1 t2 h1 h2 hd).1

/-- multiplication of a point: point and scalar are secrets -/
theorem ScalarMult_trace (X1 X2 : Oracle) (hX : OracleRel sigs X1 X2) (p1 p2 k1 k2 : Val)
    (hp : p1.erase = p2.erase) (hk : k1.erase = k2.erase)
    (f1 f2 : Nat) (c1 c2 : Ctl) (t1 t2 : Trace)
    (h1 : run (slice prog f_internal_ScalarMult) globals X1 f1 f_internal_ScalarMult [p1, k1] = some (c1, t1))
    (h2 : run (slice prog f_internal_ScalarMult) globals X2 f2 f_internal_ScalarMult [p2, k2] = some (c2, t2))
    (hd : declassOf t1 = declassOf t2) : t1 = t2 :=
  (sound f_internal_ScalarMult ct_ScalarMult _ rfl X1 X2 hX [p1, k1] [p2, k2] ⟨hp, hk, trivial⟩ f1 f2 c1 c2 t1 t2 h1 h2 hd).1

/-- inversion modulo n (the addition chain): receiver and operand are secrets -/
theorem Invert_n_trace (X1 X2 : Oracle) (hX : OracleRel sigs X1 X2) (z1 z2 x1 x2 : Val)
    (hz : z1.erase = z2.erase) (hx : x1.erase = x2.erase)
    (f1 f2 : Nat) (c1 c2 : Ctl) (t1 t2 : Trace)
    (h1 : run (slice prog f_fiat_SM2ScalarElement_Invert) globals X1 f1 f_fiat_SM2ScalarElement_Invert [z1, x1] = some (c1, t1))
    (h2 : run (slice prog f_fiat_SM2ScalarElement_Invert) globals X2 f2 f_fiat_SM2ScalarElement_Invert [z2, x2] = some (c2, t2))
    (hd : declassOf t1 = declassOf t2) : t1 = t2 :=
  (sound f_fiat_SM2ScalarElement_Invert ct_Invert_n _ rfl X1 X2 hX [z1, x1] [z2, x2] ⟨hz, hx, trivial⟩ f1 f2 c1 c2 t1 t2 h1 h2 hd).1

/-- comparison of secret byte strings: the length argument is public, the strings are secret; the
    comparison declassifies nothing (its callers' two-way tests are the verdict sites), so the trace
    is the same for all contents -/
theorem ConstantTimeCmp_trace (X1 X2 : Oracle) (hX : OracleRel sigs X1 X2) (a1 a2 b1 b2 l : Val)
    (ha : a1.erase = a2.erase) (hb : b1.erase = b2.erase)
    (f1 f2 : Nat) (c1 c2 : Ctl) (t1 t2 : Trace)
    (h1 : run (slice prog f_utils_ConstantTimeCmp) globals X1 f1 f_utils_ConstantTimeCmp [a1, b1, l] = some (c1, t1))
    (h2 : run (slice prog f_utils_ConstantTimeCmp) globals X2 f2 f_utils_ConstantTimeCmp [a2, b2, l] = some (c2, t2))
    (hd : declassOf t1 = declassOf t2) : t1 = t2 :=
  (sound f_utils_ConstantTimeCmp ct_ConstantTimeCmp _ rfl X1 X2 hX [a1, b1, l] [a2, b2, l] ⟨ha, hb, rfl, trivial⟩ f1 f2 c1 c2 t1 t2 h1 h2 hd).1

/-- signing, with the concrete external world: ANY two tapes (nonce candidates, including rejected
    ones), any private keys and digests of the same lengths, the same reader handle.  Equal verdicts
    (key accepted, the same retry decisions in the same order, outputs r, s of the same byte length)
    ⇒ equal traces.  No hypothesis on the external world. -/
theorem SignHashed_trace (tape1 tape2 : Nat → Nat → Nat) (rand priv1 priv2 e1 e2 : Val)
    (hp : priv1.erase = priv2.erase) (he : e1.erase = e2.erase)
    (f1 f2 : Nat) (c1 c2 : Ctl) (t1 t2 : Trace)
    (h1 : run (slice prog f_sm2_SignHashed) globals (stdOracle extKinds tape1) f1 f_sm2_SignHashed [rand, priv1, e1] = some (c1, t1))
    (h2 : run (slice prog f_sm2_SignHashed) globals (stdOracle extKinds tape2) f2 f_sm2_SignHashed [rand, priv2, e2] = some (c2, t2))
    (hd : declassOf t1 = declassOf t2) : t1 = t2 :=
  (sound f_sm2_SignHashed ct_SignHashed _ rfl _ _ (stdOracle_rel tape1 tape2) [rand, priv1, e1] [rand, priv2, e2]
    ⟨rfl, hp, he, trivial⟩ f1 f2 c1 c2 t1 t2 h1 h2 hd).1

/-- … and completion transfers: if signing completes on (tape1, priv1, e1) with fuel f, it completes on
    (tape2, priv2, e2) with the same fuel and the same trace whenever the verdicts met are the same -/
theorem SignHashed_progress (tape1 tape2 : Nat → Nat → Nat) (rand priv1 priv2 e1 e2 : Val)
    (hp : priv1.erase = priv2.erase) (he : e1.erase = e2.erase) (f : Nat) (c1 : Ctl) (t1 : Trace)
    (h1 : run (slice prog f_sm2_SignHashed) globals (stdOracle extKinds tape1) f f_sm2_SignHashed [rand, priv1, e1] = some (c1, t1))
    (hd : declassOf t1 = declassOf (runT (slice prog f_sm2_SignHashed) globals (stdOracle extKinds tape2) f f_sm2_SignHashed [rand, priv2, e2]).2) :
    ∃ c2, run (slice prog f_sm2_SignHashed) globals (stdOracle extKinds tape2) f f_sm2_SignHashed [rand, priv2, e2] = some (c2, t1) :=
  let ⟨c2, h, _⟩ := progress_verdicts f_sm2_SignHashed ct_SignHashed _ rfl _ _ (stdOracle_rel tape1 tape2)
    [rand, priv1, e1] [rand, priv2, e2] ⟨rfl, hp, he, trivial⟩ f c1 t1 h1 hd
  ⟨c2, h⟩

/-- key generation: any two tapes of key candidates (redraws included), the same reader handle -/
theorem GenerateKey_trace (tape1 tape2 : Nat → Nat → Nat) (rand : Val)
    (f1 f2 : Nat) (c1 c2 : Ctl) (t1 t2 : Trace)
    (h1 : run (slice prog f_sm2_GenerateKey) globals (stdOracle extKinds tape1) f1 f_sm2_GenerateKey [rand] = some (c1, t1))
    (h2 : run (slice prog f_sm2_GenerateKey) globals (stdOracle extKinds tape2) f2 f_sm2_GenerateKey [rand] = some (c2, t2))
    (hd : declassOf t1 = declassOf t2) : t1 = t2 :=
  (sound f_sm2_GenerateKey ct_GenerateKey _ rfl _ _ (stdOracle_rel tape1 tape2) [rand] [rand]
    ⟨rfl, trivial⟩ f1 f2 c1 c2 t1 t2 h1 h2 hd).1

/-- key derivation: any two private keys of the same length -/
theorem DerivePublic_trace (tape1 tape2 : Nat → Nat → Nat) (d1 d2 : Val) (hd' : d1.erase = d2.erase)
    (f1 f2 : Nat) (c1 c2 : Ctl) (t1 t2 : Trace)
    (h1 : run (slice prog f_sm2_DerivePublic) globals (stdOracle extKinds tape1) f1 f_sm2_DerivePublic [d1] = some (c1, t1))
    (h2 : run (slice prog f_sm2_DerivePublic) globals (stdOracle extKinds tape2) f2 f_sm2_DerivePublic [d2] = some (c2, t2))
    (hd : declassOf t1 = declassOf t2) : t1 = t2 :=
  (sound f_sm2_DerivePublic ct_DerivePublic _ rfl _ _ (stdOracle_rel tape1 tape2) [d1] [d2] ⟨hd', trivial⟩ f1 f2 c1 c2 t1 t2 h1 h2 hd).1

/-! ## Declassification: every use is listed (site numbers: `siteInfo` of the generated file)

  0, 1: TestPrivateKey `acc == 0`, `cmp == -1`;  2, 3: SetBytes (mod p, mod n) `ConstantTimeCmp(…) > 0`;
  4, 5, 6: `p.z.IsZero() == 1` in SM2Point.bytes, GetAffineX, GetAffineX_Unsafe;  7: GenerateKey
  `TestPrivateKey(priv) == 0`;  8: SignHashed `test := TestPrivateKey(priv)`;  9–13: the retry decisions of
  the signing loop (`k >= n`, `k = 0`, `r = 0`, `r + k = n`, `s = 0`);  14: ensure32Bytes `i.Bytes()`
  (the byte length of the outputs r, s). -/

theorem sites_ConstantTimeCmp : sitesOf prog f_utils_ConstantTimeCmp = [] := by decide +kernel
theorem sites_TestPrivateKey : sitesOf prog f_sm2_TestPrivateKey = [0, 1] := by decide +kernel
theorem sites_SetBytes_p : sitesOf prog f_fiat_SM2Element_SetBytes = [2] := by decide +kernel
theorem sites_SetBytes_n : sitesOf prog f_fiat_SM2ScalarElement_SetBytes = [3] := by decide +kernel
theorem sites_GetAffineX : sitesOf prog f_internal_SM2Point_GetAffineX = [5] := by decide +kernel
theorem sites_PointBytes : sitesOf prog f_internal_SM2Point_Bytes = [4] := by decide +kernel
theorem sites_ScalarBaseMult : sitesOf prog f_internal_ScalarBaseMult = [] := by decide +kernel
theorem sites_ScalarMult : sitesOf prog f_internal_ScalarMult = [] := by decide +kernel
theorem sites_Invert_p : sitesOf prog f_fiat_SM2Element_Invert = [] := by decide +kernel
theorem sites_Invert_n : sitesOf prog f_fiat_SM2ScalarElement_Invert = [] := by decide +kernel
theorem sites_Add : sitesOf prog f_internal_SM2Point_Add = [] := by decide +kernel
theorem sites_Double : sitesOf prog f_internal_SM2Point_Double = [] := by decide +kernel
theorem sites_MultiSelect : sitesOf prog f_fiat_SM2Element_MultiSelect = [] := by decide +kernel
theorem sites_DerivePublic : sitesOf prog f_sm2_DerivePublic = [4] := by decide +kernel
theorem sites_GenerateKey : sitesOf prog f_sm2_GenerateKey = [7, 0, 1, 4] := by decide +kernel
theorem sites_SignHashed : sitesOf prog f_sm2_SignHashed = [8, 9, 10, 11, 12, 13, 0, 1, 5, 3, 14] := by decide +kernel
theorem sites_ensure32Bytes : sitesOf prog f_sm2_ensure32Bytes = [14] := by decide +kernel

/-! ## What is still rejected: the `_Unsafe` conversions (used by VerifyHashed on public data only) -/

theorem reject_GetAffineX_Unsafe : check (slice prog f_internal_SM2Point_GetAffineX_Unsafe) sigs f_internal_SM2Point_GetAffineX_Unsafe = false :=
  SMGo.Proofs.CTIRCheck.reject_GetAffineX_Unsafe
theorem reject_Bytes_Unsafe : check (slice prog f_internal_SM2Point_Bytes_Unsafe) sigs f_internal_SM2Point_Bytes_Unsafe = false :=
  SMGo.Proofs.CTIRCheck.reject_Bytes_Unsafe

/-- in the whole generated program exactly the `_Unsafe` conversions fail (`bytes` is the unspecialised
    body with both variants) … -/
theorem failing_prog : failing prog sigs =
    [f_internal_SM2Point_GetAffineX_Unsafe, f_internal_SM2Point_bytes, f_internal_SM2Point_bytes_safe_false] :=
  SMGo.Proofs.CTIRCheck.failing_prog
/-- … and the only translated function that calls one of them is `Bytes_Unsafe` itself: no path from
    SignHashed, GenerateKey or DerivePublic reaches them -/
theorem callers_of_modinverse_conversions :
    (List.range prog.length).filter (fun g => match prog[g]? with
      | some fn => (calleesS fn.body).any (fun c => c == f_internal_SM2Point_GetAffineX_Unsafe ||
          c == f_internal_SM2Point_Bytes_Unsafe || c == f_internal_SM2Point_bytes_safe_false || c == f_internal_SM2Point_bytes)
      | none => false) = [f_internal_SM2Point_Bytes_Unsafe] := SMGo.Proofs.CTIRCheck.callers_of_modinverse_conversions

/-- two points of the same shape, the same verdict (not at infinity), different traces: the leaked
    argument of `big.Int.ModInverse` is Z -/
theorem witness_GetAffineX_Unsafe : ∃ c1 t1 c2 t2,
    run (slice prog f_internal_SM2Point_GetAffineX_Unsafe) globals bigX 100000 f_internal_SM2Point_GetAffineX_Unsafe [pointA] = some (c1, t1) ∧
    run (slice prog f_internal_SM2Point_GetAffineX_Unsafe) globals bigX 100000 f_internal_SM2Point_GetAffineX_Unsafe [pointB] = some (c2, t2) ∧
    declassOf t1 = declassOf t2 ∧ t1 ≠ t2 :=
  tracesDiffer_spec SMGo.Proofs.CTIRCheck.witness_GetAffineX_Unsafe

theorem witness_Bytes_Unsafe : ∃ c1 t1 c2 t2,
    run (slice prog f_internal_SM2Point_Bytes_Unsafe) globals bigX 100000 f_internal_SM2Point_Bytes_Unsafe [pointA] = some (c1, t1) ∧
    run (slice prog f_internal_SM2Point_Bytes_Unsafe) globals bigX 100000 f_internal_SM2Point_Bytes_Unsafe [pointB] = some (c2, t2) ∧
    declassOf t1 = declassOf t2 ∧ t1 ≠ t2 :=
  tracesDiffer_spec SMGo.Proofs.CTIRCheck.witness_Bytes_Unsafe

/-! ## Completion: the interpreter is not stuck (kernel evaluations on concrete inputs) -/

theorem runs_ConstantTimeCmp : completes f_utils_ConstantTimeCmp [bytesV [1, 2, 3], bytesV [1, 3, 0], .int 3] = true := SMGo.Proofs.CTIRCheck.runs_ConstantTimeCmp
theorem runs_TestPrivateKey : completes f_sm2_TestPrivateKey [key32 0x1234] = true := SMGo.Proofs.CTIRCheck.runs_TestPrivateKey
theorem runs_TestPrivateKey_zero : completes f_sm2_TestPrivateKey [key32 0] = true := SMGo.Proofs.CTIRCheck.runs_TestPrivateKey_zero
theorem runs_extractBit : completes f_internal_extractBit [key32 0x8001, .int 15] = true := SMGo.Proofs.CTIRCheck.runs_extractBit
theorem runs_extractHigherBits : completes f_internal_extractHigherBits [key32 (2 ^ 255 + 12345), .int 17, .int 6, .int 42] = true := SMGo.Proofs.CTIRCheck.runs_extractHigherBits
theorem runs_extractLowerBits : completes f_internal_extractLowerBits [key32 0xAB, .int 4] = true := SMGo.Proofs.CTIRCheck.runs_extractLowerBits
theorem runs_MultiSelect : completes f_fiat_SM2Element_MultiSelect
    [elV 0 0 0 0, .arr [limbsV 1 2 3 4, limbsV 5 6 7 8, limbsV 9 10 11 12], .int 3, .int 2, elV 7 7 7 7, .int 1] = true := SMGo.Proofs.CTIRCheck.runs_MultiSelect
theorem runs_sm2Mul : completes f_fiat_sm2Mul [limbsV 0 0 0 0, limbsV 1 2 3 4, limbsV 5 6 7 8] = true := SMGo.Proofs.CTIRCheck.runs_sm2Mul
theorem runs_sm2ScalarMul : completes f_fiat_sm2ScalarMul [limbsV 0 0 0 0, limbsV 1 2 3 4, limbsV 5 6 7 8] = true := SMGo.Proofs.CTIRCheck.runs_sm2ScalarMul
theorem runs_SetBytes_p : completes f_fiat_SM2Element_SetBytes [elV 0 0 0 0, key32 0x1234567] = true := SMGo.Proofs.CTIRCheck.runs_SetBytes_p
theorem runs_SetBytes_n : completes f_fiat_SM2ScalarElement_SetBytes [elV 0 0 0 0, key32 0x1234567] = true := SMGo.Proofs.CTIRCheck.runs_SetBytes_n
theorem runs_ensure32Bytes : completes f_sm2_ensure32Bytes [.int 0x1234] = true := SMGo.Proofs.CTIRCheck.runs_ensure32Bytes
theorem runs_Add : completes f_internal_SM2Point_Add [ptV 0 0 0, ptV 5 7 1, ptV 9 4 1] = true := SMGo.Proofs.CTIRCheck.runs_Add
theorem runs_Double : completes f_internal_SM2Point_Double [ptV 0 0 0, ptV 5 7 1] = true := SMGo.Proofs.CTIRCheck.runs_Double

/-! ### A run with a rejected candidate completes

  The shape of the redraw loops of GenerateKey and SignHashed, small enough for the kernel:
  `pos := 0; for { buf, n, err, pos := io.ReadFull(r, 1, pos); if declassify(buf[0] == 0) { continue }; return buf }`. -/

def redrawBody : Stmt :=
  .seq (.assign 1 [] (.lit 0))
    (.seq (.loop (.lit 1)
        (.seq (.ext [2, 3, 4, 1] 0 true [.var 0, .lit 1, .var 1])
          (.seq (.declass 5 0 (.op2 .eq (.idxc (.var 2) 0) (.lit 0)))
            (.ite (.var 5) .cont (.ret [.var 2]))))
        .skip)
      .panic)
def redraw : Prog := [{ nparams := 1, nvars := 6, body := redrawBody }]
def redrawSigs : Sigs := { fn := [{ params := [.L], results := [.H], declass := [0] }], ext := [[.H, .L, .L, .L]] }
/-- first candidate 0 (rejected), then 7 -/
def tapeA : Nat → Nat → Nat := fun pos _ => if pos = 0 then 0 else 7
/-- first candidate 0 (rejected), then 200 -/
def tapeB : Nat → Nat → Nat := fun pos _ => if pos = 0 then 0 else 200

theorem redraw_checked : check redraw redrawSigs 0 = true := by decide +kernel
/-- the run completes after one rejected candidate: two reads, verdicts "rejected", "accepted", result 7 -/
theorem redraw_completes :
    (run redraw (fun _ => .int 0) (stdOracle [.readFull] tapeA) 20 0 [.int 1]).map
      (fun r => (declassOf r.2, r.2.length, match r.1 with | .ret vs => natOfBytes (argBytes vs 0) | _ => 999))
      = some ([(0, 1), (0, 0)], 9, 7) := by decide +kernel
/-- two tapes with different accepted candidates, rejected at the same position: the same trace -/
theorem redraw_same_trace :
    (run redraw (fun _ => .int 0) (stdOracle [.readFull] tapeA) 20 0 [.int 1]).map (fun r => traceDigest r.2)
      = (run redraw (fun _ => .int 0) (stdOracle [.readFull] tapeB) 20 0 [.int 1]).map (fun r => traceDigest r.2) := by decide +kernel

/-! ## Non-vacuity: the checker does reject a branch on a secret -/

/-- `func f(s) int { if s != 0 { return 1 }; return 0 }` with `s` secret -/
def leaky : Prog := [{ nparams := 1, nvars := 1, body := .seq (.ite (.var 0) (.ret [.lit 1]) .skip) (.ret [.lit 0]) }]
def leakySigs (l : Label) : Sigs := { fn := [{ params := [l], results := [.H], declass := [] }], ext := [] }

example : check leaky (leakySigs .H) 0 = false := by decide
example : check leaky (leakySigs .L) 0 = true := by decide
/-- and the interpreter shows the two traces -/
example : (run leaky (fun _ => .int 0) (fun _ _ => []) 10 0 [.int 0]).map (fun r => traceDigest r.2)
    ≠ (run leaky (fun _ => .int 0) (fun _ _ => []) 10 0 [.int 1]).map (fun r => traceDigest r.2) := by decide
/-- an index by a secret, a secret shift count and a leaking external call on a secret are rejected too -/
example : check [{ nparams := 2, nvars := 2, body := .ret [.idx (.var 0) (.var 1)] }]
    { fn := [{ params := [.L, .H], results := [.H], declass := [] }], ext := [] } 0 = false := by decide
example : check [{ nparams := 2, nvars := 2, body := .ret [.op2 (.shl .u64) (.var 0) (.var 1)] }]
    { fn := [{ params := [.L, .H], results := [.H], declass := [] }], ext := [] } 0 = false := by decide
example : check [{ nparams := 1, nvars := 2, body := .seq (.ext [1] 0 true [.var 0]) (.ret [.var 1]) }]
    { fn := [{ params := [.H], results := [.H], declass := [] }], ext := [[.H]] } 0 = false := by decide
/-- a declassification outside the allowed sites is rejected -/
example : check [{ nparams := 1, nvars := 2, body := .seq (.declass 1 7 (.var 0)) (.ite (.var 1) (.ret [.lit 1]) (.ret [.lit 0])) }]
    { fn := [{ params := [.H], results := [.H], declass := [] }], ext := [] } 0 = false := by decide

#print axioms check_sound
#print axioms sound
#print axioms progress
#print axioms progress_general
#print axioms progress_verdicts_general
#print axioms stdOracle_rel
#print axioms SignHashed_progress
#print axioms GenerateKey_trace
#print axioms runs_Add
#print axioms redraw_completes
#print axioms ct_ConstantTimeCmp
#print axioms ct_TestPrivateKey
#print axioms ct_MultiSelect
#print axioms ct_sm2Mul
#print axioms ct_Invert_p
#print axioms ct_Invert_n
#print axioms ct_Add
#print axioms ct_Double
#print axioms ct_ScalarBaseMult
#print axioms ct_ScalarMult
#print axioms ct_SetBytes_p
#print axioms ScalarBaseMult_trace
#print axioms ct_SetBytes_n
#print axioms ct_SignHashed
#print axioms ct_GenerateKey
#print axioms ct_DerivePublic
#print axioms SignHashed_trace
#print axioms reject_GetAffineX_Unsafe
#print axioms witness_GetAffineX_Unsafe

end SMGo.Props.C08
