/-
  Property C08 — secret-independent control flow and memory access in the sensitive primitives.
  (Property theorems only; the checker and interpreter are SMGo/Model/CTIR.lean, the program is
  GENERATED from the Go sources: SMGo/Gen/CTIRProg.lean, the soundness proof is
  SMGo/Proofs/CTIRSound.lean, the kernel evaluations are SMGo/Proofs/CTIRCheck*.lean.)

  "While multiplying the base point or an arbitrary point by a secret scalar, inverting a secret
  modulo n or p, selecting from precomputed tables, range-testing a private key and comparing secret
  byte strings, the sequence of executed basic blocks and the set of memory locations accessed are the
  same for every value of the secret (of a given length); only the final accept/reject verdicts depend
  on it."

  Reading: `ct_f : check (slice prog f) sigs f = true` — the function f and everything it calls respect
  their label signatures (`sigs`: secrets = byte strings, words, field/scalar elements, points;
  public = lengths, counters, window parameters).  By `sound`, two runs of f whose public arguments
  are equal and whose secret arguments have the same shape (lengths) produce the same leakage trace
  (branch decisions, loop-condition outcomes, indices, slice bounds, allocation sizes, shift counts,
  callees, arguments of leaking external calls) provided the declassified verdicts coincide.

  Entry points: `ct_SignHashed`, `ct_GenerateKey`, `ct_DerivePublic` — every function reachable from
  signing, key generation and key derivation along which secret data flows passes (the math/big
  arithmetic on k and d inside SignHashed is outside the enumerated operations: those calls are the
  non-leaking `obs` nodes of the program: observations, not violations).

  Still rejected (`reject_*`, `witness_*`): GetAffineX_Unsafe / Bytes_Unsafe (big.Int.ModInverse of Z).
  They are reachable only from VerifyHashed, on a point computed from public data (signature and
  public key): outside C08.  `failing_prog` / `callers_of_modinverse_conversions`: nothing else fails, nothing that
  passes calls them.

  Former violations, repaired in the sources (documentation; see SMGo/Proofs/CTIRCheckE.lean):
  SM2ScalarElement.SetBytes early-exit comparison (9cead3d); SignHashed / GenerateKey / DerivePublic through
  GetAffineX_Unsafe / Bytes_Unsafe (233fd1f); ConstantTimeCmp's branching three-way result (9a85a34);
  SignHashed's use of the byte lengths of (r+k).Bytes() and (1+d).Bytes() (3579533: fixed-width FillBytes).

  What the math/big shape hypothesis (`OracleRel`, second clause) still covers in SignHashed: the results
  of SetBytes / Add / Mul / Sub / Mod / Sign are integers (no shape), FillBytes returns a buffer of the
  length of its buffer argument, and `Bytes()` is applied only to the outputs r and s in ensure32Bytes
  (their byte lengths become slice bounds; r and s are the public signature).
-/
import SMGo.Model.CTIR
import SMGo.Gen.CTIRProg
import SMGo.Proofs.CTIRSound
import SMGo.Proofs.CTIRCheckA
import SMGo.Proofs.CTIRCheckB
import SMGo.Proofs.CTIRCheckC
import SMGo.Proofs.CTIRCheckD
import SMGo.Proofs.CTIRCheckE
import SMGo.Proofs.CTIRCheckF
namespace SMGo.Props.C08
open SMGo.Model.CTIR SMGo.Gen.CTIRProg SMGo.Proofs.CTIRCheck

/-! ## Soundness of the check (restated) -/

/-- two runs of a checked function on low-equivalent arguments: the traces are equal, or they agree
    up to a declassified verdict on which the runs differ -/
theorem check_sound (P : Prog) (S : Sigs) (G : Nat → Val) (X1 X2 : Oracle) (hX : OracleRel S X1 X2)
    (g : Nat) (hc : check P S g = true) (fs : FnSig) (hfs : S.fn[g]? = some fs)
    (a1 a2 : List Val) (ha : lowEqList fs.params a1 a2)
    (f1 f2 : Nat) (c1 c2 : Ctl) (t1 t2 : Trace)
    (h1 : run P G X1 f1 g a1 = some (c1, t1)) (h2 : run P G X2 f2 g a2 = some (c2, t2)) :
    Div t1 t2 ∨ (t1 = t2 ∧ CtlRel fs.results c1 c2) :=
  SMGo.Model.CTIR.check_sound P S G X1 X2 hX g hc fs hfs a1 a2 ha f1 f2 c1 c2 t1 t2 h1 h2

/-- the form of the property: equal public inputs, secrets of equal shape, equal declassified verdicts
    ⇒ the same leakage trace (and results that agree on their public parts) -/
theorem sound (g : Nat) (hc : check (slice prog g) sigs g = true) (fs : FnSig) (hfs : sigs.fn[g]? = some fs)
    (X1 X2 : Oracle) (hX : OracleRel sigs X1 X2)
    (a1 a2 : List Val) (ha : lowEqList fs.params a1 a2)
    (f1 f2 : Nat) (c1 c2 : Ctl) (t1 t2 : Trace)
    (h1 : run (slice prog g) globals X1 f1 g a1 = some (c1, t1))
    (h2 : run (slice prog g) globals X2 f2 g a2 = some (c2, t2))
    (hd : declassOf t1 = declassOf t2) : t1 = t2 ∧ CtlRel fs.results c1 c2 :=
  check_sound_trace (slice prog g) sigs globals X1 X2 hX g hc fs hfs a1 a2 ha f1 f2 c1 c2 t1 t2 h1 h2 hd

/-! ## Per-function instances (kernel evaluation of the checker on the generated program) -/

theorem ct_ConstantTimeCmp : check (slice prog f_utils_ConstantTimeCmp) sigs f_utils_ConstantTimeCmp = true := SMGo.Proofs.CTIRCheck.ct_ConstantTimeCmp
theorem ct_TestPrivateKey : check (slice prog f_sm2_TestPrivateKey) sigs f_sm2_TestPrivateKey = true := SMGo.Proofs.CTIRCheck.ct_TestPrivateKey
theorem ct_extractBit : check (slice prog f_internal_extractBit) sigs f_internal_extractBit = true := SMGo.Proofs.CTIRCheck.ct_extractBit
theorem ct_extractHigherBits : check (slice prog f_internal_extractHigherBits) sigs f_internal_extractHigherBits = true := SMGo.Proofs.CTIRCheck.ct_extractHigherBits
theorem ct_extractLowerBits : check (slice prog f_internal_extractLowerBits) sigs f_internal_extractLowerBits = true := SMGo.Proofs.CTIRCheck.ct_extractLowerBits
theorem ct_selectPoints : check (slice prog f_internal_selectPoints) sigs f_internal_selectPoints = true := SMGo.Proofs.CTIRCheck.ct_selectPoints
theorem ct_MultiSelectXY : check (slice prog f_internal_SM2Point_MultiSelectXY) sigs f_internal_SM2Point_MultiSelectXY = true := SMGo.Proofs.CTIRCheck.ct_MultiSelectXY
theorem ct_MultiSelectXYZ : check (slice prog f_internal_SM2Point_MultiSelectXYZ) sigs f_internal_SM2Point_MultiSelectXYZ = true := SMGo.Proofs.CTIRCheck.ct_MultiSelectXYZ
theorem ct_multiSelectConditioned : check (slice prog f_internal_SM2Point_multiSelectConditioned) sigs f_internal_SM2Point_multiSelectConditioned = true := SMGo.Proofs.CTIRCheck.ct_multiSelectConditioned
theorem ct_MultiSelect : check (slice prog f_fiat_SM2Element_MultiSelect) sigs f_fiat_SM2Element_MultiSelect = true := SMGo.Proofs.CTIRCheck.ct_MultiSelect
theorem ct_Select_p : check (slice prog f_fiat_SM2Element_Select) sigs f_fiat_SM2Element_Select = true := SMGo.Proofs.CTIRCheck.ct_Select_p
theorem ct_Set_p : check (slice prog f_fiat_SM2Element_Set) sigs f_fiat_SM2Element_Set = true := SMGo.Proofs.CTIRCheck.ct_Set_p
theorem ct_One_p : check (slice prog f_fiat_SM2Element_One) sigs f_fiat_SM2Element_One = true := SMGo.Proofs.CTIRCheck.ct_One_p
theorem ct_Add_p : check (slice prog f_fiat_SM2Element_Add) sigs f_fiat_SM2Element_Add = true := SMGo.Proofs.CTIRCheck.ct_Add_p
theorem ct_Sub_p : check (slice prog f_fiat_SM2Element_Sub) sigs f_fiat_SM2Element_Sub = true := SMGo.Proofs.CTIRCheck.ct_Sub_p
theorem ct_Opp_p : check (slice prog f_fiat_SM2Element_Opp) sigs f_fiat_SM2Element_Opp = true := SMGo.Proofs.CTIRCheck.ct_Opp_p
theorem ct_Mul_p : check (slice prog f_fiat_SM2Element_Mul) sigs f_fiat_SM2Element_Mul = true := SMGo.Proofs.CTIRCheck.ct_Mul_p
theorem ct_Square_p : check (slice prog f_fiat_SM2Element_Square) sigs f_fiat_SM2Element_Square = true := SMGo.Proofs.CTIRCheck.ct_Square_p
theorem ct_SetRaw : check (slice prog f_fiat_SM2Element_SetRaw) sigs f_fiat_SM2Element_SetRaw = true := SMGo.Proofs.CTIRCheck.ct_SetRaw
theorem ct_GetRaw : check (slice prog f_fiat_SM2Element_GetRaw) sigs f_fiat_SM2Element_GetRaw = true := SMGo.Proofs.CTIRCheck.ct_GetRaw
theorem ct_sm2Mul : check (slice prog f_fiat_sm2Mul) sigs f_fiat_sm2Mul = true := SMGo.Proofs.CTIRCheck.ct_sm2Mul
theorem ct_sm2Square : check (slice prog f_fiat_sm2Square) sigs f_fiat_sm2Square = true := SMGo.Proofs.CTIRCheck.ct_sm2Square
theorem ct_sm2Add : check (slice prog f_fiat_sm2Add) sigs f_fiat_sm2Add = true := SMGo.Proofs.CTIRCheck.ct_sm2Add
theorem ct_sm2Sub : check (slice prog f_fiat_sm2Sub) sigs f_fiat_sm2Sub = true := SMGo.Proofs.CTIRCheck.ct_sm2Sub
theorem ct_sm2Opp : check (slice prog f_fiat_sm2Opp) sigs f_fiat_sm2Opp = true := SMGo.Proofs.CTIRCheck.ct_sm2Opp
theorem ct_sm2FromMontgomery : check (slice prog f_fiat_sm2FromMontgomery) sigs f_fiat_sm2FromMontgomery = true := SMGo.Proofs.CTIRCheck.ct_sm2FromMontgomery
theorem ct_sm2ToMontgomery : check (slice prog f_fiat_sm2ToMontgomery) sigs f_fiat_sm2ToMontgomery = true := SMGo.Proofs.CTIRCheck.ct_sm2ToMontgomery
theorem ct_sm2ToBytes : check (slice prog f_fiat_sm2ToBytes) sigs f_fiat_sm2ToBytes = true := SMGo.Proofs.CTIRCheck.ct_sm2ToBytes
theorem ct_sm2FromBytes : check (slice prog f_fiat_sm2FromBytes) sigs f_fiat_sm2FromBytes = true := SMGo.Proofs.CTIRCheck.ct_sm2FromBytes
theorem ct_sm2SetOne : check (slice prog f_fiat_sm2SetOne) sigs f_fiat_sm2SetOne = true := SMGo.Proofs.CTIRCheck.ct_sm2SetOne
theorem ct_sm2Selectznz : check (slice prog f_fiat_sm2Selectznz) sigs f_fiat_sm2Selectznz = true := SMGo.Proofs.CTIRCheck.ct_sm2Selectznz
theorem ct_sm2CmovznzU64 : check (slice prog f_fiat_sm2CmovznzU64) sigs f_fiat_sm2CmovznzU64 = true := SMGo.Proofs.CTIRCheck.ct_sm2CmovznzU64
theorem ct_sm2ScalarMul : check (slice prog f_fiat_sm2ScalarMul) sigs f_fiat_sm2ScalarMul = true := SMGo.Proofs.CTIRCheck.ct_sm2ScalarMul
theorem ct_sm2ScalarSquare : check (slice prog f_fiat_sm2ScalarSquare) sigs f_fiat_sm2ScalarSquare = true := SMGo.Proofs.CTIRCheck.ct_sm2ScalarSquare
theorem ct_sm2ScalarAdd : check (slice prog f_fiat_sm2ScalarAdd) sigs f_fiat_sm2ScalarAdd = true := SMGo.Proofs.CTIRCheck.ct_sm2ScalarAdd
theorem ct_sm2ScalarSub : check (slice prog f_fiat_sm2ScalarSub) sigs f_fiat_sm2ScalarSub = true := SMGo.Proofs.CTIRCheck.ct_sm2ScalarSub
theorem ct_sm2ScalarOpp : check (slice prog f_fiat_sm2ScalarOpp) sigs f_fiat_sm2ScalarOpp = true := SMGo.Proofs.CTIRCheck.ct_sm2ScalarOpp
theorem ct_sm2ScalarFromMontgomery : check (slice prog f_fiat_sm2ScalarFromMontgomery) sigs f_fiat_sm2ScalarFromMontgomery = true := SMGo.Proofs.CTIRCheck.ct_sm2ScalarFromMontgomery
theorem ct_sm2ScalarToMontgomery : check (slice prog f_fiat_sm2ScalarToMontgomery) sigs f_fiat_sm2ScalarToMontgomery = true := SMGo.Proofs.CTIRCheck.ct_sm2ScalarToMontgomery
theorem ct_sm2ScalarToBytes : check (slice prog f_fiat_sm2ScalarToBytes) sigs f_fiat_sm2ScalarToBytes = true := SMGo.Proofs.CTIRCheck.ct_sm2ScalarToBytes
theorem ct_sm2ScalarFromBytes : check (slice prog f_fiat_sm2ScalarFromBytes) sigs f_fiat_sm2ScalarFromBytes = true := SMGo.Proofs.CTIRCheck.ct_sm2ScalarFromBytes
theorem ct_sm2ScalarSetOne : check (slice prog f_fiat_sm2ScalarSetOne) sigs f_fiat_sm2ScalarSetOne = true := SMGo.Proofs.CTIRCheck.ct_sm2ScalarSetOne
theorem ct_sm2ScalarSelectznz : check (slice prog f_fiat_sm2ScalarSelectznz) sigs f_fiat_sm2ScalarSelectznz = true := SMGo.Proofs.CTIRCheck.ct_sm2ScalarSelectznz
theorem ct_sm2ScalarCmovznzU64 : check (slice prog f_fiat_sm2ScalarCmovznzU64) sigs f_fiat_sm2ScalarCmovznzU64 = true := SMGo.Proofs.CTIRCheck.ct_sm2ScalarCmovznzU64
theorem ct_Invert_p : check (slice prog f_fiat_SM2Element_Invert) sigs f_fiat_SM2Element_Invert = true := SMGo.Proofs.CTIRCheck.ct_Invert_p
theorem ct_Invert_n : check (slice prog f_fiat_SM2ScalarElement_Invert) sigs f_fiat_SM2ScalarElement_Invert = true := SMGo.Proofs.CTIRCheck.ct_Invert_n
theorem ct_sm2FermatInvert_FiatAC : check (slice prog f_fiat_sm2FermatInvert_FiatAC) sigs f_fiat_sm2FermatInvert_FiatAC = true := SMGo.Proofs.CTIRCheck.ct_sm2FermatInvert_FiatAC
theorem ct_sm2ScalarFermatInvert_FiatAC : check (slice prog f_fiat_sm2ScalarFermatInvert_FiatAC) sigs f_fiat_sm2ScalarFermatInvert_FiatAC = true := SMGo.Proofs.CTIRCheck.ct_sm2ScalarFermatInvert_FiatAC
theorem ct_Bytes_p : check (slice prog f_fiat_SM2Element_Bytes) sigs f_fiat_SM2Element_Bytes = true := SMGo.Proofs.CTIRCheck.ct_Bytes_p
theorem ct_bytes_p : check (slice prog f_fiat_SM2Element_bytes) sigs f_fiat_SM2Element_bytes = true := SMGo.Proofs.CTIRCheck.ct_bytes_p
theorem ct_SetBytes_p : check (slice prog f_fiat_SM2Element_SetBytes) sigs f_fiat_SM2Element_SetBytes = true := SMGo.Proofs.CTIRCheck.ct_SetBytes_p
theorem ct_SetBytes_n : check (slice prog f_fiat_SM2ScalarElement_SetBytes) sigs f_fiat_SM2ScalarElement_SetBytes = true := SMGo.Proofs.CTIRCheck.ct_SetBytes_n
theorem ct_Equal_p : check (slice prog f_fiat_SM2Element_Equal) sigs f_fiat_SM2Element_Equal = true := SMGo.Proofs.CTIRCheck.ct_Equal_p
theorem ct_IsZero_p : check (slice prog f_fiat_SM2Element_IsZero) sigs f_fiat_SM2Element_IsZero = true := SMGo.Proofs.CTIRCheck.ct_IsZero_p
theorem ct_ToBigInt_p : check (slice prog f_fiat_SM2Element_ToBigInt) sigs f_fiat_SM2Element_ToBigInt = true := SMGo.Proofs.CTIRCheck.ct_ToBigInt_p
theorem ct_sm2InvertEndianness : check (slice prog f_fiat_sm2InvertEndianness) sigs f_fiat_sm2InvertEndianness = true := SMGo.Proofs.CTIRCheck.ct_sm2InvertEndianness
theorem ct_sm2ScalarInvertEndianness : check (slice prog f_fiat_sm2ScalarInvertEndianness) sigs f_fiat_sm2ScalarInvertEndianness = true := SMGo.Proofs.CTIRCheck.ct_sm2ScalarInvertEndianness
theorem ct_Set_n : check (slice prog f_fiat_SM2ScalarElement_Set) sigs f_fiat_SM2ScalarElement_Set = true := SMGo.Proofs.CTIRCheck.ct_Set_n
theorem ct_One_n : check (slice prog f_fiat_SM2ScalarElement_One) sigs f_fiat_SM2ScalarElement_One = true := SMGo.Proofs.CTIRCheck.ct_One_n
theorem ct_Add_n : check (slice prog f_fiat_SM2ScalarElement_Add) sigs f_fiat_SM2ScalarElement_Add = true := SMGo.Proofs.CTIRCheck.ct_Add_n
theorem ct_Sub_n : check (slice prog f_fiat_SM2ScalarElement_Sub) sigs f_fiat_SM2ScalarElement_Sub = true := SMGo.Proofs.CTIRCheck.ct_Sub_n
theorem ct_Mul_n : check (slice prog f_fiat_SM2ScalarElement_Mul) sigs f_fiat_SM2ScalarElement_Mul = true := SMGo.Proofs.CTIRCheck.ct_Mul_n
theorem ct_Square_n : check (slice prog f_fiat_SM2ScalarElement_Square) sigs f_fiat_SM2ScalarElement_Square = true := SMGo.Proofs.CTIRCheck.ct_Square_n
theorem ct_Select_n : check (slice prog f_fiat_SM2ScalarElement_Select) sigs f_fiat_SM2ScalarElement_Select = true := SMGo.Proofs.CTIRCheck.ct_Select_n
theorem ct_Bytes_n : check (slice prog f_fiat_SM2ScalarElement_Bytes) sigs f_fiat_SM2ScalarElement_Bytes = true := SMGo.Proofs.CTIRCheck.ct_Bytes_n
theorem ct_bytes_n : check (slice prog f_fiat_SM2ScalarElement_bytes) sigs f_fiat_SM2ScalarElement_bytes = true := SMGo.Proofs.CTIRCheck.ct_bytes_n
theorem ct_Equal_n : check (slice prog f_fiat_SM2ScalarElement_Equal) sigs f_fiat_SM2ScalarElement_Equal = true := SMGo.Proofs.CTIRCheck.ct_Equal_n
theorem ct_IsZero_n : check (slice prog f_fiat_SM2ScalarElement_IsZero) sigs f_fiat_SM2ScalarElement_IsZero = true := SMGo.Proofs.CTIRCheck.ct_IsZero_n
theorem ct_ToBigInt_n : check (slice prog f_fiat_SM2ScalarElement_ToBigInt) sigs f_fiat_SM2ScalarElement_ToBigInt = true := SMGo.Proofs.CTIRCheck.ct_ToBigInt_n
theorem ct_NewSM2Point : check (slice prog f_internal_NewSM2Point) sigs f_internal_NewSM2Point = true := SMGo.Proofs.CTIRCheck.ct_NewSM2Point
theorem ct_NewFromXY : check (slice prog f_internal_NewFromXY) sigs f_internal_NewFromXY = true := SMGo.Proofs.CTIRCheck.ct_NewFromXY
theorem ct_PointSet : check (slice prog f_internal_SM2Point_Set) sigs f_internal_SM2Point_Set = true := SMGo.Proofs.CTIRCheck.ct_PointSet
theorem ct_Negate : check (slice prog f_internal_SM2Point_Negate) sigs f_internal_SM2Point_Negate = true := SMGo.Proofs.CTIRCheck.ct_Negate
theorem ct_PointSelect : check (slice prog f_internal_SM2Point_Select) sigs f_internal_SM2Point_Select = true := SMGo.Proofs.CTIRCheck.ct_PointSelect
theorem ct_Add : check (slice prog f_internal_SM2Point_Add) sigs f_internal_SM2Point_Add = true := SMGo.Proofs.CTIRCheck.ct_Add
theorem ct_Double : check (slice prog f_internal_SM2Point_Double) sigs f_internal_SM2Point_Double = true := SMGo.Proofs.CTIRCheck.ct_Double
theorem ct_TransformPrecomputed : check (slice prog f_internal_TransformPrecomputed) sigs f_internal_TransformPrecomputed = true := SMGo.Proofs.CTIRCheck.ct_TransformPrecomputed
theorem ct_scalarBaseMult_SkipBitExtration : check (slice prog f_internal_scalarBaseMult_SkipBitExtration) sigs f_internal_scalarBaseMult_SkipBitExtration = true := SMGo.Proofs.CTIRCheck.ct_scalarBaseMult_SkipBitExtration
theorem ct_scalarBaseMult_6_3_14 : check (slice prog f_internal_scalarBaseMult_SkipBitExtraction_6_3_14) sigs f_internal_scalarBaseMult_SkipBitExtraction_6_3_14 = true := SMGo.Proofs.CTIRCheck.ct_scalarBaseMult_6_3_14
theorem ct_scalarBaseMult_5_3_17 : check (slice prog f_internal_scalarBaseMult_SkipBitExtraction_5_3_17) sigs f_internal_scalarBaseMult_SkipBitExtraction_5_3_17 = true := SMGo.Proofs.CTIRCheck.ct_scalarBaseMult_5_3_17
theorem ct_scalarBaseMult_4_2_32 : check (slice prog f_internal_scalarBaseMult_SkipBitExtraction_4_2_32) sigs f_internal_scalarBaseMult_SkipBitExtraction_4_2_32 = true := SMGo.Proofs.CTIRCheck.ct_scalarBaseMult_4_2_32
theorem ct_scalarBaseMult_7_3_12 : check (slice prog f_internal_scalarBaseMult_SkipBitExtraction_7_3_12) sigs f_internal_scalarBaseMult_SkipBitExtraction_7_3_12 = true := SMGo.Proofs.CTIRCheck.ct_scalarBaseMult_7_3_12
theorem ct_ScalarBaseMult : check (slice prog f_internal_ScalarBaseMult) sigs f_internal_ScalarBaseMult = true := SMGo.Proofs.CTIRCheck.ct_ScalarBaseMult
theorem ct_ScalarMult : check (slice prog f_internal_ScalarMult) sigs f_internal_ScalarMult = true := SMGo.Proofs.CTIRCheck.ct_ScalarMult
theorem ct_GetAffineX : check (slice prog f_internal_SM2Point_GetAffineX) sigs f_internal_SM2Point_GetAffineX = true := SMGo.Proofs.CTIRCheck.ct_GetAffineX
theorem ct_PointBytes : check (slice prog f_internal_SM2Point_Bytes) sigs f_internal_SM2Point_Bytes = true := SMGo.Proofs.CTIRCheck.ct_PointBytes
theorem ct_bytes_safe : check (slice prog f_internal_SM2Point_bytes_safe_true) sigs f_internal_SM2Point_bytes_safe_true = true := SMGo.Proofs.CTIRCheck.ct_bytes_safe
theorem ct_DerivePublic : check (slice prog f_sm2_DerivePublic) sigs f_sm2_DerivePublic = true := SMGo.Proofs.CTIRCheck.ct_DerivePublic
theorem ct_GenerateKey : check (slice prog f_sm2_GenerateKey) sigs f_sm2_GenerateKey = true := SMGo.Proofs.CTIRCheck.ct_GenerateKey
theorem ct_SignHashed : check (slice prog f_sm2_SignHashed) sigs f_sm2_SignHashed = true := SMGo.Proofs.CTIRCheck.ct_SignHashed
theorem ct_ensure32Bytes : check (slice prog f_sm2_ensure32Bytes) sigs f_sm2_ensure32Bytes = true := SMGo.Proofs.CTIRCheck.ct_ensure32Bytes

/-! the Fiat-Crypto primitives are straight-line code with constant indices: no event except `call` -/

theorem sl_sm2Mul : straight prog f_fiat_sm2Mul = true := SMGo.Proofs.CTIRCheck.sl_sm2Mul
theorem sl_sm2Square : straight prog f_fiat_sm2Square = true := SMGo.Proofs.CTIRCheck.sl_sm2Square
theorem sl_sm2Add : straight prog f_fiat_sm2Add = true := SMGo.Proofs.CTIRCheck.sl_sm2Add
theorem sl_sm2Sub : straight prog f_fiat_sm2Sub = true := SMGo.Proofs.CTIRCheck.sl_sm2Sub
theorem sl_sm2Opp : straight prog f_fiat_sm2Opp = true := SMGo.Proofs.CTIRCheck.sl_sm2Opp
theorem sl_sm2FromMontgomery : straight prog f_fiat_sm2FromMontgomery = true := SMGo.Proofs.CTIRCheck.sl_sm2FromMontgomery
theorem sl_sm2ToMontgomery : straight prog f_fiat_sm2ToMontgomery = true := SMGo.Proofs.CTIRCheck.sl_sm2ToMontgomery
theorem sl_sm2ToBytes : straight prog f_fiat_sm2ToBytes = true := SMGo.Proofs.CTIRCheck.sl_sm2ToBytes
theorem sl_sm2FromBytes : straight prog f_fiat_sm2FromBytes = true := SMGo.Proofs.CTIRCheck.sl_sm2FromBytes
theorem sl_sm2SetOne : straight prog f_fiat_sm2SetOne = true := SMGo.Proofs.CTIRCheck.sl_sm2SetOne
theorem sl_sm2Selectznz : straight prog f_fiat_sm2Selectznz = true := SMGo.Proofs.CTIRCheck.sl_sm2Selectznz
theorem sl_sm2CmovznzU64 : straight prog f_fiat_sm2CmovznzU64 = true := SMGo.Proofs.CTIRCheck.sl_sm2CmovznzU64
theorem sl_sm2ScalarMul : straight prog f_fiat_sm2ScalarMul = true := SMGo.Proofs.CTIRCheck.sl_sm2ScalarMul
theorem sl_sm2ScalarSquare : straight prog f_fiat_sm2ScalarSquare = true := SMGo.Proofs.CTIRCheck.sl_sm2ScalarSquare
theorem sl_sm2ScalarAdd : straight prog f_fiat_sm2ScalarAdd = true := SMGo.Proofs.CTIRCheck.sl_sm2ScalarAdd
theorem sl_sm2ScalarSub : straight prog f_fiat_sm2ScalarSub = true := SMGo.Proofs.CTIRCheck.sl_sm2ScalarSub
theorem sl_sm2ScalarOpp : straight prog f_fiat_sm2ScalarOpp = true := SMGo.Proofs.CTIRCheck.sl_sm2ScalarOpp
theorem sl_sm2ScalarFromMontgomery : straight prog f_fiat_sm2ScalarFromMontgomery = true := SMGo.Proofs.CTIRCheck.sl_sm2ScalarFromMontgomery
theorem sl_sm2ScalarToMontgomery : straight prog f_fiat_sm2ScalarToMontgomery = true := SMGo.Proofs.CTIRCheck.sl_sm2ScalarToMontgomery
theorem sl_sm2ScalarToBytes : straight prog f_fiat_sm2ScalarToBytes = true := SMGo.Proofs.CTIRCheck.sl_sm2ScalarToBytes
theorem sl_sm2ScalarFromBytes : straight prog f_fiat_sm2ScalarFromBytes = true := SMGo.Proofs.CTIRCheck.sl_sm2ScalarFromBytes
theorem sl_sm2ScalarSetOne : straight prog f_fiat_sm2ScalarSetOne = true := SMGo.Proofs.CTIRCheck.sl_sm2ScalarSetOne
theorem sl_sm2ScalarSelectznz : straight prog f_fiat_sm2ScalarSelectznz = true := SMGo.Proofs.CTIRCheck.sl_sm2ScalarSelectznz
theorem sl_sm2ScalarCmovznzU64 : straight prog f_fiat_sm2ScalarCmovznzU64 = true := SMGo.Proofs.CTIRCheck.sl_sm2ScalarCmovznzU64

/-! ## Instances spelled out -/

/-- base-point multiplication: any two scalars of the same length leak the same trace -/
theorem ScalarBaseMult_trace (X1 X2 : Oracle) (hX : OracleRel sigs X1 X2) (k1 k2 : Val) (hk : k1.erase = k2.erase)
    (f1 f2 : Nat) (c1 c2 : Ctl) (t1 t2 : Trace)
    (h1 : run (slice prog f_internal_ScalarBaseMult) globals X1 f1 f_internal_ScalarBaseMult [k1] = some (c1, t1))
    (h2 : run (slice prog f_internal_ScalarBaseMult) globals X2 f2 f_internal_ScalarBaseMult [k2] = some (c2, t2))
    (hd : declassOf t1 = declassOf t2) : t1 = t2 :=
  (sound f_internal_ScalarBaseMult ct_ScalarBaseMult _ rfl X1 X2 hX [k1] [k2] ⟨hk, trivial⟩ f1 f2 c1 c2 t1 t2 h1 h2 hd).1

/-- multiplication of a point: point and scalar are secrets -/
theorem ScalarMult_trace (X1 X2 : Oracle) (hX : OracleRel sigs X1 X2) (p1 p2 k1 k2 : Val)
    (hp : p1.erase = p2.erase) (hk : k1.erase = k2.erase)
    (f1 f2 : Nat) (c1 c2 : Ctl) (t1 t2 : Trace)
    (h1 : run (slice prog f_internal_ScalarMult) globals X1 f1 f_internal_ScalarMult [p1, k1] = some (c1, t1))
    (h2 : run (slice prog f_internal_ScalarMult) globals X2 f2 f_internal_ScalarMult [p2, k2] = some (c2, t2))
    (hd : declassOf t1 = declassOf t2) : t1 = t2 :=
  (sound f_internal_ScalarMult ct_ScalarMult _ rfl X1 X2 hX [p1, k1] [p2, k2] ⟨hp, hk, trivial⟩ f1 f2 c1 c2 t1 t2 h1 h2 hd).1

/-- inversion modulo n (the addition chain): receiver and operand are secrets -/
theorem Invert_n_trace (X1 X2 : Oracle) (hX : OracleRel sigs X1 X2) (z1 z2 x1 x2 : Val)
    (hz : z1.erase = z2.erase) (hx : x1.erase = x2.erase)
    (f1 f2 : Nat) (c1 c2 : Ctl) (t1 t2 : Trace)
    (h1 : run (slice prog f_fiat_SM2ScalarElement_Invert) globals X1 f1 f_fiat_SM2ScalarElement_Invert [z1, x1] = some (c1, t1))
    (h2 : run (slice prog f_fiat_SM2ScalarElement_Invert) globals X2 f2 f_fiat_SM2ScalarElement_Invert [z2, x2] = some (c2, t2))
    (hd : declassOf t1 = declassOf t2) : t1 = t2 :=
  (sound f_fiat_SM2ScalarElement_Invert ct_Invert_n _ rfl X1 X2 hX [z1, x1] [z2, x2] ⟨hz, hx, trivial⟩ f1 f2 c1 c2 t1 t2 h1 h2 hd).1

/-- comparison of secret byte strings: the length argument is public, the strings are secret; the
    comparison declassifies nothing (its callers' two-way tests are the verdict sites), so the trace
    is the same for all contents -/
theorem ConstantTimeCmp_trace (X1 X2 : Oracle) (hX : OracleRel sigs X1 X2) (a1 a2 b1 b2 l : Val)
    (ha : a1.erase = a2.erase) (hb : b1.erase = b2.erase)
    (f1 f2 : Nat) (c1 c2 : Ctl) (t1 t2 : Trace)
    (h1 : run (slice prog f_utils_ConstantTimeCmp) globals X1 f1 f_utils_ConstantTimeCmp [a1, b1, l] = some (c1, t1))
    (h2 : run (slice prog f_utils_ConstantTimeCmp) globals X2 f2 f_utils_ConstantTimeCmp [a2, b2, l] = some (c2, t2))
    (hd : declassOf t1 = declassOf t2) : t1 = t2 :=
  (sound f_utils_ConstantTimeCmp ct_ConstantTimeCmp _ rfl X1 X2 hX [a1, b1, l] [a2, b2, l] ⟨ha, hb, rfl, trivial⟩ f1 f2 c1 c2 t1 t2 h1 h2 hd).1

/-- signing: the reader handle is public, the private key and the digest may be anything of the same
    length; the nonce arrives through the external world (`io.ReadFull`, result labelled secret: the
    two worlds X1, X2 may deliver different nonces).  Equal verdicts (key accepted, same retry
    decisions) ⇒ equal traces. -/
theorem SignHashed_trace (X1 X2 : Oracle) (hX : OracleRel sigs X1 X2) (rand priv1 priv2 e1 e2 : Val)
    (hp : priv1.erase = priv2.erase) (he : e1.erase = e2.erase)
    (f1 f2 : Nat) (c1 c2 : Ctl) (t1 t2 : Trace)
    (h1 : run (slice prog f_sm2_SignHashed) globals X1 f1 f_sm2_SignHashed [rand, priv1, e1] = some (c1, t1))
    (h2 : run (slice prog f_sm2_SignHashed) globals X2 f2 f_sm2_SignHashed [rand, priv2, e2] = some (c2, t2))
    (hd : declassOf t1 = declassOf t2) : t1 = t2 :=
  (sound f_sm2_SignHashed ct_SignHashed _ rfl X1 X2 hX [rand, priv1, e1] [rand, priv2, e2] ⟨rfl, hp, he, trivial⟩ f1 f2 c1 c2 t1 t2 h1 h2 hd).1

/-- key derivation: any two private keys of the same length -/
theorem DerivePublic_trace (X1 X2 : Oracle) (hX : OracleRel sigs X1 X2) (d1 d2 : Val) (hd' : d1.erase = d2.erase)
    (f1 f2 : Nat) (c1 c2 : Ctl) (t1 t2 : Trace)
    (h1 : run (slice prog f_sm2_DerivePublic) globals X1 f1 f_sm2_DerivePublic [d1] = some (c1, t1))
    (h2 : run (slice prog f_sm2_DerivePublic) globals X2 f2 f_sm2_DerivePublic [d2] = some (c2, t2))
    (hd : declassOf t1 = declassOf t2) : t1 = t2 :=
  (sound f_sm2_DerivePublic ct_DerivePublic _ rfl X1 X2 hX [d1] [d2] ⟨hd', trivial⟩ f1 f2 c1 c2 t1 t2 h1 h2 hd).1

/-! ## Declassification: every use is listed (site numbers: `siteInfo` of the generated file)

  0, 1: TestPrivateKey `acc == 0`, `cmp == -1`;  2, 3: SetBytes (mod p, mod n) `ConstantTimeCmp(…) > 0`;
  4, 5, 6: `p.z.IsZero() == 1` in SM2Point.bytes, GetAffineX, GetAffineX_Unsafe;  7: GenerateKey
  `TestPrivateKey(priv) == 0`;  8: SignHashed `test := TestPrivateKey(priv)`;  9–13: the retry decisions of
  the signing loop (`k >= n`, `k = 0`, `r = 0`, `r + k = n`, `s = 0`). -/

theorem sites_ConstantTimeCmp : sitesOf prog f_utils_ConstantTimeCmp = [] := by decide +kernel
theorem sites_TestPrivateKey : sitesOf prog f_sm2_TestPrivateKey = [0, 1] := by decide +kernel
theorem sites_SetBytes_p : sitesOf prog f_fiat_SM2Element_SetBytes = [2] := by decide +kernel
theorem sites_SetBytes_n : sitesOf prog f_fiat_SM2ScalarElement_SetBytes = [3] := by decide +kernel
theorem sites_GetAffineX : sitesOf prog f_internal_SM2Point_GetAffineX = [5] := by decide +kernel
theorem sites_PointBytes : sitesOf prog f_internal_SM2Point_Bytes = [4] := by decide +kernel
theorem sites_ScalarBaseMult : sitesOf prog f_internal_ScalarBaseMult = [] := by decide +kernel
theorem sites_ScalarMult : sitesOf prog f_internal_ScalarMult = [] := by decide +kernel
theorem sites_Invert_p : sitesOf prog f_fiat_SM2Element_Invert = [] := by decide +kernel
theorem sites_Invert_n : sitesOf prog f_fiat_SM2ScalarElement_Invert = [] := by decide +kernel
theorem sites_Add : sitesOf prog f_internal_SM2Point_Add = [] := by decide +kernel
theorem sites_Double : sitesOf prog f_internal_SM2Point_Double = [] := by decide +kernel
theorem sites_MultiSelect : sitesOf prog f_fiat_SM2Element_MultiSelect = [] := by decide +kernel
theorem sites_DerivePublic : sitesOf prog f_sm2_DerivePublic = [4] := by decide +kernel
theorem sites_GenerateKey : sitesOf prog f_sm2_GenerateKey = [7, 0, 1, 4] := by decide +kernel
theorem sites_SignHashed : sitesOf prog f_sm2_SignHashed = [8, 9, 10, 11, 12, 13, 0, 1, 5, 3] := by decide +kernel

/-! ## What is still rejected: the `_Unsafe` conversions (used by VerifyHashed on public data only) -/

theorem reject_GetAffineX_Unsafe : check (slice prog f_internal_SM2Point_GetAffineX_Unsafe) sigs f_internal_SM2Point_GetAffineX_Unsafe = false :=
  SMGo.Proofs.CTIRCheck.reject_GetAffineX_Unsafe
theorem reject_Bytes_Unsafe : check (slice prog f_internal_SM2Point_Bytes_Unsafe) sigs f_internal_SM2Point_Bytes_Unsafe = false :=
  SMGo.Proofs.CTIRCheck.reject_Bytes_Unsafe

/-- in the whole generated program exactly the `_Unsafe` conversions fail (`bytes` is the unspecialised
    body with both variants) … -/
theorem failing_prog : failing prog sigs =
    [f_internal_SM2Point_GetAffineX_Unsafe, f_internal_SM2Point_bytes, f_internal_SM2Point_bytes_safe_false] :=
  SMGo.Proofs.CTIRCheck.failing_prog
/-- … and the only translated function that calls one of them is `Bytes_Unsafe` itself: no path from
    SignHashed, GenerateKey or DerivePublic reaches them -/
theorem callers_of_modinverse_conversions :
    (List.range prog.length).filter (fun g => match prog[g]? with
      | some fn => (calleesS fn.body).any (fun c => c == f_internal_SM2Point_GetAffineX_Unsafe ||
          c == f_internal_SM2Point_Bytes_Unsafe || c == f_internal_SM2Point_bytes_safe_false || c == f_internal_SM2Point_bytes)
      | none => false) = [f_internal_SM2Point_Bytes_Unsafe] := SMGo.Proofs.CTIRCheck.callers_of_modinverse_conversions

/-- two points of the same shape, the same verdict (not at infinity), different traces: the leaked
    argument of `big.Int.ModInverse` is Z -/
theorem witness_GetAffineX_Unsafe : ∃ c1 t1 c2 t2,
    run (slice prog f_internal_SM2Point_GetAffineX_Unsafe) globals bigX 100000 f_internal_SM2Point_GetAffineX_Unsafe [pointA] = some (c1, t1) ∧
    run (slice prog f_internal_SM2Point_GetAffineX_Unsafe) globals bigX 100000 f_internal_SM2Point_GetAffineX_Unsafe [pointB] = some (c2, t2) ∧
    declassOf t1 = declassOf t2 ∧ t1 ≠ t2 :=
  tracesDiffer_spec SMGo.Proofs.CTIRCheck.witness_GetAffineX_Unsafe

theorem witness_Bytes_Unsafe : ∃ c1 t1 c2 t2,
    run (slice prog f_internal_SM2Point_Bytes_Unsafe) globals bigX 100000 f_internal_SM2Point_Bytes_Unsafe [pointA] = some (c1, t1) ∧
    run (slice prog f_internal_SM2Point_Bytes_Unsafe) globals bigX 100000 f_internal_SM2Point_Bytes_Unsafe [pointB] = some (c2, t2) ∧
    declassOf t1 = declassOf t2 ∧ t1 ≠ t2 :=
  tracesDiffer_spec SMGo.Proofs.CTIRCheck.witness_Bytes_Unsafe

/-! ## Non-vacuity: the checker does reject a branch on a secret -/

/-- `func f(s) int { if s != 0 { return 1 }; return 0 }` with `s` secret -/
def leaky : Prog := [{ nparams := 1, nvars := 1, body := .seq (.ite (.var 0) (.ret [.lit 1]) .skip) (.ret [.lit 0]) }]
def leakySigs (l : Label) : Sigs := { fn := [{ params := [l], results := [.H], declass := [] }], ext := [] }

example : check leaky (leakySigs .H) 0 = false := by decide
example : check leaky (leakySigs .L) 0 = true := by decide
/-- and the interpreter shows the two traces -/
example : (run leaky (fun _ => .int 0) (fun _ _ => []) 10 0 [.int 0]).map (fun r => traceDigest r.2)
    ≠ (run leaky (fun _ => .int 0) (fun _ _ => []) 10 0 [.int 1]).map (fun r => traceDigest r.2) := by decide
/-- an index by a secret, a secret shift count and a leaking external call on a secret are rejected too -/
example : check [{ nparams := 2, nvars := 2, body := .ret [.idx (.var 0) (.var 1)] }]
    { fn := [{ params := [.L, .H], results := [.H], declass := [] }], ext := [] } 0 = false := by decide
example : check [{ nparams := 2, nvars := 2, body := .ret [.op2 (.shl .u64) (.var 0) (.var 1)] }]
    { fn := [{ params := [.L, .H], results := [.H], declass := [] }], ext := [] } 0 = false := by decide
example : check [{ nparams := 1, nvars := 2, body := .seq (.ext [1] 0 true [.var 0]) (.ret [.var 1]) }]
    { fn := [{ params := [.H], results := [.H], declass := [] }], ext := [[.H]] } 0 = false := by decide
/-- a declassification outside the allowed sites is rejected -/
example : check [{ nparams := 1, nvars := 2, body := .seq (.declass 1 7 (.var 0)) (.ite (.var 1) (.ret [.lit 1]) (.ret [.lit 0])) }]
    { fn := [{ params := [.H], results := [.H], declass := [] }], ext := [] } 0 = false := by decide

#print axioms check_sound
#print axioms sound
#print axioms ct_ConstantTimeCmp
#print axioms ct_TestPrivateKey
#print axioms ct_MultiSelect
#print axioms ct_sm2Mul
#print axioms ct_Invert_p
#print axioms ct_Invert_n
#print axioms ct_Add
#print axioms ct_Double
#print axioms ct_ScalarBaseMult
#print axioms ct_ScalarMult
#print axioms ct_SetBytes_p
#print axioms ScalarBaseMult_trace
#print axioms ct_SetBytes_n
#print axioms ct_SignHashed
#print axioms ct_GenerateKey
#print axioms ct_DerivePublic
#print axioms SignHashed_trace
#print axioms reject_GetAffineX_Unsafe
#print axioms witness_GetAffineX_Unsafe

end SMGo.Props.C08
