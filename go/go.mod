module verifharness

go 1.17

require github.com/bilibili/smgo v0.0.0

require github.com/klauspost/cpuid/v2 v2.0.10 // indirect

replace github.com/bilibili/smgo => /repo
