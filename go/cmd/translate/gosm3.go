package main

// Go -> Lean, statement by statement, for sm3/sm3.go (sub-command "gosm3", output Gen/SM3Code.lean).
//
// Every Go function of the file becomes one Lean definition; every Go statement becomes the `do`
// statement(s) printed under a comment that quotes its source line.  The meaning of the target
// vocabulary (Go.get, Go.set, Go.slice, Go.copyAt, Go.beUint32, ...) is the hand-written prelude
// lean/SMGo/Model/GoPrelude.lean; the representation of Go types is stated there.
//
// Conventions
//   - a function whose body is a single `return e` without indexing is a pure definition; every
//     other function returns `Go.Res _` (a value or a panic): all index, slice, copy and
//     encoding/binary accesses are bounds-checked as in Go, nothing is defaulted;
//   - a method with pointer receiver takes the struct value and returns the new struct value first;
//     parameters through which the callee writes (`*[N]T`, or a slice used as a store/copy/Put target)
//     are returned after it, then the Go results;
//   - `for v := A; v <= B; v++` / `v < B` with constant A, B and no assignment to v becomes
//     `for v' in [A:B+1]`; `for len(s) >= C { }` becomes a loop with fuel `s.size + 1` that panics
//     when the fuel runs out (so too little fuel can only turn a result into a panic);
//   - constant expressions are folded with go/constant (exact) and printed with their source text;
//   - shifts need a constant count smaller than the width of the shifted operand.
//
// Value semantics is faithful only without aliasing; the translator checks, at every call, that
// a slice argument taken from a field of the receiver is not a field the callee writes, that an
// argument written by the callee is a whole local array, and that no slice of an array is stored
// or returned.  Anything outside the subset stops the translator with file:line.

import (
	"fmt"
	"go/ast"
	"go/constant"
	"go/importer"
	"go/parser"
	"go/token"
	"go/types"
	"os"
	"path/filepath"
	"sort"
	"strings"
)

type gsFn struct {
	decl     *ast.FuncDecl
	lean     string     // Lean name
	recv     *types.Var // pointer receiver or nil
	pure     bool
	params   []*types.Var
	inout    []bool // callee writes through the parameter
	results  []*types.Var
	resNamed bool
	writes   map[string]bool // receiver fields written (transitively)
}

type gsTr struct {
	fset   *token.FileSet
	info   *types.Info
	pkg    *types.Package
	src    []string
	sb     strings.Builder
	strct  *types.Named
	fns    map[types.Object]*gsFn
	order  []*gsFn
	cur    *gsFn
	pureCx bool
	tmp    int
	mut    map[types.Object]bool   // variables assigned after their declaration, in the current function
	asArg  map[*ast.SliceExpr]bool // slice expressions that are call arguments, in the current function
}

// gsDie stops the translator; it is `die` (message on stderr, exit status 2) in the command and is
// replaced by a panic with a sentinel value in gosm3_test.go.
var gsDie = die

func (t *gsTr) fail(pos token.Pos, format string, a ...interface{}) {
	gsDie("%s: %s", t.fset.Position(pos), fmt.Sprintf(format, a...))
}

var leanKeywords = map[string]bool{"in": true, "at": true, "from": true, "end": true, "fun": true, "do": true, "then": true,
	"else": true, "have": true, "show": true, "let": true, "where": true, "with": true, "by": true, "open": true, "def": true,
	"theorem": true, "match": true, "if": true, "for": true, "return": true, "mut": true, "Type": true, "Prop": true,
	"instance": true, "structure": true, "namespace": true, "section": true, "import": true, "calc": true, "exact": true,
	"break": true, "continue": true, "try": true, "catch": true, "finally": true, "unless": true, "using": true, "deriving": true}

// names the generated text uses unqualified: a Go variable of that name would capture them
var leanReserved = map[string]bool{"pure": true, "none": true, "some": true, "Array": true, "Int": true, "BitVec": true,
	"UInt8": true, "Go": true, "Unit": true, "Nat": true, "SMGo": true}

func leanIdent(s string) string {
	if leanKeywords[s] {
		return s + "'"
	}
	return s
}

// checkNames: every variable declared in the function has an ASCII name that is not reserved, and no
// declaration shadows another variable (Lean's `let mut` scoping differs from Go's for shadowed names).
func (t *gsTr) checkNames(fd *ast.FuncDecl) {
	ast.Inspect(fd, func(n ast.Node) bool {
		id, ok := n.(*ast.Ident)
		if !ok {
			return true
		}
		v, ok := t.info.Defs[id].(*types.Var)
		if !ok || v.IsField() || id.Name == "_" {
			return true
		}
		for _, r := range id.Name {
			if r > 127 {
				t.fail(id.Pos(), "non-ASCII identifier %s", id.Name)
			}
		}
		if leanReserved[id.Name] || strings.HasPrefix(id.Name, "t'") {
			t.fail(id.Pos(), "identifier %s is reserved by the translation", id.Name)
		}
		if sc := v.Parent(); sc != nil && sc.Parent() != nil {
			if _, outer := sc.Parent().LookupParent(id.Name, v.Pos()); outer != nil {
				if _, isVar := outer.(*types.Var); isVar {
					t.fail(id.Pos(), "declaration of %s shadows another variable", id.Name)
				}
			}
		}
		return true
	})
}

// ---- types -------------------------------------------------------------------------------------------

func (t *gsTr) leanType(pos token.Pos, ty types.Type) string {
	switch x := ty.(type) {
	case *types.Basic:
		switch x.Kind() {
		case types.Uint32:
			return "BitVec 32"
		case types.Uint64:
			return "BitVec 64"
		case types.Uint8:
			return "UInt8"
		case types.Int:
			return "Int"
		}
	case *types.Array:
		return "Array (" + t.leanType(pos, x.Elem()) + ")"
	case *types.Slice:
		return "Array (" + t.leanType(pos, x.Elem()) + ")"
	case *types.Pointer:
		if n, ok := x.Elem().(*types.Named); ok && n == t.strct {
			return t.strct.Obj().Name()
		}
		if a, ok := x.Elem().(*types.Array); ok {
			return t.leanType(pos, a)
		}
	case *types.Named:
		if x == t.strct {
			return t.strct.Obj().Name()
		}
		if x.Obj().Pkg() == nil && x.Obj().Name() == "error" {
			return "Go.Error"
		}
		if x.Obj().Pkg() != nil && x.Obj().Pkg().Path() == "hash" && x.Obj().Name() == "Hash" {
			return t.strct.Obj().Name() // only as the result of New(); the returned value is checked to be the struct
		}
	}
	t.fail(pos, "unsupported type %s", ty)
	return ""
}

func (t *gsTr) zeroOf(pos token.Pos, ty types.Type) string {
	switch x := ty.(type) {
	case *types.Basic:
		switch x.Kind() {
		case types.Uint32:
			return "0#32"
		case types.Uint64:
			return "0#64"
		case types.Uint8:
			return "(0 : UInt8)"
		case types.Int:
			return "(0 : Int)"
		}
	case *types.Array:
		return fmt.Sprintf("(Array.replicate %d %s)", x.Len(), t.zeroOf(pos, x.Elem()))
	case *types.Named:
		if x == t.strct {
			return t.strct.Obj().Name() + ".zero"
		}
		if x.Obj().Pkg() == nil && x.Obj().Name() == "error" {
			return "none"
		}
	}
	t.fail(pos, "no zero value for type %s", ty)
	return ""
}

func (t *gsTr) typeOf(e ast.Expr) types.Type {
	tv, ok := t.info.Types[e]
	if !ok {
		t.fail(e.Pos(), "no type information")
	}
	return tv.Type
}

func basicKind(ty types.Type) types.BasicKind {
	if b, ok := ty.Underlying().(*types.Basic); ok {
		return b.Kind()
	}
	return types.Invalid
}

func bvWidth(ty types.Type) int {
	switch basicKind(ty) {
	case types.Uint32:
		return 32
	case types.Uint64:
		return 64
	}
	return 0
}

// constant of a given Go type as a Lean literal
func (t *gsTr) constLit(e ast.Expr, v constant.Value, ty types.Type) string {
	if v.Kind() != constant.Int {
		t.fail(e.Pos(), "non-integer constant")
	}
	s := v.ExactString()
	neg := constant.Sign(v) < 0
	if w := bvWidth(ty); w != 0 && !neg {
		u, exact := constant.Uint64Val(v)
		if !exact || (w == 32 && u>>32 != 0) {
			t.fail(e.Pos(), "constant overflows its type")
		}
		s = fmt.Sprintf("0x%0*x", w/4, u)
	}
	txt := strings.Join(strings.Fields(t.text(e)), " ")
	note := ""
	if txt != s && txt != v.ExactString() {
		note = " /- " + txt + " -/"
	}
	switch basicKind(ty) {
	case types.Uint32:
		if neg {
			t.fail(e.Pos(), "negative constant")
		}
		return s + "#32" + note
	case types.Uint64:
		if neg {
			t.fail(e.Pos(), "negative constant")
		}
		return s + "#64" + note
	case types.Uint8:
		if neg {
			t.fail(e.Pos(), "negative constant")
		}
		return "(" + s + " : UInt8)" + note
	case types.Int, types.UntypedInt:
		return "(" + s + " : Int)" + note
	}
	t.fail(e.Pos(), "constant of unsupported type %s", ty)
	return ""
}

func (t *gsTr) text(n ast.Node) string {
	p, q := t.fset.Position(n.Pos()), t.fset.Position(n.End())
	if p.Line == q.Line {
		return t.src[p.Line-1][p.Column-1 : q.Column-1]
	}
	return strings.TrimSpace(t.src[p.Line-1][p.Column-1:])
}

// ---- expressions ---------------------------------------------------------------------------------------

func (t *gsTr) isStructVar(e ast.Expr) (*ast.Ident, bool) {
	id, ok := e.(*ast.Ident)
	if !ok {
		return nil, false
	}
	ty := t.typeOf(e)
	if p, ok := ty.(*types.Pointer); ok {
		ty = p.Elem()
	}
	return id, ty == types.Type(t.strct)
}

// an array-valued place: a local/parameter identifier or a field of a struct variable
type gsPlace struct {
	val    string                    // Lean expression of the current value
	store  func(string, bool) string // Lean statement that stores a new value (a Go.Res action when the flag is set)
	field  string                    // field name when the place is recvVar.field
	owner  types.Object              // the variable (the struct variable for a field)
	isArr  bool                      // Go array (or pointer to array), not a slice
	global bool
}

func (t *gsTr) place(e ast.Expr) *gsPlace {
	switch x := e.(type) {
	case *ast.ParenExpr:
		return t.place(x.X)
	case *ast.Ident:
		obj := t.info.Uses[x]
		if obj == nil {
			obj = t.info.Defs[x]
		}
		v, ok := obj.(*types.Var)
		if !ok {
			t.fail(x.Pos(), "%s is not a variable", x.Name)
		}
		ty := v.Type()
		if p, ok := ty.(*types.Pointer); ok {
			ty = p.Elem()
		}
		_, isArr := ty.Underlying().(*types.Array)
		_, isSl := ty.Underlying().(*types.Slice)
		if !isArr && !isSl {
			t.fail(x.Pos(), "%s is not an array or slice", x.Name)
		}
		name := leanIdent(x.Name)
		pl := &gsPlace{val: name, owner: obj, isArr: isArr, global: v.Parent() == t.pkg.Scope()}
		pl.store = func(nv string, m bool) string {
			if m {
				return name + " ← " + nv
			}
			return name + " := " + nv
		}
		if pl.global {
			pl.store = func(string, bool) string {
				t.fail(x.Pos(), "store to package-level variable %s", x.Name)
				return ""
			}
		}
		return pl
	case *ast.SelectorExpr:
		id, ok := t.isStructVar(x.X)
		if !ok {
			t.fail(x.Pos(), "unsupported selector")
		}
		_, isArr := t.typeOf(x).Underlying().(*types.Array)
		if !isArr {
			t.fail(x.Pos(), "field %s is not an array", x.Sel.Name)
		}
		s := leanIdent(id.Name)
		f := leanIdent(x.Sel.Name)
		return &gsPlace{val: s + "." + f, field: x.Sel.Name, owner: t.info.Uses[id], isArr: true,
			store: func(nv string, m bool) string {
				if m {
					nv = "(← " + nv + ")"
				}
				return fmt.Sprintf("%s := { %s with %s := %s }", s, s, f, nv)
			}}
	}
	t.fail(e.Pos(), "unsupported array/slice operand %T", e)
	return nil
}

// the bounds of X[lo:hi] as Lean Int expressions
func (t *gsTr) bounds(x *ast.SliceExpr, base string) (string, string) {
	if x.Slice3 || x.Max != nil {
		t.fail(x.Pos(), "3-index slice")
	}
	lo, hi := "(0 : Int)", "(Go.len "+base+")"
	if x.Low != nil {
		lo = t.expr(x.Low)
	}
	if x.High != nil {
		hi = t.expr(x.High)
	}
	return lo, hi
}

func (t *gsTr) arrow(s string, pos token.Pos) string {
	if t.pureCx {
		t.fail(pos, "checked access in a pure function")
	}
	return "(← " + s + ")"
}

func (t *gsTr) expr(e ast.Expr) string {
	if tv, ok := t.info.Types[e]; ok && tv.Value != nil {
		return t.constLit(e, tv.Value, tv.Type)
	}
	switch x := e.(type) {
	case *ast.ParenExpr:
		return t.expr(x.X)
	case *ast.Ident:
		obj := t.info.Uses[x]
		if _, ok := obj.(*types.Var); !ok {
			t.fail(x.Pos(), "unsupported identifier %s", x.Name)
		}
		return leanIdent(x.Name)
	case *ast.SelectorExpr:
		id, ok := t.isStructVar(x.X)
		if !ok {
			t.fail(x.Pos(), "unsupported selector")
		}
		return leanIdent(id.Name) + "." + leanIdent(x.Sel.Name)
	case *ast.IndexExpr:
		pl := t.place(x.X)
		return t.arrow(fmt.Sprintf("Go.get %s %s", pl.val, t.expr(x.Index)), x.Pos())
	case *ast.SliceExpr:
		pl := t.place(x.X)
		lo, hi := t.bounds(x, pl.val)
		return t.arrow(fmt.Sprintf("Go.slice %s %s %s", pl.val, lo, hi), x.Pos())
	case *ast.UnaryExpr:
		if x.Op == token.XOR && bvWidth(t.typeOf(x)) != 0 {
			return "(~~~" + t.expr(x.X) + ")"
		}
		t.fail(x.Pos(), "unsupported unary operator %s", x.Op)
	case *ast.BinaryExpr:
		return t.binary(x)
	case *ast.CallExpr:
		return t.callExpr(x)
	}
	t.fail(e.Pos(), "unsupported expression %T", e)
	return ""
}

func (t *gsTr) shiftCount(x *ast.BinaryExpr, width int) int64 {
	tv := t.info.Types[x.Y]
	if tv.Value == nil {
		t.fail(x.Pos(), "shift count is not a constant")
	}
	c, ok := constant.Int64Val(tv.Value)
	if !ok || c < 0 || c >= int64(width) {
		t.fail(x.Pos(), "shift count out of range")
	}
	return c
}

func (t *gsTr) binary(x *ast.BinaryExpr) string {
	lt := t.typeOf(x.X)
	switch x.Op {
	case token.SHL, token.SHR:
		if w := bvWidth(lt); w != 0 {
			c := t.shiftCount(x, w)
			op := "<<<"
			if x.Op == token.SHR {
				op = ">>>"
			}
			return fmt.Sprintf("(%s %s %d)", t.expr(x.X), op, c)
		}
		if basicKind(lt) == types.Int && x.Op == token.SHL {
			c := t.shiftCount(x, 62)
			return fmt.Sprintf("(%s * %d /- << %d -/)", t.expr(x.X), int64(1)<<uint(c), c)
		}
		t.fail(x.Pos(), "unsupported shift of %s", lt)
	case token.ADD, token.SUB, token.MUL:
		if bvWidth(lt) == 0 && basicKind(lt) != types.Int {
			t.fail(x.Pos(), "arithmetic on %s", lt)
		}
		return fmt.Sprintf("(%s %s %s)", t.expr(x.X), x.Op, t.expr(x.Y))
	case token.AND, token.OR, token.XOR:
		if bvWidth(lt) == 0 {
			t.fail(x.Pos(), "bit operation on %s", lt)
		}
		op := map[token.Token]string{token.AND: "&&&", token.OR: "|||", token.XOR: "^^^"}[x.Op]
		return fmt.Sprintf("(%s %s %s)", t.expr(x.X), op, t.expr(x.Y))
	case token.EQL, token.NEQ, token.LSS, token.LEQ, token.GTR, token.GEQ:
		if k := basicKind(lt); k != types.Int && k != types.UntypedInt {
			t.fail(x.Pos(), "comparison of %s", lt)
		}
		op := map[token.Token]string{token.EQL: "=", token.NEQ: "≠", token.LSS: "<", token.LEQ: "≤", token.GTR: ">", token.GEQ: "≥"}[x.Op]
		return fmt.Sprintf("(%s %s %s)", t.expr(x.X), op, t.expr(x.Y))
	}
	t.fail(x.Pos(), "unsupported binary operator %s", x.Op)
	return ""
}

func (t *gsTr) isBigEndian(fun ast.Expr) (string, bool) {
	sel, ok := fun.(*ast.SelectorExpr)
	if !ok {
		return "", false
	}
	in, ok := sel.X.(*ast.SelectorExpr)
	if !ok || in.Sel.Name != "BigEndian" {
		return "", false
	}
	pk, ok := in.X.(*ast.Ident)
	if !ok {
		return "", false
	}
	pn, ok := t.info.Uses[pk].(*types.PkgName)
	if !ok || pn.Imported().Path() != "encoding/binary" {
		return "", false
	}
	return sel.Sel.Name, true
}

func (t *gsTr) callee(call *ast.CallExpr) (*gsFn, ast.Expr) {
	switch f := call.Fun.(type) {
	case *ast.Ident:
		if fn, ok := t.fns[t.info.Uses[f]]; ok {
			return fn, nil
		}
	case *ast.SelectorExpr:
		if s, ok := t.info.Selections[f]; ok && s.Kind() == types.MethodVal {
			if fn, ok := t.fns[s.Obj()]; ok {
				return fn, f.X
			}
		}
	}
	return nil, nil
}

func (t *gsTr) callExpr(x *ast.CallExpr) string {
	if tv, ok := t.info.Types[x.Fun]; ok && tv.IsType() {
		if len(x.Args) != 1 {
			t.fail(x.Pos(), "conversion arity")
		}
		if basicKind(tv.Type) == types.Uint64 && basicKind(t.typeOf(x.Args[0])) == types.Int {
			return "(Go.u64OfInt " + t.expr(x.Args[0]) + ")"
		}
		t.fail(x.Pos(), "unsupported conversion %s(%s)", tv.Type, t.typeOf(x.Args[0]))
	}
	if id, ok := x.Fun.(*ast.Ident); ok {
		if b, ok := t.info.Uses[id].(*types.Builtin); ok {
			switch b.Name() {
			case "len":
				pl := t.place(x.Args[0])
				return "(Go.len " + pl.val + ")"
			case "append":
				if len(x.Args) != 2 || !x.Ellipsis.IsValid() {
					t.fail(x.Pos(), "append: only append(a, b...)")
				}
				return "(" + t.expr(x.Args[0]) + " ++ " + t.expr(x.Args[1]) + ")"
			}
			t.fail(x.Pos(), "builtin %s in an expression", b.Name())
		}
	}
	if name, ok := t.isBigEndian(x.Fun); ok {
		if name == "Uint32" && len(x.Args) == 1 {
			return t.arrow("Go.beUint32 "+t.expr(x.Args[0]), x.Pos())
		}
		t.fail(x.Pos(), "binary.BigEndian.%s in an expression", name)
	}
	if fn, recv := t.callee(x); fn != nil && fn.pure {
		var as []string
		if recv != nil {
			as = append(as, t.expr(recv))
		}
		for _, a := range x.Args {
			as = append(as, t.expr(a))
		}
		return "(" + fn.lean + " " + strings.Join(as, " ") + ")"
	}
	t.fail(x.Pos(), "unsupported call in an expression")
	return ""
}

// ---- statements ------------------------------------------------------------------------------------------

type gsOut struct {
	t   *gsTr
	ind int
}

func (o gsOut) line(format string, a ...interface{}) {
	o.t.sb.WriteString(strings.Repeat("  ", o.ind))
	fmt.Fprintf(&o.t.sb, format, a...)
	o.t.sb.WriteString("\n")
}

func (o gsOut) quote(n ast.Node) {
	p := o.t.fset.Position(n.Pos())
	o.line("-- %d: %s", p.Line, strings.TrimSpace(o.t.src[p.Line-1]))
}

func (t *gsTr) fresh() string {
	t.tmp++
	return fmt.Sprintf("t'%d", t.tmp)
}

// store `val` (a Lean expression, already evaluated: an identifier or pure term) into the Go lvalue
func (t *gsTr) assignTo(o gsOut, lhs ast.Expr, val string) {
	switch l := lhs.(type) {
	case *ast.Ident:
		if l.Name == "_" {
			return
		}
		if _, ok := t.info.Uses[l].(*types.Var); !ok {
			t.fail(l.Pos(), "assignment to %s", l.Name)
		}
		if v := t.info.Uses[l].(*types.Var); v.Parent() == t.pkg.Scope() {
			t.fail(l.Pos(), "store to package-level variable %s", l.Name)
		}
		o.line("%s := %s", leanIdent(l.Name), val)
	case *ast.SelectorExpr:
		id, ok := t.isStructVar(l.X)
		if !ok {
			t.fail(l.Pos(), "unsupported assignment target")
		}
		s := leanIdent(id.Name)
		o.line("%s := { %s with %s := %s }", s, s, leanIdent(l.Sel.Name), val)
	case *ast.IndexExpr:
		pl := t.place(l.X)
		o.line("%s", pl.store(fmt.Sprintf("Go.set %s %s %s", pl.val, t.expr(l.Index), val), true))
	default:
		t.fail(lhs.Pos(), "unsupported assignment target %T", lhs)
	}
}

// statement-level calls: copy, binary.BigEndian.Put*, functions of the file that return Go.Res.
// Returns the Lean expressions of the Go results.
func (t *gsTr) callStmt(o gsOut, call *ast.CallExpr) []string {
	if id, ok := call.Fun.(*ast.Ident); ok {
		if b, ok := t.info.Uses[id].(*types.Builtin); ok && b.Name() == "copy" {
			sl, ok := call.Args[0].(*ast.SliceExpr)
			if !ok {
				t.fail(call.Pos(), "copy: destination must be a slice expression")
			}
			pl := t.place(sl.X)
			if !pl.isArr {
				t.fail(call.Pos(), "copy: destination must be a slice of an array")
			}
			t.noAlias(call.Args[1], pl, call.Pos())
			lo, hi := t.bounds(sl, pl.val)
			r := t.fresh()
			o.line("let %s ← Go.copyAt %s %s %s %s", r, pl.val, lo, hi, t.expr(call.Args[1]))
			o.line("%s", pl.store(r+".1", false))
			return []string{r + ".2"}
		}
	}
	if name, ok := t.isBigEndian(call.Fun); ok {
		if (name == "PutUint32" || name == "PutUint64") && len(call.Args) == 2 {
			sl, ok := call.Args[0].(*ast.SliceExpr)
			if !ok {
				t.fail(call.Pos(), "%s: destination must be a slice expression", name)
			}
			pl := t.place(sl.X)
			lo, hi := t.bounds(sl, pl.val)
			o.line("%s", pl.store(fmt.Sprintf("Go.be%sAt %s %s %s %s", name, pl.val, lo, hi, t.expr(call.Args[1])), true))
			return nil
		}
		t.fail(call.Pos(), "unsupported binary.BigEndian.%s", name)
	}
	if id, ok := call.Fun.(*ast.Ident); ok {
		if b, ok := t.info.Uses[id].(*types.Builtin); ok && b.Name() == "new" {
			if t.typeOf(call.Args[0]) != types.Type(t.strct) {
				t.fail(call.Pos(), "new of %s", t.typeOf(call.Args[0]))
			}
			return []string{t.strct.Obj().Name() + ".zero"}
		}
	}
	fn, recv := t.callee(call)
	if fn == nil {
		t.fail(call.Pos(), "unsupported call")
	}
	if fn.pure {
		return []string{t.callExpr(call)}
	}
	var args []string
	var backStores []func(string) string
	var recvObj types.Object
	if fn.recv != nil {
		id, ok := t.isStructVar(recv)
		if !ok {
			t.fail(call.Pos(), "method call on a non-variable")
		}
		recvObj = t.info.Uses[id]
		name := leanIdent(id.Name)
		args = append(args, name)
		backStores = append(backStores, func(nv string) string { return name + " := " + nv })
	}
	var written []*gsPlace
	for i, a := range call.Args {
		if fn.inout[i] {
			var base ast.Expr
			switch y := a.(type) {
			case *ast.UnaryExpr: // &w
				if y.Op != token.AND {
					t.fail(a.Pos(), "unsupported argument")
				}
				base = y.X
			case *ast.SliceExpr: // hash[:]
				if y.Low != nil || y.High != nil || y.Slice3 {
					t.fail(a.Pos(), "an argument the callee writes to must be a whole array (x[:])")
				}
				base = y.X
			case *ast.Ident: // a slice / pointer parameter handed on
				base = y
			default:
				t.fail(a.Pos(), "unsupported argument the callee writes to")
			}
			id, ok := base.(*ast.Ident)
			if !ok {
				t.fail(a.Pos(), "an argument the callee writes to must be a local variable")
			}
			pl := t.place(id)
			if pl.global {
				t.fail(a.Pos(), "package-level variable passed for writing")
			}
			written = append(written, pl)
			args = append(args, pl.val)
			backStores = append(backStores, func(nv string) string { return pl.val + " := " + nv })
			continue
		}
		args = append(args, t.expr(a))
	}
	// aliasing: what the callee writes must not be visible through another argument
	for i, a := range call.Args {
		if fn.inout[i] {
			continue
		}
		if _, isSlice := t.typeOf(a).Underlying().(*types.Slice); !isSlice {
			continue
		}
		root := a
		for {
			if s, ok := root.(*ast.SliceExpr); ok {
				root = s.X
				continue
			}
			break
		}
		pl := t.place(root)
		for _, w := range written {
			if w.owner == pl.owner {
				t.fail(a.Pos(), "argument aliases an argument the callee writes to")
			}
		}
		if pl.field != "" && pl.owner == recvObj && fn.writes[pl.field] {
			t.fail(a.Pos(), "argument is a slice of field %s, which %s writes", pl.field, fn.lean)
		}
		if pl.field != "" && pl.owner != recvObj {
			t.fail(a.Pos(), "slice of a field of another struct value")
		}
	}
	for i := 0; i < len(written); i++ {
		for j := i + 1; j < len(written); j++ {
			if written[i].owner == written[j].owner {
				t.fail(call.Pos(), "the same variable passed twice for writing")
			}
		}
	}
	r := t.fresh()
	o.line("let %s ← %s %s", r, fn.lean, strings.Join(args, " "))
	n := len(backStores) + len(fn.results)
	comp := func(k int) string {
		if n == 1 {
			return r
		}
		s := r
		for i := 0; i < k; i++ {
			s += ".2"
		}
		if k < n-1 {
			s += ".1"
		}
		return s
	}
	for k, st := range backStores {
		o.line("%s", st(comp(k)))
	}
	var res []string
	for k := range fn.results {
		res = append(res, comp(len(backStores)+k))
	}
	return res
}

// `copy(dst, src)`: src must not be a view of dst's variable
func (t *gsTr) noAlias(src ast.Expr, dst *gsPlace, pos token.Pos) {
	root := src
	for {
		if s, ok := root.(*ast.SliceExpr); ok {
			root = s.X
			continue
		}
		break
	}
	pl := t.place(root)
	if pl.owner == dst.owner && pl.field == dst.field {
		t.fail(pos, "copy between overlapping operands")
	}
}

func (t *gsTr) isCall(e ast.Expr) (*ast.CallExpr, bool) {
	c, ok := e.(*ast.CallExpr)
	if !ok {
		return nil, false
	}
	if tv, ok := t.info.Types[c.Fun]; ok && tv.IsType() {
		return nil, false
	}
	if id, ok := c.Fun.(*ast.Ident); ok {
		if b, ok := t.info.Uses[id].(*types.Builtin); ok {
			return c, b.Name() == "copy" || b.Name() == "new"
		}
	}
	if _, ok := t.isBigEndian(c.Fun); ok {
		return nil, false
	}
	if fn, _ := t.callee(c); fn != nil && !fn.pure {
		return c, true
	}
	return nil, false
}

func (t *gsTr) define(o gsOut, id *ast.Ident, val string) {
	if id.Name == "_" {
		return
	}
	obj := t.info.Defs[id]
	if obj == nil {
		t.fail(id.Pos(), ":= redeclares %s", id.Name)
	}
	m := ""
	if t.mut[obj] {
		m = "mut "
	}
	o.line("let %s%s : %s := %s", m, leanIdent(id.Name), t.leanType(id.Pos(), obj.Type()), val)
}

func (t *gsTr) stmt(o gsOut, st ast.Stmt, last bool) {
	if _, ok := st.(*ast.ReturnStmt); ok && !last {
		t.fail(st.Pos(), "return before the end of the function")
	}
	o.quote(st)
	switch s := st.(type) {
	case *ast.DeclStmt:
		gd, ok := s.Decl.(*ast.GenDecl)
		if !ok || gd.Tok != token.VAR {
			t.fail(s.Pos(), "unsupported declaration")
		}
		for _, sp := range gd.Specs {
			vs := sp.(*ast.ValueSpec)
			if len(vs.Values) != 0 {
				t.fail(s.Pos(), "var with initialiser")
			}
			for _, id := range vs.Names {
				t.define(o, id, t.zeroOf(id.Pos(), t.info.Defs[id].Type()))
			}
		}
	case *ast.IncDecStmt:
		if basicKind(t.typeOf(s.X)) != types.Int {
			t.fail(s.Pos(), "++/-- on %s", t.typeOf(s.X))
		}
		op := "+"
		if s.Tok == token.DEC {
			op = "-"
		}
		t.assignTo(o, s.X, fmt.Sprintf("(%s %s (1 : Int))", t.expr(s.X), op))
	case *ast.ExprStmt:
		call, ok := s.X.(*ast.CallExpr)
		if !ok {
			t.fail(s.Pos(), "unsupported statement")
		}
		t.callStmt(o, call)
	case *ast.AssignStmt:
		t.assign(o, s)
	case *ast.IfStmt:
		if s.Init != nil {
			t.fail(s.Pos(), "if with init statement")
		}
		o.line("if %s then", t.expr(s.Cond))
		t.block(gsOut{t, o.ind + 1}, s.Body.List)
		if s.Else != nil {
			eb, ok := s.Else.(*ast.BlockStmt)
			if !ok {
				t.fail(s.Else.Pos(), "else-if")
			}
			o.line("else")
			t.block(gsOut{t, o.ind + 1}, eb.List)
		}
	case *ast.ForStmt:
		t.forStmt(o, s)
	case *ast.ReturnStmt:
		t.ret(o, s)
	default:
		t.fail(st.Pos(), "unsupported statement %T", st)
	}
}

func (t *gsTr) block(o gsOut, list []ast.Stmt) {
	if len(list) == 0 {
		o.line("pure ()")
	}
	for _, st := range list {
		t.stmt(o, st, false)
	}
}

func (t *gsTr) assign(o gsOut, s *ast.AssignStmt) {
	switch s.Tok {
	case token.DEFINE, token.ASSIGN:
		// a single call on the right
		if len(s.Rhs) == 1 {
			if call, ok := t.isCall(s.Rhs[0]); ok {
				res := t.callStmt(o, call)
				if len(res) != len(s.Lhs) {
					t.fail(s.Pos(), "assignment count mismatch")
				}
				for i, l := range s.Lhs {
					if s.Tok == token.DEFINE {
						t.define(o, l.(*ast.Ident), res[i])
					} else {
						t.assignTo(o, l, res[i])
					}
				}
				return
			}
		}
		if len(s.Lhs) != len(s.Rhs) {
			t.fail(s.Pos(), "assignment count mismatch")
		}
		// x := *p  (copy of the struct: deep, all fields are arrays or scalars)
		if len(s.Rhs) == 1 {
			if st, ok := s.Rhs[0].(*ast.StarExpr); ok {
				id, ok := t.isStructVar(st.X)
				if !ok || s.Tok != token.DEFINE {
					t.fail(s.Pos(), "unsupported dereference")
				}
				t.define(o, s.Lhs[0].(*ast.Ident), leanIdent(id.Name))
				return
			}
		}
		for _, r := range s.Rhs {
			t.noArrayView(r)
		}
		if len(s.Lhs) == 1 {
			if s.Tok == token.DEFINE {
				t.define(o, s.Lhs[0].(*ast.Ident), t.expr(s.Rhs[0]))
			} else {
				t.assignTo(o, s.Lhs[0], t.expr(s.Rhs[0]))
			}
			return
		}
		// parallel assignment: all right-hand sides first
		var tmps []string
		for i, r := range s.Rhs {
			tn := t.fresh()
			lty := t.typeOf(r)
			if id, ok := s.Lhs[i].(*ast.Ident); ok && t.info.Defs[id] != nil {
				lty = t.info.Defs[id].Type()
			} else if id, ok := s.Lhs[i].(*ast.Ident); ok && t.info.Uses[id] != nil {
				lty = t.info.Uses[id].Type()
			}
			o.line("let %s : %s := %s", tn, t.leanType(r.Pos(), lty), t.expr(r))
			tmps = append(tmps, tn)
		}
		for i, l := range s.Lhs {
			if s.Tok == token.DEFINE {
				t.define(o, l.(*ast.Ident), tmps[i])
			} else {
				if _, ok := l.(*ast.Ident); !ok {
					t.fail(l.Pos(), "parallel assignment to a non-variable")
				}
				t.assignTo(o, l, tmps[i])
			}
		}
	case token.ADD_ASSIGN, token.XOR_ASSIGN:
		if len(s.Lhs) != 1 || len(s.Rhs) != 1 {
			t.fail(s.Pos(), "unsupported assignment")
		}
		lt := t.typeOf(s.Lhs[0])
		if bvWidth(lt) == 0 && !(basicKind(lt) == types.Int && s.Tok == token.ADD_ASSIGN) {
			t.fail(s.Pos(), "%s on %s", s.Tok, lt)
		}
		op := map[token.Token]string{token.ADD_ASSIGN: "+", token.XOR_ASSIGN: "^^^"}[s.Tok]
		t.assignTo(o, s.Lhs[0], fmt.Sprintf("(%s %s %s)", t.expr(s.Lhs[0]), op, t.expr(s.Rhs[0])))
	default:
		t.fail(s.Pos(), "unsupported assignment operator %s", s.Tok)
	}
}

// a slice of an array (as opposed to a slice of a slice variable) may only be a call argument
func (t *gsTr) noArrayView(e ast.Expr) {
	ast.Inspect(e, func(n ast.Node) bool {
		if s, ok := n.(*ast.SliceExpr); ok {
			if !t.asArg[s] {
				pl := t.place(s.X)
				if pl.isArr {
					t.fail(s.Pos(), "a slice of an array is stored or returned (aliasing)")
				}
			}
		}
		return true
	})
}

func (t *gsTr) forStmt(o gsOut, s *ast.ForStmt) {
	body := gsOut{t, o.ind + 1}
	if s.Init == nil && s.Post == nil {
		// for len(v) >= C { }
		c, ok := s.Cond.(*ast.BinaryExpr)
		if !ok || c.Op != token.GEQ {
			t.fail(s.Pos(), "unsupported loop condition")
		}
		call, ok := c.X.(*ast.CallExpr)
		if !ok || len(call.Args) != 1 {
			t.fail(s.Pos(), "unsupported loop condition")
		}
		if id, ok := call.Fun.(*ast.Ident); !ok || id.Name != "len" {
			t.fail(s.Pos(), "unsupported loop condition")
		}
		tv := t.info.Types[c.Y]
		if k, ok := constant.Int64Val(tv.Value); tv.Value == nil || !ok || k < 1 {
			t.fail(s.Pos(), "unsupported loop condition")
		}
		v, ok := call.Args[0].(*ast.Ident)
		if !ok {
			t.fail(s.Pos(), "unsupported loop condition")
		}
		cond := t.expr(s.Cond)
		o.line("for _ in [0:%s.size + 1] do -- fuel", leanIdent(v.Name))
		body.line("if ¬ %s then break", cond)
		t.block(body, s.Body.List)
		o.line("if %s then (Go.Res.panic \"loop fuel exhausted\" : Go.Res Unit)", cond)
		return
	}
	// for v := A; v <= B; v++ / v < B
	init, ok := s.Init.(*ast.AssignStmt)
	if !ok || init.Tok != token.DEFINE || len(init.Lhs) != 1 {
		t.fail(s.Pos(), "unsupported loop header")
	}
	v := init.Lhs[0].(*ast.Ident)
	obj := t.info.Defs[v]
	if basicKind(obj.Type()) != types.Int {
		t.fail(s.Pos(), "loop counter is not an int")
	}
	aT := t.info.Types[init.Rhs[0]]
	cond, ok := s.Cond.(*ast.BinaryExpr)
	if !ok || aT.Value == nil {
		t.fail(s.Pos(), "unsupported loop header")
	}
	if cv, ok := cond.X.(*ast.Ident); !ok || t.info.Uses[cv] != obj {
		t.fail(s.Pos(), "unsupported loop condition")
	}
	bT := t.info.Types[cond.Y]
	if bT.Value == nil {
		t.fail(s.Pos(), "loop bound is not a constant")
	}
	a, ok1 := constant.Int64Val(aT.Value)
	b, ok2 := constant.Int64Val(bT.Value)
	if !ok1 || !ok2 || a < 0 || b < 0 || b > 1<<20 {
		t.fail(s.Pos(), "loop bounds out of range")
	}
	switch cond.Op {
	case token.LEQ:
		b++
	case token.LSS:
	default:
		t.fail(s.Pos(), "unsupported loop condition")
	}
	post, ok := s.Post.(*ast.IncDecStmt)
	if !ok || post.Tok != token.INC {
		t.fail(s.Pos(), "unsupported loop post statement")
	}
	if pv, ok := post.X.(*ast.Ident); !ok || t.info.Uses[pv] != obj {
		t.fail(s.Pos(), "unsupported loop post statement")
	}
	if t.mut[obj] {
		t.fail(s.Pos(), "the loop counter is assigned in the loop body")
	}
	name := leanIdent(v.Name)
	o.line("for %s' in [%d:%d] do", name, a, b)
	body.line("let %s : Int := %s'", name, name)
	t.block(body, s.Body.List)
}

func (t *gsTr) ret(o gsOut, s *ast.ReturnStmt) {
	fn := t.cur
	var vals []string
	if len(s.Results) == 0 {
		if len(fn.results) > 0 && !fn.resNamed {
			t.fail(s.Pos(), "bare return")
		}
		for _, r := range fn.results {
			vals = append(vals, leanIdent(r.Name()))
		}
	} else {
		if len(s.Results) != len(fn.results) {
			t.fail(s.Pos(), "return count mismatch")
		}
		for i, r := range s.Results {
			t.noArrayView(r)
			if _, ok := fn.results[i].Type().Underlying().(*types.Interface); ok && fn.results[i].Type().String() != "error" {
				// hash.Hash: the value must be the struct
				if _, ok := t.isStructVar(r); !ok {
					t.fail(r.Pos(), "interface result is not the struct")
				}
			}
			vals = append(vals, t.expr(r))
		}
	}
	t.emitReturn(o, vals)
}

func (t *gsTr) emitReturn(o gsOut, vals []string) {
	fn := t.cur
	var all []string
	if fn.recv != nil {
		all = append(all, leanIdent(fn.recv.Name()))
	}
	for i, p := range fn.params {
		if fn.inout[i] {
			all = append(all, leanIdent(p.Name()))
		}
	}
	all = append(all, vals...)
	switch len(all) {
	case 0:
		o.line("return ()")
	case 1:
		o.line("return %s", all[0])
	default:
		o.line("return (%s)", strings.Join(all, ", "))
	}
}

// ---- functions ---------------------------------------------------------------------------------------------

func (t *gsTr) retType(fn *gsFn) string {
	var all []string
	if fn.recv != nil {
		all = append(all, t.strct.Obj().Name())
	}
	for i, p := range fn.params {
		if fn.inout[i] {
			all = append(all, t.leanType(p.Pos(), p.Type()))
		}
	}
	for _, r := range fn.results {
		all = append(all, t.leanType(fn.decl.Pos(), r.Type()))
	}
	if len(all) == 0 {
		return "Unit"
	}
	return strings.Join(all, " × ")
}

// variables assigned after their declaration (they become `let mut`), per function
func (t *gsTr) collectMut(fd *ast.FuncDecl) {
	t.mut = map[types.Object]bool{}
	t.asArg = map[*ast.SliceExpr]bool{}
	mark := func(e ast.Expr) {
		for {
			switch x := e.(type) {
			case *ast.ParenExpr:
				e = x.X
				continue
			case *ast.IndexExpr:
				e = x.X
				continue
			case *ast.SliceExpr:
				e = x.X
				continue
			case *ast.SelectorExpr:
				e = x.X
				continue
			case *ast.UnaryExpr:
				e = x.X
				continue
			case *ast.StarExpr:
				e = x.X
				continue
			}
			break
		}
		if id, ok := e.(*ast.Ident); ok {
			if obj := t.info.Uses[id]; obj != nil {
				t.mut[obj] = true
			}
		}
	}
	var visit func(n ast.Node) bool
	visit = func(n ast.Node) bool {
		switch s := n.(type) {
		case *ast.ForStmt:
			// the post statement is checked by forStmt to be `v++` on the counter and is not an assignment in the body
			if s.Init != nil {
				ast.Inspect(s.Init, visit)
			}
			if s.Cond != nil {
				ast.Inspect(s.Cond, visit)
			}
			ast.Inspect(s.Body, visit)
			return false
		case *ast.AssignStmt:
			if s.Tok != token.DEFINE {
				for _, l := range s.Lhs {
					mark(l)
				}
			}
		case *ast.IncDecStmt:
			mark(s.X)
		case *ast.CallExpr:
			for _, a := range s.Args {
				if sl, ok := a.(*ast.SliceExpr); ok {
					t.asArg[sl] = true
				}
			}
			if id, ok := s.Fun.(*ast.Ident); ok {
				if b, ok := t.info.Uses[id].(*types.Builtin); ok && b.Name() == "copy" {
					mark(s.Args[0])
				}
			}
			if name, ok := t.isBigEndian(s.Fun); ok && strings.HasPrefix(name, "Put") {
				mark(s.Args[0])
			}
			if fn, recv := t.callee(s); fn != nil && !fn.pure {
				if recv != nil {
					mark(recv)
				}
				for i, a := range s.Args {
					if fn.inout[i] {
						mark(a)
					}
				}
			}
		}
		return true
	}
	ast.Inspect(fd.Body, visit)
}

func (t *gsTr) emitFn(fn *gsFn) {
	fd := fn.decl
	t.cur = fn
	t.tmp = 0
	t.checkNames(fd)
	t.collectMut(fd)
	var ps []string
	if fn.recv != nil {
		ps = append(ps, fmt.Sprintf("(%s : %s)", leanIdent(fn.recv.Name()), t.strct.Obj().Name()))
	}
	for _, p := range fn.params {
		ps = append(ps, fmt.Sprintf("(%s : %s)", leanIdent(p.Name()), t.leanType(p.Pos(), p.Type())))
	}
	pos := t.fset.Position(fd.Pos())
	fmt.Fprintf(&t.sb, "/-- sm3.go:%d  %s -/\n", pos.Line, strings.TrimSuffix(strings.TrimSpace(t.src[pos.Line-1]), "{"))
	if fn.pure {
		rs := fd.Body.List[0].(*ast.ReturnStmt)
		t.pureCx = true
		fmt.Fprintf(&t.sb, "def %s %s : %s :=\n  %s\n\n", fn.lean, strings.Join(ps, " "), t.leanType(fd.Pos(), fn.results[0].Type()), t.expr(rs.Results[0]))
		t.pureCx = false
		return
	}
	fmt.Fprintf(&t.sb, "def %s : Go.Res (%s) := do\n", strings.Join(append([]string{fn.lean}, ps...), " "), t.retType(fn))
	o := gsOut{t, 1}
	if fn.recv != nil && t.mut[fn.recv] {
		o.line("let mut %s := %s", leanIdent(fn.recv.Name()), leanIdent(fn.recv.Name()))
	}
	for i, p := range fn.params {
		if t.mut[p] || fn.inout[i] {
			o.line("let mut %s := %s", leanIdent(p.Name()), leanIdent(p.Name()))
		}
	}
	if fn.resNamed {
		for _, r := range fn.results {
			m := ""
			if t.mut[r] {
				m = "mut "
			}
			o.line("let %s%s : %s := %s", m, leanIdent(r.Name()), t.leanType(fd.Pos(), r.Type()), t.zeroOf(fd.Pos(), r.Type()))
		}
	}
	n := len(fd.Body.List)
	hasRet := false
	for i, st := range fd.Body.List {
		t.stmt(o, st, i == n-1)
		if _, ok := st.(*ast.ReturnStmt); ok {
			hasRet = true
		}
	}
	if !hasRet {
		if len(fn.results) != 0 {
			t.fail(fd.End(), "missing return")
		}
		t.emitReturn(o, nil)
	}
	t.sb.WriteString("\n")
}

// does the function write through parameter p / which receiver fields does it write (one pass; callers iterate)
func (t *gsTr) scanWrites(fn *gsFn) bool {
	changed := false
	setField := func(f string) {
		if !fn.writes[f] {
			fn.writes[f] = true
			changed = true
		}
	}
	target := func(e ast.Expr) {
		// the variable or receiver field written by a store to e (e is an lvalue or a slice used as destination)
		for {
			switch x := e.(type) {
			case *ast.ParenExpr:
				e = x.X
				continue
			case *ast.IndexExpr:
				e = x.X
				continue
			case *ast.SliceExpr:
				e = x.X
				continue
			case *ast.UnaryExpr:
				e = x.X
				continue
			}
			break
		}
		switch x := e.(type) {
		case *ast.SelectorExpr:
			if id, ok := x.X.(*ast.Ident); ok && fn.recv != nil && t.info.Uses[id] == types.Object(fn.recv) {
				setField(x.Sel.Name)
			}
		case *ast.Ident:
			obj := t.info.Uses[x]
			for i, p := range fn.params {
				if types.Object(p) == obj {
					_, isSl := p.Type().Underlying().(*types.Slice)
					_, isPtr := p.Type().Underlying().(*types.Pointer)
					if (isSl || isPtr) && !fn.inout[i] {
						fn.inout[i] = true
						changed = true
					}
				}
			}
		}
	}
	ast.Inspect(fn.decl.Body, func(n ast.Node) bool {
		switch s := n.(type) {
		case *ast.AssignStmt:
			if s.Tok != token.DEFINE {
				for _, l := range s.Lhs {
					if _, ok := l.(*ast.Ident); ok {
						continue // rebinding a local (e.g. data = data[k:]) writes no memory
					}
					target(l)
				}
			}
		case *ast.IncDecStmt:
			if _, ok := s.X.(*ast.Ident); !ok {
				target(s.X)
			}
		case *ast.CallExpr:
			if id, ok := s.Fun.(*ast.Ident); ok {
				if b, ok := t.info.Uses[id].(*types.Builtin); ok && b.Name() == "copy" {
					target(s.Args[0])
				}
			}
			if name, ok := t.isBigEndian(s.Fun); ok && strings.HasPrefix(name, "Put") {
				target(s.Args[0])
			}
			if cal, recv := t.callee(s); cal != nil {
				if recv != nil {
					if id, ok := recv.(*ast.Ident); ok && fn.recv != nil && t.info.Uses[id] == types.Object(fn.recv) {
						for f := range cal.writes {
							setField(f)
						}
					}
				}
				for i, a := range s.Args {
					if i < len(cal.inout) && cal.inout[i] {
						target(a)
					}
				}
			}
		}
		return true
	})
	return changed
}

func (t *gsTr) isPure(fd *ast.FuncDecl) bool {
	if len(fd.Body.List) != 1 {
		return false
	}
	rs, ok := fd.Body.List[0].(*ast.ReturnStmt)
	if !ok || len(rs.Results) != 1 {
		return false
	}
	pure := true
	ast.Inspect(rs.Results[0], func(n ast.Node) bool {
		switch n.(type) {
		case *ast.IndexExpr, *ast.SliceExpr, *ast.StarExpr:
			pure = false
		}
		return true
	})
	return pure
}

func genGoSM3() {
	writeIfChanged("SM3Code.lean", gsTranslate(repo))
}

// gsTranslate is the translator proper: the text of Gen/SM3Code.lean for the sm3/sm3.go below repoDir
func gsTranslate(repoDir string) []byte {
	rel := "sm3/sm3.go"
	path := filepath.Join(repoDir, rel)
	fset := token.NewFileSet()
	f, err := parser.ParseFile(fset, path, nil, parser.ParseComments)
	if err != nil {
		gsDie("%v", err)
	}
	srcBytes, err := os.ReadFile(path)
	if err != nil {
		gsDie("%v", err)
	}
	info := &types.Info{Types: map[ast.Expr]types.TypeAndValue{}, Defs: map[*ast.Ident]types.Object{},
		Uses: map[*ast.Ident]types.Object{}, Selections: map[*ast.SelectorExpr]*types.Selection{}}
	conf := types.Config{Importer: importer.ForCompiler(fset, "source", nil)}
	pkg, err := conf.Check("sm3", fset, []*ast.File{f}, info)
	if err != nil {
		gsDie("type-check %s: %v", rel, err)
	}
	t := &gsTr{fset: fset, info: info, pkg: pkg, src: strings.Split(string(srcBytes), "\n"), fns: map[types.Object]*gsFn{}}

	// the struct
	for _, d := range f.Decls {
		gd, ok := d.(*ast.GenDecl)
		if !ok {
			continue
		}
		switch gd.Tok {
		case token.IMPORT, token.CONST:
		case token.TYPE:
			for _, sp := range gd.Specs {
				ts := sp.(*ast.TypeSpec)
				named, _ := info.Defs[ts.Name].Type().(*types.Named)
				if _, ok := named.Underlying().(*types.Struct); !ok || t.strct != nil {
					t.fail(ts.Pos(), "unsupported type declaration")
				}
				t.strct = named
			}
		case token.VAR:
		default:
			t.fail(gd.Pos(), "unsupported declaration")
		}
	}
	if t.strct == nil {
		gsDie("%s: no struct type", rel)
	}
	sname := t.strct.Obj().Name()
	st := t.strct.Underlying().(*types.Struct)

	fmt.Fprintf(&t.sb, "/- GENERATED by /verif/go/cmd/translate (gosm3) from %s — do not edit.\n   One definition per Go function, one `do` statement group per Go statement (quoted above it with its line).\n   Vocabulary and representation of types: SMGo/Model/GoPrelude.lean. -/\nimport SMGo.Model.GoPrelude\nset_option maxRecDepth 100000\nset_option linter.unusedVariables false\nnamespace SMGo.Gen.SM3Code\nopen SMGo\n\n", rel)
	fmt.Fprintf(&t.sb, "/-- type %s struct -/\nstructure %s where\n", sname, sname)
	var zs []string
	for i := 0; i < st.NumFields(); i++ {
		fl := st.Field(i)
		switch fl.Type().Underlying().(type) {
		case *types.Basic, *types.Array:
		default:
			t.fail(fl.Pos(), "struct field %s: only scalars and arrays (a struct copy must be deep)", fl.Name())
		}
		fmt.Fprintf(&t.sb, "  %s : %s -- %s\n", leanIdent(fl.Name()), t.leanType(fl.Pos(), fl.Type()), fl.Type())
		zs = append(zs, fmt.Sprintf("%s := %s", leanIdent(fl.Name()), t.zeroOf(fl.Pos(), fl.Type())))
	}
	fmt.Fprintf(&t.sb, "deriving DecidableEq, Repr\n\n/-- the zero value of the struct (`new(%s)`, `var v %s`) -/\ndef %s.zero : %s :=\n  { %s }\n\n", sname, sname, sname, sname, strings.Join(zs, ", "))

	// package-level variables: arrays of integer literals, never written (checked at every store)
	for _, d := range f.Decls {
		gd, ok := d.(*ast.GenDecl)
		if !ok || gd.Tok != token.VAR {
			continue
		}
		for _, sp := range gd.Specs {
			vs := sp.(*ast.ValueSpec)
			if len(vs.Names) != 1 || len(vs.Values) != 1 {
				t.fail(vs.Pos(), "unsupported var declaration")
			}
			cl, ok := vs.Values[0].(*ast.CompositeLit)
			arr, ok2 := info.Defs[vs.Names[0]].Type().Underlying().(*types.Array)
			if !ok || !ok2 || int64(len(cl.Elts)) != arr.Len() {
				t.fail(vs.Pos(), "unsupported var initialiser")
			}
			var els []string
			for _, el := range cl.Elts {
				tv := info.Types[el]
				if _, keyed := el.(*ast.KeyValueExpr); keyed || tv.Value == nil {
					t.fail(el.Pos(), "unsupported array element")
				}
				els = append(els, t.constLit(el, tv.Value, arr.Elem()))
			}
			fmt.Fprintf(&t.sb, "/-- sm3.go:%d  var %s -/\ndef %s : %s :=\n  #[", fset.Position(vs.Pos()).Line, vs.Names[0].Name, leanIdent(vs.Names[0].Name), t.leanType(vs.Pos(), arr))
			for i, e := range els {
				if i > 0 {
					if i%8 == 0 {
						t.sb.WriteString(",\n    ")
					} else {
						t.sb.WriteString(", ")
					}
				}
				t.sb.WriteString(e)
			}
			t.sb.WriteString("]\n\n")
		}
	}

	// function table
	for _, d := range f.Decls {
		fd, ok := d.(*ast.FuncDecl)
		if !ok {
			continue
		}
		if fd.Body == nil {
			t.fail(fd.Pos(), "function without body")
		}
		obj := info.Defs[fd.Name].(*types.Func)
		sig := obj.Type().(*types.Signature)
		fn := &gsFn{decl: fd, lean: leanIdent(fd.Name.Name), writes: map[string]bool{}}
		if sig.Recv() != nil {
			p, ok := sig.Recv().Type().(*types.Pointer)
			if !ok || p.Elem() != types.Type(t.strct) {
				t.fail(fd.Pos(), "receiver must be *%s", sname)
			}
			fn.recv = sig.Recv()
			fn.lean = sname + "." + fn.lean
		}
		if sig.Variadic() {
			t.fail(fd.Pos(), "variadic function")
		}
		for i := 0; i < sig.Params().Len(); i++ {
			fn.params = append(fn.params, sig.Params().At(i))
		}
		fn.inout = make([]bool, len(fn.params))
		for i := 0; i < sig.Results().Len(); i++ {
			r := sig.Results().At(i)
			fn.results = append(fn.results, r)
			if r.Name() != "" {
				fn.resNamed = true
			}
		}
		fn.pure = t.isPure(fd)
		t.fns[obj] = fn
		t.order = append(t.order, fn)
	}
	for changed := true; changed; {
		changed = false
		for _, fn := range t.order {
			if t.scanWrites(fn) {
				changed = true
			}
		}
	}
	for _, fn := range t.order {
		if fn.pure && (len(fn.writes) > 0) {
			t.fail(fn.decl.Pos(), "internal: pure function writes")
		}
	}
	// definitions must precede their uses in Lean: emit in dependency order (no recursion in the subset)
	emitted := map[*gsFn]bool{}
	var visit func(fn *gsFn, stack []*gsFn)
	visit = func(fn *gsFn, stack []*gsFn) {
		if emitted[fn] {
			return
		}
		for _, s := range stack {
			if s == fn {
				t.fail(fn.decl.Pos(), "recursive function")
			}
		}
		var deps []*gsFn
		ast.Inspect(fn.decl.Body, func(n ast.Node) bool {
			if c, ok := n.(*ast.CallExpr); ok {
				if cal, _ := t.callee(c); cal != nil {
					deps = append(deps, cal)
				}
			}
			return true
		})
		sort.SliceStable(deps, func(i, j int) bool { return deps[i].decl.Pos() < deps[j].decl.Pos() })
		for _, dfn := range deps {
			visit(dfn, append(stack, fn))
		}
		emitted[fn] = true
		t.emitFn(fn)
	}
	for _, fn := range t.order {
		visit(fn, nil)
	}
	fmt.Fprintf(&t.sb, "end SMGo.Gen.SM3Code\n")
	if len(t.order) < 8 {
		gsDie("%s: only %d functions translated", rel, len(t.order))
	}
	return []byte(t.sb.String())
}

func init() {
	extraCmds["gosm3"] = genGoSM3
}
