// Package inner is the "other package" of the gofacts self-test fixture: exported package-level
// variables written from package fix, and an accessor used from package fix.
package inner

import "math/big"

var Foo int
var Tab [8]int
var secret = big.NewInt(42)

// Get is an accessor: every return statement returns an expression rooted at a package-level variable.
func Get() *big.Int { return secret }

// Fresh is not an accessor.
func Fresh() *big.Int { return new(big.Int).Set(secret) } // want: farg secret (*math/big.Int).Set 0
