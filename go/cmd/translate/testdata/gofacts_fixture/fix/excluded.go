//go:build ignore

package fix

// never built: must not be analysed (and must not break type checking)
func archWrite() { counter = undefinedName }
