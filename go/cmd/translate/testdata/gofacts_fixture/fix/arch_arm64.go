//go:build arm64

package fix

// only in the arm64 configuration
func archWrite() {
	one.SetInt64(64) // want: call one SetInt64
}
