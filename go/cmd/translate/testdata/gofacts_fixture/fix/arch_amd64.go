package fix

// only in the amd64 configuration (file name suffix)
func archWrite() {
	counter = 64 // want: write counter
}
