//go:build !amd64 && !arm64

package fix

// only in the configuration without assembly
func archWrite() {
	table[5] = 1 // want: write table
}
