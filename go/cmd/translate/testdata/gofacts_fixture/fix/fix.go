// Package fix is the self-test fixture of the gofacts extractor (/verif/go/cmd/translate/gofacts.go).
//
// Every line that must produce facts carries a marker
//
//	// want: <fact>; <fact>; ...
//
// where <fact> is one of `write VAR`, `call VAR METHOD`, `fcall VAR METHOD` (method call on a
// package-level variable of a package outside the module), `addr VAR`.  A line marked `// benign` is a
// look-alike that must produce NO fact.  A line without marker must produce no fact either.  The
// extractor is run on this package before it is run on the library, and the translator refuses to emit
// unless the reported facts are exactly the marked ones.
package fix

import (
	"bytes"
	"crypto/subtle"
	"encoding/binary"
	"io"
	"math/big"

	"fixture/inner"
)

var n = big.NewInt(7)
var one = big.NewInt(1)
var table [16]byte
var sl = []int{1, 2, 3}
var m = map[string]int{}
var counter int
var cur curve
var ptr *[16]byte
var cb func()
var st state

type state struct {
	n    int
	list []int
}

type curve struct{ params *params }
type params struct{ N *big.Int }

func (c curve) Params() *params { return c.params }

type holder struct{}

// method accessor
func (holder) Table() *[16]byte { return &table } // want: addr table

// ---- hole 3: function literal in a package-level initialiser (runs whenever hook is called)
var hook = func() { counter = 1 } // want: write counter

var hookNested = func() func() {
	return func() {
		one.SetInt64(11) // want: call one SetInt64
	}
}

// the initialiser expression itself is initialisation
var derived = new(big.Int).Add(n, one) // benign
var nLen = n.BitLen()                  // benign

// ---- accessors (one-level summaries)
func getCurve() curve     { return cur }
func getN() *big.Int      { return n }
func getN2() *big.Int     { return getN() }
func tablePtr() *[16]byte { return &table } // want: addr table
func tableSlice(long bool) []byte {
	if long {
		return table[:] // want: addr table
	}
	return table[:4] // want: addr table
}
func counterValue() int { return counter } // benign
func maybeN(flag bool) *big.Int {
	if flag {
		return new(big.Int)
	}
	return n
}

// ---- initialisation: nothing is reported here
func init() {
	counter = 5     // benign
	one.SetInt64(1) // benign
	setup()         // benign
	cb = func() {   // benign
		counter = 9 // want: write counter
	}
}

// init-only: unexported, called only from init and from setup2 (itself init-only)
func setup() {
	table[0] = 1        // benign
	n.SetInt64(7)       // benign
	copy(table[:], "x") // benign
}

var fromSetup2 = setup2()

func setup2() int {
	setup()
	inner.Foo = 3 // benign
	return 1
}

// NOT init-only: also referenced as a function value
func notInitOnly() {
	counter = 2 // want: write counter
}

var keep = notInitOnly

func init() { notInitOnly() }

// NOT init-only: called from a function literal created in init
func calledFromLit() {
	counter = 3 // want: write counter
}

func init() {
	cb = func() { calledFromLit() }
}

// ---- hole 1: scope-insensitive shadowing
func Shadow(flag bool) {
	if flag {
		n := 1 // benign
		n = 2  // benign
		n++    // benign
		_ = n
	}
	n.SetInt64(0) // want: call n SetInt64
	{
		one := big.NewInt(3) // benign
		one.SetInt64(4)      // benign
		_ = one
	}
	one.SetInt64(0)                            // want: call one SetInt64
	n = nil                                    // want: write n
	for counter := 0; counter < 3; counter++ { // benign
	}
	counter = 7 // want: write counter
}

func shadowParam(one *big.Int, table []byte) {
	one.SetInt64(5) // benign
	table[0] = 1    // benign
}

func shadowLater() {
	counter = 8  // want: write counter
	counter := 0 // benign
	counter++    // benign
	_ = counter
}

func (s *state) method(n int) {
	s.n = n                    // benign
	s.list[0] = 1              // benign
	s.list = append(s.list, n) // benign
}

// ---- hole 2: receivers rooted in a call
func ThroughCall() {
	getCurve().Params().N.SetInt64(0) // want: call cur Params; call cur SetInt64
	getN().SetInt64(1)                // want: call n SetInt64
	getN2().SetInt64(2)               // want: call n SetInt64
	(getN()).Add(one, one)            // want: call n Add; farg one (*math/big.Int).Add 0; farg one (*math/big.Int).Add 1
	tablePtr()[0] = 1                 // want: write table
	tableSlice(true)[1] = 2           // want: write table
	holder{}.Table()[2] = 3           // want: write table
	*tablePtr() = [16]byte{}          // want: write table
	inner.Get().SetInt64(0)           // want: call inner.secret SetInt64
	inner.Fresh().SetInt64(0)         // benign
	maybeN(true).SetInt64(0)          // want: call n SetInt64
	cur.Params().N.Cmp(one)           // want: call cur Params; call cur Cmp; farg one (*math/big.Int).Cmp 0
	cur.params.N.SetInt64(3)          // want: call cur SetInt64
	_ = counterValue()                // benign
}

// ---- hole 4: range-assign targets
func RangeAssign(src []byte) {
	var i int
	for i, table[0] = range src { // want: write table
	}
	for counter = range src { // want: write counter
	}
	for i = range src { // benign
	}
	for j, b := range table { // benign
		_, _ = j, b
	}
	_ = i
}

// ---- hole 5: another package's variables
func OtherPackage() {
	inner.Foo = 1                                  // want: write inner.Foo
	inner.Tab[3] = 2                               // want: write inner.Tab
	inner.Foo++                                    // want: write inner.Foo
	_ = inner.Tab[2]                               // benign
	binary.BigEndian.PutUint32(make([]byte, 4), 1) // want: fcall encoding/binary.BigEndian PutUint32
}

// ---- ordinary write forms
func Ordinary(src []byte) {
	counter++                  // want: write counter
	counter--                  // want: write counter
	counter += 2               // want: write counter
	counter, st.n = 1, 2       // want: write counter; write st
	table[1] = 3               // want: write table
	(table)[1] = 3             // want: write table
	copy(table[:], src)        // want: write table; addr table
	copy(table[2:4], src)      // want: write table; addr table
	copy(sl, sl[1:])           // want: write sl
	copy(src, table[:])        // want: addr table
	sl = append(sl, 1)         // want: write sl
	_ = append(sl[:0], 2)      // want: write sl
	sl[0] = 4                  // want: write sl
	clear(m)                   // want: write m
	delete(m, "a")             // want: write m
	m["a"] = 1                 // want: write m
	*ptr = [16]byte{}          // want: write ptr
	ptr[0] = 1                 // want: write ptr
	(*ptr)[0] = 1              // want: write ptr
	st.list[0] = 1             // want: write st
	st.list = nil              // want: write st
	cur.params.N = nil         // want: write cur
	cur = curve{}              // want: write cur
	func() { counter-- }()     // want: write counter
	go func() { m["b"] = 2 }() // want: write m
	defer func() { sl[1]++ }() // want: write sl
}

// ---- method calls, method values, method expressions
func Methods(x *big.Int) int {
	n.Cmp(one)                                           // want: call n Cmp; farg one (*math/big.Int).Cmp 0
	f := one.SetInt64                                    // want: call one SetInt64
	f(3)                                                 // benign
	(*big.Int).SetInt64(one, 3)                          // want: call one SetInt64
	(*big.Int).SetInt64(x, 3)                            // benign
	x.Add(n, one)                                        // want: farg n (*math/big.Int).Add 0; farg one (*math/big.Int).Add 1
	x.SetInt64(9)                                        // benign
	y := new(big.Int).Set(n)                             // want: farg n (*math/big.Int).Set 0
	y.SetInt64(1)                                        // benign
	st.reset()                                           // want: call st reset
	(&st).reset()                                        // want: call st reset; addr st
	return n.BitLen() + len(sl) + int(table[3]) + m["a"] // want: call n BitLen
}

func (s *state) reset() { s.n = 0 } // want: write st

// ---- address taking
func Addr() (*byte, *int, []byte) {
	p := &table[2]   // want: addr table
	q := &counter    // want: addr counter
	r := &st.list[0] // want: addr st
	k := &state{}    // benign
	local := [4]byte{}
	_ = local[:] // benign
	_, _ = r, k
	return p, q, table[1:3] // want: addr table
}

// ---- reads only
func Reads() int {
	s := 0
	for i := range table { // benign
		s += int(table[i]) // benign
	}
	for _, v := range sl { // benign
		s += v
	}
	if n.Sign() > 0 { // want: call n Sign
		s++
	}
	return s + st.n + len(m) + counter // benign
}

// ---- local aliases (flow-insensitive; parameters are not tracked)
var ptrs = []*state{{}}

func Aliases(src []byte) {
	p := one                 // benign
	p.SetInt64(0)            // want: call one SetInt64
	t := table[:]            // want: addr table
	t[0] = 1                 // want: write table
	copy(t, src)             // want: write table
	q := &st                 // want: addr st
	q.n = 1                  // want: write st
	var r = sl               // benign
	r[0]++                   // want: write sl
	c := getCurve()          // benign
	c.Params().N.SetInt64(0) // want: call cur Params; call cur SetInt64
	k := counter             // benign
	k++                      // benign
	for _, e := range ptrs { // benign
		e.n = 1 // want: write ptrs
	}
	var late *big.Int
	late.SetInt64(2)             // want: call n SetInt64
	late = n                     // benign
	fresh := new(big.Int).Set(n) // want: farg n (*math/big.Int).Set 0
	fresh.SetInt64(1)            // benign
	t = src                      // benign
	p = nil                      // benign
	_ = &p                       // benign
}

// ---- interprocedural: a parameter stands for every package-level variable some call site passes for it

// writes through its parameter; receives table (from Inter, and through forward) and a local
func scribble(dst []byte) {
	dst[0] = 1 // want: write table
}

// two-level forwarding
func forward(p []byte) { scribble(p[1:]) }

// only reads its parameter
func readOnly(p []byte) int { return int(p[0]) + len(p) } // benign

// a method of a type of the module, package-level arguments written through
func (s *state) fill(src *big.Int, out []int) {
	out[0] = src.BitLen() // want: write sl; call n BitLen
	src.SetInt64(1)       // want: call n SetInt64
	s.n = 1               // benign
}

func variadic(ps ...*big.Int) {
	ps[0].SetInt64(0) // want: call n SetInt64; call one SetInt64
}

// returns its parameter: instantiated at each call site
func chain(p *big.Int) *big.Int { return p }

func pair() (*big.Int, []byte) { return one, table[:] } // want: addr table

// called with a package-level variable from initialisation AND with a local at run time: context-insensitive
func both(p *big.Int) {
	p.SetInt64(2) // want: call one SetInt64
}

func init() { both(one) }

// stores a pointer into a package-level variable in a local structure
type box struct{ v *big.Int }

func Inter(local []byte) {
	scribble(table[:]) // want: addr table
	forward(table[2:]) // want: addr table
	scribble(local)    // benign
	readOnly(table[:]) // want: addr table
	var s state
	s.fill(n, sl)                   // benign
	variadic(n, one)                // benign
	chain(one).SetInt64(5)          // want: call one SetInt64
	chain(new(big.Int)).SetInt64(5) // benign
	both(new(big.Int))              // benign
	a, b := pair()                  // benign
	a.SetInt64(6)                   // want: call one SetInt64
	b[0] = 1                        // want: write table
	bx := box{v: n}                 // benign
	bx.v.SetInt64(7)                // want: call n SetInt64
	var by box
	by.v = one                                  // benign
	by.v.SetInt64(8)                            // want: call one SetInt64
	func(p []byte) { p[1] = 2 }(table[:])       // want: addr table; write table
	new(big.Int).Mod(n, one)                    // want: farg n (*math/big.Int).Mod 0; farg one (*math/big.Int).Mod 1
	subtle.ConstantTimeCompare(table[:], local) // want: addr table; farg table crypto/subtle.ConstantTimeCompare 0
	subtle.ConstantTimeCompare(local, local)    // benign
	var r io.Reader = bytes.NewReader(local)
	r.Read(sl8) // want: farg sl8 (io.Reader).Read 0
	fv := readOnly
	fv(sl8) // want: farg sl8 (dynamic) 0
}

var sl8 = []byte{1, 2, 3}

// ---- interface dispatch to a method of the module
type sink struct{ last byte }

func (k *sink) Write(p []byte) (int, error) {
	p[0] = k.last // want: write sl8
	return len(p), nil
}

func Dispatch(wr io.Writer) {
	wr.Write(sl8) // want: farg sl8 (io.Writer).Write 0
}

var _ io.Writer = (*sink)(nil)
