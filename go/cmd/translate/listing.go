package main

// Macro-expanded assembler listings (sub-command "listing"): runs `go tool asm -S` on the assembly
// files of /repo/sm4 for amd64 and arm64 and emits every routine as a `List Instr` (pc, mnemonic,
// parsed operands), in chunks.  DATA/GLOBL symbols of the same files are emitted by "asmdata".

import (
	"bufio"
	"bytes"
	"fmt"
	"os"
	"os/exec"
	"path/filepath"
	"regexp"
	"strconv"
	"strings"
)

type lstInstr struct {
	pc   int
	line int
	mn   string
	ops  []string
}

type lstFunc struct {
	name   string
	args   int
	instrs []lstInstr
}

var lstLineRe = regexp.MustCompile(`^\t0x[0-9a-f]+ (\d+) \(([^:]+):(\d+)\)\t(\S+)(?:\t(.*))?$`)
var lstHeadRe = regexp.MustCompile(`^sm4\.(\S+) STEXT .* args=0x([0-9a-f]+)`)

func splitOperands(s string) []string {
	var out []string
	depth := 0
	cur := ""
	for _, r := range s {
		switch {
		case r == '[' || r == '(':
			depth++
			cur += string(r)
		case r == ']' || r == ')':
			depth--
			cur += string(r)
		case r == ',' && depth == 0:
			out = append(out, strings.TrimSpace(cur))
			cur = ""
		default:
			cur += string(r)
		}
	}
	if strings.TrimSpace(cur) != "" {
		out = append(out, strings.TrimSpace(cur))
	}
	return out
}

func runAsmListing(goarch, file string) []lstFunc {
	tmp, err := os.MkdirTemp("", "verif-asm-")
	if err != nil {
		die("%v", err)
	}
	defer os.RemoveAll(tmp)
	goroot, err := exec.Command("go", "env", "GOROOT").Output()
	if err != nil {
		die("go env GOROOT: %v", err)
	}
	cmd := exec.Command("go", "tool", "asm", "-S", "-I", filepath.Join(strings.TrimSpace(string(goroot)), "pkg", "include"),
		"-I", filepath.Join(repo, "sm4"), "-p", "sm4", "-o", filepath.Join(tmp, "x.o"), filepath.Join(repo, "sm4", file))
	cmd.Env = append(os.Environ(), "GOARCH="+goarch, "GOOS=linux")
	out, err := cmd.CombinedOutput()
	if err != nil {
		die("go tool asm %s (%s): %v\n%s", file, goarch, err, out)
	}
	var funcs []lstFunc
	sc := bufio.NewScanner(bytes.NewReader(out))
	sc.Buffer(make([]byte, 1<<20), 1<<24)
	for sc.Scan() {
		line := sc.Text()
		if m := lstHeadRe.FindStringSubmatch(line); m != nil {
			a, _ := strconv.ParseInt(m[2], 16, 64)
			funcs = append(funcs, lstFunc{name: m[1], args: int(a)})
			continue
		}
		m := lstLineRe.FindStringSubmatch(line)
		if m == nil || len(funcs) == 0 {
			continue
		}
		mn := m[4]
		if mn == "TEXT" || mn == "FUNCDATA" || mn == "PCDATA" {
			continue
		}
		pc, _ := strconv.Atoi(m[1])
		ln, _ := strconv.Atoi(m[3])
		f := &funcs[len(funcs)-1]
		f.instrs = append(f.instrs, lstInstr{pc: pc, line: ln, mn: mn, ops: splitOperands(m[5])})
	}
	return funcs
}

var (
	reImm     = regexp.MustCompile(`^\$(-?(?:0x[0-9a-fA-F]+|\d+))$`)
	reSymAddr = regexp.MustCompile(`^\$?([A-Za-z_][A-Za-z0-9_.]*)<>(?:\+(\d+))?\(SB\)$`)
	reFrame   = regexp.MustCompile(`^([A-Za-z_][A-Za-z0-9_]*)(?:\+(\d+))?\(FP\)$`)
	reMem     = regexp.MustCompile(`^(-?\d+)?\(([A-Z0-9]+)\)(?:\(([A-Z0-9]+)\*(\d)\))?$`)
	reMemPost = regexp.MustCompile(`^(-?\d+)?\(([A-Z0-9]+)\)\.?!?$`)
	reTarget  = regexp.MustCompile(`^\d+$`)
	reVecArr  = regexp.MustCompile(`^(V\d+)\.[A-Z]\d*(?:\[\d+\])?$`)
)

func leanReg(arch, r string) (string, bool) {
	gprs := map[string]int{"AX": 0, "CX": 1, "DX": 2, "BX": 3, "SP": 4, "BP": 5, "SI": 6, "DI": 7,
		"AL": 0, "CL": 1, "DL": 2, "BL": 3, "SPB": 4, "BPB": 5, "SIB": 6, "DIB": 7}
	if arch == "amd64" && strings.HasPrefix(r, "R") && strings.HasSuffix(r, "B") {
		if n, err := strconv.Atoi(r[1 : len(r)-1]); err == nil && n >= 8 && n <= 15 {
			return fmt.Sprintf(".gpr %d", n), true
		}
	}
	if arch == "amd64" {
		if n, ok := gprs[r]; ok {
			return fmt.Sprintf(".gpr %d", n), true
		}
		if strings.HasPrefix(r, "R") {
			if n, err := strconv.Atoi(r[1:]); err == nil && n >= 8 && n <= 15 {
				return fmt.Sprintf(".gpr %d", n), true
			}
		}
		if len(r) >= 2 && (r[0] == 'X' || r[0] == 'Y' || r[0] == 'Z') {
			if n, err := strconv.Atoi(r[1:]); err == nil && n < 32 {
				return fmt.Sprintf(".vec %d", n), true
			}
		}
		if len(r) == 2 && r[0] == 'K' {
			if n, err := strconv.Atoi(r[1:]); err == nil && n < 8 {
				return fmt.Sprintf(".k %d", n), true
			}
		}
		return "", false
	}
	// arm64
	if r == "RSP" {
		return ".gpr 31", true
	}
	if r == "ZR" {
		return ".gpr 32", true
	}
	if strings.HasPrefix(r, "R") {
		if n, err := strconv.Atoi(r[1:]); err == nil && n <= 30 {
			return fmt.Sprintf(".gpr %d", n), true
		}
	}
	if m := reVecArr.FindStringSubmatch(r); m != nil {
		r = m[1]
	}
	if strings.HasPrefix(r, "V") || strings.HasPrefix(r, "F") {
		if n, err := strconv.Atoi(r[1:]); err == nil && n < 32 {
			return fmt.Sprintf(".vec %d", n), true
		}
	}
	return "", false
}

func leanOperand(arch, mn, o string) string {
	if m := reImm.FindStringSubmatch(o); m != nil {
		v, err := strconv.ParseInt(m[1], 0, 64)
		if err != nil {
			u, err2 := strconv.ParseUint(m[1], 0, 64)
			if err2 != nil {
				die("immediate %q", o)
			}
			v = int64(u)
		}
		return fmt.Sprintf(".imm (%d)", v)
	}
	if m := reSymAddr.FindStringSubmatch(o); m != nil {
		off := 0
		if m[2] != "" {
			off, _ = strconv.Atoi(m[2])
		}
		if strings.HasPrefix(o, "$") {
			return fmt.Sprintf(".symAddr %q %d", m[1], off)
		}
		return fmt.Sprintf(".sym %q %d", m[1], off)
	}
	if m := reFrame.FindStringSubmatch(o); m != nil {
		off := 0
		if m[2] != "" {
			off, _ = strconv.Atoi(m[2])
		}
		return fmt.Sprintf(".frame %q %d", m[1], off)
	}
	if strings.HasPrefix(o, "[") && strings.HasSuffix(o, "]") {
		// arm64 register list
		var regs []string
		for _, r := range splitOperands(o[1 : len(o)-1]) {
			lr, ok := leanReg(arch, r)
			if !ok {
				die("register list %q", o)
			}
			regs = append(regs, lr)
		}
		return "(.regs [" + strings.Join(regs, ", ") + "])"
	}
	if m := reMem.FindStringSubmatch(o); m != nil {
		disp := 0
		if m[1] != "" {
			disp, _ = strconv.Atoi(m[1])
		}
		base, ok := leanReg(arch, m[2])
		if !ok {
			die("memory operand base %q", o)
		}
		idx := "none"
		scale := 0
		if m[3] != "" {
			ir, ok := leanReg(arch, m[3])
			if !ok {
				die("memory operand index %q", o)
			}
			idx = "(some (" + ir + "))"
			scale, _ = strconv.Atoi(m[4])
		}
		return fmt.Sprintf(".mem (%s) %s %d (%d)", base, idx, scale, disp)
	}
	if r, ok := leanReg(arch, o); ok {
		return ".reg (" + r + ")"
	}
	if reTarget.MatchString(o) {
		return ".target " + o
	}
	die("%s: unsupported operand %q of %s", arch, o, mn)
	return ""
}

// vecWidth is the widest vector register named by the operands, in bytes (amd64: X=16, Y=32, Z=64;
// arm64: by arrangement, B16/H8/S4/D2/Q1 = 16, B8/H4/S2/D1 = 8); 0 when no vector register occurs.
func vecWidth(arch string, ops []string) int {
	w := 0
	upd := func(v int) {
		if v > w {
			w = v
		}
	}
	reA64 := regexp.MustCompile(`V\d+\.([BHSDQ])(\d+)`)
	for _, o := range ops {
		if arch == "amd64" {
			if len(o) >= 2 && (o[0] == 'X' || o[0] == 'Y' || o[0] == 'Z') {
				if _, err := strconv.Atoi(o[1:]); err == nil {
					upd(map[byte]int{'X': 16, 'Y': 32, 'Z': 64}[o[0]])
				}
			}
			continue
		}
		for _, m := range reA64.FindAllStringSubmatch(o, -1) {
			n, _ := strconv.Atoi(m[2])
			upd(n * map[string]int{"B": 1, "H": 2, "S": 4, "D": 8, "Q": 16}[m[1]])
		}
	}
	return w
}

// arrSuffix is the NEON arrangement / element specifier of an arm64 operand: "B16", "S4", "D2", "S[1]", … for
// `Vn.<suffix>`; for a register list `[Va.T, Vb.T, …]` the common specifier of its members (they must agree);
// "" for every operand that is not a vector register with a specifier.
func arrSuffix(mn, o string) string {
	one := func(r string) string {
		if m := reVecArrSfx.FindStringSubmatch(r); m != nil {
			return m[1]
		}
		return ""
	}
	if strings.HasPrefix(o, "[") && strings.HasSuffix(o, "]") {
		sfx := ""
		for i, r := range splitOperands(o[1 : len(o)-1]) {
			x := one(r)
			if i > 0 && x != sfx {
				die("register list %q of %s: mixed arrangements", o, mn)
			}
			sfx = x
		}
		return sfx
	}
	return one(o)
}

var reVecArrSfx = regexp.MustCompile(`^V\d+\.([A-Z]\d*(?:\[\d+\])?)$`)

// emitArr writes module+"Arr": for every routine `r` of the arm64 listing a definition
// `r_arr : List (List String)`, one entry per instruction of `r` (same order, same length), each the list of
// the arrangement specifiers of its operands (see arrSuffix).  The `Instr` listing itself drops them.
func emitArr(funcs []lstFunc, file, arch, module string) {
	var sb strings.Builder
	fmt.Fprintf(&sb, "/- GENERATED by /verif/go/cmd/translate (listing) from `go tool asm -S` of sm4/%s, GOARCH=%s — do not edit.\n   NEON arrangement / element specifiers of every operand of every instruction of SMGo/Gen/%s.lean\n   (same routines, same order, same length): \"B16\", \"S4\", \"S[0]\", …; \"\" = none. -/\nset_option maxRecDepth 100000\nnamespace SMGo.Gen.%sArr\n\n", file, arch, module, module)
	const chunk = 128
	var names []string
	for _, f := range funcs {
		nm := strings.ReplaceAll(f.name, ".", "_")
		names = append(names, nm)
		nchunks := 0
		for i := 0; i < len(f.instrs); i += chunk {
			end := i + chunk
			if end > len(f.instrs) {
				end = len(f.instrs)
			}
			fmt.Fprintf(&sb, "def %s_arr_c%d : List (List String) :=\n  [", nm, nchunks)
			for j, in := range f.instrs[i:end] {
				if j > 0 {
					sb.WriteString(",\n   ")
				}
				var sfx []string
				for _, o := range in.ops {
					sfx = append(sfx, fmt.Sprintf("%q", arrSuffix(in.mn, o)))
				}
				fmt.Fprintf(&sb, "[%s]", strings.Join(sfx, ", "))
			}
			sb.WriteString("]\n\n")
			nchunks++
		}
		fmt.Fprintf(&sb, "def %s_arr_chunks : List (List (List String)) := [", nm)
		for k := 0; k < nchunks; k++ {
			if k > 0 {
				sb.WriteString(", ")
			}
			fmt.Fprintf(&sb, "%s_arr_c%d", nm, k)
		}
		fmt.Fprintf(&sb, "]\n\ndef %s_arr : List (List String) := %s_arr_chunks.flatten\n\n", nm, nm)
	}
	fmt.Fprintf(&sb, "def routines_arr : List (String × List (List (List String))) := [")
	for i, nm := range names {
		if i > 0 {
			sb.WriteString(", ")
		}
		fmt.Fprintf(&sb, "(%q, %s_arr_chunks)", nm, nm)
	}
	fmt.Fprintf(&sb, "]\n\nend SMGo.Gen.%sArr\n", module)
	writeIfChanged(module+"Arr.lean", []byte(sb.String()))
}

func emitListing(arch, file, module string) {
	funcs := runAsmListing(arch, file)
	if len(funcs) == 0 {
		die("%s (%s): no routines in listing", file, arch)
	}
	if arch == "arm64" {
		emitArr(funcs, file, arch, module)
	}
	var sb strings.Builder
	fmt.Fprintf(&sb, "/- GENERATED by /verif/go/cmd/translate (listing) from `go tool asm -S` of sm4/%s, GOARCH=%s — do not edit. -/\nimport SMGo.Model.ISAInstr\nset_option maxRecDepth 100000\nnamespace SMGo.Gen.%s\nopen SMGo.Model.ISA\n\n", file, arch, module)
	const chunk = 128
	var names []string
	for _, f := range funcs {
		nm := strings.ReplaceAll(f.name, ".", "_")
		names = append(names, nm)
		nchunks := 0
		for i := 0; i < len(f.instrs); i += chunk {
			end := i + chunk
			if end > len(f.instrs) {
				end = len(f.instrs)
			}
			fmt.Fprintf(&sb, "def %s_c%d : List Instr :=\n  [", nm, nchunks)
			for j, in := range f.instrs[i:end] {
				if j > 0 {
					sb.WriteString(",\n   ")
				}
				// a postfix like VLD1.P (post-increment) is part of the mnemonic
				var ops []string
				for _, o := range in.ops {
					// arm64 post-index memory "(R12)" with .P suffix mnemonic parses as mem
					ops = append(ops, leanOperand(arch, in.mn, o))
				}
				fmt.Fprintf(&sb, "⟨%d, %q, [%s], %d, %d⟩", in.pc, in.mn, strings.Join(ops, ", "), in.line, vecWidth(arch, in.ops))
			}
			sb.WriteString("]\n\n")
			nchunks++
		}
		fmt.Fprintf(&sb, "def %s_chunks : List (List Instr) := [", nm)
		for k := 0; k < nchunks; k++ {
			if k > 0 {
				sb.WriteString(", ")
			}
			fmt.Fprintf(&sb, "%s_c%d", nm, k)
		}
		fmt.Fprintf(&sb, "]\n\ndef %s : List Instr := %s_chunks.flatten\n\ndef %s_argBytes : Nat := %d\n\n", nm, nm, nm, f.args)
	}
	fmt.Fprintf(&sb, "def routines : List (String × List (List Instr)) := [")
	for i, nm := range names {
		if i > 0 {
			sb.WriteString(", ")
		}
		fmt.Fprintf(&sb, "(%q, %s_chunks)", nm, nm)
	}
	fmt.Fprintf(&sb, "]\n\nend SMGo.Gen.%s\n", module)
	writeIfChanged(module+".lean", []byte(sb.String()))
}

func genListing() {
	emitListing("amd64", "asm_amd64.s", "ListAmd64Asm")
	emitListing("amd64", "gcm_amd64.s", "ListAmd64Gcm")
	emitListing("amd64", "helper_amd64.s", "ListAmd64Helper")
	emitListing("arm64", "asm_arm64.s", "ListArm64Asm")
	emitListing("arm64", "gcm_arm64.s", "ListArm64Gcm")
}

func init() { extraCmds["listing"] = genListing }
