package main

// Tests of the sm3.go -> Lean translator (sub-command gosm3, gosm3.go).
//
//  1. TestGoSM3Committed: the translator run on the real sm3/sm3.go gives the committed
//     lean/SMGo/Gen/SM3Code.lean byte for byte (and is deterministic).
//  2. TestGoSM3Refuses: fourteen small edits of a COPY of sm3.go, each leaving the translator's subset,
//     make it stop with a file:line message (no output).
//  3. TestGoSM3Mutations: four semantic mutations stay inside the subset: translation succeeds and the
//     output differs from the committed file exactly at the mutated statement.  The Lean side then fails:
//     against these outputs Proofs/SM3GenCf.lean (mutations 1, 2: `cf_eq` / `partiallyExpand_eq`),
//     Proofs/SM3GenSum.lean (mutation 3: `checkSum_eq_model`) and Proofs/SM3GenWrite.lean (mutation 4:
//     `write_eq_model`) no longer build, hence neither does Props/C04Gen.lean (checked by hand in a
//     scratch lake project when the theorems were written; bin/check C04 re-checks the theorems
//     against the regenerated file on every run).
//
// The source tree is $VERIF_REPO (default /repo), the committed file is looked up relative to this package
// ($VERIF_DIR overrides /verif).  Nothing is written outside t.TempDir().

import (
	"bytes"
	"fmt"
	"os"
	"path/filepath"
	"regexp"
	"strings"
	"testing"
)

// gsStop is what gsDie panics with under test
type gsStop struct{ msg string }

// gsRun runs the translator proper on repoDir/sm3/sm3.go; a refusal (gsDie) is returned as a message
func gsRun(repoDir string) (out []byte, refusal string) {
	old := gsDie
	gsDie = func(format string, a ...interface{}) { panic(gsStop{fmt.Sprintf(format, a...)}) }
	defer func() {
		gsDie = old
		if r := recover(); r != nil {
			st, ok := r.(gsStop)
			if !ok {
				panic(r)
			}
			out, refusal = nil, st.msg
		}
	}()
	return gsTranslate(repoDir), ""
}

func gsRepo() string {
	if v := os.Getenv("VERIF_REPO"); v != "" {
		return v
	}
	return "/repo"
}

func gsCommitted(t *testing.T) []byte {
	t.Helper()
	var cands []string
	if v := os.Getenv("VERIF_DIR"); v != "" {
		cands = append(cands, filepath.Join(v, "lean/SMGo/Gen/SM3Code.lean"))
	}
	cands = append(cands, filepath.Join("..", "..", "..", "lean", "SMGo", "Gen", "SM3Code.lean"), "/verif/lean/SMGo/Gen/SM3Code.lean")
	for _, c := range cands {
		if b, err := os.ReadFile(c); err == nil {
			return b
		}
	}
	t.Fatalf("committed SM3Code.lean not found (tried %v)", cands)
	return nil
}

// gsEdited copies sm3.go into a fresh temporary tree with the first occurrence of old replaced by new
func gsEdited(t *testing.T, old, new string) string {
	t.Helper()
	src, err := os.ReadFile(filepath.Join(gsRepo(), "sm3", "sm3.go"))
	if err != nil {
		t.Fatal(err)
	}
	if !strings.Contains(string(src), old) {
		t.Fatalf("sm3.go does not contain %q (the source changed: adapt the test)", old)
	}
	dir := t.TempDir()
	if err := os.MkdirAll(filepath.Join(dir, "sm3"), 0o755); err != nil {
		t.Fatal(err)
	}
	edited := strings.Replace(string(src), old, new, 1)
	if err := os.WriteFile(filepath.Join(dir, "sm3", "sm3.go"), []byte(edited), 0o644); err != nil {
		t.Fatal(err)
	}
	return dir
}

func TestGoSM3Committed(t *testing.T) {
	want := gsCommitted(t)
	got, refusal := gsRun(gsRepo())
	if refusal != "" {
		t.Fatalf("translator refused the real sm3.go: %s", refusal)
	}
	if !bytes.Equal(got, want) {
		t.Fatalf("translation of %s/sm3/sm3.go differs from the committed lean/SMGo/Gen/SM3Code.lean (%d vs %d bytes): run `translate gosm3`",
			gsRepo(), len(got), len(want))
	}
	again, _ := gsRun(gsRepo())
	if !bytes.Equal(got, again) {
		t.Fatal("translation is not deterministic")
	}
	// through the command's entry point, into a scratch output directory
	oldRepo, oldOut := repo, outDir
	defer func() { repo, outDir = oldRepo, oldOut }()
	repo, outDir = gsRepo(), t.TempDir()
	genGoSM3()
	b, err := os.ReadFile(filepath.Join(outDir, "SM3Code.lean"))
	if err != nil || !bytes.Equal(b, want) {
		t.Fatalf("genGoSM3 wrote something else than the committed file (err %v)", err)
	}
}

func TestGoSM3Refuses(t *testing.T) {
	cases := []struct {
		name, old, new string
		line           int
		expect         string
	}{
		{"shift by a variable", "alr12 := a<<12 | a>>20", "alr12 := a<<uint(j) | a>>20", 159, "shift count is not a constant"},
		{"store to the package-level table", "sm3.nx = 0\n\tsm3.len = 0", "sm3.nx = 0\n\ttt[0] = 1\n\tsm3.len = 0", 64, "store to package-level variable tt"},
		{"early return", "n = len(data)", "n = len(data)\n\tif n == 0 {\n\t\treturn\n\t}", 71, "return before the end of the function"},
		{"copy between overlapping operands", "count := copy(sm3.x[sm3.nx:], data)", "count := copy(sm3.x[sm3.nx:], sm3.x[:])", 73, "copy between overlapping operands"},
		{"recursion", "sm3.cf(sm3.x[:])", "sm3.Write(sm3.x[:])", 68, "recursive function"},
		{"loop post statement other than v++", "for j := 16; j <= 63; j++ {", "for j := 16; j <= 63; j += 1 {", 169, "unsupported loop post statement"},
		{"slice of an array stored in a variable", "data = data[count:]", "data = sm3.x[count:]", 75, "a slice of an array is stored or returned"},
		{"switch statement", "func p0(x uint32) uint32 { return x ^ (x<<9 | x>>23) ^ (x<<17 | x>>15) }",
			"func p0(x uint32) uint32 { switch { case x == 0: return 0 }; return x }", 140, "unsupported statement *ast.SwitchStmt"},
		{"make", "var hash [Size]byte", "hash := make([]byte, Size)", 118, "builtin make in an expression"},
		{"loop counter assigned in the body", "g, f, e = f<<19|f>>13, e, p0(tt2)\n\t}", "g, f, e = f<<19|f>>13, e, p0(tt2)\n\t\tj++\n\t}", 158, "the loop counter is assigned in the loop body"},
		{"slice of a receiver field passed to a method that writes the field", "sm3.Write(empty[sm3.nx:maxTail])", "sm3.Write(sm3.x[sm3.nx:maxTail])", 105, "argument is a slice of field x, which SM3.Write writes"},
		{"shadowing", "count := copy(sm3.x[sm3.nx:], data)", "n := copy(sm3.x[sm3.nx:], data)\n\t\tcount := n", 73, "declaration of n shadows another variable"},
		{"name reserved by the translation", "lenAtSum := sm3.len", "none := sm3.len\n\tlenAtSum := none", 97, "identifier none is reserved by the translation"},
		{"partial slice passed for writing", "ret.checkSum(hash[:])", "ret.checkSum(hash[1:])", 119, "must be a whole array"},
	}
	if len(cases) != 14 {
		t.Fatalf("%d cases", len(cases))
	}
	pos := regexp.MustCompile(`sm3\.go:(\d+):\d+: `)
	for _, c := range cases {
		c := c
		t.Run(c.name, func(t *testing.T) {
			dir := gsEdited(t, c.old, c.new)
			out, refusal := gsRun(dir)
			if refusal == "" {
				t.Fatalf("translated (%d bytes) instead of refusing", len(out))
			}
			m := pos.FindStringSubmatch(refusal)
			if m == nil {
				t.Fatalf("refusal without file:line: %q", refusal)
			}
			if m[1] != fmt.Sprint(c.line) {
				t.Errorf("refusal at line %s, expected %d: %q", m[1], c.line, refusal)
			}
			if !strings.HasPrefix(refusal, filepath.Join(dir, "sm3", "sm3.go")+":") {
				t.Errorf("refusal does not name the file: %q", refusal)
			}
			if !strings.Contains(refusal, c.expect) {
				t.Errorf("refusal %q does not contain %q", refusal, c.expect)
			}
		})
	}
}

func TestGoSM3Mutations(t *testing.T) {
	want := strings.Split(string(gsCommitted(t)), "\n")
	cases := []struct {
		name, old, new  string
		line            int    // Go source line of the mutated statement
		wasLean, isLean string // text of the translated statement before / after
	}{
		// Lean: Proofs.SM3Gen.cf_eq (first round loop, `rfl` against Model.SM3.roundLo) fails
		{"round rotation 12 -> 13", "alr12 := a<<12 | a>>20", "alr12 := a<<13 | a>>19", 159,
			"((a <<< 12) ||| (a >>> 20))", "((a <<< 13) ||| (a >>> 19))"},
		// Lean: Proofs.SM3Gen.partiallyExpand_eq (second loop against Model.SM3.partiallyExpand) fails
		{"expansion rotation 15 -> 14", "w[j-3]<<15|w[j-3]>>17", "w[j-3]<<14|w[j-3]>>18", 148,
			"(j - (3 : Int))) <<< 15)", "(j - (3 : Int))) <<< 14)"},
		// Lean: Proofs.SM3Gen.checkSum_eq_model (bit length lenAtSum*8) fails
		{"bit length shift 3 -> 2", "lenAtSum<<3", "lenAtSum<<2", 107, "(lenAtSum <<< 3)", "(lenAtSum <<< 2)"},
		// Lean: Proofs.SM3Gen.write_eq_model (first phase against Proofs.SM3.phase1) fails
		{"buffer-full test BlockSize -> BlockSize-1", "if sm3.nx == BlockSize {", "if sm3.nx == BlockSize-1 {", 77,
			"(sm3.nx = (64 : Int) /- BlockSize -/)", "(sm3.nx = (63 : Int) /- BlockSize-1 -/)"},
	}
	for _, c := range cases {
		c := c
		t.Run(c.name, func(t *testing.T) {
			out, refusal := gsRun(gsEdited(t, c.old, c.new))
			if refusal != "" {
				t.Fatalf("translator refused a mutation that is inside its subset: %s", refusal)
			}
			got := strings.Split(string(out), "\n")
			if len(got) != len(want) {
				t.Fatalf("mutated output has %d lines, committed file %d", len(got), len(want))
			}
			var diff []int
			for i := range got {
				if got[i] != want[i] {
					diff = append(diff, i)
				}
			}
			// exactly the quoted source line and its translation
			if len(diff) != 2 || diff[1] != diff[0]+1 {
				t.Fatalf("expected the output to differ in the comment and the statement of one Go line, got differing lines %v", diff)
			}
			if !strings.Contains(got[diff[0]], fmt.Sprintf("-- %d: ", c.line)) {
				t.Errorf("differing comment %q is not that of source line %d", got[diff[0]], c.line)
			}
			if !strings.Contains(want[diff[1]], c.wasLean) || !strings.Contains(got[diff[1]], c.isLean) {
				t.Errorf("statement\n  was %q\n  is  %q\nexpected %q -> %q", want[diff[1]], got[diff[1]], c.wasLean, c.isLean)
			}
		})
	}
}
