package main

// Sub-command "ctir": the functions in the scope of property C08 -> terms of the CT-IR of
// lean/SMGo/Model/CTIR.lean (file SMGo/Gen/CTIRProg.lean).
//
// The translator type-checks the four packages (utils, sm2/internal/fiat, sm2/internal, sm2) from
// source with go/types, starts from the root list below and follows static calls.  Whatever is
// outside the subset stops it with file:line.  Modelling decisions (all visible in the output):
//
//   - a pointer is modelled by its pointee; a function returns the final values of the pointer/slice
//     parameters it writes through (computed by a fixpoint), then its Go results; at the call site
//     these are stored back into the argument's storage.  Value semantics equals Go's reference
//     semantics only without harmful aliasing; the translator enforces a discipline instead of
//     guessing: (1) when the same storage is passed for a written and another parameter, the callee
//     must read the other one before its first write (checked on the callee, recursively);
//     (2) when a slice/pointer into a variable is kept (slice alias, pointer stored in a table,
//     pointer returned by a callee), neither side may be written through afterwards.
//   - nil-ness of pointers and slices is not represented: `p == nil` is false (public address-level
//     information); a nil argument is the zero value.  Errors and interfaces are integers (0 = nil).
//   - math/bits and crypto/subtle calls are operators of the IR (trusted constant time);
//     math/big, io, fmt are external calls (table extTable): leaking ones expose every argument; each has
//     an executable model (ExtKind / stdOracle in Model/CTIR.lean).  z.Bytes() is split into its length
//     (ByteLen, an integer that must be declassified at a listed site before it can size anything) and
//     FillBytes into a buffer of that length.  io.ReadFull carries the position of the reader, a public
//     local variable of the calling function (0 at entry; such a function cannot be a callee), so that
//     successive reads deliver successive candidates.
//   - branch conditions listed in declassTable (the accept/reject verdicts named by the property)
//     are wrapped in a declassify node; no other condition is.
import (
	"bytes"
	"fmt"
	"go/ast"
	"go/build/constraint"
	"go/constant"
	"go/importer"
	"go/parser"
	"go/printer"
	"go/token"
	"go/types"
	"os"
	"path/filepath"
	"sort"
	"strings"
)

const ctModule = "github.com/bilibili/smgo/"

// ---- tables written once ---------------------------------------------------------------------------

// roots: the scope of C08 (callees are added automatically).
var ctRoots = []string{
	"utils.ConstantTimeCmp",
	"sm2.TestPrivateKey",
	"internal.extractBit", "internal.extractHigherBits", "internal.extractLowerBits",
	"internal.selectPoints",
	"fiat.SM2Element.Set", "fiat.SM2Element.One", "fiat.SM2Element.Add", "fiat.SM2Element.Sub",
	"fiat.SM2Element.Opp", "fiat.SM2Element.Mul", "fiat.SM2Element.Square", "fiat.SM2Element.Select",
	"fiat.SM2Element.MultiSelect", "fiat.SM2Element.Invert", "fiat.SM2Element.Bytes", "fiat.SM2Element.bytes",
	"fiat.SM2Element.SetBytes", "fiat.SM2Element.Equal", "fiat.SM2Element.IsZero", "fiat.SM2Element.SetRaw",
	"fiat.SM2Element.GetRaw", "fiat.SM2Element.ToBigInt",
	"fiat.SM2ScalarElement.Set", "fiat.SM2ScalarElement.One", "fiat.SM2ScalarElement.Add", "fiat.SM2ScalarElement.Sub",
	"fiat.SM2ScalarElement.Mul", "fiat.SM2ScalarElement.Square", "fiat.SM2ScalarElement.Select",
	"fiat.SM2ScalarElement.Invert", "fiat.SM2ScalarElement.Bytes", "fiat.SM2ScalarElement.bytes",
	"fiat.SM2ScalarElement.SetBytes", "fiat.SM2ScalarElement.Equal", "fiat.SM2ScalarElement.IsZero",
	"fiat.SM2ScalarElement.ToBigInt",
	"fiat.sm2Opp", "fiat.sm2ScalarOpp",
	"internal.NewSM2Point", "internal.NewFromXY",
	"internal.SM2Point.Set", "internal.SM2Point.Negate", "internal.SM2Point.Select",
	"internal.SM2Point.Add", "internal.SM2Point.Double",
	"internal.SM2Point.MultiSelectXY", "internal.SM2Point.MultiSelectXYZ", "internal.SM2Point.multiSelectConditioned",
	"internal.TransformPrecomputed",
	"internal.scalarBaseMult_SkipBitExtration",
	"internal.scalarBaseMult_SkipBitExtraction_6_3_14", "internal.scalarBaseMult_SkipBitExtraction_5_3_17",
	"internal.scalarBaseMult_SkipBitExtraction_4_2_32", "internal.scalarBaseMult_SkipBitExtraction_7_3_12",
	"internal.ScalarBaseMult", "internal.ScalarMult",
	"internal.SM2Point.GetAffineX", "internal.SM2Point.GetAffineX_Unsafe",
	"internal.SM2Point.Bytes", "internal.SM2Point.Bytes_Unsafe", "internal.SM2Point.bytes",
	"sm2.DerivePublic", "sm2.GenerateKey", "sm2.SignHashed",
}

// optional roots: translated when possible; a construct outside the subset is reported, not fatal
var ctOptional = map[string]bool{"sm2.DerivePublic": true, "sm2.GenerateKey": true, "sm2.SignHashed": true}

// declassTable: the verdict sites of the property statement (function, condition text): the callers'
// two-way tests on the results of ConstantTimeCmp / IsZero / Sign, never the comparison itself.
var declassTable = []struct{ fn, cond, why string }{
	{"sm2.TestPrivateKey", "acc == 0", "range test of a private key (zero key)"},
	{"sm2.TestPrivateKey", "cmp == -1", "range test of a private key (priv < n-1)"},
	{"fiat.SM2Element.SetBytes", "utils.ConstantTimeCmp(v, sm2MinusOneEncoding, SM2ElementLen) > 0", "range test of a field element encoding"},
	{"fiat.SM2ScalarElement.SetBytes", "utils.ConstantTimeCmp(v, sm2ScalarMinusOneEncoding, SM2ScalarElementLen) > 0", "range test of a scalar encoding"},
	{"internal.SM2Point.bytes", "p.z.IsZero() == 1", "is the point at infinity"},
	{"internal.SM2Point.GetAffineX", "p.z.IsZero() == 1", "is the point at infinity"},
	{"internal.SM2Point.GetAffineX_Unsafe", "p.z.IsZero() == 1", "is the point at infinity"},
	{"sm2.GenerateKey", "TestPrivateKey(priv) == 0", "range test of a private key candidate"},
	{"sm2.SignHashed", "test := TestPrivateKey(priv)", "range test of the private key (verdict code, reported in the error)"},
	{"sm2.SignHashed", "utils.ConstantTimeCmp(K[:], nBytes[:], 32) >= 0", "retry decision of the signing loop (k >= n)"},
	{"sm2.SignHashed", "kAcc == 0", "retry decision of the signing loop (k = 0)"},
	{"sm2.SignHashed", "rInt.Sign() == 0", "retry decision of the signing loop (r = 0)"},
	{"sm2.SignHashed", "utils.ConstantTimeCmp(rkBuf[:], nBytes33, 33) == 0", "retry decision of the signing loop (r + k = n)"},
	{"sm2.SignHashed", "sInt.Sign() == 0", "retry decision of the signing loop (s = 0)"},
	{"sm2.ensure32Bytes", "i.Bytes()", "byte length of a public output (r, s of SignHashed) — the length of its big.Int encoding"},
}

// functions cloned per constant value of a bool parameter (the branch on it is resolved in the clone):
// SM2Point.bytes(out, safe) contains both the constant-time and the math/big conversion
var ctSpecialize = map[string]string{"internal.SM2Point.bytes": "safe"}

// label overrides: parameters whose Go type (int) would make them public but that carry secrets
var labelOverride = map[string]string{
	"fiat.SM2Element.Select/cond":              "H",
	"fiat.SM2ScalarElement.Select/cond":        "H",
	"fiat.SM2Element.MultiSelect/fallbackCond": "H",
	"internal.SM2Point.Select/cond":            "H",
}

type extSpec struct {
	kind    string // constructor of ExtKind (the executable model of the call in Model/CTIR.lean: stdOracle)
	leaky   bool
	setter  bool     // z.Op(args) sets the receiver and returns it; otherwise a query of the receiver
	results []string // labels of the results
}

// extTable: calls that leave the analysed world.  Leaking calls expose every argument (math/big is
// not constant time); the non-leaking ones are the math/big operations on k and d in SignHashed and
// the byte <-> big.Int conversions, which the property does not enumerate: they are reported as
// observations (Event.obs) and not counted as violations.
var extTable = map[string]extSpec{
	"big.Int.ModInverse": {kind: "modInverse", leaky: true, setter: true, results: []string{"H"}},
	"big.Int.SetBytes":   {kind: "setBytes", leaky: false, setter: true, results: []string{"H"}},
	"big.Int.Add":        {kind: "add", leaky: false, setter: true, results: []string{"H"}},
	"big.Int.Sub":        {kind: "sub", leaky: false, setter: true, results: []string{"H"}},
	"big.Int.Mul":        {kind: "mul", leaky: false, setter: true, results: []string{"H"}},
	"big.Int.Mod":        {kind: "mod", leaky: false, setter: true, results: []string{"H"}},
	"big.Int.Sign":       {kind: "sign", leaky: false, results: []string{"H"}},
	// z.Bytes() is translated as  l := ByteLen(z);  b := FillBytes(z, make([]byte, l)):  the length of the
	// encoding depends on the VALUE, so it is a separate result that must be public (declassified at a
	// listed site) before it becomes an allocation size; the bytes themselves have a public shape then
	"big.Int.Bytes":   {kind: "other", leaky: false, results: []string{}}, // never emitted as a call
	"big.Int.ByteLen": {kind: "byteLen", leaky: false, results: []string{"H"}},
	// z.FillBytes(buf): arguments (z, buf), result the filled buffer: its length is that of buf (public),
	// whatever z is
	"big.Int.FillBytes": {kind: "fillBytes", leaky: false, results: []string{"H"}},
	// io.ReadFull(r, buf): arguments (r, len(buf), position), results (buffer, n, err, next position); the
	// position is a public variable of the calling function (0 at entry)
	"io.ReadFull": {kind: "readFull", leaky: true, results: []string{"H", "L", "L", "L"}},
	"fmt.Errorf":  {kind: "errorf", leaky: true, results: []string{"L"}},
}

// globals whose value is not computed from a translated initialiser: Lean expression (may use
// `runG <globals so far> <function number> <args>` and the generated constants)
var globalLean = map[string]string{
	"internal.sm2B":                            "elemOfBytes G f_fiat_SM2Element_SetBytes (natBytes 32 SMGo.Gen.SM2Params.param_B)",
	"internal.sm2Precomputed_6_3_14":           "tab3 SMGo.Gen.SM2Tables.sm2Precomputed_6_3_14",
	"internal.sm2Precomputed_6_3_14_Remainder": "tab2 SMGo.Gen.SM2Tables.sm2Precomputed_6_3_14_Remainder",
	"internal.sm2Precomputed_5_3_17":           "tab3 SMGo.Gen.SM2Tables.sm2Precomputed_5_3_17",
	"internal.sm2Precomputed_5_3_17_Remainder": "tab2 SMGo.Gen.SM2Tables.sm2Precomputed_5_3_17_Remainder",
	"internal.sm2Precomputed_4_2_32":           "tab3 SMGo.Gen.SM2Tables.sm2Precomputed_4_2_32",
	"internal.sm2Precomputed_7_3_12":           "tab3 SMGo.Gen.SM2Tables.sm2Precomputed_7_3_12",
	"internal.sm2Precomputed_7_3_12_Remainder": "tab2 SMGo.Gen.SM2Tables.sm2Precomputed_7_3_12_Remainder",
	"internal.curveP":                          "Val.int (Int.ofNat SMGo.Gen.SM2Params.param_P)", // getCurve().Params().P
	"sm2.n":                                    "Val.int (Int.ofNat SMGo.Gen.SM2Params.param_N)",
	"sm2.one":                                  "Val.int 1",
	"sm2.nBytes":                               "natBytes 32 SMGo.Gen.SM2Params.param_N",
	"sm2.nBytes33":                             "natBytes 33 SMGo.Gen.SM2Params.param_N", // append([]byte{0}, nBytes...)
	"sm2.nMinus1Bytes":                         "natBytes 32 (SMGo.Gen.SM2Params.param_N - 1)",
}

// ---- packages ---------------------------------------------------------------------------------------

type ctPkg struct {
	name  string
	path  string
	files []*ast.File
	pkg   *types.Package
	info  *types.Info
}

type ctImporter struct {
	std  types.Importer
	mine map[string]*types.Package
}

func (im *ctImporter) Import(path string) (*types.Package, error) {
	if p, ok := im.mine[path]; ok {
		return p, nil
	}
	return im.std.Import(path)
}

// packages to load (in dependency order); ctPkgFiles gives an explicit file list for a package whose files
// carry build constraints (one architecture's view)
var ctPkgRels = []string{"utils", "sm3", "sm2/internal/fiat", "sm2/internal", "sm2"}
var ctPkgFiles = map[string][]string{}

func ctLoad(fset *token.FileSet) map[string]*ctPkg {
	// the "source" importer resolves third-party imports (sm4 imports cpuid) through the go command relative to
	// the working directory: type-check from inside the module under translation, wherever we were started
	if wd, err := os.Getwd(); err == nil {
		if abs, err2 := filepath.Abs(repo); err2 == nil && os.Chdir(abs) == nil {
			defer os.Chdir(wd)
		}
	}
	im := &ctImporter{std: importer.ForCompiler(fset, "source", nil), mine: map[string]*types.Package{}}
	pkgs := map[string]*ctPkg{}
	for _, rel := range ctPkgRels {
		dir := filepath.Join(repo, rel)
		ents, err := os.ReadDir(dir)
		if err != nil {
			die("%v", err)
		}
		p := &ctPkg{path: ctModule + rel}
		for _, e := range ents {
			n := e.Name()
			if e.IsDir() || !strings.HasSuffix(n, ".go") || strings.HasSuffix(n, "_test.go") {
				continue
			}
			f, err := parser.ParseFile(fset, filepath.Join(dir, n), nil, parser.ParseComments)
			if err != nil {
				die("%v", err)
			}
			tagged := false
			for _, cg := range f.Comments {
				if cg.Pos() > f.Package {
					break
				}
				for _, c := range cg.List {
					if constraint.IsGoBuild(c.Text) || constraint.IsPlusBuild(c.Text) {
						tagged = true
					}
				}
			}
			if files, explicit := ctPkgFiles[rel]; explicit {
				keep := false
				for _, fn := range files {
					keep = keep || fn == n
				}
				if !keep {
					continue // an explicit file list (one architecture's view of the package)
				}
			} else if tagged {
				continue // verif hooks, table generators: not part of the default build
			}
			p.files = append(p.files, f)
		}
		p.info = &types.Info{
			Types: map[ast.Expr]types.TypeAndValue{}, Defs: map[*ast.Ident]types.Object{},
			Uses: map[*ast.Ident]types.Object{}, Selections: map[*ast.SelectorExpr]*types.Selection{},
			Implicits: map[ast.Node]types.Object{},
		}
		conf := types.Config{Importer: im}
		tp, err := conf.Check(p.path, fset, p.files, p.info)
		if err != nil {
			die("type-check %s: %v", rel, err)
		}
		for _, f := range p.files {
			ctDesugarSwitches(f)
		}
		p.pkg = tp
		p.name = tp.Name()
		im.mine[p.path] = tp
		pkgs[p.name] = p
	}
	return pkgs
}

// ---- functions ----------------------------------------------------------------------------------------

type retKind struct {
	fresh bool // the result does not point into any parameter
	param int  // otherwise: the parameter it points into (-1 unknown)
	exact bool // the result is the parameter pointer itself
}

type ctFn struct {
	key       string
	id        int
	pkg       *ctPkg
	decl      *ast.FuncDecl
	initOf    *types.Var // synthetic: initialiser of this package-level variable
	initX     ast.Expr
	params    []*types.Var
	results   []*types.Var
	written   []bool
	rets      []retKind
	holds     [][]int    // per result: parameters whose storage the result keeps pointers into
	failed    string     // optional root that could not be translated
	recvObj   *types.Var // receiver replaced by its fields (ctExplode): the first nExploded parameters
	nExploded int
	capParams []int       // parameters whose capacity is a hidden (public) parameter
	resView   map[int]int // result j is a window of result i: returned as its offset
	base      *ctFn       // clone of base for a constant value of one bool parameter
	specVar   *types.Var
	specVal   bool
	// output
	nvars    int
	varNames []string
	body     string
	pLabels  []string
	rLabels  []string
	sites    []int
}

type ctSite struct {
	fn, cond, why, pos string
}

type ctTr struct {
	fset        *token.FileSet
	pkgs        map[string]*ctPkg
	fns         map[string]*ctFn
	byObj       map[*types.Func]*ctFn
	order       []*ctFn
	globals     []string // keys, in definition order
	globIdx     map[string]int
	globInit    map[string]*ctFn
	exts        []string
	extIdx      map[string]int
	sites       []ctSite
	usedDeclass map[int]bool
	variants    map[*ctFn]map[bool]*ctFn
	soft        bool // translating an optional root: errors are recorded, not fatal
	softErr     string
}

type ctAbort struct{ msg string }

func (t *ctTr) fail(pos token.Pos, format string, a ...interface{}) {
	msg := fmt.Sprintf("%s: %s", t.fset.Position(pos), fmt.Sprintf(format, a...))
	if t.soft {
		panic(ctAbort{msg})
	}
	die("%s", msg)
}

func ctFuncKey(f *types.Func) string {
	sig := f.Type().(*types.Signature)
	pk := ""
	if f.Pkg() != nil {
		pk = f.Pkg().Name()
	}
	if r := sig.Recv(); r != nil {
		rt := r.Type()
		if p, ok := rt.(*types.Pointer); ok {
			rt = p.Elem()
		}
		if n, ok := rt.(*types.Named); ok {
			return pk + "." + n.Obj().Name() + "." + f.Name()
		}
	}
	return pk + "." + f.Name()
}

func (t *ctTr) src(n ast.Node) string {
	var b bytes.Buffer
	printer.Fprint(&b, t.fset, n)
	return strings.Join(strings.Fields(b.String()), " ")
}

func (t *ctTr) declOf(key string) (*ctPkg, *ast.FuncDecl) {
	for _, p := range t.pkgs {
		for _, f := range p.files {
			for _, d := range f.Decls {
				fd, ok := d.(*ast.FuncDecl)
				if !ok || fd.Body == nil {
					continue
				}
				obj := p.info.Defs[fd.Name].(*types.Func)
				if ctFuncKey(obj) == key {
					return p, fd
				}
			}
		}
	}
	return nil, nil
}

func (t *ctTr) addFn(key string) *ctFn {
	if f, ok := t.fns[key]; ok {
		return f
	}
	p, fd := t.declOf(key)
	if fd == nil {
		die("ctir: function %s not found", key)
	}
	obj := p.info.Defs[fd.Name].(*types.Func)
	sig := obj.Type().(*types.Signature)
	f := &ctFn{key: key, pkg: p, decl: fd}
	if r := sig.Recv(); r != nil {
		if st, ok := ctExplodeStruct(r.Type()); ok {
			// the receiver is replaced by its fields (separate labels for key material and sizes)
			f.recvObj = r
			f.nExploded = st.NumFields()
			for i := 0; i < st.NumFields(); i++ {
				f.params = append(f.params, st.Field(i))
			}
		} else {
			f.params = append(f.params, r)
		}
	}
	for i := 0; i < sig.Params().Len(); i++ {
		f.params = append(f.params, sig.Params().At(i))
	}
	for i := 0; i < sig.Results().Len(); i++ {
		f.results = append(f.results, sig.Results().At(i))
	}
	f.written = make([]bool, len(f.params))
	f.rets = make([]retKind, len(f.results))
	for i := range f.rets {
		f.rets[i] = retKind{fresh: true}
	}
	f.holds = make([][]int, len(f.results))
	f.resView = map[int]int{}
	t.fns[key] = f
	t.byObj[obj] = f
	t.order = append(t.order, f)
	return f
}

// variantFor: the clone of g for this call, when g is in ctSpecialize and the argument is a constant
func (t *ctTr) variantFor(g *ctFn, info *types.Info, call *ast.CallExpr, create bool) *ctFn {
	pname, ok := ctSpecialize[g.key]
	if !ok {
		return g
	}
	args := ctCallArgs(info, call)
	for j, p := range g.params {
		if p.Name() != pname || j >= len(args) {
			continue
		}
		tv, ok := info.Types[args[j]]
		if !ok || tv.Value == nil || tv.Value.Kind() != constant.Bool {
			return g
		}
		val := constant.BoolVal(tv.Value)
		if v, ok := t.variants[g][val]; ok {
			return v
		}
		if !create {
			return g
		}
		v := &ctFn{key: fmt.Sprintf("%s$%s=%v", g.key, pname, val), pkg: g.pkg, decl: g.decl, params: g.params, results: g.results,
			base: g, specVar: p, specVal: val}
		if t.variants[g] == nil {
			t.variants[g] = map[bool]*ctFn{}
		}
		t.variants[g][val] = v
		t.fns[v.key] = v
		t.order = append(t.order, v)
		return v
	}
	return g
}

// ---- helpers on types ------------------------------------------------------------------------------------

func ctIsBigInt(T types.Type) bool {
	if p, ok := T.(*types.Pointer); ok {
		T = p.Elem()
	}
	n, ok := T.(*types.Named)
	return ok && n.Obj().Pkg() != nil && n.Obj().Pkg().Path() == "math/big" && n.Obj().Name() == "Int"
}

func ctPtrLike(T types.Type) bool {
	if ctIsBigInt(T) {
		return false
	}
	switch T.Underlying().(type) {
	case *types.Pointer, *types.Slice:
		return true
	}
	return false
}

func ctDeref(T types.Type) types.Type {
	if p, ok := T.Underlying().(*types.Pointer); ok {
		return p.Elem()
	}
	return T
}

func ctInMine(o types.Object) bool {
	return o != nil && o.Pkg() != nil && strings.HasPrefix(o.Pkg().Path(), ctModule) && o.Pkg().Name() != "sm3"
}

// calleeOf resolves the static target of a call (nil: builtin, conversion, function value).
func ctCalleeOf(info *types.Info, call *ast.CallExpr) *types.Func {
	switch f := ast.Unparen(call.Fun).(type) {
	case *ast.Ident:
		if o, ok := info.Uses[f].(*types.Func); ok {
			return o
		}
	case *ast.SelectorExpr:
		if s, ok := info.Selections[f]; ok {
			if o, ok := s.Obj().(*types.Func); ok && s.Kind() == types.MethodVal {
				return o
			}
			return nil
		}
		if o, ok := info.Uses[f.Sel].(*types.Func); ok {
			return o
		}
	}
	return nil
}

// ctCallArgs: receiver (if a method call) followed by the arguments
func ctCallArgs(info *types.Info, call *ast.CallExpr) []ast.Expr {
	var out []ast.Expr
	if sel, ok := ast.Unparen(call.Fun).(*ast.SelectorExpr); ok {
		if _, ok := info.Selections[sel]; ok {
			out = append(out, sel.X)
		}
	}
	return append(out, call.Args...)
}

const ctCurveP = "getCurve().Params().P"

// ---- discovery of callees and globals ------------------------------------------------------------------

func (t *ctTr) globalKey(v *types.Var) string { return v.Pkg().Name() + "." + v.Name() }

func (t *ctTr) addGlobal(key string, v *types.Var) {
	if _, ok := t.globIdx[key]; ok {
		return
	}
	if _, ok := globalLean[key]; !ok {
		// translated initialiser
		var init ast.Expr
		var pk *ctPkg
		for _, p := range t.pkgs {
			if p.pkg != v.Pkg() {
				continue
			}
			for _, f := range p.files {
				for _, d := range f.Decls {
					gd, ok := d.(*ast.GenDecl)
					if !ok || gd.Tok != token.VAR {
						continue
					}
					for _, sp := range gd.Specs {
						vs := sp.(*ast.ValueSpec)
						for i, n := range vs.Names {
							if p.info.Defs[n] == v && len(vs.Values) == len(vs.Names) {
								init, pk = vs.Values[i], p
							}
						}
					}
				}
			}
		}
		if init == nil {
			die("ctir: %s: package-level variable %s has no initialiser expression and no entry in globalLean", t.fset.Position(v.Pos()), key)
		}
		f := &ctFn{key: "init$" + key, pkg: pk, initOf: v, initX: init}
		f.results = []*types.Var{v}
		f.rets = []retKind{{fresh: true}}
		f.holds = [][]int{nil}
		t.fns[f.key] = f
		t.order = append(t.order, f)
		t.globInit[key] = f
		t.discoverNode(pk, init)
	}
	// dependencies first (discoverNode above), then this one
	t.globIdx[key] = len(t.globals)
	t.globals = append(t.globals, key)
}

func (t *ctTr) discoverNode(p *ctPkg, n ast.Node) {
	ast.Inspect(n, func(n ast.Node) bool {
		switch e := n.(type) {
		case *ast.SelectorExpr:
			if t.src(e) == ctCurveP {
				t.addGlobal("internal.curveP", nil)
				return false
			}
		case *ast.Ident:
			if v, ok := p.info.Uses[e].(*types.Var); ok && !v.IsField() && ctInMine(v) && v.Parent() == v.Pkg().Scope() {
				if _, assumed := ctAssume[v.Name()]; !assumed {
					t.addGlobal(t.globalKey(v), v)
				}
			}
		case *ast.IfStmt:
			if c, ok := ctAssume[t.src(e.Cond)]; ok {
				// a condition fixed by the premises of the property: only the live branch is followed
				if e.Init != nil {
					t.discoverNode(p, e.Init)
				}
				if c == "1" {
					t.discoverNode(p, e.Body)
				} else if e.Else != nil {
					t.discoverNode(p, e.Else)
				}
				return false
			}
		case *ast.CallExpr:
			if key := t.devirtKey(p, e); key != "" {
				if _, ok := t.fns[key]; !ok {
					f := t.addFn(key)
					t.discoverNode(f.pkg, f.decl.Body)
				}
			}
			if o := ctCalleeOf(p.info, e); o != nil && ctInMine(o) {
				key := ctFuncKey(o)
				if _, isAsm := ctAsm[key]; isAsm {
					return true
				}
				if _, ok := t.fns[key]; !ok {
					f := t.addFn(key)
					t.discoverNode(f.pkg, f.decl.Body)
				}
				t.variantFor(t.fns[key], p.info, e, true)
			}
		}
		return true
	})
}

// ---- roots of pointer expressions, written parameters, result kinds ---------------------------------------

type aliasMap map[types.Object]types.Object

func (t *ctTr) rootObj(p *ctPkg, e ast.Expr, al aliasMap) types.Object {
	if e == nil {
		return nil
	}
	switch x := ast.Unparen(e).(type) {
	case *ast.Ident:
		o := p.info.Uses[x]
		if o == nil {
			o = p.info.Defs[x]
		}
		if v, ok := o.(*types.Var); ok {
			if a, ok := al[v]; ok && a != nil {
				return a
			}
			return v
		}
		return nil
	case *ast.StarExpr:
		return t.rootObj(p, x.X, al)
	case *ast.UnaryExpr:
		if x.Op == token.AND {
			return t.rootObj(p, x.X, al)
		}
	case *ast.SelectorExpr:
		if _, ok := p.info.Selections[x]; ok {
			return t.rootObj(p, x.X, al)
		}
		if v, ok := p.info.Uses[x.Sel].(*types.Var); ok {
			return v // qualified package-level variable
		}
	case *ast.IndexExpr:
		return t.rootObj(p, x.X, al)
	case *ast.SliceExpr:
		return t.rootObj(p, x.X, al)
	case *ast.CallExpr:
		if tv, ok := p.info.Types[x.Fun]; ok && tv.IsType() {
			return t.rootObj(p, x.Args[0], al)
		}
		if id, ok := ast.Unparen(x.Fun).(*ast.Ident); ok {
			if _, ok := p.info.Uses[id].(*types.Builtin); ok && id.Name == "append" {
				return t.rootObj(p, x.Args[0], al)
			}
		}
		if o := ctCalleeOf(p.info, x); o != nil {
			if g, ok := t.byObj[o]; ok && len(g.rets) > 0 && !g.rets[0].fresh && g.rets[0].param >= 0 {
				args := t.alignArgs(g, p.info, x)
				if g.rets[0].param < len(args) {
					return t.rootObj(p, args[g.rets[0].param], al)
				}
			}
		}
	}
	return nil
}

func (f *ctFn) paramIndex(o types.Object) int {
	for i, p := range f.params {
		if p == o {
			return i
		}
	}
	return -1
}

// buildAliases: locals of pointer/slice type initialised from storage rooted elsewhere
func (t *ctTr) buildAliases(f *ctFn) aliasMap {
	al := aliasMap{}
	if f.decl == nil {
		return al
	}
	p := f.pkg
	bind := func(lhs ast.Expr, rhs ast.Expr) {
		id, ok := lhs.(*ast.Ident)
		if !ok || id.Name == "_" {
			return
		}
		o := p.info.Defs[id]
		if o == nil {
			o = p.info.Uses[id]
		}
		v, ok := o.(*types.Var)
		if !ok || !ctPtrLike(v.Type()) || f.paramIndex(v) >= 0 {
			return
		}
		if r := t.rootObj(p, rhs, al); r != nil && r != v {
			al[v] = r
		}
	}
	ast.Inspect(f.decl.Body, func(n ast.Node) bool {
		switch s := n.(type) {
		case *ast.AssignStmt:
			if len(s.Lhs) == len(s.Rhs) {
				for i := range s.Lhs {
					bind(s.Lhs[i], s.Rhs[i])
				}
			}
		case *ast.ValueSpec:
			if len(s.Names) == len(s.Values) {
				for i := range s.Names {
					bind(s.Names[i], s.Values[i])
				}
			}
		}
		return true
	})
	return al
}

// analyse: one round of the written-parameter / result-kind fixpoint; reports whether anything changed
func (t *ctTr) analyse(f *ctFn) bool {
	if f.decl == nil || f.base != nil {
		return false
	}
	p := f.pkg
	al := t.buildAliases(f)
	changed := false
	mark := func(e ast.Expr) {
		r := t.rootObj(p, e, al)
		if i := f.paramIndex(r); i >= 0 && (ctPtrLike(f.params[i].Type()) || ctIsBigInt(f.params[i].Type())) && !f.written[i] {
			f.written[i] = true
			changed = true
		}
	}
	snap := map[types.Object][]int{}
	ast.Inspect(f.decl.Body, func(n ast.Node) bool {
		switch s := n.(type) {
		case *ast.AssignStmt:
			for i, l := range s.Lhs {
				if _, ok := ast.Unparen(l).(*ast.Ident); !ok {
					mark(l)
					// pointer stored into an aggregate: the aggregate keeps a pointer into the source
					if len(s.Lhs) == len(s.Rhs) && ctPtrLike(p.info.TypeOf(s.Rhs[i])) {
						if k := f.paramIndex(t.rootObj(p, s.Rhs[i], al)); k >= 0 {
							if lr := t.rootObj(p, l, al); lr != nil {
								snap[lr] = append(snap[lr], k)
							}
						}
					}
				}
			}
		case *ast.IncDecStmt:
			if _, ok := ast.Unparen(s.X).(*ast.Ident); !ok {
				mark(s.X)
			}
		case *ast.CallExpr:
			if id, ok := ast.Unparen(s.Fun).(*ast.Ident); ok {
				if _, ok := p.info.Uses[id].(*types.Builtin); ok && id.Name == "copy" {
					mark(s.Args[0])
				}
			}
			if o := ctCalleeOf(p.info, s); o != nil {
				if g, ok := t.byObj[o]; ok {
					for j, a := range t.alignArgs(g, p.info, s) {
						if a != nil && j < len(g.written) && g.written[j] {
							mark(a)
						}
					}
				} else if sp, ok := ctAsm[ctFuncKey(o)]; ok && ctInMine(o) {
					for _, k := range sp.written {
						mark(s.Args[k])
					}
				} else if ctFuncKey(o) == "io.ReadFull" {
					mark(s.Args[1])
				} else if ctExtKey(o) == "big.Int.FillBytes" {
					mark(s.Args[0])
				} else if sp, ok := extTable[ctExtKey(o)]; ok && sp.setter {
					mark(ctCallArgs(p.info, s)[0])
				}
			}
		}
		return true
	})
	// result kinds
	kinds := make([]*retKind, len(f.results))
	holds := make([][]int, len(f.results))
	ast.Inspect(f.decl.Body, func(n ast.Node) bool {
		if _, ok := n.(*ast.FuncLit); ok {
			return false
		}
		rs, ok := n.(*ast.ReturnStmt)
		if !ok {
			return true
		}
		for i, e := range rs.Results {
			if len(rs.Results) != len(f.results) || !ctPtrLike(f.results[i].Type()) {
				continue
			}
			if id, ok := ast.Unparen(e).(*ast.Ident); ok && id.Name == "nil" {
				continue
			}
			r := t.rootObj(p, e, al)
			k := retKind{fresh: true}
			if pi := f.paramIndex(r); pi >= 0 {
				id, isId := ast.Unparen(e).(*ast.Ident)
				k = retKind{param: pi, exact: isId && p.info.Uses[id] == f.params[pi]}
			}
			if r != nil {
				holds[i] = append(holds[i], snap[r]...)
			}
			if kinds[i] == nil {
				kinds[i] = &k
			} else if *kinds[i] != k {
				if !kinds[i].fresh && !k.fresh && kinds[i].param == k.param && k.param >= 0 {
					kinds[i] = &retKind{param: k.param} // the same parameter, once as the identifier and once through a call
				} else {
					kinds[i] = &retKind{param: -1}
				}
			}
		}
		return true
	})
	for i := range f.results {
		k := retKind{fresh: true}
		if kinds[i] != nil {
			k = *kinds[i]
		}
		if k != f.rets[i] {
			f.rets[i] = k
			changed = true
		}
		sort.Ints(holds[i])
		if fmt.Sprint(holds[i]) != fmt.Sprint(f.holds[i]) {
			f.holds[i] = holds[i]
			changed = true
		}
	}
	return changed
}

// ctMayFail: evaluating the expression can panic at run time (be stuck in the IR)
func ctMayFail(e ast.Expr) bool {
	bad := false
	ast.Inspect(e, func(n ast.Node) bool {
		switch v := n.(type) {
		case *ast.IndexExpr, *ast.SliceExpr, *ast.TypeAssertExpr:
			bad = true
		case *ast.BinaryExpr:
			if v.Op == token.SHL || v.Op == token.SHR || v.Op == token.QUO || v.Op == token.REM {
				bad = true
			}
		}
		return !bad
	})
	return bad
}

func ctExtKey(o *types.Func) string {
	sig := o.Type().(*types.Signature)
	if r := sig.Recv(); r != nil && ctIsBigInt(r.Type()) {
		return "big.Int." + o.Name()
	}
	if o.Pkg() != nil {
		return o.Pkg().Name() + "." + o.Name()
	}
	return o.Name()
}

// ---- translation of one function -----------------------------------------------------------------------------

type ctAliasPair struct {
	x, r types.Object
	pos  token.Pos
	snap bool // pointer stored into aggregate x (otherwise: slice/pointer alias x of r)
	br   []ctBranch
	end  token.Pos // end of the statement that makes the alias (the loop start when made in a loop)
}

type ctWrite struct {
	root   types.Object
	pos    token.Pos
	viaPtr bool
	br     []ctBranch
}

type ctBranch struct {
	ifPos token.Pos
	arm   int
}

// exclusive: the two program points lie in different arms of the same if statement
func ctExclusive(a, b []ctBranch) bool {
	for i := 0; i < len(a) && i < len(b); i++ {
		if a[i].ifPos != b[i].ifPos {
			return false
		}
		if a[i].arm != b[i].arm {
			return true
		}
	}
	return false
}

type fnTr struct {
	t        *ctTr
	f        *ctFn
	p        *ctPkg
	vars     map[types.Object]int
	names    []string
	al       aliasMap
	pairs    []ctAliasPair
	wr       []ctWrite
	loops    []ast.Node
	junk     int
	rdPos    int                         // variable holding the position of the reader (functions that call io.ReadFull), else -1
	views    map[types.Object]*ctView    // slice variables represented as a window (base variable, offset variable)
	capVar   map[types.Object]int        // hidden parameters: capacity of a slice parameter
	branches []ctBranch                  // enclosing if-branches (for the aliasing discipline)
	curEnd   token.Pos                   // end of the simple statement being translated
	builders map[types.Object]*ctBuilder // slices built by append into a prefix of a local array (ctirproto.go)
}

func (x *fnTr) fail(pos token.Pos, format string, a ...interface{}) { x.t.fail(pos, format, a...) }

func (x *fnTr) newVar(name string, o types.Object) int {
	n := len(x.names)
	for _, old := range x.names {
		if old == name {
			name = fmt.Sprintf("%s_%d", name, n)
			break
		}
	}
	x.names = append(x.names, name)
	if o != nil {
		x.vars[o] = n
	}
	return n
}

func (x *fnTr) tmp() int { return x.newVar(fmt.Sprintf("t%d", len(x.names)), nil) }

func (x *fnTr) varOf(id *ast.Ident) (int, bool) {
	o := x.p.info.Uses[id]
	if o == nil {
		o = x.p.info.Defs[id]
	}
	if o == nil {
		return 0, false
	}
	n, ok := x.vars[o]
	return n, ok
}

// declare a (new) local for a defining identifier
func (x *fnTr) declare(id *ast.Ident) int {
	o := x.p.info.Defs[id]
	if o == nil {
		x.fail(id.Pos(), "identifier %s defines nothing", id.Name)
	}
	if n, ok := x.vars[o]; ok {
		return n
	}
	return x.newVar(id.Name, o)
}

func ctLit(v string) string {
	if strings.HasPrefix(v, "-") {
		return "(.lit (" + v + "))"
	}
	return "(.lit " + v + ")"
}

func ctVar(n int) string { return fmt.Sprintf("(.var %d)", n) }

func (x *fnTr) ty(T types.Type, pos token.Pos) string {
	b, ok := T.Underlying().(*types.Basic)
	if !ok {
		x.fail(pos, "integer type expected, got %s", T)
	}
	switch b.Kind() {
	case types.Uint8:
		return ".u8"
	case types.Uint16:
		return ".u16"
	case types.Uint32:
		return ".u32"
	case types.Uint64, types.Uint, types.Uintptr:
		return ".u64"
	case types.Int, types.Int64, types.UntypedInt:
		return ".i64"
	case types.Bool, types.UntypedBool:
		return ".bool"
	}
	x.fail(pos, "unsupported basic type %s", T)
	return ""
}

func ctIsIntRepr(T types.Type) bool {
	if ctIsBigInt(T) {
		return true
	}
	switch u := T.Underlying().(type) {
	case *types.Basic:
		return u.Info()&(types.IsInteger|types.IsBoolean) != 0
	case *types.Interface:
		return true
	}
	return false
}

func (x *fnTr) zero(T types.Type, pos token.Pos) string {
	if ctIsIntRepr(T) {
		return "(.lit 0)"
	}
	switch u := T.Underlying().(type) {
	case *types.Pointer:
		return x.zero(u.Elem(), pos)
	case *types.Array:
		return fmt.Sprintf("(.mk (.lit %d) %s)", u.Len(), x.zero(u.Elem(), pos))
	case *types.Slice:
		return fmt.Sprintf("(.mk (.lit 0) %s)", x.zero(u.Elem(), pos))
	case *types.Struct:
		return x.structVal(u, map[int]string{}, pos)
	}
	x.fail(pos, "no zero value for type %s in the IR", T)
	return ""
}

// structVal builds a struct value (array of its fields) from the given field values (zero otherwise)
func (x *fnTr) structVal(u *types.Struct, vals map[int]string, pos token.Pos) string {
	if u.NumFields() == 0 {
		x.fail(pos, "empty struct")
	}
	same := len(vals) == 0
	for i := 1; i < u.NumFields() && same; i++ {
		same = types.Identical(u.Field(i).Type(), u.Field(0).Type())
	}
	if same {
		return fmt.Sprintf("(.mk (.lit %d) %s)", u.NumFields(), x.zero(u.Field(0).Type(), pos))
	}
	out := ""
	for i := u.NumFields() - 1; i >= 0; i-- {
		v, ok := vals[i]
		if !ok {
			v = x.zero(u.Field(i).Type(), pos)
		}
		one := "(.mk (.lit 1) " + v + ")"
		if out == "" {
			out = one
		} else {
			out = "(.cat " + one + " " + out + ")"
		}
	}
	return out
}

func (x *fnTr) fieldIndex(sel *ast.SelectorExpr) int {
	s := x.p.info.Selections[sel]
	if s == nil || s.Kind() != types.FieldVal || len(s.Index()) != 1 {
		x.fail(sel.Pos(), "unsupported selector %s", x.t.src(sel))
	}
	return s.Index()[0]
}

// fieldPath: the field indices of a selector (more than one through embedded structs)
func (x *fnTr) fieldPath(sel *ast.SelectorExpr) []int {
	s := x.p.info.Selections[sel]
	if s == nil || s.Kind() != types.FieldVal || len(s.Index()) == 0 {
		x.fail(sel.Pos(), "unsupported selector %s", x.t.src(sel))
	}
	return s.Index()
}

func (x *fnTr) constOf(e ast.Expr) (string, bool) {
	tv, ok := x.p.info.Types[e]
	if !ok || tv.Value == nil {
		return "", false
	}
	switch tv.Value.Kind() {
	case constant.Int:
		return tv.Value.ExactString(), true
	case constant.Bool:
		if constant.BoolVal(tv.Value) {
			return "1", true
		}
		return "0", true
	}
	return "", false
}

// simple: may be evaluated twice without producing events twice
func ctSimple(e string) bool {
	return !strings.Contains(e, ".idx ") && !strings.Contains(e, ".slice ") && !strings.Contains(e, ".mk ") &&
		!strings.Contains(e, ".shl ") && !strings.Contains(e, " .shr)")
}

func (x *fnTr) hoist(e string, pre *[]string) string {
	if ctSimple(e) {
		return e
	}
	t := x.tmp()
	*pre = append(*pre, fmt.Sprintf(".assign %d [] %s", t, e))
	return ctVar(t)
}

func (x *fnTr) isNilIdent(e ast.Expr) bool {
	id, ok := ast.Unparen(e).(*ast.Ident)
	if !ok || id.Name != "nil" {
		return false
	}
	_, isNil := x.p.info.Uses[id].(*types.Nil)
	return isNil
}

// expr translates a value expression; calls are hoisted into *pre (in evaluation order)
func (x *fnTr) expr(e ast.Expr, pre *[]string) string {
	if c, ok := x.constOf(e); ok {
		return ctLit(c)
	}
	info := x.p.info
	switch v := e.(type) {
	case *ast.ParenExpr:
		return x.expr(v.X, pre)
	case *ast.StarExpr:
		return x.expr(v.X, pre)
	case *ast.Ident:
		if x.isNilIdent(v) {
			x.fail(v.Pos(), "nil in a value position without a known type")
		}
		if vw := x.viewOf(v); vw != nil {
			return fmt.Sprintf("(.slice %s %s (.len %s))", ctVar(vw.base), ctVar(vw.off), ctVar(vw.base))
		}
		if n, ok := x.varOf(v); ok {
			return ctVar(n)
		}
		if o, ok := info.Uses[v].(*types.Var); ok && ctInMine(o) && o.Parent() == o.Pkg().Scope() {
			if c, ok := ctAssume[o.Name()]; ok {
				return ctLit(c)
			}
			return fmt.Sprintf("(.glob %d)", x.t.globIdx[x.t.globalKey(o)])
		}
		x.fail(v.Pos(), "unsupported identifier %s", v.Name)
	case *ast.UnaryExpr:
		switch v.Op {
		case token.AND:
			if cl, ok := ast.Unparen(v.X).(*ast.CompositeLit); ok {
				return x.composite(cl, pre)
			}
			return x.expr(v.X, pre)
		case token.XOR:
			return fmt.Sprintf("(.op1 (.not %s) %s)", x.ty(info.TypeOf(e), e.Pos()), x.expr(v.X, pre))
		case token.SUB:
			return fmt.Sprintf("(.op1 (.neg %s) %s)", x.ty(info.TypeOf(e), e.Pos()), x.expr(v.X, pre))
		case token.NOT:
			return fmt.Sprintf("(.op1 .lnot %s)", x.expr(v.X, pre))
		case token.ADD:
			return x.expr(v.X, pre)
		}
		x.fail(v.Pos(), "unsupported unary operator %s", v.Op)
	case *ast.BinaryExpr:
		return x.binary(v, pre)
	case *ast.SelectorExpr:
		if x.t.src(v) == ctCurveP {
			return fmt.Sprintf("(.glob %d)", x.t.globIdx["internal.curveP"])
		}
		if fv, ok := x.explodedField(v); ok {
			return ctVar(fv)
		}
		if _, ok := info.Selections[v]; ok {
			r := x.expr(v.X, pre)
			for _, k := range x.fieldPath(v) {
				r = fmt.Sprintf("(.idxc %s %d)", r, k)
			}
			return r
		}
		if o, ok := info.Uses[v.Sel].(*types.Var); ok && ctInMine(o) {
			return fmt.Sprintf("(.glob %d)", x.t.globIdx[x.t.globalKey(o)])
		}
		x.fail(v.Pos(), "unsupported selector %s", x.t.src(v))
	case *ast.IndexExpr:
		switch ctDeref(info.TypeOf(v.X)).Underlying().(type) {
		case *types.Array, *types.Slice:
		default:
			x.fail(v.Pos(), "index of non-array %s", info.TypeOf(v.X))
		}
		a := x.expr(v.X, pre)
		if c, ok := x.constOf(v.Index); ok && !strings.HasPrefix(c, "-") {
			return fmt.Sprintf("(.idxc %s %s)", a, c)
		}
		return fmt.Sprintf("(.idx %s %s)", a, x.expr(v.Index, pre))
	case *ast.SliceExpr:
		if v.Slice3 {
			x.fail(v.Pos(), "3-index slice")
		}
		a := x.expr(v.X, pre)
		if v.Low == nil && v.High == nil {
			return a
		}
		a = x.hoist(a, pre)
		if ext, ok := x.capExtension(v, a, pre); ok {
			return ext
		}
		lo, hi := "(.lit 0)", "(.len "+a+")"
		if v.Low != nil {
			lo = x.expr(v.Low, pre)
		}
		if v.High != nil {
			hi = x.expr(v.High, pre)
		}
		return fmt.Sprintf("(.slice %s %s %s)", a, lo, hi)
	case *ast.CallExpr:
		rs := x.call(v, pre, true)
		if len(rs) != 1 {
			x.fail(v.Pos(), "call with %d results in a single-value position", len(rs))
		}
		return rs[0]
	case *ast.CompositeLit:
		return x.composite(v, pre)
	}
	x.fail(e.Pos(), "unsupported expression %T (%s)", e, x.t.src(e))
	return ""
}

func (x *fnTr) composite(cl *ast.CompositeLit, pre *[]string) string {
	u, ok := x.p.info.TypeOf(cl).Underlying().(*types.Struct)
	if !ok {
		x.fail(cl.Pos(), "composite literal of non-struct type")
	}
	vals := map[int]string{}
	for _, el := range cl.Elts {
		kv, ok := el.(*ast.KeyValueExpr)
		if !ok {
			x.fail(el.Pos(), "positional struct literal")
		}
		name := kv.Key.(*ast.Ident).Name
		idx := -1
		for i := 0; i < u.NumFields(); i++ {
			if u.Field(i).Name() == name {
				idx = i
			}
		}
		if idx < 0 {
			x.fail(kv.Pos(), "unknown field %s", name)
		}
		// a pointer field must own its storage: only fresh values may be stored
		if ctPtrLike(u.Field(idx).Type()) && !ctAllowShare[x.f.key] {
			if r := x.t.rootObj(x.p, kv.Value, x.al); r != nil {
				x.fail(kv.Pos(), "struct field %s would share storage with %s", name, r.Name())
			}
		}
		vals[idx] = x.expr(kv.Value, pre)
	}
	return x.structVal(u, vals, cl.Pos())
}

func (x *fnTr) hasEffects(e ast.Expr) bool {
	eff := false
	ast.Inspect(e, func(n ast.Node) bool {
		switch v := n.(type) {
		case *ast.CallExpr:
			if tv, ok := x.p.info.Types[v.Fun]; ok && tv.IsType() {
				return true
			}
			if id, ok := ast.Unparen(v.Fun).(*ast.Ident); ok && id.Name == "len" {
				return true
			}
			eff = true
		case *ast.IndexExpr:
			if _, ok := x.constOf(v.Index); !ok {
				eff = true
			}
		case *ast.SliceExpr:
			if v.Low != nil || v.High != nil {
				eff = true
			}
		}
		return true
	})
	return eff
}

func (x *fnTr) binary(v *ast.BinaryExpr, pre *[]string) string {
	info := x.p.info
	// comparisons with nil
	if v.Op == token.EQL || v.Op == token.NEQ {
		var other ast.Expr
		if x.isNilIdent(v.Y) {
			other = v.X
		} else if x.isNilIdent(v.X) {
			other = v.Y
		}
		if other != nil {
			T := info.TypeOf(other)
			if _, isIface := T.Underlying().(*types.Interface); isIface {
				op := ".eq"
				if v.Op == token.NEQ {
					op = ".ne"
				}
				return fmt.Sprintf("(.op2 %s %s (.lit 0))", op, x.expr(other, pre))
			}
			if ctPtrLike(T) { // nil-ness of pointers and slices is not represented
				if v.Op == token.EQL {
					return "(.lit 0)"
				}
				return "(.lit 1)"
			}
			x.fail(v.Pos(), "comparison of %s with nil", T)
		}
	}
	if v.Op == token.LAND || v.Op == token.LOR {
		a := x.expr(v.X, pre)
		// the strict operators .land / .lor evaluate both operands: exact only if the right operand cannot fail
		// (an index or slice out of range, a shift count) when Go would have skipped it — or if the left operand is
		// the constant that makes Go evaluate the right one anyway
		forced := (v.Op == token.LOR && a == "(.lit 0)") || (v.Op == token.LAND && a == "(.lit 1)")
		if !x.hasEffects(v.Y) && (forced || !ctMayFail(v.Y)) {
			var p2 []string
			b := x.expr(v.Y, &p2)
			if len(p2) == 0 {
				op := ".land"
				if v.Op == token.LOR {
					op = ".lor"
				}
				return fmt.Sprintf("(.op2 %s %s %s)", op, a, b)
			}
		}
		// short circuit with effects on the right: g := a; t := g; if g (resp. !g) { t = b }
		// (the guard keeps its own variable: its label must not be raised by b)
		g := x.tmp()
		t := x.tmp()
		*pre = append(*pre, fmt.Sprintf(".assign %d [] %s", g, a), fmt.Sprintf(".assign %d [] %s", t, ctVar(g)))
		var p2 []string
		b := x.expr(v.Y, &p2)
		p2 = append(p2, fmt.Sprintf(".assign %d [] %s", t, b))
		cond := ctVar(g)
		if v.Op == token.LOR {
			cond = "(.op1 .lnot " + cond + ")"
		}
		*pre = append(*pre, fmt.Sprintf(".ite %s %s .skip", cond, ctSeq(p2)))
		return ctVar(t)
	}
	T := info.TypeOf(v)
	switch v.Op {
	case token.EQL, token.NEQ, token.LSS, token.LEQ, token.GTR, token.GEQ:
		if !ctIsIntRepr(info.TypeOf(v.X)) {
			x.fail(v.Pos(), "comparison of non-integers")
		}
		op := map[token.Token]string{token.EQL: ".eq", token.NEQ: ".ne", token.LSS: ".lt", token.LEQ: ".le", token.GTR: ".gt", token.GEQ: ".ge"}[v.Op]
		return fmt.Sprintf("(.op2 %s %s %s)", op, x.expr(v.X, pre), x.expr(v.Y, pre))
	case token.SHL, token.SHR:
		a := x.expr(v.X, pre)
		if c, ok := x.constOf(v.Y); ok && !strings.HasPrefix(c, "-") {
			if v.Op == token.SHL {
				return fmt.Sprintf("(.op1 (.shlc %s %s) %s)", x.ty(T, v.Pos()), c, a)
			}
			return fmt.Sprintf("(.op1 (.shrc %s) %s)", c, a)
		}
		b := x.expr(v.Y, pre)
		if v.Op == token.SHL {
			return fmt.Sprintf("(.op2 (.shl %s) %s %s)", x.ty(T, v.Pos()), a, b)
		}
		return fmt.Sprintf("(.op2 .shr %s %s)", a, b)
	case token.QUO:
		// len(x) / 2^k only: the dividend is non-negative, so the quotient is a right shift
		if call, ok := ast.Unparen(v.X).(*ast.CallExpr); ok {
			if id, ok := ast.Unparen(call.Fun).(*ast.Ident); ok && id.Name == "len" {
				if c, ok := x.constOf(v.Y); ok {
					for k, pw := 0, int64(1); k < 62; k, pw = k+1, pw*2 {
						if fmt.Sprint(pw) == c {
							return fmt.Sprintf("(.op1 (.shrc %d) %s)", k, x.expr(v.X, pre))
						}
					}
				}
			}
		}
		x.fail(v.Pos(), "division is supported only as len(x) / 2^k")
	}
	op, ok := map[token.Token]string{token.ADD: ".add", token.SUB: ".sub", token.MUL: ".mul", token.AND: ".and", token.OR: ".or", token.XOR: ".xor"}[v.Op]
	if !ok {
		x.fail(v.Pos(), "unsupported binary operator %s", v.Op)
	}
	return fmt.Sprintf("(.op2 (%s %s) %s %s)", op, x.ty(T, v.Pos()), x.expr(v.X, pre), x.expr(v.Y, pre))
}

func ctSeq(ss []string) string {
	switch len(ss) {
	case 0:
		return ".skip"
	case 1:
		return "(" + ss[0] + ")"
	}
	return "(seqs [" + strings.Join(ss, ",\n    ") + "])"
}

// ---- lvalues ----------------------------------------------------------------------------------------------

type ctLv struct {
	v        int
	path     []string
	root     types.Object
	ptrSteps int    // index steps through elements of pointer type
	lastPtr  bool   // the last step was such a step
	win      *ctWin // a window [lo, hi) of the root variable (only with an empty path); hi "" = to the end
}

type ctWin struct{ lo, hi string }

func (x *fnTr) lvalue(e ast.Expr, pre *[]string) (ctLv, bool) {
	info := x.p.info
	switch v := e.(type) {
	case *ast.ParenExpr:
		return x.lvalue(v.X, pre)
	case *ast.Ident:
		if vw := x.viewOf(v); vw != nil {
			return ctLv{v: vw.base, root: vw.baseObj, win: &ctWin{lo: ctVar(vw.off)}}, true
		}
		if n, ok := x.varOf(v); ok {
			o := info.Uses[v]
			if o == nil {
				o = info.Defs[v]
			}
			return ctLv{v: n, root: o}, true
		}
		if o, ok := info.Uses[v].(*types.Var); ok && ctInMine(o) {
			x.fail(v.Pos(), "package-level variable %s used as storage", v.Name)
		}
		return ctLv{}, false
	case *ast.StarExpr:
		return x.lvalue(v.X, pre)
	case *ast.UnaryExpr:
		if v.Op == token.AND {
			if _, ok := ast.Unparen(v.X).(*ast.CompositeLit); ok {
				return ctLv{}, false
			}
			return x.lvalue(v.X, pre)
		}
	case *ast.SelectorExpr:
		if _, ok := info.Selections[v]; ok {
			lv, ok := x.lvalue(v.X, pre)
			if !ok {
				return lv, false
			}
			if lv.win != nil {
				x.fail(v.Pos(), "field of a slice window")
			}
			lv.path = append([]string{}, lv.path...)
			for _, k := range x.fieldPath(v) {
				lv.path = append(lv.path, fmt.Sprintf(".c %d", k))
			}
			lv.lastPtr = false
			return lv, true
		}
		if o, ok := info.Uses[v.Sel].(*types.Var); ok && ctInMine(o) {
			x.fail(v.Pos(), "package-level variable %s used as storage", v.Sel.Name)
		}
	case *ast.IndexExpr:
		lv, ok := x.lvalue(v.X, pre)
		if !ok {
			return lv, false
		}
		step := ""
		if lv.win != nil {
			// an element of a window: index lo + i of the root
			step = ".e " + x.hoist(fmt.Sprintf("(.op2 (.add .i64) %s %s)", lv.win.lo, x.expr(v.Index, pre)), pre)
			lv.win = nil
		} else if c, ok := x.constOf(v.Index); ok && !strings.HasPrefix(c, "-") {
			step = ".c " + c
		} else {
			step = ".e " + x.hoist(x.expr(v.Index, pre), pre)
		}
		lv.path = append(append([]string{}, lv.path...), step)
		lv.lastPtr = false
		if _, isPtr := info.TypeOf(v).Underlying().(*types.Pointer); isPtr {
			lv.ptrSteps++
			lv.lastPtr = true
		}
		return lv, true
	case *ast.SliceExpr:
		if v.Low == nil && v.High == nil {
			return x.lvalue(v.X, pre)
		}
		if ctWindows && !v.Slice3 {
			lv, ok := x.lvalue(v.X, pre)
			if !ok || len(lv.path) != 0 {
				return ctLv{}, false
			}
			base := "(.lit 0)"
			oldHi := ""
			if lv.win != nil {
				base, oldHi = lv.win.lo, lv.win.hi
			}
			w := &ctWin{lo: base, hi: oldHi}
			if v.Low != nil {
				w.lo = x.hoist(fmt.Sprintf("(.op2 (.add .i64) %s %s)", base, x.expr(v.Low, pre)), pre)
			}
			if v.High != nil {
				w.hi = x.hoist(fmt.Sprintf("(.op2 (.add .i64) %s %s)", base, x.expr(v.High, pre)), pre)
			}
			lv.win = w
			return lv, true
		}
	case *ast.CallExpr:
		if tv, ok := info.Types[v.Fun]; ok && tv.IsType() && len(v.Args) == 1 && !ctIsIntRepr(tv.Type) {
			return x.lvalue(v.Args[0], pre)
		}
	}
	return ctLv{}, false
}

func (x *fnTr) pathStr(p []string) string { return "[" + strings.Join(p, ", ") + "]" }

func (x *fnTr) store(lv ctLv, val string, pos token.Pos, rebind bool, out *[]string) {
	if lv.win != nil {
		// the window [lo, hi) of the root is replaced by val (of the same length)
		b := ctVar(lv.v)
		tail := ""
		if lv.win.hi != "" {
			tail = fmt.Sprintf("(.slice %s %s (.len %s))", b, lv.win.hi, b)
		}
		v := val
		if tail != "" {
			v = fmt.Sprintf("(.cat %s %s)", val, tail)
		}
		val = fmt.Sprintf("(.cat (.slice %s (.lit 0) %s) %s)", b, lv.win.lo, v)
		lv.win = nil
	}
	*out = append(*out, fmt.Sprintf(".assign %d %s %s", lv.v, x.pathStr(lv.path), val))
	if len(lv.path) > 0 || !rebind {
		via := lv.ptrSteps > 0
		if rebind && lv.lastPtr {
			via = lv.ptrSteps > 1
		}
		x.wr = append(x.wr, ctWrite{root: x.resolve(lv.root), pos: pos, viaPtr: via, br: append([]ctBranch{}, x.branches...)})
	}
}

func (x *fnTr) resolve(o types.Object) types.Object {
	if a, ok := x.al[o]; ok && a != nil {
		return a
	}
	return o
}

// outermost enclosing loop that does not contain the declaration of r
func (x *fnTr) aliasPos(pos token.Pos, r types.Object) token.Pos {
	for _, l := range x.loops {
		if r == nil || !(l.Pos() <= r.Pos() && r.Pos() < l.End()) {
			return l.Pos()
		}
	}
	return pos
}

func (x *fnTr) noteAlias(xo, r types.Object, pos token.Pos, snap bool) {
	if xo == nil || r == nil || xo == r {
		return
	}
	ap := x.aliasPos(pos, r)
	end := x.curEnd
	if ap != pos || end < pos {
		end = ap
	}
	x.pairs = append(x.pairs, ctAliasPair{x: xo, r: r, pos: ap, snap: snap, br: append([]ctBranch{}, x.branches...), end: end})
}

// ---- calls --------------------------------------------------------------------------------------------------

func (x *fnTr) builtinName(call *ast.CallExpr) string {
	if id, ok := ast.Unparen(call.Fun).(*ast.Ident); ok {
		if _, ok := x.p.info.Uses[id].(*types.Builtin); ok {
			return id.Name
		}
	}
	return ""
}

func (x *fnTr) extID(key string) int {
	if n, ok := x.t.extIdx[key]; ok {
		return n
	}
	n := len(x.t.exts)
	x.t.exts = append(x.t.exts, key)
	x.t.extIdx[key] = n
	return n
}

// call translates a call; used = its results are needed.  Returns the result expressions.
func (x *fnTr) call(call *ast.CallExpr, pre *[]string, used bool) []string {
	info := x.p.info
	// conversions
	if tv, ok := info.Types[call.Fun]; ok && tv.IsType() {
		if len(call.Args) != 1 {
			x.fail(call.Pos(), "conversion arity")
		}
		src := x.t.src(call)
		if strings.HasPrefix(src, "int(math.Pow(2, float64(") && strings.HasSuffix(src, ")) - 1)") {
			// int(math.Pow(2, float64(w)) - 1) for a small int w: exactly 2^w - 1
			inner := call.Args[0].(*ast.BinaryExpr).X.(*ast.CallExpr).Args[1].(*ast.CallExpr).Args[0]
			w := x.hoist(x.expr(inner, pre), pre)
			return []string{fmt.Sprintf("(.op2 (.sub .i64) (.op2 (.shl .i64) (.lit 1) %s) (.lit 1))", w)}
		}
		from := info.TypeOf(call.Args[0])
		if ctIsIntRepr(tv.Type) {
			if !ctIsIntRepr(from) {
				x.fail(call.Pos(), "conversion %s -> %s", from, tv.Type)
			}
			return []string{fmt.Sprintf("(.op1 (.conv %s) %s)", x.ty(tv.Type, call.Pos()), x.expr(call.Args[0], pre))}
		}
		switch tv.Type.Underlying().(type) {
		case *types.Pointer, *types.Slice, *types.Array:
			return []string{x.expr(call.Args[0], pre)}
		}
		x.fail(call.Pos(), "unsupported conversion to %s", tv.Type)
	}
	switch x.builtinName(call) {
	case "len":
		return []string{"(.len " + x.expr(call.Args[0], pre) + ")"}
	case "new":
		return []string{x.zero(info.TypeOf(call.Args[0]), call.Pos())}
	case "make":
		if len(call.Args) != 2 {
			x.fail(call.Pos(), "make with capacity / without length")
		}
		sl, ok := info.TypeOf(call.Args[0]).Underlying().(*types.Slice)
		if !ok {
			x.fail(call.Pos(), "make of non-slice")
		}
		return []string{fmt.Sprintf("(.mk %s %s)", x.expr(call.Args[1], pre), x.zero(sl.Elem(), call.Pos()))}
	case "append":
		x.appendGuard(call)
		a := x.expr(call.Args[0], pre)
		if call.Ellipsis.IsValid() {
			return []string{fmt.Sprintf("(.cat %s %s)", a, x.expr(call.Args[1], pre))}
		}
		for _, el := range call.Args[1:] {
			a = fmt.Sprintf("(.cat %s (.mk (.lit 1) %s))", a, x.expr(el, pre))
		}
		return []string{a}
	case "copy":
		if used {
			x.fail(call.Pos(), "result of copy used")
		}
		x.copyStmt(call, pre)
		return nil
	case "panic":
		*pre = append(*pre, ".panic")
		return nil
	case "cap":
		return []string{x.capExpr(call.Args[0])}
	case "":
	default:
		x.fail(call.Pos(), "unsupported builtin %s", x.builtinName(call))
	}
	if rs, ok := x.protoCall(call, pre, used); ok {
		return rs
	}
	if key := x.t.devirtKey(x.p, call); key != "" {
		g, ok := x.t.fns[key]
		if !ok {
			x.fail(call.Pos(), "devirtualised callee %s was not discovered", key)
		}
		return x.userCall(call, g, pre, used)
	}
	o := ctCalleeOf(info, call)
	if o == nil {
		x.fail(call.Pos(), "call without a static target: %s", x.t.src(call.Fun))
	}
	if g, ok := x.t.byObj[o]; ok {
		return x.userCall(call, x.t.variantFor(g, info, call, false), pre, used)
	}
	if sp, ok := ctAsm[ctFuncKey(o)]; ok && ctInMine(o) {
		return x.asmCall(call, ctFuncKey(o), sp, pre, used)
	}
	if ctInMine(o) {
		x.fail(call.Pos(), "callee %s was not discovered", ctFuncKey(o))
	}
	key := ctExtKey(o)
	if rs, ok := x.binaryCall(call, key, pre); ok {
		return rs
	}
	arg := func(i int) string { return x.hoist(x.expr(call.Args[i], pre), pre) }
	switch key {
	case "bits.Mul64":
		a, b := arg(0), arg(1)
		return []string{fmt.Sprintf("(.op2 .mul64hi %s %s)", a, b), fmt.Sprintf("(.op2 .mul64lo %s %s)", a, b)}
	case "bits.Add64", "bits.Sub64", "bits.Sub32":
		a, b, c := arg(0), arg(1), arg(2)
		ops := map[string][2]string{"bits.Add64": {".add64s", ".add64c"}, "bits.Sub64": {".sub64d", ".sub64b"}, "bits.Sub32": {".sub32d", ".sub32b"}}[key]
		return []string{fmt.Sprintf("(.op3 %s %s %s %s)", ops[0], a, b, c), fmt.Sprintf("(.op3 %s %s %s %s)", ops[1], a, b, c)}
	case "subtle.ConstantTimeByteEq":
		return []string{fmt.Sprintf("(.op2 .cteq8 %s %s)", x.expr(call.Args[0], pre), x.expr(call.Args[1], pre))}
	case "subtle.ConstantTimeCompare":
		return []string{fmt.Sprintf("(.cteq %s %s)", x.expr(call.Args[0], pre), x.expr(call.Args[1], pre))}
	case "errors.New":
		return []string{"(.lit 1)"}
	case "big.NewInt":
		return []string{x.expr(call.Args[0], pre)}
	}
	sp, ok := extTable[key]
	if !ok {
		x.fail(call.Pos(), "call of %s leaves the analysed world and is not in extTable", key)
	}
	return x.extCall(call, key, sp, pre)
}

func (x *fnTr) extCall(call *ast.CallExpr, key string, sp extSpec, pre *[]string) []string {
	info := x.p.info
	id := x.extID(key)
	leaky := "false"
	if sp.leaky {
		leaky = "true"
	}
	var args []string
	switch {
	case key == "io.ReadFull":
		lv, ok := x.lvalue(call.Args[1], pre)
		if !ok || len(lv.path) != 0 {
			x.fail(call.Pos(), "io.ReadFull into something that is not a whole variable")
		}
		if x.rdPos < 0 {
			x.fail(call.Pos(), "io.ReadFull without a reader position")
		}
		args = []string{x.expr(call.Args[0], pre), "(.len " + x.expr(call.Args[1], pre) + ")", ctVar(x.rdPos)}
		n, e := x.tmp(), x.tmp()
		*pre = append(*pre, fmt.Sprintf(".ext [%d, %d, %d, %d] %d %s [%s]", lv.v, n, e, x.rdPos, id, leaky, strings.Join(args, ", ")))
		x.wr = append(x.wr, ctWrite{root: x.resolve(lv.root), pos: call.Pos(), br: append([]ctBranch{}, x.branches...)})
		return []string{ctVar(n), ctVar(e)}
	case key == "big.Int.Bytes":
		// l := ByteLen(z); (declassified at a listed site, or left secret: the checker then rejects the
		// allocation) b := FillBytes(z, make([]byte, l))
		sel := ast.Unparen(call.Fun).(*ast.SelectorExpr)
		z := x.hoist(x.expr(sel.X, pre), pre)
		l := x.tmp()
		*pre = append(*pre, fmt.Sprintf(".ext [%d] %d false [%s]", l, x.extID("big.Int.ByteLen"), z))
		if site := x.siteOf2(call); site >= 0 {
			l2 := x.tmp()
			*pre = append(*pre, fmt.Sprintf(".declass %d %d %s", l2, site, ctVar(l)))
			l = l2
		}
		b := x.tmp()
		*pre = append(*pre, fmt.Sprintf(".ext [%d] %d false [%s, (.mk %s (.lit 0))]", b, x.extID("big.Int.FillBytes"), z, ctVar(l)))
		return []string{ctVar(b)}
	case key == "big.Int.FillBytes":
		sel := ast.Unparen(call.Fun).(*ast.SelectorExpr)
		lv, ok := x.lvalue(call.Args[0], pre)
		if !ok || len(lv.path) != 0 {
			x.fail(call.Pos(), "FillBytes into something that is not a whole variable")
		}
		args = []string{x.expr(sel.X, pre), x.expr(call.Args[0], pre)}
		*pre = append(*pre, fmt.Sprintf(".ext [%d] %d %s [%s]", lv.v, id, leaky, strings.Join(args, ", ")))
		x.wr = append(x.wr, ctWrite{root: x.resolve(lv.root), pos: call.Pos(), br: append([]ctBranch{}, x.branches...)})
		return []string{ctVar(lv.v)}
	case strings.HasPrefix(key, "big.Int."):
		sel := ast.Unparen(call.Fun).(*ast.SelectorExpr)
		if sp.setter {
			for _, a := range call.Args {
				args = append(args, x.expr(a, pre))
			}
			r := x.tmp()
			*pre = append(*pre, fmt.Sprintf(".ext [%d] %d %s [%s]", r, id, leaky, strings.Join(args, ", ")))
			if lv, ok := x.lvalue(sel.X, pre); ok {
				x.store(lv, ctVar(r), call.Pos(), true, pre)
			}
			return []string{ctVar(r)}
		}
		args = append(args, x.expr(sel.X, pre))
		for _, a := range call.Args {
			args = append(args, x.expr(a, pre))
		}
		r := x.tmp()
		*pre = append(*pre, fmt.Sprintf(".ext [%d] %d %s [%s]", r, id, leaky, strings.Join(args, ", ")))
		return []string{ctVar(r)}
	default: // fmt.Errorf: the format string is dropped, the operands are arguments
		for _, a := range call.Args {
			if b, ok := info.TypeOf(a).Underlying().(*types.Basic); ok && b.Info()&types.IsString != 0 {
				continue
			}
			args = append(args, x.expr(a, pre))
		}
		r := x.tmp()
		*pre = append(*pre, fmt.Sprintf(".ext [%d] %d %s [%s]", r, id, leaky, strings.Join(args, ", ")))
		if key == "fmt.Errorf" {
			return []string{"(.lit 1)"} // a non-nil error
		}
		return []string{ctVar(r)}
	}
}

// copy(dst[lo:], src): dst = dst[:lo] ++ src[:m] ++ dst[lo+m:], m = min(len(dst)-lo, len(src))
func (x *fnTr) copyStmt(call *ast.CallExpr, pre *[]string) {
	dstE := ast.Unparen(call.Args[0])
	if c, ok := dstE.(*ast.CallExpr); ok { // ([]uint64)(e.x[:])
		if tv, ok := x.p.info.Types[c.Fun]; ok && tv.IsType() {
			dstE = ast.Unparen(c.Args[0])
		}
	}
	lo := "(.lit 0)"
	base := dstE
	if se, ok := dstE.(*ast.SliceExpr); ok {
		if se.High != nil || se.Slice3 {
			x.fail(call.Pos(), "copy into a slice with an upper bound")
		}
		base = se.X
		if se.Low != nil {
			lo = x.hoist(x.expr(se.Low, pre), pre)
		}
	}
	lv, ok := x.lvalue(base, pre)
	if !ok {
		x.fail(call.Pos(), "copy into a value that is not storage")
	}
	d := x.hoist(x.expr(base, pre), pre)
	s := x.hoist(x.expr(call.Args[1], pre), pre)
	m := x.tmp()
	*pre = append(*pre, fmt.Sprintf(".assign %d [] (.op2 .min (.op2 (.sub .i64) (.len %s) %s) (.len %s))", m, d, lo, s))
	val := fmt.Sprintf("(.cat (.slice %s (.lit 0) %s) (.cat (.slice %s (.lit 0) %s) (.slice %s (.op2 (.add .i64) %s %s) (.len %s))))",
		d, lo, s, ctVar(m), d, lo, ctVar(m), d)
	x.store(lv, val, call.Pos(), false, pre)
}

func (x *fnTr) userCall(call *ast.CallExpr, g *ctFn, pre *[]string, used bool) []string {
	info := x.p.info
	args := x.t.alignArgs(g, info, call)
	if x.t.readerFn(g, map[*ctFn]bool{}) && !x.forwardsReader(call, g) {
		x.fail(call.Pos(), "%s reads from an io.Reader: the reader position is modelled per entry function, such a function cannot be a callee", g.key)
	}
	if len(args) != len(g.params) {
		x.fail(call.Pos(), "call of %s with %d arguments for %d parameters (variadic?)", g.key, len(args), len(g.params))
	}
	vals := make([]string, len(args))
	lvs := make([]*ctLv, len(args))
	roots := make([]types.Object, len(args))
	for j, a := range args {
		pt := g.params[j].Type()
		if a == nil {
			// a field of the caller's own exploded receiver
			n, ok := x.vars[g.params[j]]
			if !ok {
				x.fail(call.Pos(), "%s: the receiver is not the caller's own receiver", g.key)
			}
			vals[j] = ctVar(n)
			continue
		}
		if x.isNilIdent(a) {
			vals[j] = x.zero(pt, a.Pos())
			continue
		}
		vals[j] = x.expr(a, pre)
		if ctPtrLike(pt) {
			roots[j] = x.resolve(x.t.rootObj(x.p, a, x.al))
		}
		if g.written[j] {
			lv, ok := x.lvalue(a, pre)
			if ok {
				lvs[j] = &lv
			} else if r := x.t.rootObj(x.p, a, x.al); r != nil {
				x.fail(a.Pos(), "argument %s of %s is written by the callee but is not addressable storage in the IR (it points into %s)", x.t.src(a), g.key, r.Name())
			}
		}
	}
	for _, k := range g.capParams {
		vals = append(vals, x.capExpr(args[k]))
	}
	// aliasing between a written parameter and another pointer parameter
	for j := range args {
		if !g.written[j] || roots[j] == nil {
			continue
		}
		for k := range args {
			if k == j || roots[k] == nil || roots[k] != roots[j] {
				continue
			}
			if g.written[k] {
				// two written parameters on the same storage: fine only if the paths are disjoint fields
				if lvs[j] != nil && lvs[k] != nil && ctDisjoint(lvs[j].path, lvs[k].path) {
					continue
				}
				x.fail(call.Pos(), "%s: parameters %d and %d are both written and share storage %s", g.key, j, k, roots[j].Name())
			}
			if lvs[j] != nil && args[k] != nil {
				if lvk, ok := x.lvalue(args[k], &[]string{}); ok && ctDisjoint(lvs[j].path, lvk.path) {
					continue
				}
			}
			if why := x.t.readBeforeWrite(g, j, k, 0); why != "" {
				x.fail(call.Pos(), "%s is called with parameters %d (written) and %d on the same storage %s, and %s", g.key, j, k, roots[j].Name(), why)
			}
		}
	}
	var lhs []string
	var after []string
	for j := range args {
		if !g.written[j] {
			continue
		}
		if lvs[j] == nil {
			lhs = append(lhs, fmt.Sprint(x.junk))
			continue
		}
		if len(lvs[j].path) == 0 && lvs[j].win == nil {
			lhs = append(lhs, fmt.Sprint(lvs[j].v))
			x.wr = append(x.wr, ctWrite{root: x.resolve(lvs[j].root), pos: call.Pos(), br: append([]ctBranch{}, x.branches...)})
			continue
		}
		t := x.tmp()
		lhs = append(lhs, fmt.Sprint(t))
		x.store(*lvs[j], ctVar(t), call.Pos(), false, &after)
	}
	var res []string
	for i := range g.results {
		if !used {
			lhs = append(lhs, fmt.Sprint(x.junk))
			continue
		}
		t := x.tmp()
		lhs = append(lhs, fmt.Sprint(t))
		res = append(res, ctVar(t))
		// a returned pointer that points into an argument's storage
		if ctPtrLike(g.results[i].Type()) && !g.rets[i].fresh {
			if g.rets[i].param < 0 {
				x.fail(call.Pos(), "%s returns a pointer of unknown origin", g.key)
			}
		}
	}
	*pre = append(*pre, fmt.Sprintf(".call [%s] %d [%s]", strings.Join(lhs, ", "), g.id, strings.Join(vals, ", ")))
	*pre = append(*pre, after...)
	return res
}

func ctDisjoint(a, b []string) bool {
	for i := 0; i < len(a) && i < len(b); i++ {
		if strings.HasPrefix(a[i], ".c ") && strings.HasPrefix(b[i], ".c ") && a[i] != b[i] {
			return true
		}
	}
	return false
}

// accessStep: for an access chain (x, *x, &x.f, x[i], x[a:b], T(x) ...) the variable at its root and the
// first step applied to it ("" whole value, "c<k>" constant index, "f<k>" field, "*" anything else)
func (t *ctTr) accessStep(p *ctPkg, e ast.Expr) (*ast.Ident, string) {
	switch v := e.(type) {
	case *ast.Ident:
		return v, ""
	case *ast.ParenExpr:
		return t.accessStep(p, v.X)
	case *ast.StarExpr:
		return t.accessStep(p, v.X)
	case *ast.UnaryExpr:
		if v.Op == token.AND {
			return t.accessStep(p, v.X)
		}
	case *ast.SelectorExpr:
		if sel, ok := p.info.Selections[v]; ok && sel.Kind() == types.FieldVal {
			id, st := t.accessStep(p, v.X)
			if id != nil && st == "" {
				st = fmt.Sprintf("f%v", sel.Index())
			}
			return id, st
		}
	case *ast.IndexExpr:
		id, st := t.accessStep(p, v.X)
		if id != nil && st == "" {
			st = "*"
			if tv, ok := p.info.Types[v.Index]; ok && tv.Value != nil {
				st = "c" + tv.Value.ExactString()
			}
		}
		return id, st
	case *ast.SliceExpr:
		id, st := t.accessStep(p, v.X)
		if id != nil && st == "" && (v.Low != nil || v.High != nil) {
			st = "*"
		}
		return id, st
	case *ast.CallExpr:
		if tv, ok := p.info.Types[v.Fun]; ok && tv.IsType() && len(v.Args) == 1 {
			return t.accessStep(p, v.Args[0])
		}
	}
	return nil, ""
}

func ctStepsMeet(a, b map[string]bool) bool {
	if len(a) == 0 || len(b) == 0 {
		return false
	}
	if a["*"] || b["*"] || a[""] || b[""] {
		return true
	}
	for k := range a {
		if b[k] {
			return true
		}
	}
	return false
}

// readBeforeWrite: when parameters w (written) and r of g are the same storage, does g behave as in
// the value semantics of the IR, i.e. is every component of r read before it is written through w?
// Checked per top-level statement and per first-level component.  "" = yes, otherwise the reason.
func (t *ctTr) readBeforeWrite(g *ctFn, w, r int, depth int) string {
	if g.decl == nil || depth > 8 {
		return "the callee cannot be inspected"
	}
	p := g.pkg
	al := t.buildAliases(g)
	objOf := func(id *ast.Ident) (types.Object, bool) {
		o := p.info.Uses[id]
		if o == nil {
			return nil, false
		}
		if a, ok := al[o]; ok && a != nil {
			return a, true // through a local alias: the component is unknown
		}
		return o, false
	}
	// reads of parameter prm in n, by component
	reads := func(n ast.Node, prm int) map[string]bool {
		out := map[string]bool{}
		var visit func(n ast.Node)
		visit = func(n ast.Node) {
			ast.Inspect(n, func(m ast.Node) bool {
				e, ok := m.(ast.Expr)
				if !ok {
					return true
				}
				id, st := t.accessStep(p, e)
				if id == nil {
					return true
				}
				if o, viaAlias := objOf(id); o == g.params[prm] {
					if viaAlias {
						st = "*"
					}
					out[st] = true
				}
				// continue below into index expressions only
				for x := e; x != nil; {
					switch v := x.(type) {
					case *ast.IndexExpr:
						visit(v.Index)
						x = v.X
					case *ast.SliceExpr:
						if v.Low != nil {
							visit(v.Low)
						}
						if v.High != nil {
							visit(v.High)
						}
						x = v.X
					case *ast.ParenExpr:
						x = v.X
					case *ast.StarExpr:
						x = v.X
					case *ast.UnaryExpr:
						x = v.X
					case *ast.SelectorExpr:
						x = v.X
					case *ast.CallExpr:
						x = v.Args[0]
					default:
						x = nil
					}
				}
				return false
			})
		}
		visit(n)
		return out
	}
	stepOf := func(e ast.Expr) (string, bool) {
		if t.rootObj(p, e, al) != g.params[w] {
			return "", false
		}
		id, st := t.accessStep(p, e)
		if id == nil {
			return "*", true
		}
		if _, viaAlias := objOf(id); viaAlias {
			st = "*"
		}
		return st, true
	}
	writes := func(n ast.Node) map[string]bool {
		out := map[string]bool{}
		ast.Inspect(n, func(n ast.Node) bool {
			switch s := n.(type) {
			case *ast.AssignStmt:
				for _, l := range s.Lhs {
					if _, ok := ast.Unparen(l).(*ast.Ident); !ok {
						if st, ok := stepOf(l); ok {
							out[st] = true
						}
					}
				}
			case *ast.IncDecStmt:
				if st, ok := stepOf(s.X); ok {
					out[st] = true
				}
			case *ast.CallExpr:
				if o := ctCalleeOf(p.info, s); o != nil {
					if h, ok := t.byObj[o]; ok {
						for j, a := range t.alignArgs(h, p.info, s) {
							if a != nil && j < len(h.written) && h.written[j] {
								if st, ok := stepOf(a); ok {
									out[st] = true
								}
							}
						}
					} else if sp, ok := ctAsm[ctFuncKey(o)]; ok && ctInMine(o) {
						for _, k := range sp.written {
							if st, ok := stepOf(s.Args[k]); ok {
								out[st] = true
							}
						}
					}
				}
				if id, ok := ast.Unparen(s.Fun).(*ast.Ident); ok && id.Name == "copy" {
					if _, ok := stepOf(s.Args[0]); ok {
						out["*"] = true
					}
				}
			}
			return true
		})
		return out
	}
	written := map[string]bool{}
	for _, st := range g.decl.Body.List {
		rd := reads(st, r)
		wr := writes(st)
		if ctStepsMeet(rd, written) {
			return fmt.Sprintf("%s uses parameter %s (%s) after writing that part through %s", g.key, g.params[r].Name(), t.fset.Position(st.Pos()), g.params[w].Name())
		}
		if ctStepsMeet(rd, wr) {
			if why := t.sameStmtSafe(g, st, w, r, al, depth); why != "" {
				return why
			}
		}
		for k := range wr {
			written[k] = true
		}
	}
	return ""
}

// sameStmtSafe: one statement both reads r and writes through w
func (t *ctTr) sameStmtSafe(g *ctFn, st ast.Stmt, w, r int, al aliasMap, depth int) string {
	p := g.pkg
	var call *ast.CallExpr
	switch s := st.(type) {
	case *ast.AssignStmt:
		if len(s.Rhs) == 1 {
			if c, ok := ast.Unparen(s.Rhs[0]).(*ast.CallExpr); ok {
				call = c
			} else {
				return "" // the right-hand side is evaluated before the store
			}
		}
	case *ast.ExprStmt:
		call, _ = s.X.(*ast.CallExpr)
	case *ast.ReturnStmt:
		if len(s.Results) == 1 {
			call, _ = ast.Unparen(s.Results[0]).(*ast.CallExpr)
		}
	}
	if call != nil {
		if o := ctCalleeOf(p.info, call); o != nil {
			if _, isAsm := ctAsm[ctFuncKey(o)]; isAsm && ctInMine(o) {
				return "" // an assembly routine: its model is a function of the argument values
			}
			if h, ok := t.byObj[o]; ok {
				args := t.alignArgs(h, p.info, call)
				nested := false
				for _, a := range args {
					if a == nil {
						continue
					}
					ast.Inspect(a, func(n ast.Node) bool {
						if c, isCall := n.(*ast.CallExpr); isCall {
							if tv, isT := p.info.Types[c.Fun]; !isT || !tv.IsType() {
								if id, ok := ast.Unparen(c.Fun).(*ast.Ident); !ok || id.Name != "len" {
									nested = true
								}
							}
						}
						return true
					})
				}
				if !nested {
					for j, a := range args {
						if a == nil || !h.written[j] || t.rootObj(p, a, al) != g.params[w] {
							continue
						}
						for k, b := range args {
							if b == nil || k == j || !ctPtrLike(h.params[k].Type()) || t.rootObj(p, b, al) != g.params[r] {
								continue // by-value arguments are read before the call
							}
							if why := t.readBeforeWrite(h, j, k, depth+1); why != "" {
								return why
							}
						}
					}
					return ""
				}
			}
		}
	}
	return fmt.Sprintf("%s reads parameter %s and writes through %s in the same statement (%s)", g.key, g.params[r].Name(), g.params[w].Name(), t.fset.Position(st.Pos()))
}

// ---- statements --------------------------------------------------------------------------------------------

func (x *fnTr) siteOf2(n ast.Node) int { return x.siteOfText(x.t.src(n), n.Pos()) }

func (x *fnTr) siteOf(cond ast.Expr) int { return x.siteOfText(x.t.src(cond), cond.Pos()) }

func (x *fnTr) siteOfText(txt string, pos token.Pos) int {
	for i, d := range declassTable {
		if (d.fn == x.f.key || (x.f.base != nil && d.fn == x.f.base.key)) && d.cond == txt {
			x.t.sites[i].pos = x.t.fset.Position(pos).String()
			x.t.usedDeclass[i] = true
			seen := false
			for _, s := range x.f.sites {
				seen = seen || s == i
			}
			if !seen {
				x.f.sites = append(x.f.sites, i)
			}
			return i
		}
	}
	return -1
}

func (x *fnTr) block(list []ast.Stmt) string {
	var out []string
	for _, s := range list {
		x.stmt(s, &out)
	}
	return ctSeq(out)
}

// assignTo stores val into the Go expression lhs (declaring it when define is set)
func (x *fnTr) assignTo(lhs ast.Expr, val string, define bool, rhs ast.Expr, out *[]string) {
	if id, ok := ast.Unparen(lhs).(*ast.Ident); ok {
		if id.Name == "_" {
			return
		}
		var n int
		if define && x.p.info.Defs[id] != nil {
			n = x.declare(id)
		} else {
			var ok bool
			n, ok = x.varOf(id)
			if !ok {
				x.fail(id.Pos(), "assignment to %s which is not a local variable", id.Name)
			}
		}
		o := x.p.info.Defs[id]
		if o == nil {
			o = x.p.info.Uses[id]
		}
		if v, ok := o.(*types.Var); ok && ctPtrLike(v.Type()) {
			if pi := x.f.paramIndex(v); pi >= 0 {
				_, isSlice := v.Type().Underlying().(*types.Slice)
				if !(ctWindows && isSlice && !x.f.written[pi]) {
					x.fail(id.Pos(), "pointer/slice parameter %s is re-bound", id.Name)
				}
			}
			if rhs != nil {
				if r := x.t.rootObj(x.p, rhs, x.al); r != nil && r != o {
					x.noteAlias(o, x.resolve(r), lhs.Pos(), false)
				}
				x.noteHolds(o, rhs, lhs.Pos())
			}
		}
		*out = append(*out, fmt.Sprintf(".assign %d [] %s", n, val))
		return
	}
	lv, ok := x.lvalue(lhs, out)
	if !ok {
		x.fail(lhs.Pos(), "unsupported assignment target %s", x.t.src(lhs))
	}
	rebind := ctPtrLike(x.p.info.TypeOf(lhs))
	if rebind && rhs != nil {
		if r := x.t.rootObj(x.p, rhs, x.al); r != nil {
			if len(lv.path) > 0 && strings.HasPrefix(lv.path[len(lv.path)-1], ".c ") && !lv.lastPtr {
				if _, isField := ast.Unparen(lhs).(*ast.SelectorExpr); isField {
					x.fail(lhs.Pos(), "pointer field would share storage with %s", r.Name())
				}
			}
			x.noteAlias(x.resolve(lv.root), x.resolve(r), lhs.Pos(), true)
		}
		x.noteHolds(x.resolve(lv.root), rhs, lhs.Pos())
	}
	x.store(lv, val, lhs.Pos(), rebind, out)
}

// a call result that keeps pointers into the storage of some arguments
func (x *fnTr) noteHolds(xo types.Object, rhs ast.Expr, pos token.Pos) {
	call, ok := ast.Unparen(rhs).(*ast.CallExpr)
	if !ok {
		return
	}
	if o := ctCalleeOf(x.p.info, call); o != nil {
		if g, ok := x.t.byObj[o]; ok && len(g.holds) > 0 {
			args := x.t.alignArgs(g, x.p.info, call)
			for _, k := range g.holds[0] {
				if r := x.t.rootObj(x.p, args[k], x.al); r != nil {
					x.noteAlias(xo, x.resolve(r), pos, true)
				}
			}
		}
	}
}

func (x *fnTr) stmt(s ast.Stmt, out *[]string) {
	info := x.p.info
	switch s.(type) {
	case *ast.AssignStmt, *ast.DeclStmt, *ast.ExprStmt, *ast.ReturnStmt, *ast.IncDecStmt:
		x.curEnd = s.End()
	}
	switch v := s.(type) {
	case *ast.EmptyStmt:
	case *ast.BlockStmt:
		for _, s := range v.List {
			x.stmt(s, out)
		}
	case *ast.DeclStmt:
		gd := v.Decl.(*ast.GenDecl)
		if gd.Tok == token.CONST || gd.Tok == token.TYPE {
			return
		}
		for _, sp := range gd.Specs {
			vs := sp.(*ast.ValueSpec)
			if len(vs.Values) != 0 && len(vs.Values) != len(vs.Names) {
				x.fail(vs.Pos(), "multi-value var declaration")
			}
			for i, n := range vs.Names {
				if len(vs.Values) == 0 {
					if n.Name != "_" {
						*out = append(*out, fmt.Sprintf(".assign %d [] %s", x.declare(n), x.zero(info.Defs[n].Type(), n.Pos())))
					}
					continue
				}
				val := x.expr(vs.Values[i], out)
				x.assignTo(n, val, true, vs.Values[i], out)
			}
		}
	case *ast.ExprStmt:
		call, ok := v.X.(*ast.CallExpr)
		if !ok {
			x.fail(v.Pos(), "expression statement that is not a call")
		}
		x.call(call, out, false)
	case *ast.IncDecStmt:
		op := ".add"
		if v.Tok == token.DEC {
			op = ".sub"
		}
		val := fmt.Sprintf("(.op2 (%s %s) %s (.lit 1))", op, x.ty(info.TypeOf(v.X), v.Pos()), x.expr(v.X, out))
		x.assignTo(v.X, val, false, nil, out)
	case *ast.AssignStmt:
		x.assign(v, out)
	case *ast.ReturnStmt:
		x.ret(v, out)
	case *ast.BranchStmt:
		if v.Label != nil {
			x.fail(v.Pos(), "labelled branch")
		}
		switch v.Tok {
		case token.BREAK:
			*out = append(*out, ".brk")
		case token.CONTINUE:
			*out = append(*out, ".cont")
		default:
			x.fail(v.Pos(), "unsupported branch %s", v.Tok)
		}
	case *ast.IfStmt:
		if v.Init != nil {
			x.stmt(v.Init, out)
		}
		if c, ok := ctAssume[x.t.src(v.Cond)]; ok {
			// fixed by the premises of the property (recorded in the generated file): only the live branch exists
			if v.Init != nil {
				x.stmt(v.Init, out)
			}
			if c == "1" {
				x.stmt(v.Body, out)
			} else if v.Else != nil {
				x.stmt(v.Else, out)
			}
			return
		}
		if id, ok := ast.Unparen(v.Cond).(*ast.Ident); ok && x.f.specVar != nil && info.Uses[id] == x.f.specVar {
			// the clone for a constant value of this parameter: only the taken branch exists
			if x.f.specVal {
				x.stmt(v.Body, out)
			} else if v.Else != nil {
				x.stmt(v.Else, out)
			}
			return
		}
		cond := x.expr(v.Cond, out)
		if site := x.siteOf(v.Cond); site >= 0 {
			t := x.tmp()
			*out = append(*out, fmt.Sprintf(".declass %d %d %s", t, site, cond))
			cond = ctVar(t)
		}
		x.branches = append(x.branches, ctBranch{v.Pos(), 0})
		th := x.block(v.Body.List)
		el := ".skip"
		if v.Else != nil {
			x.branches[len(x.branches)-1].arm = 1
			el = x.block([]ast.Stmt{v.Else})
		}
		x.branches = x.branches[:len(x.branches)-1]
		*out = append(*out, fmt.Sprintf(".ite %s %s %s", cond, th, el))
	case *ast.ForStmt:
		if v.Init != nil {
			x.stmt(v.Init, out)
		}
		x.loops = append(x.loops, v)
		cond := "(.lit 1)"
		if v.Cond != nil {
			var pre []string
			cond = x.expr(v.Cond, &pre)
			if len(pre) != 0 {
				x.fail(v.Cond.Pos(), "loop condition with calls")
			}
		}
		body := x.block(v.Body.List)
		post := ".skip"
		if v.Post != nil {
			post = x.block([]ast.Stmt{v.Post})
		}
		x.loops = x.loops[:len(x.loops)-1]
		*out = append(*out, fmt.Sprintf(".loop %s %s %s", cond, body, post))
	case *ast.RangeStmt:
		x.rangeStmt(v, out)
	default:
		x.fail(s.Pos(), "unsupported statement %T", s)
	}
}

func (x *fnTr) rangeStmt(v *ast.RangeStmt, out *[]string) {
	info := x.p.info
	switch ctDeref(info.TypeOf(v.X)).Underlying().(type) {
	case *types.Array, *types.Slice:
	default:
		x.fail(v.Pos(), "range over %s", info.TypeOf(v.X))
	}
	if x.hasEffects(v.X) {
		x.fail(v.X.Pos(), "range over an expression with effects")
	}
	if v.Tok == token.ASSIGN {
		x.fail(v.Pos(), "range with assignment to existing variables")
	}
	arr := x.expr(v.X, out)
	// Go evaluates the ranged value once; the body must not write to it
	rootX := x.resolve(x.t.rootObj(x.p, v.X, x.al))
	nW := len(x.wr)
	n := x.tmp()
	*out = append(*out, fmt.Sprintf(".assign %d [] (.len %s)", n, arr))
	var i int
	if id, ok := v.Key.(*ast.Ident); ok && id.Name != "_" {
		i = x.declare(id)
	} else {
		i = x.tmp()
	}
	*out = append(*out, fmt.Sprintf(".assign %d [] (.lit 0)", i))
	x.loops = append(x.loops, v)
	var body []string
	if v.Value != nil {
		id, ok := v.Value.(*ast.Ident)
		if !ok {
			x.fail(v.Value.Pos(), "unsupported range value")
		}
		if id.Name != "_" {
			body = append(body, fmt.Sprintf(".assign %d [] (.idx %s %s)", x.declare(id), arr, ctVar(i)))
		}
	}
	for _, s := range v.Body.List {
		x.stmt(s, &body)
	}
	x.loops = x.loops[:len(x.loops)-1]
	for _, w := range x.wr[nW:] {
		if rootX != nil && w.root == rootX {
			x.fail(v.Pos(), "the body of the range loop writes to the ranged value %s", rootX.Name())
		}
	}
	*out = append(*out, fmt.Sprintf(".loop (.op2 .lt %s %s) %s (.assign %d [] (.op2 (.add .i64) %s (.lit 1)))", ctVar(i), ctVar(n), ctSeq(body), i, ctVar(i)))
}

func (x *fnTr) assign(v *ast.AssignStmt, out *[]string) {
	info := x.p.info
	define := v.Tok == token.DEFINE
	if v.Tok != token.ASSIGN && v.Tok != token.DEFINE {
		if len(v.Lhs) != 1 || len(v.Rhs) != 1 {
			x.fail(v.Pos(), "op-assignment arity")
		}
		opTok := map[token.Token]token.Token{token.ADD_ASSIGN: token.ADD, token.SUB_ASSIGN: token.SUB, token.MUL_ASSIGN: token.MUL,
			token.AND_ASSIGN: token.AND, token.OR_ASSIGN: token.OR, token.XOR_ASSIGN: token.XOR, token.SHL_ASSIGN: token.SHL, token.SHR_ASSIGN: token.SHR}
		bt, ok := opTok[v.Tok]
		if !ok {
			x.fail(v.Pos(), "unsupported assignment operator %s", v.Tok)
		}
		T := info.TypeOf(v.Lhs[0])
		a := x.expr(v.Lhs[0], out)
		var val string
		switch bt {
		case token.SHL, token.SHR:
			if c, ok := x.constOf(v.Rhs[0]); ok && !strings.HasPrefix(c, "-") {
				if bt == token.SHL {
					val = fmt.Sprintf("(.op1 (.shlc %s %s) %s)", x.ty(T, v.Pos()), c, a)
				} else {
					val = fmt.Sprintf("(.op1 (.shrc %s) %s)", c, a)
				}
			} else if bt == token.SHL {
				val = fmt.Sprintf("(.op2 (.shl %s) %s %s)", x.ty(T, v.Pos()), a, x.expr(v.Rhs[0], out))
			} else {
				val = fmt.Sprintf("(.op2 .shr %s %s)", a, x.expr(v.Rhs[0], out))
			}
		default:
			op := map[token.Token]string{token.ADD: ".add", token.SUB: ".sub", token.MUL: ".mul", token.AND: ".and", token.OR: ".or", token.XOR: ".xor"}[bt]
			val = fmt.Sprintf("(.op2 (%s %s) %s %s)", op, x.ty(T, v.Pos()), a, x.expr(v.Rhs[0], out))
		}
		x.assignTo(v.Lhs[0], val, false, nil, out)
		return
	}
	if len(v.Rhs) == 1 && len(v.Lhs) > 1 {
		call, ok := ast.Unparen(v.Rhs[0]).(*ast.CallExpr)
		if !ok {
			x.fail(v.Pos(), "multi-value assignment from a non-call")
		}
		rs := x.call(call, out, true)
		if len(rs) != len(v.Lhs) {
			x.fail(v.Pos(), "call gives %d values for %d targets", len(rs), len(v.Lhs))
		}
		resView := x.t.resViewsOf(x.p, call)
		for i, l := range v.Lhs {
			if b, ok := resView[i]; ok {
				// this result is a window of result b of the same call: the callee returned its offset
				x.bindResultView(l, v.Lhs[b], rs[i], define, out)
				continue
			}
			var r ast.Expr
			if i == 0 {
				r = v.Rhs[0]
			}
			x.assignTo(l, rs[i], define, r, out)
		}
		return
	}
	if len(v.Lhs) != len(v.Rhs) {
		x.fail(v.Pos(), "assignment arity")
	}
	if len(v.Lhs) == 1 {
		if x.viewAssign(v, out) {
			return
		}
		if x.builderAssign(v, out) {
			return
		}
		val := x.expr(v.Rhs[0], out)
		if id, ok := v.Lhs[0].(*ast.Ident); ok && ctIsIntRepr(info.TypeOf(v.Rhs[0])) {
			if site := x.siteOf2(v); site >= 0 { // a verdict stored in a variable
				var n int
				if define {
					n = x.declare(id)
				} else {
					n, _ = x.varOf(id)
				}
				*out = append(*out, fmt.Sprintf(".declass %d %d %s", n, site, val))
				return
			}
		}
		x.assignTo(v.Lhs[0], val, define, v.Rhs[0], out)
		return
	}
	// parallel assignment: all right-hand sides first
	tmps := make([]string, len(v.Rhs))
	for i, r := range v.Rhs {
		e := x.expr(r, out)
		t := x.tmp()
		*out = append(*out, fmt.Sprintf(".assign %d [] %s", t, e))
		tmps[i] = ctVar(t)
	}
	for i, l := range v.Lhs {
		x.assignTo(l, tmps[i], define, v.Rhs[i], out)
	}
}

func (x *fnTr) ret(v *ast.ReturnStmt, out *[]string) {
	var vals []string
	switch {
	case len(v.Results) == 0:
		for _, r := range x.f.results {
			if vw, ok := x.views[r]; ok {
				vals = append(vals, ctVar(vw.off)) // a window of another result: its offset
				continue
			}
			n, ok := x.vars[r]
			if !ok {
				x.fail(v.Pos(), "bare return with unnamed results")
			}
			vals = append(vals, ctVar(n))
		}
	case len(v.Results) == 1 && len(x.f.results) > 1:
		call, ok := ast.Unparen(v.Results[0]).(*ast.CallExpr)
		if !ok {
			x.fail(v.Pos(), "return arity")
		}
		vals = x.call(call, out, true)
	default:
		if len(v.Results) != len(x.f.results) {
			x.fail(v.Pos(), "return arity")
		}
		for i, e := range v.Results {
			if x.isNilIdent(e) {
				vals = append(vals, x.zero(x.f.results[i].Type(), e.Pos()))
				continue
			}
			vals = append(vals, x.expr(e, out))
		}
	}
	var all []string
	for j, w := range x.f.written {
		if w {
			all = append(all, ctVar(x.vars[x.f.params[j]]))
		}
	}
	all = append(all, vals...)
	*out = append(*out, fmt.Sprintf(".ret [%s]", strings.Join(all, ", ")))
}

// usesReader: the function calls io.ReadFull itself
func (t *ctTr) usesReader(f *ctFn) bool {
	if f.decl == nil {
		return false
	}
	found := false
	ast.Inspect(f.decl.Body, func(n ast.Node) bool {
		if c, ok := n.(*ast.CallExpr); ok {
			if o := ctCalleeOf(f.pkg.info, c); o != nil && ctFuncKey(o) == "io.ReadFull" {
				found = true
			}
		}
		return true
	})
	return found
}

func ctLabel(T types.Type, result bool) string {
	switch u := T.Underlying().(type) {
	case *types.Basic:
		switch u.Kind() {
		case types.Int, types.Uint:
			if result {
				return "H"
			}
			return "L"
		case types.Bool:
			return "L"
		}
		return "H"
	case *types.Interface:
		return "L"
	}
	return "H"
}

func (t *ctTr) translate(f *ctFn) {
	x := &fnTr{t: t, f: f, p: f.pkg, vars: map[types.Object]int{}, rdPos: -1, views: map[types.Object]*ctView{}}
	var out []string
	if f.decl == nil {
		x.al = aliasMap{}
		x.junk = x.newVar("_", nil)
		val := x.expr(f.initX, &out)
		out = append(out, fmt.Sprintf(".ret [%s]", val))
		f.rLabels = []string{"H"}
	} else {
		x.al = t.buildAliases(f)
		for _, p := range f.params {
			name := p.Name()
			if name == "" || name == "_" {
				name = fmt.Sprintf("p%d", len(x.names))
			}
			x.newVar(name, p)
			l := ctLabel(p.Type(), false)
			if _, ok := ctDevirt[ctFieldKey(p)]; ok {
				l = "H" // an interface field with a known concrete value (a struct)
			}
			if o, ok := labelOverride[f.key+"/"+p.Name()]; ok {
				l = o
			}
			f.pLabels = append(f.pLabels, l)
		}
		x.capVar = map[types.Object]int{}
		for _, k := range f.capParams {
			x.capVar[f.params[k]] = x.newVar(f.params[k].Name()+"$cap", nil)
			f.pLabels = append(f.pLabels, "L")
		}
		for j, w := range f.written {
			if w {
				f.rLabels = append(f.rLabels, f.pLabels[j])
			}
		}
		for i, r := range f.results {
			if _, isView := f.resView[i]; isView {
				f.rLabels = append(f.rLabels, "L") // returned as the offset of the window
				continue
			}
			l := ctLabel(r.Type(), true)
			if o, ok := labelOverride[fmt.Sprintf("%s/result%d", f.key, i)]; ok {
				l = o
			}
			f.rLabels = append(f.rLabels, l)
			if r.Name() != "" && r.Name() != "_" {
				n := x.newVar(r.Name(), r)
				out = append(out, fmt.Sprintf(".assign %d [] %s", n, x.zero(r.Type(), r.Pos())))
			}
		}
		x.junk = x.newVar("_", nil)
		x.planViews(&out)
		if t.usesReader(f) {
			x.rdPos = x.newVar("reader$pos", nil)
			out = append(out, fmt.Sprintf(".assign %d [] (.lit 0)", x.rdPos))
		}
		for _, s := range f.decl.Body.List {
			x.stmt(s, &out)
		}
		if len(f.results) == 0 {
			x.ret(&ast.ReturnStmt{Return: f.decl.Body.Rbrace}, &out)
		} else {
			out = append(out, ".panic") // not reachable in Go (a missing return does not compile)
		}
		// the aliasing discipline
		for _, pr := range x.pairs {
			for _, w := range x.wr {
				if w.pos < pr.pos || ctExclusive(pr.br, w.br) {
					continue
				}
				if !pr.snap && !(x.usedAfter(pr.x, pr.end) && x.usedAfter(pr.r, pr.end)) {
					continue // one of the two names is dead after the alias is made: no other view of the storage
				}
				if pr.snap {
					if w.root == pr.r || (w.root == pr.x && w.viaPtr) {
						x.fail(w.pos, "write to %s while %s keeps a pointer into %s (kept at %s)", w.root.Name(), pr.x.Name(), pr.r.Name(), t.fset.Position(pr.pos))
					}
				} else if w.root == pr.r || w.root == pr.x {
					x.fail(w.pos, "write to %s while %s aliases %s (alias made at %s)", w.root.Name(), pr.x.Name(), pr.r.Name(), t.fset.Position(pr.pos))
				}
			}
		}
	}
	f.body = ctSeq(out)
	f.nvars = len(x.names)
	f.varNames = x.names
}

// ---- driver and output ----------------------------------------------------------------------------------------

func ctIdent(key string) string {
	r := strings.NewReplacer(".", "_", "$", "_", "=", "_")
	return r.Replace(key)
}

func ctLabels(ls []string) string {
	out := make([]string, len(ls))
	for i, l := range ls {
		out[i] = "." + l
	}
	return "[" + strings.Join(out, ", ") + "]"
}

func ctStrList(sb *strings.Builder, name string, items []string) {
	fmt.Fprintf(sb, "def %s : List String := [", name)
	for i, s := range items {
		if i > 0 {
			sb.WriteString(", ")
		}
		fmt.Fprintf(sb, "%q", s)
	}
	sb.WriteString("]\n\n")
}

func genCTIR() {
	var sb strings.Builder
	sb.WriteString("/- GENERATED by /verif/go/cmd/translate (ctir) from utils/utils.go, sm2/sm2.go, sm2/internal/*.go, sm2/internal/fiat/*.go — do not edit. -/\n")
	sb.WriteString("import SMGo.Model.CTIR\nimport SMGo.Gen.SM2Params\nimport SMGo.Gen.SM2Tables\nset_option maxRecDepth 1000000\nnamespace SMGo.Gen.CTIRProg\nopen SMGo.Model.CTIR\n\n")
	sb.WriteString(ctBuild())
	sb.WriteString("end SMGo.Gen.CTIRProg\n")
	writeIfChanged("CTIRProg.lean", []byte(sb.String()))
}

// ctBuild runs the translator with the current tables and returns the body of the generated namespace
func ctBuild() string {
	fset := token.NewFileSet()
	t := &ctTr{fset: fset, pkgs: ctLoad(fset), fns: map[string]*ctFn{}, byObj: map[*types.Func]*ctFn{},
		variants: map[*ctFn]map[bool]*ctFn{}, globIdx: map[string]int{}, globInit: map[string]*ctFn{}, extIdx: map[string]int{}, usedDeclass: map[int]bool{}}
	for _, d := range declassTable {
		t.sites = append(t.sites, ctSite{fn: d.fn, cond: d.cond, why: d.why})
	}
	var extKeys []string
	for k := range extTable {
		if !ctExtLate[k] {
			extKeys = append(extKeys, k)
		}
	}
	sort.Strings(extKeys)
	for _, k := range extKeys {
		t.extIdx[k] = len(t.exts)
		t.exts = append(t.exts, k)
	}
	for _, key := range ctRoots {
		if _, ok := t.fns[key]; ok {
			continue
		}
		f := t.addFn(key)
		t.discoverNode(f.pkg, f.decl.Body)
	}
	// globals: translated initialisers first, then the table-defined ones (which may use them)
	sort.SliceStable(t.globals, func(i, j int) bool {
		_, a := globalLean[t.globals[i]]
		_, b := globalLean[t.globals[j]]
		return !a && b
	})
	for i, g := range t.globals {
		t.globIdx[g] = i
	}
	for i, f := range t.order {
		f.id = i
	}
	for changed := true; changed; {
		changed = false
		for _, f := range t.order {
			if t.analyse(f) {
				changed = true
			}
		}
	}
	for _, f := range t.order {
		if f.base != nil {
			f.written, f.rets, f.holds = f.base.written, f.base.rets, f.base.holds
		}
	}
	t.planCapsAndViews()
	for _, f := range t.order {
		func() {
			if ctOptional[f.key] {
				t.soft = true
				defer func() {
					t.soft = false
					if r := recover(); r != nil {
						a, ok := r.(ctAbort)
						if !ok {
							panic(r)
						}
						f.failed = a.msg
						fmt.Fprintf(os.Stderr, "translate: ctir: optional root %s not translated: %s\n", f.key, a.msg)
					}
				}()
			}
			t.translate(f)
		}()
	}
	for i, d := range declassTable {
		if !t.usedDeclass[i] {
			if f, ok := t.fns[d.fn]; !ok || f.failed == "" {
				die("ctir: declassification site (%s, %q) does not occur in the source", d.fn, d.cond)
			}
		}
	}

	var sb strings.Builder
	sb.WriteString("def seqs : List Stmt → Stmt\n  | [] => .skip\n  | [s] => s\n  | s :: ss => .seq s (seqs ss)\n\n")
	sb.WriteString("/-! function numbers -/\n")
	for _, f := range t.order {
		fmt.Fprintf(&sb, "def f_%s : Nat := %d\n", ctIdent(f.key), f.id)
	}
	sb.WriteString("\n")
	var names, failedL []string
	for _, f := range t.order {
		names = append(names, f.key)
		pos := ""
		if f.decl != nil {
			pos = t.fset.Position(f.decl.Pos()).String()
		} else {
			pos = t.fset.Position(f.initX.Pos()).String()
		}
		if f.failed != "" {
			failedL = append(failedL, f.key+": "+f.failed)
			fmt.Fprintf(&sb, "/-- %s (%s): NOT TRANSLATED: %s -/\ndef fn_%d : Fn := { nparams := %d, nvars := %d, body := .panic, stub := true }\n\n",
				f.key, pos, strings.ReplaceAll(f.failed, "-/", "- /"), f.id, len(f.params)+len(f.capParams), len(f.params)+len(f.capParams))
			continue
		}
		var vn []string
		for i, n := range f.varNames {
			vn = append(vn, fmt.Sprintf("%d=%s", i, n))
		}
		var wr []string
		for j, w := range f.written {
			if w {
				wr = append(wr, f.params[j].Name())
			}
		}
		text := fmt.Sprintf("/-- %s (%s)\n    variables: %s\n    returns: final values of [%s], then the %d Go result(s) -/\n", f.key, pos, strings.Join(vn, " "), strings.Join(wr, ", "), len(f.results)) +
			fmt.Sprintf("def fn_%d : Fn := { nparams := %d, nvars := %d, body :=\n  %s }\n\n", f.id, len(f.params)+len(f.capParams), f.nvars, f.body)
		if ctBase != nil && f.id < ctBase.nfn {
			// an extension of another generated program: the function is the one of the base program (same number, and the
			// translator would emit the same text: checked against the base file)
			if !strings.Contains(ctBase.text, text) {
				die("ctir: function %d (%s) differs from the one in the base program %s", f.id, f.key, ctBase.ns)
			}
			fmt.Fprintf(&sb, "/-- %s: the function of the base program -/\ndef fn_%d : Fn := %s.fn_%d\n\n", f.key, f.id, ctBase.ns, f.id)
			continue
		}
		sb.WriteString(text)
	}
	if ctBase != nil {
		if len(t.order) < ctBase.nfn {
			die("ctir: fewer functions than the base program")
		}
		sb.WriteString("def extra : List Fn := [")
		for i := ctBase.nfn; i < len(t.order); i++ {
			if i > ctBase.nfn {
				sb.WriteString(", ")
			}
			fmt.Fprintf(&sb, "fn_%d", i)
		}
		fmt.Fprintf(&sb, "]\n\n/-- the base program followed by the new functions -/\ndef prog : Prog := %s.prog ++ extra\n\n", ctBase.ns)
	} else {
		sb.WriteString("def prog : Prog := [")
		for i := range t.order {
			if i > 0 {
				sb.WriteString(", ")
			}
			fmt.Fprintf(&sb, "fn_%d", i)
		}
		sb.WriteString("]\n\n")
	}
	ctStrList(&sb, "fnNames", names)
	ctStrList(&sb, "notTranslated", failedL)
	sb.WriteString("/-- labels: parameters by Go type (int, bool, interfaces public; bytes, words, arrays, elements, points secret)\n    with the overrides of labelOverride; results: written parameters, then Go results (int results are verdict codes: secret) -/\ndef sigs : Sigs := {\n  fn := [\n")
	for i, f := range t.order {
		sites := make([]string, len(f.sites))
		for k, s := range f.sites {
			sites[k] = fmt.Sprint(s)
		}
		pl := f.pLabels
		if f.failed != "" {
			pl = make([]string, len(f.params)+len(f.capParams))
			for k := range pl {
				pl[k] = "H"
			}
		}
		sep := ","
		if i == len(t.order)-1 {
			sep = ""
		}
		fmt.Fprintf(&sb, "    { params := %s, results := %s, declass := [%s] }%s -- %d %s\n", ctLabels(pl), ctLabels(f.rLabels), strings.Join(sites, ", "), sep, i, f.key)
	}
	sb.WriteString("  ],\n  ext := [")
	for i, e := range t.exts {
		if i > 0 {
			sb.WriteString(", ")
		}
		sb.WriteString(ctLabels(extTable[e].results))
	}
	sb.WriteString("] }\n\n")
	ctStrList(&sb, "extNames", t.exts)
	if ctEmitAsmSpecs {
		sb.WriteString(ctAsmSpecsLean(t.exts))
	} else {
		sb.WriteString("/-- the executable model of each external call (`stdOracle extKinds tape`) -/\ndef extKinds : List ExtKind := [")
		for i, e := range t.exts {
			if i > 0 {
				sb.WriteString(", ")
			}
			sb.WriteString("." + extTable[e].kind)
		}
		sb.WriteString("]\n\n")
	}
	for i, e := range t.exts {
		fmt.Fprintf(&sb, "def x_%s : Nat := %d\n", ctIdent(e), i)
		if ctBase != nil && i < len(ctBase.exts) && ctBase.exts[i] != e {
			die("ctir: external %d is %s, but %s in the base program", i, e, ctBase.exts[i])
		}
	}
	if ctBase != nil && (len(t.exts) < len(ctBase.exts) || len(t.globals) < len(ctBase.globals)) {
		die("ctir: fewer externals or globals than the base program")
	}
	sb.WriteString("\n/-- declassification sites: (number, function, condition, reason, position) -/\ndef siteInfo : List (Nat × String × String × String × String) := [")
	for i, s := range t.sites {
		if i > 0 {
			sb.WriteString(",\n  ")
		}
		fmt.Fprintf(&sb, "(%d, %q, %q, %q, %q)", i, s.fn, s.cond, s.why, s.pos)
	}
	sb.WriteString("]\n\n")
	sb.WriteString(`/-! package-level variables (read-only): values computed by the interpreter from the translated
    initialisers, or from the generated parameter / table files -/
def natBytes (n : Nat) (v : Nat) : Val := .arr ((List.range n).map (fun i => .int (Int.ofNat ((v / 256 ^ (n - 1 - i)) % 256))))
def limbs4 (l : List Nat) : Val := .arr (l.map (fun x => .int (Int.ofNat x)))
def tab2 (t : List (List (List Nat))) : Val := .arr (t.map (fun a => .arr (a.map limbs4)))
def tab3 (t : List (List (List (List Nat)))) : Val := .arr (t.map tab2)
def mkG (l : List Val) : Nat → Val := fun g => l.getD g (.int 0)
def noX : Oracle := fun _ _ => []
def runRes (G : Nat → Val) (f : Nat) (args : List Val) : List Val :=
  match run prog G noX 10000000 f args with
  | some (.ret vs, _) => vs
  | _ => []
def zeroElem : Val := .arr [.arr [.int 0, .int 0, .int 0, .int 0]]
/-- new(Element).SetBytes(b): the element (first returned value) -/
def elemOfBytes (G : Nat → Val) (f : Nat) (b : Val) : Val := (runRes G f [zeroElem, b]).getD 0 (.int 0)

`)
	ctStrList(&sb, "globalNames", t.globals)
	prev := []string{}
	for i, g := range t.globals {
		if ctBase != nil && i < len(ctBase.globals) {
			if ctBase.globals[i] != g {
				die("ctir: global %d is %s, but %s in the base program", i, g, ctBase.globals[i])
			}
			fmt.Fprintf(&sb, "/-- %s: the value of the base program -/\ndef g_%d : Val := %s.g_%d\n\n", g, i, ctBase.ns, i)
			prev = append(prev, fmt.Sprintf("g_%d", i))
			continue
		}
		fmt.Fprintf(&sb, "/-- %s -/\ndef g_%d : Val :=\n  let G := mkG [%s]\n", g, i, strings.Join(prev, ", "))
		if lean, ok := globalLean[g]; ok {
			fmt.Fprintf(&sb, "  have _ := G\n  %s\n\n", lean)
		} else {
			fmt.Fprintf(&sb, "  (runRes G f_%s []).getD 0 (.int 0)\n\n", ctIdent(t.globInit[g].key))
		}
		prev = append(prev, fmt.Sprintf("g_%d", i))
	}
	fmt.Fprintf(&sb, "def globals : Nat → Val := mkG [%s]\n\n", strings.Join(prev, ", "))
	return sb.String()
}

func init() { extraCmds["ctir"] = genCTIR }
