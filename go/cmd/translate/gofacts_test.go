package main

import (
	"io/fs"
	"strings"
	"testing"
	"testing/fstest"
)

// the embedded fixture as an in-memory file system, with one file optionally rewritten
func fixtureWith(t *testing.T, file string, edit func(string) string) fs.FS {
	t.Helper()
	out := fstest.MapFS{}
	src := gfFixture()
	err := fs.WalkDir(src, ".", func(p string, d fs.DirEntry, err error) error {
		if err != nil || d.IsDir() {
			return err
		}
		b, err := fs.ReadFile(src, p)
		if err != nil {
			return err
		}
		if p == file {
			s := edit(string(b))
			if s == string(b) {
				t.Fatalf("edit of %s changed nothing", file)
			}
			b = []byte(s)
		}
		out[p] = &fstest.MapFile{Data: b}
		return nil
	})
	if err != nil {
		t.Fatal(err)
	}
	return out
}

func TestGoFactsSelfTest(t *testing.T) {
	cases, facts, bad := gfSelfTest(gfFixture())
	if len(bad) > 0 {
		t.Fatalf("self-test failed:\n  %s", strings.Join(bad, "\n  "))
	}
	t.Logf("%d cases, %d facts, configurations %v", cases, len(facts.facts), facts.configs)
}

// the self-test must notice an extractor that misses a planted fact or reports a benign line: simulated by
// editing the fixture so that its markers no longer agree with what the (correct) extractor reports
func TestGoFactsSelfTestDetects(t *testing.T) {
	for _, c := range []struct{ name, file, old, new, expect string }{
		{"unreported planted write", "fix/fix.go", "counter = 7 // want: write counter", "counter = 7 // want: write counter; write n", "planted but NOT reported"},
		{"write on a benign line", "fix/fix.go", "n = 2  // benign", "counter = 2  // benign", "reported but not planted"},
		{"shadow removed", "fix/fix.go", "one := big.NewInt(3) // benign", "one = big.NewInt(3) // benign", "reported but not planted"},
		{"arm64-only call unmarked", "fix/arch_arm64.go", " // want: call one SetInt64", "", "reported but not planted"},
		{"other package", "fix/fix.go", "// want: write inner.Tab", "", "reported but not planted"},
		{"alias lost", "fix/fix.go", "p := one ", "p := new(big.Int).Set(one) ", "planted but NOT reported"},
		{"parameter binding lost", "fix/fix.go", "s.fill(n, sl)", "s.fill(new(big.Int), sl)", "planted but NOT reported"},
		{"helper write unmarked", "fix/fix.go", "dst[0] = 1 // want: write table", "dst[0] = 1", "reported but not planted"},
		{"foreign argument unmarked", "fix/fix.go", "// want: farg sl8 (io.Reader).Read 0", "", "reported but not planted"},
		{"init-only lost", "fix/fix.go", "func init() {\n\tcounter = 5 ", "func Init() {\n\tcounter = 5 ", "reported but not planted"},
	} {
		fsys := fixtureWith(t, c.file, func(s string) string { return strings.Replace(s, c.old, c.new, 1) })
		_, _, bad := gfSelfTest(fsys)
		if !strings.Contains(strings.Join(bad, "\n"), c.expect) {
			t.Errorf("%s: expected a discrepancy %q, got %v", c.name, c.expect, bad)
		}
	}
}
