package main

// Sub-command "ctirsm4": the Go glue of the accelerated SM4 / GCM paths -> CT-IR
// (lean/SMGo/Gen/CTIRProgSM4.lean, namespaces Arm64 and Amd64), with the machinery of "ctir" (ctir.go).
//
// What is translated: sm4_gcm_arm64.go (Seal, Open, calculateFirstCounter, gHashUpdate, gHashFinish,
// cryptoBlocks with its length ladder, the counter helpers, ensureCapacity), sm4_gcm_amd64.go (Seal, Open,
// ensureCapacity), sm4_asm.go (newCipher, Encrypt, Decrypt), sm4_asm_arm64.go (cryptoBlockAsmX16),
// sm4_gcm.go (NewGCM).  Each architecture is one view of package sm4 (explicit file list: the files carry
// build constraints).  The portable cipher (sm4.go: T-table look-ups indexed by state bytes) is NOT in the
// scope of C09 ("on CPUs where the accelerated path is selected"): `candoAsm` is taken to be true and the
// branch to newCipherGeneric is not followed.
//
// Extensions of the Go subset used here (switched on by ctWindows, so that "ctir" is unchanged):
//   - a slice that is a window of another variable's storage and is written through is not copied: it is
//     a pair (base variable, public offset).  Cases: `out = out[256:]` on a written parameter (the
//     ladder of cryptoBlocks), `tail = head[len(array):]` between two results (ensureCapacity: the callee
//     returns the offset), and the variables bound to such results.  `x[lo:hi]` as a written argument
//     is a window that is stored back.
//   - `cap(p)` of a slice parameter is a hidden public parameter `p$cap`, passed along by callers;
//     `p[:hi]` with hi up to the capacity extends p by zero bytes (the bytes of the backing array beyond
//     len are not known to the model; they are overwritten before they are read).
//   - the receiver *sm4GcmAsm is replaced by its fields (key material secret, sizes public);
//     `g.cipher.Encrypt` is the method of *sm4CipherAsm (the value NewGCM stores there).
//   - binary.BigEndian.PutUint64/PutUint32/Uint32 are byte assignments / reads.
//   - an assembly routine is an external call whose model is a function of the argument VALUES: pointer
//     arguments `&a[i]` are the array from i on, written ones are stored back.  Before it, a leaking call
//     `asm.frame` records the routine and every non-pointer argument (scalars, lengths of slice arguments):
//     the checker therefore forces them to be public, which is the premise under which the
//     certificates of C09 for the routines compose (audit item C09-2).  needExpand reads nothing but its
//     frame: it is a leaking call on (len, cap, asked) with a public result.
import (
	"fmt"
	"go/ast"
	"go/token"
	"go/types"
	"sort"
	"strings"
)

var ctWindows = false
var ctEmitAsmSpecs = false

type ctAsmSpec struct {
	written []int  // pointer arguments written by the routine
	ret     string // label of the integer result ("" = none)
	header  bool   // reads only its frame: a leaking call on the header fields, public result
}

var ctAsm = map[string]ctAsmSpec{}
var ctDevirt = map[string]string{}   // "pkg.field" (interface-typed field) -> concrete type key
var ctExplode = map[string]bool{}    // struct types whose receivers are replaced by their fields
var ctAssume = map[string]string{}   // premises: global name or condition text -> "0" / "1"
var ctAllowShare = map[string]bool{} // constructors whose result keeps (read-only) pointers into an argument

type ctAsmShape struct {
	ptrs, slices []int
}

var ctAsmSeen = map[string]ctAsmShape{}

const ctFrameKey = "asm.frame"

type ctView struct {
	base    int
	baseObj types.Object
	off     int
}

func (x *fnTr) objOf(id *ast.Ident) types.Object {
	o := x.p.info.Uses[id]
	if o == nil {
		o = x.p.info.Defs[id]
	}
	return o
}

func (x *fnTr) viewOf(id *ast.Ident) *ctView {
	if len(x.views) == 0 {
		return nil
	}
	return x.views[x.objOf(id)]
}

func (x *fnTr) explodedField(sel *ast.SelectorExpr) (int, bool) {
	if x.f.recvObj == nil {
		return 0, false
	}
	id, ok := ast.Unparen(sel.X).(*ast.Ident)
	if !ok || x.p.info.Uses[id] != x.f.recvObj {
		return 0, false
	}
	s := x.p.info.Selections[sel]
	if s == nil || s.Kind() != types.FieldVal {
		return 0, false
	}
	n, ok := x.vars[s.Obj()]
	return n, ok
}

func ctExplodeStruct(T types.Type) (*types.Struct, bool) {
	if p, ok := T.(*types.Pointer); ok {
		T = p.Elem()
	}
	n, ok := T.(*types.Named)
	if !ok || n.Obj().Pkg() == nil || !ctExplode[n.Obj().Pkg().Name()+"."+n.Obj().Name()] {
		return nil, false
	}
	st, ok := n.Underlying().(*types.Struct)
	return st, ok
}

func ctFieldKey(v *types.Var) string {
	if v == nil || !v.IsField() || v.Pkg() == nil {
		return ""
	}
	return v.Pkg().Name() + "." + v.Name()
}

// devirtKey: `recv.field.Method(...)` through an interface-typed field with a known concrete type
func (t *ctTr) devirtKey(p *ctPkg, call *ast.CallExpr) string {
	if len(ctDevirt) == 0 {
		return ""
	}
	sel, ok := ast.Unparen(call.Fun).(*ast.SelectorExpr)
	if !ok {
		return ""
	}
	inner, ok := ast.Unparen(sel.X).(*ast.SelectorExpr)
	if !ok {
		return ""
	}
	s := p.info.Selections[inner]
	if s == nil || s.Kind() != types.FieldVal {
		return ""
	}
	fv, _ := s.Obj().(*types.Var)
	if tgt, ok := ctDevirt[ctFieldKey(fv)]; ok {
		return tgt + "." + sel.Sel.Name
	}
	return ""
}

// alignArgs: the argument expressions of a call, one per parameter of g (nil for the fields of an
// exploded receiver)
func (t *ctTr) alignArgs(g *ctFn, info *types.Info, call *ast.CallExpr) []ast.Expr {
	raw := ctCallArgs(info, call)
	if g.nExploded == 0 {
		return raw
	}
	out := make([]ast.Expr, g.nExploded, g.nExploded+len(raw))
	if len(raw) > 0 {
		out = append(out, raw[1:]...)
	}
	return out
}

func (x *fnTr) capExpr(e ast.Expr) string {
	id, ok := ast.Unparen(e).(*ast.Ident)
	if ok {
		if n, ok := x.capVar[x.objOf(id)]; ok {
			return ctVar(n)
		}
	}
	x.fail(e.Pos(), "capacity of %s is not known to the model (only of slice parameters)", x.t.src(e))
	return ""
}

// capExtension: `p[:hi]` on a slice parameter whose capacity is tracked: hi may exceed len(p) (up to the
// capacity).  The bytes beyond len(p) belong to the backing array and are unknown to the model: zeros.
// (hi below len(p) is not expected here: the allocation of a negative size makes the run stuck.)
func (x *fnTr) capExtension(v *ast.SliceExpr, a string, pre *[]string) (string, bool) {
	id, ok := ast.Unparen(v.X).(*ast.Ident)
	if !ok || v.Low != nil || v.High == nil {
		return "", false
	}
	cv, ok := x.capVar[x.objOf(id)]
	if !ok {
		return "", false
	}
	hi := x.hoist(x.expr(v.High, pre), pre)
	*pre = append(*pre, fmt.Sprintf(".ite (.op2 .gt %s %s) .panic .skip", hi, ctVar(cv)))
	return fmt.Sprintf("(.cat %s (.mk (.op2 (.sub .i64) %s (.len %s)) (.lit 0)))", a, hi, a), true
}

// usedAfter: is the variable referred to after pos, other than as the operand of len / cap?
func (x *fnTr) usedAfter(o types.Object, pos token.Pos) bool {
	if x.f.decl == nil || o == nil {
		return true
	}
	used := false
	var visit func(n ast.Node) bool
	visit = func(n ast.Node) bool {
		switch v := n.(type) {
		case *ast.CallExpr:
			if id, ok := ast.Unparen(v.Fun).(*ast.Ident); ok && (id.Name == "len" || id.Name == "cap") && len(v.Args) == 1 {
				if _, isId := ast.Unparen(v.Args[0]).(*ast.Ident); isId {
					return false
				}
			}
		case *ast.Ident:
			if v.Pos() > pos && x.p.info.Uses[v] == o {
				used = true
			}
		}
		return true
	}
	ast.Inspect(x.f.decl.Body, visit)
	return used
}

// ---- hidden capacity parameters and result windows (before any function is translated) ---------------------

func (t *ctTr) planCapsAndViews() {
	if !ctWindows {
		return
	}
	for _, f := range t.order {
		if f.decl == nil || f.base != nil {
			continue
		}
		// result j assigned as a window of result i
		ast.Inspect(f.decl.Body, func(n ast.Node) bool {
			as, ok := n.(*ast.AssignStmt)
			if !ok || len(as.Lhs) != 1 || len(as.Rhs) != 1 {
				return true
			}
			l, ok1 := as.Lhs[0].(*ast.Ident)
			se, ok2 := ast.Unparen(as.Rhs[0]).(*ast.SliceExpr)
			if !ok1 || !ok2 || se.High != nil || se.Low == nil {
				return true
			}
			b, ok := ast.Unparen(se.X).(*ast.Ident)
			if !ok {
				return true
			}
			lo, bo := f.pkg.info.Uses[l], f.pkg.info.Uses[b]
			li, bi := -1, -1
			for i, r := range f.results {
				if r == lo {
					li = i
				}
				if r == bo {
					bi = i
				}
			}
			if li >= 0 && bi >= 0 && li != bi {
				f.resView[li] = bi
			}
			return true
		})
	}
	for changed := true; changed; {
		changed = false
		for _, f := range t.order {
			if f.decl == nil || f.base != nil {
				continue
			}
			need := func(e ast.Expr) {
				id, ok := ast.Unparen(e).(*ast.Ident)
				if !ok {
					return
				}
				k := f.paramIndex(f.pkg.info.Uses[id])
				if k < 0 {
					return
				}
				for _, c := range f.capParams {
					if c == k {
						return
					}
				}
				f.capParams = append(f.capParams, k)
				sort.Ints(f.capParams)
				changed = true
			}
			ast.Inspect(f.decl.Body, func(n ast.Node) bool {
				call, ok := n.(*ast.CallExpr)
				if !ok {
					return true
				}
				if id, ok := ast.Unparen(call.Fun).(*ast.Ident); ok {
					if _, isB := f.pkg.info.Uses[id].(*types.Builtin); isB && id.Name == "cap" {
						need(call.Args[0])
					}
				}
				if o := ctCalleeOf(f.pkg.info, call); o != nil {
					if g, ok := t.byObj[o]; ok {
						args := t.alignArgs(g, f.pkg.info, call)
						for _, k := range g.capParams {
							if k < len(args) && args[k] != nil {
								need(args[k])
							}
						}
					} else if sp, ok := ctAsm[ctFuncKey(o)]; ok && sp.header {
						for _, a := range call.Args {
							if _, isSl := f.pkg.info.TypeOf(a).Underlying().(*types.Slice); isSl {
								need(a)
							}
						}
					}
				}
				return true
			})
		}
	}
}

// planViews: the window variables of this function (called when its variables are being allocated)
func (x *fnTr) planViews(out *[]string) {
	if !ctWindows || x.f.decl == nil {
		return
	}
	for j, i := range x.f.resView {
		tv := x.f.results[j]
		base, ok := x.vars[x.f.results[i]]
		if !ok {
			x.fail(tv.Pos(), "window of an unnamed result")
		}
		off := x.newVar(tv.Name()+"$off", nil)
		*out = append(*out, fmt.Sprintf(".assign %d [] (.lit 0)", off))
		x.views[tv] = &ctView{base: base, baseObj: x.f.results[i], off: off}
	}
	// `p = p[k:]` on a written slice parameter
	ast.Inspect(x.f.decl.Body, func(n ast.Node) bool {
		as, ok := n.(*ast.AssignStmt)
		if !ok || len(as.Lhs) != 1 || len(as.Rhs) != 1 || as.Tok != token.ASSIGN {
			return true
		}
		l, ok1 := as.Lhs[0].(*ast.Ident)
		se, ok2 := ast.Unparen(as.Rhs[0]).(*ast.SliceExpr)
		if !ok1 || !ok2 || se.High != nil || se.Low == nil {
			return true
		}
		b, ok := ast.Unparen(se.X).(*ast.Ident)
		if !ok || x.p.info.Uses[b] != x.p.info.Uses[l] {
			return true
		}
		o := x.p.info.Uses[l]
		k := x.f.paramIndex(o)
		if k < 0 || !x.f.written[k] || x.views[o] != nil {
			return true
		}
		off := x.newVar(l.Name+"$off", nil)
		*out = append(*out, fmt.Sprintf(".assign %d [] (.lit 0)", off))
		x.views[o] = &ctView{base: x.vars[o], baseObj: o, off: off}
		return true
	})
}

// viewAssign: `v = b[lo:]` where v is a window variable
func (x *fnTr) viewAssign(v *ast.AssignStmt, out *[]string) bool {
	if len(x.views) == 0 {
		return false
	}
	l, ok1 := v.Lhs[0].(*ast.Ident)
	se, ok2 := ast.Unparen(v.Rhs[0]).(*ast.SliceExpr)
	if !ok1 || !ok2 {
		return false
	}
	vw := x.views[x.objOf(l)]
	if vw == nil {
		return false
	}
	b, ok := ast.Unparen(se.X).(*ast.Ident)
	if !ok || se.High != nil || se.Low == nil || se.Slice3 {
		x.fail(v.Pos(), "window variable %s assigned from something that is not b[lo:]", l.Name)
	}
	lo := x.hoist(x.expr(se.Low, out), out)
	baseVar := ctVar(vw.base)
	var newOff string
	if x.objOf(b) == x.objOf(l) {
		newOff = fmt.Sprintf("(.op2 (.add .i64) %s %s)", ctVar(vw.off), lo)
	} else if n, ok := x.varOf(b); ok && n == vw.base {
		newOff = lo
	} else {
		x.fail(v.Pos(), "window variable %s assigned from a different base", l.Name)
	}
	// the bounds check of the slice expression (and its event)
	*out = append(*out, fmt.Sprintf(".assign %d [] (.len (.slice %s %s (.len %s)))", x.junk, baseVar, newOff, baseVar))
	*out = append(*out, fmt.Sprintf(".assign %d [] %s", vw.off, newOff))
	return true
}

func (t *ctTr) resViewsOf(p *ctPkg, call *ast.CallExpr) map[int]int {
	if o := ctCalleeOf(p.info, call); o != nil {
		if g, ok := t.byObj[o]; ok {
			return g.resView
		}
	}
	return nil
}

func (x *fnTr) bindResultView(l, lb ast.Expr, offVal string, define bool, out *[]string) {
	id, ok1 := l.(*ast.Ident)
	bid, ok2 := lb.(*ast.Ident)
	if !ok1 || !ok2 {
		x.fail(l.Pos(), "a window result must be bound to a variable")
	}
	baseN, ok := x.varOf(bid)
	if !ok {
		x.fail(lb.Pos(), "base of the window is not a variable")
	}
	o := x.objOf(id)
	off := x.newVar(id.Name+"$off", nil)
	*out = append(*out, fmt.Sprintf(".assign %d [] %s", off, offVal))
	x.views[o] = &ctView{base: baseN, baseObj: x.objOf(bid), off: off}
	_ = define
}

// ---- encoding/binary ------------------------------------------------------------------------------------------

func (x *fnTr) binaryCall(call *ast.CallExpr, key string, pre *[]string) ([]string, bool) {
	var n int
	switch key {
	case "binary.PutUint64":
		n = 8
	case "binary.PutUint32":
		n = 4
	case "binary.Uint32":
		b := x.hoist(x.expr(call.Args[0], pre), pre)
		e := ""
		for k := 0; k < 4; k++ {
			t := fmt.Sprintf("(.op1 (.shlc .u32 %d) (.op1 (.conv .u32) (.idxc %s %d)))", 8*(3-k), b, k)
			if e == "" {
				e = t
			} else {
				e = fmt.Sprintf("(.op2 (.or .u32) %s %s)", e, t)
			}
		}
		return []string{e}, true
	default:
		return nil, false
	}
	lv, ok := x.lvalue(call.Args[0], pre)
	if !ok || len(lv.path) != 0 {
		x.fail(call.Pos(), "%s into something that is not a window of a variable", key)
	}
	v := x.tmp()
	*pre = append(*pre, fmt.Sprintf(".assign %d [] %s", v, x.expr(call.Args[1], pre)))
	for k := 0; k < n; k++ {
		step := fmt.Sprintf(".c %d", k)
		if lv.win != nil {
			step = fmt.Sprintf(".e (.op2 (.add .i64) %s (.lit %d))", lv.win.lo, k)
		}
		*pre = append(*pre, fmt.Sprintf(".assign %d [%s] (.op1 (.conv .u8) (.op1 (.shrc %d) %s))", lv.v, step, 8*(n-1-k), ctVar(v)))
	}
	x.wr = append(x.wr, ctWrite{root: x.resolve(lv.root), pos: call.Pos(), br: append([]ctBranch{}, x.branches...)})
	return nil, true
}

// ---- assembly routines ----------------------------------------------------------------------------------------

func (x *fnTr) asmCall(call *ast.CallExpr, key string, sp ctAsmSpec, pre *[]string, used bool) []string {
	info := x.p.info
	id := x.extID(key)
	isWritten := func(k int) bool {
		for _, w := range sp.written {
			if w == k {
				return true
			}
		}
		return false
	}
	if sp.header {
		var args []string
		for _, a := range call.Args {
			if _, isSl := info.TypeOf(a).Underlying().(*types.Slice); isSl {
				args = append(args, "(.len "+x.hoist(x.expr(a, pre), pre)+")", x.capExpr(a))
			} else if ctIsIntRepr(info.TypeOf(a)) {
				args = append(args, x.hoist(x.expr(a, pre), pre))
			} else {
				x.fail(a.Pos(), "%s: unsupported argument", key)
			}
		}
		r := x.tmp()
		*pre = append(*pre, fmt.Sprintf(".ext [%d] %d true [%s]", r, id, strings.Join(args, ", ")))
		return []string{ctVar(r)}
	}
	frame := []string{ctLit(fmt.Sprint(id))}
	var vals []string
	var shape ctAsmShape
	lvs := map[int]ctLv{}
	for k, a := range call.Args {
		T := info.TypeOf(a)
		if x.isNilIdent(a) {
			vals = append(vals, "(.mk (.lit 0) (.lit 0))")
			shape.ptrs = append(shape.ptrs, k)
			continue
		}
		switch T.Underlying().(type) {
		case *types.Pointer:
			shape.ptrs = append(shape.ptrs, k)
			u, ok := ast.Unparen(a).(*ast.UnaryExpr)
			if !ok || u.Op != token.AND {
				x.fail(a.Pos(), "%s: pointer argument that is not &a[i]", key)
			}
			ix, ok := ast.Unparen(u.X).(*ast.IndexExpr)
			if !ok {
				x.fail(a.Pos(), "%s: pointer argument that is not &a[i]", key)
			}
			c, isConst := x.constOf(ix.Index)
			zero := isConst && c == "0"
			base := x.expr(ix.X, pre)
			idx := ""
			// `&a[i]` is an index expression: Go panics when i ≥ len(a) (also for i = 0 on an empty slice).  The element
			// is read into the blank variable, so that the run is stuck exactly then (arguments are evaluated left to right,
			// before the frame record and the call)
			if zero {
				vals = append(vals, base)
				*pre = append(*pre, fmt.Sprintf(".assign %d [] (.idxc %s 0)", x.junk, base))
			} else {
				b := x.hoist(base, pre)
				idx = x.hoist(x.expr(ix.Index, pre), pre)
				*pre = append(*pre, fmt.Sprintf(".assign %d [] (.idx %s %s)", x.junk, b, idx))
				vals = append(vals, fmt.Sprintf("(.slice %s %s (.len %s))", b, idx, b))
			}
			if isWritten(k) {
				lv, ok := x.lvalue(ix.X, pre)
				if !ok {
					x.fail(a.Pos(), "%s: written pointer argument is not storage of the model", key)
				}
				if !zero {
					if len(lv.path) != 0 {
						x.fail(a.Pos(), "%s: written pointer into a component at a non-zero index", key)
					}
					if lv.win != nil {
						lv.win = &ctWin{lo: x.hoist(fmt.Sprintf("(.op2 (.add .i64) %s %s)", lv.win.lo, idx), pre), hi: lv.win.hi}
					} else {
						lv.win = &ctWin{lo: idx}
					}
				}
				lvs[k] = lv
			}
		case *types.Slice:
			shape.slices = append(shape.slices, k)
			v := x.hoist(x.expr(a, pre), pre)
			vals = append(vals, v)
			frame = append(frame, "(.len "+v+")")
		default:
			if !ctIsIntRepr(T) {
				x.fail(a.Pos(), "%s: unsupported argument type %s", key, T)
			}
			v := x.hoist(x.expr(a, pre), pre)
			vals = append(vals, v)
			frame = append(frame, v)
		}
	}
	ctAsmSeen[key] = shape
	*pre = append(*pre, fmt.Sprintf(".ext [] %d true [%s]", x.extID(ctFrameKey), strings.Join(frame, ", ")))
	var lhs, after []string
	for _, k := range sp.written {
		lv, ok := lvs[k]
		if !ok { // nil pointer: nothing to store
			lhs = append(lhs, fmt.Sprint(x.junk))
			continue
		}
		if len(lv.path) == 0 && lv.win == nil {
			lhs = append(lhs, fmt.Sprint(lv.v))
			x.wr = append(x.wr, ctWrite{root: x.resolve(lv.root), pos: call.Pos(), br: append([]ctBranch{}, x.branches...)})
			continue
		}
		t := x.tmp()
		lhs = append(lhs, fmt.Sprint(t))
		x.store(lv, ctVar(t), call.Pos(), false, &after)
	}
	var res []string
	if sp.ret != "" {
		r := x.tmp()
		lhs = append(lhs, fmt.Sprint(r))
		res = []string{ctVar(r)}
	}
	*pre = append(*pre, fmt.Sprintf(".ext [%s] %d false [%s]", strings.Join(lhs, ", "), id, strings.Join(vals, ", ")))
	*pre = append(*pre, after...)
	_ = used
	return res
}

func ctNatList(l []int) string {
	s := make([]string, len(l))
	for i, v := range l {
		s[i] = fmt.Sprint(v)
	}
	return "[" + strings.Join(s, ", ") + "]"
}

func ctAsmSpecsLean(exts []string) string {
	var sb strings.Builder
	sb.WriteString("/-- the assembly routines: destination arguments (in the order of the results), integer result,\n    pointer arguments, slice arguments (everything else is a scalar that must be in the frame record) -/\ndef asmSpecs : List AsmSpec := [\n")
	for i, e := range exts {
		sp := ctAsm[e]
		sh := ctAsmSeen[e]
		sep := ","
		if i == len(exts)-1 {
			sep = ""
		}
		fmt.Fprintf(&sb, "  { outs := %s, ret := %v, ptrs := %s, slices := %s, header := %v }%s -- %d %s\n",
			ctNatList(sp.written), sp.ret != "", ctNatList(sh.ptrs), ctNatList(sh.slices), sp.header, sep, i, e)
	}
	sb.WriteString("]\n\n")
	for i, e := range exts {
		if e == ctFrameKey {
			fmt.Fprintf(&sb, "def frameExt : Nat := %d\n\n", i)
		}
	}
	return sb.String()
}

// ---- the two configurations -----------------------------------------------------------------------------------

func ctSM4Config(arch string) {
	files := []string{"sm4.go", "sm4_const.go", "sm4_asm.go", "sm4_gcm.go", "sm4_asm_" + arch + ".go", "sm4_gcm_" + arch + ".go"}
	ctPkgRels = []string{"sm4"}
	ctPkgFiles = map[string][]string{"sm4": files}
	ctRoots = []string{
		"sm4.sm4GcmAsm.Seal", "sm4.sm4GcmAsm.Open",
		"sm4.sm4CipherAsm.Encrypt", "sm4.sm4CipherAsm.Decrypt", "sm4.sm4CipherAsm.NewGCM", "sm4.newCipher", "sm4.ensureCapacity",
	}
	ctOptional = map[string]bool{}
	ctSpecialize = map[string]string{}
	ctWindows = true
	ctEmitAsmSpecs = true
	ctDevirt = map[string]string{"sm4.cipher": "sm4.sm4CipherAsm"}
	ctExplode = map[string]bool{"sm4.sm4GcmAsm": true}
	ctAssume = map[string]string{"candoAsm": "1", "!candoAsm": "0"}
	ctAllowShare = map[string]bool{"sm4.sm4CipherAsm.NewGCM": true}
	labelOverride = map[string]string{
		"sm4.sm4CipherAsm.NewGCM/result0": "H", // the AEAD value holds the round keys
		"sm4.newCipher/result0":           "H", // the cipher.Block value holds the key schedule
	}
	globalLean = map[string]string{}
	ctAsm = map[string]ctAsmSpec{
		"sm4.expandKeyAsm":     {written: []int{1, 2}},
		"sm4.cryptoBlockAsm":   {written: []int{1}},
		"sm4.cryptoBlockAsmX2": {written: []int{1}},
		"sm4.cryptoBlockAsmX4": {written: []int{1}},
		"sm4.cryptoBlockAsmX8": {written: []int{1}},
		"sm4.gHashBlocks":      {written: []int{1}},
	}
	if arch == "arm64" {
		// sm4_asm_arm64.go: cryptoBlockAsmX16(rk, dst, src) is a one-line Go trampoline to
		// cryptoBlockAsmX16Internal(rk, dst, src, dst) (dst doubles as the 256-byte scratch area); its
		// parameters are raw pointers into arrays, which the value model cannot express: it is
		// taken as the routine itself
		ctAsm["sm4.cryptoBlockAsmX16"] = ctAsmSpec{written: []int{1}}
		for _, n := range []string{"256", "128", "64", "32", "16"} {
			ctAsm["sm4.xor"+n] = ctAsmSpec{written: []int{0}}
		}
		declassTable = []struct{ fn, cond, why string }{
			{"sm4.sm4GcmAsm.Open", "subtle.ConstantTimeCompare(expectedTag[:g.tagSize], tag) != 1", "the tag-match verdict of Open"},
		}
	} else {
		ctAsm["sm4.cryptoBlockAsmX16"] = ctAsmSpec{written: []int{1}}
		ctAsm["sm4.sealAsm"] = ctAsmSpec{written: []int{2, 6}}
		ctAsm["sm4.openAsm"] = ctAsmSpec{written: []int{2, 6}, ret: "H"}
		ctAsm["sm4.copyAsm"] = ctAsmSpec{written: []int{0}}
		ctAsm["sm4.needExpand"] = ctAsmSpec{ret: "L", header: true}
		declassTable = []struct{ fn, cond, why string }{
			{"sm4.sm4GcmAsm.Open", "tagMatch != 0x1", "the tag-match verdict of Open"},
		}
	}
	extTable = map[string]extSpec{ctFrameKey: {kind: "other", leaky: true, results: []string{}}}
	for k, sp := range ctAsm {
		var res []string
		for range sp.written {
			res = append(res, "H")
		}
		if sp.ret != "" {
			res = append(res, sp.ret)
		}
		if res == nil {
			res = []string{}
		}
		extTable[k] = extSpec{kind: "other", leaky: sp.header, results: res}
	}
	ctAsmSeen = map[string]ctAsmShape{}
}

func genCTIRSM4() {
	checkArm64Trampoline() // sm4_asm_arm64.go: cryptoBlockAsmX16 = Internal(rk, dst, src, dst), or stop
	// the tables of "ctir" are package-level: they are replaced here and restored afterwards
	save := struct {
		rels     []string
		files    map[string][]string
		roots    []string
		optional map[string]bool
		spec     map[string]string
		labels   map[string]string
		globals  map[string]string
		declass  []struct{ fn, cond, why string }
		ext      map[string]extSpec
	}{ctPkgRels, ctPkgFiles, ctRoots, ctOptional, ctSpecialize, labelOverride, globalLean, declassTable, extTable}
	defer func() {
		ctPkgRels, ctPkgFiles, ctRoots, ctOptional, ctSpecialize, labelOverride, globalLean, declassTable, extTable =
			save.rels, save.files, save.roots, save.optional, save.spec, save.labels, save.globals, save.declass, save.ext
		ctWindows, ctEmitAsmSpecs = false, false
		ctDevirt, ctExplode, ctAssume, ctAllowShare, ctAsm = map[string]string{}, map[string]bool{}, map[string]string{}, map[string]bool{}, map[string]ctAsmSpec{}
	}()
	var sb strings.Builder
	sb.WriteString("/- GENERATED by /verif/go/cmd/translate (ctirsm4) from sm4/sm4_gcm_arm64.go, sm4/sm4_gcm_amd64.go, sm4/sm4_asm.go,\n   sm4/sm4_asm_arm64.go, sm4/sm4_gcm.go — do not edit.\n\n")
	sb.WriteString("   The Go glue of the accelerated SM4 / GCM paths as CT-IR, one program per architecture.  Premise: the\n   accelerated path is selected (`candoAsm` = true; the portable cipher is outside the scope of C09).\n   Assembly routines are external calls (`asmSpecs`); each is preceded by a leaking `asm.frame` call that\n   records the routine and its non-pointer arguments. -/\n")
	sb.WriteString("import SMGo.Model.CTIR\nset_option maxRecDepth 1000000\n\n")
	for _, arch := range []string{"arm64", "amd64"} {
		ctSM4Config(arch)
		ns := "SMGo.Gen.CTIRProgSM4." + strings.ToUpper(arch[:1]) + arch[1:]
		sb.WriteString("namespace " + ns + "\nopen SMGo.Model.CTIR\n\n")
		sb.WriteString(ctBuild())
		sb.WriteString("end " + ns + "\n\n")
	}
	writeIfChanged("CTIRProgSM4.lean", []byte(sb.String()))
}

func init() { extraCmds["ctirsm4"] = genCTIRSM4 }
