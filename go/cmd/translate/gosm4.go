package main

// Sub-command "gosm4": the portable SM4 code of sm4/sm4.go -> Lean definitions that follow the Go source
// statement by statement (lean/SMGo/Gen/SM4Code.lean).
//
// Functions translated: tau, transTPrime, ss, ssX2, cryptoBlock, cryptoBlockX2, byte16ToUint32, expandKey,
// newCipherGeneric, newCipher (the one of sm4_generic.go), NewCipher.  The three files sm4.go, sm4_const.go and
// sm4_generic.go are parsed and type-checked together (go/types); only the function bodies named above are read.
//
// Value encoding (Lean side: SMGo/Model/GoPreludeSM4.lean):
//   uint32 / uint64      BitVec 32 / BitVec 64 (Go's wrap-around semantics are BitVec's)
//   byte                 UInt8
//   []byte               List UInt8          []uint32, [n]uint32, *[n]uint32    List (BitVec 32)
//   int                  only compile-time / loop-counter values: the translator evaluates them itself
//                        (one exception: `k := len(key)`, a Nat, which may only be compared)
//   struct sm4Cipher     a Lean structure with the same fields
//   (cipher.Block,error) Outcome sm4Cipher (`return nil, err` = .err, `return &v, nil` = .ok v)
//
// One `let` per Go statement; `x op= e` is `let x := x op e`; `var x T` is `let x : T := zero`.
// `for` loops are UNROLLED BY THE TRANSLATOR: the loop counter is an int whose value the translator tracks
// (initialiser, `i++`, the condition are evaluated at translation time; anything it cannot evaluate stops it),
// every iteration emits the body once with the counter's value folded into indices and slice bounds.
//
// Memory discipline (value-level model, therefore checked here and refused otherwise):
//   - a slice / pointer parameter that the function writes (element store, PutUint32, or passed on to a callee
//     that writes it) is returned by the Lean function (a tuple when there are several);
//   - once such a parameter has been written, no OTHER slice/pointer parameter of the same element type may be
//     read (Go callers pass aliasing dst/src; the value model is faithful only if all reads come first);
//   - two written parameters of the same type must be distinct objects: checked at the call sites translated
//     here, stated in the header of the generated function otherwise.
//
// Run-time bounds checks:
//   - package-level tables (sbox, s0..s3, ck) are read by `arrGet tbl tbl_length i proof`: the proof is
//     either a closed `i < n` (constant index; the translator has checked it as well) or `maskL_lt../maskR_lt..`
//     for an index of the form `0xff & e` (directly or through a local variable assigned exactly that);
//     any other index stops the translator.  `tbl_length` (generated theorem) says the regenerated table
//     has the length of the declared Go array type.
//   - arrays reached through parameters / locals are indexed by constants only; the translator checks them
//     against the declared array length (as the Go compiler does) and emits `getD`.
//   - slices are indexed / resliced with constants only; the minimal length each slice parameter must
//     have for no check to fail is collected into `def <fn>_pre` (with `len = n` for *[n]T parameters, which
//     is the encoding invariant of the list).
//
// Anything outside this subset stops the translator with file:line.

import (
	"fmt"
	"go/ast"
	"go/constant"
	"go/importer"
	"go/parser"
	"go/token"
	"go/types"
	"path/filepath"
	"sort"
	"strconv"
	"strings"
)

var gosm4Targets = []string{"tau", "transTPrime", "ss", "ssX2", "cryptoBlock", "cryptoBlockX2",
	"byte16ToUint32", "expandKey", "newCipherGeneric", "newCipher", "NewCipher",
	"Encrypt", "Decrypt", "encryptX2", "decryptX2"}

// methods translated (the receiver *sm4Cipher becomes the first parameter)
var gosm4Methods = map[string]bool{"Encrypt": true, "Decrypt": true}

type s4Param struct {
	name   string
	typ    types.Type
	lean   string
	kind   string // "word", "slice", "parr" (pointer to array)
	arrLen int64  // parr
	out    bool
	need   int64 // slice: minimal length
}

type s4Sig struct {
	name    string
	params  []*s4Param
	result  string // Lean type of the Go result ("" = none)
	outcome bool
	guarded bool // starts with `if len(x) < K { panic("...") }` guards: the Lean result is `Res T`
	done    bool
}

type s4Tr struct {
	fset    *token.FileSet
	info    *types.Info
	pkg     *types.Package
	funcs   map[string]*ast.FuncDecl
	sigs    map[string]*s4Sig
	order   []string
	body    strings.Builder
	tables  map[string]int64 // package-level arrays used -> declared length
	consts  map[string]bool
	structs map[string]bool
}

func (t *s4Tr) fail(pos token.Pos, format string, a ...interface{}) {
	s4Die("%s: %s", t.fset.Position(pos), fmt.Sprintf(format, a...))
}

func (t *s4Tr) typeOf(e ast.Expr) types.Type {
	tv, ok := t.info.Types[e]
	if !ok || tv.Type == nil {
		t.fail(e.Pos(), "no type information")
	}
	return tv.Type
}

// wordWidth: 32/64 for uint32/uint64, 8 for byte, 0 otherwise
func wordWidth(ty types.Type) int {
	b, ok := ty.Underlying().(*types.Basic)
	if !ok {
		return 0
	}
	switch b.Kind() {
	case types.Uint32:
		return 32
	case types.Uint64:
		return 64
	case types.Uint8:
		return 8
	}
	return 0
}

func isInt(ty types.Type) bool {
	b, ok := ty.Underlying().(*types.Basic)
	return ok && (b.Kind() == types.Int || b.Kind() == types.UntypedInt)
}

func (t *s4Tr) leanElem(pos token.Pos, ty types.Type) string {
	switch wordWidth(ty) {
	case 32:
		return "W32"
	case 64:
		return "W64"
	case 8:
		return "UInt8"
	}
	t.fail(pos, "unsupported element type %s", ty)
	return ""
}

func zeroOf(lean string) string {
	switch lean {
	case "W32":
		return "0#32"
	case "W64":
		return "0#64"
	case "UInt8":
		return "0"
	}
	panic("zeroOf " + lean)
}

// leanType of a parameter / local / field type
func (t *s4Tr) leanType(pos token.Pos, ty types.Type) (lean, kind string, n int64) {
	if w := wordWidth(ty); w != 0 {
		return t.leanElem(pos, ty), "word", 0
	}
	switch u := ty.Underlying().(type) {
	case *types.Slice:
		return "List " + t.leanElem(pos, u.Elem()), "slice", 0
	case *types.Array:
		return "List " + t.leanElem(pos, u.Elem()), "array", u.Len()
	case *types.Pointer:
		if a, ok := u.Elem().Underlying().(*types.Array); ok {
			return "List " + t.leanElem(pos, a.Elem()), "parr", a.Len()
		}
		if named, ok := u.Elem().(*types.Named); ok {
			if st, ok := named.Underlying().(*types.Struct); ok {
				for i := 0; i < st.NumFields(); i++ {
					if _, ok := st.Field(i).Type().Underlying().(*types.Array); !ok {
						t.fail(pos, "struct %s has a non-array field", named.Obj().Name())
					}
				}
				t.structs[named.Obj().Name()] = true
				return named.Obj().Name(), "pstruct", 0
			}
		}
	}
	t.fail(pos, "unsupported type %s", ty)
	return
}

func elemOf(ty types.Type) types.Type {
	switch u := ty.Underlying().(type) {
	case *types.Slice:
		return u.Elem()
	case *types.Array:
		return u.Elem()
	case *types.Pointer:
		if a, ok := u.Elem().Underlying().(*types.Array); ok {
			return a.Elem()
		}
	}
	return nil
}

// ---- per-function context -----------------------------------------------------------------------------

type s4Fn struct {
	t         *s4Tr
	fd        *ast.FuncDecl
	sig       *s4Sig
	params    map[string]*s4Param
	env       map[string]int64  // int variables with a value known to the translator
	natVars   map[string]bool   // k := len(p)
	byteB     map[string]string // word variables currently holding `0xff & e`: the bound lemma
	locArr    map[string]int64  // local arrays: length
	locStruct map[string]string
	written   []*s4Param       // parameters written so far (aliasing discipline)
	guard     map[string]int64 // slice parameters: the length the guards at the top of the function establish
	reslice   bool             // the function reslices `x[:K]` (capacity remark in the doc of `_pre`)
	lines     []string
	ret       string
}

func (c *s4Fn) emit(format string, a ...interface{}) {
	c.lines = append(c.lines, "  "+fmt.Sprintf(format, a...))
}

func (c *s4Fn) objVar(id *ast.Ident) *types.Var {
	if o, ok := c.t.info.Uses[id]; ok {
		if v, ok := o.(*types.Var); ok {
			return v
		}
	}
	if o, ok := c.t.info.Defs[id]; ok {
		if v, ok := o.(*types.Var); ok {
			return v
		}
	}
	return nil
}

func (c *s4Fn) isPkgLevel(id *ast.Ident) bool {
	o := c.t.info.Uses[id]
	return o != nil && o.Parent() == c.t.pkg.Scope()
}

// constInt evaluates an int expression at translation time
func (c *s4Fn) constInt(e ast.Expr) (int64, bool) {
	if tv, ok := c.t.info.Types[e]; ok && tv.Value != nil {
		v := constant.ToInt(tv.Value)
		if v.Kind() == constant.Int {
			if n, ok := constant.Int64Val(v); ok {
				return n, true
			}
		}
		return 0, false
	}
	switch x := e.(type) {
	case *ast.ParenExpr:
		return c.constInt(x.X)
	case *ast.Ident:
		n, ok := c.env[x.Name]
		return n, ok
	case *ast.BinaryExpr:
		a, ok1 := c.constInt(x.X)
		b, ok2 := c.constInt(x.Y)
		if !ok1 || !ok2 {
			return 0, false
		}
		var r int64
		switch x.Op {
		case token.ADD:
			r = a + b
		case token.SUB:
			r = a - b
		case token.MUL:
			r = a * b
		case token.SHL:
			if b < 0 || b > 30 {
				return 0, false
			}
			r = a << uint(b)
		case token.SHR:
			if b < 0 || b > 62 {
				return 0, false
			}
			r = a >> uint(b)
		default:
			return 0, false
		}
		// translation-time ints stay tiny; refuse anything that could differ from Go's int
		if r < -(1<<30) || r > 1<<30 || a < -(1<<30) || a > 1<<30 || b < -(1<<30) || b > 1<<30 {
			c.t.fail(e.Pos(), "translation-time integer out of the supported range")
		}
		return r, true
	}
	return 0, false
}

func (c *s4Fn) mustInt(e ast.Expr, what string) int64 {
	n, ok := c.constInt(e)
	if !ok {
		c.t.fail(e.Pos(), "%s is not a translation-time constant", what)
	}
	return n
}

func (c *s4Fn) constCond(e ast.Expr) bool {
	x, ok := e.(*ast.BinaryExpr)
	if !ok {
		c.t.fail(e.Pos(), "unsupported loop condition")
	}
	a, b := c.mustInt(x.X, "loop condition operand"), c.mustInt(x.Y, "loop condition operand")
	switch x.Op {
	case token.LSS:
		return a < b
	case token.LEQ:
		return a <= b
	case token.GTR:
		return a > b
	case token.GEQ:
		return a >= b
	case token.NEQ:
		return a != b
	case token.EQL:
		return a == b
	}
	c.t.fail(e.Pos(), "unsupported loop condition %s", x.Op)
	return false
}

// Lean binary operators: all left-associative
var s4Prec = map[string]int{"|||": 55, "^^^": 58, "&&&": 60, "+": 65, "-": 65, "*": 70, "<<<": 75, ">>>": 75}

const s4Atom = 1000
const s4App = 900
const s4Shift = 50 // a shift is parenthesised whenever it is an operand

func paren(s string, prec, min int) string {
	if prec < min {
		return "(" + s + ")"
	}
	return s
}

// noteRead enforces the aliasing discipline for a read of parameter p
func (c *s4Fn) noteRead(pos token.Pos, p *s4Param) {
	if p.kind == "word" || p.kind == "pstruct" {
		return
	}
	for _, w := range c.written {
		if w != p && types.Identical(elemOf(w.typ), elemOf(p.typ)) {
			c.t.fail(pos, "function %s reads %s after writing %s (they may alias): outside the value-level subset", c.sig.name, p.name, w.name)
		}
	}
}

func (c *s4Fn) noteWrite(p *s4Param) {
	for _, w := range c.written {
		if w == p {
			return
		}
	}
	c.written = append(c.written, p)
}

func (c *s4Fn) needLen(p *s4Param, n int64) {
	if p.kind == "slice" && n > p.need {
		p.need = n
	}
}

// byteMask recognises `0xff & e` / `e & 0xff`; returns the lemma name for the given width
func (c *s4Fn) byteMask(e ast.Expr) (lemma string, ok bool) {
	for {
		p, isP := e.(*ast.ParenExpr)
		if !isP {
			break
		}
		e = p.X
	}
	b, isB := e.(*ast.BinaryExpr)
	if !isB || b.Op != token.AND {
		return "", false
	}
	w := wordWidth(c.t.typeOf(b))
	if w != 32 && w != 64 {
		return "", false
	}
	if n, ok := c.constInt(b.X); ok && n == 0xff {
		return fmt.Sprintf("maskL_lt%d", w), true
	}
	if n, ok := c.constInt(b.Y); ok && n == 0xff {
		return fmt.Sprintf("maskR_lt%d", w), true
	}
	return "", false
}

// sliceArg: a []T-valued expression `p`, `p[:]`, `p[a:b]`: returns Lean text, the base identifier, and the
// statically known length (-1 when it is the whole of a slice parameter)
func (c *s4Fn) sliceArg(e ast.Expr, minLen int64) (lean string, base *ast.Ident, lo int64) {
	switch x := e.(type) {
	case *ast.ParenExpr:
		return c.sliceArg(x.X, minLen)
	case *ast.Ident:
		p := c.params[x.Name]
		if p == nil || p.kind != "slice" {
			c.t.fail(e.Pos(), "unsupported slice operand %s", x.Name)
		}
		c.needLen(p, minLen)
		return x.Name, x, 0
	case *ast.SliceExpr:
		id, ok := x.X.(*ast.Ident)
		if !ok || x.Slice3 {
			c.t.fail(e.Pos(), "unsupported slice expression")
		}
		var total int64 = -1 // length of the base when static
		p := c.params[id.Name]
		if p != nil && p.kind == "parr" {
			total = p.arrLen
		} else if n, ok := c.locArr[id.Name]; ok {
			total = n
		} else if p == nil || p.kind != "slice" {
			c.t.fail(e.Pos(), "unsupported slice base %s", id.Name)
		}
		if x.Low == nil && x.High == nil {
			if total >= 0 && total < minLen {
				c.t.fail(e.Pos(), "%s[:] has %d elements, %d needed", id.Name, total, minLen)
			}
			if p != nil {
				c.needLen(p, minLen)
			}
			return id.Name, id, 0
		}
		var a, b int64
		if x.Low != nil {
			a = c.mustInt(x.Low, "slice bound")
		}
		if x.High == nil {
			c.t.fail(e.Pos(), "open-ended slice expression with a lower bound")
		}
		b = c.mustInt(x.High, "slice bound")
		if a < 0 || b < a || (total >= 0 && b > total) {
			c.t.fail(e.Pos(), "slice bounds [%d:%d] out of range", a, b)
		}
		if b-a < minLen {
			c.t.fail(e.Pos(), "slice [%d:%d] shorter than the %d elements needed", a, b, minLen)
		}
		if p != nil {
			c.needLen(p, b)
			if p.kind == "slice" && x.Low == nil {
				c.reslice = true
			}
		}
		return fmt.Sprintf("slice %s %d %d", id.Name, a, b), id, a
	}
	c.t.fail(e.Pos(), "unsupported slice operand %T", e)
	return
}

func (c *s4Fn) expr(e ast.Expr) (string, int) {
	t := c.t
	if tv, ok := t.info.Types[e]; ok && tv.Value != nil && !tv.IsType() {
		w := wordWidth(tv.Type)
		if w != 32 && w != 64 {
			t.fail(e.Pos(), "constant of type %s in a word expression", tv.Type)
		}
		if id, ok := e.(*ast.Ident); ok && c.isPkgLevel(id) {
			t.consts[id.Name] = true
			return fmt.Sprintf("BitVec.ofNat %d Gen.SM4Const.%s", w, id.Name), s4App
		}
		v := constant.ToInt(tv.Value)
		n, ok := constant.Uint64Val(v)
		if !ok {
			t.fail(e.Pos(), "constant does not fit 64 bits")
		}
		return fmt.Sprintf("0x%x#%d", n, w), s4Atom
	}
	switch x := e.(type) {
	case *ast.ParenExpr:
		return c.expr(x.X)
	case *ast.Ident:
		if _, ok := c.env[x.Name]; ok {
			t.fail(x.Pos(), "int variable %s in a word expression", x.Name)
		}
		v := c.objVar(x)
		if v == nil || c.isPkgLevel(x) {
			t.fail(x.Pos(), "unsupported identifier %s", x.Name)
		}
		if wordWidth(v.Type()) == 0 {
			t.fail(x.Pos(), "identifier %s of type %s in a word expression", x.Name, v.Type())
		}
		return x.Name, s4Atom
	case *ast.BinaryExpr:
		w := wordWidth(t.typeOf(x))
		if w != 32 && w != 64 {
			t.fail(x.Pos(), "binary operation at type %s", t.typeOf(x))
		}
		if x.Op == token.SHL || x.Op == token.SHR {
			n := c.mustInt(x.Y, "shift count")
			if n < 0 || n >= int64(w) {
				t.fail(x.Pos(), "shift count %d outside 0..%d", n, w-1)
			}
			op := map[token.Token]string{token.SHL: "<<<", token.SHR: ">>>"}[x.Op]
			a, pa := c.expr(x.X)
			return fmt.Sprintf("%s %s %d", paren(a, pa, s4Prec[op]), op, n), s4Shift
		}
		op, ok := map[token.Token]string{token.AND: "&&&", token.OR: "|||", token.XOR: "^^^", token.ADD: "+", token.SUB: "-", token.MUL: "*"}[x.Op]
		if !ok {
			t.fail(x.Pos(), "unsupported binary operator %s", x.Op)
		}
		a, pa := c.expr(x.X)
		b, pb := c.expr(x.Y)
		return fmt.Sprintf("%s %s %s", paren(a, pa, s4Prec[op]), op, paren(b, pb, s4Prec[op]+1)), s4Prec[op]
	case *ast.CallExpr:
		// conversion
		if tv, ok := t.info.Types[x.Fun]; ok && tv.IsType() {
			if len(x.Args) != 1 {
				t.fail(x.Pos(), "conversion arity")
			}
			from, to := wordWidth(t.typeOf(x.Args[0])), wordWidth(tv.Type)
			if (to != 32 && to != 64) || from == 0 {
				t.fail(x.Pos(), "unsupported conversion %s(%s)", tv.Type, t.typeOf(x.Args[0]))
			}
			if atv := t.info.Types[x.Args[0]]; atv.Value != nil {
				t.fail(x.Pos(), "conversion of a constant")
			}
			a, pa := c.expr8(x.Args[0])
			switch {
			case from == 8:
				return fmt.Sprintf("BitVec.ofNat %d %s.toNat", to, paren(a, pa, s4Atom)), s4App
			case from == to:
				return a, pa
			default:
				return fmt.Sprintf("%s.setWidth %d", paren(a, pa, s4Atom), to), s4App
			}
		}
		// binary.BigEndian.Uint32
		if name := c.binaryCall(x); name == "Uint32" {
			if len(x.Args) != 1 {
				t.fail(x.Pos(), "Uint32 arity")
			}
			s, base, _ := c.sliceArg(x.Args[0], 4)
			if p := c.params[base.Name]; p != nil {
				c.noteRead(x.Pos(), p)
			}
			if wordWidth(elemOf(t.typeOf(x.Args[0]))) != 8 {
				t.fail(x.Pos(), "Uint32 of a non-byte slice")
			}
			return fmt.Sprintf("beUint32 %s", paren(s, boolPrec(strings.Contains(s, " ")), s4Atom)), s4App
		} else if name != "" {
			t.fail(x.Pos(), "unsupported call binary.BigEndian.%s in an expression", name)
		}
		// translated function with a result and no written parameter
		id, ok := x.Fun.(*ast.Ident)
		if !ok {
			t.fail(x.Pos(), "unsupported call")
		}
		sig := t.sigOf(x.Pos(), id.Name)
		if sig.result == "" || sig.outcome {
			t.fail(x.Pos(), "call of %s in an expression", id.Name)
		}
		args := []string{sig.name}
		for i, a := range x.Args {
			if sig.params[i].kind != "word" || sig.params[i].out {
				t.fail(x.Pos(), "call of %s with non-word parameters in an expression", id.Name)
			}
			s, ps := c.expr(a)
			args = append(args, paren(s, ps, s4Atom))
		}
		return strings.Join(args, " "), s4App
	case *ast.IndexExpr:
		return c.index(x)
	}
	t.fail(e.Pos(), "unsupported expression %T", e)
	return "", 0
}

func boolPrec(compound bool) int {
	if compound {
		return s4App
	}
	return s4Atom
}

// expr8: like expr but also admits byte-typed operands (table entries / locals of type byte)
func (c *s4Fn) expr8(e ast.Expr) (string, int) {
	if wordWidth(c.t.typeOf(e)) != 8 {
		return c.expr(e)
	}
	switch x := e.(type) {
	case *ast.ParenExpr:
		return c.expr8(x.X)
	case *ast.Ident:
		v := c.objVar(x)
		if v == nil || c.isPkgLevel(x) {
			c.t.fail(x.Pos(), "unsupported identifier %s", x.Name)
		}
		return x.Name, s4Atom
	case *ast.IndexExpr:
		return c.index(x)
	}
	c.t.fail(e.Pos(), "unsupported byte expression %T", e)
	return "", 0
}

// binaryCall: "Uint32"/"PutUint32"/... for binary.BigEndian.X(...), "" otherwise
func (c *s4Fn) binaryCall(x *ast.CallExpr) string {
	sel, ok := x.Fun.(*ast.SelectorExpr)
	if !ok {
		return ""
	}
	inner, ok := sel.X.(*ast.SelectorExpr)
	if !ok {
		return ""
	}
	pk, ok := inner.X.(*ast.Ident)
	if !ok {
		return ""
	}
	pn, ok := c.t.info.Uses[pk].(*types.PkgName)
	if !ok || pn.Imported().Path() != "encoding/binary" || inner.Sel.Name != "BigEndian" {
		return ""
	}
	return sel.Sel.Name
}

func (c *s4Fn) index(x *ast.IndexExpr) (string, int) {
	t := c.t
	id, ok := x.X.(*ast.Ident)
	if !ok {
		t.fail(x.Pos(), "unsupported index base")
	}
	elem := t.leanElem(x.Pos(), t.typeOf(x))
	wrap := func(s string) (string, int) {
		switch elem {
		case "W32":
			return "BitVec.ofNat 32 (" + s + ")", s4App
		case "W64":
			return "BitVec.ofNat 64 (" + s + ")", s4App
		}
		return "UInt8.ofNat (" + s + ")", s4App
	}
	if c.isPkgLevel(id) {
		v, ok := t.info.Uses[id].(*types.Var)
		if !ok {
			t.fail(x.Pos(), "index of a non-variable")
		}
		arr, ok := v.Type().Underlying().(*types.Array)
		if !ok {
			t.fail(x.Pos(), "package-level %s is not an array", id.Name)
		}
		t.tables[id.Name] = arr.Len()
		if n, ok := c.constInt(x.Index); ok {
			if n < 0 || n >= arr.Len() {
				t.fail(x.Pos(), "constant index %d out of range for %s", n, id.Name)
			}
			return wrap(fmt.Sprintf("arrGet Gen.SM4Const.%s %s_length %d (by decide)", id.Name, id.Name, n))
		}
		if arr.Len() != 256 {
			t.fail(x.Pos(), "non-constant index into %s of length %d (only byte indices into 256 entries are supported)", id.Name, arr.Len())
		}
		if lemma, ok := c.byteMask(x.Index); ok {
			s, ps := c.expr(x.Index)
			return wrap(fmt.Sprintf("arrGet Gen.SM4Const.%s %s_length %s.toNat (%s _)", id.Name, id.Name, paren(s, ps, s4Atom), lemma))
		}
		if iid, ok := x.Index.(*ast.Ident); ok && c.byteB[iid.Name] != "" {
			// the variable was assigned `0xff & e`: the bound lemma applies up to unfolding the `let`
			return wrap(fmt.Sprintf("arrGet Gen.SM4Const.%s %s_length %s.toNat (%s _)", id.Name, id.Name, iid.Name, c.byteB[iid.Name]))
		}
		t.fail(x.Pos(), "cannot show that the index into %s is in range (not a constant, not of the form 0xff & e)", id.Name)
	}
	n := c.mustInt(x.Index, "index into a parameter / local array")
	if p := c.params[id.Name]; p != nil {
		c.noteRead(x.Pos(), p)
		switch p.kind {
		case "parr":
			if n < 0 || n >= p.arrLen {
				t.fail(x.Pos(), "constant index %d out of range for %s", n, id.Name)
			}
		case "slice":
			if n < 0 {
				t.fail(x.Pos(), "negative index")
			}
			c.needLen(p, n+1)
		default:
			t.fail(x.Pos(), "index of non-array %s", id.Name)
		}
	} else if l, ok := c.locArr[id.Name]; ok {
		if n < 0 || n >= l {
			t.fail(x.Pos(), "constant index %d out of range for %s", n, id.Name)
		}
	} else {
		t.fail(x.Pos(), "index of unknown object %s", id.Name)
	}
	return fmt.Sprintf("%s.getD %d %s", id.Name, n, zeroOf(elem)), s4App
}

// ---- statements ---------------------------------------------------------------------------------------

func (c *s4Fn) assignTo(pos token.Pos, lhs ast.Expr, rhs string, rhsExpr ast.Expr) {
	t := c.t
	switch l := lhs.(type) {
	case *ast.Ident:
		if l.Name == "_" {
			t.fail(pos, "blank assignment")
		}
		v := c.objVar(l)
		if v == nil || c.isPkgLevel(l) {
			t.fail(pos, "assignment to %s", l.Name)
		}
		if wordWidth(v.Type()) == 0 {
			t.fail(pos, "assignment to %s of type %s", l.Name, v.Type())
		}
		c.emit("let %s := %s", l.Name, rhs)
		delete(c.byteB, l.Name)
		if rhsExpr != nil {
			if lemma, ok := c.byteMask(rhsExpr); ok {
				c.byteB[l.Name] = lemma
			}
		}
	case *ast.IndexExpr:
		id, ok := l.X.(*ast.Ident)
		if !ok || c.isPkgLevel(id) {
			t.fail(pos, "unsupported store target")
		}
		n := c.mustInt(l.Index, "index of a store")
		if p := c.params[id.Name]; p != nil {
			switch p.kind {
			case "parr":
				if n < 0 || n >= p.arrLen {
					t.fail(pos, "constant index %d out of range for %s", n, id.Name)
				}
			case "slice":
				if n < 0 {
					t.fail(pos, "negative index")
				}
				c.needLen(p, n+1)
			default:
				t.fail(pos, "store into %s", id.Name)
			}
			if !p.out {
				t.fail(pos, "internal: %s written but not an out parameter", p.name)
			}
			c.noteWrite(p)
		} else if ln, ok := c.locArr[id.Name]; ok {
			if n < 0 || n >= ln {
				t.fail(pos, "constant index %d out of range for %s", n, id.Name)
			}
		} else {
			t.fail(pos, "store into unknown object %s", id.Name)
		}
		c.emit("let %s := %s.set %d %s", id.Name, id.Name, n, paren(rhs, boolPrec(strings.Contains(rhs, " ")), s4Atom))
	default:
		t.fail(pos, "unsupported assignment target %T", lhs)
	}
}

func mentions(e ast.Expr, name string) bool {
	found := false
	ast.Inspect(e, func(n ast.Node) bool {
		if id, ok := n.(*ast.Ident); ok && id.Name == name {
			found = true
		}
		return true
	})
	return found
}

// lvalueArg: the actual for a written parameter: `p`, `p[:]`, `&s.f`; returns the Lean text to pass and a
// function that emits the write-back of the value named `res`
func (c *s4Fn) lvalueArg(e ast.Expr, formal *s4Param) (arg string, key string, back func(res string)) {
	t := c.t
	switch x := e.(type) {
	case *ast.Ident:
		p := c.params[x.Name]
		if p == nil || !p.out {
			t.fail(e.Pos(), "written argument %s is not a written parameter of the caller", x.Name)
		}
		if formal.kind == "slice" {
			c.needLen(p, formal.need)
		} else if formal.kind == "parr" && (p.kind != "parr" || p.arrLen != formal.arrLen) {
			t.fail(e.Pos(), "array length mismatch for %s", x.Name)
		}
		c.noteWrite(p)
		return x.Name, x.Name, func(res string) {
			if res != x.Name {
				c.emit("let %s := %s", x.Name, res)
			}
		}
	case *ast.SliceExpr:
		id, ok := x.X.(*ast.Ident)
		if ok && x.Low == nil && x.High != nil && !x.Slice3 {
			// window `p[:K]` of a written slice parameter: the callee's result replaces the first K elements
			p := c.params[id.Name]
			if p == nil || p.kind != "slice" || !p.out || formal.kind != "slice" {
				t.fail(e.Pos(), "written argument %s[:K]: %s is not a written slice parameter of the caller", id.Name, id.Name)
			}
			k := c.mustInt(x.High, "slice bound")
			if k < formal.need {
				t.fail(e.Pos(), "%s[:%d] shorter than the %d elements the callee needs", id.Name, k, formal.need)
			}
			c.needLen(p, k)
			c.reslice = true
			c.noteWrite(p)
			key := fmt.Sprintf("%s_lo%d", id.Name, k)
			return fmt.Sprintf("slice %s 0 %d", id.Name, k), key, func(res string) {
				c.emit("let %s := spliceLo %s %d %s", id.Name, id.Name, k, res)
			}
		}
		if !ok || x.Low != nil || x.High != nil || x.Slice3 {
			t.fail(e.Pos(), "written argument must be a whole slice `a[:]` or a prefix `a[:K]`")
		}
		if n, ok := c.locArr[id.Name]; ok {
			if n < formal.need {
				t.fail(e.Pos(), "%s[:] has %d elements, callee needs %d", id.Name, n, formal.need)
			}
			return id.Name, id.Name, func(res string) {
				if res != id.Name {
					c.emit("let %s := %s", id.Name, res)
				}
			}
		}
		return c.lvalueArg(id, formal)
	case *ast.UnaryExpr:
		if x.Op != token.AND {
			break
		}
		sel, ok := x.X.(*ast.SelectorExpr)
		if !ok {
			break
		}
		id, ok := sel.X.(*ast.Ident)
		if !ok || c.locStruct[id.Name] == "" {
			break
		}
		arr, ok := t.typeOf(sel).Underlying().(*types.Array)
		if !ok || formal.kind != "parr" || arr.Len() != formal.arrLen {
			t.fail(e.Pos(), "field %s.%s does not match the callee's array parameter", id.Name, sel.Sel.Name)
		}
		return id.Name + "." + sel.Sel.Name, id.Name + "." + sel.Sel.Name, func(res string) {
			c.emit("let %s := { %s with %s := %s }", id.Name, id.Name, sel.Sel.Name, res)
		}
	}
	t.fail(e.Pos(), "unsupported argument for a written parameter")
	return
}

// fieldArg: `&s.f` for a pointer-to-struct parameter s, passed for a read-only *[n]T parameter
func (c *s4Fn) fieldArg(a ast.Expr, f *s4Param) (string, bool) {
	u, ok := a.(*ast.UnaryExpr)
	if !ok || u.Op != token.AND {
		return "", false
	}
	sel, ok := u.X.(*ast.SelectorExpr)
	if !ok {
		return "", false
	}
	id, ok := sel.X.(*ast.Ident)
	if !ok || c.params[id.Name] == nil || c.params[id.Name].kind != "pstruct" {
		return "", false
	}
	arr, ok := c.t.typeOf(sel).Underlying().(*types.Array)
	if !ok || arr.Len() != f.arrLen || !types.Identical(arr.Elem(), elemOf(f.typ)) {
		c.t.fail(a.Pos(), "field %s.%s does not match the callee's array parameter", id.Name, sel.Sel.Name)
	}
	for _, w := range c.written {
		if types.Identical(elemOf(w.typ), arr.Elem()) {
			c.t.fail(a.Pos(), "function %s reads %s.%s after writing %s (they may alias)", c.sig.name, id.Name, sel.Sel.Name, w.name)
		}
	}
	return id.Name + "." + sel.Sel.Name, true
}

func (c *s4Fn) callStmt(x *ast.CallExpr) {
	t := c.t
	if name := c.binaryCall(x); name == "PutUint32" {
		if len(x.Args) != 2 {
			t.fail(x.Pos(), "PutUint32 arity")
		}
		v, pv := c.expr(x.Args[1]) // Go evaluates operands first; the value cannot depend on the store anyway
		_, base, lo := c.sliceArg(x.Args[0], 4)
		p := c.params[base.Name]
		if p == nil || p.kind != "slice" || !p.out || wordWidth(elemOf(p.typ)) != 8 {
			t.fail(x.Pos(), "PutUint32 into %s: not a written []byte parameter", base.Name)
		}
		c.noteWrite(p)
		c.emit("let %s := putUint32 %s %d %s", base.Name, base.Name, lo, paren(v, pv, s4Atom))
		return
	} else if name != "" {
		t.fail(x.Pos(), "unsupported call binary.BigEndian.%s", name)
	}
	id, ok := x.Fun.(*ast.Ident)
	if !ok {
		t.fail(x.Pos(), "unsupported call statement")
	}
	sig := t.sigOf(x.Pos(), id.Name)
	if sig.result != "" || sig.outcome || sig.guarded {
		t.fail(x.Pos(), "result of %s discarded / call of a function that may panic", id.Name)
	}
	if len(x.Args) != len(sig.params) {
		t.fail(x.Pos(), "arity of %s", id.Name)
	}
	args := []string{sig.name}
	var backs []func(string)
	var outNames []string
	keys := map[string]bool{}
	// in-arguments first (reads), then the written ones
	texts := make([]string, len(x.Args))
	for i, a := range x.Args {
		f := sig.params[i]
		if f.out {
			continue
		}
		switch f.kind {
		case "word":
			s, ps := c.expr(a)
			texts[i] = paren(s, ps, s4Atom)
		case "slice":
			s, base, _ := c.sliceArg(a, f.need)
			if p := c.params[base.Name]; p != nil {
				c.noteRead(a.Pos(), p)
			}
			texts[i] = paren(s, boolPrec(strings.Contains(s, " ")), s4Atom)
		case "parr":
			if txt, ok := c.fieldArg(a, f); ok {
				texts[i] = txt
				continue
			}
			aid, ok := a.(*ast.Ident)
			p := (*s4Param)(nil)
			if ok {
				p = c.params[aid.Name]
			}
			if p == nil || p.kind != "parr" || p.arrLen != f.arrLen {
				t.fail(a.Pos(), "unsupported array argument")
			}
			c.noteRead(a.Pos(), p)
			texts[i] = aid.Name
		}
	}
	for i, a := range x.Args {
		f := sig.params[i]
		if !f.out {
			continue
		}
		s, key, back := c.lvalueArg(a, f)
		if keys[key] {
			t.fail(a.Pos(), "the same object %s is passed for two written parameters of %s", key, id.Name)
		}
		keys[key] = true
		texts[i] = paren(s, boolPrec(strings.Contains(s, " ")), s4Atom)
		backs = append(backs, back)
		outNames = append(outNames, strings.ReplaceAll(key, ".", "_"))
	}
	args = append(args, texts...)
	switch len(backs) {
	case 0:
		t.fail(x.Pos(), "call of %s has no effect in the value-level model", id.Name)
	case 1:
		c.emit("let %s := %s", outNames[0], strings.Join(args, " "))
		backs[0](outNames[0])
	default:
		c.emit("let (%s) := %s", strings.Join(outNames, ", "), strings.Join(args, " "))
		for i, b := range backs {
			b(outNames[i])
		}
	}
}

func (c *s4Fn) stmts(list []ast.Stmt) {
	for i, st := range list {
		if c.ret != "" {
			c.t.fail(st.Pos(), "statement after return")
		}
		if ifs, ok := st.(*ast.IfStmt); ok {
			c.ifStmt(ifs, list[i+1:])
			return
		}
		c.stmt(st)
	}
}

func (c *s4Fn) ifStmt(s *ast.IfStmt, rest []ast.Stmt) {
	t := c.t
	if !c.sig.outcome || s.Init != nil || s.Else != nil {
		t.fail(s.Pos(), "unsupported if statement")
	}
	cond, ok := s.Cond.(*ast.BinaryExpr)
	if !ok || (cond.Op != token.NEQ && cond.Op != token.EQL) {
		t.fail(s.Pos(), "unsupported condition")
	}
	side := func(e ast.Expr) string {
		if id, ok := e.(*ast.Ident); ok && c.natVars[id.Name] {
			return id.Name
		}
		if id, ok := e.(*ast.Ident); ok && c.isPkgLevel(id) {
			if tv := t.info.Types[e]; tv.Value != nil && isInt(tv.Type) {
				t.consts[id.Name] = true
				return "Gen.SM4Const." + id.Name
			}
		}
		if n, ok := c.constInt(e); ok && n >= 0 {
			return fmt.Sprint(n)
		}
		t.fail(e.Pos(), "unsupported operand of a comparison")
		return ""
	}
	op := map[token.Token]string{token.NEQ: "≠", token.EQL: "="}[cond.Op]
	sub := &s4Fn{t: t, fd: c.fd, sig: c.sig, params: c.params, env: c.env, natVars: c.natVars, byteB: c.byteB, locArr: c.locArr, locStruct: c.locStruct}
	sub.stmts(s.Body.List)
	if sub.ret == "" || len(sub.lines) != 0 {
		t.fail(s.Pos(), "the branch of an if must be a single return")
	}
	c.emit("if %s %s %s then %s else", side(cond.X), op, side(cond.Y), sub.ret)
	c.stmts(rest)
	if c.ret == "" {
		t.fail(s.Pos(), "no return after if")
	}
}

func (c *s4Fn) stmt(st ast.Stmt) {
	t := c.t
	switch s := st.(type) {
	case *ast.DeclStmt:
		gd, ok := s.Decl.(*ast.GenDecl)
		if !ok || gd.Tok != token.VAR {
			t.fail(s.Pos(), "unsupported declaration")
		}
		for _, sp := range gd.Specs {
			vs := sp.(*ast.ValueSpec)
			if len(vs.Values) != 0 {
				t.fail(vs.Pos(), "var with initialiser")
			}
			ty := t.typeOf(vs.Type)
			lean, kind, n := t.leanType(vs.Pos(), ty)
			for _, name := range vs.Names {
				switch kind {
				case "word":
					c.emit("let %s : %s := %s", name.Name, lean, zeroOf(lean))
				case "array":
					c.locArr[name.Name] = n
					el := t.leanElem(vs.Pos(), elemOf(ty))
					c.emit("let %s : %s := List.replicate %d %s", name.Name, lean, n, zeroOf(el))
				default:
					t.fail(vs.Pos(), "unsupported local of type %s", ty)
				}
				delete(c.byteB, name.Name)
			}
		}
	case *ast.AssignStmt:
		c.assign(s)
	case *ast.IncDecStmt:
		id, ok := s.X.(*ast.Ident)
		if !ok {
			t.fail(s.Pos(), "unsupported ++/--")
		}
		n, ok := c.env[id.Name]
		if !ok {
			t.fail(s.Pos(), "++/-- on %s, which is not a translation-time int", id.Name)
		}
		if s.Tok == token.INC {
			n++
		} else {
			n--
		}
		c.env[id.Name] = n
		c.emit("-- %s%s  (%s = %d)", id.Name, s.Tok, id.Name, n)
	case *ast.ExprStmt:
		call, ok := s.X.(*ast.CallExpr)
		if !ok {
			t.fail(s.Pos(), "unsupported expression statement")
		}
		c.callStmt(call)
	case *ast.ForStmt:
		var ivar string
		if s.Init != nil {
			as, ok := s.Init.(*ast.AssignStmt)
			if !ok || as.Tok != token.DEFINE || len(as.Lhs) != 1 || len(as.Rhs) != 1 {
				t.fail(s.Pos(), "unsupported loop initialiser")
			}
			id := as.Lhs[0].(*ast.Ident)
			if !isInt(c.objVar(id).Type()) {
				t.fail(s.Pos(), "loop variable of type %s", c.objVar(id).Type())
			}
			if _, shadow := c.env[id.Name]; shadow {
				t.fail(s.Pos(), "loop variable %s shadows another int", id.Name)
			}
			c.env[id.Name] = c.mustInt(as.Rhs[0], "loop initialiser")
			ivar = id.Name
		}
		if s.Cond == nil {
			t.fail(s.Pos(), "loop without condition")
		}
		c.emit("-- for %s: unrolled by the translator", c.src(s.Init, s.Cond, s.Post))
		iter := 0
		for c.constCond(s.Cond) {
			if iter++; iter > 4096 {
				t.fail(s.Pos(), "loop does not terminate within 4096 iterations")
			}
			if ivar != "" {
				c.emit("-- iteration %d: %s = %d", iter, ivar, c.env[ivar])
			} else {
				c.emit("-- iteration %d", iter)
			}
			for _, b := range s.Body.List {
				switch b.(type) {
				case *ast.BranchStmt, *ast.ReturnStmt, *ast.IfStmt:
					t.fail(b.Pos(), "unsupported statement in a loop body")
				}
				c.stmt(b)
			}
			if s.Post != nil {
				c.stmt(s.Post)
			}
		}
		c.emit("-- end for")
		if ivar != "" {
			delete(c.env, ivar)
		}
	case *ast.ReturnStmt:
		c.returnStmt(s)
	default:
		t.fail(st.Pos(), "unsupported statement %T", st)
	}
}

func (c *s4Fn) src(nodes ...ast.Node) string {
	var parts []string
	for _, n := range nodes {
		if n == nil {
			parts = append(parts, "-")
			continue
		}
		p0, p1 := c.t.fset.Position(n.Pos()), c.t.fset.Position(n.End())
		parts = append(parts, fmt.Sprintf("%d:%d-%d", p0.Line, p0.Column, p1.Column))
	}
	return "(init; cond; post at sm4.go " + strings.Join(parts, "; ") + ")"
}

func (c *s4Fn) assign(s *ast.AssignStmt) {
	t := c.t
	switch s.Tok {
	case token.ASSIGN, token.DEFINE:
		if len(s.Lhs) != len(s.Rhs) {
			t.fail(s.Pos(), "unsupported assignment shape")
		}
		// int-typed targets: translation-time values, or k := len(p)
		if len(s.Lhs) == 1 {
			if id, ok := s.Lhs[0].(*ast.Ident); ok {
				if v := c.objVar(id); v != nil && isInt(v.Type()) {
					if call, ok := s.Rhs[0].(*ast.CallExpr); ok {
						if fn, ok := call.Fun.(*ast.Ident); ok && fn.Name == "len" && len(call.Args) == 1 {
							if a, ok := call.Args[0].(*ast.Ident); ok && c.params[a.Name] != nil && c.params[a.Name].kind == "slice" {
								if _, isB := t.info.Uses[fn].(*types.Builtin); isB {
									c.natVars[id.Name] = true
									c.emit("let %s := %s.length", id.Name, a.Name)
									return
								}
							}
						}
					}
					c.env[id.Name] = c.mustInt(s.Rhs[0], "int value")
					c.emit("-- %s := %d", id.Name, c.env[id.Name])
					return
				}
			}
		}
		if len(s.Lhs) > 1 {
			// parallel assignment: sequential lets are the same only if no target occurs on the right
			for _, l := range s.Lhs {
				id, ok := l.(*ast.Ident)
				if !ok {
					t.fail(s.Pos(), "parallel assignment to a non-identifier")
				}
				for _, r := range s.Rhs {
					if mentions(r, id.Name) {
						t.fail(s.Pos(), "parallel assignment whose target %s occurs on the right-hand side", id.Name)
					}
				}
			}
		}
		for i := range s.Lhs {
			r, _ := c.expr8(s.Rhs[i])
			c.assignTo(s.Pos(), s.Lhs[i], r, s.Rhs[i])
		}
	case token.XOR_ASSIGN, token.OR_ASSIGN, token.AND_ASSIGN, token.ADD_ASSIGN, token.SUB_ASSIGN:
		if len(s.Lhs) != 1 || len(s.Rhs) != 1 {
			t.fail(s.Pos(), "unsupported assignment shape")
		}
		id, ok := s.Lhs[0].(*ast.Ident)
		if !ok {
			t.fail(s.Pos(), "op-assignment to a non-identifier")
		}
		w := wordWidth(t.typeOf(id))
		if w != 32 && w != 64 {
			t.fail(s.Pos(), "op-assignment at type %s", t.typeOf(id))
		}
		op := map[token.Token]string{token.XOR_ASSIGN: "^^^", token.OR_ASSIGN: "|||", token.AND_ASSIGN: "&&&", token.ADD_ASSIGN: "+", token.SUB_ASSIGN: "-"}[s.Tok]
		r, pr := c.expr(s.Rhs[0])
		c.assignTo(s.Pos(), id, fmt.Sprintf("%s %s %s", id.Name, op, paren(r, pr, s4Prec[op]+1)), nil)
	default:
		t.fail(s.Pos(), "unsupported assignment operator %s", s.Tok)
	}
}

func (c *s4Fn) returnStmt(s *ast.ReturnStmt) {
	t := c.t
	if c.sig.outcome {
		switch len(s.Results) {
		case 1:
			call, ok := s.Results[0].(*ast.CallExpr)
			if !ok {
				t.fail(s.Pos(), "unsupported return")
			}
			id, ok := call.Fun.(*ast.Ident)
			if !ok {
				t.fail(s.Pos(), "unsupported return")
			}
			sig := t.sigOf(s.Pos(), id.Name)
			if !sig.outcome || len(call.Args) != len(sig.params) {
				t.fail(s.Pos(), "unsupported return")
			}
			args := []string{sig.name}
			for i, a := range call.Args {
				f := sig.params[i]
				if f.kind != "slice" || f.out {
					t.fail(a.Pos(), "unsupported argument")
				}
				str, base, _ := c.sliceArg(a, f.need)
				if p := c.params[base.Name]; p != nil {
					c.noteRead(a.Pos(), p)
				}
				args = append(args, paren(str, boolPrec(strings.Contains(str, " ")), s4Atom))
			}
			c.ret = strings.Join(args, " ")
		case 2:
			isNil := func(e ast.Expr) bool {
				id, ok := e.(*ast.Ident)
				if !ok {
					return false
				}
				_, ok = t.info.Uses[id].(*types.Nil)
				return ok
			}
			switch {
			case isNil(s.Results[0]) && !isNil(s.Results[1]):
				// the error value itself is not modelled; it must be an error-typed conversion / expression
				c.ret = ".err"
			case !isNil(s.Results[0]) && isNil(s.Results[1]):
				u, ok := s.Results[0].(*ast.UnaryExpr)
				if !ok || u.Op != token.AND {
					t.fail(s.Pos(), "unsupported return value")
				}
				id, ok := u.X.(*ast.Ident)
				if !ok || c.locStruct[id.Name] == "" {
					t.fail(s.Pos(), "unsupported return value")
				}
				c.ret = ".ok " + id.Name
			default:
				t.fail(s.Pos(), "unsupported return")
			}
		default:
			t.fail(s.Pos(), "unsupported return")
		}
		return
	}
	if c.sig.result == "" {
		if len(s.Results) != 0 {
			t.fail(s.Pos(), "unexpected results")
		}
		t.fail(s.Pos(), "explicit return in a function without results")
	}
	if len(s.Results) != 1 {
		t.fail(s.Pos(), "unsupported return")
	}
	r, _ := c.expr(s.Results[0])
	c.ret = r
}

// guardStmt: `if len(x) < K { panic("literal") }` for a slice parameter x and a translation-time K
func (c *s4Fn) guardStmt(s *ast.IfStmt) {
	t := c.t
	if s.Init != nil {
		t.fail(s.Pos(), "guard with an init statement")
	}
	if s.Else != nil {
		t.fail(s.Else.Pos(), "guard with an else branch")
	}
	cond, ok := s.Cond.(*ast.BinaryExpr)
	if !ok || cond.Op != token.LSS {
		t.fail(s.Cond.Pos(), "unsupported guard condition (only `len(x) < K`)")
	}
	call, ok := cond.X.(*ast.CallExpr)
	var pid *ast.Ident
	if ok && len(call.Args) == 1 {
		if fn, ok := call.Fun.(*ast.Ident); ok && fn.Name == "len" {
			if _, isB := t.info.Uses[fn].(*types.Builtin); isB {
				pid, _ = call.Args[0].(*ast.Ident)
			}
		}
	}
	if pid == nil || c.params[pid.Name] == nil || c.params[pid.Name].kind != "slice" {
		t.fail(s.Cond.Pos(), "unsupported guard condition (only `len(x) < K` for a slice parameter x)")
	}
	k := c.mustInt(cond.Y, "guard bound")
	if k < 0 {
		t.fail(cond.Y.Pos(), "negative guard bound")
	}
	ktxt := fmt.Sprint(k)
	if id, ok := cond.Y.(*ast.Ident); ok && c.isPkgLevel(id) {
		t.consts[id.Name] = true
		ktxt = "Gen.SM4Const." + id.Name
	}
	if len(s.Body.List) != 1 {
		t.fail(s.Body.Pos(), "the body of a guard must be a single panic(\"...\")")
	}
	es, ok := s.Body.List[0].(*ast.ExprStmt)
	var pc *ast.CallExpr
	if ok {
		pc, _ = es.X.(*ast.CallExpr)
	}
	if pc == nil || len(pc.Args) != 1 {
		t.fail(s.Body.List[0].Pos(), "the body of a guard must be a single panic(\"...\")")
	}
	if fn, ok := pc.Fun.(*ast.Ident); !ok || fn.Name != "panic" {
		t.fail(pc.Pos(), "the body of a guard must be a single panic(\"...\")")
	} else if _, isB := t.info.Uses[fn].(*types.Builtin); !isB {
		t.fail(pc.Pos(), "panic is not the builtin")
	}
	lit, ok := pc.Args[0].(*ast.BasicLit)
	if !ok || lit.Kind != token.STRING {
		t.fail(pc.Args[0].Pos(), "panic argument is not a string literal")
	}
	msg, err := strconv.Unquote(lit.Value)
	if err != nil {
		t.fail(lit.Pos(), "cannot read the string literal")
	}
	for _, r := range msg {
		if r < 0x20 || r > 0x7e || r == '"' || r == '\\' {
			t.fail(lit.Pos(), "panic message outside printable ASCII without quotes / backslashes")
		}
	}
	if g, ok := c.guard[pid.Name]; !ok || k > g {
		c.guard[pid.Name] = k
	}
	c.emit("if %s.length < %s then .panic \"%s\" else", pid.Name, ktxt, msg)
}

// struct literal `v := T{}` in outcome functions
func (c *s4Fn) structInit(s *ast.AssignStmt) bool {
	t := c.t
	if s.Tok != token.DEFINE || len(s.Lhs) != 1 || len(s.Rhs) != 1 {
		return false
	}
	cl, ok := s.Rhs[0].(*ast.CompositeLit)
	if !ok {
		return false
	}
	if len(cl.Elts) != 0 {
		t.fail(s.Pos(), "composite literal with elements")
	}
	id := s.Lhs[0].(*ast.Ident)
	named, ok := t.typeOf(cl).(*types.Named)
	if !ok {
		t.fail(s.Pos(), "unsupported composite literal type")
	}
	st, ok := named.Underlying().(*types.Struct)
	if !ok {
		t.fail(s.Pos(), "unsupported composite literal type")
	}
	t.structs[named.Obj().Name()] = true
	var fs []string
	for i := 0; i < st.NumFields(); i++ {
		f := st.Field(i)
		_, kind, n := t.leanType(s.Pos(), f.Type())
		if kind != "array" {
			t.fail(s.Pos(), "unsupported field type %s", f.Type())
		}
		fs = append(fs, fmt.Sprintf("%s := List.replicate %d %s", f.Name(), n, zeroOf(t.leanElem(s.Pos(), elemOf(f.Type())))))
	}
	c.locStruct[id.Name] = named.Obj().Name()
	c.emit("let %s : %s := { %s }", id.Name, named.Obj().Name(), strings.Join(fs, ", "))
	return true
}

// ---- signatures and functions -------------------------------------------------------------------------

// writes: does the body of fd store through parameter name (directly or via a callee)?
func (t *s4Tr) writes(fd *ast.FuncDecl, name string) bool {
	w := false
	ast.Inspect(fd.Body, func(n ast.Node) bool {
		switch x := n.(type) {
		case *ast.AssignStmt:
			for _, l := range x.Lhs {
				if ix, ok := l.(*ast.IndexExpr); ok {
					if id, ok := ix.X.(*ast.Ident); ok && id.Name == name {
						w = true
					}
				}
			}
		case *ast.CallExpr:
			if sel, ok := x.Fun.(*ast.SelectorExpr); ok && strings.HasPrefix(sel.Sel.Name, "Put") && len(x.Args) > 0 && mentions(x.Args[0], name) {
				w = true
			}
			if id, ok := x.Fun.(*ast.Ident); ok {
				if callee, ok := t.funcs[id.Name]; ok && callee != fd {
					sig := t.sigOf(x.Pos(), id.Name)
					for i, a := range x.Args {
						if i < len(sig.params) && sig.params[i].out && mentions(a, name) {
							w = true
						}
					}
				}
			}
		}
		return true
	})
	return w
}

var s4InProgress = map[string]bool{}

func (t *s4Tr) sigOf(pos token.Pos, name string) *s4Sig {
	if s, ok := t.sigs[name]; ok && s.done {
		return s
	}
	fd, ok := t.funcs[name]
	if !ok {
		t.fail(pos, "call of %s, which is not a function of the translated files", name)
	}
	if s4InProgress[name] {
		t.fail(pos, "recursion through %s", name)
	}
	s4InProgress[name] = true
	t.fn(fd)
	delete(s4InProgress, name)
	return t.sigs[name]
}

func (t *s4Tr) fn(fd *ast.FuncDecl) {
	name := fd.Name.Name
	if fd.Body == nil {
		t.fail(fd.Pos(), "%s: bodiless functions are not translated", name)
	}
	sig := &s4Sig{name: name}
	t.sigs[name] = sig
	c := &s4Fn{t: t, fd: fd, sig: sig, params: map[string]*s4Param{}, env: map[string]int64{}, natVars: map[string]bool{},
		byteB: map[string]string{}, locArr: map[string]int64{}, locStruct: map[string]string{}, guard: map[string]int64{}}
	fields := fd.Type.Params.List
	if fd.Recv != nil {
		// the receiver is the first parameter; only pointer-to-struct receivers (leanType kind "pstruct")
		if len(fd.Recv.List) != 1 || len(fd.Recv.List[0].Names) != 1 {
			t.fail(fd.Pos(), "%s: unsupported receiver", name)
		}
		if _, kind, _ := t.leanType(fd.Recv.Pos(), t.typeOf(fd.Recv.List[0].Type)); kind != "pstruct" {
			t.fail(fd.Recv.Pos(), "%s: receiver is not a pointer to a struct", name)
		}
		fields = append([]*ast.Field{fd.Recv.List[0]}, fields...)
	}
	for _, f := range fields {
		ty := t.typeOf(f.Type)
		lean, kind, n := t.leanType(f.Pos(), ty)
		if kind == "array" {
			t.fail(f.Pos(), "array passed by value")
		}
		for _, nm := range f.Names {
			p := &s4Param{name: nm.Name, typ: ty, lean: lean, kind: kind, arrLen: n}
			sig.params = append(sig.params, p)
			c.params[nm.Name] = p
		}
	}
	// results
	if fd.Type.Results != nil {
		var rts []types.Type
		for _, r := range fd.Type.Results.List {
			k := len(r.Names)
			if k == 0 {
				k = 1
			}
			for i := 0; i < k; i++ {
				rts = append(rts, t.typeOf(r.Type))
			}
		}
		switch {
		case len(rts) == 1 && (wordWidth(rts[0]) == 32 || wordWidth(rts[0]) == 64):
			sig.result = t.leanElem(fd.Pos(), rts[0])
		case len(rts) == 2 && rts[0].String() == "crypto/cipher.Block" && rts[1].String() == "error":
			sig.outcome = true
			sig.result = "Outcome sm4Cipher"
		default:
			t.fail(fd.Pos(), "%s: unsupported result types", name)
		}
	}
	// written parameters (callees are translated first through sigOf)
	for _, p := range sig.params {
		if p.kind != "word" && t.writes(fd, p.name) {
			p.out = true
		}
	}
	if sig.result != "" {
		for _, p := range sig.params {
			if p.out {
				t.fail(fd.Pos(), "%s has a result and writes its parameter %s", name, p.name)
			}
		}
	}
	// body
	if sig.outcome {
		var rest []ast.Stmt
		for _, st := range fd.Body.List {
			if as, ok := st.(*ast.AssignStmt); ok && c.structInit(as) {
				continue
			}
			rest = append(rest, st)
		}
		// struct initialisers must come first for the filtering above to preserve order
		seenOther := false
		for _, st := range fd.Body.List {
			as, ok := st.(*ast.AssignStmt)
			isInit := false
			if ok && len(as.Rhs) == 1 {
				_, isInit = as.Rhs[0].(*ast.CompositeLit)
			}
			if isInit && seenOther {
				t.fail(st.Pos(), "composite literal after other statements")
			}
			if !isInit {
				seenOther = true
			}
		}
		c.stmts(rest)
		if c.ret == "" {
			t.fail(fd.Pos(), "%s: no return", name)
		}
	} else {
		body := fd.Body.List
		// guards `if len(x) < K { panic("literal") }` at the top of a function without results
		for len(body) > 0 && sig.result == "" {
			ifs, ok := body[0].(*ast.IfStmt)
			if !ok {
				break
			}
			c.guardStmt(ifs)
			sig.guarded = true
			body = body[1:]
		}
		c.stmts(body)
	}
	var outs []string
	for _, p := range sig.params {
		if p.out {
			outs = append(outs, p.name)
		}
	}
	retTy := sig.result
	if retTy == "" {
		var tys []string
		for _, p := range sig.params {
			if p.out {
				tys = append(tys, p.lean)
			}
		}
		if len(tys) == 0 {
			t.fail(fd.Pos(), "%s has neither a result nor a written parameter", name)
		}
		retTy = strings.Join(tys, " × ")
		if c.ret != "" {
			t.fail(fd.Pos(), "%s: unexpected return value", name)
		}
		if len(outs) == 1 {
			c.ret = outs[0]
		} else {
			c.ret = "(" + strings.Join(outs, ", ") + ")"
		}
		if sig.guarded {
			retTy = "Res (" + retTy + ")"
			c.ret = ".ok " + c.ret
		}
	}
	if c.ret == "" {
		t.fail(fd.Pos(), "%s: no return value", name)
	}
	// header
	var ps, pre, preArgs []string
	for _, p := range sig.params {
		ps = append(ps, fmt.Sprintf("(%s : %s)", p.name, p.lean))
		switch p.kind {
		case "slice":
			if g, ok := c.guard[p.name]; ok && p.need <= g {
				continue // established by the guard
			}
			pre = append(pre, fmt.Sprintf("%d ≤ %s.length", p.need, p.name))
			preArgs = append(preArgs, fmt.Sprintf("(%s : %s)", p.name, p.lean))
		case "pstruct":
			st := p.typ.Underlying().(*types.Pointer).Elem().Underlying().(*types.Struct)
			for i := 0; i < st.NumFields(); i++ {
				pre = append(pre, fmt.Sprintf("%s.%s.length = %d", p.name, st.Field(i).Name(), st.Field(i).Type().Underlying().(*types.Array).Len()))
			}
			preArgs = append(preArgs, fmt.Sprintf("(%s : %s)", p.name, p.lean))
		case "parr":
			pre = append(pre, fmt.Sprintf("%s.length = %d", p.name, p.arrLen))
			preArgs = append(preArgs, fmt.Sprintf("(%s : %s)", p.name, p.lean))
		}
	}
	pos := t.fset.Position(fd.Pos())
	doc := fmt.Sprintf("`%s` (%s:%d)", name, filepath.Base(pos.Filename), pos.Line)
	if fd.Recv != nil {
		doc += ", method: the receiver is the first parameter"
	}
	if sig.guarded {
		doc += "; `.panic msg` = the guard's `panic(msg)`"
	}
	if len(outs) > 0 {
		doc += "; returns the written parameter(s) " + strings.Join(outs, ", ")
		if len(outs) > 1 {
			doc += " (taken to be distinct objects)"
		}
	}
	sb := &t.body
	hasIf := false
	ast.Inspect(fd.Body, func(n ast.Node) bool {
		if _, ok := n.(*ast.IfStmt); ok {
			hasIf = true
		}
		return true
	})
	// (a function with a branch gets no `_pre`: the requirement computed here ignores the guard)
	if len(pre) > 0 && (!hasIf || sig.guarded) {
		extra := ""
		for _, p := range sig.params {
			if p.kind == "pstruct" {
				extra = " / of the `[n]T` fields of `" + p.name + "`"
			}
		}
		if sig.guarded {
			extra += "; lengths established by the guards of the function are not repeated here"
		}
		if c.reslice {
			extra += ";\n    Go's `x[:K]` needs K ≤ cap(x) — lists have no capacity: K ≤ len(x) is required here (or established by a guard),\n    under which `x[:K]` is `take K` and a callee's writes to it replace the first K elements (`spliceLo`)"
		}
		fmt.Fprintf(sb, "/-- lengths under which every run-time bounds check of `%s` succeeds: all indices and slice bounds are\n    constants, the translator has collected the largest per slice parameter; `len = n` is the encoding invariant of a\n    `*[n]T` parameter%s -/\ndef %s_pre %s : Prop :=\n  %s\n\n", name, extra, name, strings.Join(preArgs, " "), strings.Join(pre, " ∧ "))
	}
	fmt.Fprintf(sb, "/-- %s -/\ndef %s %s : %s :=\n", doc, name, strings.Join(ps, " "), retTy)
	for _, l := range c.lines {
		sb.WriteString(l + "\n")
	}
	fmt.Fprintf(sb, "  %s\n\n", c.ret)
	sig.done = true
	t.order = append(t.order, name)
}

// s4Die is how this sub-command stops (file:line message, exit status 2); gosm4_test.go replaces it by a
// recoverable panic.
var s4Die = die

func genGoSM4() {
	writeIfChanged("SM4Code.lean", genGoSM4Text())
}

// genGoSM4Text translates the three files under `repo` and returns the text of SM4Code.lean
func genGoSM4Text() []byte {
	s4InProgress = map[string]bool{}
	fset := token.NewFileSet()
	var files []*ast.File
	for _, rel := range []string{"sm4/sm4.go", "sm4/sm4_const.go", "sm4/sm4_generic.go"} {
		f, err := parser.ParseFile(fset, filepath.Join(repo, rel), nil, 0)
		if err != nil {
			s4Die("%v", err)
		}
		files = append(files, f)
	}
	info := &types.Info{Types: map[ast.Expr]types.TypeAndValue{}, Uses: map[*ast.Ident]types.Object{}, Defs: map[*ast.Ident]types.Object{}}
	conf := types.Config{Importer: importer.ForCompiler(fset, "source", nil)}
	pkg, err := conf.Check("sm4", fset, files, info)
	if err != nil {
		s4Die("type-check sm4/sm4.go + sm4_const.go + sm4_generic.go: %v", err)
	}
	t := &s4Tr{fset: fset, info: info, pkg: pkg, funcs: map[string]*ast.FuncDecl{}, sigs: map[string]*s4Sig{},
		tables: map[string]int64{}, consts: map[string]bool{}, structs: map[string]bool{}}
	for _, f := range files {
		for _, d := range f.Decls {
			if fd, ok := d.(*ast.FuncDecl); ok && (fd.Recv == nil || gosm4Methods[fd.Name.Name]) {
				if _, dup := t.funcs[fd.Name.Name]; dup {
					s4Die("%s: function %s declared twice", fset.Position(fd.Pos()), fd.Name.Name)
				}
				t.funcs[fd.Name.Name] = fd
			}
		}
	}
	// the struct type(s) used by the constructor functions are patched into the handling of
	// composite literals: ifStmt/stmts see `v := T{}` through structInit
	for _, name := range gosm4Targets {
		fd, ok := t.funcs[name]
		if !ok {
			s4Die("sm4: function %s not found", name)
		}
		if s, ok := t.sigs[name]; ok && s.done {
			continue
		}
		s4InProgress[name] = true
		t.fn(fd)
		delete(s4InProgress, name)
	}
	var sb strings.Builder
	sb.WriteString("/- GENERATED by /verif/go/cmd/translate (gosm4) from sm4/sm4.go (+ sm4_const.go for types, sm4_generic.go for\n   `newCipher`) — do not edit.  One `let` per Go statement; loops unrolled by the translator; see the header of\n   go/cmd/translate/gosm4.go for the subset and the encodings. -/\n")
	sb.WriteString("import SMGo.Model.GoPreludeSM4\nimport SMGo.Gen.SM4Const\nset_option maxRecDepth 100000\nset_option linter.unusedVariables false\nnamespace SMGo.Gen.SM4Code\nopen SMGo SMGo.Model.GoSM4\n\n")
	var tabs []string
	for k := range t.tables {
		tabs = append(tabs, k)
	}
	sort.Strings(tabs)
	for _, k := range tabs {
		fmt.Fprintf(&sb, "/-- the regenerated table has the length of the Go array type `[%d]T` of `%s` -/\ntheorem %s_length : Gen.SM4Const.%s.length = %d := by decide +kernel\n\n", t.tables[k], k, k, k, t.tables[k])
	}
	// struct types
	var sts []string
	for k := range t.structs {
		sts = append(sts, k)
	}
	sort.Strings(sts)
	for _, k := range sts {
		obj := pkg.Scope().Lookup(k)
		st := obj.Type().Underlying().(*types.Struct)
		fmt.Fprintf(&sb, "/-- `type %s struct` -/\nstructure %s where\n", k, k)
		for i := 0; i < st.NumFields(); i++ {
			f := st.Field(i)
			lean, _, n := t.leanType(obj.Pos(), f.Type())
			fmt.Fprintf(&sb, "  %s : %s  -- %s (%d elements)\n", f.Name(), lean, f.Type(), n)
		}
		sb.WriteString("\n")
	}
	sb.WriteString(t.body.String())
	sb.WriteString("end SMGo.Gen.SM4Code\n")
	if len(t.order) != len(gosm4Targets) {
		s4Die("sm4: %d functions translated, %d expected (%v)", len(t.order), len(gosm4Targets), t.order)
	}
	return []byte(sb.String())
}

func init() {
	extraCmds["gosm4"] = genGoSM4
}
