package main

// The arm64 wrapper cryptoBlockAsmX16 (sm4/sm4_asm_arm64.go) is Go code that no translator turns into Lean: ctirsm4
// takes it "as the routine itself" and the listing theorem asm_arm64_cryptoBlockAsmX16_eq_spec (Props/C05Arm64.lean) is
// stated for the calling shape tmp = dst.  That shape is therefore CHECKED here, on every regeneration: the body must be
// the single statement cryptoBlockAsmX16Internal(p0, p1, p2, p1) over the function's own three parameters, and
// cryptoBlockAsmX16Internal must be a body-less (assembly) declaration with four parameters.  Anything else stops the
// translator, which fails the properties it feeds (a second audit mutated the call to (rk, dst, src, nil) and to
// (rk, dst, src, src): every generated file stayed byte-identical and nothing could notice, arm64 not being executable here).

import (
	"go/ast"
	"go/parser"
	"go/token"
	"path/filepath"
)

func checkArm64Trampoline() {
	rel := "sm4/sm4_asm_arm64.go"
	fset := token.NewFileSet()
	f, err := parser.ParseFile(fset, filepath.Join(repo, rel), nil, 0)
	if err != nil {
		die("%v", err)
	}
	var tramp, internal *ast.FuncDecl
	for _, d := range f.Decls {
		if fd, ok := d.(*ast.FuncDecl); ok && fd.Recv == nil {
			switch fd.Name.Name {
			case "cryptoBlockAsmX16":
				tramp = fd
			case "cryptoBlockAsmX16Internal":
				internal = fd
			}
		}
	}
	if tramp == nil || internal == nil {
		die("%s: cryptoBlockAsmX16 / cryptoBlockAsmX16Internal not found", rel)
	}
	pos := func(n ast.Node) token.Position { return fset.Position(n.Pos()) }
	if internal.Body != nil {
		die("%s: cryptoBlockAsmX16Internal has a Go body (expected an assembly declaration)", pos(internal))
	}
	names := func(fd *ast.FuncDecl) []string {
		var out []string
		for _, fl := range fd.Type.Params.List {
			for _, n := range fl.Names {
				out = append(out, n.Name)
			}
		}
		return out
	}
	if len(names(internal)) != 4 {
		die("%s: cryptoBlockAsmX16Internal does not have four parameters", pos(internal))
	}
	ps := names(tramp)
	if len(ps) != 3 || tramp.Body == nil || len(tramp.Body.List) != 1 {
		die("%s: cryptoBlockAsmX16 is not a three-parameter, one-statement trampoline", pos(tramp))
	}
	es, ok := tramp.Body.List[0].(*ast.ExprStmt)
	if !ok {
		die("%s: cryptoBlockAsmX16: the statement is not a call", pos(tramp.Body.List[0]))
	}
	call, ok := es.X.(*ast.CallExpr)
	if !ok {
		die("%s: cryptoBlockAsmX16: the statement is not a call", pos(es))
	}
	if id, ok := call.Fun.(*ast.Ident); !ok || id.Name != "cryptoBlockAsmX16Internal" {
		die("%s: cryptoBlockAsmX16 does not call cryptoBlockAsmX16Internal", pos(call))
	}
	want := []string{ps[0], ps[1], ps[2], ps[1]} // (rk, dst, src, tmp = dst)
	if len(call.Args) != 4 {
		die("%s: cryptoBlockAsmX16Internal is not called with four arguments", pos(call))
	}
	for i, a := range call.Args {
		id, ok := a.(*ast.Ident)
		if !ok || id.Name != want[i] {
			die("%s: argument %d of cryptoBlockAsmX16Internal is not %s (the listing theorem is for (rk, dst, src, tmp = dst))", pos(a), i, want[i])
		}
	}
}
