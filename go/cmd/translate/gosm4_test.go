package main

// Tests of the sub-command "gosm4" (gosm4.go).  Offline: they read /repo/sm4 (or $VERIF_REPO/sm4), the committed
// lean/SMGo/Gen/SM4Code.lean, and the Go standard library sources (go/types importer).
//
//   TestGoSM4Committed   the translation of the current sources is the committed SM4Code.lean, byte for byte
//   TestGoSM4Stops       edits that leave the translator's subset are REFUSED with file:line (no output), including the
//                        guard / reslice forms of the cipher.Block call sites (Encrypt, Decrypt, encryptX2, decryptX2)
//   TestGoSM4Mutations   edits inside the subset that change the meaning translate, and the output differs from the
//                        committed file (the Lean equality proofs of Proofs/SM4Gen*.lean / Props/C05Gen.lean then fail:
//                        checked by hand when they were written, see the comment at each case)

import (
	"bytes"
	"fmt"
	"os"
	"path/filepath"
	"strings"
	"testing"
)

type s4Stop struct{ msg string }

func s4TestRepo() string {
	if v := os.Getenv("VERIF_REPO"); v != "" {
		return v
	}
	return "/repo"
}

// s4Run runs the translator core on root/sm4/*.go; stop is the message of a refusal ("" = translated)
func s4Run(root string) (out []byte, stop string) {
	oldRepo, oldDie := repo, s4Die
	defer func() {
		repo, s4Die = oldRepo, oldDie
		if r := recover(); r != nil {
			s, ok := r.(s4Stop)
			if !ok {
				panic(r)
			}
			out, stop = nil, s.msg
		}
	}()
	repo = root
	s4Die = func(format string, a ...interface{}) { panic(s4Stop{fmt.Sprintf(format, a...)}) }
	return genGoSM4Text(), ""
}

// s4Copy copies the three source files into a fresh root and applies edit to sm4.go; it returns the root and the
// edited text
func s4Copy(t *testing.T, edit func(src string) string) (root, edited string) {
	t.Helper()
	root = t.TempDir()
	if err := os.MkdirAll(filepath.Join(root, "sm4"), 0o755); err != nil {
		t.Fatal(err)
	}
	for _, f := range []string{"sm4.go", "sm4_const.go", "sm4_generic.go"} {
		b, err := os.ReadFile(filepath.Join(s4TestRepo(), "sm4", f))
		if err != nil {
			t.Fatal(err)
		}
		if f == "sm4.go" {
			edited = edit(string(b))
			b = []byte(edited)
		}
		if err := os.WriteFile(filepath.Join(root, "sm4", f), b, 0o644); err != nil {
			t.Fatal(err)
		}
	}
	return root, edited
}

// s4Replace replaces the first occurrence of old (which must exist) by new
func s4Replace(t *testing.T, old, new string) func(string) string {
	return func(src string) string {
		t.Helper()
		if !strings.Contains(src, old) {
			t.Fatalf("sm4.go no longer contains %q: adapt the test", old)
		}
		return strings.Replace(src, old, new, 1)
	}
}

func s4LineOf(t *testing.T, text, marker string) int {
	t.Helper()
	i := strings.Index(text, marker)
	if i < 0 {
		t.Fatalf("marker %q not found", marker)
	}
	return 1 + strings.Count(text[:i], "\n")
}

func s4Committed(t *testing.T) []byte {
	t.Helper()
	b, err := os.ReadFile(filepath.Join("..", "..", "..", "lean", "SMGo", "Gen", "SM4Code.lean"))
	if err != nil {
		t.Fatal(err)
	}
	return b
}

func TestGoSM4Committed(t *testing.T) {
	out, stop := s4Run(s4TestRepo())
	if stop != "" {
		t.Fatalf("translator stopped on the real sources: %s", stop)
	}
	if !bytes.Equal(out, s4Committed(t)) {
		t.Fatalf("translation of %s/sm4 differs from the committed lean/SMGo/Gen/SM4Code.lean (run `translate gosm4`)", s4TestRepo())
	}
	// an unedited copy translates to the same text (the copies used below are faithful)
	root, _ := s4Copy(t, func(s string) string { return s })
	out2, stop := s4Run(root)
	if stop != "" || !bytes.Equal(out, out2) {
		t.Fatalf("translation of an unedited copy differs (stop=%q)", stop)
	}
}

const s4Round1 = "\n\tz0 ^= ss(t)\n" // the first round statement of cryptoBlock (the commented-out loop does not match)

func TestGoSM4Stops(t *testing.T) {
	cases := []struct {
		name, old, new string
		marker         string // text on the line the refusal must name
		want           string // part of the message
	}{
		{"store index out of range", "dec[31-i] = k3", "dec[30-i] = k3",
			"dec[30-i] = k3", "constant index -1 out of range for dec"},
		{"table index not a byte", "s3[0xff&(t)]", "s3[0x1ff&(t)]",
			"s3[0x1ff&(t)]", "cannot show that the index into s3 is in range"},
		{"if statement", s4Round1, "\n\tif t == 0 { z0 ^= ss(t) }\n",
			"if t == 0 { z0 ^= ss(t) }", "unsupported if statement"},
		{"for range", "func cryptoBlock(x, y []byte, rk *[32]uint32) {\n", "func cryptoBlock(x, y []byte, rk *[32]uint32) {\n\tfor i := range x { y[i] = x[i] }\n",
			"for i := range x", "unsupported statement *ast.RangeStmt"},
		{"variable shift count", s4Round1, "\n\tz0 ^= ss(t) >> (t & 3)\n",
			"z0 ^= ss(t) >> (t & 3)", "shift count is not a translation-time constant"},
		{"read after write (aliasing)", s4Round1, "\n\tz0 ^= ss(t); y[0] = x[1]; z0 ^= uint32(x[0])\n",
			"y[0] = x[1]", "reads x after writing y (they may alias)"},
		// the cipher.Block call sites: only `if len(x) < K { panic("literal") }` at the top of the function
		{"guard with else", "\t\tpanic(\"crypto/sm4: input not full block\")\n\t}\n", "\t\tpanic(\"crypto/sm4: input not full block\")\n\t} else {\n\t\tdst[0] = 0\n\t}\n",
			"} else {", "guard with an else branch"},
		{"panic argument not a literal", "panic(\"crypto/sm4: output not full block\")", "panic(KeySizeError(len(dst)))",
			"panic(KeySizeError(len(dst)))", "panic argument is not a string literal"},
		{"guard condition of another form", "if len(src) < BlockSize {", "if len(src) != BlockSize {",
			"if len(src) != BlockSize {", "unsupported guard condition"},
		{"guard after the call", "\tcryptoBlock(src[:BlockSize], dst[:BlockSize], &sm4.enc)\n", "\tcryptoBlock(src[:BlockSize], dst[:BlockSize], &sm4.enc)\n\tif len(dst) < 32 {\n\t\tpanic(\"late\")\n\t}\n",
			"if len(dst) < 32 {", "unsupported if statement"},
		{"reslice beyond what the callee got", "cryptoBlockX2(src[:BlockSize<<1], dst[:BlockSize<<1], &sm4.enc)", "cryptoBlockX2(src[:BlockSize], dst[:BlockSize<<1], &sm4.enc)",
			"cryptoBlockX2(src[:BlockSize], dst", "shorter than the 32 elements needed"},
	}
	for _, c := range cases {
		t.Run(c.name, func(t *testing.T) {
			root, edited := s4Copy(t, s4Replace(t, c.old, c.new))
			out, stop := s4Run(root)
			if stop == "" {
				t.Fatalf("translated (%d bytes) instead of stopping", len(out))
			}
			pos := fmt.Sprintf("%s:%d:", filepath.Join(root, "sm4", "sm4.go"), s4LineOf(t, edited, c.marker))
			if !strings.HasPrefix(stop, pos) {
				t.Errorf("refusal does not name %s...: %s", pos, stop)
			}
			if !strings.Contains(stop, c.want) {
				t.Errorf("refusal %q does not contain %q", stop, c.want)
			}
		})
	}
}

func TestGoSM4Mutations(t *testing.T) {
	committed := s4Committed(t)
	cases := []struct{ name, old, new string }{
		// Proofs/SM4GenBlock.lean, s1: `rfl` between group 1 of the generated chain and the model's group4 fails
		{"round key index", "t = z2 ^ z3 ^ rk[1] ^ z0", "t = z2 ^ z3 ^ rk[2] ^ z0"},
		// Proofs/SM4Gen.lean, gen_transTPrime_eq_model: unsolved goal b<<<12|||b>>>20 vs b<<<13|||b>>>(32-13)
		{"rotation of T'", "(b<<13 | b>>19)", "(b<<12 | b>>20)"},
		// Proofs/SM4GenBlock.lean, gen_cryptoBlock_eq_model: `put4` no longer matches the four stores
		{"output word order", "binary.BigEndian.PutUint32(y[0:4], z3)", "binary.BigEndian.PutUint32(y[0:4], z2)"},
		// Proofs/SM4GenBlock.lean, gen_cryptoBlockX2_eq_model: the step s1 (group4X2) no longer closes (its `rfl` ran out of
		// heartbeats when this was tried)
		{"round key duplication in X2", "\tk |= k << 32\n", "\tk |= k << 31\n"},
		// Proofs/SM4GenKey.lean, gen_NewCipher_err: `if_pos` finds `if len = 16` instead of `if len ≠ 16`
		{"length test inverted", "if k != BlockSize {", "if k == BlockSize {"},
		// Proofs/SM4GenKey.lean, gen_expandKey_eq_model: 84 instead of 96 round-key lets, extract_lets names run out
		{"key schedule loop bound", "for i := 0; i < 32; {", "for i := 0; i < 28; {"},
		// Props/C05Gen.lean, gen_Decrypt_eq_spec: `crypt_window c.dec …` no longer rewrites (the code passes c.enc)
		{"Decrypt uses enc", "cryptoBlock(src[:BlockSize], dst[:BlockSize], &sm4.dec)", "cryptoBlock(src[:BlockSize], dst[:BlockSize], &sm4.enc)"},
		// gen_Encrypt_eq_spec: source and destination exchanged in the call
		{"Encrypt argument order", "cryptoBlock(src[:BlockSize], dst[:BlockSize], &sm4.enc)", "cryptoBlock(dst[:BlockSize], src[:BlockSize], &sm4.enc)"},
		// gen_Encrypt_panics_src / _dst: the messages (and the order of the tests) are part of the statements
		{"guards exchanged", "if len(src) < BlockSize {\n\t\tpanic(\"crypto/sm4: input not full block\")", "if len(dst) < BlockSize {\n\t\tpanic(\"crypto/sm4: input not full block\")"},
		// gen_Encrypt_panics_src: `if_pos h` no longer applies for 8 ≤ len(src) < 16; Encrypt_pre would demand 16 ≤ len(src)
		{"guard bound", "if len(src) < BlockSize {", "if len(src) < 8 {"},
		// gen_encryptX2_eq_spec: the window lemma is about [:32]
		{"X2 reslice", "cryptoBlockX2(src[:BlockSize<<1], dst[:BlockSize<<1], &sm4.enc)", "cryptoBlockX2(src[:BlockSize<<1], dst[:BlockSize<<2], &sm4.enc)"},
	}
	for _, c := range cases {
		t.Run(c.name, func(t *testing.T) {
			root, _ := s4Copy(t, s4Replace(t, c.old, c.new))
			out, stop := s4Run(root)
			if stop != "" {
				t.Fatalf("translator stopped: %s", stop)
			}
			if bytes.Equal(out, committed) {
				t.Fatalf("the mutation does not show in the generated file")
			}
		})
	}
}
