package main

// Facts about package-level state (sub-command "gofacts"), for property C17: every statement that
// writes a package-level variable outside initialisation, every method call whose receiver is rooted
// at a package-level variable (with the method name, so that Lean can check it against a list of
// read-only methods), every place where the address of (an element of) a package-level variable
// is taken, and every argument rooted at a package-level variable that is handed to code outside the module.
//
// The extractor works on TYPE-CHECKED syntax (go/parser + go/types, standard library only):
//
//   - every identifier is resolved to its types.Object, so a local `n := 1` in some block hides the
//     package-level `n` exactly where the Go scoping rules say so and nowhere else;
//   - a target is "package-level" iff the ROOT of its selector / index / slice / star / paren / & /
//     conversion / type-assertion chain is a *types.Var whose parent scope is a package scope — of the
//     package itself, of another package of the module (`internal.Tab[3] = …`), or of any other package;
//   - ORIGINS, interprocedurally, for the functions and methods the module has the Go body of: the
//     origins of an expression are the package-level variables and the parameters / receivers it may
//     point into.  A local variable carries the origins of everything assigned to it, or stored through
//     it (`x.f = e`, composite literals), anywhere in its function (flow-insensitive).  A parameter or
//     receiver stands, context-INsensitively, for every package-level variable that SOME call site of the
//     module (initialisation code included; calls through an interface bind every method of the module
//     implementing it; function literals called on the spot too) passes for it, transitively through
//     further calls (`packageLevelParamAliases`).  Each result of such a function is summarised as
//     package-level variables and own parameters (from ALL its return statements; "accessors") and
//     instantiated with the actual arguments at each call site; multi-result calls are followed;
//   - the result of a method the module has no body of (other module, interface, assembly) is rooted at
//     its receiver (a method may return a pointer into its receiver) — NOT at its other arguments;
//     `append(x, …)` is rooted at x; a call whose result type cannot alias anything (numbers, strings,
//     structs of such) has no root;
//   - so a write / mutating builtin / method call in a helper, through a parameter for which some caller
//     passes (something rooted at) a package-level variable, is reported at its position in the helper
//     under the name of that variable (unless the helper is init-only);
//   - arguments (receivers apart: those are method-call facts) rooted at a package-level variable and of a
//     type that can share memory, handed to code the module has no body of, are listed with the callee
//     and the argument index (`packageLevelArgsToForeign`; "(dynamic)" = call of a function value), to be
//     checked against an allow-list of callees that do not write that argument;
//   - write forms: `=` and every `op=`, `++`/`--`, `for k, v = range` targets, the destination of the
//     builtins copy / clear / delete / append;
//   - method calls: every method selection x.M (called or taken as a method value) and every method
//     expression call T.M(x, …);
//   - address taking: `&x…`, and slicing an array `x…[i:j]`;
//   - function literals are walked wherever they occur — in particular those in package-level `var`
//     initialisers and those inside init-only functions are treated as NON-initialisation code;
//   - initialisation code is: package-level initialiser expressions, `init` functions, and unexported
//     non-method functions every reference to which is a direct call from initialisation code (outside
//     function literals);
//   - the packages are type-checked once per build configuration (amd64, arm64, neither; plus one per
//     purego-like tag mentioned in a //go:build line) and the facts are united; a non-test Go file that
//     is in no configuration (and is not under one of the never-set tags verif / tablegen / ignore) stops
//     the translator;
//   - assigning to / taking the address of storage that lies INSIDE a local variable or parameter (the
//     variable, a field of a struct value, an element of an array value) is not a fact.
//
// NOT covered (documented in Props/C17.lean as well): pointers stored in a structure that is reached
// through a parameter and read back by the CALLER or by a later call (`p.f = &table` inside a callee;
// heap cells are not modelled, only variables); pointers returned by foreign code from a non-receiver
// argument (`x := bytes.TrimLeft(pkgSlice, …); x[0] = 1`); parameters of functions called only through
// function values (the call is listed as "(dynamic)"); closures capturing an alias are walked, but a
// literal's own parameters are bound only when it is called on the spot; goroutine / defer calls are
// ordinary calls; unsafe; reflection; what assembly routines do with their arguments (covered by the
// listings, C17 2b).  Context-insensitivity makes the analysis over-approximate: a helper that writes a
// parameter and is called with a package-level variable from initialisation AND with locals at run time
// is reported.
//
// Before emitting, the extractor is run on a built-in fixture (testdata/gofacts_fixture, embedded) that
// plants one instance of every form above and of every benign look-alike; the translator refuses to
// emit unless the facts reported on the fixture are exactly the marked ones.

import (
	"embed"
	"fmt"
	"go/ast"
	"go/build"
	"go/importer"
	"go/parser"
	"go/token"
	"go/types"
	"io"
	"io/fs"
	"os"
	"os/exec"
	"path"
	"sort"
	"strings"
)

//go:embed testdata/gofacts_fixture
var gofactsFixtureFS embed.FS

// ---------------------------------------------------------------------------------------------------
// build configurations and loading

type gfConfig struct {
	name   string
	goarch string
	tags   []string
}

// tags that are never set in a normal build of the library
var gfNeverTags = []string{"verif", "tablegen", "ignore"}

// tags that select a variant without assembly; each one mentioned in the sources gets its own configuration
var gfVariantTags = []string{"purego", "noasm", "nosimd", "generic", "appengine", "safe"}

type gfPkg struct {
	rel   string // directory relative to the module root, "/"-separated
	path  string // import path
	files []*ast.File
	tpkg  *types.Package
	info  *types.Info
}

// one module (the library, or the fixture), type-checked for one build configuration
type gfLoader struct {
	fsys    fs.FS  // the module root
	osRoot  string // the module root on disk, for `go list` of third-party imports ("" = none allowed)
	modPath string
	cfg     gfConfig
	fset    *token.FileSet
	std     types.Importer
	pkgs    map[string]*gfPkg // import path → package of the module
	other   map[string]*types.Package
	busy    map[string]bool
	used    map[string]bool // rel/file of every file of the module included in this configuration
}

var gfStdImporter types.Importer
var gfFset = token.NewFileSet()

func gfStd() types.Importer {
	if gfStdImporter == nil {
		// the standard library is type-checked from source (no export data, no go command needed)
		build.Default.CgoEnabled = false
		gfStdImporter = importer.ForCompiler(gfFset, "source", nil)
	}
	return gfStdImporter
}

func (l *gfLoader) context(fsys fs.FS) *build.Context {
	ctxt := build.Default
	ctxt.GOARCH = l.cfg.goarch
	ctxt.GOOS = "linux"
	ctxt.CgoEnabled = false
	ctxt.Compiler = "gc"
	ctxt.BuildTags = append([]string{}, l.cfg.tags...)
	ctxt.UseAllFiles = false
	ctxt.JoinPath = path.Join
	ctxt.OpenFile = func(p string) (io.ReadCloser, error) { return fsys.Open(p) }
	return &ctxt
}

// the non-test Go files of directory rel of fsys that belong to the configuration, parsed
func (l *gfLoader) parseDir(fsys fs.FS, rel, display string) ([]*ast.File, []string) {
	ents, err := fs.ReadDir(fsys, rel)
	if err != nil {
		die("gofacts: %v", err)
	}
	ctxt := l.context(fsys)
	var files []*ast.File
	var names []string
	for _, e := range ents {
		n := e.Name()
		if e.IsDir() || !strings.HasSuffix(n, ".go") || strings.HasSuffix(n, "_test.go") {
			continue
		}
		ok, err := ctxt.MatchFile(rel, n)
		if err != nil {
			die("gofacts: %s/%s: %v", rel, n, err)
		}
		if !ok {
			continue
		}
		src, err := fs.ReadFile(fsys, path.Join(rel, n))
		if err != nil {
			die("gofacts: %v", err)
		}
		f, err := parser.ParseFile(l.fset, path.Join(display, n), src, parser.ParseComments)
		if err != nil {
			die("gofacts: %v", err)
		}
		files = append(files, f)
		names = append(names, n)
	}
	return files, names
}

func (l *gfLoader) inModule(p string) bool {
	return p == l.modPath || strings.HasPrefix(p, l.modPath+"/")
}

func (l *gfLoader) Import(p string) (*types.Package, error) {
	switch {
	case p == "unsafe":
		return types.Unsafe, nil
	case p == "C":
		return nil, fmt.Errorf("cgo is not supported")
	case l.inModule(p):
		rel := strings.TrimPrefix(strings.TrimPrefix(p, l.modPath), "/")
		if rel == "" {
			rel = "."
		}
		return l.load(rel).tpkg, nil
	case !strings.Contains(strings.SplitN(p, "/", 2)[0], "."):
		return gfStd().Import(p)
	}
	if tp := l.other[p]; tp != nil {
		return tp, nil
	}
	// a third-party module: ask the go command where it is, type-check its API from source
	if l.osRoot == "" {
		return nil, fmt.Errorf("import %q: third-party imports are not available here", p)
	}
	cmd := exec.Command("go", "list", "-f", "{{.Dir}}", p)
	cmd.Dir = l.osRoot
	cmd.Stderr = os.Stderr
	out, err := cmd.Output()
	if err != nil {
		return nil, fmt.Errorf("go list %s (in %s): %v", p, l.osRoot, err)
	}
	dir := strings.TrimSpace(string(out))
	files, _ := l.parseDir(os.DirFS(dir), ".", dir)
	conf := types.Config{Importer: l, IgnoreFuncBodies: true, Error: func(error) {}}
	tp, _ := conf.Check(p, l.fset, files, nil)
	if tp == nil {
		return nil, fmt.Errorf("import %q: cannot type-check %s", p, dir)
	}
	l.other[p] = tp
	return tp, nil
}

// load type-checks the package in directory rel of the module (once)
func (l *gfLoader) load(rel string) *gfPkg {
	ip := l.modPath
	if rel != "." {
		ip += "/" + rel
	}
	if p := l.pkgs[ip]; p != nil {
		return p
	}
	if l.busy[ip] {
		die("gofacts: import cycle through %s", ip)
	}
	l.busy[ip] = true
	files, names := l.parseDir(l.fsys, rel, rel)
	if len(files) == 0 {
		die("gofacts: no Go files for %s in configuration %s", ip, l.cfg.name)
	}
	for _, n := range names {
		l.used[path.Join(rel, n)] = true
	}
	p := &gfPkg{rel: rel, path: ip, files: files, info: &types.Info{
		Types:      map[ast.Expr]types.TypeAndValue{},
		Defs:       map[*ast.Ident]types.Object{},
		Uses:       map[*ast.Ident]types.Object{},
		Selections: map[*ast.SelectorExpr]*types.Selection{},
	}}
	var errs []string
	conf := types.Config{Importer: l, Error: func(err error) { errs = append(errs, err.Error()) }}
	p.tpkg, _ = conf.Check(ip, l.fset, files, p.info)
	if len(errs) > 0 || p.tpkg == nil {
		// the analysis is only meaningful on well-typed code
		if len(errs) > 8 {
			errs = errs[:8]
		}
		die("gofacts: %s does not type-check in configuration %s:\n  %s", ip, l.cfg.name, strings.Join(errs, "\n  "))
	}
	l.pkgs[ip] = p
	delete(l.busy, ip)
	return p
}

// ---------------------------------------------------------------------------------------------------
// facts

type gfFact struct {
	kind  string // write | call | fcall | addr | farg
	where string // pkg/file.go:line
	v     string // the variable: NAME in its own package, otherwise PKG.NAME
	third string // write, addr: the enclosing function; call, fcall: the method name; farg: the argument index
	qual  string // call, fcall: the method with its receiver type, e.g. (*math/big.Int).SetInt64; farg: the callee
	recv  string // call, fcall: pointer | value | interface — the kind of the method's receiver
}

type gfFacts struct {
	facts        map[gfFact]bool
	vars         map[string]bool // pkg.name of every package-level variable of the analysed packages
	initOnly     map[string]bool // pkg.func
	accessors    map[string]bool // pkg.func → var, as "pkg.func\x00var"
	bindings     map[string]bool // "pkg\x00func\x00param\x00var": a call site passes var (or something rooted at it) for param
	seenArgCalls map[string]bool // position of every call examined for arguments handed to foreign code
	seenCalls    map[string]bool // position of every method call examined in non-initialisation code
	seenAsg      map[string]bool // … assignment / inc-dec / range-assign statement
	seenLits     map[string]bool // … function literal
	seenFuncs    map[string]bool // … function declaration walked as non-initialisation code
	configs      []string
}

func newGfFacts() *gfFacts {
	return &gfFacts{facts: map[gfFact]bool{}, vars: map[string]bool{}, initOnly: map[string]bool{}, accessors: map[string]bool{}, bindings: map[string]bool{}, seenArgCalls: map[string]bool{},
		seenCalls: map[string]bool{}, seenAsg: map[string]bool{}, seenLits: map[string]bool{}, seenFuncs: map[string]bool{}}
}

// the analysis of one loaded configuration
//
// ORIGINS.  The origin of an expression is a set of variables, each either a package-level variable or a
// parameter / receiver of a function of the module (or of a function literal): what the value may point
// into.  Local variables carry the origins of everything ever assigned to them (flow-insensitive); a
// parameter additionally carries, context-INsensitively, the package-level variables that any call site
// anywhere in the module (initialisation code included) passes for it (`bind`), transitively.  The result
// of a call of a function of the module is summarised per result (`ret`) as package-level variables and
// own parameters, and instantiated with the actual arguments at each call site (context-sensitive).
type gfSet map[*types.Var]bool

type gfDecl struct {
	p  *gfPkg
	fd *ast.FuncDecl
}

type gfParam struct {
	fn  *types.Func // nil: parameter of a function literal
	idx int         // -1: the receiver
}

type gfWorld struct {
	l        *gfLoader
	pkgs     []*gfPkg
	decl     map[*types.Func]*gfDecl // the functions and methods declared in the module
	param    map[*types.Var]gfParam  // their parameters and receivers, and those of function literals
	alias    map[*types.Var]gfSet    // local variable or parameter → origins of what was stored in (or through) it
	bind     map[*types.Var]gfSet    // parameter → package-level variables passed for it somewhere
	ret      map[*types.Func][]gfSet // function of the module → origins of each result
	impl     map[*types.Func][]*types.Func
	initOnly map[*types.Func]bool
	changed  bool
	out      *gfFacts
}

func gfUnparen(e ast.Expr) ast.Expr {
	for {
		p, ok := e.(*ast.ParenExpr)
		if !ok {
			return e
		}
		e = p.X
	}
}

func gfPkgVar(obj types.Object) *types.Var {
	v, ok := obj.(*types.Var)
	if !ok || v.IsField() || v.Pkg() == nil || v.Parent() != v.Pkg().Scope() {
		return nil
	}
	return v
}

// may a value of type t share memory with the value it was computed from?
func gfMayAlias(t types.Type, depth int) bool {
	if t == nil || depth > 10 {
		return true
	}
	switch u := t.Underlying().(type) {
	case *types.Basic:
		return u.Kind() == types.UnsafePointer || u.Kind() == types.Invalid
	case *types.Array:
		return gfMayAlias(u.Elem(), depth+1)
	case *types.Struct:
		for i := 0; i < u.NumFields(); i++ {
			if gfMayAlias(u.Field(i).Type(), depth+1) {
				return true
			}
		}
		return false
	case *types.Tuple:
		return false
	}
	return true // pointers, slices, maps, channels, functions, interfaces, type parameters
}

func gfOrigin(f *types.Func) *types.Func {
	if f == nil {
		return nil
	}
	return f.Origin()
}

func (w *gfWorld) addAll(m map[*types.Var]gfSet, key *types.Var, src gfSet) {
	if len(src) == 0 || key == nil {
		return
	}
	dst := m[key]
	if dst == nil {
		dst = gfSet{}
		m[key] = dst
	}
	for v := range src {
		if !dst[v] && v != key {
			dst[v] = true
			w.changed = true
		}
	}
}

func gfUnion(a, b gfSet) gfSet {
	if len(b) == 0 {
		return a
	}
	if a == nil {
		a = gfSet{}
	}
	for v := range b {
		a[v] = true
	}
	return a
}

// a call, resolved
type gfCall struct {
	fn      *types.Func  // the function or method called (nil: builtin, conversion, literal or dynamic)
	lit     *ast.FuncLit // a function literal called on the spot
	builtin string
	conv    bool
	recv    ast.Expr   // the receiver expression of a method call (for a method expression: the first argument)
	mexpr   bool       // a method expression call T.M(recv, args…)
	args    []ast.Expr // the other arguments
}

func (w *gfWorld) resolve(p *gfPkg, call *ast.CallExpr) gfCall {
	info := p.info
	fun := gfUnparen(call.Fun)
	if tv, ok := info.Types[fun]; ok && tv.IsType() {
		return gfCall{conv: true, args: call.Args}
	}
	switch f := fun.(type) {
	case *ast.FuncLit:
		return gfCall{lit: f, args: call.Args}
	case *ast.Ident:
		switch obj := info.Uses[f].(type) {
		case *types.Builtin:
			return gfCall{builtin: obj.Name(), args: call.Args}
		case *types.Func:
			return gfCall{fn: gfOrigin(obj), args: call.Args}
		}
	case *ast.SelectorExpr:
		if sel := info.Selections[f]; sel != nil {
			m, _ := sel.Obj().(*types.Func)
			switch sel.Kind() {
			case types.MethodVal:
				return gfCall{fn: gfOrigin(m), recv: f.X, args: call.Args}
			case types.MethodExpr:
				if len(call.Args) > 0 {
					return gfCall{fn: gfOrigin(m), recv: call.Args[0], args: call.Args[1:], mexpr: true}
				}
			}
			return gfCall{args: call.Args} // a function-typed field
		}
		if fn, ok := info.Uses[f.Sel].(*types.Func); ok { // pkg.Func(…)
			return gfCall{fn: gfOrigin(fn), args: call.Args}
		}
	}
	return gfCall{args: call.Args} // dynamic
}

// has the module the body of fn?
func (w *gfWorld) hasBody(fn *types.Func) bool {
	d := w.decl[fn]
	return d != nil && d.fd.Body != nil
}

// the actual argument expressions for parameter idx of the callee (-1: the receiver)
func gfActuals(c gfCall, sig *types.Signature, idx int) []ast.Expr {
	if idx < 0 {
		if c.recv != nil {
			return []ast.Expr{c.recv}
		}
		return nil
	}
	n := sig.Params().Len()
	if sig.Variadic() && idx == n-1 {
		if idx < len(c.args) {
			return c.args[idx:]
		}
		return nil
	}
	if idx < len(c.args) {
		return c.args[idx : idx+1]
	}
	return nil
}

// origins of result k of a call
func (w *gfWorld) callOrigins(p *gfPkg, call *ast.CallExpr, k int) gfSet {
	t := p.info.TypeOf(call)
	if tup, ok := t.(*types.Tuple); ok {
		if k >= tup.Len() {
			return nil
		}
		t = tup.At(k).Type()
	} else if k != 0 {
		return nil
	}
	c := w.resolve(p, call)
	if c.conv {
		if len(c.args) == 1 {
			return w.origins(p, c.args[0])
		}
		return nil
	}
	if !gfMayAlias(t, 0) {
		return nil
	}
	if c.builtin == "append" && len(c.args) > 0 {
		return w.origins(p, c.args[0])
	}
	if c.fn != nil && w.hasBody(c.fn) {
		rs := w.ret[c.fn]
		if k >= len(rs) {
			return nil
		}
		sig := c.fn.Type().(*types.Signature)
		var out gfSet
		for o := range rs[k] {
			if pi, isParam := w.param[o]; isParam {
				if pi.fn == c.fn {
					for _, a := range gfActuals(c, sig, pi.idx) {
						out = gfUnion(out, w.origins(p, a))
					}
				}
				continue
			}
			out = gfUnion(out, gfSet{o: true})
		}
		return out
	}
	if c.fn != nil && c.recv != nil {
		// a method whose body the module does not have (other module, interface, assembly): it may
		// return a pointer into its receiver.  (Its other arguments are NOT followed.)
		return w.origins(p, c.recv)
	}
	return nil
}

// origins of an expression: package-level variables and parameters it may point into
func (w *gfWorld) origins(p *gfPkg, e ast.Expr) gfSet {
	info := p.info
	for {
		switch x := e.(type) {
		case *ast.Ident:
			obj := info.ObjectOf(x)
			if v := gfPkgVar(obj); v != nil {
				return gfSet{v: true}
			}
			lv, ok := obj.(*types.Var)
			if !ok {
				return nil
			}
			var out gfSet
			if _, isParam := w.param[lv]; isParam {
				out = gfSet{lv: true}
			}
			return gfUnion(out, w.alias[lv])
		case *ast.SelectorExpr:
			if id, ok := x.X.(*ast.Ident); ok {
				if _, isPkg := info.Uses[id].(*types.PkgName); isPkg {
					if v := gfPkgVar(info.Uses[x.Sel]); v != nil { // qualified identifier
						return gfSet{v: true}
					}
					return nil
				}
			}
			e = x.X
		case *ast.IndexExpr:
			e = x.X
		case *ast.IndexListExpr:
			e = x.X
		case *ast.SliceExpr:
			e = x.X
		case *ast.StarExpr:
			e = x.X
		case *ast.ParenExpr:
			e = x.X
		case *ast.TypeAssertExpr:
			e = x.X
		case *ast.UnaryExpr:
			if x.Op != token.AND {
				return nil
			}
			e = x.X
		case *ast.CompositeLit:
			var out gfSet
			for _, el := range x.Elts {
				if kv, ok := el.(*ast.KeyValueExpr); ok {
					el = kv.Value
				}
				if gfMayAlias(info.TypeOf(el), 0) {
					out = gfUnion(out, w.origins(p, el))
				}
			}
			return out
		case *ast.CallExpr:
			return w.callOrigins(p, x, 0)
		default:
			return nil
		}
	}
}

// expand origins to package-level variables: a parameter stands for everything bound to it
func (w *gfWorld) expand(os gfSet) []*types.Var {
	seen := gfSet{}
	for o := range os {
		if _, isParam := w.param[o]; isParam {
			for v := range w.bind[o] {
				seen[v] = true
			}
		} else {
			seen[o] = true
		}
	}
	out := make([]*types.Var, 0, len(seen))
	for v := range seen {
		out = append(out, v)
	}
	sort.Slice(out, func(i, j int) bool {
		if out[i].Pkg().Path() != out[j].Pkg().Path() {
			return out[i].Pkg().Path() < out[j].Pkg().Path()
		}
		return out[i].Name() < out[j].Name()
	})
	return out
}

// roots: the package-level variables an expression may be rooted at
func (w *gfWorld) roots(p *gfPkg, e ast.Expr) []*types.Var { return w.expand(w.origins(p, e)) }

func (w *gfWorld) where(pos token.Pos) string {
	p := w.l.fset.Position(pos)
	return fmt.Sprintf("%s:%d", p.Filename, p.Line)
}

func (w *gfWorld) posKey(pos token.Pos) string {
	p := w.l.fset.Position(pos)
	return fmt.Sprintf("%s:%d:%d", p.Filename, p.Line, p.Column)
}

func (w *gfWorld) relOf(tp *types.Package) string {
	if w.l.inModule(tp.Path()) {
		r := strings.TrimPrefix(strings.TrimPrefix(tp.Path(), w.l.modPath), "/")
		if r == "" {
			r = "."
		}
		return r
	}
	return tp.Path()
}

func (w *gfWorld) varName(p *gfPkg, v *types.Var) string {
	if v.Pkg() == p.tpkg {
		return v.Name()
	}
	return w.relOf(v.Pkg()) + "." + v.Name()
}

// declarations, parameters
func (w *gfWorld) collectDecls() {
	for _, p := range w.pkgs {
		for _, f := range p.files {
			ast.Inspect(f, func(n ast.Node) bool {
				switch x := n.(type) {
				case *ast.FuncDecl:
					fn, _ := p.info.Defs[x.Name].(*types.Func)
					if fn == nil {
						return true
					}
					w.decl[fn] = &gfDecl{p, x}
					sig := fn.Type().(*types.Signature)
					if r := sig.Recv(); r != nil {
						w.param[r] = gfParam{fn, -1}
					}
					for i := 0; i < sig.Params().Len(); i++ {
						w.param[sig.Params().At(i)] = gfParam{fn, i}
					}
					w.ret[fn] = make([]gfSet, sig.Results().Len())
				case *ast.FuncLit:
					if sig, ok := p.info.TypeOf(x).(*types.Signature); ok {
						for i := 0; i < sig.Params().Len(); i++ {
							w.param[sig.Params().At(i)] = gfParam{nil, i}
						}
					}
				}
				return true
			})
		}
	}
}

// the local variable or parameter at the base of an assignment target that is not a plain variable
// (`p.f`, `p[i]`, `*p`, `p.f[i].g` → p); nil for package-level variables and calls
func (w *gfWorld) baseLocal(p *gfPkg, e ast.Expr) *types.Var {
	for {
		switch x := e.(type) {
		case *ast.Ident:
			lv, _ := p.info.ObjectOf(x).(*types.Var)
			if lv == nil || gfPkgVar(lv) != nil {
				return nil
			}
			return lv
		case *ast.SelectorExpr:
			if id, ok := x.X.(*ast.Ident); ok {
				if _, isPkg := p.info.Uses[id].(*types.PkgName); isPkg {
					return nil
				}
			}
			e = x.X
		case *ast.IndexExpr:
			e = x.X
		case *ast.StarExpr:
			e = x.X
		case *ast.ParenExpr:
			e = x.X
		case *ast.SliceExpr:
			e = x.X
		default:
			return nil
		}
	}
}

// the methods of the module (with a body) that a call of the interface method im may dispatch to
func (w *gfWorld) implementers(im *types.Func) []*types.Func {
	if ms, ok := w.impl[im]; ok {
		return ms
	}
	var ms []*types.Func
	if sig, ok := im.Type().(*types.Signature); ok && sig.Recv() != nil {
		if iface, ok := sig.Recv().Type().Underlying().(*types.Interface); ok {
			for fn := range w.decl {
				fs := fn.Type().(*types.Signature)
				if fs.Recv() == nil || fn.Name() != im.Name() || !w.hasBody(fn) {
					continue
				}
				rt := fs.Recv().Type()
				if types.Implements(rt, iface) || types.Implements(types.NewPointer(rt), iface) {
					ms = append(ms, fn)
				}
			}
		}
	}
	sort.Slice(ms, func(i, j int) bool { return ms[i].FullName() < ms[j].FullName() })
	w.impl[im] = ms
	return ms
}

// bindParam: the parameter pv of a callee receives a value with these origins
func (w *gfWorld) bindParam(pv *types.Var, os gfSet) {
	if pv == nil || len(os) == 0 || !gfMayAlias(pv.Type(), 0) {
		return
	}
	for o := range os {
		if _, isParam := w.param[o]; isParam {
			w.addAll(w.bind, pv, w.bind[o])
		} else {
			w.addAll(w.bind, pv, gfSet{o: true})
		}
	}
}

// one flow-insensitive pass over a region of code (the body of fn, or a package-level initialiser when
// fn == nil): local aliases, stores through locals, parameter bindings at call sites, result summaries
func (w *gfWorld) flow(p *gfPkg, fn *types.Func, root ast.Node) {
	info := p.info
	assign := func(lhs ast.Expr, os gfSet, rhsType types.Type) {
		if len(os) == 0 {
			return
		}
		if id, ok := gfUnparen(lhs).(*ast.Ident); ok {
			lv, _ := info.ObjectOf(id).(*types.Var)
			if lv != nil && gfPkgVar(lv) == nil && gfMayAlias(lv.Type(), 0) {
				w.addAll(w.alias, lv, os)
			}
			return
		}
		// a store THROUGH a local variable or parameter: what it points to now holds these origins too
		if base := w.baseLocal(p, lhs); base != nil && gfMayAlias(rhsType, 0) {
			w.addAll(w.alias, base, os)
		}
	}
	depth := 0
	var stack []ast.Node
	ast.Inspect(root, func(n ast.Node) bool {
		if n == nil {
			if _, ok := stack[len(stack)-1].(*ast.FuncLit); ok {
				depth--
			}
			stack = stack[:len(stack)-1]
			return true
		}
		stack = append(stack, n)
		switch x := n.(type) {
		case *ast.FuncLit:
			depth++
		case *ast.AssignStmt:
			if x.Tok != token.DEFINE && x.Tok != token.ASSIGN {
				break
			}
			if len(x.Lhs) == len(x.Rhs) {
				for i := range x.Lhs {
					if t := info.TypeOf(x.Rhs[i]); gfMayAlias(t, 0) {
						assign(x.Lhs[i], w.origins(p, x.Rhs[i]), t)
					}
				}
			} else if call, ok := gfUnparen(x.Rhs[0]).(*ast.CallExpr); ok && len(x.Rhs) == 1 {
				if tup, ok := info.TypeOf(call).(*types.Tuple); ok {
					for k := range x.Lhs {
						if k < tup.Len() && gfMayAlias(tup.At(k).Type(), 0) {
							assign(x.Lhs[k], w.callOrigins(p, call, k), tup.At(k).Type())
						}
					}
				}
			}
		case *ast.ValueSpec:
			if len(x.Names) == len(x.Values) {
				for i := range x.Names {
					if t := info.TypeOf(x.Values[i]); gfMayAlias(t, 0) {
						assign(x.Names[i], w.origins(p, x.Values[i]), t)
					}
				}
			} else if len(x.Values) == 1 {
				if call, ok := gfUnparen(x.Values[0]).(*ast.CallExpr); ok {
					if tup, ok := info.TypeOf(call).(*types.Tuple); ok {
						for k := range x.Names {
							if k < tup.Len() && gfMayAlias(tup.At(k).Type(), 0) {
								assign(x.Names[k], w.callOrigins(p, call, k), tup.At(k).Type())
							}
						}
					}
				}
			}
		case *ast.RangeStmt:
			if os := w.origins(p, x.X); len(os) > 0 {
				for _, e := range []ast.Expr{x.Key, x.Value} {
					if e != nil {
						assign(e, os, info.TypeOf(e))
					}
				}
			}
		case *ast.SelectorExpr:
			// a method of the module selected on something (called or not): its receiver is bound
			if sel := info.Selections[x]; sel != nil && sel.Kind() == types.MethodVal {
				if m, _ := sel.Obj().(*types.Func); m != nil && w.hasBody(gfOrigin(m)) {
					w.bindParam(gfOrigin(m).Type().(*types.Signature).Recv(), w.origins(p, x.X))
				}
			}
		case *ast.CallExpr:
			c := w.resolve(p, x)
			var sigs []*types.Signature
			switch {
			case c.lit != nil:
				if sig, ok := info.TypeOf(c.lit).(*types.Signature); ok {
					sigs = append(sigs, sig)
				}
			case c.fn != nil && w.hasBody(c.fn):
				sig := c.fn.Type().(*types.Signature)
				sigs = append(sigs, sig)
				if c.mexpr { // (a method selected the ordinary way has its receiver bound at the selector)
					w.bindParam(sig.Recv(), w.origins(p, c.recv))
				}
			case c.fn != nil && c.recv != nil:
				// an interface method: every method of the module that may be the one called
				for _, m := range w.implementers(c.fn) {
					sig := m.Type().(*types.Signature)
					sigs = append(sigs, sig)
					w.bindParam(sig.Recv(), w.origins(p, c.recv))
				}
			}
			for _, sig := range sigs {
				n := sig.Params().Len()
				for i, a := range c.args {
					j := i
					if j >= n {
						if !sig.Variadic() {
							break
						}
						j = n - 1
					}
					if gfMayAlias(info.TypeOf(a), 0) {
						w.bindParam(sig.Params().At(j), w.origins(p, a))
					}
				}
			}
		case *ast.ReturnStmt:
			if fn == nil || depth > 0 {
				break
			}
			rs := w.ret[fn]
			sig := fn.Type().(*types.Signature)
			add := func(k int, os gfSet) {
				if k < len(rs) && len(os) > 0 && gfMayAlias(sig.Results().At(k).Type(), 0) {
					if rs[k] == nil {
						rs[k] = gfSet{}
					}
					for o := range os {
						if pi, isParam := w.param[o]; isParam && pi.fn != fn {
							continue // a parameter of an enclosing literal: not expressible
						}
						if !rs[k][o] {
							rs[k][o] = true
							w.changed = true
						}
					}
				}
			}
			switch {
			case len(x.Results) == 0: // named results
				for k := 0; k < sig.Results().Len(); k++ {
					add(k, w.alias[sig.Results().At(k)])
				}
			case len(x.Results) == len(rs):
				for k, r := range x.Results {
					add(k, w.origins(p, r))
				}
			case len(x.Results) == 1: // return f()
				if call, ok := gfUnparen(x.Results[0]).(*ast.CallExpr); ok {
					for k := range rs {
						add(k, w.callOrigins(p, call, k))
					}
				}
			}
		}
		return true
	})
}

// the fixpoint of flow over all the code of the module (initialisation code included: a helper may be
// called from both)
func (w *gfWorld) solve() {
	w.collectDecls()
	for iter := 0; ; iter++ {
		w.changed = false
		for _, p := range w.pkgs {
			for _, f := range p.files {
				for _, d := range f.Decls {
					switch x := d.(type) {
					case *ast.FuncDecl:
						if fn, _ := p.info.Defs[x.Name].(*types.Func); fn != nil && x.Body != nil {
							w.flow(p, fn, x.Body)
						}
					case *ast.GenDecl:
						if x.Tok == token.VAR {
							for _, sp := range x.Specs {
								for _, e := range sp.(*ast.ValueSpec).Values {
									w.flow(p, nil, e)
								}
							}
						}
					}
				}
			}
		}
		if !w.changed {
			break
		}
		if iter > 200 {
			die("gofacts: the alias analysis does not converge")
		}
	}
	// what is emitted for review: accessors (a result that may be rooted at a package-level variable
	// directly) and the parameter bindings
	for fn, d := range w.decl {
		if rs := w.ret[fn]; len(rs) == 1 {
			for o := range rs[0] {
				if _, isParam := w.param[o]; !isParam {
					w.out.accessors[d.p.rel+"."+gfFuncName(d.fd)+"\x00"+w.varName(d.p, o)] = true
				}
			}
		}
	}
	for pv, vs := range w.bind {
		pi := w.param[pv]
		if pi.fn == nil {
			continue
		}
		d := w.decl[pi.fn]
		name := pv.Name()
		if name == "" || name == "_" {
			name = fmt.Sprintf("#%d", pi.idx)
		}
		for v := range vs {
			w.out.bindings[d.p.rel+"\x00"+gfFuncName(d.fd)+"\x00"+name+"\x00"+w.varName(d.p, v)] = true
		}
	}
}

func gfFuncName(fd *ast.FuncDecl) string {
	if fd.Recv == nil || len(fd.Recv.List) == 0 {
		return fd.Name.Name
	}
	t := fd.Recv.List[0].Type
	star := ""
	if s, ok := t.(*ast.StarExpr); ok {
		t, star = s.X, "*"
	}
	if ix, ok := t.(*ast.IndexExpr); ok {
		t = ix.X
	}
	if id, ok := t.(*ast.Ident); ok {
		return "(" + star + id.Name + ")." + fd.Name.Name
	}
	return "(?)." + fd.Name.Name
}

// the package-level initialiser expressions of a package
func gfVarInits(p *gfPkg) []ast.Expr {
	var out []ast.Expr
	for _, f := range p.files {
		for _, d := range f.Decls {
			if gd, ok := d.(*ast.GenDecl); ok && gd.Tok == token.VAR {
				for _, sp := range gd.Specs {
					out = append(out, sp.(*ast.ValueSpec).Values...)
				}
			}
		}
	}
	return out
}

// init-only functions of one package: init, and unexported non-method functions every reference to
// which is a direct call located in initialisation code (an init-only function's body or a package-level
// initialiser) and outside every function literal
func (w *gfWorld) findInitOnly(p *gfPkg) {
	type ref struct {
		region *types.Func // nil: a package-level initialiser
		inLit  bool
		isCall bool
	}
	refs := map[*types.Func][]ref{}
	decls := map[*types.Func]*ast.FuncDecl{}
	scan := func(region *types.Func, root ast.Node) {
		callFun := map[*ast.Ident]bool{}
		depth := 0
		var stack []ast.Node
		ast.Inspect(root, func(n ast.Node) bool {
			if n == nil {
				if _, ok := stack[len(stack)-1].(*ast.FuncLit); ok {
					depth--
				}
				stack = stack[:len(stack)-1]
				return true
			}
			stack = append(stack, n)
			switch x := n.(type) {
			case *ast.FuncLit:
				depth++
			case *ast.CallExpr:
				if id, ok := gfUnparen(x.Fun).(*ast.Ident); ok {
					callFun[id] = true
				}
			case *ast.Ident:
				if fn, ok := p.info.Uses[x].(*types.Func); ok && fn.Pkg() == p.tpkg {
					refs[fn] = append(refs[fn], ref{region, depth > 0, callFun[x]})
				}
			}
			return true
		})
	}
	for _, f := range p.files {
		for _, d := range f.Decls {
			fd, ok := d.(*ast.FuncDecl)
			if !ok {
				continue
			}
			fn, _ := p.info.Defs[fd.Name].(*types.Func)
			if fn == nil {
				continue
			}
			decls[fn] = fd
			if fd.Recv == nil && fd.Name.Name == "init" {
				w.initOnly[fn] = true
			}
			if fd.Body != nil {
				scan(fn, fd.Body)
			}
		}
	}
	for _, e := range gfVarInits(p) {
		scan(nil, e)
	}
	for changed := true; changed; {
		changed = false
		for fn, fd := range decls {
			if w.initOnly[fn] || fd.Recv != nil || fd.Body == nil || ast.IsExported(fd.Name.Name) || fd.Name.Name == "main" {
				continue
			}
			ok, n := true, 0
			for _, r := range refs[fn] {
				if r.region == fn {
					continue // recursion
				}
				n++
				if !r.isCall || r.inLit || (r.region != nil && !w.initOnly[r.region]) {
					ok = false
				}
			}
			if ok && n > 0 {
				w.initOnly[fn] = true
				changed = true
			}
		}
	}
	for fn, fd := range decls {
		if w.initOnly[fn] && fd.Name.Name != "init" {
			w.out.initOnly[p.rel+"."+fd.Name.Name] = true
		}
	}
}

func (w *gfWorld) add(f gfFact) { w.out.facts[f] = true }

// is the storage designated by e inside a local variable or parameter itself (the variable, a field of a
// struct value, an element of an array value — no pointer, slice or map on the way)?  Assigning to, or
// taking the address of, such storage does not touch the package-level variables the variable may point into.
func (w *gfWorld) bareLocal(p *gfPkg, e ast.Expr) bool {
	for {
		switch x := e.(type) {
		case *ast.ParenExpr:
			e = x.X
		case *ast.Ident:
			_, isVar := p.info.ObjectOf(x).(*types.Var)
			return isVar && gfPkgVar(p.info.ObjectOf(x)) == nil
		case *ast.SelectorExpr:
			sel := p.info.Selections[x]
			if sel == nil || sel.Kind() != types.FieldVal || sel.Indirect() {
				return false
			}
			if t := p.info.TypeOf(x.X); t == nil {
				return false
			} else if _, isPtr := t.Underlying().(*types.Pointer); isPtr {
				return false
			}
			e = x.X
		case *ast.IndexExpr:
			t := p.info.TypeOf(x.X)
			if t == nil {
				return false
			}
			if _, isArr := t.Underlying().(*types.Array); !isArr {
				return false
			}
			e = x.X
		default:
			return false
		}
	}
}

func (w *gfWorld) noteWrite(p *gfPkg, target ast.Expr, at token.Pos, fn string) {
	for _, v := range w.roots(p, target) {
		w.add(gfFact{kind: "write", where: w.where(at), v: w.varName(p, v), third: fn})
	}
}

func (w *gfWorld) noteAddr(p *gfPkg, target ast.Expr, at token.Pos, fn string) {
	// only for targets rooted DIRECTLY (not through a parameter) at a package-level variable: inside a
	// callee the pointer exists already
	for o := range w.origins(p, target) {
		if _, isParam := w.param[o]; !isParam {
			w.add(gfFact{kind: "addr", where: w.where(at), v: w.varName(p, o), third: fn})
		}
	}
}

func (w *gfWorld) noteMethod(p *gfPkg, recv ast.Expr, m *types.Func, at token.Pos) {
	w.out.seenCalls[w.posKey(at)] = true
	if m == nil {
		return
	}
	for _, v := range w.roots(p, recv) {
		kind, qual := "value", m.Name()
		if sig, ok := m.Type().(*types.Signature); ok && sig.Recv() != nil {
			rt := sig.Recv().Type()
			if _, isPtr := rt.(*types.Pointer); isPtr {
				kind = "pointer"
			} else if types.IsInterface(rt) {
				kind = "interface"
			}
			qual = "(" + types.TypeString(rt, nil) + ")." + m.Name()
		}
		k := "call"
		if !w.l.inModule(v.Pkg().Path()) {
			k = "fcall"
		}
		w.add(gfFact{kind: k, where: w.where(at), v: w.varName(p, v), third: m.Name(), qual: qual, recv: kind})
	}
}

// an argument (not the receiver) rooted at a package-level variable handed to code the module has no body
// of: another module, an interface method, an assembly routine, a function value
func (w *gfWorld) noteForeignArgs(p *gfPkg, call *ast.CallExpr) {
	c := w.resolve(p, call)
	if c.conv || c.builtin != "" || c.lit != nil || (c.fn != nil && w.hasBody(c.fn)) {
		return
	}
	callee := "(dynamic)"
	if c.fn != nil {
		callee = c.fn.FullName()
	}
	for i, a := range c.args {
		if !gfMayAlias(p.info.TypeOf(a), 0) {
			continue
		}
		for _, v := range w.roots(p, a) {
			w.add(gfFact{kind: "farg", where: w.where(a.Pos()), v: w.varName(p, v), third: fmt.Sprint(i), qual: callee})
		}
	}
}

// walk examines code that may run after initialisation
func (w *gfWorld) walk(p *gfPkg, body ast.Node, fn string) {
	info := p.info
	ast.Inspect(body, func(n ast.Node) bool {
		switch x := n.(type) {
		case *ast.FuncLit:
			w.out.seenLits[w.posKey(x.Pos())] = true
		case *ast.AssignStmt:
			if x.Tok != token.DEFINE { // := only ever declares or re-assigns variables of a function scope
				w.out.seenAsg[w.posKey(x.Pos())] = true
				for _, lhs := range x.Lhs {
					if !w.bareLocal(p, lhs) {
						w.noteWrite(p, lhs, x.Pos(), fn)
					}
				}
			}
		case *ast.IncDecStmt:
			w.out.seenAsg[w.posKey(x.Pos())] = true
			if !w.bareLocal(p, x.X) {
				w.noteWrite(p, x.X, x.Pos(), fn)
			}
		case *ast.RangeStmt:
			if x.Tok == token.ASSIGN {
				w.out.seenAsg[w.posKey(x.Pos())] = true
				for _, e := range []ast.Expr{x.Key, x.Value} {
					if e != nil && !w.bareLocal(p, e) {
						w.noteWrite(p, e, x.Pos(), fn)
					}
				}
			}
		case *ast.UnaryExpr:
			if x.Op == token.AND && !w.bareLocal(p, x.X) {
				w.noteAddr(p, x.X, x.Pos(), fn)
			}
		case *ast.SliceExpr:
			// slicing an array (or a pointer to one) yields a pointer into it
			if t := info.TypeOf(x.X); t != nil {
				u := t.Underlying()
				if pt, ok := u.(*types.Pointer); ok {
					u = pt.Elem().Underlying()
				}
				if _, ok := u.(*types.Array); ok {
					w.noteAddr(p, x.X, x.Pos(), fn)
				}
			}
		case *ast.SelectorExpr:
			if sel := info.Selections[x]; sel != nil && sel.Kind() == types.MethodVal {
				m, _ := sel.Obj().(*types.Func)
				w.noteMethod(p, x.X, m, x.Sel.Pos())
			}
		case *ast.CallExpr:
			w.out.seenArgCalls[w.posKey(x.Pos())] = true
			w.noteForeignArgs(p, x)
			switch f := gfUnparen(x.Fun).(type) {
			case *ast.Ident:
				if b, ok := info.Uses[f].(*types.Builtin); ok && len(x.Args) > 0 {
					switch b.Name() {
					case "copy", "clear", "delete", "append":
						// append may write into the spare capacity of its first argument
						w.noteWrite(p, x.Args[0], x.Pos(), fn)
					}
				}
			case *ast.SelectorExpr:
				if sel := info.Selections[f]; sel != nil && sel.Kind() == types.MethodExpr && len(x.Args) > 0 {
					m, _ := sel.Obj().(*types.Func)
					w.noteMethod(p, x.Args[0], m, f.Sel.Pos())
				}
			}
		}
		return true
	})
}

// walkLits walks only the function literals below a node of initialisation code
func (w *gfWorld) walkLits(p *gfPkg, root ast.Node, fn string) {
	ast.Inspect(root, func(n ast.Node) bool {
		if lit, ok := n.(*ast.FuncLit); ok {
			w.walk(p, lit, fn)
			return false
		}
		return true
	})
}

func (w *gfWorld) analyse() {
	for _, p := range w.pkgs {
		sc := p.tpkg.Scope()
		for _, name := range sc.Names() {
			if v := gfPkgVar(sc.Lookup(name)); v != nil && name != "_" {
				w.out.vars[p.rel+"."+name] = true
			}
		}
		w.findInitOnly(p)
	}
	w.solve()
	for _, p := range w.pkgs {
		for _, f := range p.files {
			for _, d := range f.Decls {
				switch x := d.(type) {
				case *ast.FuncDecl:
					if x.Body == nil {
						continue
					}
					fn, _ := p.info.Defs[x.Name].(*types.Func)
					if w.initOnly[fn] {
						w.walkLits(p, x.Body, x.Name.Name+".func")
					} else {
						w.out.seenFuncs[w.posKey(x.Pos())] = true
						w.walk(p, x.Body, x.Name.Name)
					}
				case *ast.GenDecl:
					if x.Tok != token.VAR {
						continue
					}
					for _, sp := range x.Specs {
						vs := sp.(*ast.ValueSpec)
						for _, e := range vs.Values {
							w.walkLits(p, e, "var "+vs.Names[0].Name)
						}
					}
				}
			}
		}
	}
}

// ---------------------------------------------------------------------------------------------------
// running the extractor on a module

// does the //go:build line (if any) of a Go source mention one of the tags?
func gfBuildLineMentions(src []byte, tags []string) []string {
	var out []string
	for _, line := range strings.Split(string(src), "\n") {
		t := strings.TrimSpace(line)
		if strings.HasPrefix(t, "package ") {
			break
		}
		if !strings.HasPrefix(t, "//go:build") && !strings.HasPrefix(t, "// +build") {
			continue
		}
		for _, tag := range tags {
			for _, w := range strings.FieldsFunc(t, func(r rune) bool {
				return !(r == '_' || r == '.' || r >= '0' && r <= '9' || r >= 'a' && r <= 'z' || r >= 'A' && r <= 'Z')
			}) {
				if w == tag {
					out = append(out, tag)
				}
			}
		}
	}
	return out
}

// the directories of fsys that contain non-test Go files (testdata, vendor, hidden directories excluded)
func gfPackageDirs(fsys fs.FS) []string {
	var dirs []string
	seen := map[string]bool{}
	err := fs.WalkDir(fsys, ".", func(p string, d fs.DirEntry, err error) error {
		if err != nil {
			return err
		}
		n := d.Name()
		if d.IsDir() {
			if p != "." && (n == "testdata" || n == "vendor" || strings.HasPrefix(n, ".") || strings.HasPrefix(n, "_")) {
				return fs.SkipDir
			}
			return nil
		}
		if strings.HasSuffix(n, ".go") && !strings.HasSuffix(n, "_test.go") && !seen[path.Dir(p)] {
			seen[path.Dir(p)] = true
			dirs = append(dirs, path.Dir(p))
		}
		return nil
	})
	if err != nil {
		die("gofacts: %v", err)
	}
	sort.Strings(dirs)
	return dirs
}

// gfRun type-checks every package of the module once per build configuration and unites the facts
func gfRun(fsys fs.FS, osRoot, modPath string) *gfFacts {
	dirs := gfPackageDirs(fsys)
	// every non-test Go file, and the variant tags mentioned
	all := map[string]bool{}
	variants := map[string]bool{}
	for _, d := range dirs {
		ents, _ := fs.ReadDir(fsys, d)
		for _, e := range ents {
			n := e.Name()
			if e.IsDir() || !strings.HasSuffix(n, ".go") || strings.HasSuffix(n, "_test.go") {
				continue
			}
			src, err := fs.ReadFile(fsys, path.Join(d, n))
			if err != nil {
				die("gofacts: %v", err)
			}
			if len(gfBuildLineMentions(src, gfNeverTags)) > 0 {
				continue
			}
			all[path.Join(d, n)] = true
			for _, t := range gfBuildLineMentions(src, gfVariantTags) {
				variants[t] = true
			}
		}
	}
	cfgs := []gfConfig{{"amd64", "amd64", nil}, {"arm64", "arm64", nil}, {"generic", "riscv64", nil}}
	var vt []string
	for t := range variants {
		vt = append(vt, t)
	}
	sort.Strings(vt)
	for _, t := range vt {
		cfgs = append(cfgs, gfConfig{"amd64+" + t, "amd64", []string{t}}, gfConfig{"arm64+" + t, "arm64", []string{t}})
	}
	out := newGfFacts()
	covered := map[string]bool{}
	for _, cfg := range cfgs {
		l := &gfLoader{fsys: fsys, osRoot: osRoot, modPath: modPath, cfg: cfg, fset: gfFset, std: gfStd(),
			pkgs: map[string]*gfPkg{}, other: map[string]*types.Package{}, busy: map[string]bool{}, used: map[string]bool{}}
		w := &gfWorld{l: l, decl: map[*types.Func]*gfDecl{}, param: map[*types.Var]gfParam{}, alias: map[*types.Var]gfSet{},
			bind: map[*types.Var]gfSet{}, ret: map[*types.Func][]gfSet{}, impl: map[*types.Func][]*types.Func{}, initOnly: map[*types.Func]bool{}, out: out}
		for _, d := range dirs {
			// a directory all of whose files are excluded in this configuration is skipped
			if fl, _ := l.parseDir(fsys, d, d); len(fl) == 0 {
				continue
			}
			w.pkgs = append(w.pkgs, l.load(d))
		}
		w.analyse()
		for f := range l.used {
			covered[f] = true
		}
		out.configs = append(out.configs, cfg.name)
	}
	var missing []string
	for f := range all {
		if !covered[f] {
			missing = append(missing, f)
		}
	}
	if len(missing) > 0 {
		sort.Strings(missing)
		die("gofacts: files in no analysed build configuration (extend the configurations in gofacts.go): %s", strings.Join(missing, ", "))
	}
	return out
}

// ---------------------------------------------------------------------------------------------------
// the self-test on the embedded fixture

// gfSelfTest runs the extractor on the fixture; it returns the number of cases (planted facts + benign
// look-alikes), the facts reported, and the list of discrepancies (empty = passed)
func gfSelfTest(fsys fs.FS) (int, *gfFacts, []string) {
	got := gfRun(fsys, "", "fixture")
	want := map[string]bool{}
	cases := 0
	for _, d := range gfPackageDirs(fsys) {
		ents, _ := fs.ReadDir(fsys, d)
		for _, e := range ents {
			if e.IsDir() || !strings.HasSuffix(e.Name(), ".go") {
				continue
			}
			src, _ := fs.ReadFile(fsys, path.Join(d, e.Name()))
			if len(gfBuildLineMentions(src, gfNeverTags)) > 0 {
				continue
			}
			for i, line := range strings.Split(string(src), "\n") {
				where := fmt.Sprintf("%s:%d", path.Join(d, e.Name()), i+1)
				if strings.HasSuffix(strings.TrimSpace(line), "// benign") {
					cases++
				}
				k := strings.Index(line, "// want:")
				if k < 0 || strings.HasPrefix(strings.TrimSpace(line), "//") {
					continue
				}
				for _, item := range strings.Split(line[k+len("// want:"):], ";") {
					w := strings.Fields(item)
					switch {
					case len(w) == 2 && (w[0] == "write" || w[0] == "addr"):
						want[w[0]+" "+where+" "+w[1]] = true
					case len(w) == 3 && (w[0] == "call" || w[0] == "fcall"):
						want[w[0]+" "+where+" "+w[1]+" "+w[2]] = true
					case len(w) == 4 && w[0] == "farg": // farg VAR CALLEE INDEX
						want[w[0]+" "+where+" "+w[1]+" "+w[2]+" "+w[3]] = true
					default:
						return 0, got, []string{"bad marker at " + where + ": " + item}
					}
					cases++
				}
			}
		}
	}
	have := map[string]bool{}
	for f := range got.facts {
		k := f.kind + " " + f.where + " " + f.v
		if f.kind == "call" || f.kind == "fcall" {
			k += " " + f.third
		}
		if f.kind == "farg" {
			k += " " + f.qual + " " + f.third
		}
		have[k] = true
	}
	var bad []string
	for k := range want {
		if !have[k] {
			bad = append(bad, "planted but NOT reported: "+k)
		}
	}
	for k := range have {
		if !want[k] {
			bad = append(bad, "reported but not planted: "+k)
		}
	}
	// the classifications the fixture relies on
	for _, f := range []string{"fix.setup", "fix.setup2"} {
		if !got.initOnly[f] {
			bad = append(bad, "not classified init-only: "+f)
		}
	}
	for _, f := range []string{"fix.notInitOnly", "fix.calledFromLit", "fix.Shadow"} {
		if got.initOnly[f] {
			bad = append(bad, "wrongly classified init-only: "+f)
		}
	}
	for _, a := range []string{"fix.getCurve\x00cur", "fix.getN\x00n", "fix.getN2\x00n", "fix.tablePtr\x00table", "fix.tableSlice\x00table",
		"fix.(holder).Table\x00table", "inner.Get\x00secret", "fix.maybeN\x00n"} {
		if !got.accessors[a] {
			bad = append(bad, "not classified accessor: "+strings.Replace(a, "\x00", " -> ", 1))
		}
	}
	for a := range got.accessors {
		if strings.HasPrefix(a, "fix.counterValue\x00") || strings.HasPrefix(a, "inner.Fresh\x00") || strings.HasPrefix(a, "fix.chain\x00") {
			bad = append(bad, "wrongly classified accessor: "+strings.Replace(a, "\x00", " -> ", 1))
		}
	}
	if len(want) < 110 || cases < 170 {
		bad = append(bad, fmt.Sprintf("fixture too small: %d planted facts, %d cases", len(want), cases))
	}
	if len(got.seenCalls) == 0 || len(got.seenAsg) == 0 || len(got.seenLits) == 0 {
		bad = append(bad, "a counter is zero on the fixture")
	}
	sort.Strings(bad)
	return cases, got, bad
}

func gfFixture() fs.FS {
	sub, err := fs.Sub(gofactsFixtureFS, "testdata/gofacts_fixture")
	if err != nil {
		die("gofacts: %v", err)
	}
	return sub
}

// ---------------------------------------------------------------------------------------------------
// emission

func gfModulePath(root string) string {
	raw, err := os.ReadFile(root + "/go.mod")
	if err != nil {
		die("gofacts: %v", err)
	}
	for _, line := range strings.Split(string(raw), "\n") {
		f := strings.Fields(line)
		if len(f) >= 2 && f[0] == "module" {
			return strings.Trim(f[1], `"`)
		}
	}
	die("gofacts: no module line in %s/go.mod", root)
	return ""
}

// the facts of one kind, ordered by file, line (numerically), variable, method
func gfSorted(fs *gfFacts, kind string) []gfFact {
	var out []gfFact
	for f := range fs.facts {
		if f.kind == kind {
			out = append(out, f)
		}
	}
	split := func(where string) (string, int) {
		i := strings.LastIndex(where, ":")
		n := 0
		fmt.Sscanf(where[i+1:], "%d", &n)
		return where[:i], n
	}
	sort.Slice(out, func(i, j int) bool {
		fi, li := split(out[i].where)
		fj, lj := split(out[j].where)
		if fi != fj {
			return fi < fj
		}
		if li != lj {
			return li < lj
		}
		if out[i].v != out[j].v {
			return out[i].v < out[j].v
		}
		if out[i].third != out[j].third {
			return out[i].third < out[j].third
		}
		return out[i].qual < out[j].qual
	})
	return out
}

func gfTriples(fs *gfFacts, kind string) []string {
	var out []string
	for _, f := range gfSorted(fs, kind) {
		out = append(out, fmt.Sprintf("(%q, %q, %q)", f.where, f.v, f.third))
	}
	return out
}

func gfQuads(fs *gfFacts, kind string) []string {
	var out []string
	for _, f := range gfSorted(fs, kind) {
		out = append(out, fmt.Sprintf("(%q, %q, %q, %q)", f.where, f.v, f.qual, f.recv))
	}
	return out
}

// farg facts as (where, variable, callee, argument index)
func gfArgQuads(fs *gfFacts) []string {
	var out []string
	for _, f := range gfSorted(fs, "farg") {
		out = append(out, fmt.Sprintf("(%q, %q, %q, %q)", f.where, f.v, f.qual, f.third))
	}
	return out
}

func gfList(items []string) string { return "[" + strings.Join(items, ",\n   ") + "]" }

func gfKeys(m map[string]bool) []string {
	var out []string
	for k := range m {
		out = append(out, k)
	}
	sort.Strings(out)
	return out
}

func genGoFacts() {
	// 1. the positive control: the extractor must find everything planted in the fixture, and nothing else
	cases, fix, bad := gfSelfTest(gfFixture())
	if len(bad) > 0 {
		die("gofacts: SELF-TEST FAILED, nothing emitted (%d discrepancies):\n  %s", len(bad), strings.Join(bad, "\n  "))
	}
	// 2. the library
	for _, pkg := range []string{"utils", "sm3", "sm4", "sm2", "sm2/internal", "sm2/internal/fiat"} {
		if st, err := os.Stat(repo + "/" + pkg); err != nil || !st.IsDir() {
			die("gofacts: package directory %s/%s not found", repo, pkg)
		}
	}
	fs := gfRun(os.DirFS(repo), repo, gfModulePath(repo))
	nvars := len(fs.vars)
	if nvars < 10 {
		die("gofacts: only %d package-level variables found", nvars)
	}
	pair := func(keys []string, sep string) []string {
		var out []string
		for _, k := range keys {
			i := strings.LastIndex(k, sep)
			out = append(out, fmt.Sprintf("(%q, %q)", k[:i], k[i+len(sep):]))
		}
		return out
	}
	var accs []string
	for _, k := range gfKeys(fs.accessors) {
		i := strings.Index(k, "\x00")
		j := strings.Index(k, ".")
		accs = append(accs, fmt.Sprintf("(%q, %q, %q)", k[:j], k[j+1:i], k[i+1:]))
	}
	var cfgs []string
	for _, c := range fs.configs {
		cfgs = append(cfgs, fmt.Sprintf("%q", c))
	}
	var sb strings.Builder
	sb.WriteString("/- GENERATED by /verif/go/cmd/translate (gofacts) from the non-test Go files of /repo — do not edit.\n" +
		"   Type-based extractor (go/types); see the header of /verif/go/cmd/translate/gofacts.go for what is and is not covered. -/\n" +
		"namespace SMGo.Gen.GoFacts\n\n")
	fmt.Fprintf(&sb, "/-- package-level variables declared in the analysed packages (all build configurations) -/\ndef packageVarCount : Nat := %d\n\n", nvars)
	fmt.Fprintf(&sb, "/-- (package, name) of these variables -/\ndef packageVarNames : List (String × String) :=\n  %s\n\n", gfList(pair(gfKeys(fs.vars), ".")))
	fmt.Fprintf(&sb, "/-- (where, variable, function): statements outside initialisation that write a package-level variable -/\ndef packageLevelWrites : List (String × String × String) :=\n  %s\n\n", gfList(gfTriples(fs, "write")))
	fmt.Fprintf(&sb, "/-- (where, variable, method): method calls outside initialisation whose receiver is rooted at a package-level variable of the library -/\ndef packageLevelMethodCalls : List (String × String × String) :=\n  %s\n\n", gfList(gfTriples(fs, "call")))
	fmt.Fprintf(&sb, "/-- the same calls as (where, variable, method with its receiver type, kind of receiver: pointer | value | interface) -/\ndef packageLevelMethodCallsTyped : List (String × String × String × String) :=\n  %s\n\n", gfList(gfQuads(fs, "call")))
	fmt.Fprintf(&sb, "/-- method calls outside initialisation on package-level variables of OTHER modules (standard library, dependencies), same format -/\ndef foreignPackageLevelMethodCalls : List (String × String × String × String) :=\n  %s\n\n", gfList(gfQuads(fs, "fcall")))
	fmt.Fprintf(&sb, "/-- (where, variable, function): places outside initialisation where the address of (an element of) a package-level variable is taken, or an array one is sliced: a pointer escapes the syntactic argument -/\ndef packageLevelAddrTaken : List (String × String × String) :=\n  %s\n\n", gfList(gfTriples(fs, "addr")))
	fmt.Fprintf(&sb, "/-- (where, variable, callee, argument index — receivers not counted): arguments outside initialisation, rooted at a package-level variable and of a type that can share memory, handed to code the library has no Go body of (another module, an interface method, an assembly routine, \"(dynamic)\" = a function value).  To be checked against a list of callees known not to write that argument. -/\ndef packageLevelArgsToForeign : List (String × String × String × String) :=\n  %s\n\n", gfList(gfArgQuads(fs)))
	var binds []string
	for _, k := range gfKeys(fs.bindings) {
		f := strings.Split(k, "\x00")
		binds = append(binds, fmt.Sprintf("(%q, %q, %q, %q)", f[0], f[1], f[2], f[3]))
	}
	fmt.Fprintf(&sb, "/-- (package, function, parameter, variable): some call site (initialisation included) passes something rooted at the package-level variable for the parameter or receiver, directly or through other functions; writes through the parameter are reported in the lists above under the variable's name -/\ndef packageLevelParamAliases : List (String × String × String × String) :=\n  %s\n\n", gfList(binds))
	fmt.Fprintf(&sb, "/-- (package, function): functions other than init classified as initialisation-only (not examined) -/\ndef initOnlyFunctions : List (String × String) :=\n  %s\n\n", gfList(pair(gfKeys(fs.initOnly), ".")))
	fmt.Fprintf(&sb, "/-- (package, function, variable): accessors — a call of the function is treated as the variable -/\ndef accessorFunctions : List (String × String × String) :=\n  %s\n\n", gfList(accs))
	fmt.Fprintf(&sb, "/-- build configurations type-checked (facts are united) -/\ndef buildConfigs : List String := [%s]\n\n", strings.Join(cfgs, ", "))
	fmt.Fprintf(&sb, "/-- what the extractor examined in non-initialisation code of the library -/\ndef functionsWalked : Nat := %d\ndef methodCallsSeenTotal : Nat := %d\ndef assignmentsSeenTotal : Nat := %d\ndef funcLitsSeen : Nat := %d\ndef callsSeenTotal : Nat := %d\n\n",
		len(fs.seenFuncs), len(fs.seenCalls), len(fs.seenAsg), len(fs.seenLits), len(fs.seenArgCalls))
	sb.WriteString("/-! The self-test: before emitting, the same extractor ran on the embedded fixture\n" +
		"    /verif/go/cmd/translate/testdata/gofacts_fixture; this file exists only because every planted\n" +
		"    fact was reported and nothing else was. -/\n\n")
	fmt.Fprintf(&sb, "/-- planted facts + benign look-alikes in the fixture -/\ndef selfTestCases : Nat := %d\ndef selfTestPassed : Bool := true\n\n", cases)
	fmt.Fprintf(&sb, "/-- what the extractor reported on the fixture (same formats) -/\ndef selfTestWrites : List (String × String × String) :=\n  %s\n\n", gfList(gfTriples(fix, "write")))
	fmt.Fprintf(&sb, "def selfTestMethodCalls : List (String × String × String) :=\n  %s\n\n", gfList(gfTriples(fix, "call")))
	fmt.Fprintf(&sb, "def selfTestAddrTaken : List (String × String × String) :=\n  %s\n\n", gfList(gfTriples(fix, "addr")))
	fmt.Fprintf(&sb, "def selfTestArgsToForeign : List (String × String × String × String) :=\n  %s\n\n", gfList(gfArgQuads(fix)))
	fmt.Fprintf(&sb, "def selfTestFuncLitsSeen : Nat := %d\n\n", len(fix.seenLits))
	sb.WriteString("end SMGo.Gen.GoFacts\n")
	writeIfChanged("GoFacts.lean", []byte(sb.String()))
}

func init() { extraCmds["gofacts"] = genGoFacts }
