package main

// Facts about package-level state (sub-command "gofacts"), for property C17: every statement that
// writes a package-level variable outside initialisation, and every method call whose receiver is a
// package-level variable (with the method name, so that Lean can check it against a list of read-only
// methods).  Purely syntactic (go/parser): package-level names are collected per package; a local
// declaration of the same name in the enclosing function shadows it.

import (
	"fmt"
	"go/ast"
	"go/parser"
	"go/token"
	"os"
	"path/filepath"
	"sort"
	"strings"
)

func genGoFacts() {
	pkgs := []string{"utils", "sm3", "sm4", "sm2", "sm2/internal", "sm2/internal/fiat"}
	var writes, calls []string
	nvars := 0
	for _, pkg := range pkgs {
		dir := filepath.Join(repo, pkg)
		ents, err := os.ReadDir(dir)
		if err != nil {
			die("%v", err)
		}
		fset := token.NewFileSet()
		var files []*ast.File
		var names []string
		for _, e := range ents {
			n := e.Name()
			if e.IsDir() || !strings.HasSuffix(n, ".go") || strings.HasSuffix(n, "_test.go") || strings.HasPrefix(n, "verif_export") {
				continue
			}
			f, err := parser.ParseFile(fset, filepath.Join(dir, n), nil, parser.ParseComments)
			if err != nil {
				die("%v", err)
			}
			// skip files excluded by a build tag that is never set in normal builds
			skip := false
			for _, cg := range f.Comments {
				for _, cm := range cg.List {
					if strings.HasPrefix(cm.Text, "//go:build") && (strings.Contains(cm.Text, "tablegen") || strings.Contains(cm.Text, "ignore")) {
						skip = true
					}
				}
			}
			if skip {
				continue
			}
			files = append(files, f)
			names = append(names, n)
		}
		pkgVars := map[string]bool{}
		for _, f := range files {
			for _, d := range f.Decls {
				if gd, ok := d.(*ast.GenDecl); ok && gd.Tok == token.VAR {
					for _, sp := range gd.Specs {
						for _, id := range sp.(*ast.ValueSpec).Names {
							if id.Name != "_" {
								pkgVars[id.Name] = true
								nvars++
							}
						}
					}
				}
			}
		}
		// init-only functions: init, and functions all of whose call sites are in init-only functions
		callers := map[string]map[string]bool{}
		funcs := map[string]*ast.FuncDecl{}
		for _, f := range files {
			for _, d := range f.Decls {
				fd, ok := d.(*ast.FuncDecl)
				if !ok || fd.Body == nil {
					continue
				}
				key := fd.Name.Name
				if fd.Recv != nil {
					key = "method:" + fd.Name.Name
				}
				funcs[key] = fd
				ast.Inspect(fd.Body, func(n ast.Node) bool {
					if c, ok := n.(*ast.CallExpr); ok {
						if id, ok := c.Fun.(*ast.Ident); ok {
							if callers[id.Name] == nil {
								callers[id.Name] = map[string]bool{}
							}
							callers[id.Name][key] = true
						}
					}
					return true
				})
			}
		}
		initOnly := map[string]bool{"init": true}
		for changed := true; changed; {
			changed = false
			for name := range funcs {
				if initOnly[name] || strings.HasPrefix(name, "method:") || ast.IsExported(name) {
					continue
				}
				cs := callers[name]
				if len(cs) == 0 {
					continue
				}
				all := true
				for c := range cs {
					if !initOnly[c] {
						all = false
					}
				}
				if all {
					initOnly[name] = true
					changed = true
				}
			}
		}
		root := func(e ast.Expr) *ast.Ident {
			for {
				switch x := e.(type) {
				case *ast.Ident:
					return x
				case *ast.SelectorExpr:
					e = x.X
				case *ast.IndexExpr:
					e = x.X
				case *ast.StarExpr:
					e = x.X
				case *ast.ParenExpr:
					e = x.X
				case *ast.SliceExpr:
					e = x.X
				case *ast.UnaryExpr:
					e = x.X
				case *ast.CallExpr:
					return nil
				default:
					return nil
				}
			}
		}
		for fi, f := range files {
			for _, d := range f.Decls {
				fd, ok := d.(*ast.FuncDecl)
				if !ok || fd.Body == nil {
					continue
				}
				key := fd.Name.Name
				if fd.Recv != nil {
					key = "method:" + fd.Name.Name
				}
				if initOnly[key] {
					continue
				}
				// locals (parameters, receivers, := and var declarations) shadow package names
				locals := map[string]bool{}
				addFields := func(fl *ast.FieldList) {
					if fl == nil {
						return
					}
					for _, fld := range fl.List {
						for _, id := range fld.Names {
							locals[id.Name] = true
						}
					}
				}
				addFields(fd.Recv)
				addFields(fd.Type.Params)
				addFields(fd.Type.Results)
				ast.Inspect(fd.Body, func(n ast.Node) bool {
					switch x := n.(type) {
					case *ast.AssignStmt:
						if x.Tok == token.DEFINE {
							for _, l := range x.Lhs {
								if id, ok := l.(*ast.Ident); ok {
									locals[id.Name] = true
								}
							}
						}
					case *ast.GenDecl:
						for _, sp := range x.Specs {
							if vs, ok := sp.(*ast.ValueSpec); ok {
								for _, id := range vs.Names {
									locals[id.Name] = true
								}
							}
						}
					case *ast.RangeStmt:
						if x.Tok == token.DEFINE {
							for _, e := range []ast.Expr{x.Key, x.Value} {
								if id, ok := e.(*ast.Ident); ok {
									locals[id.Name] = true
								}
							}
						}
					}
					return true
				})
				isPkg := func(id *ast.Ident) bool { return id != nil && pkgVars[id.Name] && !locals[id.Name] }
				where := func(p token.Pos) string {
					return fmt.Sprintf("%s/%s:%d", pkg, names[fi], fset.Position(p).Line)
				}
				ast.Inspect(fd.Body, func(n ast.Node) bool {
					switch x := n.(type) {
					case *ast.AssignStmt:
						if x.Tok != token.DEFINE {
							for _, l := range x.Lhs {
								if id := root(l); isPkg(id) {
									writes = append(writes, fmt.Sprintf("(%q, %q, %q)", where(x.Pos()), id.Name, fd.Name.Name))
								}
							}
						}
					case *ast.IncDecStmt:
						if id := root(x.X); isPkg(id) {
							writes = append(writes, fmt.Sprintf("(%q, %q, %q)", where(x.Pos()), id.Name, fd.Name.Name))
						}
					case *ast.CallExpr:
						if sel, ok := x.Fun.(*ast.SelectorExpr); ok {
							if id := root(sel.X); isPkg(id) {
								calls = append(calls, fmt.Sprintf("(%q, %q, %q)", where(x.Pos()), id.Name, sel.Sel.Name))
							}
						}
						// &pkgVar or pkgVar[...] handed to copy/append as destination
						if id, ok := x.Fun.(*ast.Ident); ok && (id.Name == "copy") && len(x.Args) > 0 {
							if r := root(x.Args[0]); isPkg(r) {
								writes = append(writes, fmt.Sprintf("(%q, %q, %q)", where(x.Pos()), r.Name, fd.Name.Name))
							}
						}
					}
					return true
				})
			}
		}
	}
	sort.Strings(writes)
	sort.Strings(calls)
	var sb strings.Builder
	sb.WriteString("/- GENERATED by /verif/go/cmd/translate (gofacts) from the non-test Go files of /repo — do not edit. -/\nnamespace SMGo.Gen.GoFacts\n\n")
	fmt.Fprintf(&sb, "/-- package-level variables declared in the analysed packages -/\ndef packageVarCount : Nat := %d\n\n", nvars)
	fmt.Fprintf(&sb, "/-- (where, variable, function): statements outside initialisation that write a package-level variable -/\ndef packageLevelWrites : List (String × String × String) :=\n  [%s]\n\n", strings.Join(writes, ",\n   "))
	fmt.Fprintf(&sb, "/-- (where, variable, method): method calls outside initialisation whose receiver is a package-level variable -/\ndef packageLevelMethodCalls : List (String × String × String) :=\n  [%s]\n\n", strings.Join(calls, ",\n   "))
	sb.WriteString("end SMGo.Gen.GoFacts\n")
	if nvars < 10 {
		die("gofacts: only %d package-level variables found", nvars)
	}
	writeIfChanged("GoFacts.lean", []byte(sb.String()))
}

func init() { extraCmds["gofacts"] = genGoFacts }
