package main

import (
	"go/ast"
	"go/token"
)

// ctDesugarSwitches rewrites every tagless `switch { case c1: … case c2: … default: … }` (no init statement, one
// condition per case, no fallthrough, no unlabelled break that would leave the switch) into the equivalent chain
// `if c1 { … } else if c2 { … } else { … }`, in place.  The conditions keep their nodes (and so their types);
// only IfStmt / BlockStmt nodes are new.  Go evaluates the case conditions top to bottom and runs the first
// true one, the default last wherever it is written: exactly the if-chain.
func ctDesugarSwitches(f *ast.File) {
	ast.Inspect(f, func(n ast.Node) bool {
		switch b := n.(type) {
		case *ast.BlockStmt:
			ctDesugarList(b.List)
		case *ast.CaseClause:
			ctDesugarList(b.Body)
		case *ast.CommClause:
			ctDesugarList(b.Body)
		}
		return true
	})
}

func ctDesugarList(l []ast.Stmt) {
	for i, s := range l {
		if sw, ok := s.(*ast.SwitchStmt); ok {
			if r := ctDesugarSwitch(sw); r != nil {
				l[i] = r
			}
		}
	}
}

func ctDesugarSwitch(sw *ast.SwitchStmt) ast.Stmt {
	if sw.Tag != nil || sw.Init != nil {
		return nil
	}
	var deflt *ast.CaseClause
	var cases []*ast.CaseClause
	for _, c := range sw.Body.List {
		cc := c.(*ast.CaseClause)
		if cc.List == nil {
			deflt = cc
			continue
		}
		if len(cc.List) != 1 {
			return nil
		}
		cases = append(cases, cc)
	}
	for _, c := range sw.Body.List {
		if ctLeavesSwitch(c.(*ast.CaseClause).Body) {
			return nil
		}
	}
	blk := func(cc *ast.CaseClause) *ast.BlockStmt {
		return &ast.BlockStmt{Lbrace: cc.Colon, List: cc.Body, Rbrace: cc.End()}
	}
	var els ast.Stmt
	if deflt != nil {
		els = blk(deflt)
	}
	if len(cases) == 0 {
		if els == nil {
			return &ast.EmptyStmt{Semicolon: sw.Pos()}
		}
		return els
	}
	for i := len(cases) - 1; i >= 0; i-- {
		cc := cases[i]
		els = &ast.IfStmt{If: cc.Pos(), Cond: cc.List[0], Body: blk(cc), Else: els}
	}
	return els
}

// an unlabelled break or a fallthrough that refers to the switch itself
func ctLeavesSwitch(body []ast.Stmt) bool {
	found := false
	var walk func(n ast.Node) bool
	walk = func(n ast.Node) bool {
		switch v := n.(type) {
		case *ast.ForStmt, *ast.RangeStmt, *ast.SwitchStmt, *ast.TypeSwitchStmt, *ast.SelectStmt, *ast.FuncLit:
			return false // a break inside refers to the inner statement
		case *ast.BranchStmt:
			if (v.Tok == token.BREAK && v.Label == nil) || v.Tok == token.FALLTHROUGH {
				found = true
			}
		}
		return true
	}
	for _, s := range body {
		ast.Inspect(s, walk)
	}
	return found
}
