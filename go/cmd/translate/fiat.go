package main

// Fiat-Crypto straight-line Go -> Lean let-chains over Nat (sub-command "fiat"), and the two
// addition-chain programs -> operation lists (sub-command "addchain").
//
// Every Go statement becomes one `let`.  Values are natural numbers; every operation carries the
// reduction its Go type implies (uint64: mod 2^64, uint8: mod 2^8).  bits.Mul64/Add64/Sub64 become
// calls of the prelude functions in SMGo/Model/FiatPrim.lean.  Anything outside the subset stops the
// translator with the position named.

import (
	"fmt"
	"go/ast"
	"go/importer"
	"go/parser"
	"go/token"
	"go/types"
	"path/filepath"
	"strings"
)

type fiatTr struct {
	fset *token.FileSet
	info *types.Info
	sb   strings.Builder
	pfx  string // function-name prefix of the file, e.g. "sm2" / "sm2Scalar"
}

func (t *fiatTr) fail(pos token.Pos, format string, a ...interface{}) {
	die("%s: %s", t.fset.Position(pos), fmt.Sprintf(format, a...))
}

func (t *fiatTr) width(e ast.Expr) int {
	tv, ok := t.info.Types[e]
	if !ok {
		t.fail(e.Pos(), "no type")
	}
	b, ok := tv.Type.Underlying().(*types.Basic)
	if !ok {
		t.fail(e.Pos(), "non-basic type %s", tv.Type)
	}
	switch b.Kind() {
	case types.Uint64, types.UntypedInt:
		return 64
	case types.Uint8:
		return 8
	case types.Uint32:
		return 32
	case types.Int, types.Uint:
		return 64
	}
	t.fail(e.Pos(), "unsupported type %s", tv.Type)
	return 0
}

func mod(w int, s string) string {
	switch w {
	case 64:
		return "(" + s + ") % 18446744073709551616"
	case 32:
		return "(" + s + ") % 4294967296"
	case 8:
		return "(" + s + ") % 256"
	}
	panic("width")
}

func (t *fiatTr) expr(e ast.Expr) string {
	switch x := e.(type) {
	case *ast.ParenExpr:
		return t.expr(x.X)
	case *ast.BasicLit:
		return leanNum(x.Value)
	case *ast.Ident:
		return x.Name
	case *ast.IndexExpr:
		id, ok := x.X.(*ast.Ident)
		lit, ok2 := x.Index.(*ast.BasicLit)
		if !ok || !ok2 {
			t.fail(x.Pos(), "unsupported index expression")
		}
		return fmt.Sprintf("%s.getD %s 0", id.Name, lit.Value)
	case *ast.CallExpr:
		// conversion T(x)
		if tv, ok := t.info.Types[x.Fun]; ok && tv.IsType() {
			if len(x.Args) != 1 {
				t.fail(x.Pos(), "conversion arity")
			}
			from := t.width(x.Args[0])
			to := t.width(x)
			if bt, ok := tv.Type.Underlying().(*types.Basic); ok && bt.Info()&types.IsUnsigned == 0 {
				t.fail(x.Pos(), "signed conversion %s not supported", tv.Type)
			}
			inner := t.expr(x.Args[0])
			if to < from {
				return "(" + mod(to, inner) + ")"
			}
			return "(" + inner + ")"
		}
		t.fail(x.Pos(), "unsupported call in expression")
	case *ast.UnaryExpr:
		if x.Op == token.XOR {
			w := t.width(x)
			return fmt.Sprintf("(%s - (%s))", map[int]string{64: "18446744073709551615", 8: "255", 32: "4294967295"}[w], t.expr(x.X))
		}
		t.fail(x.Pos(), "unsupported unary %s", x.Op)
	case *ast.BinaryExpr:
		w := t.width(x)
		a, b := t.expr(x.X), t.expr(x.Y)
		switch x.Op {
		case token.ADD:
			return "(" + mod(w, a+" + "+b) + ")"
		case token.MUL:
			return "(" + mod(w, a+" * "+b) + ")"
		case token.SUB:
			return "(" + mod(w, fmt.Sprintf("%s + %s - %s", a, map[int]string{64: "18446744073709551616", 8: "256", 32: "4294967296"}[w], b)) + ")"
		case token.AND:
			return "(" + a + " &&& " + b + ")"
		case token.OR:
			return "(" + a + " ||| " + b + ")"
		case token.XOR:
			return "(" + a + " ^^^ " + b + ")"
		case token.SHR:
			return "(" + a + " >>> " + b + ")"
		case token.SHL:
			return "(" + mod(w, a+" <<< "+b) + ")"
		}
		t.fail(x.Pos(), "unsupported binary %s", x.Op)
	}
	t.fail(e.Pos(), "unsupported expression %T", e)
	return ""
}

type outSlot struct {
	idx int
	val string
}

func (t *fiatTr) fn(fd *ast.FuncDecl) {
	name := fd.Name.Name
	// parameters: out pointers first (out1, out2..), then args
	var outs []string
	var outLens = map[string]int{}
	var args []string
	for _, f := range fd.Type.Params.List {
		for _, n := range f.Names {
			if strings.HasPrefix(n.Name, "out") {
				outs = append(outs, n.Name)
				// array length, if pointer to array
				tv := t.info.Types[f.Type].Type
				if p, ok := tv.(*types.Pointer); ok {
					if arr, ok := p.Elem().Underlying().(*types.Array); ok {
						outLens[n.Name] = int(arr.Len())
					} else {
						outLens[n.Name] = 0 // scalar
					}
				}
			} else {
				tv := t.info.Types[f.Type].Type
				ty := "Nat"
				if p, ok := tv.(*types.Pointer); ok {
					if _, ok := p.Elem().Underlying().(*types.Array); ok {
						ty = "List Nat"
					}
				}
				args = append(args, fmt.Sprintf("(%s : %s)", n.Name, ty))
			}
		}
	}
	if len(outs) != 1 {
		t.fail(fd.Pos(), "function %s: expected exactly one out parameter", name)
	}
	out := outs[0]
	retTy := "List Nat"
	if outLens[out] == 0 {
		retTy = "Nat"
	}
	fmt.Fprintf(&t.sb, "def %s %s : %s :=\n", name, strings.Join(args, " "), retTy)
	slots := map[int]string{}
	scalarOut := ""
	nlet := 0
	let := func(v, rhs string) {
		if v == "_" {
			return
		}
		fmt.Fprintf(&t.sb, "  let %s := %s\n", v, rhs)
		nlet++
	}
	// Aliasing discipline: the Go callers pass the same element as out1 and arg1/arg2 (t3.Mul(t3, t4)); the
	// let-chain is value-level, so it is faithful only if no slot of a parameter array is read after the same
	// slot of the output has been stored (Go arrays alias as wholes) and the output is never read. A function
	// that breaks this is refused.
	params := map[string]bool{}
	for _, f := range fd.Type.Params.List {
		for _, n := range f.Names {
			params[n.Name] = true
		}
	}
	stored := map[string]bool{} // output slots already stored ("*" for a scalar output)
	slotOf := func(ix *ast.IndexExpr) string {
		if bl, ok := ix.Index.(*ast.BasicLit); ok {
			return bl.Value
		}
		return "?"
	}
	readsParam := func(pos token.Pos, es []ast.Expr) {
		for _, e := range es {
			ast.Inspect(e, func(n ast.Node) bool {
				var base ast.Expr
				slot := "*"
				switch x := n.(type) {
				case *ast.IndexExpr:
					base = x.X
					slot = slotOf(x)
				case *ast.StarExpr:
					base = x.X
				default:
					return true
				}
				if id, ok := base.(*ast.Ident); ok && params[id.Name] {
					if id.Name == out {
						t.fail(pos, "function %s reads its output %s (aliasing)", name, out)
					}
					if stored[slot] || (slot == "?" && len(stored) > 0) || stored["?"] {
						t.fail(pos, "function %s reads %s[%s] after the store to %s[%s] (aliasing)", name, id.Name, slot, out, slot)
					}
				}
				return true
			})
		}
	}
	for _, st := range fd.Body.List {
		switch s := st.(type) {
		case *ast.AssignStmt:
			readsParam(s.Pos(), s.Rhs)
			if len(s.Lhs) == 1 {
				switch l := s.Lhs[0].(type) {
				case *ast.IndexExpr:
					stored[slotOf(l)] = true
				case *ast.StarExpr:
					stored["*"] = true
				}
			}
		case *ast.ExprStmt:
			if call, ok := s.X.(*ast.CallExpr); ok && len(call.Args) > 0 {
				readsParam(s.Pos(), call.Args[1:])
				if u, ok := call.Args[0].(*ast.UnaryExpr); ok {
					if l, ok := u.X.(*ast.IndexExpr); ok {
						stored[slotOf(l)] = true
					}
				}
			}
		}
		switch s := st.(type) {
		case *ast.DeclStmt:
			continue // var x uint64
		case *ast.AssignStmt:
			// out1[i] = e   |  *out1 = e  |  x := e  |  a, b = bits.F(...)
			if len(s.Lhs) == 1 {
				if ix, ok := s.Lhs[0].(*ast.IndexExpr); ok {
					id := ix.X.(*ast.Ident)
					if id.Name != out {
						t.fail(s.Pos(), "store to non-output %s", id.Name)
					}
					var k int
					fmt.Sscan(ix.Index.(*ast.BasicLit).Value, &k)
					slots[k] = t.expr(s.Rhs[0])
					continue
				}
				if st, ok := s.Lhs[0].(*ast.StarExpr); ok {
					if st.X.(*ast.Ident).Name != out {
						t.fail(s.Pos(), "store through non-output pointer")
					}
					scalarOut = t.expr(s.Rhs[0])
					continue
				}
				id, ok := s.Lhs[0].(*ast.Ident)
				if !ok {
					t.fail(s.Pos(), "unsupported assignment target")
				}
				let(id.Name, t.expr(s.Rhs[0]))
				continue
			}
			if len(s.Lhs) == 2 && len(s.Rhs) == 2 {
				// hand-edited parallel copy `a, b = c, d` (sm2Square reuses two products)
				r0, r1 := t.expr(s.Rhs[0]), t.expr(s.Rhs[1])
				l0, l1 := s.Lhs[0].(*ast.Ident).Name, s.Lhs[1].(*ast.Ident).Name
				if l0 == s.Rhs[1].(*ast.Ident).Name {
					t.fail(s.Pos(), "parallel assignment with overlap")
				}
				let(l0, r0)
				let(l1, r1)
				continue
			}
			if len(s.Lhs) == 2 && len(s.Rhs) == 1 {
				call, ok := s.Rhs[0].(*ast.CallExpr)
				if !ok {
					t.fail(s.Pos(), "unsupported 2-assignment")
				}
				sel, ok := call.Fun.(*ast.SelectorExpr)
				if !ok || sel.X.(*ast.Ident).Name != "bits" {
					t.fail(s.Pos(), "unsupported call")
				}
				l0 := s.Lhs[0].(*ast.Ident).Name
				l1 := s.Lhs[1].(*ast.Ident).Name
				var as []string
				for _, a := range call.Args {
					as = append(as, "("+t.expr(a)+")")
				}
				switch sel.Sel.Name {
				case "Mul64": // hi, lo
					let(l0, "mul64hi "+strings.Join(as, " "))
					let(l1, "mul64lo "+strings.Join(as, " "))
				case "Add64": // sum, carry
					let(l0, "add64s "+strings.Join(as, " "))
					let(l1, "add64c "+strings.Join(as, " "))
				case "Sub64": // diff, borrow
					let(l0, "sub64d "+strings.Join(as, " "))
					let(l1, "sub64b "+strings.Join(as, " "))
				default:
					t.fail(s.Pos(), "unsupported bits.%s", sel.Sel.Name)
				}
				continue
			}
			t.fail(s.Pos(), "unsupported assignment")
		case *ast.ExprStmt:
			call, ok := s.X.(*ast.CallExpr)
			if !ok {
				t.fail(s.Pos(), "unsupported statement")
			}
			fn, ok := call.Fun.(*ast.Ident)
			if !ok || !strings.HasSuffix(fn.Name, "CmovznzU64") {
				t.fail(s.Pos(), "unsupported call statement")
			}
			// first argument: &x  or  &out1[i]
			u, ok := call.Args[0].(*ast.UnaryExpr)
			if !ok || u.Op != token.AND {
				t.fail(s.Pos(), "cmov target")
			}
			rhs := fmt.Sprintf("%s (%s) (%s) (%s)", fn.Name, t.expr(call.Args[1]), t.expr(call.Args[2]), t.expr(call.Args[3]))
			switch tg := u.X.(type) {
			case *ast.Ident:
				let(tg.Name, rhs)
			case *ast.IndexExpr:
				var k int
				fmt.Sscan(tg.Index.(*ast.BasicLit).Value, &k)
				v := fmt.Sprintf("o%d", k)
				let(v, rhs)
				slots[k] = v
			default:
				t.fail(s.Pos(), "cmov target")
			}
		default:
			t.fail(st.Pos(), "unsupported statement %T", st)
		}
	}
	if retTy == "Nat" {
		fmt.Fprintf(&t.sb, "  %s\n\n", scalarOut)
		return
	}
	n := outLens[out]
	parts := make([]string, n)
	for i := 0; i < n; i++ {
		v, ok := slots[i]
		if !ok {
			t.fail(fd.Pos(), "%s: output limb %d never written", name, i)
		}
		parts[i] = v
	}
	fmt.Fprintf(&t.sb, "  [%s]\n\n", strings.Join(parts, ", "))
}

func genFiatFile(rel, module, pfx string, skip map[string]bool) {
	fset := token.NewFileSet()
	f, err := parser.ParseFile(fset, filepath.Join(repo, rel), nil, 0)
	if err != nil {
		die("%v", err)
	}
	info := &types.Info{Types: map[ast.Expr]types.TypeAndValue{}}
	conf := types.Config{Importer: importer.ForCompiler(fset, "source", nil), Error: func(error) {}}
	if _, err := conf.Check("fiat", fset, []*ast.File{f}, info); err != nil {
		// the file alone type-checks (it imports math/bits only); report otherwise
		die("type-check %s: %v", rel, err)
	}
	t := &fiatTr{fset: fset, info: info, pfx: pfx}
	fmt.Fprintf(&t.sb, "/- GENERATED by /verif/go/cmd/translate (fiat) from %s — do not edit. -/\nimport SMGo.Model.FiatPrim\nset_option maxRecDepth 100000\nnamespace SMGo.Gen.%s\nopen SMGo.Model.FiatPrim\n\n", rel, module)
	n := 0
	for _, d := range f.Decls {
		fd, ok := d.(*ast.FuncDecl)
		if !ok || fd.Recv != nil || skip[strings.TrimPrefix(fd.Name.Name, pfx)] {
			continue
		}
		t.fn(fd)
		n++
	}
	fmt.Fprintf(&t.sb, "end SMGo.Gen.%s\n", module)
	if n < 12 {
		die("%s: only %d functions translated", rel, n)
	}
	writeIfChanged(module+".lean", []byte(t.sb.String()))
}

func genFiat() {
	skip := map[string]bool{"Msat": true, "Divstep": true, "DivstepPrecomp": true}
	genFiatFile("sm2/internal/fiat/fiat_sm2_64.go", "FiatP", "sm2", skip)
	genFiatFile("sm2/internal/fiat/fiat_sm2_64_scalar.go", "FiatN", "sm2Scalar", skip)
}

// ---- addition chains -------------------------------------------------------------------------------

func genAddChainFile(rel, fnName, sq, mul string, sb *strings.Builder, defName string) {
	fset := token.NewFileSet()
	f, err := parser.ParseFile(fset, filepath.Join(repo, rel), nil, 0)
	if err != nil {
		die("%v", err)
	}
	var fd *ast.FuncDecl
	for _, d := range f.Decls {
		if x, ok := d.(*ast.FuncDecl); ok && x.Name.Name == fnName {
			fd = x
		}
	}
	if fd == nil {
		die("%s: function %s not found", rel, fnName)
	}
	reg := map[string]int{"x": 0, "z": 1}
	regOf := func(e ast.Expr) int {
		id, ok := e.(*ast.Ident)
		if !ok {
			die("%s: unsupported operand", fset.Position(e.Pos()))
		}
		r, ok := reg[id.Name]
		if !ok {
			die("%s: unknown register %s", fset.Position(e.Pos()), id.Name)
		}
		return r
	}
	var ops []string
	var doCall func(call *ast.CallExpr, times int)
	doCall = func(call *ast.CallExpr, times int) {
		fn := call.Fun.(*ast.Ident).Name
		switch {
		case fn == sq && len(call.Args) == 2:
			d, s := regOf(call.Args[0]), regOf(call.Args[1])
			if times != 1 && d != s {
				die("%s: repeated square with dst != src", fset.Position(call.Pos()))
			}
			for i := 0; i < times; i++ {
				ops = append(ops, fmt.Sprintf(".sq %d %d", d, s))
			}
		case fn == mul && len(call.Args) == 3 && times == 1:
			ops = append(ops, fmt.Sprintf(".mul %d %d %d", regOf(call.Args[0]), regOf(call.Args[1]), regOf(call.Args[2])))
		default:
			die("%s: unsupported call %s", fset.Position(call.Pos()), fn)
		}
	}
	for _, st := range fd.Body.List {
		switch s := st.(type) {
		case *ast.DeclStmt:
			gd := s.Decl.(*ast.GenDecl)
			for _, sp := range gd.Specs {
				vs := sp.(*ast.ValueSpec)
				for _, n := range vs.Names {
					reg[n.Name] = len(reg)
				}
			}
		case *ast.ExprStmt:
			doCall(s.X.(*ast.CallExpr), 1)
		case *ast.ForStmt:
			// for s := a; s < b; s++ { one call }
			init := s.Init.(*ast.AssignStmt)
			cond := s.Cond.(*ast.BinaryExpr)
			var a, b int
			fmt.Sscan(init.Rhs[0].(*ast.BasicLit).Value, &a)
			fmt.Sscan(cond.Y.(*ast.BasicLit).Value, &b)
			if cond.Op != token.LSS || len(s.Body.List) != 1 {
				die("%s: unsupported loop", fset.Position(s.Pos()))
			}
			doCall(s.Body.List[0].(*ast.ExprStmt).X.(*ast.CallExpr), b-a)
		default:
			die("%s: unsupported statement %T", fset.Position(st.Pos()), st)
		}
	}
	fmt.Fprintf(sb, "/-- %s of %s: registers 0 = x (input), 1 = z (output), 2.. = temporaries -/\ndef %s_regs : Nat := %d\n\ndef %s : List Op :=\n  [", fnName, rel, defName, len(reg), defName)
	for i, o := range ops {
		if i > 0 {
			sb.WriteString(", ")
			if i%6 == 0 {
				sb.WriteString("\n   ")
			}
		}
		sb.WriteString(o)
	}
	sb.WriteString("]\n\n")
}

func genAddChain() {
	var sb strings.Builder
	sb.WriteString("/- GENERATED by /verif/go/cmd/translate (addchain) — do not edit. -/\nimport SMGo.Model.AddChainOp\nset_option maxRecDepth 100000\nnamespace SMGo.Gen.AddChain\nopen SMGo.Model.AddChain\n\n")
	genAddChainFile("sm2/internal/fiat/addchain_sm2_64_field_inverse.go", "sm2FermatInvert_FiatAC", "sm2Square", "sm2Mul", &sb, "fieldInverse")
	genAddChainFile("sm2/internal/fiat/addchain_sm2_64_scalar_inverse.go", "sm2ScalarFermatInvert_FiatAC", "sm2ScalarSquare", "sm2ScalarMul", &sb, "scalarInverse")
	sb.WriteString("end SMGo.Gen.AddChain\n")
	writeIfChanged("AddChain.lean", []byte(sb.String()))
}

func init() {
	extraCmds["fiat"] = genFiat
	extraCmds["addchain"] = genAddChain
}
