// Command translate regenerates the Lean files under lean/SMGo/Gen from the current sources of /repo.
// It reads Go and assembler source text only (go/parser, go/ast, `go tool asm -S`); it never links
// against the repository.  Each sub-command writes one or more Lean files; a file is rewritten only when
// its content changes so that `lake build` is a no-op on an unchanged tree.
package main

import (
	"bytes"
	"fmt"
	"os"
	"path/filepath"
)

var repo = "/repo"
var outDir = "/verif/lean/SMGo/Gen"

func die(format string, a ...interface{}) {
	fmt.Fprintf(os.Stderr, "translate: "+format+"\n", a...)
	os.Exit(2)
}

func writeIfChanged(name string, content []byte) {
	path := filepath.Join(outDir, name)
	old, err := os.ReadFile(path)
	if err == nil && bytes.Equal(old, content) {
		return
	}
	if err := os.MkdirAll(outDir, 0o755); err != nil {
		die("%v", err)
	}
	if err := os.WriteFile(path, content, 0o644); err != nil {
		die("%v", err)
	}
	fmt.Fprintf(os.Stderr, "translate: wrote %s\n", path)
}

func main() {
	if v := os.Getenv("VERIF_REPO"); v != "" {
		repo = v
	}
	if v := os.Getenv("VERIF_GEN_OUT"); v != "" {
		outDir = v
	}
	if len(os.Args) < 2 {
		die("usage: translate <consts|fiat|slp|addchain|asmdata|listing|all>")
	}
	cmds := map[string]func(){
		"consts": genConsts,
	}
	for name, f := range extraCmds {
		cmds[name] = f
	}
	if os.Args[1] == "all" {
		for _, name := range order {
			if f, ok := cmds[name]; ok {
				f()
			}
		}
		return
	}
	f, ok := cmds[os.Args[1]]
	if !ok {
		die("unknown sub-command %s", os.Args[1])
	}
	f()
}

var extraCmds = map[string]func(){}
var order = []string{"consts", "fiat", "slp", "addchain", "asmdata", "listing", "gofacts", "ctir", "ctirsm4", "ctirfn", "ctirproto", "gosm4", "gosm3", "arm64glue"}
