package main

import (
	"fmt"
	"math/big"

	"github.com/bilibili/smgo/sm2"
)

func ptOut(p *sm2.VerifPoint, err error) string {
	if err != nil {
		return "err"
	}
	return fmt.Sprintf("ok %x", p.Bytes())
}

func runC14(c *Ctx) {
	c.res.Rule = "base multiplication for all four comb schemes, variable-point multiplication (scalar lengths 0..40) and the double-scalar routine, each against the executable model (same tables, same schedule) and against the specification's double-and-add; scalars 0,1,2,n-1,n,n+1,2^256-1, every value of every window at every position (63x42+15 for 6-3-14, the 4-bit windows, the NAF digits), sparse/dense patterns, random; points G,-G,2G,small multiples,random,O; class = (routine, scheme, scalar pattern, point)"
	nRand := 120
	if c.tier == "thorough" {
		nRand = 6000
	}
	special := func() [][]byte {
		one := big.NewInt(1)
		max := new(big.Int).Sub(new(big.Int).Lsh(one, 256), one)
		var out [][]byte
		for _, v := range []*big.Int{big.NewInt(0), one, big.NewInt(2), big.NewInt(15), big.NewInt(16), new(big.Int).Sub(curveN, one), curveN, new(big.Int).Add(curveN, one), new(big.Int).Sub(curveN, big.NewInt(2)), max} {
			out = append(out, be32(v))
		}
		return out
	}()
	schemes := []string{"6_3_14", "5_3_17", "7_3_12", "4_2_32"}
	base := func(scheme, pat string, k []byte) {
		impl := try(func() string { return ptOut(sm2.VerifScalarBaseMultScheme(scheme, k)) })
		req := fmt.Sprintf("sm2.basemult %s %s", scheme, hexOrDash(k))
		cl := "base/" + scheme + "/" + pat
		c.Case("sm2.basemult", cl, pat == "random" && scheme == "6_3_14", req)
		c.Check3("sm2.basemult", cl, req, fmt.Sprintf("sm2.basemult.spec %s %s", scheme, hexOrDash(k)), impl)
	}
	for _, s := range schemes {
		for _, k := range special {
			base(s, "special", k)
		}
		for l := 0; l <= 40; l += 1 {
			if l != 32 {
				base(s, "badlen", c.rng.Bytes(l))
			}
		}
	}
	// every value of every window at every position of the 6-3-14 comb (+ the 4-bit remainder)
	step := 1
	if c.tier != "thorough" {
		step = 7
	}
	cnt := 0
	for i := 0; i < 14; i++ {
		for j := 0; j < 3; j++ {
			for v := 1; v < 64; v++ {
				cnt++
				if cnt%step != 0 {
					continue
				}
				k := new(big.Int)
				for t := 0; t < 6; t++ {
					if v>>uint(t)&1 == 1 {
						k.SetBit(k, 4+i+14*j+42*t, 1)
					}
				}
				base("6_3_14", "window", be32(k))
			}
		}
	}
	for v := 1; v < 16; v++ {
		base("6_3_14", "remainder", be32(big.NewInt(int64(v))))
	}
	for i := 0; i < 256; i++ {
		if c.tier != "thorough" && i%3 != 0 {
			continue
		}
		k := new(big.Int).Lsh(big.NewInt(1), uint(i))
		for _, s := range schemes {
			base(s, "pow2", be32(k))
		}
	}
	for it := 0; it < nRand; it++ {
		k := randScalar(c)
		for _, s := range schemes {
			if s == "6_3_14" || it%8 == 0 {
				base(s, "random", k)
			}
		}
	}
	// variable point
	G := affG()
	pts := []struct {
		name string
		a    affPt
	}{
		{"G", G}, {"-G", affPt{x: G.x, y: new(big.Int).Sub(curveP, G.y)}}, {"2G", affAdd(G, G)}, {"7G", affMul(big.NewInt(7), G)},
		{"O", affPt{inf: true}}, {"R1", affMul(new(big.Int).SetBytes(c.rng.Bytes(32)), G)}, {"R2", affMul(new(big.Int).SetBytes(c.rng.Bytes(32)), G)},
	}
	mult := func(pn string, a affPt, pat string, k []byte) {
		P := pointFromAff(a)
		impl := try(func() string { return ptOut(sm2.VerifScalarMult(P, k)) })
		enc := fmt.Sprintf("%x", encodeAff(a))
		req := fmt.Sprintf("sm2.mult %s %s", enc, hexOrDash(k))
		cl := "mult/" + pn + "/" + pat
		c.Case("sm2.mult", cl, false, req)
		c.Check3("sm2.mult", cl, req, fmt.Sprintf("sm2.mult.spec %s %s", enc, hexOrDash(k)), impl)
	}
	mixed := func(pn string, a affPt, pat string, g, s []byte) {
		P := pointFromAff(a)
		impl := try(func() string { return ptOut(sm2.VerifScalarMixedMult(g, P, s)) })
		enc := fmt.Sprintf("%x", encodeAff(a))
		req := fmt.Sprintf("sm2.mixed %s %s %s", hexOrDash(g), enc, hexOrDash(s))
		cl := "mixed/" + pn + "/" + pat
		sreq := fmt.Sprintf("sm2.mixed.spec %s %s %s", hexOrDash(g), enc, hexOrDash(s))
		if len(g) != 32 || len(s) != 32 {
			sreq = ""
		}
		c.Case("sm2.mixed", cl, false, req)
		c.Check3("sm2.mixed", cl, req, sreq, impl)
	}
	for _, p := range pts {
		for _, k := range special {
			mult(p.name, p.a, "special", k)
			mixed(p.name, p.a, "special", k, special[c.rng.Intn(len(special))])
			mixed(p.name, p.a, "special", special[c.rng.Intn(len(special))], k)
		}
		for l := 0; l <= 40; l++ {
			if l%3 == 0 || c.tier == "thorough" {
				mult(p.name, p.a, fmt.Sprintf("len%d", bucket(l)), c.rng.Bytes(l))
			}
		}
		for _, l := range []int{0, 1, 31} {
			mixed(p.name, p.a, "shortscalar", c.rng.Bytes(32), c.rng.Bytes(l))
		}
		for it := 0; it < nRand/4+4; it++ {
			mult(p.name, p.a, "random", randScalar(c))
			mixed(p.name, p.a, "random", randScalar(c), randScalar(c))
		}
		// every value of every 4-bit window
		for b := 0; b < 32; b++ {
			for v := 1; v < 16; v++ {
				if c.tier != "thorough" && (b*15+v)%11 != 0 {
					continue
				}
				k := make([]byte, 32)
				k[b] = byte(v) << uint(4*(v&1))
				mult(p.name, p.a, "window", k)
				mixed(p.name, p.a, "window", k, k)
			}
		}
	}
}

func init() { runners["C14"] = runC14 }
