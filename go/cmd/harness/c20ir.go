package main

// C20IR / C14IR: the functional tie of the second generated IR program (lean/SMGo/Gen/CTIRProgFn.lean, driver
// command `ctirfn.run`), which the refinement theorems (lean/SMGo/Props/C20IR.lean, C14IR.lean) take as the
// meaning of the Go code: utils.DecomposeNAF with getBit / getBits and internal.ScalarMixedMult_Unsafe
// against the real functions.  (utils.ConstantTimeCmp and the bit-extraction helpers are in the first
// program and are compared by runner C08.)  A Go run-time panic (index out of range) is a stuck run of
// the IR; an explicit panic(...) is `panic`.
import (
	"fmt"
	"math/big"
	"strings"

	"github.com/bilibili/smgo/sm2"
	"github.com/bilibili/smgo/utils"
)

func vIntList(l []int) string {
	parts := make([]string, len(l))
	for i, x := range l {
		parts[i] = fmt.Sprint(x)
	}
	return "[" + strings.Join(parts, ",") + "]"
}

func runC20IR(c *Ctx) {
	c.res.Rule = "ctirfn.run vs implementation: DecomposeNAF over w in 0..8, n in {0,1,2,9,17,64,257,258}, out lengths around n, structured and random s (class = w/n/outcome); ScalarMixedMult_Unsafe on random and boundary scalars"
	check := func(fn, class string, args []string, impl string) {
		req := "ctirfn.run " + fn + " " + strings.Join(args, " ")
		c.Case("ctirfn.run", class, false, req)
		model := c.drv.Ask(req)
		ok := model == impl || (impl == "panic" && model == "stuck")
		if !ok {
			c.Disagree(Disagreement{Kind: "impl!=model", Class: class, Request: req, Impl: impl, Model: model, Stream: "ctirfn.run"})
		}
	}
	naf := func(outLen int, s []byte, n, w int) {
		impl := try(func() string {
			out := make([]int, outLen)
			utils.DecomposeNAF(out, s, n, w)
			return "ok " + vIntList(out)
		})
		kind := "ok"
		if impl == "panic" {
			kind = "panic"
		}
		check("utils.DecomposeNAF", fmt.Sprintf("naf/w%d/n%d/%s", w, n, kind), []string{vIntList(make([]int, outLen)), vBytes(s), fmt.Sprint(n), fmt.Sprint(w)}, impl)
	}
	reps := 6
	if c.tier == "thorough" {
		reps = 200
	}
	for _, n := range []int{0, 1, 2, 9, 17, 64, 257, 258} {
		for w := 0; w <= 8; w++ {
			for r := 0; r < reps; r++ {
				s := c.rng.Bytes((n + 7) / 8)
				switch r % 3 {
				case 1:
					for i := range s {
						s[i] = 0xff
					}
				case 2:
					s = c.rng.Bytes(33)
				}
				outLen := n
				if r%4 == 3 && n > 0 {
					outLen = n - 1
				}
				naf(outLen, s, n, w)
			}
		}
	}
	nm1 := new(big.Int).Sub(curveN, big.NewInt(1))
	for i := 0; i < reps/2+1; i++ {
		g := randScalar(c)
		k := randScalar(c)
		if i == 0 {
			g, k = be32(big.NewInt(1)), be32(nm1)
		}
		P, err := sm2.VerifScalarBaseMult(randScalar(c))
		if err != nil {
			continue
		}
		r, err := sm2.VerifScalarMixedMult(g, P, k)
		if err != nil {
			continue
		}
		check("internal.ScalarMixedMult_Unsafe", "mixedmult", []string{vBytes(g), vPoint(P), vBytes(k)}, "ok "+vPoint(r)+" 0")
	}
}

func init() { runners["C20IR"] = runC20IR }
