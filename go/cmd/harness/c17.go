package main

import (
	"bytes"
	"crypto/cipher"
	"fmt"
	"math/big"
	"sync"

	"github.com/bilibili/smgo/sm2"
	"github.com/bilibili/smgo/sm3"
	"github.com/bilibili/smgo/sm4"
)

func runC17(c *Ctx) {
	c.res.Rule = "G goroutines x M calls on ONE Block / ONE AEAD value with shared, read-only key, nonce, aad, plaintext and ciphertext buffers (each goroutine has its own destination), on every path; concurrent Open calls on one shared ciphertext buffer; concurrent SM2 Sign (own scripted reader) / Verify / DerivePublic sharing key material and the package-level tables; independent SM3 hash values; every concurrent answer is compared with the answer of the same call run alone, and the shared inputs are compared with their snapshots afterwards; the same runner is executed under the Go race detector by bin/check; class = (object, operation mix, path)"
	G, M := 8, 40
	if c.tier == "thorough" {
		G, M = 16, 400
	}
	asmOK := sm4.VerifCandoAsm()
	report := func(cl, req string, ok bool, got, want string) {
		c.Case("concurrent", cl, false, req)
		if !ok {
			c.Disagree(Disagreement{Kind: "impl!=spec", Class: cl, Request: req, Impl: got, Spec: want, Stream: "concurrent"})
		}
	}
	// ---- Block ----
	for _, accel := range []bool{true, false} {
		if accel && !asmOK {
			continue
		}
		sm4.VerifSetCandoAsm(accel)
		blk, _ := sm4.NewCipher(c.rng.Bytes(16))
		sm4.VerifSetCandoAsm(asmOK)
		src := c.rng.Bytes(16 * M)
		snap := append([]byte(nil), src...)
		serial := make([]byte, 16*M)
		for i := 0; i < M; i++ {
			blk.Encrypt(serial[16*i:], src[16*i:16*i+16])
		}
		outs := make([][]byte, G)
		var wg sync.WaitGroup
		for g := 0; g < G; g++ {
			wg.Add(1)
			go func(g int) {
				defer wg.Done()
				out := make([]byte, 16*M)
				tmp := make([]byte, 16)
				for i := 0; i < M; i++ {
					blk.Encrypt(out[16*i:16*i+16], src[16*i:16*i+16])
					blk.Decrypt(tmp, out[16*i:16*i+16])
					if !bytes.Equal(tmp, src[16*i:16*i+16]) {
						out[16*i] ^= 0xff // make the mismatch visible
					}
				}
				outs[g] = out
			}(g)
		}
		wg.Wait()
		ok := bytes.Equal(src, snap)
		for g := 0; g < G; g++ {
			ok = ok && bytes.Equal(outs[g], serial)
		}
		report(fmt.Sprintf("block/accel=%v", accel), fmt.Sprintf("concurrent block G=%d M=%d accel=%v", G, M, accel), ok, "differs from serial", "equal to serial")
	}
	// ---- AEAD ----
	for _, p := range gcmPaths() {
		key, nonce, aad := c.rng.Bytes(16), c.rng.Bytes(12), c.rng.Bytes(37)
		var a cipher.AEAD
		a, _ = p.mk(key, 12, 16)
		pts := make([][]byte, M)
		cts := make([][]byte, M)
		for i := range pts {
			pts[i] = c.rng.Bytes([]int{0, 1, 16, 33, 257, 300}[i%6])
			cts[i] = a.Seal(nil, nonce, pts[i], aad)
		}
		snapN, snapA := append([]byte(nil), nonce...), append([]byte(nil), aad...)
		snapC := make([][]byte, M)
		for i := range cts {
			snapC[i] = append([]byte(nil), cts[i]...)
		}
		bad := make([]int, G)
		var wg sync.WaitGroup
		for g := 0; g < G; g++ {
			wg.Add(1)
			go func(g int) {
				defer wg.Done()
				for i := 0; i < M; i++ {
					ct := a.Seal(nil, nonce, pts[i], aad)
					if !bytes.Equal(ct, snapC[i]) {
						bad[g]++
					}
					// every goroutine opens the SAME shared ciphertext buffer
					pt, err := a.Open(nil, nonce, cts[i], aad)
					if err != nil || !bytes.Equal(pt, pts[i]) {
						bad[g]++
					}
				}
			}(g)
		}
		wg.Wait()
		ok := bytes.Equal(nonce, snapN) && bytes.Equal(aad, snapA)
		for i := range cts {
			ok = ok && bytes.Equal(cts[i], snapC[i])
		}
		nb := 0
		for _, b := range bad {
			nb += b
		}
		report("aead/"+p.name, fmt.Sprintf("concurrent aead path=%s G=%d M=%d (shared nonce, aad, plaintexts, ciphertexts)", p.name, G, M), ok && nb == 0, fmt.Sprintf("%d calls differ from serial; inputs unchanged=%v", nb, ok), "all equal to serial, inputs unchanged")
	}
	// ---- SM2 ----
	{
		kp := randKey(c)
		id, msg := []byte("1234567812345678"), c.rng.Bytes(100)
		ks := make([]*big.Int, M)
		type sig struct{ r, s []byte }
		serial := make([]sig, M)
		for i := range ks {
			ks[i] = randK(c)
			r, s, _ := sm2.Sign(id, kp.px, kp.py, &scriptReader{items: dataScript(be32(ks[i]))}, kp.priv, msg)
			serial[i] = sig{r, s}
		}
		snap := fmt.Sprintf("%x%x%x%x%x", kp.priv, kp.px, kp.py, id, msg)
		bad := make([]int, G)
		var wg sync.WaitGroup
		mm := M
		if mm > 60 {
			mm = 60
		}
		for g := 0; g < G; g++ {
			wg.Add(1)
			go func(g int) {
				defer wg.Done()
				for i := 0; i < mm; i++ {
					r, s, err := sm2.Sign(id, kp.px, kp.py, &scriptReader{items: dataScript(be32(ks[i]))}, kp.priv, msg)
					if err != nil || !bytes.Equal(r, serial[i].r) || !bytes.Equal(s, serial[i].s) {
						bad[g]++
					}
					if ok, _ := sm2.Verify(id, kp.px, kp.py, msg, serial[i].r, serial[i].s); !ok {
						bad[g]++
					}
					x, y, err := sm2.DerivePublic(kp.priv)
					if err != nil || !bytes.Equal(x, kp.px) || !bytes.Equal(y, kp.py) {
						bad[g]++
					}
				}
			}(g)
		}
		wg.Wait()
		nb := 0
		for _, b := range bad {
			nb += b
		}
		report("sm2/sign-verify-derive", fmt.Sprintf("concurrent sm2 G=%d M=%d", G, mm), nb == 0 && snap == fmt.Sprintf("%x%x%x%x%x", kp.priv, kp.px, kp.py, id, msg), fmt.Sprintf("%d calls differ", nb), "all equal to serial")
	}
	// ---- SM2 with a DIFFERENT key per goroutine (state cached per key would be exposed here) ----
	{
		type job struct {
			kp  keyPair
			ks  []*big.Int
			sig [][2][]byte
		}
		mm := M
		if mm > 40 {
			mm = 40
		}
		id, msg := []byte("1234567812345678"), c.rng.Bytes(64)
		jobs := make([]job, G)
		for g := range jobs {
			jobs[g].kp = randKey(c)
			for i := 0; i < mm; i++ {
				k := randK(c)
				r, s, _ := sm2.Sign(id, jobs[g].kp.px, jobs[g].kp.py, &scriptReader{items: dataScript(be32(k))}, jobs[g].kp.priv, msg)
				jobs[g].ks = append(jobs[g].ks, k)
				jobs[g].sig = append(jobs[g].sig, [2][]byte{r, s})
			}
		}
		bad := make([]int, G)
		var wg sync.WaitGroup
		for g := 0; g < G; g++ {
			wg.Add(1)
			go func(g int) {
				defer wg.Done()
				j := &jobs[g]
				for i := 0; i < mm; i++ {
					r, s, err := sm2.Sign(id, j.kp.px, j.kp.py, &scriptReader{items: dataScript(be32(j.ks[i]))}, j.kp.priv, msg)
					if err != nil || !bytes.Equal(r, j.sig[i][0]) || !bytes.Equal(s, j.sig[i][1]) {
						bad[g]++
					}
					if ok, _ := sm2.Verify(id, j.kp.px, j.kp.py, msg, j.sig[i][0], j.sig[i][1]); !ok {
						bad[g]++
					}
					if x, _, err := sm2.DerivePublic(j.kp.priv); err != nil || !bytes.Equal(x, j.kp.px) {
						bad[g]++
					}
				}
			}(g)
		}
		wg.Wait()
		nb := 0
		for _, b := range bad {
			nb += b
		}
		report("sm2/one-key-per-goroutine", fmt.Sprintf("concurrent sm2 with distinct keys G=%d M=%d", G, mm), nb == 0, fmt.Sprintf("%d calls differ from their serial answers", nb), "all equal to serial")
	}
	// ---- SM3: independent hash values ----
	{
		msgs := make([][]byte, G)
		want := make([][32]byte, G)
		for g := range msgs {
			msgs[g] = c.rng.Bytes(50 + 13*g)
			want[g] = sm3.SumSM3(msgs[g])
		}
		bad := make([]int, G)
		var wg sync.WaitGroup
		for g := 0; g < G; g++ {
			wg.Add(1)
			go func(g int) {
				defer wg.Done()
				for i := 0; i < M; i++ {
					h := sm3.New()
					h.Write(msgs[g][:i%len(msgs[g])])
					h.Write(msgs[g][i%len(msgs[g]):])
					if !bytes.Equal(h.Sum(nil), want[g][:]) {
						bad[g]++
					}
				}
			}(g)
		}
		wg.Wait()
		nb := 0
		for _, b := range bad {
			nb += b
		}
		report("sm3/independent", fmt.Sprintf("concurrent sm3 G=%d M=%d", G, M), nb == 0, fmt.Sprintf("%d differ", nb), "all equal")
	}
}

func init() { runners["C17"] = runC17 }
