package main

// C09G: the generated CT-IR programs of the Go glue of the accelerated SM4 / GCM paths
// (lean/SMGo/Gen/CTIRProgSM4.lean, theorems lean/SMGo/Props/C09Glue.lean) as a functional and a leakage model.
//
//	(a) results: the IR interpreter (`ctirsm4.run <arch> <function> <args>`; the assembly routines are
//	    modelled by the specification: Spec.SM4, Spec.GCM) against the real code — arm64: the Go glue of
//	    /repo/sm4/sm4_gcm_arm64.go run over portable stand-in kernels (package arm64glue, regenerated from
//	    the working tree); amd64: the real fused path (when this CPU selects it).  Classes: plaintext
//	    lengths around every boundary of the 256/128/64/32/16-byte ladder and the remainder loop,
//	    additional data and nonce lengths (standard and GHASH-derived counter), tag sizes 12..16,
//	    destination with and without spare capacity, Open with valid, forged and too short inputs.
//	(b) traces: pairs of runs with DIFFERENT keys, nonces, plaintexts, additional data and destination
//	    contents of EQUAL lengths must leak the same trace (`ctirsm4.trace`) whenever the declassified
//	    verdict (the tag match of Open) is the same.
import (
	"crypto/cipher"
	"fmt"
	"strings"

	"verifharness/arm64glue"

	"github.com/bilibili/smgo/sm4"
)

type glueArch struct {
	name string
	mk   func(key []byte, ns, ts int) (cipher.AEAD, error)
	blk  func(key []byte) (cipher.Block, error)
}

type c09g struct {
	c      *Ctx
	traces map[string]string
	keys   map[string][2]string // arch/key -> (cipher value, round keys) in the IR's syntax
}

// keyVals: the cipher value and the round keys of a key, computed by the IR's newCipher
func (h *c09g) keyVals(arch string, key []byte) (string, string) {
	k := arch + "/" + fmt.Sprintf("%x", key)
	if v, ok := h.keys[k]; ok {
		return v[0], v[1]
	}
	ans := h.c.drv.Ask(fmt.Sprintf("ctirsm4.run %s sm4.newCipher %s", arch, vBytes(key)))
	f := strings.Fields(ans)
	if len(f) != 3 || f[0] != "ok" || f[2] != "0" || !strings.HasPrefix(f[1], "[[[") {
		fatal("ctirsm4 newCipher: %s", ans)
	}
	ciph := f[1]
	rk := ciph[2 : strings.Index(ciph, "]")+1] // the first inner list: enc
	h.keys[k] = [2]string{ciph, rk}
	return ciph, rk
}

func (h *c09g) run(arch, fn, class string, trivial bool, args []string, impl string) {
	req := "ctirsm4.run " + arch + " " + fn + " " + strings.Join(args, " ")
	cl := "run/" + arch + "/" + fn + "/" + class
	h.c.Case("ctirsm4.run", cl, trivial, req)
	h.c.CheckModel("ctirsm4.run", cl, req, impl)
}

func (h *c09g) trace(req string) string {
	if t, ok := h.traces[req]; ok {
		return t
	}
	t := h.c.drv.Ask(req)
	h.traces[req] = t
	return t
}

func (h *c09g) pair(arch, fn, class string, a1, a2 []string) bool {
	r1 := "ctirsm4.trace " + arch + " " + fn + " " + strings.Join(a1, " ")
	r2 := "ctirsm4.trace " + arch + " " + fn + " " + strings.Join(a2, " ")
	t1, t2 := h.trace(r1), h.trace(r2)
	cl := "trace/" + arch + "/" + fn + "/" + class
	h.c.Case("ctirsm4.trace", cl, false, r1+" || "+r2)
	d := func(s string) string {
		if i := strings.Index(s, " d="); i >= 0 {
			return s[i:]
		}
		return s
	}
	bad := func(s string) bool { return !strings.HasPrefix(s, "ok ") && !strings.HasPrefix(s, "panic ") }
	if bad(t1) || bad(t2) {
		h.c.Disagree(Disagreement{Kind: "impl!=model", Class: cl, Request: r1 + " || " + r2, Impl: "a terminating run", Model: t1 + " || " + t2, Stream: "ctirsm4.trace", Note: "the IR interpreter did not terminate normally"})
		return true
	}
	if d(t1) != d(t2) {
		h.c.res.Classes["trace/"+arch+"/"+fn+"/verdicts-differ"]++
		return false
	}
	if t1 != t2 {
		h.c.Disagree(Disagreement{Kind: "impl!=spec", Class: cl, Request: r1 + " || " + r2, Impl: t1, Spec: t2, Stream: "ctirsm4.trace",
			Note: "two keys / data of equal lengths, equal verdicts, different leakage traces"})
	}
	return true
}

func (h *c09g) sealArgs(arch string, key []byte, ns, ts int, dst, nonce, data, aad []byte) []string {
	ciph, rk := h.keyVals(arch, key)
	return []string{ciph, rk, fmt.Sprint(ns), fmt.Sprint(ts), vBytes(dst), vBytes(nonce), vBytes(data), vBytes(aad), fmt.Sprint(cap(dst))}
}

func glueLenClass(n int) string {
	switch {
	case n == 0:
		return "0"
	case n < 16:
		return "tail"
	}
	s := fmt.Sprintf("x256*%d", n/256)
	r := (n / 16) % 16
	for _, k := range []int{8, 4, 2, 1} {
		if r&k != 0 {
			s += fmt.Sprintf("+%d", 16*k)
		}
	}
	if n%16 != 0 {
		s += "+tail"
	}
	return s
}

func runC09G(c *Ctx) {
	c.res.Rule = "per architecture (arm64 glue over stand-in kernels, amd64 fused path): Seal/Open results of the IR interpreter vs the real code over plaintext lengths at every boundary of the 256/128/64/32/16 ladder and the remainder loop, aad / nonce lengths (12-byte and GHASH-derived J0), tag sizes 12..16, dst with/without spare capacity, forged and short ciphertexts; Encrypt/Decrypt wrappers; NewGCM size checks; traces: pairs of different keys/nonces/data/dst of equal lengths must have equal traces when the tag verdict is equal"
	h := &c09g{c: c, traces: map[string]string{}, keys: map[string][2]string{}}
	archs := []glueArch{{"arm64",
		func(key []byte, ns, ts int) (cipher.AEAD, error) { return arm64glue.NewAEAD(key, ns, ts) },
		func(key []byte) (cipher.Block, error) { return arm64glue.NewCipher(key) }}}
	if sm4.VerifCandoAsm() {
		archs = append(archs, glueArch{"amd64",
			func(key []byte, ns, ts int) (cipher.AEAD, error) {
				blk, err := sm4.NewCipher(key)
				if err != nil {
					return nil, err
				}
				return blk.(gcmAbleIface).NewGCM(ns, ts)
			},
			func(key []byte) (cipher.Block, error) { return sm4.NewCipher(key) }})
	} else {
		c.res.Notes = append(c.res.Notes, "this CPU does not select the amd64 accelerated path: amd64 results not compared (traces are)")
	}
	lens := []int{0, 1, 15, 16, 17, 31, 32, 33, 47, 48, 63, 64, 65, 95, 112, 127, 128, 129, 240, 255, 256, 257, 271, 272, 300, 496, 511, 512, 513, 777}
	if c.tier == "thorough" {
		for n := 2; n < 1100; n += 7 {
			lens = append(lens, n)
		}
	}
	for _, a := range archs {
		h.results(a, lens)
	}
	for _, arch := range []string{"arm64", "amd64"} {
		h.tracePairs(arch, lens)
	}
}

func (h *c09g) results(a glueArch, lens []int) {
	c := h.c
	seal := func(key []byte, ns, ts int, dst, nonce, pt, aad []byte, class string) []byte {
		aead, err := a.mk(key, ns, ts)
		if err != nil {
			fatal("NewGCM: %v", err)
		}
		args := h.sealArgs(a.name, key, ns, ts, dst, nonce, pt, aad)
		d0 := append([]byte(nil), dst...)
		out := aead.Seal(dst, nonce, pt, aad)
		h.run(a.name, "sm4.sm4GcmAsm.Seal", class, false, args, "ok "+vInts(d0)+" "+vInts(out))
		return out
	}
	open := func(key []byte, ns, ts int, dst, nonce, ct, aad []byte, class string) {
		aead, err := a.mk(key, ns, ts)
		if err != nil {
			fatal("NewGCM: %v", err)
		}
		args := h.sealArgs(a.name, key, ns, ts, dst, nonce, ct, aad)
		d0 := append([]byte(nil), dst...)
		out, err := aead.Open(dst, nonce, ct, aad)
		impl := "ok " + vInts(d0) + " " + vInts(out) + " " + errFlag(err)
		h.run(a.name, "sm4.sm4GcmAsm.Open", class, false, args, impl)
	}
	for i, n := range lens {
		key := c.rng.Bytes(16)
		ns, ts := 12, 16
		switch i % 5 {
		case 1:
			ts = 12 + i%5
		case 2:
			ns = []int{1, 8, 16, 20, 33}[i%5]
		case 3:
			ts = 12 + (i/5)%5
			ns = []int{7, 13, 32}[i%3]
		}
		aadLen := []int{0, 1, 16, 20, 33, 48}[i%6]
		nonce, pt, aad := c.rng.Bytes(ns), c.rng.Bytes(n), c.rng.Bytes(aadLen)
		var dst []byte
		dclass := "nodst"
		switch i % 3 {
		case 1:
			dst = c.rng.Bytes(5) // no spare capacity: ensureCapacity allocates
			dst = dst[:5:5]
			dclass = "alloc"
		case 2:
			dst = make([]byte, 3, 3+n+ts+7) // room: ensureCapacity extends in place
			copy(dst, c.rng.Bytes(3))
			dclass = "inplace"
		}
		class := fmt.Sprintf("%s/ns%d/ts%d/aad%d/%s", glueLenClass(n), ns, ts, aadLen%16, dclass)
		ct := seal(key, ns, ts, dst, nonce, pt, aad, class)
		ct = ct[len(dst):]
		open(key, ns, ts, nil, nonce, ct, aad, "valid/"+class)
		if i%2 == 0 {
			bad := append([]byte(nil), ct...)
			bad[c.rng.Intn(len(bad))] ^= 1 << uint(c.rng.Intn(8))
			open(key, ns, ts, nil, nonce, bad, aad, "forged/"+glueLenClass(n))
		}
		if i%7 == 0 {
			open(key, ns, ts, nil, nonce, ct[:c.rng.Intn(ts)], aad, "short")
		}
		if i%3 == 2 { // Open into a destination with room
			d2 := make([]byte, 2, 2+n+4)
			open(key, ns, ts, d2, nonce, ct, aad, "valid-inplace/"+glueLenClass(n))
		}
	}
	// block wrappers and constructor checks
	for i := 0; i < 6; i++ {
		key := c.rng.Bytes(16)
		blk, err := a.blk(key)
		if err != nil {
			fatal("NewCipher: %v", err)
		}
		ciph, _ := h.keyVals(a.name, key)
		src := c.rng.Bytes(16 + i%3)
		dst := make([]byte, 16+i%2)
		want := append([]byte(nil), dst...)
		blk.Encrypt(want, src)
		h.run(a.name, "sm4.sm4CipherAsm.Encrypt", "block", i > 1, []string{ciph, vBytes(dst), vBytes(src)}, "ok "+vInts(want))
		blk.Decrypt(want, src)
		h.run(a.name, "sm4.sm4CipherAsm.Decrypt", "block", i > 1, []string{ciph, vBytes(dst), vBytes(src)}, "ok "+vInts(want))
	}
	key := c.rng.Bytes(16)
	ciph, _ := h.keyVals(a.name, key)
	for _, sz := range [][2]int{{12, 16}, {12, 12}, {1, 14}, {12, 11}, {12, 17}, {0, 16}, {-1, 16}, {20, 13}} {
		blk, _ := a.blk(key)
		_, err := blk.(gcmAbleIface).NewGCM(sz[0], sz[1])
		ans := c.drv.Ask(fmt.Sprintf("ctirsm4.run %s sm4.sm4CipherAsm.NewGCM %s %d %d", a.name, ciph, sz[0], sz[1]))
		cl := fmt.Sprintf("run/%s/sm4.sm4CipherAsm.NewGCM/%s", a.name, errFlag(err))
		c.Case("ctirsm4.run", cl, false, ans)
		if !strings.HasPrefix(ans, "ok ") || !strings.HasSuffix(ans, " "+errFlag(err)) {
			c.Disagree(Disagreement{Kind: "impl!=model", Class: cl, Request: fmt.Sprintf("NewGCM %d %d", sz[0], sz[1]), Impl: "err=" + errFlag(err), Model: ans, Stream: "ctirsm4.run"})
		}
	}
}

func (h *c09g) tracePairs(arch string, lens []int) {
	c := h.c
	for i, n := range lens {
		if c.tier != "thorough" && i%2 == 1 && n > 64 {
			continue
		}
		ns, ts := 12, 16
		if i%4 == 1 {
			ns, ts = 20, 13
		}
		aadLen := []int{0, 5, 16, 37}[i%4]
		k1, k2 := c.rng.Bytes(16), c.rng.Bytes(16)
		if i%5 == 0 {
			k1 = make([]byte, 16) // all-zero key against a random one
		}
		n1, n2 := c.rng.Bytes(ns), c.rng.Bytes(ns)
		p1, p2 := c.rng.Bytes(n), c.rng.Bytes(n)
		if i%3 == 0 {
			for j := range p1 {
				p1[j] = 0xff
			}
		}
		a1, a2 := c.rng.Bytes(aadLen), c.rng.Bytes(aadLen)
		var d1, d2 []byte
		if i%2 == 1 {
			d1 = make([]byte, 4, 4+n+ts)
			d2 = make([]byte, 4, 4+n+ts)
			copy(d2, c.rng.Bytes(4))
		}
		cl := glueLenClass(n)
		h.pair(arch, "sm4.sm4GcmAsm.Seal", cl, h.sealArgs(arch, k1, ns, ts, d1, n1, p1, a1), h.sealArgs(arch, k2, ns, ts, d2, n2, p2, a2))
		// Open: both forged (verdict: mismatch), and both valid (ciphertexts made by the spec through the IR)
		c1, c2 := c.rng.Bytes(n+ts), c.rng.Bytes(n+ts)
		h.pair(arch, "sm4.sm4GcmAsm.Open", "forged/"+cl, h.sealArgs(arch, k1, ns, ts, nil, n1, c1, a1), h.sealArgs(arch, k2, ns, ts, nil, n2, c2, a2))
		v1 := h.sealed(arch, k1, ns, ts, n1, p1, a1)
		v2 := h.sealed(arch, k2, ns, ts, n2, p2, a2)
		h.pair(arch, "sm4.sm4GcmAsm.Open", "valid/"+cl, h.sealArgs(arch, k1, ns, ts, d1, n1, v1, a1), h.sealArgs(arch, k2, ns, ts, d2, n2, v2, a2))
	}
	// the block wrappers and the key expansion
	k1, k2 := c.rng.Bytes(16), c.rng.Bytes(16)
	ci1, _ := h.keyVals(arch, k1)
	ci2, _ := h.keyVals(arch, k2)
	z := vBytes(make([]byte, 16))
	h.pair(arch, "sm4.sm4CipherAsm.Encrypt", "block", []string{ci1, z, vBytes(c.rng.Bytes(16))}, []string{ci2, z, vBytes(c.rng.Bytes(16))})
	h.pair(arch, "sm4.sm4CipherAsm.Decrypt", "block", []string{ci1, z, vBytes(c.rng.Bytes(16))}, []string{ci2, z, vBytes(c.rng.Bytes(16))})
	h.pair(arch, "sm4.newCipher", "key", []string{vBytes(k1)}, []string{vBytes(k2)})
	h.pair(arch, "sm4.sm4CipherAsm.NewGCM", "sizes", []string{ci1, "12", "16"}, []string{ci2, "12", "16"})
}

// sealed: ciphertext ‖ tag computed by the IR's Seal (empty destination)
func (h *c09g) sealed(arch string, key []byte, ns, ts int, nonce, pt, aad []byte) []byte {
	ans := h.c.drv.Ask("ctirsm4.run " + arch + " sm4.sm4GcmAsm.Seal " + strings.Join(h.sealArgs(arch, key, ns, ts, nil, nonce, pt, aad), " "))
	f := strings.Fields(ans)
	if len(f) != 3 || f[0] != "ok" {
		fatal("ctirsm4 Seal: %s", ans)
	}
	var out []byte
	for _, t := range strings.Split(strings.Trim(f[2], "[]"), ",") {
		if t == "" {
			continue
		}
		var v int
		fmt.Sscan(t, &v)
		out = append(out, byte(v))
	}
	return out
}

func init() { runners["C09G"] = runC09G }
