package main

import (
	"fmt"
	"strings"

	"github.com/bilibili/smgo/sm3"
)

type sm3Op struct {
	kind byte // 'W', 'S', 'R'
	data []byte
}

func sm3Req(cmd string, ops []sm3Op) string {
	var sb strings.Builder
	sb.WriteString(cmd)
	for _, op := range ops {
		switch op.kind {
		case 'R':
			sb.WriteString(" R")
		default:
			fmt.Fprintf(&sb, " %c:%x", op.kind, op.data)
		}
	}
	return sb.String()
}

func sm3Impl(ops []sm3Op) string {
	return try(func() string {
		h := sm3.New()
		outs := make([]string, 0, len(ops))
		for _, op := range ops {
			switch op.kind {
			case 'W':
				n, err := h.Write(op.data)
				if err != nil {
					outs = append(outs, fmt.Sprintf("n=%d,err", n))
				} else {
					outs = append(outs, fmt.Sprintf("n=%d", n))
				}
			case 'S':
				in := append([]byte(nil), op.data...)
				outs = append(outs, fmt.Sprintf("sum=%x", h.Sum(in)))
			case 'R':
				h.Reset()
				outs = append(outs, "-")
			}
		}
		return strings.Join(outs, " | ")
	})
}

// class of a history: residues mod 64 at each Sum (padding branch), buffer state at each Write
func sm3Class(ops []sm3Op) (string, bool) {
	total, nx := 0, 0
	var parts []string
	trivial := true
	for _, op := range ops {
		switch op.kind {
		case 'W':
			// which branches of Write run
			br := ""
			l := len(op.data)
			if nx > 0 {
				br += "b"
				if nx+l >= 64 {
					br += "f"
				}
			}
			if (nx == 0 && l >= 64) || (nx > 0 && nx+l >= 128) {
				br += "d"
			}
			if l == 0 {
				br += "0"
			}
			total += l
			nx = total % 64
			if nx > 0 && l > 0 {
				br += "t"
			}
			parts = append(parts, "W"+br)
		case 'S':
			r := total % 64
			pc := "1"
			if r >= 56 {
				pc = "2"
			}
			if r == 55 || r == 56 || r == 63 || r == 0 {
				pc += fmt.Sprintf("@%d", r)
				trivial = false
			}
			blocks := total / 64
			if blocks > 2 {
				blocks = 3
			}
			parts = append(parts, fmt.Sprintf("S%s/b%d/in%d", pc, blocks, bucket(len(op.data))))
		case 'R':
			total, nx = 0, 0
			parts = append(parts, "R")
			trivial = false
		}
	}
	if len(ops) > 2 {
		trivial = false
	}
	return strings.Join(parts, ","), trivial
}

func runC04(c *Ctx) {
	c.res.Rule = "histories of Write/Sum/Reset from sm3.New(): every total length 0..300 (thorough 0..1100) x split strategies (one Write, byte-wise head, random splits, splits at the 55/56/63/64 boundaries), Sum twice, Write after Sum, Reset in the middle, Sum with a prefix; class = sequence of (Write branches taken: buffered/flush/direct/tail, Sum padding branch and residue class, block count); non-trivial = more than two ops or a boundary residue (0,55,56,63) or a Reset"
	maxLen := 300
	nRand := 1500
	if c.tier == "thorough" {
		maxLen, nRand = 1100, 30000
	}
	do := func(ops []sm3Op) {
		impl := sm3Impl(ops)
		req := sm3Req("sm3.hist", ops)
		sreq := sm3Req("sm3.spechist", ops)
		cl, triv := sm3Class(ops)
		c.Case("sm3.hist", cl, triv, req)
		c.Check3("sm3.hist", cl, req, sreq, impl)
	}
	msg := func(n int) []byte { return c.rng.Bytes(n) }
	for l := 0; l <= maxLen; l++ {
		m := msg(l)
		// one write
		do([]sm3Op{{'W', m}, {'S', nil}})
		// two writes at a random split, sum twice, then continue
		k := c.rng.Intn(l + 1)
		do([]sm3Op{{'W', m[:k]}, {'W', m[k:]}, {'S', nil}, {'S', []byte{1, 2, 3}}, {'W', []byte{0x61}}, {'S', nil}})
		// split just below/at the block boundary
		for _, k := range []int{1, 55, 56, 63, 64, 65} {
			if k <= l {
				do([]sm3Op{{'W', m[:k]}, {'S', nil}, {'W', m[k:]}, {'S', nil}})
			}
		}
		if l <= 130 {
			// byte-wise
			ops := []sm3Op{}
			for i := 0; i < l; i++ {
				ops = append(ops, sm3Op{'W', m[i : i+1]})
			}
			ops = append(ops, sm3Op{'S', nil})
			do(ops)
		}
		// reset in the middle
		do([]sm3Op{{'W', msg(c.rng.Intn(130))}, {'R', nil}, {'W', m}, {'S', nil}, {'R', nil}, {'S', nil}})
	}
	// one-shot function
	for l := 0; l <= maxLen; l++ {
		m := msg(l)
		impl := try(func() string { d := sm3.SumSM3(m); return fmt.Sprintf("%x", d[:]) })
		req := "sm3.sum " + hexOrDash(m)
		cl := fmt.Sprintf("oneshot/r%d", l%64)
		c.Case("sm3.sum", cl, !(l%64 == 55 || l%64 == 56 || l%64 == 63 || l%64 == 0), req)
		c.Check3("sm3.sum", cl, req, "sm3.spec "+hexOrDash(m), impl)
	}
	for i := 0; i < nRand; i++ {
		nops := 1 + c.rng.Intn(12)
		ops := make([]sm3Op, 0, nops)
		for j := 0; j < nops; j++ {
			switch r := c.rng.Intn(10); {
			case r < 6:
				var l int
				switch c.rng.Intn(5) {
				case 0:
					l = c.rng.Intn(4)
				case 1:
					l = 50 + c.rng.Intn(20)
				case 2:
					l = 64 * (1 + c.rng.Intn(3))
				case 3:
					l = c.rng.Intn(300)
				default:
					l = 119 + c.rng.Intn(12)
				}
				ops = append(ops, sm3Op{'W', msg(l)})
			case r < 9:
				ops = append(ops, sm3Op{'S', msg(c.rng.Intn(3) * c.rng.Intn(20))})
			default:
				ops = append(ops, sm3Op{'R', nil})
			}
		}
		ops = append(ops, sm3Op{'S', nil})
		do(ops)
	}
}

func parseSM3Ops(req string) []sm3Op {
	var ops []sm3Op
	for _, tok := range strings.Fields(req)[1:] {
		if tok == "R" {
			ops = append(ops, sm3Op{'R', nil})
			continue
		}
		b := []byte{}
		if len(tok) > 2 {
			b = parseHexNil(tok[2:])
		}
		ops = append(ops, sm3Op{tok[0], b})
	}
	return ops
}

func init() {
	runners["C04"] = runC04
	replayers["C04"] = func(c *Ctx, d Disagreement) {
		var impl string
		if strings.HasPrefix(d.Request, "sm3.sum ") {
			m := parseHexNil(strings.Fields(d.Request)[1])
			impl = try(func() string { x := sm3.SumSM3(m); return fmt.Sprintf("%x", x[:]) })
		} else {
			impl = sm3Impl(parseSM3Ops(d.Request))
		}
		c.Case(d.Stream, d.Class, false, d.Request)
		c.Check3(d.Stream, d.Class, d.Request, d.SpecReq, impl)
	}
}
