package main

import (
	"fmt"
	"math/big"

	"github.com/bilibili/smgo/sm2"
)

// scaleZ returns another projective representative of p: (λX : λY : λZ) with λ ≠ 0.
func scaleZ(c *Ctx, p *sm2.VerifPoint) *sm2.VerifPoint {
	lam := new(big.Int).Mod(new(big.Int).SetBytes(c.rng.Bytes(40)), curveP)
	if lam.Sign() == 0 {
		lam.SetInt64(2)
	}
	le, _ := new(sm2.VerifElement).SetBytes(be32(lam))
	x, y, z := p.VerifCoords()
	ex := new(sm2.VerifElement).SetRaw(x)
	ey := new(sm2.VerifElement).SetRaw(y)
	ez := new(sm2.VerifElement).SetRaw(z)
	ex.Mul(ex, le)
	ey.Mul(ey, le)
	ez.Mul(ez, le)
	return sm2.VerifFromCoords(*ex.GetRaw(), *ey.GetRaw(), *ez.GetRaw())
}

func pointFromAff(a affPt) *sm2.VerifPoint {
	p, err := sm2.VerifNewPoint().SetBytes(encodeAff(a))
	if err != nil {
		panic(err)
	}
	return p
}

func clonePt(p *sm2.VerifPoint) *sm2.VerifPoint {
	x, y, z := p.VerifCoords()
	return sm2.VerifFromCoords(x, y, z)
}

func runC15(c *Ctx) {
	c.res.Rule = "pairs (P,Q) from {O, R, -R, 2R, G, -G, 2G, small multiples, random} squared, each in a random projective representative, all aliasing patterns of receiver and arguments (q fresh, q=p1, q=p2, p1=p2, all three); exact projective coordinates against the model, affine meaning against the specification's group law; encodings: all lengths 0..70, all first bytes, coordinates >= p, off-curve, safe vs unsafe conversion; class = (relation of P and Q, aliasing, representation)"
	nRand := 40
	if c.tier == "thorough" {
		nRand = 1500
	}
	type named struct {
		name string
		a    affPt
	}
	mk := func() []named {
		k := new(big.Int).SetBytes(c.rng.Bytes(32))
		R := affMul(k, affG())
		negR := affPt{x: R.x, y: new(big.Int).Sub(curveP, R.y)}
		G := affG()
		return []named{
			{"O", affPt{inf: true}}, {"R", R}, {"-R", negR}, {"2R", affAdd(R, R)},
			{"G", G}, {"-G", affPt{x: G.x, y: new(big.Int).Sub(curveP, G.y)}}, {"2G", affAdd(G, G)},
			{"3G", affAdd(G, affAdd(G, G))}, {"S", affMul(new(big.Int).SetBytes(c.rng.Bytes(32)), G)},
		}
	}
	for it := 0; it < nRand; it++ {
		pts := mk()
		for _, A := range pts {
			for _, B := range pts {
				if it > 0 && c.rng.Intn(6) != 0 {
					continue
				}
				for _, alias := range []string{"fresh", "q=p1", "q=p2", "p1=p2=q"} {
					if alias == "p1=p2=q" && A.name != B.name {
						continue
					}
					rep := "z=1"
					p1 := pointFromAff(A.a)
					p2 := pointFromAff(B.a)
					if c.rng.Intn(2) == 0 {
						rep = "scaled"
						p1 = scaleZ(c, p1)
						p2 = scaleZ(c, p2)
					}
					in1, in2 := ptHex(p1), ptHex(p2)
					var q *sm2.VerifPoint
					impl := try(func() string {
						switch alias {
						case "fresh":
							q = sm2.VerifNewPoint().Add(p1, p2)
						case "q=p1":
							q = p1.Add(p1, p2)
						case "q=p2":
							q = p2.Add(p1, p2)
						default:
							p2 = p1
							in2 = in1
							q = p1.Add(p1, p1)
						}
						return "ok " + ptHex(q)
					})
					cl := fmt.Sprintf("add/%s+%s/%s/%s", A.name, B.name, alias, rep)
					req := "pt.add " + in1 + " " + in2
					c.Case("pt.add", cl, A.name == "S" && B.name == "R", req)
					c.CheckModel("pt.add", cl, req, impl)
					if q != nil {
						b2 := B.a
						if alias == "p1=p2=q" {
							b2 = A.a
						}
						c.CheckSpec("pt.add", cl, req, fmt.Sprintf("pt.addaffine.spec %x %x", encodeAff(A.a), encodeAff(b2)), fmt.Sprintf("ok %x", q.Bytes()))
						// the result satisfies the curve equation and both conversions agree
						if fmt.Sprintf("%x", q.Bytes()) != fmt.Sprintf("%x", q.Bytes_Unsafe()) {
							c.Disagree(Disagreement{Kind: "impl!=spec", Class: cl + "/safe-vs-unsafe", Request: req, Impl: fmt.Sprintf("%x", q.Bytes()), Spec: fmt.Sprintf("%x", q.Bytes_Unsafe()), Stream: "pt.bytes"})
						}
						c.CheckModel("pt.bytes", cl, "pt.bytes "+ptHex(q)+" safe", fmt.Sprintf("ok %x", q.Bytes()))
						c.CheckModel("pt.bytes", cl, "pt.bytes "+ptHex(q)+" unsafe", fmt.Sprintf("ok %x", q.Bytes_Unsafe()))
						c.CheckModel("pt.affinex", cl, "pt.affinex "+ptHex(q)+" safe", fmt.Sprintf("ok %x", be32(q.GetAffineX())))
						c.CheckModel("pt.affinex", cl, "pt.affinex "+ptHex(q)+" unsafe", fmt.Sprintf("ok %x", be32(q.GetAffineX_Unsafe())))
					}
				}
			}
			// doubling and negation
			for _, alias := range []string{"fresh", "q=p"} {
				p1 := pointFromAff(A.a)
				rep := "z=1"
				if c.rng.Intn(2) == 0 {
					rep = "scaled"
					p1 = scaleZ(c, p1)
				}
				in1 := ptHex(p1)
				var q *sm2.VerifPoint
				if alias == "fresh" {
					q = sm2.VerifNewPoint().Double(p1)
				} else {
					q = p1.Double(p1)
				}
				cl := fmt.Sprintf("double/%s/%s/%s", A.name, alias, rep)
				c.Case("pt.double", cl, false, "pt.double "+in1)
				c.CheckModel("pt.double", cl, "pt.double "+in1, "ok "+ptHex(q))
				c.CheckSpec("pt.double", cl, "pt.double "+in1, fmt.Sprintf("pt.addaffine.spec %x %x", encodeAff(A.a), encodeAff(A.a)), fmt.Sprintf("ok %x", q.Bytes()))
				p3 := pointFromAff(A.a)
				in3 := ptHex(p3)
				var ng *sm2.VerifPoint
				if alias == "fresh" {
					ng = sm2.VerifNewPoint().Negate(p3)
				} else {
					ng = p3.Negate(p3)
				}
				cl = fmt.Sprintf("negate/%s/%s", A.name, alias)
				c.Case("pt.negate", cl, false, "pt.negate "+in3)
				c.CheckModel("pt.negate", cl, "pt.negate "+in3, "ok "+ptHex(ng))
				sum := sm2.VerifNewPoint().Add(ng, pointFromAff(A.a))
				if fmt.Sprintf("%x", sum.Bytes()) != "00" {
					c.Disagree(Disagreement{Kind: "impl!=spec", Class: cl + "/P+(-P)", Request: "pt.negate " + in3, Impl: fmt.Sprintf("%x", sum.Bytes()), Spec: "00", Stream: "pt.negate"})
				}
			}
		}
	}
	// encodings
	doEnc := func(cl string, b []byte) {
		recvBefore := pointFromAff(affG())
		before := ptHex(recvBefore)
		var p *sm2.VerifPoint
		var err error
		impl := try(func() string {
			p, err = recvBefore.SetBytes(b)
			if err != nil {
				if ptHex(recvBefore) != before {
					return "err-but-receiver-changed"
				}
				return "err"
			}
			return "ok " + ptHex(p)
		})
		req := "pt.setbytes " + hexOrDash(b)
		c.Case("pt.setbytes", cl, false, req)
		c.Check3("pt.setbytes", cl, req, "pt.setbytes.spec "+hexOrDash(b), impl)
		if err == nil && p != nil && impl != "panic" {
			// round trip
			if fmt.Sprintf("%x", p.Bytes()) != fmt.Sprintf("%x", b) {
				c.Disagree(Disagreement{Kind: "impl!=spec", Class: cl + "/roundtrip", Request: req, Impl: fmt.Sprintf("%x", p.Bytes()), Spec: fmt.Sprintf("%x", b), Stream: "pt.setbytes"})
			}
		}
	}
	valid := encodeAff(affMul(big.NewInt(12345), affG()))
	for l := 0; l <= 70; l++ {
		b := c.rng.Bytes(l)
		doEnc(fmt.Sprintf("len/%v", l == 1 || l == 33 || l == 65), b)
		if l > 0 {
			for _, f := range []byte{0, 2, 3, 4, 6} {
				b2 := append([]byte(nil), b...)
				b2[0] = f
				doEnc(fmt.Sprintf("len/first%d/%v", f, l == 1 || l == 33 || l == 65), b2)
			}
		}
		if l <= 65 {
			doEnc("prefix-of-valid", valid[:l])
		}
	}
	for f := 0; f < 256; f++ {
		b := append([]byte(nil), valid...)
		b[0] = byte(f)
		doEnc(fmt.Sprintf("firstbyte/%v", f == 4), b)
		doEnc("onebyte", []byte{byte(f)})
	}
	for i := 0; i < 64*8; i++ {
		if c.tier != "thorough" && i%5 != 0 {
			continue
		}
		b := append([]byte(nil), valid...)
		b[1+i/8] ^= 1 << uint(i%8)
		doEnc("bitflip-offcurve", b)
	}
	// coordinates >= p: x + p where it fits in 32 bytes
	for tries, found := 0, 0; tries < 4000 && found < 6; tries++ {
		x := big.NewInt(int64(tries))
		rhs := new(big.Int).Exp(x, big.NewInt(3), curveP)
		rhs.Sub(rhs, new(big.Int).Mul(big.NewInt(3), x))
		rhs.Add(rhs, curveB)
		rhs.Mod(rhs, curveP)
		y := new(big.Int).ModSqrt(rhs, curveP)
		if y == nil {
			continue
		}
		found++
		doEnc("small-x/canonical", encodeAff(affPt{x: x, y: y}))
		xp := new(big.Int).Add(x, curveP)
		doEnc("x+p", append(append([]byte{4}, be32(xp)...), be32(y)...))
	}
	doEnc("infinity", []byte{0})
	doEnc("valid", valid)
	// projective representatives whose Z has STRUCTURED Montgomery limbs (low or high 32-bit halves zero, a single
	// non-zero limb): encoding and affine conversion must not take them for infinity (seeded C15-c narrowed the
	// zero test of an element to 32 bits)
	for it := 0; it < 48; it++ {
		A := affMul(new(big.Int).SetBytes(c.rng.Bytes(32)), affG())
		var zl [4]uint64
		kind := []string{"low-halves-zero", "high-halves-zero", "single-limb"}[it%3]
		for i := 0; i < 4; i++ {
			switch kind {
			case "low-halves-zero":
				zl[i] = uint64(1+c.rng.Intn(1<<30)) << 32
			case "high-halves-zero":
				zl[i] = uint64(1 + c.rng.Intn(1<<30))
			default:
				if i == (it/3)%4 {
					zl[i] = []uint64{1, 1 << 32, 1 << 31, 1 << 62}[(it/12)%4]
				}
			}
		}
		zl[3] &= 0x7fffffffffffffff // keep the value below p
		le := new(sm2.VerifElement).SetRaw(zl)
		x, y, _ := pointFromAff(A).VerifCoords()
		ex, ey := new(sm2.VerifElement).SetRaw(x), new(sm2.VerifElement).SetRaw(y)
		ex.Mul(ex, le)
		ey.Mul(ey, le)
		q := sm2.VerifFromCoords(*ex.GetRaw(), *ey.GetRaw(), zl)
		cl := "bytes/structured-z/" + kind
		req := "pt.bytes " + ptHex(q)
		c.Case("pt.bytes", cl, false, req)
		want := fmt.Sprintf("%x", encodeAff(A))
		if got := fmt.Sprintf("%x", q.Bytes()); got != want {
			c.Disagree(Disagreement{Kind: "impl!=spec", Class: cl, Request: req, Impl: got, Spec: want, Stream: "pt.bytes"})
		}
		if got := fmt.Sprintf("%x", q.Bytes_Unsafe()); got != want {
			c.Disagree(Disagreement{Kind: "impl!=spec", Class: cl + "/unsafe", Request: req, Impl: got, Spec: want, Stream: "pt.bytes"})
		}
	}
}

func init() { runners["C15"] = runC15 }
