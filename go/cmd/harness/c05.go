package main

import (
	"crypto/cipher"
	"encoding/binary"
	"fmt"
	"runtime/debug"

	"github.com/bilibili/smgo/sm4"
)

func wordsHex(w []uint32) string {
	b := make([]byte, 4*len(w))
	for i, x := range w {
		binary.BigEndian.PutUint32(b[4*i:], x)
	}
	return fmt.Sprintf("%x", b)
}

type sm4Kernel struct {
	name string
	n    int // blocks
	f    func(rk *uint32, dst, src *byte)
}

func sm4Kernels() []sm4Kernel {
	return []sm4Kernel{
		{"asmX1", 1, sm4.VerifCryptoBlockAsm}, {"asmX2", 2, sm4.VerifCryptoBlockAsmX2},
		{"asmX4", 4, sm4.VerifCryptoBlockAsmX4}, {"asmX8", 8, sm4.VerifCryptoBlockAsmX8},
		{"asmX16", 16, sm4.VerifCryptoBlockAsmX16},
	}
}

// key buffers reused across keys, per path (see the public-API section of runC05)
var c05ReuseBuf [2][]byte

func runC05(c *Ctx) {
	debug.SetPanicOnFault(true) // a fault inside an assembly routine becomes a recoverable panic, reported as "panic"
	c.res.Rule = "per (key, blocks): portable cryptoBlock and cryptoBlockX2, expandKey vs expandKeyAsm, asm kernels X1/X2/X4/X8/X16 with distinct blocks in every lane, enc and dec, in place and disjoint (three-way: CPU, interpreted listing, specification), public NewCipher/Encrypt/Decrypt with the accelerated path on and off, key slice overwritten after construction, key lengths 0..40; class = (path, direction, aliasing, key pattern); non-trivial = every class except the first uniformly random one"
	nKeys := 150
	if c.tier == "thorough" {
		nKeys = 4000
	}
	asmOK := sm4.VerifCandoAsm()
	c.res.Extra["candoAsm"] = fmt.Sprint(asmOK)
	keyPatterns := []struct {
		name string
		gen  func() []byte
	}{
		{"std", func() []byte { return parseHexNil("0123456789abcdeffedcba9876543210") }},
		{"zero", func() []byte { return make([]byte, 16) }},
		{"ones", func() []byte {
			b := make([]byte, 16)
			for i := range b {
				b[i] = 0xff
			}
			return b
		}},
		{"onehot", func() []byte { b := make([]byte, 16); b[c.rng.Intn(16)] = 1 << uint(c.rng.Intn(8)); return b }},
		{"rand", func() []byte { return c.rng.Bytes(16) }},
	}
	for it := 0; it < nKeys; it++ {
		kp := keyPatterns[len(keyPatterns)-1]
		if it < 40 {
			kp = keyPatterns[it%len(keyPatterns)]
		}
		key := kp.gen()
		keyHex := fmt.Sprintf("%x", key)
		// key schedules
		var enc, dec, encA, decA [32]uint32
		sm4.VerifExpandKey(key, &enc, &dec)
		implExp := "ok " + wordsHex(enc[:]) + " " + wordsHex(dec[:])
		c.Case("sm4.expand", "portable/"+kp.name, false, "sm4.expand "+keyHex)
		c.Check3("sm4.expand", "portable/"+kp.name, "sm4.expand "+keyHex, "sm4.expand.spec "+keyHex, implExp)
		if asmOK {
			kcopy := append([]byte(nil), key...)
			sm4.VerifExpandKeyAsm(&kcopy[0], &encA[0], &decA[0])
			implExpA := "ok " + wordsHex(encA[:]) + " " + wordsHex(decA[:])
			c.Case("sm4.expand", "asm/"+kp.name, false, "sm4.expand "+keyHex)
			c.Check3("sm4.expand", "asm/"+kp.name, "sm4.expand "+keyHex, "sm4.expand.spec "+keyHex, implExpA)
			// three-way: real CPU vs the interpreted listing of expandKeyAsm (SMGo/Model/ISAVal.lean) vs the specification
			c.Case("asm.expandkey", "listing/"+kp.name, false, "asm.expandkey "+keyHex)
			c.Check3("asm.expandkey", "listing/"+kp.name, "asm.expandkey "+keyHex, "sm4.expand.spec "+keyHex, implExpA)
		}
		for _, dir := range []string{"enc", "dec"} {
			rk := &enc
			if dir == "dec" {
				rk = &dec
			}
			// 16 distinct blocks
			blocks := c.rng.Bytes(256)
			if it%7 == 0 {
				for i := range blocks {
					blocks[i] = byte(i/16) * 0x11
				}
			}
			// portable x1
			for _, alias := range []string{"disjoint", "inplace"} {
				src := append([]byte(nil), blocks[:16]...)
				dst := make([]byte, 16)
				if alias == "inplace" {
					dst = src
				}
				inHex := fmt.Sprintf("%x", blocks[:16])
				sm4.VerifCryptoBlock(src, dst, rk)
				cl := fmt.Sprintf("portableX1/%s/%s/%s", dir, alias, kp.name)
				c.Case("sm4.block", cl, it >= 40 && alias == "disjoint", "sm4.block "+keyHex+" "+inHex+" "+dir)
				c.Check3("sm4.block", cl, "sm4.block "+keyHex+" "+inHex+" "+dir, "sm4.spec "+keyHex+" "+inHex+" "+dir, fmt.Sprintf("ok %x", dst))
				// portable x2
				src2 := append([]byte(nil), blocks[16:48]...)
				dst2 := make([]byte, 32)
				if alias == "inplace" {
					dst2 = src2
				}
				in2 := fmt.Sprintf("%x", blocks[16:48])
				sm4.VerifCryptoBlockX2(src2, dst2, rk)
				cl = fmt.Sprintf("portableX2/%s/%s/%s", dir, alias, kp.name)
				c.Case("sm4.x2", cl, false, "sm4.x2 "+keyHex+" "+in2+" "+dir)
				c.Check3("sm4.x2", cl, "sm4.x2 "+keyHex+" "+in2+" "+dir, "sm4.spec "+keyHex+" "+in2+" "+dir, fmt.Sprintf("ok %x", dst2))
			}
			// arm64 NEON kernels: cannot be executed here; the REGENERATED arm64 listing runs under the value semantics
			// of SMGo/Model/ISAValArm64.lean (an unvalidated transcription of the Arm ARM) against the specification
			if it%10 == 0 {
				for _, n := range []int{1, 2, 4, 8, 16} {
					for _, alias := range []string{"disjoint", "inplace"} {
						inHex := fmt.Sprintf("%x", blocks[:16*n])
						sreq := "sm4.spec " + keyHex + " " + inHex + " " + dir
						areq := fmt.Sprintf("asm64.kernel %d %s %s", n, wordsHex(rk[:]), inHex)
						if alias == "inplace" {
							areq += " inplace"
						}
						cl := fmt.Sprintf("arm64-listing/X%d/%s/%s/%s", n, dir, alias, kp.name)
						c.Case("sm4.kernel.arm64", cl, false, areq)
						model, spec := c.drv.Ask(areq), c.drv.Ask(sreq)
						if model != spec {
							c.Disagree(Disagreement{Kind: "model!=spec", Class: cl, Request: areq, SpecReq: sreq, Model: model, Spec: spec, Stream: "sm4.kernel.arm64"})
						}
					}
				}
				if dir == "enc" {
					areq, sreq := "asm64.expandkey "+keyHex, "sm4.expand.spec "+keyHex
					c.Case("sm4.kernel.arm64", "arm64-listing/expandKeyAsm/"+kp.name, false, areq)
					model, spec := c.drv.Ask(areq), c.drv.Ask(sreq)
					if model != spec {
						c.Disagree(Disagreement{Kind: "model!=spec", Class: "arm64-listing/expandKeyAsm/" + kp.name, Request: areq, SpecReq: sreq, Model: model, Spec: spec, Stream: "sm4.kernel.arm64"})
					}
				}
			}
			if asmOK {
				for _, k := range sm4Kernels() {
					for _, alias := range []string{"disjoint", "inplace"} {
						src := append([]byte(nil), blocks[:16*k.n]...)
						dst := make([]byte, 16*k.n)
						if alias == "inplace" {
							dst = src
						}
						inHex := fmt.Sprintf("%x", blocks[:16*k.n])
						k.f(&rk[0], &dst[0], &src[0])
						cl := fmt.Sprintf("%s/%s/%s/%s", k.name, dir, alias, kp.name)
						// three-way: real CPU vs the interpreted listing of the kernel (value semantics of
						// SMGo/Model/ISAVal.lean run on the regenerated listing) vs the specification, block by block
						sreq := "sm4.spec " + keyHex + " " + inHex + " " + dir
						areq := fmt.Sprintf("asm.kernel %d %s %s", k.n, wordsHex(rk[:]), inHex)
						if alias == "inplace" {
							areq += " inplace"
						}
						if it >= 400 && it%8 != 0 {
							// thorough tier only (quick has 150 keys): the interpreter runs ~7 ms per kernel call, so
							// beyond the first 400 keys only every 8th key goes through the listing; the others are
							// compared with the specification alone, as before
							areq = sreq
						}
						c.Case("sm4.kernel", cl, false, areq)
						c.Check3("sm4.kernel", cl, areq, sreq, fmt.Sprintf("ok %x", dst))
					}
				}
			}
		}
		// public API, both paths; key slice overwritten after construction
		for _, accel := range []bool{true, false} {
			if accel && !asmOK {
				continue
			}
			sm4.VerifSetCandoAsm(accel)
			kcopy := append([]byte(nil), key...)
			blk, err := sm4.NewCipher(kcopy)
			// the same key BUFFER refilled for successive keys: a constructor that keeps a reference to the caller's
			// slice (or a cache compared against it) hands out the previous key's schedule here (seeded C05-c)
			ri := 0
			if accel {
				ri = 1
			}
			if c05ReuseBuf[ri] == nil {
				c05ReuseBuf[ri] = make([]byte, len(key))
			}
			if len(c05ReuseBuf[ri]) == len(key) {
				copy(c05ReuseBuf[ri], key)
				if blk2, err2 := sm4.NewCipher(c05ReuseBuf[ri]); err2 == nil {
					e3, d3, _ := sm4.VerifRoundKeys(blk2)
					cl2 := fmt.Sprintf("api/accel=%v/reused-key-buffer", accel)
					c.Case("sm4.api", cl2, false, "sm4.expand "+keyHex)
					c.Check3("sm4.api", cl2, "sm4.expand "+keyHex, "sm4.expand.spec "+keyHex, "ok "+wordsHex(e3[:])+" "+wordsHex(d3[:]))
				}
				// ... and CONSECUTIVE constructions from the buffer modified in place, nothing in between
				for j := 0; j < 3; j++ {
					c05ReuseBuf[ri][(it+5*j)%len(key)] ^= byte(0x5a + j)
					kh := fmt.Sprintf("%x", c05ReuseBuf[ri])
					if blk3, err3 := sm4.NewCipher(c05ReuseBuf[ri]); err3 == nil {
						e4, d4, _ := sm4.VerifRoundKeys(blk3)
						cl3 := fmt.Sprintf("api/accel=%v/key-buffer-modified-in-place/%d", accel, j)
						c.Case("sm4.api", cl3, false, "sm4.expand "+kh)
						c.CheckSpec("sm4.api", cl3, "sm4.expand "+kh, "sm4.expand.spec "+kh, "ok "+wordsHex(e4[:])+" "+wordsHex(d4[:]))
					}
				}
			}
			sm4.VerifSetCandoAsm(asmOK)
			if err != nil {
				c.Disagree(Disagreement{Kind: "impl!=spec", Class: "newcipher-error", Request: "sm4.expand " + keyHex, Impl: "err", Spec: "ok", Stream: "sm4.api"})
				continue
			}
			for i := range kcopy {
				kcopy[i] ^= 0xa5
			}
			e2, d2, _ := sm4.VerifRoundKeys(blk)
			implExp := "ok " + wordsHex(e2[:]) + " " + wordsHex(d2[:])
			cl := fmt.Sprintf("api/accel=%v/%s", accel, kp.name)
			c.Case("sm4.api", cl+"/keys", false, "sm4.expand "+keyHex)
			c.Check3("sm4.api", cl+"/keys", "sm4.expand "+keyHex, "sm4.expand.spec "+keyHex, implExp)
			pt := c.rng.Bytes(16)
			ct := make([]byte, 16)
			blk.Encrypt(ct, pt)
			ptHex := fmt.Sprintf("%x", pt)
			c.Case("sm4.api", cl+"/enc", false, "sm4.block "+keyHex+" "+ptHex+" enc")
			c.Check3("sm4.api", cl+"/enc", "sm4.block "+keyHex+" "+ptHex+" enc", "sm4.spec "+keyHex+" "+ptHex+" enc", fmt.Sprintf("ok %x", ct))
			// decrypt in place
			ctHex := fmt.Sprintf("%x", ct)
			blk.Decrypt(ct, ct)
			c.Case("sm4.api", cl+"/dec-inplace", false, "sm4.block "+keyHex+" "+ctHex+" dec")
			c.Check3("sm4.api", cl+"/dec-inplace", "sm4.block "+keyHex+" "+ctHex+" dec", "sm4.spec "+keyHex+" "+ctHex+" dec", fmt.Sprintf("ok %x", ct))
			if string(ct) != string(pt) {
				c.Disagree(Disagreement{Kind: "impl!=spec", Class: cl + "/roundtrip", Request: "sm4.block " + keyHex + " " + ptHex + " enc", Impl: fmt.Sprintf("%x", ct), Spec: ptHex, Stream: "sm4.api"})
			}
		}
	}
	// every alignment of key, source and destination (a Go []byte has no alignment guarantee)
	if asmOK {
		key := c.rng.Bytes(16)
		keyHex := fmt.Sprintf("%x", key)
		for off := 0; off < 16; off++ {
			buf := make([]byte, 64)
			copy(buf[off:], key)
			impl := try(func() string {
				blk, err := sm4.NewCipher(buf[off : off+16])
				if err != nil {
					return "err"
				}
				e, d, _ := sm4.VerifRoundKeys(blk)
				return "ok " + wordsHex(e[:]) + " " + wordsHex(d[:])
			})
			cl := fmt.Sprintf("align/key+%d", off%4)
			c.Case("sm4.api", cl, false, "sm4.expand "+keyHex)
			c.Check3("sm4.api", cl, "sm4.expand "+keyHex, "sm4.expand.spec "+keyHex, impl)
		}
		var enc, dec [32]uint32
		sm4.VerifExpandKey(key, &enc, &dec)
		for _, k := range sm4Kernels() {
			for off := 1; off < 16; off += 3 {
				blocks := c.rng.Bytes(16 * k.n)
				sbuf := make([]byte, 16*k.n+32)
				dbuf := make([]byte, 16*k.n+32)
				copy(sbuf[off:], blocks)
				impl := try(func() string {
					k.f(&enc[0], &dbuf[(off*7)%16+1], &sbuf[off])
					return fmt.Sprintf("ok %x", dbuf[(off*7)%16+1:(off*7)%16+1+16*k.n])
				})
				sreq := "sm4.spec " + keyHex + " " + fmt.Sprintf("%x", blocks) + " enc"
				cl := fmt.Sprintf("%s/align/src+%d", k.name, off%4)
				c.Case("sm4.kernel", cl, false, sreq)
				c.Check3("sm4.kernel", cl, sreq, sreq, impl)
			}
		}
	}
	// key lengths
	for _, accel := range []bool{true, false} {
		if accel && !asmOK {
			continue
		}
		for l := 0; l <= 40; l++ {
			key := c.rng.Bytes(l)
			sm4.VerifSetCandoAsm(accel)
			var blk cipher.Block
			var err error
			impl := try(func() string {
				blk, err = sm4.NewCipher(key)
				if err != nil {
					return "err"
				}
				e, d, _ := sm4.VerifRoundKeys(blk)
				return "ok " + wordsHex(e[:]) + " " + wordsHex(d[:])
			})
			sm4.VerifSetCandoAsm(asmOK)
			cl := fmt.Sprintf("keylen/accel=%v/%v", accel, l == 16)
			req := "sm4.expand " + hexOrDash(key)
			c.Case("sm4.api", cl, false, req)
			c.Check3("sm4.api", cl, req, "sm4.expand.spec "+hexOrDash(key), impl)
		}
	}
}

func init() {
	runners["C05"] = func(c *Ctx) {
		runC05(c)
		// the GCM assembly routines, listing vs CPU vs specification (asmval.go)
		rule := c.res.Rule
		runAsmValGCM(c)
		// the cipher.Block wrappers on overlapping sub-slices (sm4wrap.go; Props/C05Wrap.lean is built by this check)
		runSM4Wrap(c)
		c.res.Rule = rule + " || GCM routines: listing vs CPU vs specification || Block wrappers: every offset pair 0..20 x lens x caps of dst/src sub-slices of one buffer, both paths, both directions"
	}
}
