package main

// Stream sm4.wrap (part of property C10, also selectable alone as -property C10wrap): the cipher.Block
// wrappers of SM4 — (*sm4Cipher).Encrypt/Decrypt of sm4.go and (*sm4CipherAsm).Encrypt/Decrypt of
// sm4_asm.go — on sub-slices of ONE backing buffer, three-way:
//
//	impl  : the real call (panics recovered), outcome + the whole backing buffer afterwards
//	model : `sm4.wrap …`, the wrappers run statement by statement on the Lean slice heap (Model/SM4Wrap.lean,
//	        theorems in Props/C05Wrap.lean)
//	spec  : `sm4.wrap.spec …`, the contract written over the specification: panic iff a length < 16, else
//	        buf[dst.off:dst.off+16] = SM4(buf[src.off:src.off+16] before the call), nothing else changed
//
// and, on a sample of the returning calls, dst[:16] against the plain block specification (`sm4.spec`).
// cryptoBlockX2 on slices (the body of encryptX2/decryptX2, which have no hook: the harness forms
// src[:32], dst[:32] itself and calls the hook VerifCryptoBlockX2) runs as op x2enc/x2dec.

import (
	"crypto/cipher"
	"fmt"
	"runtime/debug"
	"strings"

	"github.com/bilibili/smgo/sm4"
)

// wslice describes a sub-slice buf[off : off+l : off+c] of the backing buffer, or nil.
type wslice struct {
	isNil     bool
	off, l, c int
}

func (s wslice) String() string {
	if s.isNil {
		return "nil"
	}
	return fmt.Sprintf("%d:%d:%d", s.off, s.l, s.c)
}

func (s wslice) of(buf []byte) []byte {
	if s.isNil {
		return nil
	}
	return buf[s.off : s.off+s.l : s.off+s.c]
}

func parseWslice(f string, bufLen int) (wslice, bool) {
	if f == "nil" {
		return wslice{isNil: true}, true
	}
	var s wslice
	if n, err := fmt.Sscanf(f, "%d:%d:%d", &s.off, &s.l, &s.c); n != 3 || err != nil {
		return s, false
	}
	if s.off < 0 || s.l < 0 || s.l > s.c || s.off+s.c > bufLen {
		return s, false
	}
	return s, true
}

// sm4wrapCipher builds the cipher of one path; ok=false when that path does not exist on this machine.
func sm4wrapCipher(path string, key []byte) (cipher.Block, bool) {
	switch path {
	case "go":
		blk, err := sm4.VerifNewCipherGeneric(key)
		return blk, err == nil && fmt.Sprintf("%T", blk) == "*sm4.sm4Cipher"
	case "asm":
		if !sm4.VerifCandoAsm() {
			return nil, false
		}
		blk, err := sm4.NewCipher(key)
		return blk, err == nil && fmt.Sprintf("%T", blk) == "*sm4.sm4CipherAsm"
	}
	return nil, false
}

// sm4wrapImpl runs the real code on a private copy of buf: "panic" or "ok <buf afterwards>".
func sm4wrapImpl(path, op string, key, buf0 []byte, dst, src wslice) (string, bool) {
	buf := append([]byte(nil), buf0...)
	d, s := dst.of(buf), src.of(buf)
	keyCopy := append([]byte(nil), key...)
	switch op {
	case "enc", "dec":
		blk, ok := sm4wrapCipher(path, keyCopy)
		if !ok {
			return "", false
		}
		return try(func() string {
			if op == "enc" {
				blk.Encrypt(d, s)
			} else {
				blk.Decrypt(d, s)
			}
			return fmt.Sprintf("ok %x", buf)
		}), true
	case "x2enc", "x2dec":
		if path != "go" {
			return "", false
		}
		var enc, dec [32]uint32
		sm4.VerifExpandKey(keyCopy, &enc, &dec)
		rk := &enc
		if op == "x2dec" {
			rk = &dec
		}
		return try(func() string {
			// the body of encryptX2/decryptX2: cryptoBlockX2(src[:BlockSize<<1], dst[:BlockSize<<1], &sm4.enc)
			sm4.VerifCryptoBlockX2(s[:sm4.BlockSize<<1], d[:sm4.BlockSize<<1], rk)
			return fmt.Sprintf("ok %x", buf)
		}), true
	}
	return "", false
}

func sm4wrapRequest(path, op string, key, buf []byte, dst, src wslice) string {
	return fmt.Sprintf("sm4.wrap %s %s %x %x %s %s", path, op, key, buf, dst, src)
}

// sm4wrapFromRequest re-runs the real code from a request line.
func sm4wrapFromRequest(req string) (string, bool) {
	f := strings.Fields(req)
	if len(f) != 7 || f[0] != "sm4.wrap" {
		return "", false
	}
	key, buf := parseHexNil(f[3]), parseHexNil(f[4])
	dst, ok1 := parseWslice(f[5], len(buf))
	src, ok2 := parseWslice(f[6], len(buf))
	if len(key) != 16 || !ok1 || !ok2 {
		return "", false
	}
	return sm4wrapImpl(f[1], f[2], key, buf, dst, src)
}

func sm4wrapReplay(c *Ctx, d Disagreement) {
	impl, ok := sm4wrapFromRequest(d.Request)
	if !ok {
		impl = d.Impl
		c.res.Notes = append(c.res.Notes, "replay: sm4.wrap request cannot be re-run here (path missing on this machine?); the recorded implementation answer is compared")
	}
	c.Case("sm4.wrap", d.Class, false, d.Request)
	c.Check3("sm4.wrap", d.Class, d.Request, "sm4.wrap.spec"+strings.TrimPrefix(d.Request, "sm4.wrap"), impl)
}

func runSM4Wrap(c *Ctx) {
	debug.SetPanicOnFault(true)
	rule := "sm4.wrap: Block.Encrypt/Decrypt on dst, src = sub-slices of one 64-byte buffer at every pair of offsets 0..20, lens {0,1,15,16,17,32}, capacities {len, len+5, to the end of the buffer} (rotating; all nine combinations in the thorough tier; in the quick tier the shapes that must panic run on one rotating (path, op) combination, the others on all four), nil slices, portable path (VerifNewCipherGeneric) and accelerated path (NewCipher), exact / partial / no overlap; outcome and the whole buffer afterwards three-way against the wrappers on the Lean slice heap and the contract over the specification; a sample of dst[:16] against the block specification; cryptoBlockX2 on src[:32], dst[:32] likewise; class = (op, path, overlap of dst[0:16) and src[0:16), len class of dst, of src, spare capacity, outcome)"
	if c.res.Rule == "" {
		c.res.Rule = rule
	} else {
		c.res.Rule += "; " + rule
	}
	const bufLen = 64
	paths := []string{"go"}
	if _, ok := sm4wrapCipher("asm", make([]byte, 16)); ok {
		paths = append(paths, "asm")
	} else {
		c.res.Notes = append(c.res.Notes, "sm4.wrap: the accelerated path (sm4CipherAsm) is not available on this machine; portable path only")
	}
	lens := []int{0, 1, 15, 16, 17, 32}
	lcls := func(l int) string {
		switch {
		case l < 16:
			return "short"
		case l == 16:
			return "16"
		}
		return "long"
	}
	overlap := func(d, s wslice) string {
		if d.isNil || s.isNil {
			return "nil"
		}
		switch {
		case d.off == s.off:
			return "exact"
		case d.off-s.off < 16 && s.off-d.off < 16:
			return "partial"
		}
		return "disjoint"
	}
	capOf := func(off, l, variant int) int {
		rest := bufLen - off
		switch variant {
		case 0:
			return l
		case 1:
			if l+5 <= rest {
				return l + 5
			}
			return rest
		}
		return rest
	}
	keys := [][]byte{parseHexNil("0123456789abcdeffedcba9876543210"), c.rng.Bytes(16), c.rng.Bytes(16)}
	n := 0
	one := func(path, op string, dst, src wslice) {
		n++
		key := keys[n%len(keys)]
		buf := c.rng.Bytes(bufLen)
		impl, ok := sm4wrapImpl(path, op, key, buf, dst, src)
		if !ok {
			return
		}
		req := sm4wrapRequest(path, op, key, buf, dst, src)
		spare := "tight"
		if dst.c > dst.l || src.c > src.l {
			spare = "spare"
		}
		outcome := "ok"
		if impl == "panic" {
			outcome = "panic"
		}
		cl := fmt.Sprintf("sm4.wrap/%s/%s/%s/dst-%s/src-%s/%s/%s", op, path, overlap(dst, src), lcls(dst.l), lcls(src.l), spare, outcome)
		c.Case("sm4.wrap", cl, false, req)
		if !c.Check3("sm4.wrap", cl, req, "sm4.wrap.spec"+strings.TrimPrefix(req, "sm4.wrap"), impl) {
			return
		}
		// a sample of the returning one-block calls: dst[:16] afterwards against the block specification alone
		if outcome == "ok" && (op == "enc" || op == "dec") && n%16 == 0 {
			var after []byte
			fmt.Sscanf(impl[3:], "%x", &after)
			sreq := fmt.Sprintf("sm4.spec %x %x %s", key, buf[src.off:src.off+16], op)
			c.Case("sm4.wrap.block", fmt.Sprintf("sm4.wrap.block/%s/%s/%s", op, path, overlap(dst, src)), false, sreq)
			c.CheckSpec("sm4.wrap.block", cl, req, sreq, fmt.Sprintf("ok %x", after[dst.off:dst.off+16]))
		}
	}
	variants := [][2]int{{0, 0}}
	rot := 0
	for dOff := 0; dOff <= 20; dOff++ {
		for sOff := 0; sOff <= 20; sOff++ {
			for _, dl := range lens {
				for _, sl := range lens {
					if c.tier == "thorough" {
						variants = variants[:0]
						for v := 0; v < 9; v++ {
							variants = append(variants, [2]int{v / 3, v % 3})
						}
					} else {
						rot++
						variants[0] = [2]int{rot % 3, (rot / 3) % 3}
					}
					for _, v := range variants {
						dst := wslice{off: dOff, l: dl, c: capOf(dOff, dl, v[0])}
						src := wslice{off: sOff, l: sl, c: capOf(sOff, sl, v[1])}
						if c.tier != "thorough" && (dl < 16 || sl < 16) {
							// quick tier: a call that must panic runs on one (path, op) combination, rotating
							one(paths[rot%len(paths)], []string{"enc", "dec"}[(rot/2)%2], dst, src)
							continue
						}
						for _, path := range paths {
							for _, op := range []string{"enc", "dec"} {
								one(path, op, dst, src)
							}
						}
					}
				}
			}
		}
	}
	// nil and empty slices
	full := wslice{off: 3, l: 32, c: 40}
	empty := wslice{off: 5, l: 0, c: 0}
	for _, path := range paths {
		for _, op := range []string{"enc", "dec"} {
			for _, p := range [][2]wslice{{{isNil: true}, full}, {full, {isNil: true}}, {{isNil: true}, {isNil: true}}, {empty, full}, {full, empty}, {empty, {isNil: true}}} {
				one(path, op, p[0], p[1])
			}
		}
	}
	// cryptoBlockX2 behind src[:32], dst[:32]: bounded by the capacities, not the lengths
	x2offs := []int{0, 1, 4, 16, 17, 20, 32}
	if c.tier == "thorough" {
		x2offs = x2offs[:0]
		for i := 0; i <= 32; i++ {
			x2offs = append(x2offs, i)
		}
	}
	for _, dOff := range x2offs {
		for _, sOff := range x2offs {
			for _, dl := range lens {
				for _, sl := range lens {
					rot++
					dst := wslice{off: dOff, l: dl, c: capOf(dOff, dl, rot%3)}
					src := wslice{off: sOff, l: sl, c: capOf(sOff, sl, (rot/3)%3)}
					for _, op := range []string{"x2enc", "x2dec"} {
						one("go", op, dst, src)
					}
				}
			}
		}
	}
	for _, op := range []string{"x2enc", "x2dec"} {
		one("go", op, wslice{isNil: true}, full)
		one("go", op, full, wslice{isNil: true})
	}
}

func init() {
	runners["C10wrap"] = runSM4Wrap
	replayers["C10wrap"] = sm4wrapReplay
	// replays of property C10: sm4.wrap requests re-run the real wrappers, everything else as before
	replayers["C10"] = func(c *Ctx, d Disagreement) {
		if strings.HasPrefix(d.Request, "sm4.wrap ") {
			sm4wrapReplay(c, d)
			return
		}
		genericReplay(c, d)
	}
}
