package main

import (
	"fmt"
	"math/big"

	"github.com/bilibili/smgo/sm2"
)

func runC16(c *Ctx) {
	c.res.Rule = "per modulus (p, n) and operation (mul square add sub opp tomont frommont selectznz0/1 one invert): operands with limbs drawn from {0,1,2^32-1,2^32,2^63,2^64-1, limbs of p, limbs of n} in all positions, p-1, n-1, m-1, m-2 and uniform canonical values; non-canonical operands (>= m) are compared with the generated model only; byte conversion round trips and SetBytes rejection via the element wrappers; composition (gap X1): SignHashed, DerivePublic, VerifyHashed (valid, corrupted, bad key) and point Add/Double (generic, doubling, inverse, infinity; random projective representatives) of the real code against the limb-level model ctxFiat = generated Fiat functions under the point/curve/protocol models; class = (field, op, operand pattern) resp. (entry point, outcome)"
	nRand := 300
	if c.tier == "thorough" {
		nRand = 20000
	}
	crit := []uint64{0, 1, 0xffffffff, 0x100000000, 1 << 63, ^uint64(0), 0xfffffffeffffffff, 0xffffffff00000000, 0x7203df6b21c6052b, 0x53bbf40939d54123}
	mods := map[string]*big.Int{"p": curveP, "n": curveN}
	ops2 := []string{"mul", "add", "sub", "selectznz0", "selectznz1"}
	ops1 := []string{"square", "opp", "tomont", "frommont", "invert"}
	call := func(fld, op string, a, b [4]uint64) string {
		return try(func() string {
			var out [4]uint64
			if fld == "p" {
				out = sm2.VerifFieldOp(op, &a, &b)
			} else {
				out = sm2.VerifScalarOp(op, &a, &b)
			}
			return "ok " + limbsHex(out)
		})
	}
	canon := func(fld string, l [4]uint64) bool {
		v := new(big.Int)
		for i := 3; i >= 0; i-- {
			v.Lsh(v, 64)
			v.Or(v, new(big.Int).SetUint64(l[i]))
		}
		return v.Cmp(mods[fld]) < 0
	}
	do := func(fld, op, pat string, a, b [4]uint64) {
		impl := call(fld, op, a, b)
		req := fmt.Sprintf("fiat %s %s %s %s", fld, op, limbsHex(a), limbsHex(b))
		sreq := fmt.Sprintf("fiat.spec %s %s %s %s", fld, op, limbsHex(a), limbsHex(b))
		cl := fld + "/" + op + "/" + pat
		isCanon := canon(fld, a) && canon(fld, b)
		if !isCanon {
			sreq = ""
			cl += "/noncanon"
		}
		c.Case("fiat", cl, pat == "uniform" && isCanon, req)
		c.Check3("fiat", cl, req, sreq, impl)
	}
	for fld, m := range mods {
		// critical-limb patterns
		for i := 0; i < 4; i++ {
			for _, v := range crit {
				var a, b [4]uint64
				a[i] = v
				b = limbsOf(new(big.Int).Sub(m, big.NewInt(1)))
				for _, op := range ops2 {
					do(fld, op, "crit1", a, b)
					do(fld, op, "crit1r", b, a)
				}
				for _, op := range ops1 {
					if op == "invert" && (i != 0 || v > 1) {
						continue
					}
					do(fld, op, "crit1", a, a)
				}
			}
		}
		for it := 0; it < 200; it++ {
			var a, b [4]uint64
			for i := 0; i < 4; i++ {
				a[i] = crit[c.rng.Intn(len(crit))]
				b[i] = crit[c.rng.Intn(len(crit))]
			}
			for _, op := range ops2 {
				do(fld, op, "critmix", a, b)
			}
			for _, op := range ops1[:4] {
				do(fld, op, "critmix", a, a)
			}
		}
		for _, d := range []int64{1, 2, 3} {
			a := limbsOf(new(big.Int).Sub(m, big.NewInt(d)))
			for _, e := range []int64{1, 2} {
				b := limbsOf(new(big.Int).Sub(m, big.NewInt(e)))
				for _, op := range ops2 {
					do(fld, op, "m-k", a, b)
				}
			}
			for _, op := range ops1 {
				do(fld, op, "m-k", a, a)
			}
		}
		do(fld, "one", "const", [4]uint64{}, [4]uint64{})
		do(fld, "invert", "zero", [4]uint64{}, [4]uint64{})
		for it := 0; it < nRand; it++ {
			a := limbsOf(new(big.Int).Mod(new(big.Int).SetBytes(c.rng.Bytes(40)), m))
			b := limbsOf(new(big.Int).Mod(new(big.Int).SetBytes(c.rng.Bytes(40)), m))
			for _, op := range ops2 {
				do(fld, op, "uniform", a, b)
			}
			for _, op := range ops1[:4] {
				do(fld, op, "uniform", a, a)
			}
			if it%10 == 0 {
				do(fld, "invert", "uniform", a, a)
			}
		}
	}
	// element wrappers: SetBytes / Bytes (decoding strictness, round trip) through the point decoder
	for it := 0; it < 200; it++ {
		var v *big.Int
		switch it % 5 {
		case 0:
			v = new(big.Int).Add(curveP, big.NewInt(int64(it/5)-3))
		case 1:
			v = new(big.Int).SetBytes(c.rng.Bytes(32))
		case 2:
			v = new(big.Int).Lsh(big.NewInt(1), 256)
			v.Sub(v, big.NewInt(int64(1+it/5)))
		case 3:
			v = big.NewInt(int64(it / 5))
		default:
			v = new(big.Int).Sub(curveP, new(big.Int).SetBytes(c.rng.Bytes(1+c.rng.Intn(20))))
		}
		if v.Sign() < 0 || v.BitLen() > 256 {
			continue
		}
		x := be32(v)
		impl := try(func() string {
			e, err := new(sm2.VerifElement).SetBytes(x)
			if err != nil {
				return "err"
			}
			return fmt.Sprintf("ok %x", e.Bytes())
		})
		req := fmt.Sprintf("fe.setbytes p %x", x)
		cl := "wrapper/setbytes/" + map[bool]string{true: "canon", false: "noncanon"}[v.Cmp(curveP) < 0]
		c.Case("fe.setbytes", cl, false, req)
		c.Check3("fe.setbytes", cl, req, fmt.Sprintf("fe.setbytes.spec p %x", x), impl)
	}
	// scalar-field wrapper: decoding must reject exactly the values >= n (in particular n..p-1, which the
	// coordinate field would accept)
	for it := 0; it < 240; it++ {
		var v *big.Int
		switch it % 6 {
		case 0:
			v = new(big.Int).Add(curveN, big.NewInt(int64(it/6)-4))
		case 1:
			v = new(big.Int).SetBytes(c.rng.Bytes(32))
		case 2: // between n and p
			v = new(big.Int).Add(curveN, new(big.Int).SetBytes(c.rng.Bytes(1+c.rng.Intn(15))))
		case 3:
			v = new(big.Int).Add(curveP, big.NewInt(int64(it/6)-4))
		case 4:
			v = big.NewInt(int64(it / 6))
		default:
			v = new(big.Int).Sub(curveN, new(big.Int).SetBytes(c.rng.Bytes(1+c.rng.Intn(20))))
		}
		if v.Sign() < 0 || v.BitLen() > 256 {
			continue
		}
		x := be32(v)
		impl := try(func() string {
			e, err := new(sm2.VerifScalarElement).SetBytes(x)
			if err != nil {
				return "err"
			}
			return fmt.Sprintf("ok %x", e.Bytes())
		})
		req := fmt.Sprintf("fe.setbytes n %x", x)
		cl := "wrapper/scalar-setbytes/"
		switch {
		case v.Cmp(curveN) < 0:
			cl += "canon"
		case v.Cmp(curveP) < 0:
			cl += "n<=v<p"
		default:
			cl += "v>=p"
		}
		c.Case("fe.setbytes", cl, false, req)
		c.Check3("fe.setbytes", cl, req, fmt.Sprintf("fe.setbytes.spec n %x", x), impl)
	}
	for l := 0; l <= 40; l++ {
		if l == 32 {
			continue
		}
		x := c.rng.Bytes(l)
		impl := try(func() string {
			e, err := new(sm2.VerifElement).SetBytes(x)
			if err != nil {
				return "err"
			}
			return fmt.Sprintf("ok %x", e.Bytes())
		})
		req := "fe.setbytes p " + hexOrDash(x)
		c.Case("fe.setbytes", "wrapper/setbytes/len", false, req)
		c.Check3("fe.setbytes", "wrapper/setbytes/len", req, "fe.setbytes.spec p "+hexOrDash(x), impl)
	}
	runC16Wrap(c, crit)
	runC16Compose(c)
}

// runC16Compose runs the LIMB-LEVEL model (Model.SM2.ctxFiat: the regenerated Fiat functions under the
// models of the point, curve and protocol layers; Props/SM2Fiat.lean proves it equal to the residue-level
// model at the protocol level) against the real code: signatures, verifications, key derivations and
// point additions/doublings with exact projective limbs.  Small counts: the limb-level model is slower.
func runC16Compose(c *Ctx) {
	nSig, nPts := 8, 6
	if c.tier == "thorough" {
		nSig, nPts = 60, 40
	}
	keys := []keyPair{mkKey(big.NewInt(1)), mkKey(new(big.Int).Sub(curveN, big.NewInt(2)))}
	for i := 0; i < nSig; i++ {
		keys = append(keys, randKey(c))
	}
	for i, kp := range keys {
		e := c.rng.Bytes(32)
		// a rejected candidate (k >= n, k = 0) before the good one in every other stream
		chunks := [][]byte{be32(randK(c))}
		if i%2 == 1 {
			chunks = [][]byte{be32(new(big.Int).Add(curveN, big.NewInt(int64(i)))), make([]byte, 32), be32(randK(c))}
		}
		script := dataScript(chunks...)
		impl := implSignHashed(script, kp.priv, e)
		req := fmt.Sprintf("sm2.sign.fiat %x %x %s", kp.priv, e, scriptString(script))
		cl := fmt.Sprintf("compose/sign/%s", signClass(impl))
		c.Case("sm2.sign.fiat", cl, false, req)
		c.CheckModel("sm2.sign.fiat", cl, req, impl)
		// key derivation through the limb-level comb and the generated inversion chain
		dreq := fmt.Sprintf("sm2.derive.fiat %x", kp.priv)
		c.Case("sm2.derive.fiat", "compose/derive", false, dreq)
		c.CheckModel("sm2.derive.fiat", "compose/derive", dreq, implDerive(kp.priv))
		// verification of that signature, and of a corrupted one
		var rh, sh string
		var n int
		if k, _ := fmt.Sscanf(impl, "ok %s %s %d", &rh, &sh, &n); k == 3 {
			r, s := parseHexNil(rh), parseHexNil(sh)
			for _, mut := range []string{"valid", "flip-s", "flip-e"} {
				r2, s2, e2 := r, append([]byte{}, s...), append([]byte{}, e...)
				switch mut {
				case "flip-s":
					s2[31] ^= 1
				case "flip-e":
					e2[c.rng.Intn(32)] ^= 0x10
				}
				if mut != "valid" && i%3 != 0 {
					continue
				}
				vimpl := implVerifyHashed(kp.px, kp.py, e2, r2, s2)
				vreq := fmt.Sprintf("sm2.verify.fiat %x %x %x %x %x", kp.px, kp.py, e2, r2, s2)
				vcl := "compose/verify/" + mut + "/" + vimpl
				c.Case("sm2.verify.fiat", vcl, false, vreq)
				c.CheckModel("sm2.verify.fiat", vcl, vreq, vimpl)
			}
		}
	}
	// off-curve / non-canonical public keys are refused before any arithmetic
	{
		kp := randKey(c)
		e, r, s := c.rng.Bytes(32), be32(randK(c)), be32(randK(c))
		bad := append([]byte{}, kp.py...)
		bad[31] ^= 1
		for _, py := range [][]byte{bad, be32(new(big.Int).Sub(new(big.Int).Lsh(big.NewInt(1), 256), big.NewInt(1)))} {
			vimpl := implVerifyHashed(kp.px, py, e, r, s)
			vreq := fmt.Sprintf("sm2.verify.fiat %x %x %x %x %x", kp.px, py, e, r, s)
			c.Case("sm2.verify.fiat", "compose/verify/badkey/"+vimpl, false, vreq)
			c.CheckModel("sm2.verify.fiat", "compose/verify/badkey/"+vimpl, vreq, vimpl)
		}
	}
	// point layer: exact projective limbs of Add / Double on random representatives, incl. the special cases
	G := affG()
	for it := 0; it < nPts; it++ {
		R := affMul(new(big.Int).SetBytes(c.rng.Bytes(32)), G)
		S := affMul(new(big.Int).SetBytes(c.rng.Bytes(32)), G)
		negR := affPt{x: R.x, y: new(big.Int).Sub(curveP, R.y)}
		pairs := []struct {
			name string
			a, b affPt
		}{{"R+S", R, S}, {"R+R", R, R}, {"R-R", R, negR}, {"O+R", affPt{inf: true}, R}, {"R+O", R, affPt{inf: true}}, {"G+R", G, R}}
		for _, pr := range pairs {
			p1, p2 := pointFromAff(pr.a), pointFromAff(pr.b)
			if it%2 == 1 {
				p1, p2 = scaleZ(c, p1), scaleZ(c, p2)
			}
			in1, in2 := ptHex(p1), ptHex(p2)
			impl := try(func() string { return "ok " + ptHex(sm2.VerifNewPoint().Add(p1, p2)) })
			req := "pt.add.fiat " + in1 + " " + in2
			c.Case("pt.add.fiat", "compose/add/"+pr.name, false, req)
			c.CheckModel("pt.add.fiat", "compose/add/"+pr.name, req, impl)
		}
		p1 := scaleZ(c, pointFromAff(R))
		in1 := ptHex(p1)
		impl := try(func() string { return "ok " + ptHex(sm2.VerifNewPoint().Double(p1)) })
		c.Case("pt.double.fiat", "compose/double", false, "pt.double.fiat "+in1)
		c.CheckModel("pt.double.fiat", "compose/double", "pt.double.fiat "+in1, impl)
	}
}

func init() { runners["C16"] = runC16 }

// runC16Wrap: the element WRAPPERS of sm2_element.go / sm2_scalar_element.go (hand-written model Model/Field.lean) on
// raw limb patterns: IsZero, Equal, Select and the arithmetic methods with every aliasing of receiver and operands
// (the Lean models are value-level; aliasing safety is structural + this run). Expectations are computed here:
// IsZero = all limbs zero, Equal = same limbs (canonical operands), Select = a or b, aliased call = fresh call.
func runC16Wrap(c *Ctx, crit []uint64) {
	mods := map[string]*big.Int{"p": curveP, "n": curveN}
	canon := func(fld string, l [4]uint64) bool {
		v := new(big.Int)
		for i := 3; i >= 0; i-- {
			v.Lsh(v, 64)
			v.Or(v, new(big.Int).SetUint64(l[i]))
		}
		return v.Cmp(mods[fld]) < 0
	}
	report := func(cl, req, got, want string) {
		c.Case("fe.wrap", cl, false, req)
		if got != want {
			c.Disagree(Disagreement{Kind: "impl!=spec", Class: cl, Request: req, Impl: got, Spec: want, Stream: "fe.wrap"})
		}
	}
	mkP := func(l [4]uint64) *sm2.VerifElement { return new(sm2.VerifElement).SetRaw(l) }
	mkN := func(l [4]uint64) *sm2.VerifScalarElement {
		e := new(sm2.VerifScalarElement)
		*e.VerifRaw() = l
		return e
	}
	b2i := func(b bool) int {
		if b {
			return 1
		}
		return 0
	}
	one := func(fld, pat string, a, b [4]uint64) {
		if !canon(fld, a) || !canon(fld, b) {
			return
		}
		req := fmt.Sprintf("fe.wrap %s %s %s", fld, limbsHex(a), limbsHex(b))
		zero := a == [4]uint64{}
		if fld == "p" {
			report(fld+"/iszero/"+pat, req, fmt.Sprint(mkP(a).IsZero()), fmt.Sprint(b2i(zero)))
			report(fld+"/equal/"+pat, req, fmt.Sprint(mkP(a).Equal(mkP(b))), fmt.Sprint(b2i(a == b)))
			report(fld+"/equal-self/"+pat, req, fmt.Sprint(mkP(a).Equal(mkP(a))), "1")
			for cond := 0; cond <= 1; cond++ {
				want := b
				if cond == 1 {
					want = a
				}
				ea, eb := mkP(a), mkP(b)
				report(fld+"/select/fresh/"+pat, req, limbsHex(*new(sm2.VerifElement).Select(ea, eb, cond).GetRaw()), limbsHex(want))
				ea, eb = mkP(a), mkP(b)
				report(fld+"/select/recv=a/"+pat, req, limbsHex(*ea.Select(ea, eb, cond).GetRaw()), limbsHex(want))
				ea, eb = mkP(a), mkP(b)
				report(fld+"/select/recv=b/"+pat, req, limbsHex(*eb.Select(ea, eb, cond).GetRaw()), limbsHex(want))
			}
			type bin struct {
				name string
				f    func(r, x, y *sm2.VerifElement) *sm2.VerifElement
			}
			for _, op := range []bin{
				{"mul", func(r, x, y *sm2.VerifElement) *sm2.VerifElement { return r.Mul(x, y) }},
				{"add", func(r, x, y *sm2.VerifElement) *sm2.VerifElement { return r.Add(x, y) }},
				{"sub", func(r, x, y *sm2.VerifElement) *sm2.VerifElement { return r.Sub(x, y) }},
			} {
				fresh := limbsHex(*op.f(new(sm2.VerifElement), mkP(a), mkP(b)).GetRaw())
				ea, eb := mkP(a), mkP(b)
				report(fld+"/"+op.name+"/recv=x/"+pat, req, limbsHex(*op.f(ea, ea, eb).GetRaw()), fresh)
				ea, eb = mkP(a), mkP(b)
				report(fld+"/"+op.name+"/recv=y/"+pat, req, limbsHex(*op.f(eb, ea, eb).GetRaw()), fresh)
				ea = mkP(a)
				freshSelf := limbsHex(*op.f(new(sm2.VerifElement), mkP(a), mkP(a)).GetRaw())
				report(fld+"/"+op.name+"/recv=x=y/"+pat, req, limbsHex(*op.f(ea, ea, ea).GetRaw()), freshSelf)
			}
			ea := mkP(a)
			report(fld+"/square/recv=x/"+pat, req, limbsHex(*ea.Square(ea).GetRaw()), limbsHex(*new(sm2.VerifElement).Square(mkP(a)).GetRaw()))
			ea = mkP(a)
			report(fld+"/opp/recv=x/"+pat, req, limbsHex(*ea.Opp(ea).GetRaw()), limbsHex(*new(sm2.VerifElement).Opp(mkP(a)).GetRaw()))
			return
		}
		report(fld+"/iszero/"+pat, req, fmt.Sprint(mkN(a).IsZero()), fmt.Sprint(b2i(zero)))
		report(fld+"/equal/"+pat, req, fmt.Sprint(mkN(a).Equal(mkN(b))), fmt.Sprint(b2i(a == b)))
		report(fld+"/equal-self/"+pat, req, fmt.Sprint(mkN(a).Equal(mkN(a))), "1")
		for cond := 0; cond <= 1; cond++ {
			want := b
			if cond == 1 {
				want = a
			}
			ea, eb := mkN(a), mkN(b)
			report(fld+"/select/fresh/"+pat, req, limbsHex(*new(sm2.VerifScalarElement).Select(ea, eb, cond).VerifRaw()), limbsHex(want))
			ea, eb = mkN(a), mkN(b)
			report(fld+"/select/recv=a/"+pat, req, limbsHex(*ea.Select(ea, eb, cond).VerifRaw()), limbsHex(want))
			ea, eb = mkN(a), mkN(b)
			report(fld+"/select/recv=b/"+pat, req, limbsHex(*eb.Select(ea, eb, cond).VerifRaw()), limbsHex(want))
		}
		fresh := limbsHex(*new(sm2.VerifScalarElement).Mul(mkN(a), mkN(b)).VerifRaw())
		ea, eb := mkN(a), mkN(b)
		report(fld+"/mul/recv=x/"+pat, req, limbsHex(*ea.Mul(ea, eb).VerifRaw()), fresh)
		ea, eb = mkN(a), mkN(b)
		report(fld+"/mul/recv=y/"+pat, req, limbsHex(*eb.Mul(ea, eb).VerifRaw()), fresh)
	}
	for _, fld := range []string{"p", "n"} {
		m := mods[fld]
		for i := 0; i < 4; i++ {
			for _, v := range crit {
				var a [4]uint64
				a[i] = v
				one(fld, "crit1", a, limbsOf(new(big.Int).Sub(m, big.NewInt(1))))
				one(fld, "crit1", a, a)
				one(fld, "crit1", a, [4]uint64{})
			}
		}
		for it := 0; it < 200; it++ {
			var a, b [4]uint64
			for i := 0; i < 4; i++ {
				a[i] = crit[c.rng.Intn(len(crit))]
				b[i] = crit[c.rng.Intn(len(crit))]
			}
			one(fld, "critmix", a, b)
		}
		// limbs whose low / high halves vanish (a 64-bit test narrowed to 32 bits sees zero: seeded C15-c)
		for it := 0; it < 60; it++ {
			var a, b [4]uint64
			for i := 0; i < 4; i++ {
				a[i] = uint64(c.rng.Intn(1<<30)) << 32
				b[i] = uint64(c.rng.Intn(1 << 30))
				if it%3 == 0 && i != it%4 {
					a[i], b[i] = 0, 0
				}
			}
			a[3] &= 0x7fffffff00000000
			one(fld, "low-halves-zero", a, b)
			one(fld, "high-halves-zero", b, a)
		}
		for it := 0; it < 100; it++ {
			a := limbsOf(new(big.Int).Mod(new(big.Int).SetBytes(c.rng.Bytes(40)), m))
			b := limbsOf(new(big.Int).Mod(new(big.Int).SetBytes(c.rng.Bytes(40)), m))
			one(fld, "uniform", a, b)
		}
	}
}
