package main

import (
	"crypto/cipher"
	"encoding/binary"
	"fmt"

	"github.com/bilibili/smgo/sm4"
	"verifharness/arm64glue"
)

// ---- GF(2^128) in the GCM bit order, used only to *craft* nonces -------------------------------------

type gf128 struct{ hi, lo uint64 } // hi holds bytes 0..7 (big endian)

func gfFromBytes(b []byte) gf128 {
	return gf128{binary.BigEndian.Uint64(b[:8]), binary.BigEndian.Uint64(b[8:])}
}
func (x gf128) bytes() []byte {
	b := make([]byte, 16)
	binary.BigEndian.PutUint64(b, x.hi)
	binary.BigEndian.PutUint64(b[8:], x.lo)
	return b
}
func gfMul(x, y gf128) gf128 {
	var z gf128
	v := y
	for i := 0; i < 128; i++ {
		var bit uint64
		if i < 64 {
			bit = x.hi >> uint(63-i) & 1
		} else {
			bit = x.lo >> uint(127-i) & 1
		}
		if bit == 1 {
			z.hi ^= v.hi
			z.lo ^= v.lo
		}
		lsb := v.lo & 1
		v.lo = v.lo>>1 | v.hi<<63
		v.hi >>= 1
		if lsb == 1 {
			v.hi ^= 0xe1 << 56
		}
	}
	return z
}
func gfInv(x gf128) gf128 {
	// x^(2^128-2)
	r := gf128{1 << 63, 0} // the element "1" is bit 0 = MSB
	sq := x
	for i := 1; i < 128; i++ {
		sq = gfMul(sq, sq)
		r = gfMul(r, sq)
	}
	return r
}

type gcmPath struct {
	name string
	mk   func(key []byte, nonceSize, tagSize int) (cipher.AEAD, error)
}

type gcmAbleIface interface {
	NewGCM(nonceSize, tagSize int) (cipher.AEAD, error)
}

func gcmPaths() []gcmPath {
	asmOK := sm4.VerifCandoAsm()
	var ps []gcmPath
	if asmOK {
		ps = append(ps, gcmPath{"fused-asm", func(key []byte, ns, ts int) (cipher.AEAD, error) {
			blk, err := sm4.NewCipher(key)
			if err != nil {
				return nil, err
			}
			// what crypto/cipher does after validating the sizes: the cipher's own NewGCM
			if ts < 12 || ts > 16 || ns <= 0 {
				return nil, fmt.Errorf("sizes")
			}
			return blk.(gcmAbleIface).NewGCM(ns, ts)
		}})
	}
	// the Go glue of the arm64 path (sm4_gcm_arm64.go, copied from /repo on every run) over portable
	// stand-ins for the NEON/PMULL kernels: exercises the glue, not the kernels
	ps = append(ps, gcmPath{"arm64-glue", func(key []byte, ns, ts int) (cipher.AEAD, error) {
		if ts < 12 || ts > 16 || ns <= 0 {
			return nil, fmt.Errorf("sizes")
		}
		return arm64glue.NewAEAD(key, ns, ts)
	}})
	ps = append(ps, gcmPath{"stdlib-generic", func(key []byte, ns, ts int) (cipher.AEAD, error) {
		sm4.VerifSetCandoAsm(false)
		blk, err := sm4.NewCipher(key)
		sm4.VerifSetCandoAsm(asmOK)
		if err != nil {
			return nil, err
		}
		switch {
		case ns == 12 && ts == 16:
			return cipher.NewGCM(blk)
		case ts == 16:
			return cipher.NewGCMWithNonceSize(blk, ns)
		case ns == 12:
			return cipher.NewGCMWithTagSize(blk, ts)
		}
		return nil, nil // the standard library offers no constructor for both non-default sizes
	}})
	return ps
}

func lenClass(n int) string {
	switch {
	case n == 0:
		return "0"
	case n < 16:
		return "t"
	}
	s := ""
	r := n
	for _, k := range []int{256, 128, 64, 32, 16} {
		if r >= k {
			s += fmt.Sprintf("%d+", k)
			r %= k
			if k == 256 {
				r = n % 256
			}
		}
	}
	if n%16 != 0 {
		s += "t"
	}
	return s
}

func runC06(c *Ctx) {
	c.res.Rule = "Seal(nil, nonce, pt, aad) on every path (fused assembly; crypto/cipher generic mode over the portable cipher) against the Lean model of the fused algorithm (Model.GCM.seal: J0, lane counters, length classes, Karatsuba/reduction GHASH with 4-way aggregation) and against SP 800-38D over the SM4 specification, three-way on every case: every plaintext length 0..L with aad in {0,1,15,16,17,127,128,129,L}, every aad length 0..L with pt in {0,1,16,257}, nonce lengths 1..300, tag sizes 12..16, 16-byte nonces solved so that the initial counter is 2^32-k for k in 0..40 (counter wrap); L = 330 quick / 1100 thorough; class = (path, kernel mix of the plaintext length, aad class, nonce class, tag size); the RFC 8998 A.1 vector runs first"
	L := 330
	if c.tier == "thorough" {
		L = 1100
	}
	paths := gcmPaths()
	seal := func(cl string, key, nonce, aad, pt []byte, ts int) {
		args := fmt.Sprintf("%x %s %s %s %d", key, hexOrDash(nonce), hexOrDash(aad), hexOrDash(pt), ts)
		req, sreq := "gcm.seal "+args, "gcm.seal.spec "+args
		for _, p := range paths {
			a, err := p.mk(key, len(nonce), ts)
			if a == nil || err != nil {
				continue
			}
			ptc := append([]byte(nil), pt...)
			impl := try(func() string { return "ok " + hexOrDash(a.Seal(nil, nonce, ptc, aad)) })
			full := p.name + "/" + cl
			c.Case("gcm.seal", full, false, req)
			// implementation / model of the fused algorithm (Model.GCM.seal) / SP 800-38D (Spec.GCM.sealGCM)
			c.Check3("gcm.seal", full, req, sreq, impl)
			// the same call IN PLACE (dst = pt[:0], room for the tag behind the plaintext): must give the same bytes
			// (seeded C10-c: a tail built directly in dst zeroes plaintext bytes before they are read)
			buf := make([]byte, len(pt), len(pt)+ts)
			copy(buf, pt)
			implIn := try(func() string { return "ok " + hexOrDash(a.Seal(buf[:0], nonce, buf, aad)) })
			c.Case("gcm.seal", full+"/inplace", false, req)
			if implIn != impl {
				c.Disagree(Disagreement{Kind: "impl!=spec", Class: full + "/inplace", Request: req, Impl: implIn, Spec: impl + " (the same call with dst = nil, checked three-way)", Stream: "gcm.seal"})
			}
		}
	}
	key := parseHexNil("0123456789abcdeffedcba9876543210")
	seal("rfc8998", key, parseHexNil("00001234567800000000abcd"), parseHexNil("feedfacedeadbeeffeedfacedeadbeefabaddad2"),
		parseHexNil("aaaaaaaaaaaaaaaabbbbbbbbbbbbbbbbccccccccccccccccddddddddddddddddeeeeeeeeeeeeeeeeffffffffffffffffeeeeeeeeeeeeeeeeaaaaaaaaaaaaaaaa"), 16)
	aadLens := []int{0, 1, 15, 16, 17, 127, 128, 129, L}
	for pl := 0; pl <= L; pl++ {
		key := c.rng.Bytes(16)
		al := aadLens[pl%len(aadLens)]
		seal(fmt.Sprintf("pt=%s/aad=%s/n12/t16", lenClass(pl), lenClass(al)), key, c.rng.Bytes(12), c.rng.Bytes(al), c.rng.Bytes(pl), 16)
		if c.tier == "thorough" {
			for _, al := range aadLens {
				seal(fmt.Sprintf("pt=%s/aad=%s/n12/t16", lenClass(pl), lenClass(al)), key, c.rng.Bytes(12), c.rng.Bytes(al), c.rng.Bytes(pl), 16)
			}
		}
	}
	for al := 0; al <= L; al++ {
		pl := []int{0, 1, 16, 257}[al%4]
		seal(fmt.Sprintf("pt=%s/aad=%s/n12/t16", lenClass(pl), lenClass(al)), c.rng.Bytes(16), c.rng.Bytes(12), c.rng.Bytes(al), c.rng.Bytes(pl), 16)
	}
	for nl := 1; nl <= 300; nl++ {
		if c.tier != "thorough" && nl > 40 && nl%16 > 1 && nl%7 != 0 {
			continue
		}
		ts := 12 + nl%5
		if nl%3 == 0 {
			ts = 16
		}
		seal(fmt.Sprintf("nonce=%s/t%d", lenClass(nl), ts), c.rng.Bytes(16), c.rng.Bytes(nl), c.rng.Bytes(c.rng.Intn(40)), c.rng.Bytes(c.rng.Intn(100)), ts)
	}
	for ts := 12; ts <= 16; ts++ {
		for _, pl := range []int{0, 1, 16, 33, 300} {
			seal(fmt.Sprintf("tag%d/pt=%s", ts, lenClass(pl)), c.rng.Bytes(16), c.rng.Bytes(12), c.rng.Bytes(20), c.rng.Bytes(pl), ts)
		}
	}
	// long aad / plaintext: the higher bytes of the two 64-bit bit-length fields of the final GHASH block
	for _, ll := range [][2]int{{8192, 5}, {8193, 0}, {65536, 17}, {70001, 33}, {5, 8192}, {0, 65537}, {33, 70000}} {
		seal(fmt.Sprintf("lenblock/aad=%d/pt=%d", ll[0], ll[1]), c.rng.Bytes(16), c.rng.Bytes(12), c.rng.Bytes(ll[0]), c.rng.Bytes(ll[1]), 16)
	}
	// counter wrap: solve a 16-byte nonce for a chosen J0
	for k := 0; k <= 40; k++ {
		if c.tier != "thorough" && k > 18 && k%4 != 0 {
			continue
		}
		key := c.rng.Bytes(16)
		blk, _ := sm4.VerifNewCipherGeneric(key)
		hb := make([]byte, 16)
		blk.Encrypt(hb, hb)
		H := gfFromBytes(hb)
		Hinv := gfInv(H)
		j0 := c.rng.Bytes(16)
		binary.BigEndian.PutUint32(j0[12:], uint32(0x100000000-uint64(k)))
		lenblk := make([]byte, 16)
		binary.BigEndian.PutUint64(lenblk[8:], 128)
		t := gfMul(gfFromBytes(j0), Hinv)
		lb := gfFromBytes(lenblk)
		t.hi ^= lb.hi
		t.lo ^= lb.lo
		nonce := gfMul(t, Hinv).bytes()
		for _, pl := range []int{0, 15, 16 * (k + 2), 16*(k+1) + 5, 700} {
			seal(fmt.Sprintf("ctrwrap/k=%d/pt=%s", bucket(k), lenClass(pl)), key, nonce, c.rng.Bytes(c.rng.Intn(20)), c.rng.Bytes(pl), 16)
		}
	}
}

func runC07(c *Ctx) {
	c.res.Rule = "Open(nil, nonce, ct, aad) on every path against the Lean model of openAsm and its wrapper (Model.GCM.open) and against SP 800-38D decryption over the SM4 specification, three-way on every case: every sealed message of the C06 length classes opens to its plaintext; for each, every single-bit flip of the tag, 64 random + boundary bit flips of ciphertext, aad and nonce, truncation by 1..t+1 bytes, extension by one byte, all strings shorter than the tag, tag sizes 12..16; a forgery that is accepted would be reported; class = (path, mutation kind, length class, tag size, verdict)"
	nMsgs := 25
	if c.tier == "thorough" {
		nMsgs = 400
	}
	paths := gcmPaths()
	open := func(cl string, key, nonce, aad, ct []byte, ts int) {
		args := fmt.Sprintf("%x %s %s %s %d", key, hexOrDash(nonce), hexOrDash(aad), hexOrDash(ct), ts)
		req, sreq := "gcm.open "+args, "gcm.open.spec "+args
		for _, p := range paths {
			a, err := p.mk(key, len(nonce), ts)
			if a == nil || err != nil {
				continue
			}
			ctc := append([]byte(nil), ct...)
			impl := try(func() string {
				pt, err := a.Open(nil, nonce, ctc, aad)
				if err != nil {
					if pt != nil {
						return "err-with-plaintext"
					}
					return "err"
				}
				return "ok " + hexOrDash(pt)
			})
			verdict := "err"
			if len(impl) >= 2 && impl[:2] == "ok" {
				verdict = "ok"
			}
			full := p.name + "/" + cl + "/" + verdict
			c.Case("gcm.open", full, false, req)
			// implementation / model of the fused algorithm (Model.GCM.open) / SP 800-38D (Spec.GCM.openGCM)
			c.Check3("gcm.open", full, req, sreq, impl)
			if verdict == "ok" && cl[:5] != "valid" {
				c.Disagree(Disagreement{Kind: "impl!=spec", Class: full + "/forgery-accepted", Request: req, SpecReq: sreq, Impl: impl, Spec: "err", Stream: "gcm.open"})
			}
		}
	}
	lens := []int{0, 1, 15, 16, 17, 31, 32, 33, 63, 64, 65, 127, 128, 129, 255, 256, 257, 300, 513, 1000}
	for it := 0; it < nMsgs; it++ {
		key := c.rng.Bytes(16)
		pl := lens[it%len(lens)]
		al := []int{0, 5, 16, 130}[it%4]
		ts := 12 + it%5
		nl := 12
		if it%6 == 5 {
			nl = []int{1, 8, 16, 129}[it/6%4]
		}
		nonce, aad, pt := c.rng.Bytes(nl), c.rng.Bytes(al), c.rng.Bytes(pl)
		// the ciphertext comes from the stdlib-generic path (cross-path: sealed by one, opened by all)
		sealer, err := paths[len(paths)-1].mk(key, nl, ts)
		if sealer == nil || err != nil {
			sealer, _ = paths[0].mk(key, nl, ts)
		}
		ct := sealer.Seal(nil, nonce, pt, aad)
		lc := fmt.Sprintf("pt=%s/t%d", lenClass(pl), ts)
		open("valid/"+lc, key, nonce, aad, ct, ts)
		// tag bit flips
		for b := 0; b < ts*8; b++ {
			if c.tier != "thorough" && b%5 != it%5 {
				continue
			}
			m := append([]byte(nil), ct...)
			m[len(ct)-ts+b/8] ^= 1 << uint(b%8)
			open("tagflip/"+lc, key, nonce, aad, m, ts)
		}
		nflips := 6
		if c.tier == "thorough" {
			nflips = 64
		}
		for f := 0; f < nflips; f++ {
			if pl > 0 {
				m := append([]byte(nil), ct...)
				pos := []int{0, pl*8 - 1, c.rng.Intn(pl * 8)}[f%3]
				m[pos/8] ^= 1 << uint(pos%8)
				open("ctflip/"+lc, key, nonce, aad, m, ts)
			}
			if al > 0 {
				m := append([]byte(nil), aad...)
				pos := c.rng.Intn(al * 8)
				m[pos/8] ^= 1 << uint(pos%8)
				open("aadflip/"+lc, key, nonce, m, ct, ts)
			}
			m := append([]byte(nil), nonce...)
			pos := c.rng.Intn(nl * 8)
			m[pos/8] ^= 1 << uint(pos%8)
			open(fmt.Sprintf("nonceflip/n%d/%s", nl, lc), key, m, aad, ct, ts)
		}
		for cut := 1; cut <= ts+1 && cut <= len(ct); cut++ {
			open("truncate/"+lc, key, nonce, aad, ct[:len(ct)-cut], ts)
		}
		open("extend/"+lc, key, nonce, aad, append(append([]byte(nil), ct...), 0), ts)
		open("aad-extend/"+lc, key, nonce, append(append([]byte(nil), aad...), 0), ct, ts)
		for l := 0; l < ts; l++ {
			open("shorter-than-tag/"+lc, key, nonce, aad, c.rng.Bytes(l), ts)
		}
	}
}

func init() {
	// C06Asm / C07Asm theorems are about the regenerated listings under the instruction semantics of Model/ISAVal.lean:
	// the streams that compare those listings with the CPU and the specification (asmval.go: asm.ghash, asm.seal,
	// asm.open, and the arm64 listings model-vs-spec) are part of THESE checks' verdicts too, not only of C05's
	runners["C06"] = func(c *Ctx) {
		runC06(c)
		rule := c.res.Rule
		runAsmValGCM(c)
		c.res.Rule = rule + " || listings: gHashBlocks / sealAsm / openAsm of the regenerated amd64 listing under the value interpreter vs the CPU vs the specification (lengths over every ladder class, nonce kinds, tag sizes, in place); arm64 gHashBlocks / xorN listings vs the specification"
	}
	runners["C07"] = func(c *Ctx) {
		runC07(c)
		rule := c.res.Rule
		runAsmValGCM(c)
		c.res.Rule = rule + " || listings: as C06 (asm.open: valid and forged tags)"
	}
}
