package main

import (
	"fmt"
	"math/big"

	"github.com/bilibili/smgo/sm2"
)

// stdSign computes the standard's signature for crafting valid inputs (not an oracle).
func stdSign(d, k *big.Int, e []byte) (r, s *big.Int, ok bool) {
	x1 := affMul(k, affG()).x
	r = modN(new(big.Int).Add(new(big.Int).SetBytes(e), x1))
	if r.Sign() == 0 || new(big.Int).Add(r, k).Cmp(curveN) == 0 {
		return nil, nil, false
	}
	t := modN(new(big.Int).Sub(k, new(big.Int).Mul(r, d)))
	s = modN(new(big.Int).Mul(inv(new(big.Int).Add(d, big.NewInt(1))), t))
	return r, s, s.Sign() != 0
}

func runC03(c *Ctx) {
	c.res.Rule = "arbitrary byte strings as (pubx, puby, e, r, s): valid signatures; single-bit mutations of every field; wrong lengths; r or s = 0, = n, r+n / s+n in place of r / s (crafted with small r, s), r+s = n; off-curve and non-canonical keys (x+p); [s]G+[t]P = O with r = e mod n; signatures whose t = (r+s) mod n has leading zero bytes; class = (which side condition is violated, verdict)"
	nSigs := 2
	flipStep := 11
	if c.tier == "thorough" {
		nSigs, flipStep = 12, 1
	}
	do := func(cl string, px, py, e, r, s []byte) {
		impl := implVerifyHashed(px, py, e, r, s)
		req := fmt.Sprintf("sm2.verify %s %s %s %s %s", hexOrDash(px), hexOrDash(py), hexOrDash(e), hexOrDash(r), hexOrDash(s))
		sreq := "sm2.verify.spec" + req[len("sm2.verify"):]
		full := cl + "/" + impl
		c.Case("sm2.verify", full, false, req)
		c.Check3("sm2.verify", full, req, sreq, impl)
	}
	for it := 0; it < nSigs; it++ {
		kp := randKey(c)
		e := c.rng.Bytes(32)
		var r, s *big.Int
		for {
			var ok bool
			r, s, ok = stdSign(kp.d, randK(c), e)
			if ok {
				break
			}
		}
		rb, sb := be32(r), be32(s)
		do("valid", kp.px, kp.py, e, rb, sb)
		fields := [][]byte{kp.px, kp.py, e, rb, sb}
		names := []string{"px", "py", "e", "r", "s"}
		for f := 0; f < 5; f++ {
			for bit := 0; bit < 256; bit++ {
				if (f*256+bit+it)%flipStep != 0 {
					continue
				}
				m := make([][]byte, 5)
				for i := range fields {
					m[i] = append([]byte(nil), fields[i]...)
				}
				m[f][bit/8] ^= 1 << uint(bit%8)
				do("bitflip/"+names[f], m[0], m[1], m[2], m[3], m[4])
			}
			for _, l := range []int{0, 31, 33} {
				m := make([][]byte, 5)
				copy(m, fields)
				if l < 32 {
					m[f] = fields[f][:l]
				} else {
					m[f] = append([]byte{0}, fields[f]...)
				}
				do("badlen/"+names[f], m[0], m[1], m[2], m[3], m[4])
			}
		}
		zero := make([]byte, 32)
		do("r=0", kp.px, kp.py, e, zero, sb)
		do("s=0", kp.px, kp.py, e, rb, zero)
		do("r=n", kp.px, kp.py, e, be32(curveN), sb)
		do("s=n", kp.px, kp.py, e, rb, be32(curveN))
		do("r+s=n", kp.px, kp.py, e, rb, be32(new(big.Int).Sub(curveN, r)))
		// same residue, out of range: needs r (or s) < 2^256 - n
		k := randK(c)
		rSmall := new(big.Int).SetBytes(c.rng.Bytes(20))
		e2 := eForR(k, rSmall)
		if r2, s2, ok := stdSign(kp.d, k, e2); ok {
			do("small-r/valid", kp.px, kp.py, e2, be32(r2), be32(s2))
			do("r+n", kp.px, kp.py, e2, be32(new(big.Int).Add(r2, curveN)), be32(s2))
		}
		k3, e3 := craftSmallS(c, kp.d, 12)
		if r3, s3, ok := stdSign(kp.d, k3, e3); ok {
			do("small-s/valid", kp.px, kp.py, e3, be32(r3), be32(s3))
			do("s+n", kp.px, kp.py, e3, be32(r3), be32(new(big.Int).Add(s3, curveN)))
		}
		// t = (r+s) mod n with leading zero bytes: choose t*, then s = t* - r
		for z := 1; z <= 3; z++ {
			k4 := randK(c)
			x1 := affMul(k4, affG()).x
			// s = (k - r d)/(1+d) and t = r + s  =>  t(1+d) = r(1+d) + k - r d = r + k  =>  r = t(1+d) - k
			tStar := new(big.Int).SetBytes(c.rng.Bytes(32 - z))
			r4 := modN(new(big.Int).Sub(new(big.Int).Mul(tStar, new(big.Int).Add(kp.d, big.NewInt(1))), k4))
			e4 := be32(modN(new(big.Int).Sub(r4, x1)))
			if r5, s5, ok := stdSign(kp.d, k4, e4); ok {
				do(fmt.Sprintf("small-t/%d", z), kp.px, kp.py, e4, be32(r5), be32(s5))
			}
		}
		// tiny t = (r+s) mod n (a window schedule that starts at the top non-zero digit of t must still run the G part)
		for _, tv := range []int64{1, 2, 3, 15, 16, 17, 0x3ff, 0x1000, 0x2001, 0x12345} {
			k4 := randK(c)
			x1 := affMul(k4, affG()).x
			tStar := big.NewInt(tv)
			r4 := modN(new(big.Int).Sub(new(big.Int).Mul(tStar, new(big.Int).Add(kp.d, big.NewInt(1))), k4))
			e4 := be32(modN(new(big.Int).Sub(r4, x1)))
			if r5, s5, ok := stdSign(kp.d, k4, e4); ok {
				do(fmt.Sprintf("tiny-t/%d", bucket(int(tv))), kp.px, kp.py, e4, be32(r5), be32(s5))
				// and an invalid one with the same tiny t: s' = t - r' for a random r'
				rr := randK(c)
				do(fmt.Sprintf("tiny-t-invalid/%d", bucket(int(tv))), kp.px, kp.py, e4, be32(rr), be32(modN(new(big.Int).Sub(tStar, rr))))
			}
		}
		// [s]G + [t]P = O with r = e mod n
		r6 := modN(new(big.Int).SetBytes(c.rng.Bytes(32)))
		s6 := modN(new(big.Int).Mul(new(big.Int).Neg(new(big.Int).Mul(r6, kp.d)), inv(new(big.Int).Add(kp.d, big.NewInt(1)))))
		if r6.Sign() != 0 && s6.Sign() != 0 && modN(new(big.Int).Add(r6, s6)).Sign() != 0 {
			do("infinity", kp.px, kp.py, be32(r6), be32(r6), be32(s6))
		}
		// [s]G + [t]P is the FINITE point (0, sqrt b): a verifier that recognises infinity by x = 0 rejects it.
		// P = t^-1 ((0, y0) - [s]G), r = t - s, e = r  (then (e + 0) mod n = r)
		if y0 := new(big.Int).ModSqrt(curveB, curveP); y0 != nil {
			t7, s7 := randK(c), randK(c)
			r7 := modN(new(big.Int).Sub(t7, s7))
			if r7.Sign() != 0 {
				sG := affMul(s7, affG())
				negSG := affPt{x: sG.x, y: new(big.Int).Sub(curveP, sG.y)}
				P7 := affMul(inv(t7), affAdd(affPt{x: big.NewInt(0), y: y0}, negSG))
				if !P7.inf {
					do("result-x=0", be32(P7.x), be32(P7.y), be32(r7), be32(r7), be32(s7))
				}
			}
		}
		// wrong key
		other := randKey(c)
		do("otherkey", other.px, other.py, e, rb, sb)
		do("swapped-rs", kp.px, kp.py, e, sb, rb)
		do("neg-y", kp.px, be32(new(big.Int).Sub(curveP, new(big.Int).SetBytes(kp.py))), e, rb, sb)
	}
	// non-canonical / small-x keys
	for tries, found := 0, 0; tries < 4000 && found < 4; tries++ {
		x := big.NewInt(int64(tries))
		rhs := new(big.Int).Exp(x, big.NewInt(3), curveP)
		rhs.Sub(rhs, new(big.Int).Mul(big.NewInt(3), x))
		rhs.Add(rhs, curveB)
		rhs.Mod(rhs, curveP)
		y := new(big.Int).ModSqrt(rhs, curveP)
		if y == nil {
			continue
		}
		found++
		e, r, s := c.rng.Bytes(32), be32(randK(c)), be32(randK(c))
		do("small-x-key", be32(x), be32(y), e, r, s)
		do("x+p-key", be32(new(big.Int).Add(x, curveP)), be32(y), e, r, s)
		// a (digest, signature) triple that IS valid for the canonical key (any on-curve key admits one: choose s, t,
		// R = [s]G+[t]P, r = t-s, e = r-x_R): accepted for (x, y), and must be refused for the alias encodings x+p,
		// y+p of the same point (seeded C03-c accepted x = p for the point with x = 0)
		P := affPt{x: x, y: y}
		sv, tv := randK(c), randK(c)
		R := affAdd(affMul(sv, affG()), affMul(tv, P))
		rv := modN(new(big.Int).Sub(tv, sv))
		if !R.inf && rv.Sign() != 0 {
			ev := modN(new(big.Int).Sub(rv, R.x))
			do("small-x-key/forged-valid", be32(x), be32(y), be32(ev), be32(rv), be32(sv))
			do("x+p-key/forged-valid", be32(new(big.Int).Add(x, curveP)), be32(y), be32(ev), be32(rv), be32(sv))
			if yp := new(big.Int).Add(y, curveP); yp.BitLen() <= 256 {
				do("y+p-key/forged-valid", be32(x), be32(yp), be32(ev), be32(rv), be32(sv))
			}
		}
	}
	for i := 0; i < 20; i++ {
		do("random", c.rng.Bytes(32), c.rng.Bytes(32), c.rng.Bytes(32), c.rng.Bytes(32), c.rng.Bytes(32))
	}
}

func runC01(c *Ctx) {
	c.res.Rule = "sign with the real signer then verify with the real verifier under the derived public key: keys uniform plus d in {1,2,n-2} and short encodings, digests solved so that r, s or (r+s) mod n have 1..3 leading zero bytes, all three entry-point pairs (Sign/Verify with id and message, SignZa/VerifyZa, SignHashed/VerifyHashed); the signature is also compared with model and specification; class = (entry point, leading zero bytes of r, s, t, key kind)"
	nRand := 12
	if c.tier == "thorough" {
		nRand = 800
	}
	round := func(cl string, kp keyPair, priv []byte, e []byte, k *big.Int) {
		script := dataScript(be32(k), c.rng.Bytes(32), c.rng.Bytes(32))
		impl := implSignHashed(script, priv, e)
		req := fmt.Sprintf("sm2.sign %s %x %s", hexOrDash(priv), e, scriptString(script))
		c.Case("sm2.roundtrip", cl+"/"+signClass(impl), false, req)
		c.Check3("sm2.roundtrip", cl, req, "sm2.sign.spec"+req[len("sm2.sign"):], impl)
		var rh, sh string
		var n int
		if _, err := fmt.Sscanf(impl, "ok %s %s %d", &rh, &sh, &n); err != nil {
			return
		}
		r, s := parseHexNil(rh), parseHexNil(sh)
		v := implVerifyHashed(kp.px, kp.py, e, r, s)
		t := modN(new(big.Int).Add(new(big.Int).SetBytes(r), new(big.Int).SetBytes(s)))
		tz := 32 - len(t.Bytes())
		vreq := fmt.Sprintf("sm2.verify %x %x %x %x %x", kp.px, kp.py, e, r, s)
		c.Case("sm2.roundtrip", fmt.Sprintf("%s/verify/tz%d/%s", cl, tz, v), false, vreq)
		c.Check3("sm2.roundtrip", fmt.Sprintf("%s/verify/tz%d", cl, tz), vreq, "sm2.verify.spec"+vreq[len("sm2.verify"):], v)
		if v != "ok true" {
			c.Disagree(Disagreement{Kind: "impl!=spec", Class: fmt.Sprintf("%s/produced-signature-rejected/tz%d", cl, tz), Request: vreq, Impl: v, Spec: "ok true", Stream: "sm2.roundtrip", Note: "signature produced by SignHashed: " + req})
		}
	}
	keys := []keyPair{mkKey(big.NewInt(1)), mkKey(big.NewInt(2)), mkKey(new(big.Int).Sub(curveN, big.NewInt(2)))}
	for i := 0; i < 3; i++ {
		keys = append(keys, randKey(c))
	}
	for ki, kp := range keys {
		kind := "special"
		if ki >= 3 {
			kind = "uniform"
		}
		round("hashed/"+kind, kp, kp.priv, c.rng.Bytes(32), randK(c))
		for z := 1; z <= 3; z++ {
			k := randK(c)
			round(fmt.Sprintf("hashed/small-r%d/%s", z, kind), kp, kp.priv, eForR(k, new(big.Int).SetBytes(c.rng.Bytes(32-z))), k)
			k2, e2 := craftSmallS(c, kp.d, z)
			round(fmt.Sprintf("hashed/small-s%d/%s", z, kind), kp, kp.priv, e2, k2)
			// small t
			k4 := randK(c)
			x1 := affMul(k4, affG()).x
			tStar := new(big.Int).SetBytes(c.rng.Bytes(32 - z))
			r4 := modN(new(big.Int).Sub(new(big.Int).Mul(tStar, new(big.Int).Add(kp.d, big.NewInt(1))), k4))
			round(fmt.Sprintf("hashed/small-t%d/%s", z, kind), kp, kp.priv, be32(modN(new(big.Int).Sub(r4, x1))), k4)
		}
	}
	// streams whose first candidate hits a rejection rule (the signer must skip it, and what it then returns must verify)
	roundScript := func(cl string, kp keyPair, e []byte, script []scriptItem) {
		impl := implSignHashed(script, kp.priv, e)
		req := fmt.Sprintf("sm2.sign %x %x %s", kp.priv, e, scriptString(script))
		c.Case("sm2.roundtrip", cl+"/"+signClass(impl), false, req)
		c.Check3("sm2.roundtrip", cl, req, "sm2.sign.spec"+req[len("sm2.sign"):], impl)
		var rh, sh string
		var n int
		if _, err := fmt.Sscanf(impl, "ok %s %s %d", &rh, &sh, &n); err != nil {
			return
		}
		v := implVerifyHashed(kp.px, kp.py, e, parseHexNil(rh), parseHexNil(sh))
		if v != "ok true" {
			c.Disagree(Disagreement{Kind: "impl!=spec", Class: cl + "/produced-signature-rejected", Request: req, Impl: v, Spec: "ok true", Stream: "sm2.roundtrip", Note: impl})
		}
	}
	for _, kp := range keys[:4] {
		for _, rule := range []string{"r=0", "r+k=n", "s=0"} {
			kb, e := craftReject(c, rule, kp.d)
			roundScript("hashed/after-"+rule, kp, e, dataScript(be32(kb), be32(randK(c)), be32(randK(c))))
		}
		zero := make([]byte, 32)
		roundScript("hashed/after-k=0", kp, c.rng.Bytes(32), dataScript(zero, be32(curveN), be32(randK(c))))
		// the all-zero candidate AFTER a rejected non-zero one (state carried between candidates: seeded C01-c, C02-c)
		ff := make([]byte, 32)
		for i := range ff {
			ff[i] = 0xff
		}
		roundScript("hashed/zero-after-k>=n", kp, c.rng.Bytes(32), dataScript(ff, zero, be32(randK(c))))
		roundScript("hashed/zero-after-k=n", kp, c.rng.Bytes(32), dataScript(be32(curveN), zero, be32(randK(c))))
		for _, rule := range []string{"r=0", "r+k=n", "s=0"} {
			kb, e := craftReject(c, rule, kp.d)
			roundScript("hashed/zero-after-"+rule, kp, e, dataScript(be32(kb), zero, be32(randK(c))))
		}
		for _, tv := range []int64{1, 2, 15, 16, 0x3ff, 0x1000, 0x2001} {
			k4 := randK(c)
			x1 := affMul(k4, affG()).x
			r4 := modN(new(big.Int).Sub(new(big.Int).Mul(big.NewInt(tv), new(big.Int).Add(kp.d, big.NewInt(1))), k4))
			round(fmt.Sprintf("hashed/tiny-t/%d", bucket(int(tv))), kp, kp.priv, be32(modN(new(big.Int).Sub(r4, x1))), k4)
		}
	}
	// short encodings of small keys
	for _, d := range []int64{1, 2, 0x1234} {
		kp := mkKey(big.NewInt(d))
		round("hashed/shortkey", kp, big.NewInt(d).Bytes(), c.rng.Bytes(32), randK(c))
	}
	for i := 0; i < nRand; i++ {
		kp := randKey(c)
		round("hashed/random", kp, kp.priv, c.rng.Bytes(32), randK(c))
	}
	// id / message level and za level entry points
	for i := 0; i < nRand/2+3; i++ {
		kp := randKey(c)
		id := c.rng.Bytes(c.rng.Intn(40))
		msg := c.rng.Bytes(c.rng.Intn(200))
		k := randK(c)
		script := dataScript(be32(k), c.rng.Bytes(32))
		var r, s []byte
		impl := try(func() string {
			var err error
			r, s, err = sm2.Sign(id, kp.px, kp.py, &scriptReader{items: cloneScript(script)}, kp.priv, msg)
			if err != nil {
				return "err"
			}
			return fmt.Sprintf("ok %x %x 32", r, s)
		})
		req := fmt.Sprintf("sm2.signid %s %x %x %x %s %s", hexOrDash(id), kp.px, kp.py, kp.priv, hexOrDash(msg), scriptString(script))
		c.Case("sm2.roundtrip", "id/sign", false, req)
		c.Check3("sm2.roundtrip", "id/sign", req, "sm2.signid.spec"+req[len("sm2.signid"):], impl)
		if r != nil {
			v := try(func() string { ok, _ := sm2.Verify(id, kp.px, kp.py, msg, r, s); return fmt.Sprintf("ok %v", ok) })
			vreq := fmt.Sprintf("sm2.verifyid %s %x %x %s %x %x", hexOrDash(id), kp.px, kp.py, hexOrDash(msg), r, s)
			c.Case("sm2.roundtrip", "id/verify/"+v, false, vreq)
			c.Check3("sm2.roundtrip", "id/verify", vreq, "sm2.verifyid.spec"+vreq[len("sm2.verifyid"):], v)
			if v != "ok true" {
				c.Disagree(Disagreement{Kind: "impl!=spec", Class: "id/produced-signature-rejected", Request: vreq, Impl: v, Spec: "ok true", Stream: "sm2.roundtrip"})
			}
			// za level
			za, _ := sm2.ZA(id, kp.px, kp.py)
			v2 := try(func() string { ok, _ := sm2.VerifyZa(kp.px, kp.py, za, msg, r, s); return fmt.Sprintf("ok %v", ok) })
			if v2 != "ok true" {
				c.Disagree(Disagreement{Kind: "impl!=spec", Class: "za/produced-signature-rejected", Request: vreq, Impl: v2, Spec: "ok true", Stream: "sm2.roundtrip"})
			}
			r3, s3, err := sm2.SignZa(&scriptReader{items: cloneScript(script)}, kp.priv, za, msg)
			if err != nil || fmt.Sprintf("%x%x", r3, s3) != fmt.Sprintf("%x%x", r, s) {
				c.Disagree(Disagreement{Kind: "impl!=spec", Class: "za/SignZa-differs-from-Sign", Request: req, Impl: fmt.Sprintf("%x %x", r3, s3), Spec: fmt.Sprintf("%x %x", r, s), Stream: "sm2.roundtrip"})
			}
		}
	}
}

func runC13(c *Ctx) {
	c.res.Rule = "ZA for id lengths 0..40, 8190..8194, 65535, 65536, 70000 and random public keys; Sign/Verify with id and message against SignHashed/VerifyHashed on e = SM3(ZA || M) via model and specification, messages of every length modulo 64 (ZA||M and the ZA preimage cross SM3 padding boundaries; id length 53 and message length 23 mod 64 are the 55-mod-64 cases); class = (id length class, message residue)"
	kp := randKey(c)
	za := func(cl string, id, px, py []byte) {
		// the request is written down BEFORE the call (the call must not be able to change what is compared)
		req := fmt.Sprintf("sm2.za %s %s %s", hexOrDash(id), hexOrDash(px), hexOrDash(py))
		impl := try(func() string {
			z, err := sm2.ZA(id, px, py)
			if err != nil {
				return "err"
			}
			return fmt.Sprintf("ok %x", z)
		})
		c.Case("sm2.za", cl, false, req)
		c.Check3("sm2.za", cl, req, "sm2.za.spec"+req[len("sm2.za"):], impl)
	}
	for l := 0; l <= 130; l++ {
		if l > 40 && c.tier != "thorough" && l%64 != 53 && l%9 != 0 {
			continue
		}
		za(fmt.Sprintf("idlen%%64=%d", l%64), c.rng.Bytes(l), kp.px, kp.py)
	}
	for _, l := range []int{8190, 8191, 8192, 8193, 8194, 65535, 65536, 70000} {
		za(fmt.Sprintf("idlen=%d", l), c.rng.Bytes(l), kp.px, kp.py)
	}
	for i := 0; i < 5; i++ {
		k2 := randKey(c)
		za("otherkey", []byte("1234567812345678"), k2.px, k2.py)
	}
	// id, xA, yA as consecutive sub-slices of ONE record (id has spare capacity reaching over the key): ZA must bind
	// the values, wherever they live (seeded C13-c built the hash input by appending to id)
	for _, l := range []int{0, 1, 16, 53, 200} {
		rec := append(append(append(c.rng.Bytes(l), kp.px...), kp.py...), c.rng.Bytes(200)...)
		za(fmt.Sprintf("record/idlen=%d", l), rec[:l], rec[l:l+32], rec[l+32:l+64])
	}
	maxMsg := 130
	if c.tier == "thorough" {
		maxMsg = 400
	}
	for ml := 0; ml <= maxMsg; ml++ {
		if c.tier != "thorough" && ml > 70 && ml%64 != 23 && ml%7 != 0 {
			continue
		}
		id := []byte("1234567812345678")
		if ml%5 == 0 {
			id = c.rng.Bytes(53)
		}
		msg := c.rng.Bytes(ml)
		k := randK(c)
		script := dataScript(be32(k), c.rng.Bytes(32))
		var r, s []byte
		impl := try(func() string {
			var err error
			r, s, err = sm2.Sign(id, kp.px, kp.py, &scriptReader{items: cloneScript(script)}, kp.priv, msg)
			if err != nil {
				return "err"
			}
			return fmt.Sprintf("ok %x %x 32", r, s)
		})
		req := fmt.Sprintf("sm2.signid %s %x %x %x %s %s", hexOrDash(id), kp.px, kp.py, kp.priv, hexOrDash(msg), scriptString(script))
		cl := fmt.Sprintf("sign/id%d/msg%%64=%d", len(id), ml%64)
		c.Case("sm2.signid", cl, false, req)
		c.Check3("sm2.signid", cl, req, "sm2.signid.spec"+req[len("sm2.signid"):], impl)
		if r != nil {
			for _, mut := range []string{"", "msg", "id"} {
				id2, msg2 := id, msg
				if mut == "msg" {
					msg2 = append(append([]byte(nil), msg...), 0)
				}
				if mut == "id" {
					id2 = append(append([]byte(nil), id...), 0)
				}
				v := try(func() string { ok, _ := sm2.Verify(id2, kp.px, kp.py, msg2, r, s); return fmt.Sprintf("ok %v", ok) })
				vreq := fmt.Sprintf("sm2.verifyid %s %x %x %s %x %x", hexOrDash(id2), kp.px, kp.py, hexOrDash(msg2), r, s)
				c.Case("sm2.verifyid", cl+"/mut="+mut+"/"+v, false, vreq)
				c.Check3("sm2.verifyid", cl+"/mut="+mut, vreq, "sm2.verifyid.spec"+vreq[len("sm2.verifyid"):], v)
			}
		}
	}
	// too-long ids at the signing / verification entry points
	for _, l := range []int{8191, 8192} {
		id := c.rng.Bytes(l)
		impl := try(func() string {
			r, s, err := sm2.Sign(id, kp.px, kp.py, &scriptReader{items: dataScript(be32(randK(c)))}, kp.priv, []byte("m"))
			if err != nil {
				return "err"
			}
			return fmt.Sprintf("ok %x %x 32", r, s)
		})
		cl := fmt.Sprintf("sign/idlen=%d", l)
		c.Case("sm2.signid", cl, false, cl)
		if (l >= 8192) != (impl == "err") {
			c.Disagree(Disagreement{Kind: "impl!=spec", Class: cl, Request: cl, Impl: impl, Spec: map[bool]string{true: "err", false: "ok"}[l >= 8192], Stream: "sm2.signid"})
		}
	}
}

func init() {
	// the regenerated CT-IR of the sm2.go entry points (Props/C13IR.lean: run of the IR = the model on ctxFiat) against the
	// real functions: the functional validation of the IR semantics the refinement theorems rest on
	withIR := func(f func(*Ctx)) func(*Ctx) {
		return func(c *Ctx) {
			f(c)
			rule := c.res.Rule
			runC13IR(c)
			c.res.Rule = rule + " || CT-IR: " + c.res.Rule
		}
	}
	runners["C03"] = withIR(runC03)
	runners["C01"] = runC01
	runners["C13"] = withIR(runC13)
}
