package main

import (
	"fmt"
	"io"
	"math/big"

	"github.com/bilibili/smgo/sm2"
)

func implSignHashed(script []scriptItem, priv, e []byte) string {
	return try(func() string {
		rd := &scriptReader{items: cloneScript(script)}
		r, s, err := sm2.SignHashed(rd, priv, e)
		if err != nil {
			if r != nil || s != nil {
				return "err-with-signature"
			}
			return "err"
		}
		return fmt.Sprintf("ok %x %x %d", r, s, rd.consumed)
	})
}

func implVerifyHashed(px, py, e, r, s []byte) string {
	return try(func() string {
		ok, err := sm2.VerifyHashed(px, py, e, r, s)
		if ok && err != nil {
			return "true-with-error"
		}
		return fmt.Sprintf("ok %v", ok)
	})
}

func implGenKey(script []scriptItem, nilReader bool) string {
	return try(func() string {
		var rd io.Reader
		sr := &scriptReader{items: cloneScript(script)}
		if !nilReader {
			rd = sr
		}
		d, x, y, err := sm2.GenerateKey(rd)
		if err != nil {
			if x != nil || y != nil {
				return "err-with-public-key"
			}
			return "err"
		}
		return fmt.Sprintf("ok %x %x %x %d", d, x, y, sr.consumed)
	})
}

func implDerive(priv []byte) string {
	return try(func() string {
		x, y, err := sm2.DerivePublic(priv)
		if err != nil {
			return "err"
		}
		return fmt.Sprintf("ok %x %x", x, y)
	})
}

type keyPair struct {
	d      *big.Int
	priv   []byte
	px, py []byte
}

func mkKey(d *big.Int) keyPair {
	P := affMul(d, affG())
	return keyPair{d: d, priv: be32(d), px: be32(P.x), py: be32(P.y)}
}

func randKey(c *Ctx) keyPair {
	d := new(big.Int).Mod(new(big.Int).SetBytes(c.rng.Bytes(40)), new(big.Int).Sub(curveN, big.NewInt(2)))
	d.Add(d, big.NewInt(1))
	return mkKey(d)
}

func randK(c *Ctx) *big.Int {
	k := new(big.Int).Mod(new(big.Int).SetBytes(c.rng.Bytes(40)), new(big.Int).Sub(curveN, big.NewInt(1)))
	return k.Add(k, big.NewInt(1))
}

func inv(v *big.Int) *big.Int { return new(big.Int).ModInverse(modN(v), curveN) }

// eFor returns the digest for which nonce k gives the chosen r.
func eForR(k, r *big.Int) []byte {
	x1 := affMul(k, affG()).x
	return be32(modN(new(big.Int).Sub(r, x1)))
}

// craftReject returns (k, e) such that candidate k is rejected by the given rule under key d.
func craftReject(c *Ctx, rule string, d *big.Int) (k *big.Int, e []byte) {
	k = randK(c)
	switch rule {
	case "r=0":
		e = eForR(k, big.NewInt(0))
	case "r+k=n":
		e = eForR(k, new(big.Int).Sub(curveN, k))
	case "s=0": // r = k/d
		e = eForR(k, modN(new(big.Int).Mul(k, inv(d))))
	}
	return
}

// specSign computes the standard's (r, s) for (d, e, k) — only used for crafting, never as oracle.
func craftSmallS(c *Ctx, d *big.Int, zeros int) (k *big.Int, e []byte) {
	k = randK(c)
	sStar := new(big.Int).SetBytes(c.rng.Bytes(32 - zeros))
	if sStar.Sign() == 0 {
		sStar.SetInt64(1)
	}
	// r = (k - s*(1+d)) / d
	t := new(big.Int).Mul(sStar, new(big.Int).Add(d, big.NewInt(1)))
	r := modN(new(big.Int).Mul(modN(new(big.Int).Sub(k, t)), inv(d)))
	return k, eForR(k, r)
}

func signClass(impl string) string {
	if len(impl) < 3 || impl[:2] != "ok" {
		return impl
	}
	var r, s string
	var n int
	fmt.Sscanf(impl, "ok %s %s %d", &r, &s, &n)
	lz := func(h string) int {
		z := 0
		for z+1 < len(h) && h[z] == '0' && h[z+1] == '0' {
			z += 2
		}
		return z / 2
	}
	return fmt.Sprintf("ok/rz%d/sz%d/c%d", lz(r), lz(s), n/32)
}

func runC02(c *Ctx) {
	c.res.Rule = "(d, e, nonce stream): uniform keys plus d in {1,2,n-2} and short encodings; streams whose first 1..3 candidates hit each rejection rule (k>=n, k=0, r=0, r+k=n, s=0; crafted by solving for e) before a good one; digests solved so that r or s has 1..3 leading zero bytes; invalid keys (0, n-1, n, 2^256-1, empty, 33 bytes); class = (rules fired in order, leading zero bytes of r and s, candidates consumed)"
	nRand := 25
	if c.tier == "thorough" {
		nRand = 1500
	}
	do := func(cl string, script []scriptItem, priv, e []byte) string {
		impl := implSignHashed(script, priv, e)
		req := fmt.Sprintf("sm2.sign %s %s %s", hexOrDash(priv), hexOrDash(e), scriptString(script))
		sreq := fmt.Sprintf("sm2.sign.spec %s %s %s", hexOrDash(priv), hexOrDash(e), scriptString(script))
		if len(e) != 32 {
			sreq = "" // the statement fixes 32-byte digests
		}
		full := cl + "/" + signClass(impl)
		c.Case("sm2.sign", full, cl == "uniform", req)
		c.Check3("sm2.sign", full, req, sreq, impl)
		return impl
	}
	keys := []keyPair{mkKey(big.NewInt(1)), mkKey(big.NewInt(2)), mkKey(new(big.Int).Sub(curveN, big.NewInt(2)))}
	for i := 0; i < 3; i++ {
		keys = append(keys, randKey(c))
	}
	bigK := be32(new(big.Int).Add(curveN, big.NewInt(5)))
	allFF := make([]byte, 32)
	for i := range allFF {
		allFF[i] = 0xff
	}
	zeroK := make([]byte, 32)
	for _, kp := range keys {
		for _, rule := range []string{"r=0", "r+k=n", "s=0"} {
			for pos := 0; pos < 3; pos++ {
				kb, e := craftReject(c, rule, kp.d)
				var chunks [][]byte
				pre := [][]byte{bigK, zeroK, allFF, be32(curveN)}
				for j := 0; j < pos; j++ {
					chunks = append(chunks, pre[c.rng.Intn(len(pre))])
				}
				chunks = append(chunks, be32(kb), be32(randK(c)))
				do(fmt.Sprintf("reject/%s/pos%d", rule, pos), dataScript(chunks...), kp.priv, e)
			}
			// a candidate refused by a LATE rule followed by the all-zero candidate: state carried from one candidate
			// to the next (a zero-test accumulator not reset) accepts k = 0 here (seeded C02-c, C01-c)
			kb, e := craftReject(c, rule, kp.d)
			do(fmt.Sprintf("reject/%s/then-zero", rule), dataScript(be32(kb), zeroK, be32(randK(c))), kp.priv, e)
			do(fmt.Sprintf("reject/%s/then-zero-then-end", rule), dataScript(be32(kb), zeroK), kp.priv, e)
		}
		for _, first := range [][]byte{bigK, zeroK, allFF, be32(curveN), be32(new(big.Int).Sub(curveN, big.NewInt(1)))} {
			do("reject/range", dataScript(first, be32(randK(c))), kp.priv, c.rng.Bytes(32))
			do("reject/range-only", dataScript(first), kp.priv, c.rng.Bytes(32))
			do("reject/range/then-zero", dataScript(first, zeroK, be32(randK(c))), kp.priv, c.rng.Bytes(32))
			do("reject/range/then-zero-then-end", dataScript(first, zeroK), kp.priv, c.rng.Bytes(32))
		}
		// leading zero bytes in r, s
		for z := 1; z <= 3; z++ {
			k := randK(c)
			rStar := new(big.Int).SetBytes(c.rng.Bytes(32 - z))
			do(fmt.Sprintf("small-r/%d", z), dataScript(be32(k)), kp.priv, eForR(k, rStar))
			k2, e2 := craftSmallS(c, kp.d, z)
			do(fmt.Sprintf("small-s/%d", z), dataScript(be32(k2)), kp.priv, e2)
		}
		// short encodings of the same key (leading zero bytes stripped) when it has them
	}
	for _, short := range [][]byte{{1}, {2}, {0, 1}, {0x12, 0x34}, c.rng.Bytes(31), c.rng.Bytes(16)} {
		do("shortkey", dataScript(be32(randK(c))), short, c.rng.Bytes(32))
	}
	for _, bad := range [][]byte{zeroK, {}, {0}, make([]byte, 31), be32(new(big.Int).Sub(curveN, big.NewInt(1))), be32(curveN), allFF, c.rng.Bytes(33), append([]byte{0}, be32(big.NewInt(5))...)} {
		do("badkey", dataScript(be32(randK(c))), bad, c.rng.Bytes(32))
	}
	for i := 0; i < nRand; i++ {
		kp := randKey(c)
		do("uniform", dataScript(c.rng.Bytes(32), c.rng.Bytes(32)), kp.priv, c.rng.Bytes(32))
	}
	// long runs of rejected candidates (no retry bound in the signer either)
	for _, nrej := range []int{15, 16, 17, 40} {
		var chunks [][]byte
		for j := 0; j < nrej; j++ {
			chunks = append(chunks, [][]byte{allFF, bigK, be32(curveN), zeroK}[(j+nrej)%4])
		}
		do(fmt.Sprintf("many-rejected/%d/then-end", bucket(nrej)), dataScript(chunks...), keys[2].priv, c.rng.Bytes(32))
		do(fmt.Sprintf("many-rejected/%d/then-valid", bucket(nrej)), dataScript(append(chunks, be32(randK(c)))...), keys[2].priv, c.rng.Bytes(32))
	}
	// several candidates inside one Read (a single data item holding 2..5 candidates, the first ones rejected)
	for nrej := 1; nrej <= 4; nrej++ {
		var blob []byte
		for j := 0; j < nrej; j++ {
			blob = append(blob, [][]byte{bigK, zeroK, allFF}[j%3]...)
		}
		blob = append(blob, be32(randK(c))...)
		blob = append(blob, c.rng.Bytes(17)...)
		do(fmt.Sprintf("one-item/%drejected", nrej), []scriptItem{{'d', blob}}, keys[4].priv, c.rng.Bytes(32))
	}
	// chunked delivery of the same stream does not change the result
	kp := keys[3]
	stream := append(append([]byte{}, bigK...), be32(randK(c))...)
	for _, sz := range []int{1, 7, 31, 33, 64} {
		var items []scriptItem
		for off := 0; off < len(stream); off += sz {
			end := off + sz
			if end > len(stream) {
				end = len(stream)
			}
			items = append(items, scriptItem{'d', stream[off:end]})
			if sz == 7 {
				items = append(items, scriptItem{'z', nil})
			}
		}
		do(fmt.Sprintf("chunked/%d", sz), items, kp.priv, c.rng.Bytes(32))
	}
}

func runC19(c *Ctx) {
	c.res.Rule = "scripted readers failing (error or EOF) at every (call index x byte offset 0..32) after 0..3 rejected candidates, for key generation and signing; the same failures during the redraw that follows a first nonce refused by each late rule (r=0, r+k=n, s=0; digest solved for that nonce); a Read that returns bytes TOGETHER with an error in the middle of a draw, followed by good data; short reads without error (1 byte at a time, 31+1, zero-byte reads followed by data); nil reader; class = (operation, rejected candidates before the failure, offset bucket, failure kind)"
	kp := randKey(c)
	e := c.rng.Bytes(32)
	bad := [][]byte{be32(curveN), make([]byte, 32), be32(new(big.Int).Sub(curveN, big.NewInt(1)))}
	for i := range bad[1] {
		bad[1][i] = 0
	}
	step := 1
	if c.tier != "thorough" {
		step = 3
	}
	for _, op := range []string{"genkey", "sign"} {
		for rej := 0; rej <= 3; rej++ {
			for off := 0; off <= 32; off += step {
				for _, fk := range []string{"fail", "eof", "data+err"} {
					if fk == "data+err" && (off == 0 || off == 32) {
						continue
					}
					var items []scriptItem
					for j := 0; j < rej; j++ {
						b := bad[j%len(bad)]
						if op == "sign" && j%len(bad) == 2 {
							b = bad[0] // n-1 is a valid nonce; keep the candidate rejected
						}
						items = append(items, scriptItem{'d', b})
					}
					good := be32(randK(c))
					if fk == "data+err" {
						// the partial draw and the error arrive in ONE Read; what follows would complete the draw and
						// supply further valid candidates, and must not be used (seeded C19-c dropped such an error)
						items = append(items, scriptItem{'e', good[:off]}, scriptItem{'d', append(append([]byte(nil), good[off:]...), be32(randK(c))...)})
					} else if off > 0 {
						items = append(items, scriptItem{'d', good[:off]})
					}
					if fk == "fail" {
						items = append(items, scriptItem{'f', nil})
						items = append(items, scriptItem{'d', good}) // data after the failure must not be used
					}
					var impl, req, sreq string
					if op == "genkey" {
						impl = implGenKey(items, false)
						req = "sm2.genkey " + scriptString(items)
						sreq = "sm2.genkey.spec " + scriptString(items)
					} else {
						impl = implSignHashed(items, kp.priv, e)
						req = fmt.Sprintf("sm2.sign %x %x %s", kp.priv, e, scriptString(items))
						sreq = fmt.Sprintf("sm2.sign.spec %x %x %s", kp.priv, e, scriptString(items))
					}
					cl := fmt.Sprintf("%s/rej%d/off%d/%s", op, rej, bucket(off), fk)
					if off == 32 && fk == "eof" {
						cl += "/complete"
					}
					c.Case("sm2.reader", cl, false, req)
					c.Check3("sm2.reader", cl, req, sreq, impl)
				}
			}
		}
		// short reads without error are completed
		good := be32(randK(c))
		for _, pat := range [][]int{{1}, {31, 1}, {0, 5, 0, 27}, {16, 16}, {32}, {40}} {
			var items []scriptItem
			stream := append(append(append([]byte{}, bad[0]...), good...), c.rng.Bytes(32)...)
			off := 0
			for i := 0; off < len(stream); i++ {
				sz := pat[i%len(pat)]
				if sz == 0 {
					items = append(items, scriptItem{'z', nil})
					continue
				}
				end := off + sz
				if end > len(stream) {
					end = len(stream)
				}
				items = append(items, scriptItem{'d', stream[off:end]})
				off = end
			}
			var impl, req, sreq string
			if op == "genkey" {
				impl = implGenKey(items, false)
				req = "sm2.genkey " + scriptString(items)
				sreq = "sm2.genkey.spec " + scriptString(items)
			} else {
				impl = implSignHashed(items, kp.priv, e)
				req = fmt.Sprintf("sm2.sign %x %x %s", kp.priv, e, scriptString(items))
				sreq = fmt.Sprintf("sm2.sign.spec %x %x %s", kp.priv, e, scriptString(items))
			}
			cl := fmt.Sprintf("%s/shortreads/%v", op, pat)
			c.Case("sm2.reader", cl, false, req)
			c.Check3("sm2.reader", cl, req, sreq, impl)
		}
	}
	// the source fails during the REDRAW that follows a candidate refused by a late rule (r = 0, r + k = n, s = 0;
	// digest solved for the first nonce): a retry loop that does not look at the redraw's error signs with the
	// half-overwritten nonce (seeded C19-d)
	// (offset 0 last: a signer that spins on an empty redraw must not hide the half-filled-nonce cases behind a hang)
	var retryOffs []int
	for off := step; off <= 32; off += step {
		retryOffs = append(retryOffs, off)
	}
	retryOffs = append(retryOffs, 0)
	for _, rule := range []string{"r=0", "r+k=n", "s=0"} {
		for _, off := range retryOffs {
			for _, fk := range []string{"fail", "eof", "data+err"} {
				if fk == "data+err" && (off == 0 || off == 32) {
					continue
				}
				kb, eR := craftReject(c, rule, kp.d)
				items := []scriptItem{{'d', be32(kb)}}
				good := be32(randK(c))
				if fk == "data+err" {
					items = append(items, scriptItem{'e', good[:off]}, scriptItem{'d', append(append([]byte(nil), good[off:]...), be32(randK(c))...)})
				} else if off > 0 {
					items = append(items, scriptItem{'d', good[:off]})
				}
				if fk == "fail" {
					items = append(items, scriptItem{'f', nil}, scriptItem{'d', good})
				}
				impl := implSignHashed(items, kp.priv, eR)
				req := fmt.Sprintf("sm2.sign %x %x %s", kp.priv, eR, scriptString(items))
				sreq := fmt.Sprintf("sm2.sign.spec %x %x %s", kp.priv, eR, scriptString(items))
				cl := fmt.Sprintf("sign/retry[%s]/off%d/%s", rule, bucket(off), fk)
				if off == 32 && fk == "eof" {
					cl += "/complete"
				}
				c.Case("sm2.reader", cl, false, req)
				c.Check3("sm2.reader", cl, req, sreq, impl)
			}
		}
	}
	impl := implGenKey(nil, true)
	c.Case("sm2.reader", "genkey/nil", false, "sm2.genkey nil")
	c.Check3("sm2.reader", "genkey/nil", "sm2.genkey nil", "sm2.genkey.spec nil", impl)
	impl = implGenKey(nil, false)
	c.Case("sm2.reader", "genkey/empty", false, "sm2.genkey -")
	c.Check3("sm2.reader", "genkey/empty", "sm2.genkey -", "sm2.genkey.spec -", impl)
}

func runC12(c *Ctx) {
	c.res.Rule = "key generation over streams whose first candidates are 0, n-1, n, 2^256-1 before a valid one; TestPrivateKey on boundary values 0,1,n-2,n-1,n and random 32-byte strings (other lengths: model only); DerivePublic on valid keys, 0, n, n+1, wrong lengths; CheckOnCurve on on-curve pairs, every single-bit flip, coordinates >= p, wrong lengths; class = (operation, input class)"
	nRand := 30
	if c.tier == "thorough" {
		nRand = 1500
	}
	one := big.NewInt(1)
	max := new(big.Int).Sub(new(big.Int).Lsh(one, 256), one)
	boundary := map[string]*big.Int{"0": big.NewInt(0), "1": one, "n-2": new(big.Int).Sub(curveN, big.NewInt(2)), "n-1": new(big.Int).Sub(curveN, one), "n": curveN, "n+1": new(big.Int).Add(curveN, one), "max": max}
	gen := func(cl string, items []scriptItem) {
		impl := implGenKey(items, false)
		req := "sm2.genkey " + scriptString(items)
		c.Case("sm2.genkey", cl, false, req)
		c.Check3("sm2.genkey", cl, req, "sm2.genkey.spec "+scriptString(items), impl)
	}
	for name, v := range boundary {
		gen("first="+name, dataScript(be32(v), be32(randK(c))))
		gen("only="+name, dataScript(be32(v)))
	}
	for nrej := 1; nrej <= 4; nrej++ {
		var blob []byte
		for j := 0; j < nrej; j++ {
			blob = append(blob, be32([]*big.Int{boundary["0"], boundary["n"], boundary["max"], boundary["n-1"]}[j])...)
		}
		blob = append(blob, be32(randK(c))...)
		blob = append(blob, c.rng.Bytes(5)...)
		gen(fmt.Sprintf("one-item/%drejected", nrej), []scriptItem{{'d', blob}})
	}
	gen("four-rejected", dataScript(be32(boundary["0"]), be32(boundary["n-1"]), be32(boundary["n"]), be32(boundary["max"]), be32(randK(c))))
	// LONG runs of rejected candidates (the loop has no bound: a retry limit that gives up — or gives back the last
	// rejected candidate — after 16 draws shows only here; seeded C12-c), ending in a valid candidate or in the end of
	// the stream
	rej := []*big.Int{boundary["max"], boundary["n-1"], boundary["n"], boundary["0"], boundary["n+1"]}
	for _, nrej := range []int{8, 15, 16, 17, 18, 33, 70} {
		var chunks [][]byte
		for j := 0; j < nrej; j++ {
			chunks = append(chunks, be32(rej[(j+nrej)%len(rej)]))
		}
		gen(fmt.Sprintf("many-rejected/%d/then-end", bucket(nrej)), dataScript(chunks...))
		gen(fmt.Sprintf("many-rejected/%d/then-valid", bucket(nrej)), dataScript(append(chunks, be32(randK(c)))...))
	}
	for i := 0; i < nRand; i++ {
		gen("uniform", dataScript(c.rng.Bytes(32), c.rng.Bytes(32)))
	}
	test := func(cl string, b []byte) {
		impl := try(func() string { return fmt.Sprintf("ok %d", sm2.TestPrivateKey(b)) })
		req := "sm2.testkey " + hexOrDash(b)
		sreq := "sm2.testkey.spec " + hexOrDash(b)
		if len(b) != 32 {
			sreq = ""
		}
		c.Case("sm2.testkey", cl, false, req)
		c.Check3("sm2.testkey", cl, req, sreq, impl)
	}
	for name, v := range boundary {
		test("boundary/"+name, be32(v))
	}
	for l := 0; l <= 40; l++ {
		test(fmt.Sprintf("len%d", bucket(l)), c.rng.Bytes(l))
		test(fmt.Sprintf("zeros-len%d", bucket(l)), make([]byte, l))
	}
	for i := 0; i < nRand*4; i++ {
		test("random", randScalar(c))
	}
	derive := func(cl string, b []byte) {
		impl := implDerive(b)
		req := "sm2.derive " + hexOrDash(b)
		c.Case("sm2.derive", cl, false, req)
		c.Check3("sm2.derive", cl, req, "sm2.derive.spec "+hexOrDash(b), impl)
	}
	for name, v := range boundary {
		derive("boundary/"+name, be32(v))
	}
	for _, l := range []int{0, 1, 31, 33, 64} {
		derive("badlen", c.rng.Bytes(l))
	}
	for i := 0; i < nRand; i++ {
		derive("random", randScalar(c))
	}
	onc := func(cl string, x, y []byte) {
		impl := try(func() string { return fmt.Sprintf("ok %v", sm2.CheckOnCurve(x, y)) })
		req := fmt.Sprintf("sm2.oncurve %s %s", hexOrDash(x), hexOrDash(y))
		c.Case("sm2.oncurve", cl, false, req)
		c.Check3("sm2.oncurve", cl, req, fmt.Sprintf("sm2.oncurve.spec %s %s", hexOrDash(x), hexOrDash(y)), impl)
	}
	kp := randKey(c)
	onc("valid", kp.px, kp.py)
	onc("G", be32(curveGx), be32(curveGy))
	for i := 0; i < 512; i++ {
		if c.tier != "thorough" && i%6 != 0 {
			continue
		}
		x := append([]byte(nil), kp.px...)
		y := append([]byte(nil), kp.py...)
		if i < 256 {
			x[i/8] ^= 1 << uint(i%8)
		} else {
			y[(i-256)/8] ^= 1 << uint(i%8)
		}
		onc("bitflip", x, y)
	}
	for _, l := range []int{0, 31, 33} {
		onc("badlen", c.rng.Bytes(l), kp.py)
		onc("badlen", kp.px, c.rng.Bytes(l))
	}
	for tries, found := 0, 0; tries < 4000 && found < 5; tries++ {
		x := big.NewInt(int64(tries))
		rhs := new(big.Int).Exp(x, big.NewInt(3), curveP)
		rhs.Sub(rhs, new(big.Int).Mul(big.NewInt(3), x))
		rhs.Add(rhs, curveB)
		rhs.Mod(rhs, curveP)
		y := new(big.Int).ModSqrt(rhs, curveP)
		if y == nil {
			continue
		}
		found++
		onc("small-x", be32(x), be32(y))
		onc("x+p", be32(new(big.Int).Add(x, curveP)), be32(y))
	}
	for i := 0; i < nRand; i++ {
		onc("random", c.rng.Bytes(32), c.rng.Bytes(32))
	}
}

func init() {
	runners["C02"] = runC02
	runners["C19"] = runC19
	runners["C12"] = runC12
}
