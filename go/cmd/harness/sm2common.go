package main

import (
	"encoding/binary"
	"errors"
	"fmt"
	"io"
	"math/big"
	"strings"

	"github.com/bilibili/smgo/sm2"
)

// ---- scripted randomness source (same semantics as Model.SM2.readFull's script) -----------------

type scriptItem struct {
	kind byte // 'd' data, 'f' a Read returning (0, error), 'z' a Read returning (0, nil), 'e' data whose last byte comes TOGETHER with an error (one-shot: later items are delivered normally)
	data []byte
}

type scriptReader struct {
	items    []scriptItem
	consumed int
}

func (r *scriptReader) Read(p []byte) (int, error) {
	if len(r.items) == 0 {
		return 0, io.EOF
	}
	it := &r.items[0]
	switch it.kind {
	case 'f':
		r.items = r.items[1:]
		return 0, errors.New("scripted failure")
	case 'z':
		r.items = r.items[1:]
		return 0, nil
	case 'e':
		n := copy(p, it.data)
		it.data = it.data[n:]
		r.consumed += n
		if len(it.data) == 0 {
			r.items = r.items[1:]
			return n, errors.New("scripted failure delivered with data")
		}
		return n, nil
	}
	n := copy(p, it.data)
	it.data = it.data[n:]
	if len(it.data) == 0 {
		r.items = r.items[1:]
	}
	r.consumed += n
	return n, nil
}

func scriptString(items []scriptItem) string {
	if len(items) == 0 {
		return "-"
	}
	parts := make([]string, len(items))
	for i, it := range items {
		switch it.kind {
		case 'd':
			parts[i] = fmt.Sprintf("d%x", it.data)
		case 'e':
			// for the model and the specification "k bytes together with an error" is k bytes followed by a failing
			// Read (io.ReadFull stops at the error either way); generators keep such an item from ending exactly at
			// a 32-byte draw boundary, where io.ReadFull would drop the error
			parts[i] = fmt.Sprintf("d%x,f", it.data)
		default:
			parts[i] = string(it.kind)
		}
	}
	return strings.Join(parts, ",")
}

func cloneScript(items []scriptItem) []scriptItem {
	out := make([]scriptItem, len(items))
	for i, it := range items {
		out[i] = scriptItem{it.kind, append([]byte(nil), it.data...)}
	}
	return out
}

func parseScript(s string) []scriptItem {
	if s == "-" {
		return nil
	}
	var out []scriptItem
	for _, tok := range strings.Split(s, ",") {
		switch tok[0] {
		case 'd':
			out = append(out, scriptItem{'d', parseHexNil(tok[1:])})
		default:
			out = append(out, scriptItem{tok[0], nil})
		}
	}
	return out
}

func dataScript(chunks ...[]byte) []scriptItem {
	var out []scriptItem
	for _, c := range chunks {
		out = append(out, scriptItem{'d', append([]byte(nil), c...)})
	}
	return out
}

// ---- a small independent affine curve calculator, used only to *craft* inputs ---------------------

var (
	curveP, _  = new(big.Int).SetString("FFFFFFFEFFFFFFFFFFFFFFFFFFFFFFFFFFFFFFFF00000000FFFFFFFFFFFFFFFF", 16)
	curveN, _  = new(big.Int).SetString("FFFFFFFEFFFFFFFFFFFFFFFFFFFFFFFF7203DF6B21C6052B53BBF40939D54123", 16)
	curveB, _  = new(big.Int).SetString("28E9FA9E9D9F5E344D5A9E4BCF6509A7F39789F515AB8F92DDBCBD414D940E93", 16)
	curveGx, _ = new(big.Int).SetString("32C4AE2C1F1981195F9904466A39C9948FE30BBFF2660BE1715A4589334C74C7", 16)
	curveGy, _ = new(big.Int).SetString("BC3736A2F4F6779C59BDCEE36B692153D0A9877CC62A474002DF32E52139F0A0", 16)
)

type affPt struct {
	x, y *big.Int
	inf  bool
}

func affAdd(a, b affPt) affPt {
	if a.inf {
		return b
	}
	if b.inf {
		return a
	}
	p := curveP
	var l *big.Int
	if a.x.Cmp(b.x) == 0 {
		s := new(big.Int).Add(a.y, b.y)
		if s.Mod(s, p).Sign() == 0 {
			return affPt{inf: true}
		}
		num := new(big.Int).Mul(a.x, a.x)
		num.Mul(num, big.NewInt(3))
		num.Sub(num, big.NewInt(3))
		den := new(big.Int).Lsh(a.y, 1)
		den.ModInverse(den.Mod(den, p), p)
		l = num.Mul(num, den)
	} else {
		num := new(big.Int).Sub(b.y, a.y)
		den := new(big.Int).Sub(b.x, a.x)
		den.ModInverse(den.Mod(den, p), p)
		l = num.Mul(num, den)
	}
	l.Mod(l, p)
	x3 := new(big.Int).Mul(l, l)
	x3.Sub(x3, a.x)
	x3.Sub(x3, b.x)
	x3.Mod(x3, p)
	y3 := new(big.Int).Sub(a.x, x3)
	y3.Mul(y3, l)
	y3.Sub(y3, a.y)
	y3.Mod(y3, p)
	return affPt{x: x3, y: y3}
}

func affMul(k *big.Int, a affPt) affPt {
	r := affPt{inf: true}
	for i := k.BitLen() - 1; i >= 0; i-- {
		r = affAdd(r, r)
		if k.Bit(i) == 1 {
			r = affAdd(r, a)
		}
	}
	return r
}

func affG() affPt { return affPt{x: curveGx, y: curveGy} }

func be32(v *big.Int) []byte {
	b := v.Bytes()
	out := make([]byte, 32)
	copy(out[32-len(b):], b)
	return out
}

func modN(v *big.Int) *big.Int { return new(big.Int).Mod(v, curveN) }

func encodeAff(a affPt) []byte {
	if a.inf {
		return []byte{0}
	}
	return append(append([]byte{4}, be32(a.x)...), be32(a.y)...)
}

// ---- limbs ------------------------------------------------------------------------------------------

func limbsHex(l [4]uint64) string {
	b := make([]byte, 32)
	for i := 0; i < 4; i++ {
		binary.BigEndian.PutUint64(b[8*i:], l[i])
	}
	return fmt.Sprintf("%x", b)
}

func limbsOf(v *big.Int) (l [4]uint64) {
	b := be32(v)
	for i := 0; i < 4; i++ {
		l[i] = binary.BigEndian.Uint64(b[24-8*i:])
	}
	return
}

func ptHex(p *sm2.VerifPoint) string {
	x, y, z := p.VerifCoords()
	return limbsHex(x) + "/" + limbsHex(y) + "/" + limbsHex(z)
}

func randScalar(c *Ctx) []byte {
	b := c.rng.Bytes(32)
	switch c.rng.Intn(8) {
	case 0:
		for i := 0; i < 1+c.rng.Intn(20); i++ {
			b[i] = 0
		}
	case 1:
		for i := range b {
			b[i] = 0xff
		}
		b[c.rng.Intn(32)] = byte(c.rng.U64())
	case 2:
		b = be32(new(big.Int).Sub(curveN, big.NewInt(int64(c.rng.Intn(3)))))
	case 3:
		b = be32(new(big.Int).Add(curveN, big.NewInt(int64(c.rng.Intn(3)))))
	}
	return b
}
